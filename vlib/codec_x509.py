"""Case generator for the X.509 layer ops (models: coq/Codec/X509.v; harness: props/C14/harness_x509.inc).
For every decoder: valid objects covering every presence pattern of its OPTIONAL members and every table
row, hand-made malformed objects aimed at each test of the C text, element counts at capacity-1 / capacity /
capacity+1, then structure-aware mutations (truncations, length-octet and tag edits at every TLV, noise)."""
from vlib import core, oid_tables
from vlib.core import hexs
from vlib.codec_common import tlv, der_uint, b128, mutate, structured_mutations, pt_hints, sm2_pub_bytes, oid_siblings

_T = {}


def tables():
    if not _T:
        enum = oid_tables.enum_values(core.REPO)
        macros = {}
        oid_tables.parse_file(core.REPO, "include/gmssl/oid.h", macros)
        for cfile, name, coq in oid_tables.TABLES:
            _T[coq] = [(v, arcs) for v, arcs, _n, _f in oid_tables.table(core.REPO, cfile, name, enum, dict(macros))]
        _T["enum"] = enum
    return _T


def oid(arcs):
    return tlv(6, bytes([arcs[0] * 40 + arcs[1]]) + b"".join(b128(a) for a in arcs[2:]))


SEQ = lambda *xs: tlv(0x30, b"".join(xs))
SET = lambda *xs: tlv(0x31, b"".join(xs))
CTX = lambda i, c: tlv(0xa0 + i, c)
IMP = lambda i, c: tlv(0x80 + i, c)
NULL = b"\x05\x00"
UNKNOWN = [1, 2, 3, 4, 5]
TRUE, FALSE = b"\x01\x01\xff", b"\x01\x01\x00"


def gen_x509(ctx, scale=1):
    """scale: multiplier of the mutation budget (C06 part A uses more mutations, C14 more values)"""
    r = ctx.rng
    T = tables()
    K = (4 if ctx.tier == "thorough" else 1) * scale
    cases = []
    add = lambda line, cell: cases.append((line, cell))

    def fam(op, valid, bad=(), budget=6, hint=None, pre=""):
        name = op
        h = hint or (lambda b: "")
        for v in valid:
            add("%s %s%s%s" % (op, pre, hexs(v), h(v)), name + ":valid")
            add("%s %s%s%s" % (op, pre, hexs(v + r.bytes(r.range(1, 3))), h(v)), name + ":valid+trailing")
        for v in bad:
            add("%s %s%s%s" % (op, pre, hexs(v), h(v)), name + ":malformed")
        pool = list(valid)
        r.shuffle(pool)
        for v in pool[:max(2, 2 * K)]:
            for kind, m in oid_siblings(r, v, 4 * K):
                add("%s %s%s%s" % (op, pre, hexs(m), h(m)), name + ":" + kind.split("-high")[0])
        for v in pool[:max(2, 4 * K)]:
            for kind, m in structured_mutations(r, v, budget * K):
                add("%s %s%s%s" % (op, pre, hexs(m), h(m)), name + ":" + kind)
        for _ in range(4 * K):
            b = r.bytes(r.range(0, 10))
            add("%s %s%s" % (op, pre, hexs(b)), name + ":random-stream")

    generic_bad = [b"", b"\x30", b"\x30\x00", b"\x30\x01", b"\x30\x81", b"\x30\x80", b"\x31\x00", b"\x05\x00", SEQ(NULL), SEQ(oid(UNKNOWN)), b"\x30\x84\xff\xff\xff\xff"]

    # ---------------------------------------------------------------- AlgorithmIdentifiers
    for tab, e, d in (("tab_digest_algors", "xdgstE", "xdgstD"), ("tab_sign_algors", "xsigaE", "xsigaD"), ("tab_pke_algors", "xpkeE", "xpkeD")):
        ids = [i for i, _ in T[tab]]
        for i in ids + [0, -1, 1, 9999, T["tab_ext_ids"][0][0]]:
            add("%s %d" % (e, i), e + (":known" if i in ids else ":unknown"))
        valid = [SEQ(oid(a)) for _, a in T[tab]] + [SEQ(oid(a), NULL) for _, a in T[tab]]
        bad = [SEQ(oid(a), NULL, NULL) for _, a in T[tab][:2]] + [SEQ(oid(a), SEQ(der_uint(5))) for _, a in T[tab]] + [SEQ(oid(a), b"\x05") for _, a in T[tab][:2]] + \
              [SEQ(oid(a), b"\x05\x01\x00") for _, a in T[tab][:2]] + [SEQ(NULL, oid(T[tab][0][1]))] + generic_bad
        fam(d, valid, bad, 8)

    # ---------------------------------------------------------------- Extension, Extensions
    ext_oids = [a for _, a in T["tab_ext_ids"]] + [UNKNOWN, [1, 2] + [7] * 30, [2, 5, 29]]
    fam("xextidD", [oid(a) for a in ext_oids], [oid([1, 2] + [7] * 31), b"\x06\x00", b"\x06\x01\x80", NULL, b""], 4)
    def ext(a, crit=None, val=b"\x30\x00", extra=b""):
        return SEQ(oid(a), b"" if crit is None else crit, b"" if val is None else tlv(4, val), extra)
    exts_valid = [ext(a, c, v) for a in ext_oids[:6] + [UNKNOWN] for c in (None, TRUE, FALSE) for v in (b"", b"\x30\x00", r.bytes(9))]
    exts_bad = [ext(ext_oids[0], b"\x01\x01\x01"), ext(ext_oids[0], b"\x01\x02\xff\xff"), ext(ext_oids[0], b"\x01\x00"), ext(ext_oids[0], TRUE, None), ext(ext_oids[0], None, None),
                ext(ext_oids[0], TRUE, b"\x00", NULL), SEQ(TRUE, tlv(4, b"x")), SEQ(oid(ext_oids[0]), tlv(4, b"x"), TRUE), SEQ(oid([1, 2] + [7] * 31), tlv(4, b"x"))] + generic_bad
    fam("xextD", exts_valid[:14], exts_bad, 6)
    ids = [i for i, _ in T["tab_ext_ids"]]
    for _ in range(10 * K):
        picks = [r.below(len(T["tab_ext_ids"])) for _ in range(r.range(0, 5))]
        body = b"".join(ext(T["tab_ext_ids"][k][1], r.choice([None, TRUE, FALSE]), r.bytes(r.range(0, 6))) for k in picks)
        want = r.choice([T["tab_ext_ids"][k][0] for k in picks] + [ids[0], 0, -1, 12345])
        add("xextsget %d %s" % (want, hexs(body)), "xextsget:%s" % ("present" if want in [T["tab_ext_ids"][k][0] for k in picks] else "absent"))
        bad = r.choice(exts_bad)
        add("xextsget %d %s" % (want, hexs(body + bad)), "xextsget:malformed-after")
        add("xextsget %d %s" % (want, hexs(bad + body)), "xextsget:malformed-before")
        add("xextsget 0 %s" % hexs(body + ext(UNKNOWN, TRUE, b"zz")), "xextsget:unknown-oid-as-0")
        for kind, m in structured_mutations(r, body, 4 * K)[:12 * K]:
            add("xextsget %d %s" % (want, hexs(m)), "xextsget:" + kind)

    # ---------------------------------------------------------------- OtherName, GeneralName(s)
    fam("xothernD", [SEQ(oid(UNKNOWN), CTX(0, tlv(12, b"abc"))), SEQ(oid([2, 5, 4, 3]), CTX(0, NULL))],
        [SEQ(oid(UNKNOWN), CTX(0, b"")), SEQ(oid(UNKNOWN)), SEQ(oid(UNKNOWN), CTX(1, NULL)), SEQ(oid(UNKNOWN), CTX(0, NULL), NULL), SEQ(CTX(0, NULL))] + generic_bad, 6)
    gn_tags = [0xa0, 0x81, 0x82, 0xa3, 0xa4, 0xa5, 0x86, 0x87, 0x88]
    gns1 = [tlv(t, c) for t in gn_tags for c in (b"", b"http://a.b/c.crl", r.bytes(5))]
    fam("xgnD", gns1[:18], [tlv(t, b"x") for t in (0x80, 0xa1, 0xa2, 0x83, 0x84, 0x85, 0xa6, 0xa7, 0xa8, 0x89, 0x30, 0x04, 0x06, 0x00, 0xff)] + [b"", b"\x86", b"\x86\x05abc"], 4)
    for _ in range(12 * K):
        items = [tlv(r.choice(gn_tags), r.bytes(r.range(0, 6))) for _ in range(r.range(0, 5))]
        g = b"".join(items)
        c = r.below(10) - 0
        add("xgnsfirst %d %s" % (c, hexs(g)), "xgnsfirst:" + ("empty" if not g else "scan"))
        offs = [0]
        for it in items:
            offs.append(offs[-1] + len(it))
        for off in set(offs + [len(g) + 1, len(g) + 7, 1, max(0, len(g) - 1)]):
            add("xgnsnext %d %d %s" % (c, off, hexs(g)), "xgnsnext:" + ("boundary" if off in offs else ("past-end" if off > len(g) else "inside")))
        bad = g + tlv(r.choice([0x80, 0xa1, 0x30, 0x89]), b"q")
        add("xgnsfirst %d %s" % (c, hexs(bad)), "xgnsfirst:bad-choice-inside")
        add("xgnsfirst %d %s" % (c, hexs(g + b"\x86\x09ab")), "xgnsfirst:truncated-last")
        for tag in (0x30, 0xa0, 0xa6):
            add("xurignsD %d %s" % (tag, hexs(tlv(tag, g))), "xurignsD:" + ("uri" if any(i[0] == 0x86 for i in items) else "no-uri"))
            add("xurignsD %d %s" % (tag, hexs(tlv(tag, bad))), "xurignsD:malformed")
    add("xurignsD 48 %s" % hexs(b""), "xurignsD:absent"); add("xurignsD 48 %s" % hexs(NULL), "xurignsD:absent")

    # ---------------------------------------------------------------- AKI, BasicConstraints
    aki_valid = [SEQ(*(p for p, on in ((IMP(0, r.bytes(20)), a), (CTX(1, tlv(0xa4, SEQ())), b), (IMP(2, b"\x01\x02\x03"), c)) if on)) for a in (0, 1) for b in (0, 1) for c in (0, 1)]
    aki_bad = [SEQ(CTX(1, b"")), SEQ(IMP(2, b"")), SEQ(IMP(2, b"\x80")), SEQ(IMP(2, b"\x00\x01")), SEQ(IMP(0, b""), IMP(0, b"")), SEQ(IMP(2, b"\x01"), IMP(0, b"\x01")), SEQ(IMP(0, b"k"), NULL), SEQ(IMP(3, b"k"))] + generic_bad
    fam("xakiD", aki_valid + [SEQ(IMP(0, b""))], aki_bad, 8)
    bc_valid = [SEQ(ca, pl) for ca in (b"", TRUE, FALSE) for pl in (b"", der_uint(0), der_uint(5), der_uint(2**31 - 1)) if ca or pl]
    bc_bad = [SEQ(), SEQ(TRUE, der_uint(2**31)), SEQ(TRUE, der_uint(2**32)), SEQ(TRUE, b"\x02\x01\x80"), SEQ(der_uint(1), TRUE), SEQ(TRUE, TRUE), SEQ(TRUE, der_uint(1), NULL), SEQ(b"\x01\x01\x7f"), SEQ(b"\x02\x00")] + generic_bad
    fam("xbcD", bc_valid, bc_bad, 8)

    # ---------------------------------------------------------------- DisplayText, NoticeReference, UserNotice
    texts = [tlv(t, c) for t in (22, 26, 12) for c in (b"a", b"GmSSL CPS text", b"x" * 200)] + [tlv(30, b"\x00a\x00b"), tlv(30, b"\x00a" * 100)]
    texts_bad = [tlv(22, b""), tlv(12, b"x" * 201), tlv(26, b"a\x00b"), tlv(22, b"\x00"), tlv(30, b"\x00a\x00"), tlv(30, b""), tlv(30, b"\x00a" * 101), tlv(19, b"abc"), tlv(20, b"abc"), tlv(4, b"abc"), b"", b"\x16", b"\x16\x05ab"]
    fam("xdtextD", texts, texts_bad, 4)
    ints = lambda n: SEQ(*(der_uint(r.below(1 << r.range(1, 30))) for _ in range(n)))
    for mx in (0, 1, 2, 4):
        for c in (max(0, mx - 1), mx, mx + 1, mx + 3):
            v = SEQ(r.choice(texts), ints(c))
            cell = "count%s" % ("<=max" if c <= mx else ("max+1" if c == mx + 1 else ">max+1"))
            add("xnrefD %d %s" % (mx, hexs(v)), "xnrefD:" + cell)
            add("xunoticeD %d %s" % (mx, hexs(SEQ(v, r.choice(texts)))), "xunoticeD:" + cell)
            add("xunoticeD %d %s" % (mx, hexs(SEQ(v))), "xunoticeD:noref-text-absent:" + cell)
    fam("xnrefD", [SEQ(t, ints(2)) for t in texts[:4]], [SEQ(texts_bad[0], ints(1)), SEQ(ints(1)), SEQ(texts[0]), SEQ(texts[0], ints(1), NULL), SEQ(texts[0], SEQ(NULL)), SEQ(texts[0], SEQ(der_uint(2**31)))] + generic_bad, 6, pre="4 ")
    fam("xunoticeD", [SEQ(SEQ(texts[0], ints(2)), texts[3]), SEQ(texts[1]), SEQ(SEQ(texts[2], ints(1))), SEQ()],
        [SEQ(texts[0], SEQ(texts[0], ints(1))), SEQ(texts[0], texts[1]), SEQ(texts_bad[1]), SEQ(SEQ(texts[0], ints(1)), NULL), SEQ(NULL)] + generic_bad, 6, pre="4 ")

    # ---------------------------------------------------------------- policies, attribute
    qt = [a for _, a in T["tab_qt_ids"]]
    fam("xpqiD", [SEQ(oid(qt[0]), tlv(22, b"http://cps")), SEQ(oid(qt[1]), SEQ(texts[0]))], [SEQ(oid(qt[0])), SEQ(oid(UNKNOWN), NULL), SEQ(oid(qt[0]), NULL, NULL), SEQ(NULL, oid(qt[0])), SEQ(oid(qt[0]), b"\x16\x05ab")] + generic_bad, 6)
    anyp = [2, 5, 29, 32, 0]
    fam("xcpidD", [oid(anyp), oid(UNKNOWN), oid([2, 5, 29, 32]), oid(anyp + [1])], [oid([1, 2] + [7] * 31), NULL, b""], 3)
    fam("xpolinfoD", [SEQ(oid(anyp)), SEQ(oid(UNKNOWN), SEQ(SEQ(oid(qt[0]), tlv(22, b"u")))), SEQ(oid(anyp), SEQ())], [SEQ(), SEQ(oid(anyp), NULL), SEQ(oid(anyp), SEQ(), SEQ()), SEQ(SEQ())] + generic_bad, 6)
    fam("xpolmapD", [SEQ(oid(anyp), oid(UNKNOWN)), SEQ(oid(UNKNOWN), oid(anyp))], [SEQ(oid(anyp)), SEQ(oid(anyp), oid(anyp), oid(anyp)), SEQ(oid(anyp), NULL)] + generic_bad, 6)
    fam("xattrD", [SEQ(oid(UNKNOWN), SET(tlv(12, b"v"))), SEQ(oid([2, 5, 4, 3]), SET(NULL, NULL))], [SEQ(oid(UNKNOWN), SET()), SEQ(oid(UNKNOWN)), SEQ(oid(UNKNOWN), SEQ(NULL)), SEQ(oid(UNKNOWN), SET(NULL), NULL)] + generic_bad, 6)

    # ---------------------------------------------------------------- GeneralSubtree, Name / Policy constraints
    gs_valid = [SEQ(tlv(0x82, b"example.com"), mn, mx) for mn in (b"", IMP(0, b"\x00"), IMP(0, b"\x05")) for mx in (b"", IMP(1, b"\x09"))]
    fam("xgsubD", gs_valid, [SEQ(IMP(0, b"\x00")), SEQ(tlv(0x82, b"a"), IMP(1, b"\x01"), IMP(0, b"\x01")), SEQ(tlv(0x82, b"a"), IMP(0, b"")), SEQ(tlv(0x82, b"a"), IMP(0, b"\x80\x00\x00\x00\x00")),
                           SEQ(tlv(0x89, b"a")), SEQ(tlv(0x82, b"a"), NULL)] + generic_bad, 6)
    sub = SEQ(tlv(0x82, b"a.b"))
    fam("xncD", [SEQ(CTX(0, sub)), SEQ(CTX(1, sub)), SEQ(CTX(0, sub), CTX(1, sub + sub)), SEQ()], [SEQ(CTX(0, b"")), SEQ(CTX(1, sub), CTX(0, sub)), SEQ(CTX(0, sub), CTX(1, b"")), SEQ(CTX(2, sub)), SEQ(CTX(0, sub), NULL)] + generic_bad, 6)
    fam("xpcD", [SEQ(a, b) for a in (b"", IMP(0, b"\x00"), IMP(0, b"\x7f")) for b in (b"", IMP(1, b"\x03")) if a or b], [SEQ(), SEQ(IMP(1, b"\x01"), IMP(0, b"\x01")), SEQ(IMP(0, b"")), SEQ(IMP(0, b"\x01"), NULL), SEQ(IMP(2, b"\x01"))] + generic_bad, 6)

    # ---------------------------------------------------------------- KeyPurposeId, ExtKeyUsage with its capacity
    kps = T["tab_key_purposes"]
    fam("xkpD", [oid(a) for _, a in kps], [oid(UNKNOWN), oid(kps[1][1][:-1]), NULL, b"", b"\x06\x00"], 3)
    for mx in (0, 1, 2, 3, 7, 8):
        for c in sorted(set([0, max(0, mx - 1), mx, mx + 1, mx + 2, 9])):
            body = b"".join(oid(kps[r.below(len(kps))][1]) for _ in range(c))
            cell = "count%s" % ("<=max" if c <= mx else ("max+1" if c == mx + 1 else ">max+1"))
            add("xekuD %d %s" % (mx, hexs(SEQ(body))), "xekuD:" + cell)
            add("xekuD %d %s" % (mx, hexs(SEQ(body, oid(UNKNOWN)))), "xekuD:unknown-purpose:" + cell)
            add("xekuD %d %s" % (mx, hexs(SEQ(body) + b"\x00")), "xekuD:trailing:" + cell)
            for kind, m in structured_mutations(r, SEQ(body), 3 * K)[:8 * K]:
                add("xekuD %d %s" % (mx, hexs(m)), "xekuD:" + kind)
    kid = [i for i, _ in kps]
    for c in (0, 1, 2, 6, 7, 8, 9):
        add("xekuE %s" % (",".join(str(r.choice(kid)) for _ in range(c)) or "."), "xekuE:count%s" % ("<=7" if c <= 7 else ">7"))
    add("xekuE %d,0" % kid[0], "xekuE:unknown"); add("xekuE -1", "xekuE:unknown"); add("xekuE %d,%d,99999" % (kid[0], kid[1]), "xekuE:unknown")

    # ---------------------------------------------------------------- distribution points
    uri = tlv(0x86, b"http://crl.example/ca.crl")
    gns_uri, gns_nouri = tlv(0x82, b"dns") + uri, tlv(0x82, b"dns") + tlv(0x81, b"m@x")
    dpn_full, dpn_full_nouri, dpn_rel = CTX(0, gns_uri), CTX(0, gns_nouri), CTX(1, SET(SEQ(oid([2, 5, 4, 3]), tlv(12, b"x"))))
    fam("xdpnD", [dpn_full, dpn_rel, CTX(0, b"")], [CTX(2, gns_uri), tlv(0x80, b"x"), SEQ(), b""], 4)
    fam("xuridpnD", [dpn_full, dpn_full_nouri, dpn_rel, CTX(1, b"")], [CTX(0, b""), CTX(0, tlv(0x89, b"x")), CTX(2, gns_uri), b"", NULL], 6)
    for ix in (0, 1):
        fam("xuriedpnD", [CTX(ix, d) for d in (dpn_full, dpn_full_nouri, dpn_rel)], [CTX(ix, b""), CTX(ix, dpn_full + NULL), CTX(ix, NULL), CTX(1 - ix, dpn_full), CTX(ix, CTX(0, b""))], 4, pre="%d " % ix)
    reasons, issuer = tlv(3, b"\x01\xfe"), SEQ(tlv(0x82, b"issuer"))
    dps = [SEQ(a, b, c) for a in (b"", CTX(0, dpn_full), CTX(0, dpn_full_nouri), CTX(0, dpn_rel)) for b in (b"", reasons) for c in (b"", issuer)]
    dp_bad = [SEQ(CTX(0, b"")), SEQ(reasons, CTX(0, dpn_full)), SEQ(CTX(0, dpn_full), IMP(1, b"\x01\xfe")), SEQ(CTX(0, dpn_full), tlv(3, b"\x00" + b"\xff" * 5)), SEQ(CTX(0, dpn_full), NULL), SEQ(CTX(0, CTX(0, b"")))] + generic_bad
    fam("xuridpD", dps, dp_bad, 6)
    for _ in range(10 * K):
        seq = [r.choice(dps) for _ in range(r.range(0, 4))]
        add("xuridpsD %s" % hexs(SEQ(*seq)), "xuridpsD:%d-points" % min(len(seq), 2))
        add("xuridpsD %s" % hexs(SEQ(*(seq + [r.choice(dp_bad)]))), "xuridpsD:malformed-last")
    fam("xuridpsD", [SEQ(dps[0]), SEQ(dps[12]), SEQ(dps[8], dps[0]), SEQ(dps[8], dps[4]), SEQ(dps[0], dps[4]), SEQ()], generic_bad, 6)

    # ---------------------------------------------------------------- AuthorityInfoAccess
    am = T["tab_access_methods"]
    fam("xaccmD", [oid(a) for _, a in am], [oid(UNKNOWN), NULL, b"", oid([1, 2] + [7] * 31)], 3)
    ads = [SEQ(oid(a), tlv(0x86, u)) for _, a in am for u in (b"http://ocsp", b"u")]
    ad_bad = [SEQ(oid(am[0][1]), tlv(0x86, b"")), SEQ(oid(am[0][1]), tlv(0x82, b"dns")), SEQ(oid(UNKNOWN), uri), SEQ(oid(am[0][1])), SEQ(oid(am[0][1]), uri, NULL), SEQ(uri, oid(am[0][1]))] + generic_bad
    fam("xaccdD", ads, ad_bad, 6)
    fam("xaiaD", [SEQ(ads[0]), SEQ(ads[2]), SEQ(ads[0], ads[2]), SEQ(ads[2], ads[1])], [SEQ(), SEQ(ads[0], ads[1]), SEQ(ads[2], ads[3]), SEQ(ads[0], ads[2], ads[0])] + [SEQ(ads[0], b) for b in ad_bad[:6]] + generic_bad, 8)

    # ---------------------------------------------------------------- names
    strs = [tlv(t, c) for t in (20, 19, 28, 12) for c in (b"CN", b"GmSSL test")] + [tlv(30, b"\x00C\x00N")]
    strs_bad = [tlv(12, b""), tlv(19, b"a\x00"), tlv(30, b"\x00C\x00"), tlv(22, b"ia5"), tlv(4, b"oct"), b"", b"\x0c", b"\x0c\x05ab"]
    fam("xdirnD", strs, strs_bad, 4)
    for ix in (0, 1):
        fam("xedirnD", [CTX(ix, s) for s in strs[:5]], [CTX(ix, b""), CTX(ix, strs[0] + NULL), CTX(ix, strs_bad[0]), CTX(ix, strs_bad[3]), CTX(1 - ix, strs[0])], 4, pre="%d " % ix)
    fam("xediD", [SEQ(CTX(0, strs[0]), CTX(1, strs[2])), SEQ(CTX(1, strs[3]))], [SEQ(CTX(0, strs[0])), SEQ(), SEQ(CTX(1, strs[0]), CTX(0, strs[0])), SEQ(CTX(1, strs[0]), NULL), SEQ(CTX(1, strs_bad[0]))] + generic_bad, 6)
    nt = dict(T["tab_name_types"])
    E = T["enum"]
    lim = {"OID_at_country_name": (2, 2, 1), "OID_at_common_name": (1, 64, 0), "OID_at_serial_number": (1, 64, 1), "OID_at_locality_name": (1, 128, 0), "OID_at_organization_name": (1, 64, 0)}
    atv_valid, atv_bad = [], []
    for nm, (mn, mx, prn) in lim.items():
        a = nt[E[nm]]
        for n in (mn, mx):
            atv_valid.append(SEQ(oid(a), tlv(19, b"A" * n)))
            if not prn:
                atv_valid.append(SEQ(oid(a), tlv(12, b"u" * n)))
        atv_bad += [SEQ(oid(a), tlv(19, b"A" * (mx + 1))), SEQ(oid(a), tlv(19, b"A" * (mn - 1)))] + ([SEQ(oid(a), tlv(12, b"A" * mn))] if prn else [])
    a_cn = nt[E["OID_at_common_name"]]
    atv_bad += [SEQ(oid(nt[E["OID_domain_component"]]), tlv(19, b"dc")), SEQ(oid(nt[E["OID_email_address"]]), tlv(19, b"e")), SEQ(oid(nt[E["OID_at_name"]]), tlv(19, b"n")), SEQ(oid(UNKNOWN), tlv(19, b"x")),
                SEQ(oid(a_cn), tlv(22, b"ia5")), SEQ(oid(a_cn), tlv(19, b"x"), NULL), SEQ(oid(a_cn)), SEQ(tlv(19, b"x"), oid(a_cn)), SEQ(oid(a_cn), tlv(30, b"\x00a\x00"))] + generic_bad
    fam("xatvD", atv_valid, atv_bad, 6)
    rdns = [SET(atv_valid[0]), SET(atv_valid[2], atv_valid[4]), SET(atv_valid[2], atv_valid[3], atv_valid[6])]
    rdn_bad = [SET(), SET(atv_valid[0], atv_bad[0]), SET(atv_bad[0]), SET(atv_valid[0], NULL), SET(NULL), SEQ(atv_valid[0])] + generic_bad
    fam("xrdnD", rdns, rdn_bad, 6)
    for v in [b"", atv_valid[0], atv_valid[0] + atv_valid[2], atv_valid[0] + atv_bad[0], atv_bad[0], atv_valid[0] + b"\x30"] + [m for _, m in structured_mutations(r, atv_valid[2] + atv_valid[4], 6 * K)]:
        add("xrdnchk %s" % hexs(v), "xrdnchk")
    names = [b"".join(rdns[:k]) for k in (0, 1, 2, 3)]
    for v in names + [rdns[0] + rdn_bad[0], rdns[0] + rdn_bad[1], rdn_bad[2], rdns[0] + SEQ(), rdns[0] + b"\x31"] + [m for _, m in structured_mutations(r, names[3], 8 * K)]:
        add("xnamechk %s" % hexs(v), "xnamechk")

    # ---------------------------------------------------------------- version, Time, Validity, Extensions
    for ix in (0, 3):
        fam("xverD", [CTX(ix, der_uint(v)) for v in (0, 1, 2)], [CTX(ix, der_uint(3)), CTX(ix, der_uint(255)), CTX(ix, b"\x02\x01\xff"), CTX(ix, b""), CTX(ix, der_uint(1) + NULL), CTX(ix, NULL), CTX(ix + 1, der_uint(1)), b""], 4, pre="%d " % ix)
    t_ok = [tlv(23, b"250101000000Z"), tlv(23, b"491231235959Z"), tlv(23, b"700101000000Z"), tlv(24, b"20250101000000Z"), tlv(24, b"99991231235959Z"), tlv(24, b"19700101000000Z")]
    t_bad = [tlv(23, b"690101000000Z"), tlv(23, b"500101000000Z"), tlv(24, b"19691231235959Z"), tlv(23, b"250101000000"), tlv(24, b"20250101000000"), tlv(23, b"251301000000Z"), tlv(23, b"2501010000Z"), tlv(22, b"250101000000Z"), tlv(23, b""), b"", b"\x17", b"\x18\x0f2025"]
    fam("xtimeD", t_ok, t_bad, 4)
    fam("xvalidD", [SEQ(t_ok[0], t_ok[1]), SEQ(t_ok[0], t_ok[4]), SEQ(t_ok[3], t_ok[1]), SEQ(t_ok[2], t_ok[0])],
        [SEQ(t_ok[1], t_ok[0]), SEQ(t_ok[0], t_ok[0]), SEQ(t_ok[0], t_ok[3]), SEQ(t_ok[0]), SEQ(), SEQ(t_ok[0], t_ok[1], NULL), SEQ(t_ok[0], t_bad[0]), SEQ(t_bad[3], t_ok[1]), SEQ(NULL, t_ok[1])] + generic_bad, 8)
    some_exts = SEQ(ext(ext_oids[8], TRUE, SEQ(TRUE)), ext(ext_oids[2], None, tlv(3, b"\x01\x06")))
    for ix in (3, 0):
        fam("xxextsD", [CTX(ix, some_exts), CTX(ix, SEQ())], [CTX(ix, b""), CTX(ix, some_exts + NULL), CTX(ix, NULL), CTX(ix, SET()), CTX(ix + 1, some_exts), b""], 4, pre="%d " % ix)

    # ---------------------------------------------------------------- TBSCertificate, signed wrapper, Certificate
    d = r.bytes(32)
    xy = sm2_pub_bytes(d)
    sm2alg = SEQ(oid(dict(T["tab_public_key_algors"])[E["OID_ec_public_key"]]), oid(dict(T["tab_named_curves"])[E["OID_sm2"]]))
    spki = SEQ(sm2alg, tlv(3, b"\x00\x04" + xy))
    spki_bad = SEQ(sm2alg, tlv(3, b"\x00\x04" + xy[:63] + bytes([xy[63] ^ 1])))
    sigalg = SEQ(oid(dict(T["tab_sign_algors"])[E["OID_sm2sign_with_sm3"]]))
    name = SEQ(*rdns[:2])
    validity = SEQ(t_ok[0], t_ok[1])
    def tbs(ver=CTX(0, der_uint(2)), serial=der_uint(0x1234567890), alg=sigalg, issuer=name, val=validity, subject=name, key=spki, iu=b"", su=b"", exts=CTX(3, some_exts), extra=b""):
        return SEQ(ver, serial, alg, issuer, val, subject, key, iu, su, exts, extra)
    tbs_valid = [tbs(), tbs(ver=b""), tbs(exts=b""), tbs(iu=IMP(1, b"\x00\xaa\xbb"), su=IMP(2, b"\x00\xcc")), tbs(ver=CTX(0, der_uint(0)), exts=b"", su=IMP(2, b"\x00")), tbs(issuer=SEQ(), subject=SEQ(NULL)),
                 tbs(alg=SEQ(oid(T["tab_sign_algors"][4][1])), serial=der_uint(0))]
    tbs_bad = [tbs(key=spki_bad), tbs(ver=CTX(0, der_uint(3))), tbs(serial=b""), tbs(serial=b"\x02\x01\x80"), tbs(alg=SEQ(oid(UNKNOWN))), tbs(val=SEQ(t_ok[1], t_ok[0])), tbs(issuer=SET()), tbs(extra=NULL),
               tbs(iu=IMP(2, b"\x00\x01"), su=IMP(1, b"\x00\x01")), tbs(iu=IMP(1, b"\x01\xaa")), tbs(exts=CTX(3, b"")), tbs(key=SEQ(sm2alg)), tbs(key=b""), tbs(ver=CTX(0, b"")), tbs(exts=CTX(3, some_exts) + CTX(3, some_exts))] + generic_bad
    fam("xtbsD", tbs_valid, tbs_bad, 10, hint=pt_hints)
    sig = tlv(3, b"\x00" + SEQ(der_uint(int.from_bytes(r.bytes(32), "big")), der_uint(int.from_bytes(r.bytes(32), "big"))))
    signed = lambda t, a=sigalg, s=sig, extra=b"": SEQ(t, a, s, extra)
    fam("xsignedD", [signed(tbs_valid[0]), signed(NULL), signed(tbs_valid[1], SEQ(oid(T["tab_sign_algors"][9][1]), NULL), tlv(3, b"\x00"))],
        [signed(b""), signed(NULL, NULL), signed(NULL, sigalg, tlv(3, b"\x01\xaa")), signed(NULL, sigalg, tlv(4, b"s")), signed(NULL, extra=NULL), signed(NULL, sigalg, b"")] + generic_bad, 8)
    certs = [signed(t) for t in tbs_valid]
    certs_bad = [signed(t) for t in tbs_bad[:12]] + [signed(NULL), signed(tbs_valid[0], extra=NULL), signed(tbs_valid[0], SEQ(oid(UNKNOWN))), signed(tbs_valid[0], s=b"")]
    fam("xcertD", certs, certs_bad, 10, hint=pt_hints)
    fam("xcertdet", certs[:4], certs_bad[:8] + [certs[0] + NULL], 10, hint=pt_hints)
    return cases
