"""Plain-python SM2 curve arithmetic used ONLY by the case generators of C01/C02 (to derive
public keys, to aim digests at r = 0 / s = 0 / r + k = n, to build forged or off-curve inputs).
It is never used to decide a verdict: both sides of the correspondence receive the same inputs,
the expected results come from the Coq model."""
p = 0xFFFFFFFEFFFFFFFFFFFFFFFFFFFFFFFFFFFFFFFF00000000FFFFFFFFFFFFFFFF
a = p - 3
b = 0x28E9FA9E9D9F5E344D5A9E4BCF6509A7F39789F515AB8F92DDBCBD414D940E93
n = 0xFFFFFFFEFFFFFFFFFFFFFFFFFFFFFFFF7203DF6B21C6052B53BBF40939D54123
G = (0x32C4AE2C1F1981195F9904466A39C9948FE30BBFF2660BE1715A4589334C74C7,
     0xBC3736A2F4F6779C59BDCEE36B692153D0A9877CC62A474002DF32E52139F0A0)


def inv(x, m):
    return pow(x, -1, m)


def add(P, Q):
    if P is None: return Q
    if Q is None: return P
    x1, y1 = P; x2, y2 = Q
    if x1 == x2:
        if (y1 + y2) % p == 0: return None
        lam = (3 * x1 * x1 + a) * inv(2 * y1, p) % p
    else:
        lam = (y2 - y1) * inv(x2 - x1, p) % p
    x3 = (lam * lam - x1 - x2) % p
    return (x3, (lam * (x1 - x3) - y1) % p)


def mul(k, P):
    R = None
    for bit in bin(k)[2:] if k > 0 else "":
        R = add(R, R)
        if bit == "1": R = add(R, P)
    return R


def on_curve(P):
    if P is None: return True
    x, y = P
    return (y * y - (x * x * x + a * x + b)) % p == 0


def h64(x):
    return "%064x" % x


def pt_hex(P):
    return h64(P[0]) + h64(P[1])


def le32(k):
    """the 32 entropy bytes that make sm2_z256_rand_range produce k (little-endian limbs)"""
    return k.to_bytes(32, "little").hex()


def sign(d, e, k):
    x1 = mul(k, G)[0]
    r = (e + x1) % n
    s = inv(1 + d, n) * (k - r * d) % n
    return r, s


def lift_x(x, odd):
    """a point with this x (or None)"""
    rhs = (x * x * x + a * x + b) % p
    y = pow(rhs, (p + 1) // 4, p)
    if y * y % p != rhs: return None
    if (y & 1) != odd: y = p - y
    return (x, y)


def der_len(l):
    if l < 128: return bytes([l])
    if l < 256: return bytes([0x81, l])
    return bytes([0x82, l >> 8, l & 255])


def der_int(x):
    bs = x.to_bytes(32, "big").lstrip(b"\0") or b"\0"
    if bs[0] & 0x80: bs = b"\0" + bs
    return b"\x02" + der_len(len(bs)) + bs


def der_sig(r, s):
    body = der_int(r) + der_int(s)
    return b"\x30" + der_len(len(body)) + body


def der_octets(bs):
    return b"\x04" + der_len(len(bs)) + bs


def der_ct(x, y, h, c):
    body = der_int(x) + der_int(y) + der_octets(h) + der_octets(c)
    return b"\x30" + der_len(len(body)) + body


# ---- roots of a monic cubic over GF(p) (generator side only: used to construct curve points whose
#      y^2 has a chosen Montgomery representation, e.g. mont(y^2) < 2^256 - p) ----
def _pmulmod(a, b, f):
    """a*b mod f, polynomials as coefficient lists (low first), f monic of degree 3"""
    r = [0] * (len(a) + len(b) - 1)
    for i, x in enumerate(a):
        if x:
            for j, y in enumerate(b):
                r[i + j] = (r[i + j] + x * y) % p
    while len(r) > 3:
        c = r.pop()
        d = len(r) - 3
        for i in range(3):
            r[d + i] = (r[d + i] - c * f[i]) % p
    return r + [0] * (3 - len(r))


def _ppow(base, e, f):
    r = [1, 0, 0]
    while e:
        if e & 1: r = _pmulmod(r, base, f)
        base = _pmulmod(base, base, f)
        e >>= 1
    return r


def _pgcd(a, b):
    def trim(x):
        while x and x[-1] == 0: x = x[:-1]
        return x
    a, b = trim(a[:]), trim(b[:])
    while b:
        while len(a) >= len(b):
            c = a[-1] * inv(b[-1], p) % p
            d = len(a) - len(b)
            for i in range(len(b)):
                a[d + i] = (a[d + i] - c * b[i]) % p
            a = trim(a)
            if not a: break
        a, b = b, a
    if a:
        c = inv(a[-1], p)
        a = [x * c % p for x in a]
    return a


def cubic_roots(c2, c1, c0, rnd):
    """roots in GF(p) of x^3 + c2 x^2 + c1 x + c0"""
    f = [c0 % p, c1 % p, c2 % p]            # without the leading 1
    full = f + [1]
    xp = _ppow([0, 1, 0], p, f)             # x^p mod f
    g = _pgcd(full, [(xp[0]) % p, (xp[1] - 1) % p, xp[2]])   # gcd(f, x^p - x): product of the linear factors
    roots = []
    def split(h):
        deg = len(h) - 1
        if deg <= 0: return
        if deg == 1:
            roots.append((-h[0]) % p); return
        while True:
            a = rnd(p)
            # (x + a)^((p-1)/2) - 1 mod h
            if deg == 3:
                t = _ppow([a, 1, 0], (p - 1) // 2, h[:3])
                t[0] = (t[0] - 1) % p
                d = _pgcd(h, t)
            else:   # degree 2: work modulo h by padding to a cubic h * (x)
                hh = [0] + h[:]          # x * h, monic cubic
                t = _ppow([a, 1, 0], (p - 1) // 2, hh[:3])
                t[0] = (t[0] - 1) % p
                d = _pgcd(h, t)
            if 0 < len(d) - 1 < deg:
                split(d)
                # quotient h / d
                q, rem = [], h[:]
                while len(rem) >= len(d):
                    c = rem[-1]
                    q.insert(0, c)
                    for i in range(len(d)):
                        rem[len(rem) - len(d) + i] = (rem[len(rem) - len(d) + i] - c * d[i]) % p
                    rem.pop()
                split(q)
                return
    split(g)
    return sorted(set(roots))


R256 = 2 ** 256


def points_with_mont_ysq(v, rnd):
    """curve points whose y^2 has Montgomery representation v (i.e. y^2 = v * R^-1 mod p)"""
    ysq = v * inv(R256 % p, p) % p
    y = pow(ysq, (p + 1) // 4, p)
    if y * y % p != ysq:
        return []
    return [(x, y) for x in cubic_roots(0, a, (b - ysq) % p, rnd) if on_curve((x, y))]
