"""Differential run for models that print `<spec answer> ## <impl-model answer>` when the
faithful Impl model (the code as it stands, defects included) deviates from the Spec.

Same bookkeeping as core.differential; the comparison is
  impl == spec                      -> agreement (cell counted)
  impl == predicted deviation       -> VIOLATION (defect of the tree, reproduced by the Impl model)
  otherwise                         -> VIOLATION (implementation differs from Spec and Impl model)
A predicted `FAULT` matches any `FAULT <kind>` of the implementation.
oracle(line, impl_out, spec_out) -> None | reason is consulted as well (property oracle)."""
import time
from vlib import core

SEP = " ## "


def split_model(b):
    if SEP in b:
        s, p = b.split(SEP, 1)
        return s, p
    return b, None


def same(impl, pred):
    if pred is None:
        return False
    if pred.startswith("FAULT") and impl.startswith("FAULT"):
        return True
    return impl == pred


def differential(ctx, cases, impl_exe, model_exe, variant="asan", oracle=None, shards=None, impl_env=None, observe=None):
    """observe(line, impl_out, spec_out) -> bool: a disagreement on this case asks for more than the
    property states (e.g. decrypt-direction aliasing); it is printed as an OBSERVATION line and stored in
    ctx.observations (evidence key `observations`), never as a VIOLATION."""
    lines = [c[0] for c in cases]
    t0 = time.time()
    impl, impl_err = core.run_lines(impl_exe, lines, shards=shards, env=impl_env)
    t1 = time.time()
    model, model_err = core.run_lines(model_exe, lines, shards=shards)
    t2 = time.time()
    ctx.notes.append("variant %s: impl %.1fs, model %.1fs, %d cases" % (variant, t1 - t0, t2 - t1, len(lines)))
    bad = []
    for i, (line, cell) in enumerate(cases):
        ctx.cov["evaluations"] += 1
        a, b = impl[i], model[i]
        op = line.split(" ", 1)[0]
        ctx.count("op:" + op)
        if b.startswith("MODEL-"):
            ctx.violation("model:" + cell, "model-side failure on `%s`: %s" % (line[:200], b[:200]),
                          {"kind": "model", "op": line, "model": b}, found_input=False)
            continue
        spec, pred = split_model(b)
        verdict = oracle(line, a, spec) if oracle else None
        if a == spec and verdict is None:
            outcome = "ERR" if a.startswith("ERR") else "ok"
            ctx.cell(cell + ":" + outcome)
            if pred is not None:
                ctx.count("predicted-deviation-absent")
            if i % max(1, len(cases) // 6) == 0:
                ctx.sample({"op": line[:300], "result": a[:130]})
            continue
        if verdict is None and observe is not None and observe(line, a, spec):
            if not hasattr(ctx, "observations"):
                ctx.observations = []
            ctx.count("observation:" + cell)
            if not any(o["key"] == cell for o in ctx.observations):
                ctx.observations.append({"key": cell, "variant": variant, "op": line[:400], "impl": a[:200], "model": spec[:200]})
                print("OBSERVATION: property=%s key=%s [%s] outside the property text (not a violation): op `%s` impl=%s model=%s"
                      % (ctx.prop, cell, variant, line[:120], a[:60], spec[:60]))
            continue
        bad.append(i)
        if verdict is None:
            if same(a, pred):
                verdict = "defect of the tree reproduced by the faithful Impl model (Spec demands otherwise)"
            else:
                verdict = "implementation differs from the Spec" + (" and from the Impl model" if pred is not None else " (= proved/checked model)")
        ctx.violation(cell, "%s [%s]: op `%s` impl=%s spec=%s%s" % (verdict, variant, line[:160], a[:100], spec[:100],
                                                                   (" impl-model=" + pred[:60]) if pred is not None else ""),
                      {"kind": "failing-input", "op": line, "impl": a, "expected": spec, "impl_model": pred, "variant": variant,
                       "stderr": impl_err[-1500:] if a.startswith("FAULT") else ""}, found_input=True)
    return bad
