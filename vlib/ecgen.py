"""Python big-integer helpers used only to *generate* SM2 test operands (points on the
curve, Montgomery forms, boundary values) for C12/C13.  Verdicts never come from here:
expected values are computed by the Coq Spec (Ec/CurveSpec.v) inside coqc."""

P = 0xFFFFFFFEFFFFFFFFFFFFFFFFFFFFFFFFFFFFFFFF00000000FFFFFFFFFFFFFFFF
A = P - 3
Bc = 0x28E9FA9E9D9F5E344D5A9E4BCF6509A7F39789F515AB8F92DDBCBD414D940E93
N = 0xFFFFFFFEFFFFFFFFFFFFFFFFFFFFFFFF7203DF6B21C6052B53BBF40939D54123
GX = 0x32C4AE2C1F1981195F9904466A39C9948FE30BBFF2660BE1715A4589334C74C7
GY = 0xBC3736A2F4F6779C59BDCEE36B692153D0A9877CC62A474002DF32E52139F0A0
R = 1 << 256
M = R - 1
G = (GX, GY)


def inv(x, m=P):
    return pow(x, -1, m)


def add(p1, p2):
    if p1 is None:
        return p2
    if p2 is None:
        return p1
    x1, y1 = p1
    x2, y2 = p2
    if x1 == x2:
        if (y1 + y2) % P == 0:
            return None
        lam = (3 * x1 * x1 + A) * inv(2 * y1) % P
    else:
        lam = (y2 - y1) * inv(x2 - x1) % P
    x3 = (lam * lam - x1 - x2) % P
    return (x3, (lam * (x1 - x3) - y1) % P)


def neg(p):
    return None if p is None else (p[0], (-p[1]) % P)


def mul(k, p):
    r = None
    while k > 0:
        if k & 1:
            r = add(r, p)
        p = add(p, p)
        k >>= 1
    return r


def on_curve(x, y):
    return (y * y - (x * x * x + A * x + Bc)) % P == 0


def sqrt(a):
    r = pow(a, (P + 1) // 4, P)
    return r if r * r % P == a % P else None


def lift_x(x, odd=0):
    y = sqrt((x * x * x + A * x + Bc) % P)
    if y is None:
        return None
    if (y & 1) != odd:
        y = (P - y) % P
    return (x, y)


def mont(x):
    return x * R % P


def jac(pt, lam=1):
    """raw Jacobian/Montgomery triple (X, Y, Z) of an affine point, scaled by lam"""
    if pt is None:
        return (mont(lam * lam % P), mont(pow(lam, 3, P)), 0)
    x, y = pt
    return (mont(x * lam * lam % P), mont(y * pow(lam, 3, P) % P), mont(lam % P))


def jac_rawz(pt, zraw):
    """raw triple of an affine point whose raw (Montgomery) Z coordinate is exactly zraw"""
    z = zraw * pow(R, -1, P) % P
    x, y = pt
    return (mont(x * z * z % P), mont(y * pow(z, 3, P) % P), zraw)


def h64(x):
    return "%064x" % x


def rand256(r):
    return int.from_bytes(r.bytes(32), "big")


def limb_pattern(r):
    """256-bit value whose limbs are each boundary-biased (long carry/borrow runs)"""
    v = 0
    for i in range(4):
        c = r.below(6)
        limb = [0, 1, (1 << 64) - 1, 1 << 63, (1 << 64) - 2, None][c]
        if limb is None:
            limb = int.from_bytes(r.bytes(8), "big")
        v |= limb << (64 * i)
    return v


BOUNDARY = [0, 1, 2, (1 << 64) - 1, 1 << 64, (1 << 128) - 1, 1 << 128, 1 << 192, (1 << 255), P - 2, P - 1, P, P + 1,
            N - 2, N - 1, N, N + 1, M, M - 1, R - P, R - N, (P - 1) // 2, (P + 1) // 2,
            0xFFFFFFFFFFFFFFFFFFFFFFFFFFFFFFFFFFFFFFFFFFFFFFFF0000000000000000,
            0x00000000FFFFFFFFFFFFFFFFFFFFFFFFFFFFFFFFFFFFFFFFFFFFFFFFFFFFFFFF,
            0xFFFFFFFF00000000FFFFFFFF00000000FFFFFFFF00000000FFFFFFFF00000000]


def bclass(x):
    if x == 0: return "0"
    if x == 1: return "1"
    if x == P - 1: return "p-1"
    if x == P: return "p"
    if x == N - 1: return "n-1"
    if x == N: return "n"
    if x == M: return "2^256-1"
    if x > P: return ">p"
    if x >= N: return "[n,p)"
    return "in"
