"""Common machinery for /verif/check: builds, Coq obligations, model/impl runs,
violation protocol, evidence.  See DESIGN.md section 1."""
import fcntl, hashlib, json, os, re, subprocess, sys, time, shutil

ROOT = os.path.dirname(os.path.dirname(os.path.abspath(__file__)))
REPO = os.environ.get("VERIF_REPO", "/repo")
BUILD = os.environ.get("VERIF_BUILD", os.path.join(ROOT, "build"))
COQ = os.path.join(ROOT, "coq")
NPROC = os.cpu_count() or 4
if os.environ.get("VERIF_NPROC"):
    NPROC = max(1, int(os.environ["VERIF_NPROC"]))
else:
    # a machine shared with other runs of these checks: do not add 16 more workers to an overloaded box
    try:
        if os.getloadavg()[0] > 2 * NPROC:
            NPROC = max(2, NPROC // 4)
    except OSError:
        pass

SAN_FLAGS = "-O1 -g -fsanitize=address,undefined -fno-sanitize=nonnull-attribute -fno-sanitize-recover=all -fno-omit-frame-pointer -DGMSSL_VERIF"
VARIANTS = {
    # name: (c flags, cmake options)
    "asan": (SAN_FLAGS, []),
    "small": (SAN_FLAGS, ["-DENABLE_SMALL_FOOTPRINT=ON"]),
    "amd64": (SAN_FLAGS, ["-DENABLE_SM2_AMD64=ON"]),
    "aesni": (SAN_FLAGS + " -march=native", ["-DENABLE_SM4_AESNI=ON"]),
    "avx2": (SAN_FLAGS + " -march=native", ["-DENABLE_SM4_AVX2=ON"]),
    "sse": (SAN_FLAGS + " -mssse3", ["-DENABLE_SM3_SSE=ON"]),
    "fast": ("-O2 -g -DGMSSL_VERIF", []),
    "tsan": ("-O1 -g -fsanitize=thread -DGMSSL_VERIF", []),
}

ALLOWED_AXIOMS = {
    # axioms declared by the Coq standard library itself (named in the trusted base if used)
    "functional_extensionality_dep", "FunctionalExtensionality.functional_extensionality_dep",
    "proof_irrelevance", "classic", "JMeq_eq", "Eqdep.Eq_rect_eq.eq_rect_eq",
    "ClassicalDedekindReals.sig_forall_dec", "ClassicalDedekindReals.sig_not_dec",
}


class Lock:
    def __init__(self, name):
        os.makedirs(BUILD, exist_ok=True)
        self.path = os.path.join(BUILD, name + ".lock")
    def __enter__(self):
        self.f = open(self.path, "w")
        fcntl.flock(self.f, fcntl.LOCK_EX)
        return self
    def __exit__(self, *a):
        fcntl.flock(self.f, fcntl.LOCK_UN)
        self.f.close()


def sh(cmd, cwd=None, timeout=3600, env=None, inp=None):
    e = dict(os.environ)
    if env:
        e.update(env)
    p = subprocess.run(cmd, cwd=cwd, shell=isinstance(cmd, str), stdout=subprocess.PIPE,
                       stderr=subprocess.STDOUT, timeout=timeout, env=e, input=inp)
    return p.returncode, p.stdout.decode("utf-8", "replace")


# ----------------------------------------------------------------------------- library build
def build_lib(variant="asan"):
    """(Re)build libgmssl.a from /repo's current working tree.  Returns (path|None, log)."""
    cflags, opts = VARIANTS[variant]
    bdir = os.path.join(BUILD, "lib_" + variant)
    with Lock("lib_" + variant):
        log = ""
        if not os.path.exists(os.path.join(bdir, "build.ninja")):
            rc, out = sh(["cmake", "-G", "Ninja", "-S", REPO, "-B", bdir, "-DBUILD_SHARED_LIBS=OFF",
                          "-DCMAKE_C_COMPILER=gcc", "-DCMAKE_BUILD_TYPE=None",
                          "-DCMAKE_C_FLAGS=" + cflags] + opts)
            log += out
            if rc != 0:
                return None, log
        rc, out = sh(["ninja", "-C", bdir, "gmssl"])
        log += out
        if rc != 0:
            return None, log
        return os.path.join(bdir, "bin", "libgmssl.a"), log


def build_harness(prop, variant="asan", sources=None, extra=""):
    """Compile props/<prop>/harness.c (+ harness/common.c) against the fresh library."""
    lib, log = build_lib(variant)
    if lib is None:
        return None, log
    cflags, _ = VARIANTS[variant]
    srcs = sources or [os.path.join(ROOT, "props", prop, "harness.c")]
    out = os.path.join(BUILD, "h_%s_%s" % (prop, variant))
    defs = ""
    for l in open(os.path.join(BUILD, "lib_" + variant, "build.ninja")):
        if l.strip().startswith("DEFINES ="):
            defs = l.split("=", 1)[1].strip()
            break
    with Lock("h_%s_%s" % (prop, variant)):
        cmd = "gcc %s %s -I%s/include -I%s/harness -I%s/src %s -o %s %s %s -lpthread" % (
            cflags, defs, REPO, ROOT, REPO, extra, out, " ".join(srcs), lib)
        rc, o = sh(cmd)
        log += o
        if rc != 0:
            return None, log
    return out, log


# ----------------------------------------------------------------------------- Coq side
def coq_make(targets):
    with Lock("coq"):
        if not os.path.exists(os.path.join(COQ, "Makefile")):
            rc, out = sh("coq_makefile -f _CoqProject -o Makefile", cwd=COQ)
            if rc != 0:
                return rc, out
        return sh(["make", "-j%d" % NPROC] + targets, cwd=COQ, timeout=7200)


def coq_obligations(prop):
    """Re-check Props/Properties_<prop>.v with coqc and parse theorems + Print Assumptions.
    Returns dict(obligations, discharged, theorems=[{name, assumptions, ok}], log, ok)."""
    vfile = "Props/Properties_%s.v" % prop
    rc, out = coq_make([vfile + "o"])
    res = {"obligations": 0, "discharged": 0, "theorems": [], "log": out, "ok": rc == 0, "broken": []}
    src = open(os.path.join(COQ, vfile)).read()
    names = re.findall(r"^\s*(?:Theorem|Lemma|Example)\s+([A-Za-z0-9_']+)", src, re.M)
    res["obligations"] = len(names)
    if re.search(r"\b(Admitted|admit|Axiom|Parameter|Conjecture)\b", re.sub(r"\(\*.*?\*\)", "", src, flags=re.S)):
        res["ok"] = False
        res["broken"].append("forbidden keyword in " + vfile)
    if rc != 0:
        m = re.search(r'File "\./%s", line (\d+)' % re.escape(vfile), out)
        res["broken"].append("coqc failed: " + out[-600:])
        return res
    # run coqc directly on the property file to capture Print Assumptions output
    rc2, out2 = sh(["coqc", "-Q", ".", "GmVerif", "-w", "-notation-overridden", vfile], cwd=COQ, timeout=3600)
    res["log"] = out2
    if rc2 != 0:
        res["ok"] = False
        res["broken"].append("coqc failed: " + out2[-600:])
        return res
    # split output per Print Assumptions block (one per theorem, in order)
    blocks = re.split(r"(?=Closed under the global context|Axioms:)", out2)
    blocks = [b for b in blocks if b.startswith("Closed") or b.startswith("Axioms:")]
    for i, n in enumerate(names):
        if i < len(blocks):
            b = blocks[i]
            if b.startswith("Closed"):
                ax = []
            else:
                ax = re.findall(r"^([A-Za-z0-9_.']+)\s*:", b[len("Axioms:"):], re.M)
            bad = [a for a in ax if a not in ALLOWED_AXIOMS and a.split(".")[-1] not in ALLOWED_AXIOMS
                   and not a.startswith("PrimInt63") and not a.startswith("Uint63") and not a.startswith("PrimFloat")]
            ok = not bad
            res["theorems"].append({"name": n, "assumptions": ax, "ok": ok})
            if ok:
                res["discharged"] += 1
            else:
                res["broken"].append("theorem %s depends on non-library axioms %s" % (n, bad))
        else:
            res["theorems"].append({"name": n, "assumptions": None, "ok": False})
            res["broken"].append("no Print Assumptions output for " + n)
    if res["broken"]:
        res["ok"] = False
    return res


def forbidden_scan():
    """grep the whole development for forbidden constructs."""
    rc, out = sh(r"grep -rnE '\b(Admitted|admit|Axiom|Parameter|Conjecture|Admit Obligations)\b|Unset Guard|bypass_check|type-in-type|impredicative-set' --include=*.v . | grep -v '(\*.*\*)' || true", cwd=COQ)
    return [l for l in out.splitlines() if l.strip()]


def build_model(prop):
    """Extract + compile the OCaml model driver for <prop>.  Returns (exe|None, log)."""
    rc, out = coq_make(["Extract/Extract%s.vo" % prop])
    if rc != 0:
        return None, out
    gen = os.path.join(ROOT, "ocaml", "gen")
    exe = os.path.join(BUILD, "model_" + prop)
    ml = os.path.join(gen, "Model%s.ml" % prop)
    drv = os.path.join(ROOT, "props", prop, "driver.ml")
    conv = os.path.join(ROOT, "ocaml", "conv.ml")
    with Lock("ml_" + prop):
        srcs = [ml, conv, drv]
        if os.path.exists(exe) and all(os.path.getmtime(exe) > os.path.getmtime(s) for s in srcs):
            return exe, out
        wd = os.path.join(BUILD, "ml_" + prop)
        os.makedirs(wd, exist_ok=True)
        shutil.copy(ml, os.path.join(wd, "model.ml"))
        if os.path.exists(ml + "i"):
            shutil.copy(ml + "i", os.path.join(wd, "model.mli"))
        with open(os.path.join(wd, "driver.ml"), "w") as f:
            f.write("open Model\n")
            f.write(open(conv).read())
            f.write("\n")
            f.write(open(drv).read())
        files = (["model.mli"] if os.path.exists(os.path.join(wd, "model.mli")) else []) + ["model.ml", "driver.ml"]
        rc, o = sh(["ocamlfind", "ocamlopt", "-w", "-a", "-inline", "100"] + files + ["-o", exe], cwd=wd)
        out += o
        if rc != 0:
            return None, out
    return exe, out


# ----------------------------------------------------------------------------- PRNG
class Rng:
    """splitmix64: every random choice of a run derives from VERIF_SEED."""
    def __init__(self, seed):
        self.s = (seed * 0x9E3779B97F4A7C15 + 0x1234567) & 0xFFFFFFFFFFFFFFFF
    def next(self):
        self.s = (self.s + 0x9E3779B97F4A7C15) & 0xFFFFFFFFFFFFFFFF
        z = self.s
        z = ((z ^ (z >> 30)) * 0xBF58476D1CE4E5B9) & 0xFFFFFFFFFFFFFFFF
        z = ((z ^ (z >> 27)) * 0x94D049BB133111EB) & 0xFFFFFFFFFFFFFFFF
        return z ^ (z >> 31)
    def below(self, n):
        return self.next() % n if n > 0 else 0
    def range(self, a, b):
        return a + self.below(b - a + 1)
    def bytes(self, n):
        out = bytearray()
        while len(out) < n:
            out += self.next().to_bytes(8, "little")
        return bytes(out[:n])
    def choice(self, l):
        return l[self.below(len(l))]
    def chance(self, num, den):
        return self.below(den) < num
    def shuffle(self, l):
        for i in range(len(l) - 1, 0, -1):
            j = self.below(i + 1)
            l[i], l[j] = l[j], l[i]
    def split(self, data, k=None):
        """random partition of data into chunks (possibly with empty chunks)."""
        n = len(data)
        if k is None:
            k = self.range(1, 6)
        cuts = sorted(self.below(n + 1) for _ in range(k - 1))
        cuts = [0] + cuts + [n]
        return [data[cuts[i]:cuts[i + 1]] for i in range(len(cuts) - 1)]


# ----------------------------------------------------------------------------- running both sides
def run_lines(exe, lines, shards=None, timeout=3600, env=None):
    """Feed op lines to an executable reading stdin, one result line per op.  Sharded over
    cores.  If a process dies (sanitizer abort, crash) the op it died on is reported as
    FAULT <kind> and a fresh process continues with the next op."""
    import threading
    shards = shards or min(NPROC, max(1, len(lines) // 50))
    chunks = [lines[i::shards] for i in range(shards)]
    e = dict(os.environ)
    e.setdefault("ASAN_OPTIONS", "detect_leaks=0:abort_on_error=0:allocator_may_return_null=1")
    e.setdefault("UBSAN_OPTIONS", "print_stacktrace=1")
    if env:
        e.update(env)
    outs = [None] * shards
    errs = [""] * shards
    def work(i):
        todo = chunks[i]
        done = []
        restarts = 0
        while len(done) < len(todo):
            rest = todo[len(done):]
            p = subprocess.Popen([exe], stdin=subprocess.PIPE, stdout=subprocess.PIPE, stderr=subprocess.PIPE, env=e)
            try:
                o, er = p.communicate(("\n".join(rest) + "\n").encode(), timeout=timeout)
            except subprocess.TimeoutExpired:
                p.kill()
                o, er = p.communicate()
                er += b"\nTIMEOUT"
            ol = o.decode("utf-8", "replace").split("\n")
            er = er.decode("utf-8", "replace")
            # complete lines only (the last element is the unterminated remainder)
            complete = ol[:-1]
            if len(complete) >= len(rest):
                done += complete[:len(rest)]
                if er.strip():
                    errs[i] += er[-2000:]
                break
            done += complete
            done.append("FAULT " + _fault_kind(er))
            errs[i] += er[-3000:]
            restarts += 1
            if restarts > 200:
                done += ["FAULT too-many-restarts"] * (len(todo) - len(done))
        outs[i] = done
    ths = [threading.Thread(target=work, args=(i,)) for i in range(shards)]
    [t.start() for t in ths]
    [t.join() for t in ths]
    res = [None] * len(lines)
    stderr_all = ""
    for i in range(shards):
        for j in range(len(chunks[i])):
            res[i + j * shards] = outs[i][j]
        if errs[i].strip():
            stderr_all += errs[i][-3000:]
    return res, stderr_all


def _fault_kind(err):
    m = re.search(r"ERROR: AddressSanitizer: ([a-z\-A-Z]+)", err)
    if m:
        return "asan:" + m.group(1)
    m = re.search(r"runtime error: ([^\n]+)", err)
    if m:
        return "ubsan:" + m.group(1)[:80].replace(" ", "_")
    if "TIMEOUT" in err:
        return "timeout"
    return "crash"


# ----------------------------------------------------------------------------- known findings
def load_known():
    path = os.path.join(ROOT, "KNOWN_FINDINGS.txt")
    kf = []
    if os.path.exists(path):
        for l in open(path):
            l = l.strip()
            m = re.match(r"finding:\s+property=(\S+)\s+key=(\S+)\s*(.*)", l)
            if m:
                kf.append({"property": m.group(1), "key": m.group(2), "text": m.group(3)})
    return kf


# ----------------------------------------------------------------------------- the run context
class Ctx:
    def __init__(self, prop, tier, seed, report_as=None):
        self.prop, self.tier, self.seed = prop, tier, seed
        self.report_as = report_as or prop     # id used in VIOLATION lines, known findings, evidence
        self.t0 = time.time()
        self.rng = Rng(seed)
        self.violations = []     # (key, text, replay_obj, found_input)
        self.cov = {"evaluations": 0, "distinct_nontrivial": 0, "samples": [], "trusted_base": [],
                    "obligations": 0, "discharged": 0, "checker_cmd": ""}
        self.assumptions = []
        self.cells = set()
        self.hist = {}
        self.notes = []

    # --- bookkeeping
    def count(self, key, n=1):
        self.hist[key] = self.hist.get(key, 0) + n
    def cell(self, key):
        self.cells.add(key)
    def sample(self, s):
        if len(self.cov["samples"]) < 12:
            self.cov["samples"].append(s)

    def violation(self, key, text, replay, found_input=True):
        self.violations.append((key, text, replay, found_input))

    # --- proof obligations
    def check_proofs(self):
        ob = coq_obligations(self.prop)
        self.cov["obligations"] = ob["obligations"]
        self.cov["discharged"] = ob["discharged"]
        self.cov["checker_cmd"] = "make -C coq Props/Properties_%s.vo && coqc -Q . GmVerif Props/Properties_%s.v (Print Assumptions parsed)" % (self.prop, self.prop)
        self.cov["theorems"] = [{"name": t["name"], "assumptions": t["assumptions"]} for t in ob["theorems"]]
        bad = forbidden_scan()
        if bad:
            ob["ok"] = False
            ob["broken"].append("forbidden construct: " + bad[0])
        self.proofs = ob
        if not ob["ok"]:
            for b in ob["broken"]:
                self.violation("proof:" + hashlib.sha1(b.encode()).hexdigest()[:8],
                               "proof obligation no longer checks: " + b,
                               {"kind": "proof", "theorem_or_file": "coq/Props/Properties_%s.v" % self.prop, "detail": b},
                               found_input=False)
        return ob["ok"]

    # --- finish
    def finish(self, level="proof", rule="", trusted=None, extra=None):
        rid = self.report_as
        known = [k for k in load_known() if k["property"] in (rid, self.prop)]
        unlisted = []
        printed = set()
        for (key, text, replay, found) in self.violations:
            k = next((k for k in known if k["key"] == key), None)
            if k is not None:
                if key not in printed:
                    print("KNOWN-FINDING: property=%s %s (%s)" % (rid, k["text"] or text, key))
                    printed.add(key)
            else:
                unlisted.append((key, text, replay, found))
        rdir = os.path.join(os.environ.get("VERIF_REPLAYS", os.path.join(ROOT, "replays")), self.prop)
        seen = set()
        nviol = 0
        for (key, text, replay, found) in unlisted:
            if key in seen:
                continue
            seen.add(key)
            nviol += 1
            if nviol > 20:
                continue
            os.makedirs(rdir, exist_ok=True)
            fn = os.path.join(rdir, re.sub(r"[^A-Za-z0-9_.-]", "_", key)[:80] + ".json")
            with open(fn, "w") as f:
                json.dump({"property": rid, "part": self.prop, "key": key, "text": text, "replay": replay,
                           "seed": self.seed, "tier": self.tier,
                           "how_to_replay": "./check %s --replay %s" % (self.prop, os.path.relpath(fn, ROOT))}, f, indent=1)
            print("VIOLATION property=%s replay=%s%s" % (rid, os.path.relpath(fn, ROOT),
                                                         "" if found else " no-failing-input-found"))
            print("  " + text[:300])
        self.cov["distinct_nontrivial"] = len(self.cells)
        self.cov["rule"] = rule
        self.cov["histogram"] = self.hist
        if trusted:
            self.cov["trusted_base"] = trusted
        if extra:
            self.cov.update(extra)
        ev = {"property_id": rid, "part": self.prop, "tier": self.tier, "seed": self.seed, "level": level,
              "coverage": self.cov, "assumptions": self.assumptions,
              "wall_s": round(time.time() - self.t0, 2), "violations": nviol,
              "known_findings_reported": sorted(printed), "notes": self.notes}
        evdir = os.environ.get("VERIF_EVIDENCE", os.path.join(ROOT, "evidence"))
        os.makedirs(evdir, exist_ok=True)
        with open(os.path.join(evdir, self.prop + ".json"), "w") as f:
            json.dump(ev, f, indent=1, sort_keys=True)
        print("%s: %d evaluations, %d distinct cells, %d/%d obligations, %d violation(s), %.1fs" % (
            self.prop, self.cov["evaluations"], len(self.cells), self.cov["discharged"],
            self.cov["obligations"], nviol, time.time() - self.t0))
        return 1 if nviol else 0


TRUSTED_COMMON = [
    "Coq 8.16.1 kernel and its vm_compute bytecode VM (no native_compute)",
    "no axioms declared by this development; Print Assumptions output per theorem is in coverage.theorems",
    "hand-written Gallina Impl models (modelled, not verified C): tied to /repo only by the correspondence run of this check",
    "extraction: Require Import ExtrOcamlBasic only (bool, option, unit, list, prod, sumbool mapped to OCaml's); N/Z/positive/nat stay extracted inductives; OCaml 4.13.1; ocaml/conv.ml + props/<id>/driver.ml (hex parsing/printing)",
    "C harness props/<id>/harness.c + harness/common.h, gcc 12 ASan/UBSan runtimes, cmake/ninja build of /repo's working tree",
    "python generators (vlib/core.py Rng = splitmix64 seeded by VERIF_SEED) and line-wise comparison",
]


def hexs(b):
    return b.hex() if b else "-"


def harness_build_failed(ctx, log):
    ctx.violation("correspondence:harness-build", "the current tree no longer builds against the harness; nothing can be decided: " + log[-800:],
                  {"kind": "correspondence", "relation": "harness build", "log": log[-4000:]}, found_input=False)


# ----------------------------------------------------------------------------- generic differential run
def differential(ctx, cases, impl_exe, model_exe, variant="asan", oracle=None, shards=None, impl_env=None, model_out=None):
    """cases: list of (line, cellkey).  Runs both sides, compares line by line.
    oracle(line, impl_out, model_out) -> None | str : decides whether a disagreement (or an
    agreement!) is a violation of the *property*; default: any disagreement is one, because the
    model side has been proved equal to the Spec.  Returns list of disagreeing indices."""
    lines = [c[0] for c in cases]
    t0 = time.time()
    impl, impl_err = run_lines(impl_exe, lines, shards=shards, env=impl_env)
    t1 = time.time()
    if model_out is not None:
        model = model_out
    else:
        model, model_err = run_lines(model_exe, lines, shards=shards)
    ctx.last_model_out = model
    t2 = time.time()
    ctx.notes.append("variant %s: impl %.1fs, model %.1fs, %d cases" % (variant, t1 - t0, t2 - t1, len(lines)))
    bad = []
    for i, (line, cell) in enumerate(cases):
        ctx.cov["evaluations"] += 1
        a, b = impl[i], model[i]
        op = line.split(" ", 1)[0]
        ctx.count("op:" + op)
        if b.startswith("MODEL-"):
            ctx.violation("model:" + cell, "model-side failure on `%s`: %s" % (line[:200], b[:200]),
                          {"kind": "model", "op": line, "model": b}, found_input=False)
            continue
        verdict = oracle(line, a, b) if oracle else (None if a == b else "implementation differs from proved-equal-to-spec model")
        if a == b and verdict is None:
            outcome = "ERR" if a.startswith("ERR") else "ok"
            ctx.cell(cell + ":" + outcome)
            if i % max(1, len(cases) // 6) == 0:
                ctx.sample({"op": line[:300], "result": a[:130]})
        else:
            bad.append(i)
            if verdict is None:
                verdict = "implementation and model differ"
            ctx.violation(cell, "%s [%s]: op `%s` impl=%s model=%s" % (verdict, variant, line[:160], a[:100], b[:100]),
                          {"kind": "failing-input", "op": line, "impl": a, "expected": b, "variant": variant,
                           "stderr": impl_err[-1500:] if a.startswith("FAULT") else ""}, found_input=True)
    return bad


def replay(prop, path, variants=("asan",)):
    r = json.load(open(path))
    rp = r.get("replay", {})
    op = rp.get("op")
    if not op:
        print("replay names a proof obligation / relation, not an input:", json.dumps(rp)[:1000])
        return 0
    model_exe, log = build_model(prop)
    for v in variants:
        exe, log = build_harness(prop, v)
        if exe is None:
            print(log[-2000:]); return 1
        a, err = run_lines(exe, [op], shards=1, env={"VERIF_STDERR": "1"})
        b, _ = run_lines(model_exe, [op], shards=1)
        print("op:    ", op[:400]); print("impl:  ", a[0]); print("model: ", b[0])
        if err.strip():
            print("stderr:", err[-1500:])
        if b[0].startswith("ERR bad-op"):
            print("(this op has no model line: it is decided by the property oracle; recorded violation text: %s)" % r.get("text", "")[:600])
        else:
            print("AGREE" if a[0] == b[0] else "DIFFER")
    return 0


# ----------------------------------------------------------------------------- evaluating models inside Coq
def coq_eval(prop, imports, exprs, shards=None, timeout=3600, tag="cases"):
    """Evaluate Gallina expressions with vm_compute inside coqc (used for the big-integer
    models over Bignums.BigZ).  imports: text placed at the top of each generated file.
    exprs: list of Gallina terms, each of type string (Coq `string`) — the model prints its own
    canonical result line.  Returns list of python strings (or 'MODEL-EXN ...')."""
    import threading
    n = len(exprs)
    if n == 0:
        return []
    shards = shards or min(NPROC, max(1, n // 4))
    gen = os.path.join(COQ, "Gen")
    os.makedirs(gen, exist_ok=True)
    res = [None] * n
    def work(i):
        idx = list(range(i, n, shards))
        name = "%s_%s_%d_%d" % (tag, prop, os.getpid(), i)
        path = os.path.join(gen, name + ".v")
        with open(path, "w") as f:
            f.write(imports + "\nSet Printing Width 1000000.\nSet Printing Depth 1000000.\n")
            for j in idx:
                f.write("Eval vm_compute in (%s).\n" % exprs[j])
        rc, out = sh(["coqc", "-Q", ".", "GmVerif", "-w", "-all", os.path.join("Gen", name + ".v")], cwd=COQ, timeout=timeout)
        vals = re.findall(r'^\s*= "((?:[^"]|"")*)"\s*$', out, re.M)
        for k, j in enumerate(idx):
            res[j] = vals[k].replace('""', '"') if k < len(vals) else "MODEL-EXN coqc: " + out[-300:].replace("\n", " ")
        for ext in (".v", ".vo", ".vok", ".vos", ".glob"):
            try: os.remove(os.path.join(gen, name + ext))
            except OSError: pass
        try: os.remove(os.path.join(gen, "." + name + ".aux"))
        except OSError: pass
    ths = [threading.Thread(target=work, args=(i,)) for i in range(shards)]
    [t.start() for t in ths]
    [t.join() for t in ths]
    return res
