"""Case generator for the CMS layer ops (models: coq/Codec/Cms.v; harness: props/C14/harness_cms.inc).
For every plain decoder of src/cms.c: valid objects covering every presence pattern of its OPTIONAL members and
every table row, hand-made malformed objects aimed at each test of the C text (each "!= 1" / "< 0" distinction,
the checks after the parse, the quirks: unchecked versions, the missing end-of-SEQUENCE test of RecipientInfo,
DigestAlgorithmIdentifier followed by parameters), element counts at capacity-1 / capacity / capacity+1 of
digest_algors[max], the encoders of EncryptedContentInfo / EncryptedData, then structure-aware mutations."""
from vlib.core import hexs
from vlib.codec_common import tlv, der_uint, structured_mutations, pt_hints, sm2_pub_bytes
from vlib.codec_x509 import tables, oid, SEQ, SET, CTX, IMP, NULL, UNKNOWN

OCT = lambda c: tlv(4, c)


def gen_cms(ctx, scale=1):
    """scale: multiplier of the mutation budget (as gen_x509)"""
    r = ctx.rng
    T = tables()
    E = T["enum"]
    K = (4 if ctx.tier == "thorough" else 1) * scale
    cases = []
    add = lambda line, cell: cases.append((line, cell))

    def fam(op, valid, bad=(), budget=6, hint=None, pre="", nmut=None):
        h = hint or (lambda b: "")
        for v in valid:
            add("%s %s%s%s" % (op, pre, hexs(v), h(v)), op + ":valid")
            add("%s %s%s%s" % (op, pre, hexs(v + r.bytes(r.range(1, 3))), h(v)), op + ":valid+trailing")
        for v in bad:
            add("%s %s%s%s" % (op, pre, hexs(v), h(v)), op + ":malformed")
        pool = list(valid)
        r.shuffle(pool)
        for v in pool[:(nmut or max(2, 4 * K))]:
            for kind, m in structured_mutations(r, v, budget * K):
                add("%s %s%s%s" % (op, pre, hexs(m), h(m)), op + ":" + kind)
        for _ in range(4 * K):
            add("%s %s%s" % (op, pre, hexs(r.bytes(r.range(0, 10)))), op + ":random-stream")

    generic_bad = [b"", b"\x30", b"\x30\x00", b"\x30\x01", b"\x30\x81", b"\x30\x80", b"\x31\x00", b"\x05\x00", SEQ(NULL), SEQ(oid(UNKNOWN)), b"\x30\x84\xff\xff\xff\xff"]
    ctypes, encalgs = T["tab_cms_content_types"], T["tab_x509_enc_algors"]
    dgs, sgs, pkes = T["tab_digest_algors"], T["tab_sign_algors"], T["tab_pke_algors"]
    sm3 = dict(dgs)[E["OID_sm3"]]
    sm2enc = dict(pkes)[E["OID_sm2encrypt"]]
    sm2sign = dict(sgs)[E["OID_sm2sign_with_sm3"]]
    ct_data = dict(ctypes)[E["OID_cms_data"]]
    iv16 = bytes(range(16))

    # ---------------------------------------------------------------- x509_encryption_algor_from_der (library enum values)
    ea = lambda a, iv=iv16, extra=b"": SEQ(oid(a), b"" if iv is None else OCT(iv), extra)
    ea_valid = [ea(a, r.bytes(16)) for _, a in encalgs]
    ea_bad = [ea(encalgs[0][1], r.bytes(n)) for n in (0, 1, 15, 17, 32)] + [ea(encalgs[0][1], None), ea(encalgs[1][1], iv16, NULL), ea(UNKNOWN), ea(sm3),
              SEQ(oid(encalgs[0][1]), IMP(0, iv16)), SEQ(OCT(iv16), oid(encalgs[0][1])), SEQ(oid(encalgs[0][1]), OCT(iv16), OCT(iv16))] + generic_bad
    fam("cxencalgD", ea_valid, ea_bad, 8)

    # ---------------------------------------------------------------- ContentType, ContentInfo, Data
    fam("cctypeD", [oid(a) for _, a in ctypes], [oid(UNKNOWN), oid(ct_data[:-1]), oid(ct_data + [1]), oid(sm3), NULL, b"", b"\x06\x00", b"\x06\x01\x80", b"\x06\x0a\x2a"], 3)
    contents = [OCT(b"\x01\x02"), OCT(b""), SEQ(), SEQ(der_uint(1)), NULL, r.bytes(5), b"\x00"]
    ci = lambda a, c=None, extra=b"": SEQ(oid(a), b"" if c is None else CTX(0, c), extra)
    ci_valid = [ci(a, c) for _, a in ctypes for c in (None, contents[0])] + [ci(ct_data, c) for c in contents[1:]]
    ci_bad = [ci(ct_data, b""), ci(UNKNOWN, contents[0]), ci(ct_data, contents[0], NULL), ci(ct_data, None, NULL), SEQ(CTX(0, contents[0])), SEQ(oid(ct_data), CTX(1, contents[0])),
              SEQ(oid(ct_data), IMP(0, b"\x01")), SEQ(oid(ct_data), CTX(0, contents[0]), CTX(0, contents[0])), SEQ(CTX(0, contents[0]), oid(ct_data)), SET(oid(ct_data)),
              SEQ(oid(ct_data), b"\xa0\x81\x00"), SEQ(oid(ct_data), b"\xa0\x05\x04")] + generic_bad
    fam("ccinfoD", ci_valid, ci_bad, 8)
    fam("cdataD", [OCT(b""), OCT(b"data"), OCT(r.bytes(130))], [tlv(0x24, b"x"), IMP(0, b"x"), NULL, b"", b"\x04", b"\x04\x05ab", b"\x04\x81\x01a"], 3)

    # ---------------------------------------------------------------- EncryptedContentInfo, EncryptedData
    def eci(ct=ct_data, alg=None, ec=b"\xaa\xbb", s1=None, s2=None, extra=b""):
        alg = ea(encalgs[0][1]) if alg is None else alg
        return SEQ(oid(ct), alg, b"" if ec is None else IMP(0, ec), b"" if s1 is None else IMP(1, s1), b"" if s2 is None else IMP(2, s2), extra)
    opts = (None, b"", b"\x01\x02\x03")
    eci_valid = [eci(ec=a, s1=b, s2=c) for a in opts for b in opts for c in opts if (a, b, c).count(None) != 1 or c is None][:16] + \
                [eci(ec=None, s1=None, s2=b"z"), eci(ec=None, s1=b"y", s2=None), eci(ec=r.bytes(48), s1=None, s2=b"")] + \
                [eci(ct=a) for _, a in ctypes[1:]] + [eci(alg=ea(a)) for _, a in encalgs[1:]]
    eci_bad = [SEQ(oid(ct_data), ea(encalgs[0][1]), IMP(1, b"s"), IMP(0, b"e")), SEQ(oid(ct_data), ea(encalgs[0][1]), IMP(2, b"s"), IMP(1, b"e")), eci(s2=b"x", extra=IMP(2, b"y")),
               SEQ(oid(ct_data), ea(encalgs[0][1]), IMP(0, b"e"), IMP(0, b"e")), eci(extra=IMP(3, b"x")), eci(extra=NULL), SEQ(oid(ct_data), ea(encalgs[0][1]), CTX(0, b"e")),
               SEQ(oid(ct_data), ea(encalgs[0][1]), OCT(b"e")), eci(ct=UNKNOWN), eci(alg=ea(UNKNOWN)), eci(alg=ea(encalgs[0][1], r.bytes(15))), eci(alg=b""), SEQ(ea(encalgs[0][1]), oid(ct_data)),
               SEQ(oid(ct_data)), SEQ(oid(ct_data), ea(encalgs[0][1]), b"\x80\x05ab"), SEQ(oid(ct_data), ea(encalgs[0][1]), b"\x80\x81\x01a"), eci(alg=ea(encalgs[0][1], iv16, NULL))] + generic_bad
    fam("cenciD", eci_valid, eci_bad, 10)
    ed = lambda ver=der_uint(1), body=None, extra=b"": SEQ(ver, eci() if body is None else body, extra)
    ed_valid = [ed(body=b) for b in eci_valid[:12]]
    ed_bad = [ed(ver=der_uint(v)) for v in (0, 2, 3, 255, 2**31 - 1)] + [ed(ver=b"\x02\x01\xff"), ed(ver=der_uint(2**31)), ed(ver=b"\x02\x02\x00\x01"), ed(ver=b""), ed(ver=b"\x02\x00"), ed(extra=NULL),
              ed(extra=eci()), SEQ(eci(), der_uint(1)), SEQ(der_uint(1)), SEQ(der_uint(1), NULL), ed(ver=IMP(0, b"\x01"))] + [ed(body=b) for b in eci_bad[:12]] + generic_bad
    fam("cencdD", ed_valid, ed_bad, 10)
    # the encoders (finding: the second pass of cms_encrypted_data_to_der writes no EncryptedContentInfo)
    ct_ids = [i for i, _ in ctypes] + [-1, 0, 1, 9999]
    alg_ids = [i for i, _ in encalgs] + [0, -1, E["OID_sm3"]]
    oh = lambda x: "NULL" if x is None else hexs(x)
    for ct in ct_ids:
        for alg in alg_ids[:2] + ([alg_ids[2], alg_ids[4]] if ct == ct_ids[0] else []):
            for (a, b, c) in [(b"\xaa\xbb", None, None), (None, None, None), (b"", b"", b""), (r.bytes(r.range(1, 40)), r.bytes(3), None), (None, None, b"q")]:
                args = "%d %d %s %s %s %s" % (ct, alg, hexs(iv16), oh(a), oh(b), oh(c))
                known = ct in [i for i, _ in ctypes] and alg in [i for i, _ in encalgs]
                add("cenciE " + args, "cenciE:" + ("known" if known else "unknown-id"))
                add("cencdE 1 " + args, "cencdE:" + ("known" if known else "unknown-id"))
    for ivl in (0, 1, 15, 17, 32):
        add("cenciE %d %d %s aabb NULL NULL" % (ct_ids[0], alg_ids[0], hexs(r.bytes(ivl))), "cenciE:iv-length")
        add("cencdE 1 %d %d %s aabb NULL NULL" % (ct_ids[0], alg_ids[0], hexs(r.bytes(ivl))), "cencdE:iv-length")
    for ver in (0, 2, -1, 3, 256):
        add("cencdE %d %d %d %s aabb NULL NULL" % (ver, ct_ids[0], alg_ids[0], hexs(iv16)), "cencdE:version")
    for _ in range(12 * K):
        n = r.choice([0, 1, 100, 127, 128, 200, 255, 256, 300])
        add("cencdE 1 %d %d %s %s %s %s" % (r.choice(ct_ids[:6]), r.choice(alg_ids[:4]), hexs(r.bytes(16)), hexs(r.bytes(n)), oh(r.choice([None, r.bytes(r.range(0, 9))])),
                                            oh(r.choice([None, r.bytes(r.range(0, 9))]))), "cencdE:lengths")

    # ---------------------------------------------------------------- IssuerAndSerialNumber, SignerInfo, SET OF macros
    nt = dict(T["tab_name_types"])
    rdn = lambda nm, v: SET(SEQ(oid(nt[E[nm]]), tlv(19, v)))
    name = SEQ(rdn("OID_at_country_name", b"CN"), rdn("OID_at_common_name", b"GmSSL test CA"))
    iasn = lambda issuer=name, serial=der_uint(0x1234567890), extra=b"": SEQ(issuer, serial, extra)
    iasn_valid = [iasn(), iasn(SEQ()), iasn(SEQ(NULL)), iasn(serial=der_uint(0)), iasn(serial=der_uint(0x80)), iasn(serial=der_uint(int.from_bytes(r.bytes(20), "big") | 1 << 159)), iasn(SEQ(r.bytes(3)))]
    iasn_bad = [iasn(serial=b"\x02\x01\x80"), iasn(serial=b"\x02\x00"), iasn(serial=b"\x02\x02\x00\x01"), iasn(serial=b"\x02\x02\x00\x00"), iasn(serial=b""), iasn(issuer=b""), iasn(issuer=SET()),
                SEQ(der_uint(1), name), iasn(extra=NULL), iasn(serial=IMP(2, b"\x01")), iasn(serial=OCT(b"\x01")), SEQ(name, b"\x02\x05ab")] + generic_bad
    fam("ciasnD", iasn_valid, iasn_bad, 8)
    dg = lambda a=sm3, extra=b"": SEQ(oid(a), extra)
    sg = lambda a=sm2sign, extra=b"": SEQ(oid(a), extra)
    def si(ver=der_uint(1), ia=None, d=None, aa=None, s=None, ed_=b"\xab\xcd", ua=None, extra=b""):
        return SEQ(ver, iasn() if ia is None else ia, dg() if d is None else d, b"" if aa is None else CTX(0, aa), sg() if s is None else s,
                   b"" if ed_ is None else OCT(ed_), b"" if ua is None else CTX(1, ua), extra)
    attrs = SEQ(oid(UNKNOWN), SET(NULL))
    si_valid = [si(aa=a, ua=u) for a in (None, b"", attrs) for u in (None, b"", attrs + attrs)] + [si(ver=der_uint(v)) for v in (0, 2, 3, 2**31 - 1)] + \
               [si(d=dg(a)) for _, a in dgs] + [si(s=sg(a)) for _, a in sgs[:6]] + [si(s=sg(sm2sign, NULL)), si(ed_=b""), si(ia=iasn(SEQ(), der_uint(0)))]
    si_bad = [si(d=dg(sm3, NULL)), si(d=dg(sm3, NULL), aa=attrs), si(d=dg(dgs[1][1], OCT(b"p"))), si(d=SEQ()), si(d=dg(UNKNOWN)), si(d=b""), si(d=SET(oid(sm3))), si(s=sg(UNKNOWN)), si(s=sg(sm2sign, NULL + NULL)),
              si(s=sg(sm2sign, der_uint(1))), si(s=b""), si(ed_=None), si(ed_=None, ua=b""), si(extra=NULL), si(ua=b"", extra=CTX(1, b"")), si(ver=b""), si(ver=b"\x02\x01\xff"), si(ver=der_uint(2**31)),
              si(ia=iasn_bad[0]), si(ia=iasn_bad[8]), si(ia=b""), SEQ(der_uint(1), iasn(), dg(), sg(), CTX(0, attrs), OCT(b"s")), SEQ(der_uint(1), iasn(), dg(), CTX(1, b""), sg(), OCT(b"s")),
              SEQ(der_uint(1), iasn(), dg(), IMP(0, b"a"), sg(), OCT(b"s")), SEQ(der_uint(1), iasn(), dg(), sg(), OCT(b"s"), CTX(0, b"")), SEQ(der_uint(1), iasn(), dg(), sg(), OCT(b"s"), CTX(2, b""))] + generic_bad
    fam("csinfoD", si_valid, si_bad, 10)
    for op in ("csinfosD", "crinfosD"):
        fam(op, [SET(si()), SET(NULL), SET(r.bytes(7)), SET(si(), si(ver=der_uint(2)))], [SET(), SEQ(si()), CTX(1, si()), b"", NULL, b"\x31", b"\x31\x05ab", b"\x31\x81\x01a"], 4)

    # ---------------------------------------------------------------- DigestAlgorithmIdentifiers: the capacity
    def dset(n, last=None):
        items = [dg(dgs[r.below(len(dgs))][1]) for _ in range(n)]
        if last is not None and items:
            items[-1] = last
        return SET(*items)
    cell_of = lambda c, mx: "count%s" % ("<=max" if c <= mx else ("max+1" if c == mx + 1 else ">max+1"))
    for mx in (0, 1, 2, 4, 8):
        for c in sorted(set([max(0, mx - 1), mx, mx + 1, mx + 2, mx + 5])):
            cell = cell_of(c, mx)
            add("cdalgsD %d %s" % (mx, hexs(dset(c))), "cdalgsD:" + cell)
            add("cdalgsD %d %s" % (mx, hexs(dset(c) + b"\x00")), "cdalgsD:trailing:" + cell)
            if c:
                add("cdalgsD %d %s" % (mx, hexs(dset(c, dg(sm3, NULL)))), "cdalgsD:last-with-parameters:" + cell)
                add("cdalgsD %d %s" % (mx, hexs(dset(c, dg(UNKNOWN)))), "cdalgsD:last-unknown:" + cell)
                add("cdalgsD %d %s" % (mx, hexs(dset(c, SEQ()))), "cdalgsD:last-empty-seq:" + cell)
                add("cdalgsD %d %s" % (mx, hexs(dset(c, NULL))), "cdalgsD:last-not-a-seq:" + cell)
                add("cdalgsD %d %s" % (mx, hexs(SET(dg(sm3, NULL)) if c == 1 else SET(dg(sm3, NULL), *[dg() for _ in range(c - 1)]))), "cdalgsD:first-with-parameters:" + cell)
            for kind, m in structured_mutations(r, dset(c), 3 * K)[:8 * K]:
                add("cdalgsD %d %s" % (mx, hexs(m)), "cdalgsD:" + kind)
    fam("cdalgsD", [dset(1), dset(2), dset(3)], [SET(), SEQ(dg()), b"", NULL, b"\x31\x0c\x30"] + generic_bad, 6, pre="4 ")

    # ---------------------------------------------------------------- SignedData
    def sd(ver=der_uint(1), algs=None, cinfo=None, certs=None, crls=None, sis=None, extra=b""):
        return SEQ(ver, dset(1) if algs is None else algs, ci(ct_data, contents[0]) if cinfo is None else cinfo, b"" if certs is None else CTX(0, certs),
                   b"" if crls is None else CTX(1, crls), SET(si()) if sis is None else sis, extra)
    sd_valid = [sd(certs=a, crls=b) for a in (None, b"", SEQ(NULL)) for b in (None, b"", SEQ())] + [sd(cinfo=c) for c in ci_valid[:4]] + [sd(sis=SET(NULL)), sd(sis=SET(si(), si())), sd(algs=dset(2)), sd(algs=dset(4))]
    sd_bad = [sd(ver=der_uint(v)) for v in (0, 2, 3, 2**31 - 1)] + [sd(ver=b""), sd(ver=b"\x02\x01\xff"), sd(algs=SET()), sd(algs=b""), sd(algs=SEQ(dg())), sd(algs=SET(dg(sm3, NULL))), sd(algs=SET(dg(), dg(sm3, NULL))),
              sd(algs=SET(dg(UNKNOWN))), sd(algs=dset(5)), sd(algs=dset(6)), sd(cinfo=b""), sd(cinfo=ci_bad[0]), sd(cinfo=ci_bad[1]), sd(sis=SET()), sd(sis=b""), sd(sis=SEQ(si())), sd(extra=NULL), sd(extra=SET(si())),
              SEQ(der_uint(1), dset(1), ci(ct_data), CTX(1, b""), CTX(0, b""), SET(si())), SEQ(der_uint(1), dset(1), ci(ct_data), CTX(0, b""), CTX(0, b""), SET(si())), SEQ(der_uint(1), dset(1), ci(ct_data), CTX(2, b""), SET(si())),
              SEQ(der_uint(1), dset(1), ci(ct_data), IMP(0, b""), SET(si())), SEQ(der_uint(1), ci(ct_data), dset(1), SET(si())), SEQ(dset(1), ci(ct_data), SET(si()))] + generic_bad
    fam("csdataD", sd_valid, sd_bad, 10, pre="4 ")
    for mx in (1, 2, 4):
        for c in (mx - 1, mx, mx + 1, mx + 2):
            if c:
                add("csdataD %d %s" % (mx, hexs(sd(algs=dset(c)))), "csdataD:" + cell_of(c, mx))
                add("csdataD %d %s" % (mx, hexs(sd(algs=dset(c, dg(sm3, NULL))))), "csdataD:last-with-parameters:" + cell_of(c, mx))
                add("csdataD %d %s" % (mx, hexs(sd(ver=der_uint(2), algs=dset(c)))), "csdataD:version2:" + cell_of(c, mx))
    add("csdataD 0 %s" % hexs(sd()), "csdataD:max0")

    # ---------------------------------------------------------------- RecipientInfo (no end-of-SEQUENCE test), EnvelopedData
    pke = lambda a=sm2enc, extra=b"": SEQ(oid(a), extra)
    def ri(ver=der_uint(1), ia=None, alg=None, ek=b"\x30\x03\x02\x01\x05", extra=b""):
        return SEQ(ver, iasn() if ia is None else ia, pke() if alg is None else alg, b"" if ek is None else OCT(ek), extra)
    junk = [NULL, OCT(b"again"), b"\x00", b"\x30", b"\x04\x7f", b"\xff\xff\xff", r.bytes(9), ri()]
    ri_valid = [ri(), ri(ek=b""), ri(ek=r.bytes(120)), ri(ia=iasn(SEQ(), der_uint(0)))]
    ri_trailing = [ri(extra=j) for j in junk]
    ri_bad = [ri(ver=der_uint(v)) for v in (0, 2, 3)] + [ri(ver=b""), ri(ver=b"\x02\x01\xff"), ri(alg=pke(sm2enc, NULL)), ri(alg=pke(sm2enc, SEQ())), ri(alg=pke(UNKNOWN)), ri(alg=pke(sm3)), ri(alg=b""),
              ri(ek=None), ri(ek=None, extra=NULL), ri(ia=b""), ri(ia=iasn_bad[0]), ri(ia=iasn_bad[8]), SEQ(der_uint(1), iasn(), OCT(b"k"), pke()), SEQ(der_uint(1), iasn(), pke(), IMP(0, b"k")),
              SEQ(der_uint(1), iasn(), pke(), b"\x04\x05ab")] + [ri(alg=pke(a)) for _, a in pkes if a != sm2enc] + [ri(alg=pke(a, NULL)) for _, a in pkes if a != sm2enc] + \
             [ri(alg=pke(a, SEQ(der_uint(1)))) for _, a in pkes if a != sm2enc] + generic_bad
    fam("crinfoD", ri_valid + ri_trailing, ri_bad, 10, nmut=max(3, 4 * K))
    anys = [eci(), NULL, OCT(b"x"), SEQ(), b"\x00\x00", tlv(0x1f, b"\x01"), IMP(0, b""), eci(ct=UNKNOWN)]
    env = lambda ver=der_uint(1), ris=None, e=None, extra=b"": SEQ(ver, SET(ri()) if ris is None else ris, eci() if e is None else e, extra)
    env_valid = [env(e=a) for a in anys] + [env(ver=der_uint(v)) for v in (0, 2, 2**31 - 1)] + [env(ris=SET(NULL)), env(ris=SET(ri(), ri(ver=der_uint(2)))), env(ris=SET(r.bytes(4)))]
    env_bad = [env(ris=SET()), env(ris=b""), env(ris=SEQ(ri())), env(e=b""), env(extra=NULL), env(extra=eci()), env(e=b"\x30"), env(e=b"\x30\x05ab"), env(e=b"\x30\x81\x01a"), env(ver=b""), env(ver=b"\x02\x01\xff"),
               env(ver=der_uint(2**31)), SEQ(SET(ri()), der_uint(1), eci()), SEQ(der_uint(1), eci(), SET(ri()))] + generic_bad
    fam("cenvD", env_valid, env_bad, 10)

    # ---------------------------------------------------------------- SignedAndEnvelopedData
    def senv(ver=der_uint(1), ris=None, algs=None, e=None, certs=None, crls=None, sis=None, extra=b""):
        return SEQ(ver, SET(ri()) if ris is None else ris, dset(1) if algs is None else algs, eci() if e is None else e, b"" if certs is None else CTX(0, certs),
                   b"" if crls is None else CTX(1, crls), SET(si()) if sis is None else sis, extra)
    senv_valid = [senv(certs=a, crls=b) for a in (None, b"", SEQ(NULL)) for b in (None, b"", SEQ())] + [senv(ver=der_uint(v)) for v in (0, 2, 2**31 - 1)] + [senv(e=a) for a in anys[1:5]] + \
                 [senv(algs=dset(2)), senv(algs=dset(4)), senv(ris=SET(NULL), sis=SET(NULL))]
    senv_bad = [senv(ris=SET()), senv(ris=b""), senv(algs=SET()), senv(algs=b""), senv(algs=SET(dg(sm3, NULL))), senv(algs=SET(dg(UNKNOWN))), senv(algs=dset(5)), senv(e=b""), senv(e=b"\x30\x05ab"), senv(sis=SET()), senv(sis=b""),
                senv(extra=NULL), senv(ver=b""), senv(ver=b"\x02\x01\xff"), SEQ(der_uint(1), dset(1), SET(ri()), eci(), SET(si())), SEQ(der_uint(1), SET(ri()), dset(1), eci(), CTX(1, b""), CTX(0, b""), SET(si())),
                SEQ(der_uint(1), SET(ri()), dset(1), eci(), CTX(0, b""), CTX(0, b""), SET(si())), SEQ(der_uint(1), SET(ri()), dset(1), SET(si()))] + generic_bad
    fam("csenvD", senv_valid, senv_bad, 10, pre="4 ")
    for mx in (1, 2, 4):
        for c in (mx - 1, mx, mx + 1, mx + 2):
            if c:
                add("csenvD %d %s" % (mx, hexs(senv(algs=dset(c)))), "csenvD:" + cell_of(c, mx))
                add("csenvD %d %s" % (mx, hexs(senv(algs=dset(c, dg(sm3, NULL))))), "csenvD:last-with-parameters:" + cell_of(c, mx))
    add("csenvD 0 %s" % hexs(senv()), "csenvD:max0")

    # ---------------------------------------------------------------- KeyAgreementInfo
    d = r.bytes(32)
    xy = sm2_pub_bytes(d)
    sm2alg = SEQ(oid(dict(T["tab_public_key_algors"])[E["OID_ec_public_key"]]), oid(dict(T["tab_named_curves"])[E["OID_sm2"]]))
    spki = SEQ(sm2alg, tlv(3, b"\x00\x04" + xy))
    spki_off = SEQ(sm2alg, tlv(3, b"\x00\x04" + xy[:63] + bytes([xy[63] ^ 1])))
    validity = SEQ(tlv(23, b"250101000000Z"), tlv(23, b"491231235959Z"))
    def cert(ver=CTX(0, der_uint(2)), key=spki, extra=b""):
        tbs = SEQ(ver, der_uint(0x1234567890), sg(), name, validity, name, key, extra)
        sig = tlv(3, b"\x00" + SEQ(der_uint(int.from_bytes(r.bytes(32), "big")), der_uint(int.from_bytes(r.bytes(32), "big"))))
        return SEQ(tbs, sg(), sig)
    kai = lambda ver=der_uint(1), key=spki, c=None, uid=b"1234567812345678", extra=b"": SEQ(ver, key, cert() if c is None else c, b"" if uid is None else OCT(uid), extra)
    kai_valid = [kai(), kai(uid=b""), kai(ver=der_uint(0)), kai(ver=der_uint(2)), kai(c=cert(ver=b""))]
    kai_bad = [kai(key=spki_off), kai(c=cert(key=spki_off)), kai(c=cert(ver=CTX(0, der_uint(3)))), kai(c=cert(extra=NULL)), kai(c=NULL), kai(c=SEQ()), kai(c=b""), kai(key=b""), kai(key=SEQ(sm2alg)),
               kai(uid=None), kai(extra=NULL), kai(ver=b""), kai(ver=b"\x02\x01\xff"), SEQ(der_uint(1), cert(), spki, OCT(b"id")), kai(uid=None, extra=IMP(0, b"id"))] + generic_bad
    fam("ckaiD", kai_valid, kai_bad, 12, hint=pt_hints)
    return cases
