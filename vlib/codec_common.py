"""Shared by the C14 and C06 checks: DER helpers for the case generators and the comparison of
harness output with the multi-mode model output
   <Fixed result>[ ~<switch>=<result with that defect switched on>]...[ ~asis=<AsIs result>]
A disagreement with the Fixed model is a violation; it is attributed to a named defect when the
implementation's answer equals the model's answer with exactly that defect present."""
from vlib import core
from vlib.core import hexs

DEFECTS = {
    "oid_cap": "asn1_object_identifier_from_octets writes nodes[32] for an OID of 33 arcs (test `*nodes_cnt > ASN1_OID_MAX_NODES` must be `>=`)",
    "oid_lead": "asn1_oid_node_from_base128 accepts an arc with a leading 0x80 septet (non-canonical OID accepted; re-encoding differs)",
    "oid_first": "first OID octet handled as one byte nodes[0]*40+nodes[1] / (in/40, in%40): OIDs 2.y with y >= 40 (and unchecked nodes[0] > 2) do not round-trip",
    "seq_cap": "asn1_sequence_of_int_from_der writes nums[max_nums] for max_nums+1 elements (test `*nums_cnt > max_nums` must be `>=`)",
    "int_shift": "asn1_int_from_der_ex shifts a signed int into the sign bit for content 00 80..ff xx xx xx (undefined behaviour, UBSan abort)",
    "bit_empty": "asn1_bit_string_from_der_ex refuses the empty BIT STRING 03 01 00 that asn1_bit_string_to_der_ex produces (len < 2)",
    "utf8": "asn1_utf8char_from_bytes tests `(in[i] & 0x60) != 0x80`, which is always true: every multi-byte UTF-8 character is refused",
    "hex_odd": "hex2bin/hex_to_bytes print the length-delimited input with %s when the length is odd: read past the end of the buffer (no NUL)",
    "b64_ws": "base64_decode_block evaluates conv_ascii2bin(*f) before testing n > 0: an all-white-space (or empty) input is read one byte past its end",
    "time_neg": "asn1_time_to_str has no test for a negative time_t: C division truncates toward zero and the fields are added to '0' unchecked, so it returns 1 with characters outside 0-9 (e.g. t = -5 -> \"70010100000+Z\"), which asn1_time_from_str refuses; the DER writers emit it",
    "encdata_enc": "cms_encrypted_data_to_der: the writing pass calls cms_enced_content_info_to_der(.., NULL, &len) instead of (.., out, outlen): header and version are written, the EncryptedContentInfo is not (return 1, dry run agrees with the short output, the decoder refuses it)",
    "cms_dalg_cap": "cms_digest_algors_from_der tested `cnt > max` (fixed in e5c010f): digest_algors[max] written for max+1 elements",
    "digest_ret": "x509_digest_algor_from_der returns `ret` (= 1) from its error branch: a known digest OID followed by more content (e.g. NULL) is answered 1 with *oid = OID_undef, an empty SEQUENCE is answered 0 after being consumed",
    "dp_uri": "x509_uri_as_distribution_point(_name)_from_der leaves *uri/*urilen untouched (nameRelativeToCRLIssuer, absent distributionPoint); x509_uri_as_distribution_points_from_der and x509_crl_new_from_cert then read the caller's uninitialised pointer",
    "multiple": "several of the listed defects at once",
}


def der_len(n):
    if n < 128:
        return bytes([n])
    b = n.to_bytes((n.bit_length() + 7) // 8, "big")
    return bytes([0x80 + len(b)]) + b


def tlv(tag, content):
    return bytes([tag]) + der_len(len(content)) + content


def der_uint(x, tag=2):
    b = x.to_bytes(max(1, (x.bit_length() + 7) // 8), "big")
    if b[0] & 0x80:
        b = b"\0" + b
    return tlv(tag, b)


def b128(a):
    out = [a & 0x7f]
    a >>= 7
    while a:
        out.append(0x80 | (a & 0x7f))
        a >>= 7
    return bytes(reversed(out))


def mutate(r, b, n=1):
    """structure-blind byte mutations of a valid object"""
    b = bytearray(b)
    for _ in range(n):
        k = r.below(8)
        if not b:
            b += r.bytes(1)
            continue
        i = r.below(len(b))
        if k == 0:
            b[i] ^= 1 << r.below(8)
        elif k == 1:
            b[i] = r.below(256)
        elif k == 2:
            del b[i]
        elif k == 3:
            b.insert(i, r.below(256))
        elif k == 4:
            b[i] = (b[i] + 1) & 255
        elif k == 5:
            b[i] = (b[i] - 1) & 255
        elif k == 6:
            b = b[:i]
        else:
            b[i] = r.choice([0, 0x7f, 0x80, 0x81, 0x82, 0x84, 0xff])
    return bytes(b)


CONSTRUCTED = (0x30, 0x31) + tuple(range(0xa0, 0xa8))


def tlv_spans(b, off=0, end=None, depth=0, out=None):
    """(position of the first length octet, header size, content length) of every well-formed TLV, recursively"""
    if out is None:
        out = []
    end = len(b) if end is None else end
    i = off
    while i + 2 <= end and depth < 8:
        tag = b[i]
        l0 = b[i + 1]
        if l0 < 0x80:
            n, hdr = l0, 2
        else:
            k = l0 & 0x7f
            if k == 0 or k > 3 or i + 2 + k > end:
                break
            n, hdr = int.from_bytes(b[i + 2:i + 2 + k], "big"), 2 + k
        if i + hdr + n > end:
            break
        out.append((i + 1, hdr, n))
        if tag in CONSTRUCTED:
            tlv_spans(b, i + hdr, i + hdr + n, depth + 1, out)
        elif tag in (3, 4) and n > 2:      # BIT/OCTET STRING wrapping DER (extensions, keys)
            inner = i + hdr + (1 if tag == 3 else 0)
            if b[inner] in (0x30, 0x04, 0x03, 0x02):
                tlv_spans(b, inner, i + hdr + n, depth + 1, out)
        i += hdr + n
    return out


def structured_mutations(r, b, budget):
    """truncations, length-octet edits at every TLV, tag edits, byte noise"""
    out = []
    n = len(b)
    step = max(1, n // max(1, budget // 4))
    for cut in range(0, n, step):
        out.append(("truncate", b[:cut]))
    spans = tlv_spans(b)
    r.shuffle(spans)
    for (pos, hdr, ln) in spans[:max(1, budget // 8)]:
        for v in (b[pos] - 1, b[pos] + 1, 0, 0x7f, 0x80, 0x81, 0x82, 0x84, 0xff):
            m = bytearray(b)
            m[pos] = v & 255
            out.append(("length-octet", bytes(m)))
        m = bytearray(b)
        m[pos - 1] = r.choice([0x30, 0x31, 0x02, 0x03, 0x04, 0x05, 0x06, 0x0c, 0x13, 0x17, 0x18, 0xa0, 0xa3, 0x80, 0x00, 0xff])
        out.append(("tag", bytes(m)))
        # grow / shrink the content with consistent outer lengths broken
        out.append(("insert", b[:pos + hdr - 1] + r.bytes(r.range(1, 3)) + b[pos + hdr - 1:]))
    for _ in range(budget // 3):
        out.append(("noise", mutate(r, b, r.range(1, 3))))
    return out


def oid_siblings(r, b, limit=24):
    """sibling-OID substitution: every OBJECT IDENTIFIER found by the TLV walk replaced by an OID with the same number of
    arcs that differs from it in ONE arc (last arc +-1 / +-256, a middle arc, the second arc) - same length where possible,
    so only the OID comparison can tell them apart.  Returns [(kind, bytes)]."""
    out = []
    spans = [(pos, hdr, n) for (pos, hdr, n) in tlv_spans(b) if b[pos - 1] == 6 and 2 <= n < 128 and hdr == 2]
    r.shuffle(spans)
    for (pos, hdr, n) in spans:
        body = bytearray(b[pos + 1:pos + 1 + n])
        starts = [0] + [i + 1 for i in range(n - 1) if not body[i] & 0x80]          # first octet of every arc (the first holds two arcs)
        for k, idx in (("last", starts[-1]), ("middle", starts[len(starts) // 2]), ("second", 0)):
            end = idx
            while body[end] & 0x80:
                end += 1
            for delta in (1, -1, 2):
                m = bytearray(body)
                v = (m[end] & 0x7f) + delta
                if not 0 <= v < 128 or (k == "second" and not 0 <= v % 40 + delta < 40):
                    continue
                m[end] = (m[end] & 0x80) | v
                out.append(("sibling-oid:" + k, b[:pos + 1] + bytes(m) + b[pos + 1 + n:]))
            if end > idx:                                   # change a high septet of a multi-octet arc: differs by a multiple of 128
                m = bytearray(body)
                m[idx] = 0x80 | (((m[idx] & 0x7f) % 126) + 1)
                out.append(("sibling-oid:" + k + "-high", b[:pos + 1] + bytes(m) + b[pos + 1 + n:]))
    r.shuffle(out)
    return out[:limit]


def compare(ctx, cases, impl, model, variant, impl_err="", out_of_scope=()):
    """cases: [(line, cell)].  Returns number of disagreements.
    out_of_scope: defect names that do not concern the calling property when neither side faults
    (C06 leaves the value-level defects to C14); they are counted, not reported."""
    nbad = 0
    for i, (line, cell) in enumerate(cases):
        ctx.cov["evaluations"] += 1
        a, b = impl[i], model[i]
        ctx.count("op:" + line.split(" ", 1)[0])
        if b.startswith("MODEL-") or (b.startswith("FAULT ") and not b.startswith("FAULT ~")):
            ctx.violation("model:" + cell, "model-side failure on `%s`: %s" % (line[:200], b[:200]),
                          {"kind": "model", "op": line, "model": b}, found_input=False)
            continue
        an = "FAULT" if a.startswith("FAULT") else a
        parts = b.split(" ~")
        expected = parts[0]
        alts = dict(p.split("=", 1) for p in parts[1:] if "=" in p)
        if an == expected:
            outcome = "FAULT" if an == "FAULT" else ("ERR" if an.startswith("ERR") else ("ABSENT" if an == "ABSENT" else "ok"))
            ctx.cell(cell + ":" + outcome)
            if alts:
                ctx.count("defect-cases-now-agreeing-with-fixed-model")
            if i % max(1, len(cases) // 8) == 0:
                ctx.sample({"op": line[:200], "result": a[:120]})
            continue
        nbad += 1
        key = None
        for name, val in alts.items():
            if name != "asis" and val == an:
                key = "defect:" + name
                break
        if key is None and alts.get("asis") == an:
            key = "defect:multiple"
        if key is not None and key.split(":", 1)[1] in out_of_scope and an != "FAULT" and expected != "FAULT":
            ctx.count("value-defect-left-to-C14:" + key.split(":", 1)[1])
            continue
        if key is not None:
            text = "%s [%s]: op `%s` impl=%s, required=%s" % (DEFECTS[key.split(":", 1)[1]], variant, line[:160], a[:80], expected[:80])
        else:
            key = cell
            text = "implementation differs from the model [%s]: op `%s` impl=%s model=%s" % (variant, line[:160], a[:100], b[:100])
        ctx.violation(key, text, {"kind": "failing-input", "op": line, "impl": a, "expected": expected, "model_line": b,
                                  "variant": variant, "stderr": impl_err[-1500:] if a.startswith("FAULT") else ""}, found_input=True)
    return nbad


# ----------------------------------------------------------------------------- SM2 curve (hints for the key models)
SM2_P = 0xFFFFFFFEFFFFFFFFFFFFFFFFFFFFFFFFFFFFFFFF00000000FFFFFFFFFFFFFFFF
SM2_A = SM2_P - 3
SM2_B = 0x28E9FA9E9D9F5E344D5A9E4BCF6509A7F39789F515AB8F92DDBCBD414D940E93
SM2_N = 0xFFFFFFFEFFFFFFFFFFFFFFFFFFFFFFFF7203DF6B21C6052B53BBF40939D54123
SM2_G = (0x32C4AE2C1F1981195F9904466A39C9948FE30BBFF2660BE1715A4589334C74C7,
         0xBC3736A2F4F6779C59BDCEE36B692153D0A9877CC62A474002DF32E52139F0A0)


def _ec_add(P, Q):
    if P is None:
        return Q
    if Q is None:
        return P
    (x1, y1), (x2, y2) = P, Q
    if x1 == x2:
        if (y1 + y2) % SM2_P == 0:
            return None
        l = (3 * x1 * x1 + SM2_A) * pow(2 * y1, -1, SM2_P) % SM2_P
    else:
        l = (y2 - y1) * pow(x2 - x1, -1, SM2_P) % SM2_P
    x3 = (l * l - x1 - x2) % SM2_P
    return (x3, (l * (x1 - x3) - y1) % SM2_P)


def sm2_mul(k, P=SM2_G):
    R = None
    while k:
        if k & 1:
            R = _ec_add(R, P)
        P = _ec_add(P, P)
        k >>= 1
    return R


def sm2_pub_bytes(d_bytes):
    """x || y of [d]G for a 32-byte big-endian d (64 zero bytes for the point at infinity)"""
    R = sm2_mul(int.from_bytes(d_bytes, "big") % SM2_N) if int.from_bytes(d_bytes, "big") % SM2_N else None
    if R is None:
        return bytes(64)
    return R[0].to_bytes(32, "big") + R[1].to_bytes(32, "big")


def sm2_octets_ok(o):
    """what sm2_z256_point_from_octets accepts for 65 octets: 04 || x || y, x,y < p, on the curve, not (0,0)"""
    if len(o) != 65 or o[0] != 4:
        return False
    x, y = int.from_bytes(o[1:33], "big"), int.from_bytes(o[33:], "big")
    if x >= SM2_P or y >= SM2_P or (x == 0 and y == 0):
        return False
    return (y * y - (x * x * x + SM2_A * x + SM2_B)) % SM2_P == 0


def scan_strings(b, depth=0):
    """contents of every OCTET STRING / BIT STRING found by a permissive TLV walk (also inside string contents)"""
    out = []
    i = 0
    while i + 2 <= len(b) and depth < 7:
        tag, l0 = b[i], b[i + 1]
        if l0 < 0x80:
            n, hdr = l0, 2
        else:
            k = l0 & 0x7f
            if k == 0 or k > 4 or i + 2 + k > len(b):
                break
            n, hdr = int.from_bytes(b[i + 2:i + 2 + k], "big"), 2 + k
        body = b[i + hdr:i + hdr + n]
        if tag in (3, 4):
            out.append((tag, body))
        if tag in (0x30, 0x31, 4) or 0xa0 <= tag <= 0xa7:
            out += scan_strings(body, depth + 1)
        elif tag == 3 and len(body) > 1:
            out += scan_strings(body[1:], depth + 1)
        i += hdr + n
    return out


def pt_hints(der):
    """P= hint token only (public points): for objects that hold no private scalar"""
    ps = {}
    for tag, body in scan_strings(der):
        if tag == 3 and len(body) == 66 and body[0] == 0:
            ps[body[1:].hex()] = "1" if sm2_octets_ok(body[1:]) else "0"
    return (" P=" + ",".join("%s:%s" % kv for kv in ps.items())) if ps else ""


def key_hints(der):
    """H= / P= hint tokens for every candidate private scalar / public point occurring in der"""
    hs, ps = {}, {}
    for tag, body in scan_strings(der):
        if tag == 4 and len(body) == 32:
            hs[body.hex()] = sm2_pub_bytes(body).hex()
        if tag == 3 and len(body) == 66 and body[0] == 0:
            ps[body[1:].hex()] = "1" if sm2_octets_ok(body[1:]) else "0"
    toks = []
    if hs:
        toks.append("H=" + ",".join("%s:%s" % kv for kv in hs.items()))
    if ps:
        toks.append("P=" + ",".join("%s:%s" % kv for kv in ps.items()))
    return (" " + " ".join(toks)) if toks else ""
