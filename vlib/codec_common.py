"""Shared by the C14 and C06 checks: DER helpers for the case generators and the comparison of
harness output with the multi-mode model output
   <Fixed result>[ ~<switch>=<result with that defect switched on>]...[ ~asis=<AsIs result>]
A disagreement with the Fixed model is a violation; it is attributed to a named defect when the
implementation's answer equals the model's answer with exactly that defect present."""
from vlib import core
from vlib.core import hexs

DEFECTS = {
    "oid_cap": "asn1_object_identifier_from_octets writes nodes[32] for an OID of 33 arcs (test `*nodes_cnt > ASN1_OID_MAX_NODES` must be `>=`)",
    "oid_lead": "asn1_oid_node_from_base128 accepts an arc with a leading 0x80 septet (non-canonical OID accepted; re-encoding differs)",
    "oid_first": "first OID octet handled as one byte nodes[0]*40+nodes[1] / (in/40, in%40): OIDs 2.y with y >= 40 (and unchecked nodes[0] > 2) do not round-trip",
    "seq_cap": "asn1_sequence_of_int_from_der writes nums[max_nums] for max_nums+1 elements (test `*nums_cnt > max_nums` must be `>=`)",
    "int_shift": "asn1_int_from_der_ex shifts a signed int into the sign bit for content 00 80..ff xx xx xx (undefined behaviour, UBSan abort)",
    "bit_empty": "asn1_bit_string_from_der_ex refuses the empty BIT STRING 03 01 00 that asn1_bit_string_to_der_ex produces (len < 2)",
    "utf8": "asn1_utf8char_from_bytes tests `(in[i] & 0x60) != 0x80`, which is always true: every multi-byte UTF-8 character is refused",
    "hex_odd": "hex2bin/hex_to_bytes print the length-delimited input with %s when the length is odd: read past the end of the buffer (no NUL)",
    "b64_ws": "base64_decode_block evaluates conv_ascii2bin(*f) before testing n > 0: an all-white-space (or empty) input is read one byte past its end",
    "multiple": "several of the listed defects at once",
}


def der_len(n):
    if n < 128:
        return bytes([n])
    b = n.to_bytes((n.bit_length() + 7) // 8, "big")
    return bytes([0x80 + len(b)]) + b


def tlv(tag, content):
    return bytes([tag]) + der_len(len(content)) + content


def der_uint(x, tag=2):
    b = x.to_bytes(max(1, (x.bit_length() + 7) // 8), "big")
    if b[0] & 0x80:
        b = b"\0" + b
    return tlv(tag, b)


def b128(a):
    out = [a & 0x7f]
    a >>= 7
    while a:
        out.append(0x80 | (a & 0x7f))
        a >>= 7
    return bytes(reversed(out))


def mutate(r, b, n=1):
    """structure-blind byte mutations of a valid object"""
    b = bytearray(b)
    for _ in range(n):
        k = r.below(8)
        if not b:
            b += r.bytes(1)
            continue
        i = r.below(len(b))
        if k == 0:
            b[i] ^= 1 << r.below(8)
        elif k == 1:
            b[i] = r.below(256)
        elif k == 2:
            del b[i]
        elif k == 3:
            b.insert(i, r.below(256))
        elif k == 4:
            b[i] = (b[i] + 1) & 255
        elif k == 5:
            b[i] = (b[i] - 1) & 255
        elif k == 6:
            b = b[:i]
        else:
            b[i] = r.choice([0, 0x7f, 0x80, 0x81, 0x82, 0x84, 0xff])
    return bytes(b)


def compare(ctx, cases, impl, model, variant, impl_err="", out_of_scope=()):
    """cases: [(line, cell)].  Returns number of disagreements.
    out_of_scope: defect names that do not concern the calling property when neither side faults
    (C06 leaves the value-level defects to C14); they are counted, not reported."""
    nbad = 0
    for i, (line, cell) in enumerate(cases):
        ctx.cov["evaluations"] += 1
        a, b = impl[i], model[i]
        ctx.count("op:" + line.split(" ", 1)[0])
        if b.startswith("MODEL-") or (b.startswith("FAULT ") and not b.startswith("FAULT ~")):
            ctx.violation("model:" + cell, "model-side failure on `%s`: %s" % (line[:200], b[:200]),
                          {"kind": "model", "op": line, "model": b}, found_input=False)
            continue
        an = "FAULT" if a.startswith("FAULT") else a
        parts = b.split(" ~")
        expected = parts[0]
        alts = dict(p.split("=", 1) for p in parts[1:] if "=" in p)
        if an == expected:
            outcome = "FAULT" if an == "FAULT" else ("ERR" if an.startswith("ERR") else ("ABSENT" if an == "ABSENT" else "ok"))
            ctx.cell(cell + ":" + outcome)
            if alts:
                ctx.count("defect-cases-now-agreeing-with-fixed-model")
            if i % max(1, len(cases) // 8) == 0:
                ctx.sample({"op": line[:200], "result": a[:120]})
            continue
        nbad += 1
        key = None
        for name, val in alts.items():
            if name != "asis" and val == an:
                key = "defect:" + name
                break
        if key is None and alts.get("asis") == an:
            key = "defect:multiple"
        if key is not None and key.split(":", 1)[1] in out_of_scope and an != "FAULT" and expected != "FAULT":
            ctx.count("value-defect-left-to-C14:" + key.split(":", 1)[1])
            continue
        if key is not None:
            text = "%s [%s]: op `%s` impl=%s, required=%s" % (DEFECTS[key.split(":", 1)[1]], variant, line[:160], a[:80], expected[:80])
        else:
            key = cell
            text = "implementation differs from the model [%s]: op `%s` impl=%s model=%s" % (variant, line[:160], a[:100], b[:100])
        ctx.violation(key, text, {"kind": "failing-input", "op": line, "impl": a, "expected": expected, "model_line": b,
                                  "variant": variant, "stderr": impl_err[-1500:] if a.startswith("FAULT") else ""}, found_input=True)
    return nbad
