"""GF(2^128) arithmetic of SP 800-38D on python integers, used by generators to craft GCM IVs whose
pre-counter block J0 has chosen low bytes (counter wrap cases)."""


def gmul(x, y):
    z, v = 0, y
    for i in range(128):
        if (x >> (127 - i)) & 1:
            z ^= v
        v = (v >> 1) ^ ((0xe1 << 120) if v & 1 else 0)
    return z


def ginv(x):
    r, p = 1 << 127, x
    e = (1 << 128) - 2
    while e:
        if e & 1:
            r = gmul(r, p)
        p = gmul(p, p)
        e >>= 1
    return r


def iv16_for_j0(h, j0):
    """the 16-byte IV whose J0 = GHASH_H(IV || 0^64 || [128]_64) equals j0 (H != 0)"""
    hi = ginv(h)
    return gmul(gmul(j0, hi) ^ 128, hi)
