"""Case generator for the SM9 key containers (coq/Codec/Sm9Key.v) - FRAGMENT for props/C14/run.py.
Merge:  from this file take everything; in run():  cases = gen(ctx) + gen_composite(ctx, exe0) + gen_sm9(ctx, exe0).

There is NO independent SM9 arithmetic in python.  Valid keys come from the harness itself (op `s9mk`:
sm9_*_master_key_generate / extract_key with scripted entropy), and the verdict "these 65 / 129 octets are
a point" that the model needs as hint tokens G1= / G2= is the answer of the library's own
sm9_z256_[twist_]point_from_uncompressed_octets (op `s9ok`).  So the correspondence run compares the
STRUCTURE of the decoders (order and completeness of the checks, what is stored, consumption) and not the
curve arithmetic; a wrong on-curve test would not be seen here.  PBKDF2 with 65536 iterations is likewise
taken from the harness (op `kdf`, hint K=); for small iteration counts the model computes it itself."""
from vlib import core
from vlib.core import hexs
from vlib.codec_common import tlv, der_uint, b128, mutate, scan_strings

SM9_P = 0xB640000002A3A6F1D603AB4FF58EC74521F2934B1A7AEEDBE56F9B27E351457D
SM9_N = 0xB640000002A3A6F1D603AB4FF58EC74449F2934B18EA8BEEE56EE19CD69ECF25
S9_OIDS = {40: [1, 2, 156, 10197, 1, 302], 41: [1, 2, 156, 10197, 1, 302, 1], 42: [1, 2, 156, 10197, 1, 302, 2], 43: [1, 2, 156, 10197, 1, 302, 3],
           "sm2": [1, 2, 156, 10197, 1, 301], "sm4": [1, 2, 156, 10197, 1, 104, 2], "deep": [1, 2, 156, 10197, 1, 302, 1, 1], "pbkdf2": [1, 2, 840, 113549, 1, 5, 12], "pbes2": [1, 2, 840, 113549, 1, 5, 13],
           30: [1, 2, 156, 10197, 1, 401, 2], 20: [1, 2, 156, 10197, 1, 104, 2], 21: [2, 16, 840, 1, 101, 3, 4, 1, 2]}
TYPES = ("smsk", "smpk", "sk", "emsk", "empk", "ek")
ALGS = {"smsk": (40, 41), "sk": (41, None), "emsk": (40, 43), "ek": (43, None)}


def s9_oid(k):
    n = S9_OIDS[k]
    return tlv(6, b128(n[0] * 40 + n[1]) + b"".join(b128(a) for a in n[2:]))


def s9_alg(alg, par=None, extra=b""):
    return tlv(0x30, s9_oid(alg) + (s9_oid(par) if par is not None else b"") + extra)


def s9_pt(xy, prefix=4, unused=0):
    return tlv(3, bytes([unused, prefix]) + xy)


def s9_int(k):
    return der_uint(int.from_bytes(k, "big"))


def s9_der(ty, f1, f2):
    if ty in ("smsk", "emsk"):
        return tlv(0x30, s9_int(f1) + s9_pt(f2))
    if ty in ("smpk", "empk"):
        return tlv(0x30, s9_pt(f2))
    return tlv(0x30, s9_pt(f1) + s9_pt(f2))


def s9_pki(alg, par, key, ver=0, extra=b"", alg_extra=b""):
    return tlv(0x30, der_uint(ver) + s9_alg(alg, par, alg_extra) + tlv(4, key) + extra)


def s9_p8e(salt, iter_, keylen, prf, cipher, iv, enced):
    kp = tlv(0x30, tlv(4, salt) + der_uint(iter_) + (der_uint(keylen) if keylen is not None else b"") + (tlv(0x30, s9_oid(prf)) if prf is not None else b""))
    kdfa = tlv(0x30, s9_oid("pbkdf2") + kp)
    enca = tlv(0x30, s9_oid(cipher) + tlv(4, iv))
    return tlv(0x30, tlv(0x30, s9_oid("pbes2") + tlv(0x30, kdfa + enca)) + tlv(4, enced))


def point_candidates(der):
    """every BIT STRING content of 66 / 130 octets with no unused bits found by a permissive TLV walk"""
    g1, g2 = set(), set()
    for tag, body in scan_strings(der):
        if tag == 3 and body and body[0] == 0:
            if len(body) == 66:
                g1.add(bytes(body[1:]))
            elif len(body) == 130:
                g2.add(bytes(body[1:]))
    return g1, g2


def gen_sm9(ctx, harness):
    r = ctx.rng
    thorough = ctx.tier == "thorough"
    K = 4 if thorough else 1
    pending = []          # (line, [ders scanned for point candidates], cell)
    add = lambda line, cell, ders=(): pending.append((line, list(ders), cell))

    def neg_fp(b):        # -a mod p on 32 bytes
        a = int.from_bytes(b, "big")
        return ((SM9_P - a) % SM9_P).to_bytes(32, "big")

    # ---- valid keys, from the library
    ids = [b"Alice", b"Bob", b"", b"\xe7\x94\xa8\xe6\x88\xb7"]
    nkeys = 3 if thorough else 2
    out, _ = core.run_lines(harness, ["s9mk %d %s" % (7000 + i, hexs(ids[i % len(ids)])) for i in range(nkeys)], shards=1)
    keys = []
    for o in out:
        w = o.split()
        if w[0] != "OK" or len(w) != 7:
            ctx.notes.append("s9mk failed: " + o[:80])
            continue
        ks, Ppubs, ds, ke, Ppube, de = [bytes.fromhex(x) for x in w[1:]]
        keys.append({"smsk": (ks, Ppubs), "smpk": (ks, Ppubs), "sk": (ds, Ppubs), "emsk": (ke, Ppube), "empk": (ke, Ppube), "ek": (de, Ppube)})
    if not keys:
        return []
    k0 = keys[0]
    g1v, g2v = k0["emsk"][1], k0["smsk"][1]          # one valid point of each group

    # ---- object identifiers, AlgorithmIdentifier
    for i in (40, 41, 42, 43, -1, 20, 0, 44):
        add("s9oidE %d" % i, "s9oidE:%s" % ("known" if 40 <= i <= 43 else ("absent" if i == -1 else "unknown")))
    for k in (40, 41, 42, 43, "sm2", "deep"):
        add("s9oidD %s" % hexs(s9_oid(k) + r.bytes(r.below(2))), "s9oidD:%s" % ("known" if k in (40, 41, 42, 43) else "not-in-table"))
    for h in ("0500", "-", "06", "0600", "3000", hexs(s9_oid(41)[:-1]), hexs(s9_oid(41)[:-1] + b"\x81")):
        add("s9oidD %s" % h, "s9oidD:absent-or-malformed")
    for a in (40, 41, 42, 43, -1, 20):
        for p in (40, 41, 43, -1, 20):
            add("s9algE %d %d" % (a, p), "s9algE:%s:%s" % ("alg-known" if 40 <= a <= 43 else "alg-bad", "par-absent" if p == -1 else ("par-known" if 40 <= p <= 43 else "par-bad")))
    alg_valid = [s9_alg(a, p) for a in (40, 41, 42, 43) for p in (None, 40, 41, 43)]
    alg_bad = [s9_alg(40, None, b"\x05\x00"), s9_alg(40, 41, b"\x05\x00"), s9_alg(40, 41, s9_oid(43)), tlv(0x30, b""), tlv(0x30, b"\x05\x00"), s9_alg("sm2"), s9_alg(40, "sm2"), s9_alg("sm2", 41),
               tlv(0x31, s9_oid(40)), b"", s9_alg(40, 41)[:-1], tlv(0x30, s9_oid(40) + s9_oid(41)[:-1])]
    for v in alg_valid + alg_bad:
        add("s9algD %s" % hexs(v + r.bytes(r.below(2))), "s9algD:%s" % ("valid" if v in alg_valid else "malformed"))
    for v in (s9_alg(40, 41), s9_alg(41)):
        for _ in range(15 * K):
            add("s9algD %s" % hexs(mutate(r, v, r.range(1, 2))), "s9algD:mutated")
        for cut in range(len(v)):
            add("s9algD %s" % hexs(v[:cut]), "s9algD:truncated")

    # ---- the six key types: encoders
    sc_edges = [bytes(32), (1).to_bytes(32, "big"), (SM9_N - 1).to_bytes(32, "big"), SM9_N.to_bytes(32, "big"), b"\xff" * 32, bytes(16) + b"\x80" + bytes(15), bytes(31) + b"\x80", b"\x7f" + b"\xff" * 31]
    for key in keys:
        for ty in TYPES:
            f1, f2 = key[ty]
            add("s9E %s %s %s" % (ty, hexs(f1), hexs(f2)), "s9E:%s:valid" % ty)
    for ty in ("smsk", "smpk", "emsk", "empk"):
        for sc in sc_edges:
            add("s9E %s %s %s" % (ty, hexs(sc), hexs(k0[ty][1])), "s9E:%s:scalar-edge" % ty)

    # ---- decoders: valid, every type into every decoder, scalar and point edge cases, structure, mutations
    ders = {ty: s9_der(ty, *k0[ty]) for ty in TYPES}
    for key in keys:
        for ty in TYPES:
            d = s9_der(ty, *key[ty])
            add("s9D %s %s" % (ty, hexs(d + r.bytes(r.below(2)))), "s9D:%s:valid" % ty, [d])
    for ty in TYPES + ("sig",):
        for src in TYPES:
            if src != ty:
                add("s9D %s %s" % (ty, hexs(ders[src])), "s9D:%s:other-type" % ty, [ders[src]])
    for ty in ("smsk", "emsk"):
        P = k0[ty][1]
        for sc in sc_edges:
            v = int.from_bytes(sc, "big")
            d = tlv(0x30, der_uint(v) + s9_pt(P))
            add("s9D %s %s" % (ty, hexs(d)), "s9D:%s:scalar-%s" % (ty, "zero" if v == 0 else ("below-n" if v < SM9_N else "not-below-n")), [d])
        for ib, cls in ((tlv(2, b"\x00" + bytes(31) + b"\x01"), "non-minimal"), (tlv(2, b"\x80" + bytes(31)), "negative"), (tlv(2, b"\x00" + b"\xff" * 32), "33-bytes-ge-n"), (tlv(2, b"\x01" + bytes(32)), "33-bytes"),
                        (tlv(2, b""), "empty"), (tlv(4, bytes(32)), "octet-string"), (b"", "missing")):
            d = tlv(0x30, ib + s9_pt(P))
            add("s9D %s %s" % (ty, hexs(d)), "s9D:%s:integer-%s" % (ty, cls), [d])

    def point_variants(xy):
        g1 = len(xy) == 64
        out = [(s9_pt(xy), "valid")]
        h = len(xy) // 2
        y = xy[h:]
        ny = b"".join(neg_fp(y[i:i + 32]) for i in range(0, h, 32))
        out.append((s9_pt(xy[:h] + ny), "negated"))
        m = bytearray(xy)
        m[r.below(len(xy))] ^= 1 << r.below(8)
        out.append((s9_pt(bytes(m)), "off-curve"))
        for pre in (0, 2, 3, 5, 6, 7, 0xff):
            out.append((s9_pt(xy, prefix=pre), "bad-prefix"))
        out.append((s9_pt(bytes(len(xy))), "zero-coordinates"))
        out.append((s9_pt(SM9_P.to_bytes(32, "big") + xy[32:]), "coordinate=p"))
        out.append((s9_pt(xy[:-32] + (SM9_P + 1).to_bytes(32, "big")), "coordinate>p"))
        out.append((s9_pt(b"\xff" * len(xy)), "all-ff"))
        out.append((s9_pt(xy[:-1]), "short"))
        out.append((s9_pt(xy + b"\0"), "long"))
        out.append((s9_pt(xy, unused=1), "unused-bits"))
        out.append((tlv(3, b""), "empty-bit-string"))
        out.append((tlv(4, b"\x04" + xy), "octet-string"))
        out.append((s9_pt(g2v if g1 else g1v), "other-group"))
        out.append((s9_pt(xy[:32]), "compressed-size"))
        return out
    for ty in TYPES:
        f1, f2 = k0[ty]
        if ty in ("smsk", "emsk"):
            for pv, cls in point_variants(f2):
                d = tlv(0x30, s9_int(f1) + pv)
                add("s9D %s %s" % (ty, hexs(d)), "s9D:%s:point-%s" % (ty, cls), [d])
        elif ty in ("smpk", "empk"):
            for pv, cls in point_variants(f2):
                d = tlv(0x30, pv)
                add("s9D %s %s" % (ty, hexs(d)), "s9D:%s:point-%s" % (ty, cls), [d])
        else:
            for pv, cls in point_variants(f1):
                d = tlv(0x30, pv + s9_pt(f2))
                add("s9D %s %s" % (ty, hexs(d)), "s9D:%s:first-point-%s" % (ty, cls), [d])
            for pv, cls in point_variants(f2):
                d = tlv(0x30, s9_pt(f1) + pv)
                add("s9D %s %s" % (ty, hexs(d)), "s9D:%s:second-point-%s" % (ty, cls), [d])
            d = tlv(0x30, s9_pt(f2) + s9_pt(f1))
            add("s9D %s %s" % (ty, hexs(d)), "s9D:%s:points-swapped" % ty, [d])
        v = ders[ty]
        body = v[3:] if v[1] == 0x81 else v[2:]
        for d, cls in ((tlv(0x30, body + b"\x05\x00"), "trailing-element"), (tlv(0x30, body + s9_pt(f2)), "extra-point"), (tlv(0x31, body), "set-tag"), (tlv(0x30, b""), "empty-sequence"), (b"", "empty"),
                       (b"\x05\x00", "null"), (v[:1] + b"\x82\x00" + v[2:] if v[1] == 0x81 else v[:1] + b"\x81" + v[1:], "non-minimal-length"), (tlv(0x30, body)[:-1], "cut-1"), (body, "no-sequence")):
            add("s9D %s %s" % (ty, hexs(d)), "s9D:%s:structure-%s" % (ty, cls), [d])
        for _ in range(30 * K):
            mv = mutate(r, v, r.range(1, 2))
            add("s9D %s %s" % (ty, hexs(mv)), "s9D:%s:mutated" % ty, [mv])
        for cut in range(0, len(v), max(1, len(v) // 16)):
            add("s9D %s %s" % (ty, hexs(v[:cut])), "s9D:%s:truncated" % ty, [v[:cut]])

    # ---- signature  SEQUENCE { OCTET STRING h, BIT STRING S }  and ciphertext  SEQUENCE { 0, BIT STRING C1, OCTET STRING C3, OCTET STRING C2 }
    S = k0["sk"][0]
    for h in sc_edges + [r.bytes(32)]:
        v = int.from_bytes(h, "big")
        add("s9E sig %s %s" % (hexs(h), hexs(S)), "s9E:sig")
        d = tlv(0x30, tlv(4, h) + s9_pt(S))
        add("s9D sig %s" % hexs(d + r.bytes(r.below(2))), "s9D:sig:h-%s" % ("zero" if v == 0 else ("below-n" if v < SM9_N else "not-below-n")), [d])
    hh = (5).to_bytes(32, "big")
    for pv, cls in point_variants(S):
        d = tlv(0x30, tlv(4, hh) + pv)
        add("s9D sig %s" % hexs(d), "s9D:sig:point-%s" % cls, [d])
    for d, cls in ((tlv(0x30, tlv(4, hh[1:]) + s9_pt(S)), "h-31"), (tlv(0x30, tlv(4, b"\0" + hh) + s9_pt(S)), "h-33"), (tlv(0x30, s9_int(hh) + s9_pt(S)), "h-integer"), (tlv(0x30, tlv(4, hh) + s9_pt(S) + b"\x05\x00"), "trailing"),
                   (tlv(0x30, s9_pt(S) + tlv(4, hh)), "swapped"), (tlv(0x30, tlv(4, hh)), "no-point"), (b"", "empty")):
        add("s9D sig %s" % hexs(d), "s9D:sig:structure-%s" % cls, [d])
    sv = tlv(0x30, tlv(4, r.bytes(31) + b"\x01")[:2] + b"\x01" + r.bytes(31) + s9_pt(S))
    for _ in range(30 * K):
        mv = mutate(r, sv, r.range(1, 2))
        add("s9D sig %s" % hexs(mv), "s9D:sig:mutated", [mv])
    C1 = k0["emsk"][1]
    for c2len in (0, 1, 32, 255, 256, 300):
        c2, c3 = r.bytes(c2len), r.bytes(32)
        add("s9ctE %s %s %s" % (hexs(C1), hexs(c2), hexs(c3)), "s9ctE:c2len%s" % ("<=255" if c2len <= 255 else ">255"))
        d = tlv(0x30, der_uint(0) + s9_pt(C1) + tlv(4, c3) + tlv(4, c2))
        add("s9ctD %s" % hexs(d + r.bytes(r.below(2))), "s9ctD:valid:c2len%s" % ("<=255" if c2len <= 255 else ">255"), [d])
    c3, c2 = r.bytes(32), r.bytes(20)
    for pv, cls in point_variants(C1):
        d = tlv(0x30, der_uint(0) + pv + tlv(4, c3) + tlv(4, c2))
        add("s9ctD %s" % hexs(d), "s9ctD:point-%s" % cls, [d])
    for d, cls in ((tlv(0x30, der_uint(1) + s9_pt(C1) + tlv(4, c3) + tlv(4, c2)), "type-1"), (tlv(0x30, s9_pt(C1) + tlv(4, c3) + tlv(4, c2)), "no-type"), (tlv(0x30, der_uint(0) + s9_pt(C1) + tlv(4, c3[1:]) + tlv(4, c2)), "c3-31"),
                   (tlv(0x30, der_uint(0) + s9_pt(C1) + tlv(4, c3 + b"\0") + tlv(4, c2)), "c3-33"), (tlv(0x30, der_uint(0) + s9_pt(C1) + tlv(4, c3)), "no-c2"), (tlv(0x30, der_uint(0) + s9_pt(C1) + tlv(4, c3) + tlv(4, c2) + b"\x05\x00"), "trailing"),
                   (tlv(0x30, b"\x02\x04\x80\x00\x00\x00" + s9_pt(C1) + tlv(4, c3) + tlv(4, c2)), "type-negative"), (b"", "empty")):
        add("s9ctD %s" % hexs(d), "s9ctD:structure-%s" % cls, [d])
    cv = tlv(0x30, der_uint(0) + s9_pt(C1) + tlv(4, c3) + tlv(4, c2))
    for _ in range(30 * K):
        mv = mutate(r, cv, r.range(1, 2))
        add("s9ctD %s" % hexs(mv), "s9ctD:mutated", [mv])

    # ---- password-encrypted containers
    # (a) the library's own writer: 65536 iterations, salt and iv parsed from its output, PBKDF2 from the harness
    ktypes = ("smsk", "sk", "emsk", "ek")
    lib = []
    for i, ty in enumerate(ktypes):
        key = keys[i % len(keys)]
        pw = [b"password", b"", b"correct horse battery staple", b"\xe5\xaf\x86"][i]
        lib.append(("s9sealLib %s %s %s %s %d" % (ty, hexs(key[ty][0]), hexs(key[ty][1]), hexs(pw), 9000 + i), ty, key, pw))
    out, _ = core.run_lines(harness, [x[0] for x in lib], shards=1)
    for (line, ty, key, pw), o in zip(lib, out):
        if not o.startswith("OK "):
            ctx.notes.append("s9sealLib failed: " + o[:80])
            continue
        der = bytes.fromhex(o.split()[1])
        octs = [b for t, b in scan_strings(der) if t == 4]
        salt, iv = octs[0], octs[1]
        pws = [pw, pw + b"x"]
        kk, _ = core.run_lines(harness, ["kdf %s %s 65536" % (hexs(p), hexs(salt)) for p in pws], shards=1)
        kh = " K=" + ",".join("%s/%s/65536:%s" % (hexs(p), hexs(salt), k) for p, k in zip(pws, kk))
        inner = s9_der(ty, *key[ty])
        add("%s E=%s/%s%s" % (line, hexs(salt), hexs(iv), kh), "s9sealLib:%s" % ty)
        for t2 in ktypes + ("smpk",):
            add("s9open %s %s %s%s" % (t2, hexs(pw), hexs(der + r.bytes(r.below(2))), kh), "s9open:library-made:%s" % ("own-type" if t2 == ty else "other-loader"), [inner])
        add("s9open %s %s %s%s" % (ty, hexs(pws[1]), hexs(der), kh), "s9open:library-made:wrong-password", [inner])
        # tampering confined to the ciphertext bytes (any other change would make the model run 65536 PBKDF2 iterations itself)
        for _ in range(3 * K):
            m = bytearray(der)
            m[len(der) - 1 - r.below(len(octs[2]))] ^= 1 << r.below(8)
            add("s9open %s %s %s%s" % (ty, hexs(pw), hexs(bytes(m)), kh), "s9open:library-made:ciphertext-tampered", [inner])

    # (b) containers with small iteration counts around plaintexts of our choice (existing op p8sealraw)
    raws = []
    def raw(info, cls, ty, inner, it=2, kl=16, prf=30, pw=b"pw"):
        raws.append(("p8sealraw %s %s %s %s %d %d %d" % (hexs(info), hexs(pw), hexs(r.bytes(r.choice([8, 16]))), hexs(r.bytes(16)), it, kl, prf), cls, ty, inner, pw))
    for i, ty in enumerate(ktypes):
        alg, par = ALGS[ty]
        inner = ders[ty]
        it, kl, prf = [(1, 16, 30), (2, -1, -1), (3, 16, -1), (5, -1, 30)][i]
        raw(s9_pki(alg, par, inner), "well-formed", ty, inner, it, kl, prf, [b"password", b"", b"a", b"pw"][i])
        raw(s9_pki(alg, par, inner), "keylen-32", ty, inner, 2, 32, 30)
        raw(s9_pki(alg, par, inner) + b"\x00", "byte-after-info", ty, inner)
        raw(s9_pki(alg, par, inner + b"\x00"), "byte-after-key", ty, inner)
        raw(s9_pki(alg, par, inner, ver=1), "version-1", ty, inner)
        raw(s9_pki(alg, par, inner, extra=tlv(0xa0, b"")), "attributes", ty, inner)
        raw(s9_pki(alg, 40 if par is None else None, inner), "params-%s" % ("unexpected" if par is None else "missing"), ty, inner)
        raw(s9_pki(42, par, inner), "alg-keyagreement", ty, inner)
        raw(s9_pki(alg, par, inner, alg_extra=b"\x05\x00"), "algor-with-null", ty, inner)
        raw(s9_pki(alg, par, b""), "empty-key", ty, inner)
        raw(s9_pki(alg, par, inner[:-1]), "key-cut", ty, inner)
        raw(inner, "bare-key", ty, inner)
        raw(s9_pki(alg, par, inner + bytes(205 - len(inner))) if len(inner) < 205 else s9_pki(alg, par, inner + b"\0"), "key-205-bytes", ty, inner)
        raw(s9_pki(alg, par, inner + bytes(204 - len(inner))), "key-204-bytes-padded", ty, inner)
        raw(s9_pki(alg, par, inner) + bytes(480 - len(s9_pki(alg, par, inner))), "info-480-bytes", ty, inner)
    out, _ = core.run_lines(harness, [x[0] for x in raws], shards=1)
    made = {}
    for (line, cls, ty, inner, pw), o in zip(raws, out):
        add(line, "p8sealraw:sm9:" + cls)
        if not o.startswith("OK "):
            continue
        der = bytes.fromhex(o.split()[1])
        if cls == "well-formed":
            made[ty] = (der, pw, inner)
            for t2 in ktypes + ("empk", "sig"):
                add("s9open %s %s %s" % (t2, hexs(pw), hexs(der + r.bytes(r.below(2)))), "s9open:%s" % ("own-type" if t2 == ty else "other-loader"), [inner])
            for wrong in (pw + b"x", pw[:-1] if pw else b"z", b"Password"):
                add("s9open %s %s %s" % (ty, hexs(wrong), hexs(der)), "s9open:wrong-password", [inner])
            for _ in range(10 * K):
                add("s9open %s %s %s" % (ty, hexs(pw), hexs(mutate(r, der, 1))), "s9open:tampered", [inner])
            for cut in (0, 1, len(der) // 2, len(der) - 17, len(der) - 1):
                add("s9open %s %s %s" % (ty, hexs(pw), hexs(der[:cut])), "s9open:truncated", [inner])
        else:
            add("s9open %s %s %s" % (ty, hexs(pw), hexs(der)), "s9open:plaintext:" + cls, [inner])
    for en_len in (0, 15, 16, 32, 512, 513, 528):
        v = s9_p8e(r.bytes(8), 2, 16, 30, 20, r.bytes(16), r.bytes(en_len))
        add("s9open smsk 70617373 %s" % hexs(v), "s9open:garbage-ciphertext:len%s" % ("<=512" if en_len <= 512 else ">512"))
    add("s9open sk 70617373 %s" % hexs(s9_p8e(r.bytes(8), 2, 16, 30, 21, r.bytes(16), r.bytes(32))), "s9open:other-cipher")
    add("s9open ek 70617373 %s" % hexs(s9_p8e(r.bytes(8), 2, None, None, 20, r.bytes(15), r.bytes(32))), "s9open:iv-15")

    # ---- point verdicts for the hint tokens, in one batch, from the library
    cand = [point_candidates(b"".join(ds)) if ds else (set(), set()) for _, ds, _ in pending]
    q1 = sorted(set().union(*[c[0] for c in cand])) if cand else []
    q2 = sorted(set().union(*[c[1] for c in cand])) if cand else []
    ans, _ = core.run_lines(harness, ["s9ok g1 %s" % hexs(o) for o in q1] + ["s9ok g2 %s" % hexs(o) for o in q2])
    v1 = dict(zip(q1, ans[:len(q1)]))
    v2 = dict(zip(q2, ans[len(q1):]))
    cases = []
    for (line, ds, cell), (c1, c2) in zip(pending, cand):
        toks = ""
        if c1:
            toks += " G1=" + ",".join("%s:%s" % (o.hex(), v1[o].strip()) for o in sorted(c1))
        if c2:
            toks += " G2=" + ",".join("%s:%s" % (o.hex(), v2[o].strip()) for o in sorted(c2))
        cases.append((line + toks, cell))
    return cases
