"""Case generator for the CRL / certification request ops (models: coq/Codec/Crl.v; harness: props/C14/harness_crl.inc).
For every decoder: valid objects covering every presence pattern of its OPTIONAL members and every table row,
hand-made malformed objects aimed at each test of the C text (each `!= 1` / `< 0` distinction, each check after
parsing) and at both sides of the quirks Q1..Q11 of the model file, then structure-aware mutations."""
from vlib.core import hexs
from vlib.codec_common import tlv, der_uint, structured_mutations, pt_hints, sm2_pub_bytes
from vlib.codec_x509 import tables, oid, SEQ, SET, CTX, IMP, NULL, UNKNOWN, TRUE, FALSE

OCT = lambda c: tlv(4, c)
ENUM = lambda k: tlv(10, bytes([k]))
UTC = lambda s: tlv(23, s)
GEN = lambda s: tlv(24, s)


def gen_crl(ctx, scale=1):
    """scale: multiplier of the mutation budget"""
    r = ctx.rng
    T = tables()
    E = T["enum"]
    K = (4 if ctx.tier == "thorough" else 1) * scale
    cases = []
    add = lambda line, cell: cases.append((line, cell))

    def fam(op, valid, bad=(), budget=6, hint=None, pre="", npool=None):
        h = hint or (lambda b: "")
        for v in valid:
            add("%s %s%s%s" % (op, pre, hexs(v), h(v)), op + ":valid")
            add("%s %s%s%s" % (op, pre, hexs(v + r.bytes(r.range(1, 3))), h(v)), op + ":valid+trailing")
        for v in bad:
            add("%s %s%s%s" % (op, pre, hexs(v), h(v)), op + ":malformed")
        pool = list(valid)
        r.shuffle(pool)
        for v in pool[:(npool or max(2, 4 * K))]:
            for kind, m in structured_mutations(r, v, budget * K):
                add("%s %s%s%s" % (op, pre, hexs(m), h(m)), op + ":" + kind)
        for _ in range(3 * K):
            add("%s %s%s" % (op, pre, hexs(r.bytes(r.range(0, 10)))), op + ":random-stream")

    generic_bad = [b"", b"\x30", b"\x30\x00", b"\x30\x01", b"\x30\x81", b"\x30\x80", b"\x31\x00", NULL, SEQ(NULL), SEQ(oid(UNKNOWN)), b"\x30\x84\xff\xff\xff\xff"]
    ee = dict(T["tab_crl_entry_exts"])
    O_RS, O_ID, O_CI = E["OID_ce_crl_reasons"], E["OID_ce_invalidity_date"], E["OID_ce_certificate_issuer"]
    A_RS, A_ID, A_CI = ee[O_RS], ee[O_ID], ee[O_CI]
    ce = dict(T["tab_crl_exts"])
    O_AKI, O_IAN, O_NUM, O_DELTA, O_IDP, O_FRESH, O_AIA = (E[n] for n in (
        "OID_ce_authority_key_identifier", "OID_ce_issuer_alt_name", "OID_ce_crl_number", "OID_ce_delta_crl_indicator",
        "OID_ce_issuing_distribution_point", "OID_ce_freshest_crl", "OID_pe_authority_info_access"))

    # ---------------------------------------------------------------- CRLReason
    reasons_ok = [ENUM(k) for k in range(11)]
    reasons_bad = [ENUM(11), ENUM(12), ENUM(127), ENUM(128), ENUM(255), tlv(10, b""), tlv(10, b"\x00\x05"), tlv(10, b"\x00\x80"), tlv(10, b"\x01\x00"), tlv(10, b"\x7f\xff\xff\xff"),
                   tlv(10, b"\x00\x80\x00\x00\x00"), tlv(10, b"\x01\x00\x00\x00\x00"), der_uint(1), IMP(0, b"\x01"), b"\x0a", b"\x0a\x02\x01", b"", NULL]
    fam("rreasonD", reasons_ok, reasons_bad, 4)

    # ---------------------------------------------------------------- crlEntryExtensions: one Extension
    fam("rentryextidD", [oid(A_RS), oid(A_ID), oid(A_CI)], [oid(a) for a in (UNKNOWN, ce[O_NUM], ce[O_AKI], A_RS + [0], A_RS[:-1], [1, 2] + [7] * 31)] + [b"\x06\x00", b"\x06\x01\x80", NULL, b""], 4)
    for o in (O_RS, O_ID, O_CI, O_NUM, 0, -1, 12345):
        for c in (-1, 0, 1, 2, 255):
            add("rentrycrit %d %d" % (o, c), "rentrycrit:%s" % ("entry-ext" if o in (O_RS, O_ID, O_CI) else "other"))

    def ext(a, crit=None, val=b"", extra=b""):
        return SEQ(oid(a), b"" if crit is None else crit, b"" if val is None else OCT(val), extra)
    g_ok, g_ok2 = GEN(b"20240101000000Z"), GEN(b"19700101000000Z")
    gns = SEQ(tlv(0xa4, SEQ()), tlv(0x82, b"ca.example"))
    rs_vals = [reasons_ok[1], reasons_ok[10], reasons_ok[0]]
    id_vals = [g_ok, g_ok2]
    ci_vals = [gns, SEQ(), SEQ(tlv(0x86, b"u"))]
    ee_valid = [ext(A_RS, c, v) for c in (None, FALSE) for v in rs_vals] + [ext(A_ID, c, v) for c in (None, FALSE) for v in id_vals] + [ext(A_CI, TRUE, v) for v in ci_vals]
    # wrong criticality: parses at this level, refused by the loops
    ee_wrongcrit = [ext(A_RS, TRUE, rs_vals[0]), ext(A_ID, TRUE, id_vals[0]), ext(A_CI, None, ci_vals[0]), ext(A_CI, FALSE, ci_vals[0])]
    # Q1: bytes after the inner value of the extnValue
    ee_trailing = [ext(A_RS, None, rs_vals[0] + b"\xff\xff"), ext(A_RS, None, rs_vals[0] + rs_vals[1]), ext(A_ID, None, g_ok + NULL), ext(A_CI, TRUE, gns + b"\x00"), ext(A_CI, TRUE, SEQ() + SEQ())]
    # inner value malformed / absent / of the wrong type
    ee_badval = [ext(A_RS, None, b""), ext(A_RS, None, ENUM(11)), ext(A_RS, None, der_uint(1)), ext(A_RS, None, tlv(10, b"")), ext(A_RS, None, g_ok), ext(A_RS, None, b"\x0a\x02\x01"),
                 ext(A_ID, None, b""), ext(A_ID, None, UTC(b"240101000000Z")), ext(A_ID, None, GEN(b"20240101000000")), ext(A_ID, None, GEN(b"20241301000000Z")), ext(A_ID, None, GEN(b"19691231235959Z")),
                 ext(A_ID, None, GEN(b"20240101000000+0800")), ext(A_ID, None, ENUM(1)), ext(A_ID, None, b"\x18\x0f2024"),
                 ext(A_CI, TRUE, b""), ext(A_CI, TRUE, SET()), ext(A_CI, TRUE, b"\x30\x05ab"), ext(A_CI, TRUE, ENUM(1)), ext(A_CI, TRUE, b"\x30")]
    ee_shape = [ext(A_RS, None, None), ext(A_RS, TRUE, None), ext(A_RS, None, rs_vals[0], NULL), ext(A_RS, b"\x01\x01\x01", rs_vals[0]), ext(A_RS, b"\x01\x00", rs_vals[0]), ext(A_RS, b"\x01\x02\xff\xff", rs_vals[0]),
                SEQ(oid(A_RS), OCT(rs_vals[0]), FALSE), SEQ(FALSE, oid(A_RS), OCT(rs_vals[0])), SEQ(OCT(rs_vals[0])), ext(UNKNOWN, None, rs_vals[0]), ext(ce[O_NUM], None, der_uint(1)), ext(ce[O_AKI], None, SEQ()),
                SEQ(oid(A_RS), tlv(3, b"\x00\x01")), ext([1, 2] + [7] * 31, None, b"x"), SET(oid(A_RS), OCT(rs_vals[0]))] + generic_bad
    fam("rentryextD", ee_valid + ee_wrongcrit + ee_trailing[:2] + ee_badval[:3], ee_shape, 6, npool=3 * K)
    ins = [("-1", "-1", "NULL"), ("P", "P", "P"), ("3", "-1", "NULL"), ("-1", "1700000000", "NULL"), ("-1", "-1", "3000"), ("-1", "-1", "-"), ("0", "0", "NULL"), ("-1", "P", "aabb"), ("P", "-1", "NULL"), ("-2", "-2", "P")]
    for v in ee_valid + ee_wrongcrit + ee_trailing + ee_badval + ee_shape[:12]:
        for (a, b, c) in ins[:3] + [r.choice(ins[3:]), r.choice(ins[3:])]:
            add("rentryextexD %s %s %s %s" % (a, b, c, hexs(v)), "rentryextexD:%s" % ("clean-in" if (a, b, c) == ins[0] else "dirty-in"))
    for v in (b"", NULL, b"\x31\x00", ENUM(1)):
        for (a, b, c) in ins:
            add("rentryextexD %s %s %s %s" % (a, b, c, hexs(v)), "rentryextexD:absent")
    for v in ee_valid[:6] + ee_trailing[:2]:
        for kind, m in structured_mutations(r, v, 6 * K):
            a, b, c = r.choice(ins[:3] + ins[7:9])
            add("rentryextexD %s %s %s %s" % (a, b, c, hexs(m)), "rentryextexD:" + kind)

    # ---------------------------------------------------------------- crlEntryExtensions: the loops
    e_rs, e_id, e_ci = ext(A_RS, None, rs_vals[0]), ext(A_ID, FALSE, g_ok), ext(A_CI, TRUE, gns)
    e_ci_empty = ext(A_CI, TRUE, SEQ())
    lists_ok = [b"", e_rs, e_id, e_ci, e_ci_empty, e_rs + e_id, e_id + e_rs, e_rs + e_id + e_ci, e_ci + e_id + e_rs, e_ci_empty + e_rs, ee_trailing[0] + e_id, ee_trailing[3]]
    lists_bad = [e_rs + e_rs, e_id + e_id, e_ci + e_ci, e_ci_empty + e_ci_empty, e_ci_empty + e_ci, e_rs + e_id + e_rs, e_rs + ext(A_RS, None, reasons_ok[0]),
                 e_rs + ee_wrongcrit[1], ee_wrongcrit[0], ee_wrongcrit[2], ee_wrongcrit[3], e_rs + ee_wrongcrit[2], e_rs + ext(UNKNOWN, None, b"x"), ext(ce[O_NUM], None, der_uint(1)),
                 e_rs + NULL, e_rs + b"\x30", e_rs + b"\x30\x05ab", NULL + e_rs, e_rs + ee_badval[0], e_rs + ee_badval[8], e_id + ee_shape[0], e_rs + SEQ(), SEQ(), b"\x00", e_rs + b"\x00"]
    for op, wrap in (("rentryextsget", lambda x: x), ("rentryextschk", lambda x: x), ("rentryextsD", SEQ)):
        for v in lists_ok:
            add("%s %s" % (op, hexs(wrap(v))), op + (":empty" if not v else ":valid"))
        for v in lists_bad:
            add("%s %s" % (op, hexs(wrap(v))), op + ":malformed")
        for _ in range(6 * K):
            v = b"".join(r.choice([e_rs, e_id, e_ci, e_ci_empty, ee_trailing[1], ee_wrongcrit[r.below(4)], ext(A_RS, FALSE, reasons_ok[r.below(11)]), ext(A_ID, None, g_ok2)]) for _ in range(r.range(1, 4)))
            add("%s %s" % (op, hexs(wrap(v))), op + ":random-list")
        for v in (e_rs + e_id + e_ci, e_ci + e_rs):
            for kind, m in structured_mutations(r, wrap(v), 8 * K):
                add("%s %s" % (op, hexs(m)), op + ":" + kind)
    for v in (b"", NULL, b"\x31\x00", SEQ(e_rs) + b"\x01", b"\x30\x81", b"\x30\x03" + e_rs[:2], SEQ(e_rs)[:-1], tlv(0x30, e_rs)[:5]):    # Q2: absent leaves the out-parameters untouched
        add("rentryextsD %s" % hexs(v), "rentryextsD:absent-or-header")

    # ---------------------------------------------------------------- RevokedCertificate
    t_ok = [UTC(b"230101000000Z"), UTC(b"491231235959Z"), GEN(b"20250101000000Z"), GEN(b"99991231235959Z")]
    t_bad = [UTC(b"690101000000Z"), UTC(b"230101000000"), GEN(b"20250101000000"), tlv(22, b"230101000000Z"), UTC(b""), ENUM(1)]
    sn = [der_uint(5), der_uint(0), der_uint(0x80), der_uint(int.from_bytes(r.bytes(20), "big") | 1 << 159)]
    def rev(s=sn[0], t=t_ok[0], x=b"", extra=b""):
        return SEQ(s, t, x, extra)
    rev_valid = [rev(s, t, x) for s in sn[:2] for t in (t_ok[0], t_ok[2]) for x in (b"", SEQ(), SEQ(e_rs), SEQ(e_rs + e_id + e_ci))] + [rev(sn[2], t_ok[1], SEQ(e_ci_empty)), rev(sn[3], t_ok[3], SEQ(ee_trailing[0]))]
    # parse for the plain decoder (the extensions are not looked at), refused by the _ex one
    rev_exbad = [rev(x=SEQ(v)) for v in (e_rs + e_rs, ee_wrongcrit[0], ee_wrongcrit[2], ext(UNKNOWN, None, b"x"), NULL, ee_badval[1], b"\x00")]
    rev_bad = [rev(s=b""), rev(s=b"\x02\x00"), rev(s=b"\x02\x01\x80"), rev(s=b"\x02\x02\x00\x01"), rev(s=ENUM(1)), rev(t=b""), rev(t=t_ok[0] + t_ok[0])] + [rev(t=t) for t in t_bad] + \
              [rev(x=SET()), rev(x=SEQ(), extra=NULL), rev(x=SEQ() + SEQ()), rev(x=CTX(0, e_rs)), rev(x=b"\x30\x05ab"), SEQ(t_ok[0], sn[0]), SEQ(sn[0]), SEQ(sn[0], sn[0], t_ok[0]), SET(sn[0], t_ok[0])] + generic_bad
    fam("rrevokedD", rev_valid + rev_exbad, rev_bad, 8, npool=3 * K)
    fam("rrevokedexD", rev_valid + rev_exbad, rev_bad, 8, npool=3 * K)     # Q5: every entry without crlEntryExtensions is refused here
    def serial_of(k):
        return bytes([k]) if k < 0x80 else (k.to_bytes(2, "big") if k < 0x8000 else k.to_bytes(3, "big"))
    for _ in range(12 * K):
        ks = [r.choice([1, 2, 3, 0x7f, 0x80, 0x1234, 0x8000]) for _ in range(r.range(0, 5))]
        body = b"".join(rev(der_uint(k), r.choice(t_ok), r.choice([b"", SEQ(), SEQ(e_rs), SEQ(e_rs + e_rs)])) for k in ks)
        want = r.choice(ks + [9, 0])
        cell = "present" if want in ks else "absent"
        add("rfindserial %s %s" % (hexs(serial_of(want)), hexs(body)), "rfindserial:" + cell)
        add("rfindserial %s %s" % (hexs(b"\x00" + serial_of(want)), hexs(body)), "rfindserial:caller-leading-zero")
        add("rfindserial - %s" % hexs(body), "rfindserial:empty-serial")
        bad = r.choice(rev_bad[:24])
        add("rfindserial %s %s" % (hexs(serial_of(want)), hexs(body + bad)), "rfindserial:malformed-after:" + cell)
        add("rfindserial %s %s" % (hexs(serial_of(want)), hexs(bad + body)), "rfindserial:malformed-before")
        for kind, m in structured_mutations(r, body, 4 * K)[:10 * K]:
            add("rfindserial %s %s" % (hexs(serial_of(want)), hexs(m)), "rfindserial:" + kind)

    # ---------------------------------------------------------------- crlExtensions: ids, Extension, critical check
    crl_oids = [a for _, a in T["tab_crl_exts"]] + [A_RS, A_CI, UNKNOWN, [2, 5, 29], [1, 2] + [7] * 30]
    idbad = [oid([1, 2] + [7] * 31), b"\x06\x00", b"\x06\x01\x80", b"\x06\x03\x55\x1d", NULL, b""]
    fam("rcrlextidexD", [oid(a) for a in crl_oids], idbad, 4)
    fam("rcrlextidD", [oid(a) for a in crl_oids], idbad, 4)
    for o in [v for v, _ in T["tab_crl_exts"]] + [O_RS, 0, -1, 12345]:
        for c in (-1, 0, 1, 2):
            add("rcrlextcrit %d %d" % (o, c), "rcrlextcrit")
    cx_valid = [ext(a, c, v) for a in crl_oids[:7] + [UNKNOWN] for (c, v) in ((None, SEQ()), (TRUE, der_uint(7)), (FALSE, b""))]
    cx_bad = [ext(crl_oids[0], b"\x01\x01\x01"), ext(crl_oids[0], TRUE, None), ext(crl_oids[0], None, None), ext(crl_oids[0], TRUE, b"\x00", NULL), SEQ(TRUE, OCT(b"x")), SEQ(oid(crl_oids[0]), OCT(b"x"), TRUE),
              SEQ(oid([1, 2] + [7] * 31), OCT(b"x")), SET(oid(crl_oids[0]), OCT(b"x"))] + generic_bad
    fam("rcrlextD", cx_valid, cx_bad, 6, npool=3 * K)
    x = lambda o, c=None, v=SEQ(): ext(ce[o], c, v)
    chk_lists = [b"", x(O_AKI), x(O_AKI, FALSE), x(O_AKI, TRUE), x(O_IAN), x(O_IAN, TRUE), x(O_NUM, None, der_uint(1)), x(O_NUM, TRUE, der_uint(1)), x(O_DELTA, TRUE, der_uint(1)), x(O_DELTA, None, der_uint(1)), x(O_DELTA, FALSE),
                 x(O_IDP, TRUE), x(O_IDP), x(O_IDP, FALSE), x(O_FRESH), x(O_FRESH, TRUE), x(O_AIA), x(O_AIA, TRUE), ext(UNKNOWN), ext(UNKNOWN, TRUE), ext(UNKNOWN, FALSE), ext(A_RS, None), ext(A_CI, TRUE),
                 x(O_AKI) + x(O_NUM, None, der_uint(2)) + x(O_FRESH), x(O_AKI) + x(O_AKI), x(O_NUM) + x(O_IDP, TRUE), x(O_NUM) + x(O_IAN, TRUE), x(O_AKI) + NULL, x(O_AKI) + b"\x30", NULL, x(O_AKI) + cx_bad[0], x(O_AKI) + cx_bad[2], SEQ(), x(O_AKI) + SEQ()]
    for v in chk_lists:                                                   # Q7, Q8: both sides of every criticality rule
        add("rcrlextschk %s" % hexs(v), "rcrlextschk:list")
    for _ in range(8 * K):
        v = b"".join(ext(r.choice(crl_oids), r.choice([None, None, FALSE, TRUE]), r.bytes(r.range(0, 4))) for _ in range(r.range(1, 4)))
        add("rcrlextschk %s" % hexs(v), "rcrlextschk:random-list")
    for kind, m in structured_mutations(r, x(O_AKI) + x(O_NUM, FALSE, der_uint(2)) + x(O_FRESH), 12 * K):
        add("rcrlextschk %s" % hexs(m), "rcrlextschk:" + kind)

    # ---------------------------------------------------------------- IssuingDistributionPoint
    uri = tlv(0x86, b"http://crl.example/ca.crl")
    dpn_full, dpn_rel = CTX(0, tlv(0x82, b"dns") + uri), CTX(1, SET(SEQ(oid([2, 5, 4, 3]), tlv(12, b"x"))))
    bits = IMP(3, b"\x01\xfe")
    idp_valid, idp_nodp = [], []
    for dp in (b"", CTX(0, dpn_full), CTX(0, dpn_rel), CTX(0, CTX(0, b""))):
        for m in range(32):
            if dp and m not in (0, 1, 2, 4, 8, 16, 31, 21, 10):
                continue
            flags = (IMP(1, b"\xff") if m & 1 else b"") + (IMP(2, b"\x00") if m & 2 else b"") + (bits if m & 4 else b"") + (IMP(4, b"\xff") if m & 8 else b"") + (IMP(5, b"\x00") if m & 16 else b"")
            (idp_valid if dp else idp_nodp).append(SEQ(dp, flags))
    # Q6: without distributionPoint (idp_nodp) everything is refused
    idp_bad = [SEQ(CTX(0, b"")), SEQ(CTX(0, dpn_full + NULL)), SEQ(CTX(0, dpn_full + dpn_rel)), SEQ(CTX(0, CTX(2, b"x"))), SEQ(CTX(0, tlv(0x80, b"x"))), SEQ(CTX(0, NULL)), SEQ(CTX(0, b"\xa0")), SEQ(CTX(0, b"\xa0\x05ab")),
               SEQ(IMP(1, b"\xff"), CTX(0, dpn_full)), SEQ(CTX(0, dpn_full), IMP(2, b"\xff"), IMP(1, b"\xff")), SEQ(CTX(0, dpn_full), IMP(1, b"\x01")), SEQ(CTX(0, dpn_full), IMP(1, b"")), SEQ(CTX(0, dpn_full), IMP(1, b"\xff\xff")),
               SEQ(CTX(0, dpn_full), IMP(3, b"")), SEQ(CTX(0, dpn_full), IMP(3, b"\x08\x00")), SEQ(CTX(0, dpn_full), IMP(3, b"\x00" + b"\xff" * 4)), SEQ(CTX(0, dpn_full), IMP(3, b"\x01" + b"\xff" * 4)), SEQ(CTX(0, dpn_full), IMP(3, b"\x00")),
               SEQ(CTX(0, dpn_full), tlv(3, b"\x01\xfe")), SEQ(CTX(0, dpn_full), TRUE), SEQ(CTX(0, dpn_full), IMP(6, b"\xff")), SEQ(CTX(0, dpn_full), IMP(5, b"\xff"), NULL), SEQ(CTX(0, dpn_full), IMP(1, b"\xff"), IMP(1, b"\xff")),
               SEQ(CTX(1, dpn_full)), SEQ(dpn_full), SET(CTX(0, dpn_full))] + generic_bad
    fam("ridpD", idp_valid + idp_nodp[:8], idp_bad + idp_nodp[8:], 8, npool=4 * K)

    # ---------------------------------------------------------------- TBSCertList
    sa = dict(T["tab_sign_algors"])
    sigalg = SEQ(oid(sa[E["OID_sm2sign_with_sm3"]]))
    sigalg2 = SEQ(oid(T["tab_sign_algors"][9][1]), NULL)
    atv = lambda a, v: SET(SEQ(oid(a), tlv(12, v)))
    name = SEQ(atv([2, 5, 4, 6], b"CN"), atv([2, 5, 4, 3], b"Test CA"))
    V1, V2, V3 = der_uint(0), der_uint(1), der_uint(2)
    revs = SEQ(rev_valid[0], rev_valid[3], rev(der_uint(0x1234), t_ok[2], SEQ(e_rs + e_id)))
    some_exts = SEQ(x(O_AKI, None, SEQ(IMP(0, b"kid"))), x(O_NUM, None, der_uint(9)))
    crit_exts = SEQ(x(O_NUM, None, der_uint(9)), x(O_IDP, TRUE, SEQ(CTX(0, dpn_full))))
    def tbs(ver=V2, alg=sigalg, issuer=name, tu=t_ok[0], nu=t_ok[2], rc=revs, exts=CTX(0, some_exts), extra=b""):
        return SEQ(ver, alg, issuer, tu, nu, rc, exts, extra)
    tbs_valid = [tbs(), tbs(nu=b""), tbs(rc=b""), tbs(exts=b""), tbs(nu=b"", rc=b"", exts=b""), tbs(rc=SEQ()), tbs(exts=CTX(0, SEQ())), tbs(issuer=SEQ()), tbs(issuer=SEQ(NULL)), tbs(alg=sigalg2), tbs(exts=CTX(0, crit_exts)),
                 tbs(ver=b"", rc=b"", exts=b""), tbs(ver=b"", nu=b"", rc=b"", exts=b""), tbs(tu=t_ok[2], nu=t_ok[0]), tbs(tu=t_ok[0], nu=t_ok[0]), tbs(tu=t_ok[3], nu=b""), tbs(rc=SEQ(NULL)), tbs(exts=CTX(0, SEQ(NULL)))]
    # Q9: the version rules; each optional member against v1
    tbs_bad = [tbs(ver=V1), tbs(ver=V3), tbs(ver=V1, rc=b"", exts=b""), tbs(ver=V3, rc=b"", exts=b""), tbs(ver=der_uint(255), rc=b"", exts=b""), tbs(ver=b"\x02\x01\xff"), tbs(ver=b"\x02\x00"), tbs(ver=der_uint(2**31)), tbs(ver=CTX(0, V2)),
               tbs(ver=b"", exts=b""), tbs(ver=b"", rc=b""), tbs(ver=b"", rc=SEQ(), exts=b""), tbs(ver=b"", rc=b"", exts=CTX(0, SEQ())), tbs(ver=b""),
               tbs(alg=b""), tbs(alg=SEQ(oid(UNKNOWN))), tbs(alg=SEQ()), tbs(alg=SEQ(oid(sa[E["OID_sm2sign_with_sm3"]]), NULL, NULL)), tbs(issuer=b""), tbs(issuer=SET()), tbs(tu=b""), tbs(tu=b"", nu=b""), tbs(tu=t_bad[0]), tbs(tu=t_bad[1]),
               tbs(nu=t_bad[0]), tbs(nu=t_bad[2]), tbs(nu=t_ok[2] + t_ok[2]), tbs(rc=SET()), tbs(rc=revs + revs), tbs(rc=b"\x30\x05ab"), tbs(exts=CTX(0, b"")), tbs(exts=CTX(0, some_exts + NULL)), tbs(exts=CTX(0, NULL)), tbs(exts=CTX(0, SET())),
               tbs(exts=CTX(3, some_exts)), tbs(exts=CTX(1, some_exts)), tbs(exts=some_exts), tbs(extra=NULL), tbs(exts=CTX(0, some_exts) + CTX(0, some_exts)), SEQ(V2, name, sigalg, t_ok[0]), SEQ(sigalg, V2, name, t_ok[0]), SEQ(V2, sigalg, t_ok[0], name),
               SET(V2, sigalg, name, t_ok[0])] + generic_bad
    fam("rtbscrlD", tbs_valid, tbs_bad, 10, npool=3 * K)

    # ---------------------------------------------------------------- CertificateList and what is built on it
    sig = tlv(3, b"\x00" + SEQ(der_uint(int.from_bytes(r.bytes(32), "big")), der_uint(int.from_bytes(r.bytes(32), "big"))))
    signed = lambda t, a=sigalg, s=sig, extra=b"": SEQ(t, a, s, extra)
    crls = [signed(t) for t in tbs_valid] + [signed(tbs_valid[0], sigalg2), signed(tbs_valid[9], sigalg2), signed(tbs_valid[1], sigalg, tlv(3, b"\x00"))]
    crls_bad = [signed(t) for t in tbs_bad[:42]] + [signed(NULL), signed(b""), signed(tbs_valid[0], extra=NULL), signed(tbs_valid[0], SEQ(oid(UNKNOWN))), signed(tbs_valid[0], b""), signed(tbs_valid[0], s=b""), signed(tbs_valid[0], s=tlv(3, b"\x01\xaa")),
                                                    signed(tbs_valid[0], s=tlv(4, b"s")), signed(tbs_valid[0] + NULL), SEQ(tbs_valid[0][:-1] , sigalg, sig), SEQ(tlv(0x30, tbs_valid[0][2:] + NULL), sigalg, sig), SET(tbs_valid[0], sigalg, sig)] + generic_bad
    fam("rcrlexD", crls[:8] + crls[-3:], crls_bad[:12] + crls_bad[42:], 8, npool=2 * K)
    fam("rcrldet", crls, crls_bad + [crls[0] + NULL, crls[0] + b"\x00"], 10, npool=3 * K)
    fam("rcrlD", crls[:6], crls_bad[:6] + crls_bad[42:], 8, npool=2 * K)
    fam("rcrlissuer", crls[:4] + crls[7:9], crls_bad[:4] + crls_bad[42:50], 6, npool=2 * K)
    fam("rcrlrevoked", crls[:6] + crls[11:13], crls_bad[:4] + crls_bad[42:50], 6, npool=2 * K)
    T0, T2 = 1672531200, 1735689600            # t_ok[0], t_ok[2]
    nows = [T0 - 1, T0, T0 + 1, T2 - 1, T2, T2 + 1, 0, -1, -5, 2**31 - 1, 2**31, 253402300799, 253402300800]
    chk = crls + [signed(tbs(exts=CTX(0, SEQ(e)))) for e in chk_lists[1:24]] + [signed(tbs(alg=sigalg2)), signed(tbs(), sigalg2), signed(tbs(exts=CTX(0, SEQ(x(O_AKI) + NULL))))]
    for c in chk:                                                         # Q9, Q10, Q7 through x509_crl_check
        for now in [nows[1], nows[3], nows[4], r.choice(nows[:1] + nows[2:3] + nows[5:])]:
            add("rcrlchk %d %s" % (now, hexs(c)), "rcrlchk:valid-structure")
    for c in crls_bad[:10] + crls_bad[42:48] + [crls[0] + NULL]:
        add("rcrlchk %d %s" % (T0 + 5, hexs(c)), "rcrlchk:malformed")
    for kind, m in structured_mutations(r, crls[0], 16 * K):
        add("rcrlchk %d %s" % (T0 + 5, hexs(m)), "rcrlchk:" + kind)
    for c in crls[:6] + crls[11:13] + crls_bad[:3] + [signed(tbs(rc=SEQ(rev_valid[0], rev_bad[0]))), signed(tbs(rc=SEQ(rev_bad[0], rev_valid[0]))), signed(tbs(rc=SEQ(NULL)))]:
        for s in (b"\x05", b"\x12\x34", b"\x00\x05", b"\x09", b""):
            add("rcrlfind %s %s" % (hexs(s), hexs(c)), "rcrlfind")
    for kind, m in structured_mutations(r, crls[0], 12 * K):
        add("rcrlfind 1234 %s" % hexs(m), "rcrlfind:" + kind)

    # ---------------------------------------------------------------- certification request
    d = r.bytes(32)
    xy = sm2_pub_bytes(d)
    sm2alg = SEQ(oid(dict(T["tab_public_key_algors"])[E["OID_ec_public_key"]]), oid(dict(T["tab_named_curves"])[E["OID_sm2"]]))
    spki = SEQ(sm2alg, tlv(3, b"\x00\x04" + xy))
    spki_bad = SEQ(sm2alg, tlv(3, b"\x00\x04" + xy[:63] + bytes([xy[63] ^ 1])))
    attr = SEQ(oid([1, 2, 840, 113549, 1, 9, 14]), SET(SEQ()))
    def info(ver=V1, subject=name, key=spki, attrs=CTX(0, attr), extra=b""):
        return SEQ(ver, subject, key, attrs, extra)
    info_valid = [info(), info(attrs=b""), info(attrs=CTX(0, b"")), info(subject=SEQ()), info(subject=SEQ(NULL), attrs=CTX(0, NULL)), info(attrs=CTX(0, attr + attr))]
    info_bad = [info(ver=V2), info(ver=V3), info(ver=b""), info(ver=b"\x02\x01\xff"), info(ver=b"\x02\x00"), info(ver=der_uint(2**31)), info(ver=CTX(0, V1)), info(subject=b""), info(subject=SET()), info(key=b""), info(key=spki_bad),
                info(key=SEQ(sm2alg)), info(key=SEQ(SEQ(oid(UNKNOWN)), tlv(3, b"\x00\x04" + xy))), info(attrs=SET(attr)), info(attrs=CTX(1, attr)), info(attrs=IMP(0, b"x")), info(attrs=CTX(0, attr) + CTX(0, attr)), info(extra=NULL),
                info(attrs=b"\xa0\x05ab"), SEQ(name, V1, spki), SEQ(V1, spki, name), SET(V1, name, spki)] + generic_bad
    fam("qreqinfoD", info_valid, info_bad, 10, hint=pt_hints, npool=3 * K)
    reqs = [signed(i) for i in info_valid] + [signed(info_valid[0], sigalg2), signed(info_valid[1], sigalg, tlv(3, b"\x00"))]
    reqs_bad = [signed(i) for i in info_bad[:19]] + [signed(NULL), signed(b""), signed(info_valid[0], extra=NULL), signed(info_valid[0], SEQ(oid(UNKNOWN))), signed(info_valid[0], b""), signed(info_valid[0], s=b""),
                                                    signed(info_valid[0], s=tlv(3, b"\x01\xaa")), signed(info_valid[0], s=tlv(4, b"s")), signed(info_valid[0] + NULL), SET(info_valid[0], sigalg, sig)] + generic_bad
    fam("qreqdet", reqs, reqs_bad + [reqs[0] + NULL], 10, hint=pt_hints, npool=3 * K)
    fam("qreqD", reqs[:4], reqs_bad[:8] + reqs_bad[19:], 8, hint=pt_hints, npool=2 * K)
    return cases
