"""Source-derived OID tables for the codec models (DESIGN 1.4): parses the `static uint32_t oid_*[]`
arrays, the `#define oid_* a,b,c` prefixes, the `ASN1_OID_INFO` tables of /repo/src/*.c and the
OID_* enum of include/gmssl/oid.h, and writes coq/Codec/OidTables.v (only when its text changes).
The model tables therefore carry the library's own enum values and arc lists; a table edited in the
C source changes the Coq file, and the theorems/differential then run against the new table."""
import os, re
from vlib import core

TABLES = [  # (C file, C table name, Coq name)
    ("src/x509_alg.c", "x509_digest_algors", "tab_digest_algors"),
    ("src/x509_alg.c", "x509_sign_algors", "tab_sign_algors"),
    ("src/x509_ext.c", "x509_ext_ids", "tab_ext_ids"),
    ("src/x509_ext.c", "x509_key_purposes", "tab_key_purposes"),
    ("src/cms.c", "cms_content_types", "tab_cms_content_types"),
    ("src/x509_alg.c", "x509_pke_algors", "tab_pke_algors"),
    ("src/x509_alg.c", "x509_enc_algors", "tab_x509_enc_algors"),
    ("src/x509_alg.c", "x509_public_key_algors", "tab_public_key_algors"),
    ("src/ec.c", "ec_named_curves", "tab_named_curves"),
    ("src/x509_cer.c", "x509_name_types", "tab_name_types"),
    ("src/x509_ext.c", "x509_qt_ids", "tab_qt_ids"),
    ("src/x509_ext.c", "access_methods", "tab_access_methods"),
    ("src/x509_crl.c", "x509_crl_entry_exts", "tab_crl_entry_exts"),
    ("src/x509_crl.c", "x509_crl_exts", "tab_crl_exts"),
]
ARRAYS = [("src/x509_ext.c", "oid_any_policy", "arcs_any_policy")]


DEFINED = set()          # -D options of the framework's build of the library that matter to a table (none)


def _strip(s):
    s = re.sub(r"/\*.*?\*/", "", s, flags=re.S)
    s = re.sub(r"//[^\n]*", "", s)
    out, stack = [], []              # #ifdef / #ifndef / #else / #endif on plain names; other #if kept whole
    for line in s.split("\n"):
        m = re.match(r"\s*#\s*(ifdef|ifndef|if|else|endif)\b\s*(\w*)", line)
        if m:
            k, nm = m.group(1), m.group(2)
            if k == "ifdef": stack.append(nm in DEFINED)
            elif k == "ifndef": stack.append(nm not in DEFINED)
            elif k == "if": stack.append(None)
            elif k == "else" and stack: stack[-1] = None if stack[-1] is None else not stack[-1]
            elif k == "endif" and stack: stack.pop()
            continue
        if all(x is not False for x in stack):
            out.append(line)
    return "\n".join(out)


def enum_values(repo):
    s = _strip(open(os.path.join(repo, "include/gmssl/oid.h")).read())
    body = re.search(r"enum\s*\{(.*?)\}\s*;", s, re.S).group(1)
    vals, cur = {}, -1
    for item in body.split(","):
        item = item.strip()
        if not item:
            continue
        m = re.match(r"(\w+)\s*=\s*(-?\d+)$", item)
        if m:
            cur = int(m.group(2)); vals[m.group(1)] = cur
        else:
            cur += 1; vals[item] = cur
    return vals


def parse_file(repo, cfile, macros):
    s = _strip(open(os.path.join(repo, cfile)).read())
    for m in re.finditer(r"^\s*#\s*define\s+(\w+)\s+(.+)$", s, re.M):
        macros.setdefault(m.group(1), m.group(2).strip())
    def expand(txt, depth=0):
        out = []
        for tok in [t.strip() for t in txt.split(",") if t.strip()]:
            if re.fullmatch(r"\d+", tok):
                out.append(int(tok))
            elif tok in macros and depth < 8:
                out += expand(macros[tok], depth + 1)
            else:
                raise ValueError("cannot expand %r in %s" % (tok, cfile))
        return out
    arrays = {}
    for m in re.finditer(r"static\s+(?:const\s+)?uint32_t\s+(\w+)\s*\[\s*\]\s*=\s*\{([^}]*)\}", s):
        arrays[m.group(1)] = expand(m.group(2))
    return s, arrays


def table(repo, cfile, name, enum, macros):
    s, arrays = parse_file(repo, cfile, macros)
    m = re.search(r"ASN1_OID_INFO\s+%s\s*\[\s*\]\s*=\s*\{(.*?)\}\s*;" % re.escape(name), s, re.S)
    if not m:
        raise ValueError("table %s not found in %s" % (name, cfile))
    rows = []
    for e in re.finditer(r"\{\s*(\w+)\s*,\s*\"([^\"]*)\"\s*,\s*(\w+)\s*,\s*([^,}]+)", m.group(1)):
        oid, _nm, arr, cnt = e.group(1), e.group(2), e.group(3), e.group(4).strip()
        cm = re.search(r"sizeof\s*\(\s*(\w+)\s*\)", macros.get(cnt, cnt)) or re.fullmatch(r"oid_cnt\s*\(\s*(\w+)\s*\)", cnt)
        n = len(arrays[cm.group(1)]) if cm else int(cnt)
        fm = re.match(r"\s*,\s*(\w+)", m.group(1)[e.end():])
        fl = fm.group(1) if fm else "0"
        fl = macros.get(fl, fl)
        rows.append((enum[oid], arrays[arr][:n], oid, int(fl)))
    return rows


def name_limits(repo, enum):
    """x509_name_types_info of src/x509_cer.c: (oid, printable-string-only, minlen, maxlen)"""
    s = _strip(open(os.path.join(repo, "src/x509_cer.c")).read())
    hdr = _strip(open(os.path.join(repo, "include/gmssl/x509_cer.h")).read())
    ub = {m.group(1): int(m.group(2)) for m in re.finditer(r"#\s*define\s+(X509_ub_\w+)\s+(\d+)", hdr)}
    m = re.search(r"x509_name_types_info\s*\[\s*\]\s*=\s*\{(.*?)\}\s*;", s, re.S)
    rows = []
    for e in re.finditer(r"\{\s*(\w+)\s*,\s*(\d+)\s*,\s*(\w+)\s*,\s*(\w+)\s*\}", m.group(1)):
        val = lambda t: int(t) if t.isdigit() else ub[t]
        rows.append("(%d%%Z, %s, %d, %d) (* %s *)" % (enum[e.group(1)], "true" if int(e.group(2)) else "false", val(e.group(3)), val(e.group(4)), e.group(1)))
    return "(* src/x509_cer.c: x509_name_types_info *)\nDefinition tab_name_limits : list (Z * bool * N * N) :=\n  [%s]." % ";\n   ".join(rows)


def render(repo=None):
    repo = repo or core.REPO
    enum = enum_values(repo)
    macros = {}
    parse_file(repo, "include/gmssl/oid.h", macros)
    out = ["(* GENERATED by vlib/oid_tables.py from the sources of the library under check - do not edit.",
           "   (enum value of the OID_* constant, arcs) for every row of the library's ASN1_OID_INFO tables. *)",
           "From GmVerif Require Import Base.Bytes.", "Local Open Scope N_scope.", ""]
    for cfile, name, coq in TABLES:
        rows = table(repo, cfile, name, enum, dict(macros))
        out.append("(* %s: %s *)" % (cfile, name))
        out.append("Definition %s : list (Z * list N) :=\n  [%s]." % (coq, ";\n   ".join(
            "(%d%%Z, [%s]) (* %s *)" % (v, "; ".join(str(a) for a in arcs), nm) for v, arcs, nm, _f in rows)))
        if any(f for _v, _a, _n, f in rows):
            out.append("Definition %s_flagged : list Z := [%s]. (* rows with flags <> 0 *)" % (coq, "; ".join("%d%%Z" % v for v, _a, _n, f in rows if f)))
        out.append("")
    for cfile, name, coq in ARRAYS:
        _s, arrays = parse_file(repo, cfile, dict(macros))
        out.append("Definition %s : list N := [%s]. (* %s: %s *)" % (coq, "; ".join(str(a) for a in arrays[name]), cfile, name))
    out.append("")
    out.append(name_limits(repo, enum))
    out.append("")
    consts = ["OID_undef", "OID_sm3", "OID_sm4_cbc", "OID_sm2encrypt", "OID_cms_data", "OID_cms_signed_data", "OID_cms_enveloped_data",
              "OID_ce_basic_constraints", "OID_ce_authority_key_identifier", "OID_ce_key_usage", "OID_ce_ext_key_usage", "OID_sm2sign_with_sm3",
              "OID_any_policy", "OID_ad_ocsp", "OID_ad_ca_issuers", "OID_ec_public_key", "OID_rsa_encryption", "OID_sm2", "OID_hmac_sm3"]
    for c in consts:
        out.append("Definition %s : Z := %d%%Z." % (c, enum[c]))
    return "\n".join(out) + "\n"


def write_if_changed(repo=None):
    path = os.path.join(core.COQ, "Codec", "OidTables.v")
    txt = render(repo)
    old = open(path).read() if os.path.exists(path) else None
    if old != txt:
        with open(path, "w") as f:
            f.write(txt)
        return True
    return False
