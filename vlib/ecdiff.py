"""Differential run for the public-key properties (C01, C02): the implementation side is a C
harness fed with op lines (core.run_lines), the model side is a list of Gallina expressions
evaluated by vm_compute inside coqc (core.coq_eval, Bignums.BigZ instance of the models).

A case is a dict:
  line   : op line for the harness
  expr   : Gallina term of type string printing the model's result line (None = no model run;
           then only `expect` is checked)
  cell   : cell key  op:variant:boundary-class   (also the violation key)
  spec   : optional Gallina term printing the *Spec* result, for ops whose Impl model is NOT
           proved equal to the Spec (a faithful model reproduces the defects of the code; the
           property is judged against the Spec)
  expect : optional literal result the property requires (e.g. "OK" for verifying a signature
           that a signing interface returned, "ERR" for a point that must be refused)
Verdict per case, in this order:
  impl FAULT (sanitizer / crash)          -> violation  (memory fault on this input)
  model evaluation failed                 -> violation  (model:...)
  impl != model                           -> violation  (implementation differs from the model)
  spec given and impl != spec             -> violation  (implementation deviates from the Spec)
  expect given and impl != expect         -> violation  (property-level expectation)
  otherwise the cell counts as agreed."""
import time
from vlib import core

IMPORTS = ("From GmVerif Require Import Ec.Sm2Eval.\n"
           "Require Import String List ZArith. Import ListNotations. Open Scope string_scope.\n")


def q(s):
    return '"%s"' % s


def glist(items):
    return "[" + "; ".join(items) + "]"


def run(ctx, prop, cases, impl_exe, variant="asan", shards=None, model_shards=None, tag="cases"):
    lines = [c["line"] for c in cases]
    t0 = time.time()
    impl, impl_err = core.run_lines(impl_exe, lines, shards=shards)
    t1 = time.time()
    exprs, owner = [], []
    for i, c in enumerate(cases):
        if c.get("expr"):
            exprs.append(c["expr"]); owner.append((i, "model"))
        if c.get("spec"):
            exprs.append(c["spec"]); owner.append((i, "spec"))
    vals = core.coq_eval(prop, IMPORTS, exprs, shards=model_shards, tag=tag)
    t2 = time.time()
    model = [None] * len(cases)
    spec = [None] * len(cases)
    for (i, kind), v in zip(owner, vals):
        if kind == "model": model[i] = v
        else: spec[i] = v
    ctx.notes.append("%s/%s: impl %.1fs, model %.1fs, %d cases (%d model evaluations)" % (tag, variant, t1 - t0, t2 - t1, len(cases), len(exprs)))
    for i, c in enumerate(cases):
        ctx.cov["evaluations"] += 1
        a, b, sp, ex = impl[i], model[i], spec[i], c.get("expect")
        line, cell = c["line"], c["cell"]
        ctx.count("op:" + line.split(" ", 1)[0])
        verdict = None
        if a.startswith("FAULT"):
            verdict = "memory fault in the implementation (model predicts %s)" % (b if b is not None else "-")
        elif b is not None and b.startswith("MODEL-"):
            ctx.violation("model:" + cell, "model-side failure on `%s`: %s" % (line[:200], b[:300]),
                          {"kind": "model", "op": line, "expr": (c.get("expr") or "")[:2000], "model": b}, found_input=False)
            continue
        elif b is not None and a != b:
            verdict = "implementation differs from the Impl model"
        elif sp is not None and sp.startswith("MODEL-"):
            ctx.violation("model:" + cell, "spec-side failure on `%s`: %s" % (line[:200], sp[:300]),
                          {"kind": "model", "op": line, "model": sp}, found_input=False)
            continue
        elif sp is not None and a != sp:
            verdict = "implementation (and its faithful model) deviate from the Spec"
        elif ex is not None and a != ex:
            verdict = "property requires %s" % ex
        if verdict is None:
            ctx.cell(cell + ":" + ("ERR" if a.startswith("ERR") else "ok"))
            if i % max(1, len(cases) // 5) == 0:
                ctx.sample({"op": line[:300], "result": a[:130]})
        else:
            ctx.violation(cell, "%s [%s]: op `%s` impl=%s model=%s%s%s" % (
                verdict, variant, line[:200], a[:140], (b or "-")[:140],
                (" spec=" + sp[:80]) if sp is not None else "", ((" expected=" + ex) if ex else "") + ((" [produced by: " + c["origin"][:300] + "]") if c.get("origin") else "")),
                {"kind": "failing-input", "op": line, "impl": a, "model": b, "spec": sp, "expected": ex,
                 "expr": (c.get("expr") or "")[:4000], "variant": variant, "origin": c.get("origin")}, found_input=True)
    return impl, model


def replay(prop, path, variants=("asan",)):
    import json
    r = json.load(open(path))
    rp = r.get("replay", {})
    op = rp.get("op")
    if not op:
        print("replay names a proof obligation / relation, not an input:", json.dumps(rp)[:1000])
        return 0
    for v in variants:
        exe, log = core.build_harness(prop, v)
        if exe is None:
            print(log[-2000:]); return 1
        a, err = core.run_lines(exe, [op], shards=1, env={"VERIF_STDERR": "1"})
        print("op:    ", op[:600]); print("impl:  ", a[0])
        if rp.get("expr"):
            b = core.coq_eval(prop, IMPORTS, [rp["expr"]], shards=1, tag="replay")
            print("model: ", b[0])
            print("AGREE" if a[0] == b[0] else "DIFFER")
        if rp.get("spec"): print("spec:  ", rp["spec"])
        if rp.get("expected"): print("property requires:", rp["expected"])
        if err.strip():
            print("stderr:", err[-1500:])
    return 0
