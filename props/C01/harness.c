/* C01 correspondence harness: SM2 signature interfaces of the current /repo tree.
 * One op per line, one canonical result line per op (see coq/Ec/Sm2Eval.v for the model side).
 * The nonce source is the scripted getentropy of harness/entropy.h: the script is exactly the
 * entropy argument of the op and the source FAILS when the script is exhausted. */
#include "common.h"
#include "entropy.h"
#include <gmssl/sm2.h>
#include <gmssl/sm2_z256.h>
#include <gmssl/sm3.h>

static int key_from_d(SM2_KEY *key, const char *dhex) {
	buf_t d = hex2buf(dhex); sm2_z256_t dd; int r;
	if (d.n != 32) { free(d.p); return -1; }
	sm2_z256_from_bytes(dd, d.p); free(d.p);
	r = sm2_key_set_private_key(key, dd);
	return r;
}
static int key_from_P(SM2_KEY *key, const char *phex) {
	buf_t p = hex2buf(phex); SM2_Z256_POINT P; int r;
	if (p.n != 64) { free(p.p); return -1; }
	r = sm2_z256_point_from_bytes(&P, p.p); free(p.p);
	if (r != 1) return -1;
	return sm2_key_set_public_key(key, &P);
}
static buf_t script;
static void install_entropy(const char *hex) {
	script = hex2buf(hex);
	ent_script(script.p, script.n, (long)(script.n / 32));
}
static void no_entropy(void) { script.p = NULL; script.n = 0; ent_script(NULL, 0, -2); }
static void drop_entropy(void) { free(script.p); script.p = NULL; }

/* id argument: "NULL" = no id; otherwise hex of the caller's buffer (exactly sized, NOT
 * NUL-terminated unless the hex contains the 00) */
static char *id_buf(const char *hex, buf_t *b) {
	if (!strcmp(hex, "NULL")) { b->p = NULL; b->n = 0; return NULL; }
	*b = hex2buf(hex); return (char *)b->p;
}

#define MAXC 64
static buf_t ch[MAXC];

static void handle(size_t nw, char **w) {
	SM2_KEY key;
	if (!strcmp(w[0], "sign") && nw == 4) {
		buf_t e = hex2buf(w[2]); SM2_SIGNATURE *sig = malloc(sizeof(*sig));
		if (key_from_d(&key, w[1]) != 1) { printf("ERR key"); free(e.p); free(sig); return; }
		install_entropy(w[3]);
		if (sm2_do_sign(&key, e.p, sig) == 1) { puthex(sig->r, 32); putchar(' '); puthex(sig->s, 32); printf(" %04lx", ent.draws); }
		else printf("ERR");
		drop_entropy(); free(e.p); free(sig);
	}
	else if (!strcmp(w[0], "signder") && nw == 4) {
		buf_t e = hex2buf(w[2]); uint8_t *sig = malloc(SM2_MAX_SIGNATURE_SIZE); size_t siglen = 0;
		if (key_from_d(&key, w[1]) != 1) { printf("ERR key"); free(e.p); free(sig); return; }
		install_entropy(w[3]);
		if (sm2_sign(&key, e.p, sig, &siglen) == 1) { puthex(sig, siglen); printf(" %04lx", ent.draws); }
		else printf("ERR");
		drop_entropy(); free(e.p); free(sig);
	}
	else if (!strcmp(w[0], "signfix") && nw == 5) {
		buf_t e = hex2buf(w[2]); size_t siglen = strtoul(w[3], NULL, 10);
		uint8_t *sig = malloc(siglen ? siglen : 1);
		if (key_from_d(&key, w[1]) != 1) { printf("ERR key"); free(e.p); free(sig); return; }
		install_entropy(w[4]);
		if (sm2_sign_fixlen(&key, e.p, siglen, sig) == 1) { puthex(sig, siglen); printf(" %04lx", ent.draws); }
		else printf("ERR");
		drop_entropy(); free(e.p); free(sig);
	}
	else if (!strcmp(w[0], "verify") && nw == 5) {
		buf_t e = hex2buf(w[2]), r = hex2buf(w[3]), s = hex2buf(w[4]); SM2_SIGNATURE *sig = malloc(sizeof(*sig));
		if (key_from_P(&key, w[1]) != 1) { printf("ERR key"); }
		else {
			memcpy(sig->r, r.p, 32); memcpy(sig->s, s.p, 32); no_entropy();
			printf(sm2_do_verify(&key, e.p, sig) == 1 ? "OK" : "ERR");
		}
		free(e.p); free(r.p); free(s.p); free(sig);
	}
	else if (!strcmp(w[0], "verifyder") && nw == 4) {
		buf_t e = hex2buf(w[2]), sg = hex2buf(w[3]);
		if (key_from_P(&key, w[1]) != 1) { printf("ERR key"); }
		else { no_entropy(); printf(sm2_verify(&key, e.p, sg.p, sg.n) == 1 ? "OK" : "ERR"); }
		free(e.p); free(sg.p);
	}
	else if (!strcmp(w[0], "z") && nw == 4) {
		buf_t id = hex2buf(w[2]); size_t idlen = strtoul(w[3], NULL, 10); uint8_t *z = malloc(32);
		if (key_from_P(&key, w[1]) != 1) { printf("ERR key"); }
		else if (sm2_compute_z(z, &key.public_key, (char *)id.p, idlen) == 1) puthex(z, 32);
		else printf("ERR");
		free(id.p); free(z);
	}
	else if (!strcmp(w[0], "fastsign") && nw == 5) {
		buf_t fd = hex2buf(w[1]), k = hex2buf(w[2]), x1 = hex2buf(w[3]), e = hex2buf(w[4]);
		sm2_z256_t fast; SM2_SIGN_PRE_COMP *pc = malloc(sizeof(*pc)); SM2_SIGNATURE *sig = malloc(sizeof(*sig));
		sm2_z256_from_bytes(fast, fd.p); sm2_z256_from_bytes(pc->k, k.p); sm2_z256_from_bytes(pc->x1_modn, x1.p);
		no_entropy();
		if (sm2_fast_sign(fast, pc, e.p, sig) == 1) { puthex(sig->r, 32); putchar(' '); puthex(sig->s, 32); }
		else printf("ERR");
		free(fd.p); free(k.p); free(x1.p); free(e.p); free(pc); free(sig);
	}
	else if (!strcmp(w[0], "sstream") && nw == 6) {
		/* sstream d id idlen rounds ent ; rounds = chunks;chunks;... */
		buf_t idb; char *id = id_buf(w[2], &idb); size_t idlen = strtoul(w[3], NULL, 10);
		SM2_SIGN_CTX *ctx = malloc(sizeof(*ctx)); char *save = NULL, *rd; int first = 1, ok = 1;
		char *out = malloc(1 << 16); size_t outn = 0;
		if (key_from_d(&key, w[1]) != 1) { printf("ERR key"); free(idb.p); free(ctx); free(out); return; }
		install_entropy(w[5]);
		if (sm2_sign_init(ctx, &key, id, idlen) != 1) ok = 0;
		for (rd = strtok_r(w[4], ";", &save); ok && rd; rd = strtok_r(NULL, ";", &save)) {
			size_t k = split_chunks(rd, ch, MAXC), i, siglen = 0, j;
			uint8_t *sig = malloc(SM2_MAX_SIGNATURE_SIZE);
			for (i = 0; i < k; i++) if (sm2_sign_update(ctx, ch[i].p, ch[i].n) != 1) ok = 0;
			if (ok && sm2_sign_finish(ctx, sig, &siglen) != 1) ok = 0;
			if (ok) {
				if (!first) out[outn++] = ',';
				for (j = 0; j < siglen; j++) outn += sprintf(out + outn, "%02x", sig[j]);
				first = 0;
				sm2_sign_reset(ctx);
			}
			free(sig); free_chunks(ch, k);
		}
		if (ok) { out[outn] = 0; printf("%s %04lx", out, ent.draws); } else printf("ERR");
		drop_entropy(); free(idb.p); free(ctx); free(out);
	}
	else if (!strcmp(w[0], "sfinfix") && nw == 7) {
		/* sfinfix d id idlen chunks siglen ent */
		buf_t idb; char *id = id_buf(w[2], &idb); size_t idlen = strtoul(w[3], NULL, 10);
		size_t siglen = strtoul(w[5], NULL, 10), k, i; int ok = 1;
		SM2_SIGN_CTX *ctx = malloc(sizeof(*ctx)); uint8_t *sig = malloc(siglen ? siglen : 1);
		if (key_from_d(&key, w[1]) != 1) { printf("ERR key"); free(idb.p); free(ctx); free(sig); return; }
		install_entropy(w[6]);
		if (sm2_sign_init(ctx, &key, id, idlen) != 1) ok = 0;
		k = split_chunks(w[4], ch, MAXC);
		for (i = 0; ok && i < k; i++) if (sm2_sign_update(ctx, ch[i].p, ch[i].n) != 1) ok = 0;
		if (ok && sm2_sign_finish_fixlen(ctx, siglen, sig) != 1) ok = 0;
		if (ok) { puthex(sig, siglen); printf(" %04lx", ent.draws); } else printf("ERR");
		drop_entropy(); free_chunks(ch, k); free(idb.p); free(ctx); free(sig);
	}
	else if (!strcmp(w[0], "vstream") && nw == 6) {
		/* vstream P id idlen chunks sig */
		buf_t idb; char *id = id_buf(w[2], &idb); size_t idlen = strtoul(w[3], NULL, 10), k, i; int ok = 1;
		buf_t sg = hex2buf(w[5]); SM2_VERIFY_CTX *ctx = malloc(sizeof(*ctx));
		if (key_from_P(&key, w[1]) != 1) { printf("ERR key"); free(idb.p); free(sg.p); free(ctx); return; }
		no_entropy();
		if (sm2_verify_init(ctx, &key, id, idlen) != 1) ok = 0;
		k = split_chunks(w[4], ch, MAXC);
		for (i = 0; ok && i < k; i++) if (sm2_verify_update(ctx, ch[i].p, ch[i].n) != 1) ok = 0;
		if (ok && sm2_verify_finish(ctx, sg.p, sg.n) != 1) ok = 0;
		printf(ok ? "OK" : "ERR");
		free_chunks(ch, k); free(idb.p); free(sg.p); free(ctx);
	}
	else if (!strcmp(w[0], "sign1") && nw == 6) {
		/* sign1 d idbuf idlen msg ent : Z, e = SM3(Z || M), sm2_sign */
		buf_t id = hex2buf(w[2]), m = hex2buf(w[4]); size_t idlen = strtoul(w[3], NULL, 10), siglen = 0;
		uint8_t *z = malloc(32), *dg = malloc(32), *sig = malloc(SM2_MAX_SIGNATURE_SIZE); SM3_CTX c;
		if (key_from_d(&key, w[1]) != 1) printf("ERR key");
		else if (sm2_compute_z(z, &key.public_key, (char *)id.p, idlen) != 1) printf("ERR");
		else {
			sm3_init(&c); sm3_update(&c, z, 32); sm3_update(&c, m.p, m.n); sm3_finish(&c, dg);
			install_entropy(w[5]);
			if (sm2_sign(&key, dg, sig, &siglen) == 1) { puthex(sig, siglen); printf(" %04lx", ent.draws); } else printf("ERR");
			drop_entropy();
		}
		free(id.p); free(m.p); free(z); free(dg); free(sig);
	}
	else if (!strcmp(w[0], "vstream1") && nw == 6) {
		/* vstream1 P idbuf idlen msg sig : Z, e = SM3(Z || M), sm2_verify */
		buf_t id = hex2buf(w[2]), m = hex2buf(w[4]), sg = hex2buf(w[5]); size_t idlen = strtoul(w[3], NULL, 10);
		uint8_t *z = malloc(32), *dg = malloc(32); SM3_CTX c;
		if (key_from_P(&key, w[1]) != 1) printf("ERR key");
		else if (sm2_compute_z(z, &key.public_key, (char *)id.p, idlen) != 1) printf("ERR");
		else {
			sm3_init(&c); sm3_update(&c, z, 32); sm3_update(&c, m.p, m.n); sm3_finish(&c, dg);
			no_entropy();
			printf(sm2_verify(&key, dg, sg.p, sg.n) == 1 ? "OK" : "ERR");
		}
		free(id.p); free(m.p); free(sg.p); free(z); free(dg);
	}
	else if (!strcmp(w[0], "signpre") && nw == 2) {
		/* sm2_fast_sign_pre_compute with scripted entropy: k,x1_modn of all 32 slots */
		SM2_SIGN_PRE_COMP *pc = malloc(sizeof(SM2_SIGN_PRE_COMP) * SM2_SIGN_PRE_COMP_COUNT); int i; uint8_t b[32];
		install_entropy(w[1]);
		if (sm2_fast_sign_pre_compute(pc) == 1) {
			for (i = 0; i < SM2_SIGN_PRE_COMP_COUNT; i++) {
				if (i) putchar(';');
				sm2_z256_to_bytes(pc[i].k, b); puthex(b, 32); putchar(','); sm2_z256_to_bytes(pc[i].x1_modn, b); puthex(b, 32);
			}
			printf(" %04lx", ent.draws);
		} else printf("ERR");
		drop_entropy(); free(pc);
	}
	else if (!strcmp(w[0], "keygen") && nw == 2) {
		uint8_t b[32], pb[64];
		install_entropy(w[1]);
		if (sm2_key_generate(&key) == 1) {
			sm2_z256_to_bytes(key.private_key, b); puthex(b, 32); putchar(' ');
			sm2_z256_point_to_bytes(&key.public_key, pb); puthex(pb, 64); printf(" %04lx", ent.draws);
		} else printf("ERR");
		drop_entropy();
	}
	else if (!strcmp(w[0], "setpriv") && nw == 2) {
		uint8_t pb[64];
		if (key_from_d(&key, w[1]) == 1) { sm2_z256_point_to_bytes(&key.public_key, pb); puthex(pb, 64); } else printf("ERR");
	}
	else if (!strcmp(w[0], "fastkey") && nw == 2) {
		/* sm2_fast_sign_compute_key on a key object whose private_key field is set directly */
		buf_t d = hex2buf(w[1]); sm2_z256_t fast; uint8_t b[32];
		memset(&key, 0, sizeof(key)); sm2_z256_from_bytes(key.private_key, d.p);
		if (sm2_fast_sign_compute_key(&key, fast) == 1) { sm2_z256_to_bytes(fast, b); puthex(b, 32); } else printf("ERR");
		free(d.p);
	}
	else if (!strcmp(w[0], "pkdigest") && nw == 2) {
		uint8_t *dg = malloc(32);
		if (key_from_P(&key, w[1]) != 1) printf("ERR key");
		else if (sm2_public_key_digest(&key, dg) == 1) puthex(dg, 32); else printf("ERR");
		free(dg);
	}
	else if (!strcmp(w[0], "pkequ") && nw == 3) {
		SM2_KEY k2;
		if (key_from_P(&key, w[1]) != 1 || key_from_P(&k2, w[2]) != 1) printf("ERR key");
		else printf("%d", sm2_public_key_equ(&key, &k2));
	}
	else if (!strcmp(w[0], "sigprint") && nw == 2) {
		buf_t a = hex2buf(w[1]); FILE *fp = fopen("/dev/null", "w");
		printf(sm2_signature_print(fp, 0, 0, "sig", a.p, a.n) == 1 ? "OK" : "ERR");
		fclose(fp); free(a.p);
	}
	else if (!strcmp(w[0], "vctxr") && nw == 5) {
		/* vctxr P id idlen rounds ; round = chunks@sig ; one SM2_VERIFY_CTX, reset between rounds */
		buf_t idb; char *id = id_buf(w[2], &idb); size_t idlen = strtoul(w[3], NULL, 10); int first = 1;
		SM2_VERIFY_CTX *ctx = malloc(sizeof(*ctx)); char *save = NULL, *rd;
		if (key_from_P(&key, w[1]) != 1) { printf("ERR key"); free(idb.p); free(ctx); return; }
		no_entropy();
		if (sm2_verify_init(ctx, &key, id, idlen) != 1) { printf("ERR"); free(idb.p); free(ctx); return; }
		for (rd = strtok_r(w[4], ";", &save); rd; rd = strtok_r(NULL, ";", &save)) {
			char *at = strchr(rd, '@'); size_t k, i; int ok = 1; buf_t sg;
			*at = 0; sg = hex2buf(at + 1);
			k = split_chunks(rd, ch, MAXC);
			for (i = 0; i < k; i++) if (sm2_verify_update(ctx, ch[i].p, ch[i].n) != 1) ok = 0;
			if (ok && sm2_verify_finish(ctx, sg.p, sg.n) != 1) ok = 0;
			if (!first) putchar(','); first = 0;
			printf(ok ? "OK" : "ERR");
			sm2_verify_reset(ctx);
			free_chunks(ch, k); free(sg.p);
		}
		free(idb.p); free(ctx);
	}
	else if (!strcmp(w[0], "sstreamf") && nw == 6) {
		/* sstreamf d id idlen ent0 rounds ; round = chunks@entropy : the round's script is installed before
		 * its finish; a failing finish prints ERR and the run goes on (reset, next message) */
		buf_t idb; char *id = id_buf(w[2], &idb); size_t idlen = strtoul(w[3], NULL, 10);
		SM2_SIGN_CTX *ctx = malloc(sizeof(*ctx)); char *save = NULL, *rd; int first = 1;
		if (key_from_d(&key, w[1]) != 1) { printf("ERR key"); free(idb.p); free(ctx); return; }
		install_entropy(w[4]);
		if (sm2_sign_init(ctx, &key, id, idlen) != 1) { printf("ERR"); drop_entropy(); free(idb.p); free(ctx); return; }
		drop_entropy();
		for (rd = strtok_r(w[5], ";", &save); rd; rd = strtok_r(NULL, ";", &save)) {
			char *at = strchr(rd, '@'); size_t k, i, siglen = 0, j; int ok = 1; uint8_t *sig = malloc(SM2_MAX_SIGNATURE_SIZE);
			*at = 0;
			k = split_chunks(rd, ch, MAXC);
			for (i = 0; i < k; i++) if (sm2_sign_update(ctx, ch[i].p, ch[i].n) != 1) ok = 0;
			install_entropy(at + 1);
			if (ok && sm2_sign_finish(ctx, sig, &siglen) != 1) ok = 0;
			drop_entropy();
			if (!first) putchar(','); first = 0;
			if (ok) for (j = 0; j < siglen; j++) printf("%02x", sig[j]); else printf("ERR");
			sm2_sign_reset(ctx);
			free(sig); free_chunks(ch, k);
		}
		free(idb.p); free(ctx);
	}
	else printf("ERR unknown-op");
}

int main(void) { quiet_stderr(); main_loop(handle); return 0; }
