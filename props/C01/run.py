"""C01 — SM2 signatures complete, sound, bound to message / ID / key.
Implementation: props/C01/harness.c on the ASan/UBSan build of /repo.
Model: coq/Ec/SM2Sign.v evaluated inside Coq (BigZ) through coq/Ec/Sm2Eval.v."""
import os
from vlib import core, ecdiff, sm2py as E
from vlib.ecdiff import q, glist

N, P_ = E.n, E.p
M256 = 2 ** 256
h = E.h64
DEF_ID = b"1234567812345678"
JOBS = int(os.environ.get("VERIF_JOBS", "16"))


def nat(x):
    return "%d%%nat" % x


def ent_hex(ks):
    return "".join(E.le32(k) for k in ks) or "-"


def gid(idbuf, idlen):
    """Gallina option for the id argument"""
    if idbuf is None:
        return "None"
    return "(Some (%s, %s))" % (q(core.hexs(idbuf)), nat(idlen))


def chunks_line(chunks):
    return ",".join(core.hexs(c) for c in chunks) if chunks else "."


def chunks_g(chunks):
    return glist([q(core.hexs(c)) for c in chunks])


class Gen:
    def __init__(self, ctx):
        self.ctx = ctx
        self.r = ctx.rng
        self.thorough = ctx.tier == "thorough"
        self.cases = []
        r = self.r
        self.keys = [("d=1", 1), ("d=2", 2), ("d=n-2", N - 2)]
        for i in range(2 if not self.thorough else 6):
            self.keys.append(("d=rand", 1 + int.from_bytes(r.bytes(32), "big") % (N - 2)))
        self.pub = {d: E.mul(d, E.G) for _, d in self.keys}

    def pubkey(self, d):
        if d not in self.pub: self.pub[d] = E.mul(d, E.G)
        return self.pub[d]

    def rnd(self, m):
        return int.from_bytes(self.r.bytes(40), "big") % m

    def add(self, **c):
        self.cases.append(c)

    # ---------------------------------------------------------------- sm2_do_sign / sm2_sign
    def sign(self, d, e, ks, cell, der=False):
        op = "signder" if der else "sign"
        en = ent_hex(ks)
        self.add(line="%s %s %s %s" % (op, h(d), h(e), en),
                 expr="c01_%s %s %s %s" % (op, q(h(d)), q(h(e)), q(en)),
                 cell=cell, kind=op, d=d, e=e)

    def gen_sign(self):
        r = self.r
        digests = [("e=0", 0), ("e=n-1", N - 1), ("e=n", N), ("e=2^256-1", M256 - 1)]
        nonces = [("k=1", 1), ("k=2", 2), ("k=n-1", N - 1), ("k=n-71", N - 71), ("k=n-69", N - 69)]
        # boundary grid (each key with each boundary nonce, digests rotating)
        i = 0
        for kn, d in self.keys:
            for nn, k in nonces:
                en, e = digests[i % 4] if i % 3 else ("e=rand", self.rnd(M256))
                i += 1
                self.sign(d, e, [k], "sign:%s:%s:%s" % (kn, nn, en))
            for j in range(2 if not self.thorough else 8):
                self.sign(d, self.rnd(M256), [1 + self.rnd(N - 1)], "sign:%s:k=rand:e=rand" % kn)
        for en, e in digests:
            self.sign(self.keys[3][1], e, [1 + self.rnd(N - 1)], "sign:d=rand:k=rand:%s" % en)
        # DESIGN 5 #1: k = n-70 makes sm2_z256_point_mul_generator return infinity
        self.sign(self.keys[3][1], self.rnd(M256), [N - 70], "sign:nonce=n-70")
        # retry paths of the loop
        d = self.keys[3][1]
        dinv = E.inv(d, N)
        k1, k2 = 1 + self.rnd(N - 1), 1 + self.rnd(N - 1)
        x1 = E.mul(k1, E.G)[0]
        self.sign(d, self.rnd(M256), [N, M256 - 1, N + 1, k2], "sign:retry:k>=n")
        self.sign(d, self.rnd(M256), [0, k2], "sign:retry:k=0")
        self.sign(d, self.rnd(M256), [(5 << 32) | (6 << 96) | (7 << 160) | (8 << 224)], "sign:nonce:limbs-low-halves-zero")
        self.sign((3 << 32) | (1 << 96) | (4 << 160) | (1 << 224), self.rnd(M256), [k2], "sign:key:limbs-low-halves-zero")
        self.sign(d, (N - x1) % N, [k1, k2], "sign:retry:r=0")
        self.sign(d, (N - x1) % N + N if (N - x1) % N + N < M256 else (N - x1) % N, [k1, k2], "sign:retry:r=0:e>=n")
        self.sign(d, (N - k1 - x1) % N, [k1, k2], "sign:retry:r+k=n")
        rr = k1 * dinv % N
        self.sign(d, (rr - x1) % N, [k1, k2], "sign:retry:s=0")
        self.sign(d, (N - x1) % N, [k1], "sign:retry:r=0:then-exhausted")
        self.sign(d, self.rnd(M256), [N] * 100 + [k2], "sign:rand_range:100-rejects")
        self.sign(d, self.rnd(M256), [N] * 99 + [k2], "sign:rand_range:99-rejects")
        self.sign(d, self.rnd(M256), [M256 - 1] * 99 + [0] + [N] * 99 + [k2], "sign:rand_range:tries-reset-after-zero")
        self.sign(d, self.rnd(M256), [], "sign:entropy:none")
        self.sign(d, self.rnd(M256), [N, 0], "sign:entropy:exhausted-in-retry")
        # DER output: size classes of r and s (top bit set / clear / short)
        for cls, rt in (("r-top-set", N - 5), ("r-top-clear", 2 ** 254 + 12345), ("r-short-31", 2 ** 247 - 3), ("r=1", 1), ("r=0x80", 0x80), ("r=0x7f", 0x7f)):
            k = 1 + self.rnd(N - 1)
            x = E.mul(k, E.G)[0]
            self.sign(d, (rt - x) % N, [k], "signder:%s" % cls, der=True)
        for kn, dd in self.keys[:3]:
            self.sign(dd, self.rnd(M256), [1 + self.rnd(N - 1)], "signder:%s:rand" % kn, der=True)
        self.sign(d, self.rnd(M256), [0, N], "signder:entropy-exhausted", der=True)
        # fixed-length signatures
        for siglen in (70, 71, 72):
            ks = [1 + self.rnd(N - 1) for _ in range(14 if siglen != 71 else 8)]
            en = ent_hex(ks)
            e = self.rnd(M256)
            self.add(line="signfix %s %s %d %s" % (h(d), h(e), siglen, en),
                     expr="c01_signfix %s %s %s %s" % (q(h(d)), q(h(e)), nat(siglen), q(en)),
                     cell="signfix:len=%d" % siglen, kind="signder", d=d, e=e)
        for siglen in (0, 69, 73):
            en = ent_hex([5, 6])
            self.add(line="signfix %s %s %d %s" % (h(d), h(1), siglen, en),
                     expr="c01_signfix %s %s %s %s" % (q(h(d)), q(h(1)), nat(siglen), q(en)),
                     cell="signfix:bad-len")

    # ---------------------------------------------------------------- sm2_do_verify
    def verify(self, P, e, r, s, cell, expect=None, model=True):
        self.add(line="verify %s %s %s %s" % (E.pt_hex(P), h(e), h(r), h(s)),
                 expr=("c01_verify %s %s %s %s" % (q(E.pt_hex(P)), q(h(e)), q(h(r)), q(h(s)))) if model else None,
                 cell=cell, expect=expect)

    def make_valid(self, P, r, s):
        """digest for which (r, s) verifies under P (None if t = 0 or the sum is infinity)"""
        t = (r + s) % N
        if t == 0: return None
        R = E.add(E.mul(s, E.G), E.mul(t, P))
        if R is None: return None
        return (r - R[0]) % N

    def gen_verify(self):
        d = self.keys[3][1]; P = self.pub[d]
        # genuine signatures
        for kn, dd in self.keys:
            e, k = self.rnd(M256), 1 + self.rnd(N - 1)
            r, s = E.sign(dd, e, k)
            self.verify(self.pub[dd], e, r, s, "verify:valid:%s" % kn, expect="OK")
        for en, e in (("e=0", 0), ("e=n-1", N - 1), ("e=n", N), ("e=2^256-1", M256 - 1)):
            r, s = E.sign(d, e, 1 + self.rnd(N - 1))
            self.verify(P, e, r, s, "verify:valid:%s" % en, expect="OK")
        # forged grid
        vals = [("0", 0), ("1", 1), ("n-1", N - 1), ("n", N), ("n+1", N + 1), ("2^256-1", M256 - 1)]
        e = self.rnd(M256)
        for rn, r in vals:
            for sn, s in vals:
                self.verify(P, e, r, s, "verify:forged:r=%s:s=%s" % (rn, sn), expect="ERR")
        r = 1 + self.rnd(N - 1)
        self.verify(P, e, r, N - r, "verify:forged:r+s=n", expect="ERR")
        # forged values whose digest is solved so that ONLY the range / t checks stand between the
        # forger and acceptance (each one is accepted by a verifier that lacks that single check)
        xof = lambda R: 0 if R is None else R[0]
        s0 = 1 + self.rnd(2 ** 200); r0 = 1 + self.rnd(N - 1)
        ev = self.make_valid(P, r0, s0)
        self.verify(P, ev, r0, s0 + N, "verify:forged:s+n:digest-solved", expect="ERR")           # s >= n
        r0 = 1 + self.rnd(N - 1)
        self.verify(P, (r0 - xof(E.mul(r0, P))) % N, r0, N, "verify:forged:s=n:digest-solved", expect="ERR")   # s = n acts as 0
        self.verify(P, (r0 - xof(E.mul(r0, P))) % N, r0, 0, "verify:forged:s=0:digest-solved", expect="ERR")   # s = 0
        s0 = 1 + self.rnd(N - 1)
        R = E.add(E.mul(s0, E.G), E.mul(s0, P))
        self.verify(P, (0 - xof(R)) % N, 0, s0, "verify:forged:r=0:digest-solved", expect="ERR")               # r = 0
        self.verify(P, (0 - xof(R)) % N, N, s0, "verify:forged:r=n:digest-solved", expect="ERR")               # r = n acts as 0
        r0 = 1 + self.rnd(N - 1); s0 = N - r0
        self.verify(P, (r0 - xof(E.mul(s0, E.G))) % N, r0, s0, "verify:forged:t=0:digest-solved", expect="ERR")  # t = 0
        # boundary values of r and s that DO satisfy the equations (digest solved for)
        for cls, r, s in (("r=1", 1, 1 + self.rnd(N - 1)), ("r=n-1", N - 1, 1 + self.rnd(N - 2)), ("s=1", 1 + self.rnd(N - 2), 1),
                          ("s=n-1", 2 + self.rnd(N - 3), N - 1), ("r=1:s=1", 1, 1), ("r=n-1:s=n-1", N - 1, N - 1), ("r+s=n+1", 5, N - 4)):
            ev = self.make_valid(P, r, s)
            if ev is not None:
                self.verify(P, ev, r, s, "verify:valid-boundary:%s" % cls, expect="OK")
                self.verify(P, (ev + 1) % M256, r, s, "verify:boundary-digest+1:%s" % cls, expect="ERR")
        # t = r + s just below n: structured scalars for the windowed sm2_z256_point_mul(t, P)
        for j in range(1, 41 if not self.thorough else 130):
            s0 = 1 + self.rnd(N - 1); r0 = (N - j - s0) % N
            if r0 == 0: continue
            ev = self.make_valid(P, r0, s0)
            if ev is not None:
                self.verify(P, ev, r0, s0, "verify:valid:t=n-j:j%%8=%d" % (j % 8), expect="OK")
        # limb patterns of the 4x64-bit integers (carry chains of sm2_z256_add / limb order of sm2_z256_cmp):
        # valid signatures whose r or s has all-ones limbs with a carry running into them when t = r + s
        F64 = 2 ** 64 - 1
        limbs = lambda l0, l1, l2, l3: l0 | (l1 << 64) | (l2 << 128) | (l3 << 192)
        pats = [("r-limb1-ones:carry-in", limbs(F64, F64, 5, 7), limbs(1, 0, 0, 3)),
                ("r-limb2-ones:carry-in", limbs(F64 - 1, F64, F64, 7), limbs(2, 0, 0, 3)),
                ("r-limbs012-ones", limbs(F64, F64, F64, 0x1234), limbs(1, 0, 0, 0)),
                ("s-limb1-ones:carry-in", limbs(9, 0, 0, 3), limbs(F64 - 3, F64, 1, 2)),
                ("both-limb1-ones", limbs(F64, F64, 1, 1), limbs(F64, F64, 1, 1)),
                ("sum-wraps-2^256", limbs(5, F64, F64, 0xF000000000000000), limbs(F64, 1, 0, 0x0FFFFFFE00000000)),
                ("r-top-limbs-of-n", limbs(7, 0x7203DF6B21C6052A, F64, 0xFFFFFFFEFFFFFFFF), limbs(3, 1, 0, 0)),
                ("s-limb0-above-n0:limb1-below", limbs(11, 2, 3, 4), limbs(F64, 0x7203DF6B21C6052A, F64, 0xFFFFFFFEFFFFFFFF))]
        hi = lambda a, b, c, d_: limbs(a << 32, b << 32, c << 32, d_ << 32)      # every limb has a zero low half
        pats += [("r-limbs-low-halves-zero", hi(1, 2, 3, 4), limbs(7, 7, 7, 7)), ("s-limbs-low-halves-zero", limbs(9, 8, 7, 6), hi(5, 0, 0, 1)),
                 ("t-limbs-low-halves-zero", limbs(F64, F64, F64, 1), (hi(3, 1, 4, 9) - limbs(F64, F64, F64, 1)) % N),
                 ("r-only-top-limb", hi(0, 0, 0, 0x1000), limbs(3, 3, 3, 3)), ("s-only-limb1-high-half", limbs(1, 2, 3, 4), hi(0, 77, 0, 0))]
        for cls, r0, s0 in pats:
            r0 %= N; s0 %= N
            if r0 == 0 or s0 == 0: continue
            ev = self.make_valid(P, r0, s0)
            if ev is not None:
                self.verify(P, ev, r0, s0, "verify:valid:limbs:%s" % cls, expect="OK")
        # forged values >= n that differ from n only in the low limbs (a cmp that ranks limb 0 above
        # limb 1 takes them for < n); the digest is solved for the value reduced mod n
        n0, n1 = N & F64, (N >> 64) & F64
        top = (N >> 128) << 128
        forged = [("s=n+(2^64-n0)+5", top | ((n1 + 1) << 64) | 5), ("s=n:limb1+1:limb0=0", top | ((n1 + 1) << 64)),
                  ("s=n:limb1+7:limb0=n0-1", top | ((n1 + 7) << 64) | (n0 - 1)), ("s=n+1", N + 1), ("s=n+2^64", N + 2 ** 64)]
        for cls, sv in forged:
            r0 = 1 + self.rnd(N - 1)
            ev = self.make_valid(P, r0, sv % N)
            if ev is not None and sv < M256:
                self.verify(P, ev, r0, sv, "verify:forged:limb-order:%s" % cls, expect="ERR")
                self.verify(P, ev, r0, sv % N, "verify:valid:limb-order-base:%s" % cls, expect="OK")
        for cls, sv in (("s<2^64", 2 ** 63 + 12345), ("s<2^127:limb0-high", (3 << 64) | (F64 - 5)), ("s<2^127:limb0-low", (3 << 64) | 5),
                        ("s<2^128", (2 ** 127) | (F64 - 1)), ("s<2^191", (1 << 190) | (F64 << 64) | 9)):
            r0 = 1 + self.rnd(N - 1)
            ev = self.make_valid(P, r0, sv)
            if ev is not None:
                self.verify(P, ev, r0, sv + N, "verify:forged:s+n:%s" % cls, expect="ERR")
        for cls, rv in (("r<2^127:limb0-high", (5 << 64) | (F64 - 2)), ("r<2^64", 2 ** 62 + 99)):
            s0 = 1 + self.rnd(N - 1)
            ev = self.make_valid(P, rv, s0)
            if ev is not None:
                self.verify(P, ev, rv + N, s0, "verify:forged:r+n:%s" % cls, expect="ERR")
        # DESIGN 5 #1: s = n-70 goes through sm2_z256_point_mul_generator
        r, s = 1 + self.rnd(N - 1), N - 70
        ev = self.make_valid(P, r, s)
        self.verify(P, ev, r, s, "verify:valid:s=n-70", expect="OK")
        # x(R) >= n : the conditional subtraction of x is exercised (public key solved for)
        x = N + 1 + self.rnd(P_ - N - 2)
        Q = None
        while Q is None:
            x += 1
            Q = E.lift_x(x, 0)
        s, t = 1 + self.rnd(N - 1), 2 + self.rnd(N - 2)
        Pk = E.mul(E.inv(t, N), E.add(Q, E.mul(N - s, E.G)))
        r = (t - s) % N
        if r != 0 and Pk is not None:
            ev = (r - Q[0]) % N
            self.verify(Pk, ev, r, s, "verify:valid:x>=n", expect="OK")
            self.verify(Pk, (ev + N) % M256 if ev + N < M256 else ev, r, s, "verify:valid:x>=n:e>=n", expect="OK")
        # tampering with a genuine signature
        e, k = self.rnd(M256), 1 + self.rnd(N - 1)
        r, s = E.sign(d, e, k)
        nb = 6 if not self.thorough else 40
        for i in range(nb):
            bit = 1 << self.r.below(256)
            self.verify(P, e ^ bit, r, s, "verify:tamper:digest-bit", expect="ERR")
            self.verify(P, e, r ^ bit, s, "verify:tamper:r-bit", expect="ERR")
            self.verify(P, e, r, s ^ bit, "verify:tamper:s-bit", expect="ERR")
        self.verify(self.pub[self.keys[4][1]], e, r, s, "verify:tamper:other-key", expect="ERR")
        self.verify((P[0], P_ - P[1]), e, r, s, "verify:tamper:negated-key", expect="ERR")
        self.verify(P, e, s, r, "verify:tamper:swapped", expect="ERR")
        self.verify(P, e, r, N - s, "verify:tamper:s->n-s", expect="ERR")

    # ---------------------------------------------------------------- sm2_verify (DER)
    def vder(self, P, e, sg, cell, expect=None):
        self.add(line="verifyder %s %s %s" % (E.pt_hex(P), h(e), core.hexs(sg)),
                 expr="c01_verifyder %s %s %s" % (q(E.pt_hex(P)), q(h(e)), q(core.hexs(sg))),
                 cell=cell, expect=expect)

    def gen_verifyder(self):
        d = self.keys[3][1]; P = self.pub[d]
        # valid signatures of every encoded size class
        classes = [("r33:s33", N - 9, N - 11), ("r32:s33", 2 ** 254 + 99, N - 13), ("r33:s32", N - 15, 2 ** 253 + 7),
                   ("r32:s32", 2 ** 254 + 5, 2 ** 254 + 6), ("r31", 2 ** 246 + 1, 2 ** 255 + 3), ("r1:s1", 1, 2), ("r=0x80", 0x80, 0x7f), ("s=0xff", 0x1234, 0xff)]
        base = None
        for cls, r, s in classes:
            ev = self.make_valid(P, r, s)
            self.vder(P, ev, E.der_sig(r, s), "verifyder:valid:%s" % cls, expect="OK")
            if base is None: base = (ev, r, s)
        ev, r, s = base
        good = E.der_sig(r, s)
        ri, si = E.der_int(r), E.der_int(s)
        body = ri + si
        muts = {
            "empty": b"",
            "trailing-byte": good + b"\x00",
            "trailing-ff": good + b"\xff",
            "truncated-1": good[:-1],
            "truncated-half": good[:len(good) // 2],
            "only-tag": b"\x30",
            "seq-len-long-form": b"\x30\x81" + bytes([len(body)]) + body,
            "seq-len-2byte-form": b"\x30\x82\x00" + bytes([len(body)]) + body,
            "seq-len-indefinite": b"\x30\x80" + body + b"\x00\x00",
            "seq-len+1": b"\x30" + bytes([len(body) + 1]) + body,
            "seq-len-1": b"\x30" + bytes([len(body) - 1]) + body,
            "seq-len+1-with-byte": b"\x30" + bytes([len(body) + 1]) + body + b"\x00",
            "seq-tag-set": b"\x31" + good[1:],
            "seq-tag-octets": b"\x04" + good[1:],
            "seq-tag-0x10": b"\x10" + good[1:],
            "int-tag-r": b"\x30" + bytes([len(body)]) + b"\x03" + ri[1:] + si,
            "int-tag-s": b"\x30" + bytes([len(body)]) + ri + b"\x04" + si[1:],
            "r-extra-leading-00": b"\x30" + bytes([len(body) + 1]) + b"\x02" + bytes([ri[1] + 1]) + b"\x00" + ri[2:] + si,
            "s-extra-leading-00": b"\x30" + bytes([len(body) + 1]) + ri + b"\x02" + bytes([si[1] + 1]) + b"\x00" + si[2:],
            "r-negative": b"\x30" + bytes([len(body) - 1]) + b"\x02" + bytes([ri[1] - 1]) + ri[3:] + si,
            "s-negative": b"\x30" + bytes([len(body) - 1]) + ri + b"\x02" + bytes([si[1] - 1]) + si[3:],
            "r-len-long-form": b"\x30" + bytes([len(body) + 1]) + b"\x02\x81" + ri[1:] + si,
            "r-empty-integer": b"\x30" + bytes([2 + len(si)]) + b"\x02\x00" + si,
            "r-33-bytes-no-sign-octet": b"\x30" + bytes([35 + len(si)]) + b"\x02\x21\x01" + r.to_bytes(32, "big") + si,
            "r-34-bytes": b"\x30" + bytes([36 + len(si)]) + b"\x02\x22\x00\x80" + r.to_bytes(32, "big") + si,
            "s-33-bytes-no-sign-octet": b"\x30" + bytes([35 + len(ri)]) + ri + b"\x02\x21\x7f" + s.to_bytes(32, "big"),
            "three-integers": b"\x30" + bytes([len(body) + 3]) + body + b"\x02\x01\x01",
            "one-integer": b"\x30" + bytes([len(ri)]) + ri,
            "garbage-inside-seq": b"\x30" + bytes([len(body) + 1]) + body + b"\x05",
            "nested-seq": b"\x30" + bytes([len(good)]) + good,
            "r-zero": E.der_sig(0, s),
            "s-zero": E.der_sig(r, 0),
        }
        # an over-long INTEGER compensated by a short one (a bound on rlen + slen instead of on each)
        b33 = lambda v: b"\x02\x21\x01" + v.to_bytes(32, "big")
        b34 = lambda v: b"\x02\x22\x01\x00" + v.to_bytes(32, "big")
        for name, body2 in (("s-33-octets:r-1-octet", E.der_int(5) + b33(s)), ("r-33-octets:s-1-octet", b33(r) + E.der_int(7)),
                            ("s-34-octets:r-1-octet", E.der_int(5) + b34(s)), ("s-33-octets:r-31-octets", E.der_int(2 ** 246 + 1) + b33(s)),
                            ("r-33-octets:s-31-octets", b33(r) + E.der_int(2 ** 246 + 1)), ("s-63-octets:r-1-octet", E.der_int(1) + b"\x02\x3f\x01" + bytes(30) + s.to_bytes(32, "big"))):
            muts["overlong:" + name] = b"\x30" + E.der_len(len(body2)) + body2
        for name, sg in muts.items():
            self.vder(P, ev, sg, "verifyder:mut:%s" % name, expect="ERR")
        # a superfluous 00 in front of an octet < 0x80 (needs r / s with the top bit clear)
        r2, s2 = 2 ** 254 + 99, 2 ** 253 + 7
        ev2 = self.make_valid(P, r2, s2)
        ri2, si2 = E.der_int(r2), E.der_int(s2)
        pad = lambda t: b"\x02" + bytes([t[1] + 1]) + b"\x00" + t[2:]
        self.vder(P, ev2, E.der_sig(r2, s2), "verifyder:valid:r32:s32:b", expect="OK")
        self.vder(P, ev2, b"\x30" + bytes([len(ri2) + len(si2) + 1]) + pad(ri2) + si2, "verifyder:mut:r-leading-00-before-positive", expect="ERR")
        self.vder(P, ev2, b"\x30" + bytes([len(ri2) + len(si2) + 1]) + ri2 + pad(si2), "verifyder:mut:s-leading-00-before-positive", expect="ERR")
        self.vder(P, ev2, b"\x30" + bytes([len(ri2) + len(si2) + 2]) + pad(ri2) + pad(si2), "verifyder:mut:both-leading-00-before-positive", expect="ERR")
        ev3 = self.make_valid(P, 1, 0x7f)
        self.vder(P, ev3, b"\x30\x08\x02\x02\x00\x01\x02\x02\x00\x7f", "verifyder:mut:small-values-leading-00", expect="ERR")
        self.vder(P, ev3, b"\x30\x06\x02\x01\x01\x02\x01\x7f", "verifyder:valid:small-values", expect="OK")
        # every single-bit flip of the header octets, and sampled flips of the value octets
        hdr = [0, 1, 2, 3, 2 + len(ri), 3 + len(ri)]
        for pos in hdr:
            for b in range(8):
                m = bytearray(good); m[pos] ^= 1 << b
                self.vder(P, ev, bytes(m), "verifyder:bitflip:header", expect="ERR")
        nval = 16 if not self.thorough else 200
        for i in range(nval):
            pos = self.r.below(len(good))
            if pos in hdr: continue
            m = bytearray(good); m[pos] ^= 1 << self.r.below(8)
            self.vder(P, ev, bytes(m), "verifyder:bitflip:value", expect="ERR")
        # random byte strings and random re-splices of valid encodings
        for i in range(40 if not self.thorough else 400):
            L = self.r.range(0, 80)
            self.vder(P, ev, self.r.bytes(L), "verifyder:random-bytes", expect="ERR")
        for i in range(40 if not self.thorough else 400):
            m = bytearray(good)
            for j in range(self.r.range(1, 3)):
                op = self.r.below(3); pos = self.r.below(len(m)) if m else 0
                if op == 0 and m: del m[pos]
                elif op == 1: m.insert(pos, self.r.below(256))
                elif m: m[pos] = self.r.below(256)
            if bytes(m) != good:
                self.vder(P, ev, bytes(m), "verifyder:random-edit")

    # ---------------------------------------------------------------- sm2_compute_z
    def z(self, P, buf, idlen, cell):
        self.add(line="z %s %s %d" % (E.pt_hex(P), core.hexs(buf), idlen),
                 expr="c01_z %s %s %s" % (q(E.pt_hex(P)), q(core.hexs(buf)), nat(idlen)),
                 spec="c01_zspec %s %s" % (q(E.pt_hex(P)), q(core.hexs(buf[:idlen]))),
                 cell=cell)

    def gen_z(self):
        r = self.r
        P = self.pub[self.keys[3][1]]
        for kn, d in self.keys[:3]:
            self.z(self.pub[d], DEF_ID + b"\0", 16, "z:default-id:nul-terminated:%s" % kn)
        # DESIGN 5 #2 (repaired by 227cbe8; a regression makes these differ from the model and the Spec):
        # the old strcmp shortcut ignored idlen
        for idlen in (1, 5, 15):
            self.z(P, DEF_ID + b"\0", idlen, "z:default-id-prefix:nul-terminated:idlen-lt-16")
        for idlen, tail in ((17, b""), (20, b"abc")):
            self.z(P, DEF_ID + b"\0" + tail, idlen, "z:default-id-then-nul:idlen-gt-16")
        # exactly sized buffers without a terminating NUL that are a prefix of the default ID
        # (the old strcmp read past them: ASan fault)
        for buf in (DEF_ID, b"12345", b"1", DEF_ID[:15]):
            self.z(P, buf, len(buf), "z:unterminated-prefix-of-default:len=%d" % len(buf))
        # everything else: exactly sized, unterminated buffers
        self.z(P, b"1234567812345679", 16, "z:differs-at-last-byte")
        self.z(P, b"12345678123456789", 17, "z:default-plus-one")
        self.z(P, b"2", 1, "z:len=1")
        self.z(P, b"\0", 1, "z:len=1:nul")
        self.z(P, b"abc\0def", 7, "z:embedded-nul")
        self.z(P, b"\0" * 16, 16, "z:all-nul")
        self.z(P, b"1234\0" + b"5678123456781", 18, "z:default-with-embedded-nul")
        self.z(P, b"x" + r.bytes(8190), 8191, "z:len=8191")
        self.z(P, b"y" + r.bytes(31), 32, "z:len=32")
        self.z(P, b"y" + r.bytes(32), 33, "z:len=33")
        self.z(P, b"z" + r.bytes(255), 256, "z:len=256")
        self.z(P, b"ALICE123@YAHOO.COM", 18, "z:standard-example-id")
        for i in range(10 if not self.thorough else 100):
            L = r.range(1, 200)
            buf = bytes([0x41 + r.below(20)]) + r.bytes(L - 1)
            self.z(P, buf, L, "z:random")
        for i in range(4):
            L = r.range(2, 60); buf = bytes([0x32 + r.below(9)]) + r.bytes(L - 1)
            self.z(P, buf, r.range(1, L - 1), "z:idlen-shorter-than-buffer")

    # ---------------------------------------------------------------- sm2_key.c objects, print parser
    def gen_keys(self):
        r = self.r
        F64 = 2 ** 64 - 1
        for cls, ks in (("first-draw", [1 + self.rnd(N - 2)]), ("d=1", [1]), ("d=n-2", [N - 2]), ("reject:n-1", [N - 1, 5]), ("reject:n", [N, M256 - 1, 7]),
                        ("reject:0", [0, 0, 9]), ("100-rejects", [N - 1] * 100 + [3]), ("99-rejects", [N - 1] * 99 + [3]), ("entropy:none", []), ("entropy:exhausted", [0, N])):
            en = ent_hex(ks)
            self.add(line="keygen %s" % en, expr="c01_keygen %s" % q(en), cell="keygen:%s" % cls)
        for cls, d in (("0", 0), ("1", 1), ("2", 2), ("n-2", N - 2), ("n-1", N - 1), ("n", N), ("n+1", N + 1), ("2^256-1", M256 - 1), ("rand", 1 + self.rnd(N - 2)),
                       ("limb0-only", F64), ("limbs-low-halves-zero", (2 << 32) | (7 << 96) | (1 << 160) | (8 << 224)), ("only-high-half-of-limb0", 1 << 40), ("limb-order:n:limb1+1:limb0=0", ((N >> 128) << 128) | ((((N >> 64) & F64) + 1) << 64))):
            self.add(line="setpriv %s" % h(d), expr="c01_setpriv %s" % q(h(d)), cell="setpriv:d=%s" % cls)
            self.add(line="fastkey %s" % h(d), expr="c01_fastkey %s" % q(h(d)), cell="fastkey:d=%s" % cls) if d != 0 or True else None
        P = self.pub[self.keys[3][1]]; Q = self.pub[self.keys[4][1]]
        for cls, A in (("rand", P), ("G", E.G), ("d=n-2", self.pub[N - 2])):
            self.add(line="pkdigest %s" % E.pt_hex(A), expr="c01_pkdigest %s" % q(E.pt_hex(A)), cell="pkdigest:%s" % cls)
        for cls, A, Bp in (("same", P, P), ("other", P, Q), ("negated", P, (P[0], P_ - P[1])), ("same-x-only", P, (P[0], P_ - P[1]))):
            self.add(line="pkequ %s %s" % (E.pt_hex(A), E.pt_hex(Bp)), expr="c01_pkequ %s %s" % (q(E.pt_hex(A)), q(E.pt_hex(Bp))), cell="pkequ:%s" % cls)
        good = E.der_sig(N - 9, 2 ** 254 + 5)
        for cls, a in (("valid", good), ("valid-min", E.der_sig(0, 0)), ("trailing", good + b"\0"), ("truncated", good[:-1]), ("empty", b""),
                       ("leading-00", b"\x30\x08\x02\x02\x00\x01\x02\x02\x00\x7f"), ("three-ints", b"\x30\x09\x02\x01\x01\x02\x01\x02\x02\x01\x03"),
                       ("33-octets", b"\x30\x26\x02\x21\x01" + bytes(32) + b"\x02\x01\x01"), ("random", r.bytes(40))):
            self.add(line="sigprint %s" % core.hexs(a), expr="c01_sigprint %s" % q(core.hexs(a)), cell="sigprint:%s" % cls)

    # ---------------------------------------------------------------- sm2_fast_sign
    def gen_fastsign(self):
        """public sm2_fast_sign with chosen pre-computed entries (k, x1).  DESIGN 5 #3 (repaired by
        05ab786): digests aimed at r = 0, s = 0, r + k = n must be answered with 0 ("take another
        nonce", printed ERR); every pair that IS returned must verify (phase 2)."""
        for kn, d in (self.keys[3], self.keys[1]):
            P = self.pub[d]
            fd = E.inv(1 + d, N)
            dinv = E.inv(d, N)
            for kk in ((1 + self.rnd(N - 1)), 1, N - 1):
                x1 = E.mul(kk, E.G)[0] % N
                aims = [("random", self.rnd(M256), None), ("r=0", (N - x1) % N, "ERR"), ("s=0", (kk * dinv - x1) % N, "ERR"),
                        ("r+k=n", (N - kk - x1) % N, "ERR"), ("r=0:e>=n", (N - x1) % N + N, "ERR"), ("r=1", (1 - x1) % N, None),
                        ("r+k=n-1", (N - 1 - kk - x1) % N, None), ("r+k=n+1", (N + 1 - kk - x1) % N, None)]
                for cls, e, ex in aims:
                    if e >= M256: continue
                    r_ = (e + x1) % N
                    if ex is None and (r_ == 0 or (r_ + kk) % N == 0): continue
                    self.add(line="fastsign %s %s %s %s" % (h(fd), h(kk), h(x1), h(e)),
                             expr="c01_fastsign %s %s %s %s" % (q(h(fd)), q(h(kk)), q(h(x1)), q(h(e))),
                             cell="fastsign:%s:%s" % (kn, cls), expect=ex, kind="fastsign", d=d, e=e, cls=cls)

    # ---------------------------------------------------------------- streaming contexts
    def sstream(self, d, idbuf, idlen, rounds, ks, cell):
        en = ent_hex(ks)
        P = self.pub[d]
        rl = ";".join(chunks_line(c) for c in rounds)
        self.add(line="sstream %s %s %d %s %s" % (h(d), core.hexs(idbuf) if idbuf is not None else "NULL", idlen, rl, en),
                 expr="c01_sstreamP %s %s %s %s %s" % (q(h(d)), q(E.pt_hex(P)), gid(idbuf, idlen), glist([chunks_g(c) for c in rounds]), q(en)),
                 cell=cell, kind="sstream", d=d, idbuf=idbuf, idlen=idlen, rounds=rounds)

    def gen_stream(self):
        r = self.r
        d = self.keys[3][1]
        big = lambda cnt: [1 + self.rnd(N - 1) for _ in range(cnt)]
        # most contexts draw small nonces: [k]G is then cheap for the model, the library does not care
        nonces = lambda cnt: [2 + self.r.below(4000) for _ in range(cnt)]
        msg = r.bytes(150)
        idz = DEF_ID + b"\0"
        self.sstream(d, idz, 16, [r.split(msg, 3)], big(32), "sstream:default-id:1-round")
        self.sstream(d, idz, 16, [[msg]], nonces(32), "sstream:default-id:single-chunk")
        self.sstream(d, idz, 16, [[b"", msg[:64], b"", msg[64:]]], nonces(32), "sstream:default-id:empty-chunks")
        self.sstream(d, idz, 16, [[]], nonces(32), "sstream:default-id:no-update")
        self.sstream(d, idz, 16, [r.split(msg, 2), r.split(r.bytes(64), 2)], big(32), "sstream:2-rounds:nonce-31-then-30")
        self.sstream(d, idz, 16, [[msg], [msg], [msg]], nonces(32), "sstream:3-rounds:same-message")
        self.sstream(d, None, 0, [r.split(msg, 2)], nonces(32), "sstream:id=NULL")
        self.sstream(d, b"ALICE123@YAHOO.COM", 18, [r.split(msg, 4)], nonces(32), "sstream:custom-id")
        self.sstream(d, b"A" + r.bytes(8190), 8191, [[msg]], nonces(32), "sstream:idlen=8191")
        self.sstream(d, b"A" + r.bytes(8191), 8192, [[msg]], nonces(32), "sstream:idlen=8192")
        self.sstream(d, b"abc", 0, [[msg]], nonces(32), "sstream:idlen=0")
        self.sstream(d, idz, 16, [[msg]], nonces(31), "sstream:entropy:31-nonces")
        ks = nonces(32); ks[5:5] = [N, 0, M256 - 1]
        self.sstream(d, idz, 16, [[msg]], ks, "sstream:entropy:rejected-draws-in-precompute")
        for kn, dd in self.keys[:3]:
            self.sstream(dd, idz, 16, [r.split(r.bytes(r.range(0, 300)), 3)], nonces(32), "sstream:%s" % kn)
        # refill of the 32 pre-computed nonces at the 33rd signature
        self.sstream(d, idz, 16, [[r.bytes(8)] for _ in range(34)], nonces(64), "sstream:34-rounds:refill")
        self.sstream(d, idz, 16, [[r.bytes(8)] for _ in range(33)], nonces(32), "sstream:33-rounds:refill-without-entropy")
        # sm2_fast_sign_pre_compute: all 32 slots (k, x1 mod n) against the model's batch inversion
        for name, special in (("boundary-nonces", {0: 1, 1: N - 1, 2: N - 70, 15: big(1)[0], 30: N - 71, 31: big(1)[0]}),
                              ("boundary-at-ends", {0: N - 70, 31: N - 1, 16: big(1)[0]}),
                              ("small", {})):
            ks = nonces(32)
            for i, k in special.items(): ks[i] = k
            en = ent_hex(ks)
            self.add(line="signpre %s" % en, expr="c01_signpre %s" % q(en), cell="signpre:%s" % name)
        ks = nonces(32); ks[10:10] = [N, 0]
        self.add(line="signpre %s" % ent_hex(ks), expr="c01_signpre %s" % q(ent_hex(ks)), cell="signpre:rejected-draws")
        en = ent_hex(nonces(31))
        self.add(line="signpre %s" % en, expr="c01_signpre %s" % q(en), cell="signpre:entropy:31-nonces")
        # one context used for all 32 slots with boundary nonces in slots 0 and 31
        ks = nonces(32); ks[0] = N - 70; ks[31] = N - 1; ks[1] = 1
        self.sstream(d, idz, 16, [[r.bytes(6)] for _ in range(32)], ks, "sstream:32-rounds:every-slot")
        # entropy failure in the middle of the refill, then the caller goes on with the same context:
        # 32 signatures, a 33rd whose refill runs out of entropy after 10 nonces (error), a 34th with a
        # full refill, a 35th from the refilled pool; every signature returned must verify
        ks0 = nonces(32)
        rounds = [([r.bytes(5)], []) for _ in range(32)] + [([r.bytes(5)], nonces(10)), ([r.bytes(6)], nonces(32)), ([r.bytes(7)], []), ([r.bytes(7)], nonces(3))]
        rl = ";".join("%s@%s" % (chunks_line(c_), ent_hex(k_)) for c_, k_ in rounds)
        gl = glist(["(%s, %s)" % (chunks_g(c_), q(ent_hex(k_))) for c_, k_ in rounds])
        self.add(line="sstreamf %s %s %d %s %s" % (h(d), core.hexs(idz), 16, ent_hex(ks0), rl),
                 expr="c01_sstreamf %s %s %s %s %s" % (q(h(d)), q(E.pt_hex(self.pub[d])), gid(idz, 16), q(ent_hex(ks0)), gl),
                 cell="sstreamf:refill-fails-then-retry", kind="sstreamf", d=d, idbuf=idz, idlen=16, rounds=[c_ for c_, _ in rounds])
        # one-shot signing with Z
        for cls, idbuf, idlen in (("default-id", idz, 16), ("custom-id", b"bob@example", 11)):
            m = r.bytes(r.range(0, 200)); en = ent_hex(big(1))
            self.add(line="sign1 %s %s %d %s %s" % (h(d), core.hexs(idbuf), idlen, core.hexs(m), en),
                     expr="c01_sign1 %s %s %s %s %s %s" % (q(h(d)), q(E.pt_hex(self.pub[d])), q(core.hexs(idbuf)), nat(idlen), q(core.hexs(m)), q(en)),
                     cell="sign1:%s" % cls, kind="sign1", d=d, idbuf=idbuf, idlen=idlen, msg=m)
        # sm2_sign_finish_fixlen
        for siglen in (71, 70):
            m = r.split(r.bytes(100), 3); en = ent_hex(nonces(32) + big(12))
            self.add(line="sfinfix %s %s %d %s %d %s" % (h(d), core.hexs(idz), 16, chunks_line(m), siglen, en),
                     expr="c01_sfinfix %s %s %s %s %s %s" % (q(h(d)), q(E.pt_hex(self.pub[d])), gid(idz, 16), chunks_g(m), nat(siglen), q(en)),
                     cell="sfinfix:len=%d" % siglen, kind="sfinfix", d=d, idbuf=idz, idlen=16, rounds=[m])
        en = ent_hex(nonces(33))
        self.add(line="sfinfix %s %s %d %s %d %s" % (h(d), core.hexs(idz), 16, "aa", 0, en),
                 expr="c01_sfinfix %s %s %s %s %s %s" % (q(h(d)), q(E.pt_hex(self.pub[d])), gid(idz, 16), chunks_g([b"\xaa"]), nat(0), q(en)),
                 cell="sfinfix:len=0")

    def vstream(self, P, idbuf, idlen, chunks, sg, cell, expect=None, model=True):
        self.add(line="vstream %s %s %d %s %s" % (E.pt_hex(P), core.hexs(idbuf) if idbuf is not None else "NULL", idlen, chunks_line(chunks), core.hexs(sg)),
                 expr=("c01_vstream %s %s %s %s" % (q(E.pt_hex(P)), gid(idbuf, idlen), chunks_g(chunks), q(core.hexs(sg)))) if model else None,
                 cell=cell, expect=expect)

    def vstream1(self, P, idbuf, idlen, msg, sg, cell, expect=None, model=True):
        self.add(line="vstream1 %s %s %d %s %s" % (E.pt_hex(P), core.hexs(idbuf), idlen, core.hexs(msg), core.hexs(sg)),
                 expr=("c01_vstream1 %s %s %s %s %s" % (q(E.pt_hex(P)), q(core.hexs(idbuf)), nat(idlen), q(core.hexs(msg)), q(core.hexs(sg)))) if model else None,
                 cell=cell, expect=expect)


def phase2(g, first, impl):
    """every signature that a signing interface returned must verify under the verification
    interfaces (expect OK); a sample is also evaluated on the model"""
    g.cases = []
    r = g.r
    nmodel = {"sign": 0, "signder": 0}
    for c, out in zip(first, impl):
        kind = c.get("kind")
        if not kind or out.startswith("ERR") or out.startswith("FAULT"):
            continue
        w = out.split(" ")
        base = c["cell"]
        if kind == "sign":
            rr, ss = int(w[0], 16), int(w[1], 16)
            with_model = nmodel["sign"] < 12 or "retry" in base
            nmodel["sign"] += 1
            g.verify(g.pubkey(c["d"]), c["e"], rr, ss, "verifies:" + base, expect="OK", model=with_model)
            if 1 <= rr < N and 1 <= ss < N and with_model:
                g.vder(g.pubkey(c["d"]), c["e"], E.der_sig(rr, ss), "verifies-der:" + base, expect="OK")
        elif kind == "signder":
            g.vder(g.pubkey(c["d"]), c["e"], bytes.fromhex(w[0]), "verifies-der:" + base, expect="OK")
        elif kind == "fastsign":
            rr, ss = int(w[0], 16), int(w[1], 16)
            g.verify(g.pubkey(c["d"]), c["e"], rr, ss, "fastsign-verifies:" + c["cls"], expect="OK")
            g.cases[-1]["origin"] = c["line"]
        elif kind in ("sstream", "sfinfix"):
            sigs = w[0].split(",")
            P = g.pubkey(c["d"])
            for i, (sg, chunks) in enumerate(zip(sigs, c["rounds"])):
                msg = b"".join(chunks)
                sgb = bytes.fromhex(sg)
                with_model = i < 2 or i >= len(sigs) - 1 or (len(sigs) == 32 and i in (30, 31))
                g.vstream(P, c["idbuf"], c["idlen"], r.split(msg, 3), sgb, "vstream:of-%s" % base, expect="OK", model=with_model)
                if i == 0 and c["idbuf"] is not None and 1 <= c["idlen"] <= 8191:
                    g.vstream1(P, c["idbuf"], c["idlen"], msg, sgb, "vstream1:of-%s" % base, expect="OK")
                if i == 0 and base in ("sstream:default-id:1-round", "sstream:custom-id"):
                    # binding: other message / other ID / other key / NULL id
                    g.vstream(P, c["idbuf"], c["idlen"], [msg + b"\0"], sgb, "vstream:tamper:message", expect="ERR")
                    g.vstream(P, b"1234567812345679\0", 16, [msg], sgb, "vstream:tamper:id", expect="ERR")
                    g.vstream(P, None, 0, [msg], sgb, "vstream:tamper:id=NULL", expect="ERR")
                    g.vstream(g.pub[g.keys[4][1]], c["idbuf"], c["idlen"], [msg], sgb, "vstream:tamper:key", expect="ERR")
                    g.vstream(P, c["idbuf"], c["idlen"], [msg], sgb + b"\0", "vstream:tamper:trailing-byte", expect="ERR")
                    g.vstream(P, c["idbuf"], c["idlen"], [msg], b"", "vstream:empty-signature", expect="ERR")
                    g.vstream(P, c["idbuf"], 0, [msg], sgb, "vstream:idlen=0", expect="ERR")
            if kind == "sstream" and 2 <= len(sigs) <= 3 and c["idbuf"] is not None:
                # one SM2_VERIFY_CTX for all messages of the signing context (reset in between),
                # with a wrong signature in the middle: OK, ERR, OK ...
                rounds, gr = [], []
                for i, (sg, chunks) in enumerate(zip(sigs, c["rounds"])):
                    rounds.append((chunks, bytes.fromhex(sg)))
                    if i == 0: rounds.append((chunks + [b"x"], bytes.fromhex(sg)))
                rl = ";".join("%s@%s" % (chunks_line(ch_), core.hexs(sg_)) for ch_, sg_ in rounds)
                gl = glist(["(%s, %s)" % (chunks_g(ch_), q(core.hexs(sg_))) for ch_, sg_ in rounds])
                g.add(line="vctxr %s %s %d %s" % (E.pt_hex(P), core.hexs(c["idbuf"]), c["idlen"], rl),
                      expr="c01_vctxr %s %s %s" % (q(E.pt_hex(P)), gid(c["idbuf"], c["idlen"]), gl),
                      cell="vctxr:of-%s" % base, expect=",".join(["OK", "ERR"] + ["OK"] * (len(sigs) - 1)))
        elif kind == "sstreamf":
            P = g.pubkey(c["d"])
            for i, (sg, chunks) in enumerate(zip(w[0].split(","), c["rounds"])):
                if sg == "ERR": continue
                g.vstream(P, c["idbuf"], c["idlen"], [b"".join(chunks)], bytes.fromhex(sg), "vstream:of-%s" % base, expect="OK", model=(i >= 32))
        elif kind == "sign1":
            sgb = bytes.fromhex(w[0])
            g.vstream(g.pubkey(c["d"]), c["idbuf"], c["idlen"], r.split(c["msg"], 2), sgb, "vstream:of-%s" % base, expect="OK")
            g.vstream1(g.pubkey(c["d"]), c["idbuf"], c["idlen"], c["msg"], sgb, "vstream1:of-%s" % base, expect="OK")
    return g.cases


def nonce_reuse_check(ctx, first, impl):
    """pre-computed nonces are consumed once each: two signatures of one context that used the
    same nonce have equal r - e; with equal messages (same e) they would be byte-identical"""
    for c, out in zip(first, impl):
        if c.get("kind") == "sstream" and "same-message" in c["cell"] and not out.startswith(("ERR", "FAULT")):
            sigs = out.split(" ")[0].split(",")
            ctx.cov["evaluations"] += 1
            if len(set(sigs)) != len(sigs):
                ctx.violation("sstream:nonce-reuse", "one signing context produced identical signatures for the same message (a pre-computed nonce was used twice): " + out[:200],
                              {"kind": "failing-input", "op": c["line"], "impl": out}, True)
            else:
                ctx.cell("sstream:nonce-fresh-per-signature:ok")


def run(ctx):
    ctx.check_proofs()
    rc, out = core.coq_make(["Ec/Sm2Eval.vo"])
    if rc != 0:
        ctx.violation("correspondence:model-build", "Coq model does not build: " + out[-600:], {"kind": "correspondence", "log": out[-3000:]}, False)
        return finish(ctx)
    variants = ["asan"] if ctx.tier == "quick" else ["asan", "small"]
    for v in variants:
        exe, log = core.build_harness("C01", v)
        if exe is None:
            core.harness_build_failed(ctx, log)
            continue
        g = Gen(ctx)
        g.gen_sign(); g.gen_verify(); g.gen_verifyder(); g.gen_z(); g.gen_fastsign(); g.gen_stream(); g.gen_keys()
        first = [c for c in g.cases if c]
        if v != "asan":
            for c in first: c["expr"] = None; c["spec"] = None   # model already compared; impl variants must give the same lines
        impl, model = ecdiff.run(ctx, "C01", first, exe, variant=v, model_shards=JOBS, tag="p1")
        nonce_reuse_check(ctx, first, impl)
        second = phase2(g, first, impl)
        if v != "asan":
            for c in second: c["expr"] = None
        ecdiff.run(ctx, "C01", second, exe, variant=v, model_shards=JOBS, tag="p2")
    return finish(ctx)


def replay(path):
    return ecdiff.replay("C01", path)


def finish(ctx):
    ctx.assumptions = [
        "Spec = GB/T 32918.2 equations over Z and the affine chord-tangent law of Ec/CurveSpec.v (pinned by the standard's key pair, [n]G = O and the GB/T 32918.2 Annex A signature, all by vm_compute)",
        "the limb/Montgomery/Jacobian layer of sm2_z256.c is abstracted to its mathematical meaning in the Impl model (that layer is property C13); modular inverse = extended Euclid (C uses a^(n-2))",
        "completeness (sign then verify) is proved under explicit premises: multiples of G form a cyclic group of order n under the affine law; (1+d)^-1 computed by egcd is an inverse",
        "'rejects every modified message/ID/key' beyond the decision rule is cryptographic (collision / forgery resistance); the run flips sampled bits (test)",
        "ASM variants (ENABLE_SM2_AMD64 / ARM64) are not built in the quick tier",
    ]
    return ctx.finish(level="proof",
                      rule="cases = boundary families (d in {1,2,n-2}, k in {1,2,n-1,n-71,n-70,n-69}, e in {0,n-1,n,2^256-1}, every retry branch of sm2_do_sign, rand_range's 100 tries, forged (r,s) grid {0,1,n-1,n,n+1,2^256-1}^2, r+s=n, x(R)>=n, boundary r/s made valid by solving for the digest, DER mutations and bit flips, ID/idlen families, 1/2/3/33/34 signatures per context) + random cases; every signature returned by a signing interface is fed to the verification interfaces; a cell = (op, family, boundary class, ok|ERR); distinct_nontrivial = cells on which impl and model agreed",
                      trusted=core.TRUSTED_COMMON + [
                          "Coq files: Ec/Num.v CurveSpec.v Sm2Der.v SM2Sign.v (models), Sm2DerProofs.v SM2SignProofs.v (proofs), Props/Properties_C01.v, Ec/Sm2Eval.v + Base/HexStr.v (string-level wrappers, evaluated by vm_compute over Bignums.BigZ: PrimInt63 primitives are used at run time only, no theorem depends on them)",
                          "vlib/sm2py.py (python curve arithmetic) is used only to aim inputs, never to judge",
                      ])
