(* C05 model driver: mirrors props/C05/harness.c on the extracted models.
   nb <scheme> <style> <field> <key> <iv> <aad> <pt> <taglen> <pattern>  ->  <ct> <tag> <verdicts> *)
let hx = hex_of_bytes
let nat = nat_of_int
let ilen l = List.length l
let memo (f : n list -> n list) : n list -> n list =
  let h = Hashtbl.create 256 in
  fun x -> let k = hx x in
    match Hashtbl.find_opt h k with Some y -> y | None -> let y = f x in Hashtbl.add h k y; y
let cache : (string, n list -> n list) Hashtbl.t = Hashtbl.create 16
let cipher tag mk key =
  let k = tag ^ hx key in
  match Hashtbl.find_opt cache k with Some e -> e
  | None -> let e = memo (mk key) in if Hashtbl.length cache > 32 then Hashtbl.reset cache; Hashtbl.add cache k e; e
let sm4e key = cipher "sm4e" sm4_encrypt_block key
let sm4d key = cipher "sm4d" sm4_decrypt_block key
let aese key = cipher "aese" aes_encrypt_block16 key
let take n l = List.filteri (fun i _ -> i < n) l
let drop n l = List.filteri (fun i _ -> i >= n) l

(* cyclic chunking of s starting at pattern offset off *)
let chunk pat off s =
  let a = Array.of_list s and p = Array.of_list pat in
  let n = Array.length a and np = Array.length p in
  let rec go pos i acc =
    if pos >= n then List.rev acc else
    let sz = min p.(i mod np) (n - pos) in
    go (pos + sz) (i + 1) (Array.to_list (Array.sub a pos sz) :: acc) in
  go 0 off []

let flip l i = List.mapi (fun j b -> if j = i / 8 then n_of_int ((int_of_n b) lxor (1 lsl (i mod 8))) else b) l

let handle ws = match ws with
  | ["nb"; scheme; style; field; key; iv; aad; pt; tl; pat] ->
    let key = bytes_of_hex key and iv = bytes_of_hex iv and aad = bytes_of_hex aad and pt = bytes_of_hex pt in
    let tl = int_of_string tl in
    let pat = (match List.filter_map int_of_string_opt (String.split_on_char ',' pat) with [] -> [16] | l -> l) in
    let str = (style = "str") in
    if (scheme = "sm4gcm" || scheme = "sm4ccm") && ilen key <> 16 then "ERR" else
    let k16 = take 16 key and k32 = drop 16 key in
    let hm_ok = ilen key = 48 in
    (* one-shot decrypt -> plaintext option; Fault is reported as an exception string *)
    let exception Faulted in
    let faulted = ref false in
    let dec_one n a c t : n list option =
      let r = (match scheme with
        | "sm4gcm" -> gcm_decrypt (sm4e key) true n a c t
        | "aesgcm" -> gcm_decrypt (aese key) false n a c t
        | _ -> ccm_decrypt (sm4e key) n a c t) in
      (match r with Ok p -> Some p | Err -> None | Fault -> raise Faulted) in
    let dec_str n a s off : n list option =
      let chunks = chunk pat off s in
      let r = (match scheme with
        | "sm4gcm" -> gcm_decrypt_stream (sm4e k16) (nat (ilen key)) n a (nat tl) chunks
        | "cbchmac" -> if not hm_ok || ilen n <> 16 then Err else cbch_decrypt sm3_hmac_init sm3_hmac_update sm3_hmac_finish (sm4d k16) k32 n a chunks
        | _ -> if not hm_ok || ilen n <> 16 then Err else ctrh_decrypt sm3_hmac_init sm3_hmac_update sm3_hmac_finish (sm4e k16) k32 n a chunks) in
      (match r with Ok p -> Some p | Err -> None | Fault -> raise Faulted) in
    let dec_whole n a s : n list option =
      let chunks = if s = [] then [] else [s] in
      let r = (match scheme with
        | "sm4gcm" -> gcm_decrypt_stream (sm4e k16) (nat (ilen key)) n a (nat tl) chunks
        | "cbchmac" -> if not hm_ok || ilen n <> 16 then Err else cbch_decrypt sm3_hmac_init sm3_hmac_update sm3_hmac_finish (sm4d k16) k32 n a chunks
        | _ -> if not hm_ok || ilen n <> 16 then Err else ctrh_decrypt sm3_hmac_init sm3_hmac_update sm3_hmac_finish (sm4e k16) k32 n a chunks) in
      (match r with Ok p -> Some p | Err -> None | Fault -> raise Faulted) in
    (* encrypt *)
    let enc : (n list * n list) option =
      if not str then
        (match (match scheme with
          | "sm4gcm" -> gcm_encrypt (sm4e key) true iv aad pt (nat tl)
          | "aesgcm" -> if List.mem (ilen key) [16; 24; 32] then gcm_encrypt (aese key) false iv aad pt (nat tl) else Err
          | _ -> ccm_encrypt (sm4e key) iv aad pt (nat tl)) with
         | Ok (c, t) -> Some (c, t) | _ -> None)
      else begin
        let chunks = chunk pat 0 pt in
        match scheme with
        | "sm4gcm" -> (match gcm_encrypt_stream (sm4e k16) (nat (ilen key)) iv aad (nat tl) chunks with
                       | Ok s -> Some (take (ilen s - tl) s, drop (ilen s - tl) s) | _ -> None)
        | "cbchmac" -> if not hm_ok || ilen iv <> 16 then None else
            let s = cbch_encrypt sm3_hmac_init sm3_hmac_update sm3_hmac_finish (sm4e k16) k32 iv aad chunks in
            Some (take (ilen s - 32) s, drop (ilen s - 32) s)
        | _ -> if not hm_ok || ilen iv <> 16 then None else
            let s = ctrh_encrypt sm3_hmac_init sm3_hmac_update sm3_hmac_finish (sm4e k16) k32 iv aad chunks in
            Some (take (ilen s - 32) s, drop (ilen s - 32) s)
      end in
    (match enc with None -> "ERR" | Some (ct, tag) ->
      let tl = ilen tag in
      let st = ct @ tag in
      let ctn = ilen ct in
      let v want r = (match r with None -> '0' | Some p -> if want then (if p = pt then 'K' else 'P') else '1') in
      let verdict n a s off want =
        if str then v want (dec_str n a s off) else v want (dec_one n a (take (ilen s - tl) s) (drop (ilen s - tl) s)) in
      let b = Buffer.create 1024 in
      (try
        (match field with
         | "ok" ->
           Buffer.add_char b (verdict iv aad st 0 true);
           if not str then Buffer.add_char b (verdict iv aad st 0 true);   (* the same call with out == in *)
           if str then begin
             for i = 1 to 3 do Buffer.add_char b (v true (dec_str iv aad st i)) done;
             Buffer.add_char b (v true (dec_whole iv aad st))
           end
         | "nonce" | "aad" | "ct" | "tag" ->
           let len = (match field with "nonce" -> ilen iv | "aad" -> ilen aad | "ct" -> ctn | _ -> tl) in
           if len = 0 then Buffer.add_char b '-';
           for i = 0 to 8 * len - 1 do
             let n2 = if field = "nonce" then flip iv i else iv and a2 = if field = "aad" then flip aad i else aad in
             let s2 = if field = "ct" then flip st i else if field = "tag" then flip st (8 * ctn + i) else st in
             Buffer.add_char b (verdict n2 a2 s2 i false)
           done
         | "trunc" ->
           if str then begin
             if ilen st = 0 then Buffer.add_char b '-';
             for i = 1 to ilen st do Buffer.add_char b (v false (dec_str iv aad (take (ilen st - i) st) i)) done end
           else begin
             if ctn = 0 then Buffer.add_char b '-';
             for i = 1 to ctn do Buffer.add_char b (v false (dec_one iv aad (take (ctn - i) ct) tag)) done end
         | "ext" ->
           List.iteri (fun i e ->
             if str then Buffer.add_char b (v false (dec_str iv aad (st @ [n_of_int e]) i))
             else Buffer.add_char b (v false (dec_one iv aad (ct @ [n_of_int e]) tag))) [0x00; 0x01; 0xff; 0x5a]
         | _ -> Buffer.add_string b "ERR bad-field");
        hx ct ^ " " ^ hx tag ^ " " ^ Buffer.contents b ^ (if !faulted then " ## FAULT" else "")
      with Faulted -> hx ct ^ " " ^ hx tag ^ " " ^ Buffer.contents b ^ " ## FAULT"))
  | ["pad"; key; iv; aad; ptb; pat; _expect] ->
    (* chosen plaintext blocks (padding crafted by the generator), CBC without padding, then the MAC *)
    let key = bytes_of_hex key and iv = bytes_of_hex iv and aad = bytes_of_hex aad and ptb = bytes_of_hex ptb in
    let pat = (match List.filter_map int_of_string_opt (String.split_on_char ',' pat) with [] -> [16] | l -> l) in
    if ilen key <> 48 || ilen iv <> 16 || ilen ptb mod 16 <> 0 then "ERR" else
    let k16 = take 16 key and k32 = drop 16 key in
    let (_, ct) = cbc_enc_blocks (sm4e k16) (nat (ilen ptb / 16)) iv ptb in
    let mac = sm3_hmac_spec k32 (aad @ ct) in
    let st = ct @ mac in
    let v = (match cbch_decrypt sm3_hmac_init sm3_hmac_update sm3_hmac_finish (sm4d k16) k32 iv aad (chunk pat 0 st) with
             | Ok _ -> "1" | _ -> "0") in
    hx ct ^ " " ^ hx mac ^ " " ^ v
  | ["blk"; alg; key; b] ->
    (* generator helper: one block encryption by the model (to craft IVs) *)
    let key = bytes_of_hex key and b = bytes_of_hex b in
    if alg = "sm4" then hx (sm4_encrypt_block key b) else hx (aes_encrypt_block16 key b)
  | _ -> "ERR bad-op"

let () = main_loop handle
