"""C05 — authenticated decryption (SM4-GCM, AES-GCM, SM4-CCM, SM4-CBC+SM3-HMAC, SM4-CTR+SM3-HMAC; one-shot and
streaming) accepts the untouched output of the matching encryption and rejects every single-bit change of
nonce / AAD / ciphertext / tag, every truncation and every one-byte extension."""
from vlib import core, devdiff, gcmpy
from vlib.core import hexs

FIELDS = ["ok", "nonce", "aad", "ct", "tag", "trunc", "ext"]


def pattern(r):
    k = r.range(1, 5)
    p = [r.choice([0, 1, 2, 3, 5, 11, 12, 13, 15, 16, 17, 31, 32, 33, 40, 70]) for _ in range(k)]
    if not any(p):
        p[0] = 7
    return ",".join(str(x) for x in p)


def gen(ctx, model=None):
    r = ctx.rng
    thorough = ctx.tier == "thorough"
    ns = 40 if not thorough else 120      # the extracted N-based model costs ~5 ms per decrypt
    maxlen = 64 if not thorough else 256
    cases = []
    add = lambda line, cell: cases.append((line, cell))
    PT = [0, 1, 2, 15, 16, 17, 31, 32, 33, 48, 64]

    def ptlen(i):
        if thorough and i % 7 == 0:
            return r.below(maxlen + 1)
        return PT[i % len(PT)] if i < 2 * len(PT) else r.below(41)

    LIGHT = ["ok", "tag", "trunc", "ext"]
    state = {"i": 0}

    def sample(scheme, style, key, iv, aad, pt, tl, cls, fields=None, cellfor=None):
        # quick tier: complete neighbourhood of all four fields for every third sample, the
        # assumption-free fields (tag, truncation, extension) for all
        if fields is None:
            fields = FIELDS if (thorough or state["i"] % 3 == 0) else LIGHT
        pat = pattern(r) if style == "str" else "-"
        for f in fields:
            cell = cellfor(f) if cellfor else None
            add("nb %s %s %s %s %s %s %s %d %s" % (scheme, style, f, key.hex(), iv.hex(), hexs(aad), hexs(pt), tl, pat),
                cell or "%s:%s:%s:%s" % (scheme, style, f, cls))

    for i in range(ns):
        state["i"] = i
        # --- SM4-GCM one-shot and streaming
        for style in ("one", "str"):
            ivl = 12 if i % 3 else r.choice([1, 8, 11, 13, 16, 17, 64])
            tl = 12 + i % 5
            sample("sm4gcm", style, r.bytes(16), r.bytes(ivl), r.bytes(r.choice([0, 1, 16, 20])), r.bytes(ptlen(i)), tl,
                   "iv%s:tag%d" % ("12" if ivl == 12 else "x", tl))
        # --- AES-GCM one-shot
        ivl = 12 if i % 3 else r.choice([1, 8, 13, 16, 60])
        tl = 12 + (i + 2) % 5
        sample("aesgcm", "one", r.bytes([16, 24, 32][i % 3]), r.bytes(ivl), r.bytes(r.choice([0, 3, 16, 33])), r.bytes(ptlen(i + 3)), tl,
               "k%d:iv%s:tag%d" % ([16, 24, 32][i % 3], "12" if ivl == 12 else "x", tl))
        # --- SM4-CCM one-shot
        nl = [7, 12, 13, 8, 11, 10, 9][i % 7]
        tl = 4 + 2 * (i % 7)
        sample("sm4ccm", "one", r.bytes(16), r.bytes(nl), r.bytes(r.choice([0, 1, 14, 16, 30, 40])), r.bytes(ptlen(i + 5)), tl,
               "n%d:tag%d" % (nl, tl))
        # --- HMAC modes (streaming API only); the IV is not covered by the MAC: its flips form one cell each
        for scheme in ("cbchmac", "ctrhmac"):
            if i % 2 == 0 or thorough:
                sample(scheme, "str", r.bytes(48), r.bytes(16), r.bytes(r.choice([0, 5, 64])), r.bytes(PT[(i // 2 + 3) % len(PT)]), 32, "len%s" % ("blk" if PT[(i // 2 + 3) % len(PT)] % 16 == 0 else "part"),
                       cellfor=lambda f, s=scheme: ("%s:nonce-not-authenticated" % s) if f == "nonce" else None)
    # counter wrap: 16-byte IVs solved for so that J0 ends in ff ff ff ff / fe (inc32 must not carry into byte 11)
    if model is not None:
        hk = [("sm4", r.bytes(16)), ("aes", r.bytes(16)), ("aes", r.bytes(32))]
        houts, _ = core.run_lines(model, ["blk %s %s %s" % (a, k.hex(), "00" * 16) for a, k in hk])
        for (alg, key), ho in zip(hk, houts):
            if len(ho) != 32 or int(ho, 16) == 0:
                continue
            for last in (0xffffffff, 0xfffffffe):
                j0 = (int.from_bytes(r.bytes(12), "big") << 32) | last
                ivx = bytes.fromhex("%032x" % gcmpy.iv16_for_j0(int(ho, 16), j0))
                for style in (("one", "str") if alg == "sm4" else ("one",)):
                    sample(alg + "gcm", style, key, ivx, r.bytes(5), r.bytes(50), 16, "", fields=["ok", "tag"],
                           cellfor=lambda f, a=alg, st=style: "%sgcm:%s:%s:ctr32-wrap" % (a, st, f))
    # SM4-CBC+SM3-HMAC padding: MAC-valid streams whose CBC plaintext ends in a chosen last block.
    # strict PKCS#7 (sm4_cbc_padding_decrypt since 75d04f0): a correct last byte with a wrong interior
    # padding byte must be rejected; well-formed padding must be accepted
    for i in range(24 if not thorough else 200):
        nb = r.range(1, 3)
        body = bytearray(r.bytes(16 * nb))
        padlen = r.range(2, 16)
        for j in range(padlen):
            body[-1 - j] = padlen
        good = i % 4 == 3
        if not good:
            pos = r.range(2, padlen)            # an interior padding byte (never the last one)
            body[-pos] = padlen ^ (1 + r.below(255))
        add("pad %s %s %s %s %s %d" % (r.bytes(48).hex(), r.bytes(16).hex(), hexs(r.bytes(r.choice([0, 5]))), bytes(body).hex(), pattern(r), 1 if good else 0),
            "cbchmac:padding:%s" % ("wellformed" if good else "interior-byte-wrong"))
    for lastbyte in (0, 17, 255):               # padding length out of range
        body = bytearray(r.bytes(16)); body[-1] = lastbyte
        add("pad %s %s - %s 7,40 0" % (r.bytes(48).hex(), r.bytes(16).hex(), bytes(body).hex()), "cbchmac:padding:length-out-of-range")
    # malformed op lines / unusable parameters: both sides must refuse
    add("nb sm4gcm one ok 00 %s - 00 16 -" % ("00" * 12), "sm4gcm:bad-key")
    add("nb sm4gcm one ok %s - - 00 16 -" % ("00" * 16), "sm4gcm:iv0")
    add("nb sm4gcm str ok %s %s - 00 11 4" % ("00" * 16, "00" * 12), "sm4gcm:str:tag11")
    add("nb sm4ccm one ok %s %s - 00 5 -" % ("00" * 16, "00" * 12), "sm4ccm:tag-odd")
    add("nb cbchmac str ok %s %s - 00 32 4" % ("00" * 47, "00" * 16), "cbchmac:bad-key")
    return cases


def oracle(line, impl_out, spec_out):
    """property oracle: the untouched ciphertext must decrypt to the message; every modification must be rejected"""
    if impl_out.startswith("ERR") or impl_out.startswith("FAULT"):
        return None
    if line.startswith("pad "):
        want, v = line.split(" ")[-1], impl_out.split(" ")[-1]
        if v == want:
            return None
        return "property violated: stream with %s CBC padding %s" % ("well-formed" if want == "1" else "malformed", "REJECTED" if v == "0" else "ACCEPTED")
    field = line.split(" ")[3]
    v = impl_out.split(" ")[-1]
    if field == "ok":
        return None if set(v) <= {"K"} else "property violated: decryption of the untouched ciphertext gives %s (verdicts %s)" % ("a wrong plaintext" if "P" in v else "failure", v)
    if v == "-" or set(v) <= {"0"}:
        return None
    idx = [i for i, ch in enumerate(v) if ch != "0"]
    return "property violated: %d of %d modifications of `%s` ACCEPTED (first at index %d)" % (len(idx), len(v), field, idx[0])


def run(ctx):
    ctx.check_proofs()
    model, log = core.build_model("C05")
    if model is None:
        ctx.violation("correspondence:model-build", "extracted model does not build: " + log[-500:], {"kind": "correspondence", "log": log[-3000:]}, False)
        return finish(ctx)
    cases = gen(ctx, model)
    for v in ["asan"]:
        exe, log = core.build_harness("C05", v)
        if exe is None:
            core.harness_build_failed(ctx, log)
            continue
        devdiff.differential(ctx, cases, exe, model, variant=v, oracle=oracle, shards=16)
    return finish(ctx)


def finish(ctx):
    ctx.assumptions = [
        "decision rule (accept <=> recomputed tag equals the presented one on exactly taglen bytes; streaming window = last taglen bytes for every chunking) is proved with no assumption",
        "rejection of ciphertext/AAD/nonce changes is proved only under named premises (GHASH: multiplication by H has trivial kernel and taglen = 16; CCM: E injective, one MAC block changed, taglen = 16; HMAC: no collision between the two MAC inputs) -- see the *_partial theorems",
        "the complete single-bit neighbourhoods enumerated on the implementation are a test (sampled keys/messages), reported as such",
    ]
    return ctx.finish(level="proof",
                      rule="per sample (key, nonce, aad, msg <= 64 B): library encrypts, then the library decryptor runs over ALL single-bit flips of nonce, AAD, ciphertext, tag, all truncations and 4 one-byte extensions, one-shot (also in place, out == in, for the untouched ciphertext) and streaming (random cyclic chunk pattern, rotated per modification); one op line per (sample, field) carrying one verdict per modification; compared with the extracted model's verdicts and with the property oracle (untouched accepted with the right plaintext; everything else rejected); a cell = (scheme, style, field, parameter class)",
                      trusted=core.TRUSTED_COMMON + ["vlib/devdiff.py", "Coq files: Cipher/GCM.v CCM.v Aead.v GF128.v (models), AeadProofs.v GCMProofs.v GF128Proofs.v, Props/Properties_C05.v"])
