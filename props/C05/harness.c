/* C05 correspondence harness: for one (key, nonce, aad, message) encrypt with the library, then run the
 * library's decryptor over a complete neighbourhood of the result and print one verdict character per
 * modification ('1' accepted, '0' rejected).
 *   nb <scheme> <style> <field> <key> <iv> <aad> <pt> <taglen> <pattern>
 *   scheme : sm4gcm | aesgcm | sm4ccm | cbchmac | ctrhmac      style : one | str
 *   field  : ok | nonce | aad | ct | tag | trunc | ext
 *   pattern: chunk sizes used cyclically by the streaming style, e.g. 3,0,17,1  ("-" for one-shot)
 * Output: <ct> <tag> <verdicts>   (HMAC modes: tag = last 32 bytes of the stream)                     */
#include "common.h"
#include <gmssl/sm4.h>
#include <gmssl/aes.h>
#include <gmssl/sm4_cbc_sm3_hmac.h>
#include <gmssl/sm4_ctr_sm3_hmac.h>
#include <gmssl/sm3.h>

enum { SM4GCM, AESGCM, SM4CCM, CBCHMAC, CTRHMAC };
static int scheme, stream_style;
static buf_t key, iv, aad, pt;
static size_t taglen;
static size_t pat[64], npat;

static uint8_t *dupx(const uint8_t *p, size_t n) { uint8_t *q = malloc(n ? n : 1); if (n) memcpy(q, p, n); return q; }

/* ---- one-shot ---- */
static int enc_one(uint8_t *ct, uint8_t *tag) {
	if (scheme == SM4GCM) { SM4_KEY k; sm4_set_encrypt_key(&k, key.p); return sm4_gcm_encrypt(&k, iv.p, iv.n, aad.p, aad.n, pt.p, pt.n, ct, taglen, tag); }
	if (scheme == AESGCM) { AES_KEY k; if (aes_set_encrypt_key(&k, key.p, key.n) != 1) return -1; return aes_gcm_encrypt(&k, iv.p, iv.n, aad.p, aad.n, pt.p, pt.n, ct, taglen, tag); }
#ifdef ENABLE_SM4_CCM
	if (scheme == SM4CCM) { SM4_KEY k; sm4_set_encrypt_key(&k, key.p); return sm4_ccm_encrypt(&k, iv.p, iv.n, aad.n ? aad.p : NULL, aad.n, pt.p, pt.n, ct, taglen, tag); }
#endif
	return -1;
}
/* all inputs exactly sized copies; returns 1 and the plaintext in *out (exactly cn bytes) */
static int dec_one(const uint8_t *n_, size_t nn, const uint8_t *a_, size_t an, const uint8_t *c_, size_t cn, const uint8_t *t_, size_t tn, uint8_t **out) {
	uint8_t *n = dupx(n_, nn), *a = dupx(a_, an), *c = dupx(c_, cn), *t = dupx(t_, tn); int r = -1;
	*out = malloc(cn ? cn : 1);
	if (scheme == SM4GCM) { SM4_KEY k; sm4_set_encrypt_key(&k, key.p); r = sm4_gcm_decrypt(&k, n, nn, a, an, c, cn, t, tn, *out); }
	else if (scheme == AESGCM) { AES_KEY k; if (aes_set_encrypt_key(&k, key.p, key.n) == 1) r = aes_gcm_decrypt(&k, n, nn, a, an, c, cn, t, tn, *out); }
#ifdef ENABLE_SM4_CCM
	else if (scheme == SM4CCM) { SM4_KEY k; sm4_set_encrypt_key(&k, key.p); r = sm4_ccm_decrypt(&k, n, nn, an ? a : NULL, an, c, cn, t, tn, *out); }
#endif
	free(n); free(a); free(c); free(t);
	return r;
}

/* ---- streaming ---- */
typedef union { SM4_GCM_CTX g; SM4_CBC_SM3_HMAC_CTX c; SM4_CTR_SM3_HMAC_CTX t; } CTX;
static int s_init(CTX *x, int dec, const uint8_t *n, size_t nn, const uint8_t *a, size_t an) {
	if (scheme == SM4GCM) return (dec ? sm4_gcm_decrypt_init : sm4_gcm_encrypt_init)(&x->g, key.p, key.n, n, nn, a, an, taglen);
	if (key.n != 48 || nn != 16) return -1;
	if (scheme == CBCHMAC) return (dec ? sm4_cbc_sm3_hmac_decrypt_init : sm4_cbc_sm3_hmac_encrypt_init)(&x->c, key.p, n, an ? a : NULL, an);
	return (dec ? sm4_ctr_sm3_hmac_decrypt_init : sm4_ctr_sm3_hmac_encrypt_init)(&x->t, key.p, n, an ? a : NULL, an);
}
static int s_update(CTX *x, int dec, const uint8_t *in, size_t n, uint8_t *out, size_t *ol) {
	if (scheme == SM4GCM) return (dec ? sm4_gcm_decrypt_update : sm4_gcm_encrypt_update)(&x->g, in, n, out, ol);
	if (scheme == CBCHMAC) return (dec ? sm4_cbc_sm3_hmac_decrypt_update : sm4_cbc_sm3_hmac_encrypt_update)(&x->c, in, n, out, ol);
	return (dec ? sm4_ctr_sm3_hmac_decrypt_update : sm4_ctr_sm3_hmac_encrypt_update)(&x->t, in, n, out, ol);
}
static int s_finish(CTX *x, int dec, uint8_t *out, size_t *ol) {
	if (scheme == SM4GCM) return (dec ? sm4_gcm_decrypt_finish : sm4_gcm_encrypt_finish)(&x->g, out, ol);
	if (scheme == CBCHMAC) return (dec ? sm4_cbc_sm3_hmac_decrypt_finish : sm4_cbc_sm3_hmac_encrypt_finish)(&x->c, out, ol);
	return (dec ? sm4_ctr_sm3_hmac_decrypt_finish : sm4_ctr_sm3_hmac_encrypt_finish)(&x->t, out, ol);
}
/* feed s[0..sn) in the cyclic chunking starting at pattern offset off; output collected in *out */
static int s_run(int dec, const uint8_t *n_, size_t nn, const uint8_t *a_, size_t an, const uint8_t *s, size_t sn, size_t off, uint8_t **out, size_t *outn) {
	CTX *x = malloc(sizeof(CTX)); uint8_t *n = dupx(n_, nn), *a = dupx(a_, an); size_t pos = 0, i = off, tot = 0; int r;
	*out = malloc(sn + 96); *outn = 0;
	r = s_init(x, dec, n, nn, a, an);
	while (r == 1 && pos < sn) {
		size_t sz = pat[i++ % npat], ol = 0; uint8_t *in, *o;
		if (sz > sn - pos) sz = sn - pos;
		/* 16 bytes of slack behind the chunk: sm4_gcm_decrypt_update copies GHASH_SIZE bytes where taglen remain
		 * (over-read for tags < 16, reported by C04b/C06); C05 is about the verdict only */
		in = malloc(sz + 16); if (sz) memcpy(in, s + pos, sz); o = malloc(sz + 48);
		r = s_update(x, dec, in, sz, o, &ol);      /* ol preset to 0: see C04b for the untouched-*outlen finding */
		if (r == 1) { memcpy(*out + tot, o, ol); tot += ol; }
		free(in); free(o); pos += sz;
	}
	if (r == 1) { size_t ol = 0; uint8_t *o = malloc(96); r = s_finish(x, dec, o, &ol); if (r == 1) { memcpy(*out + tot, o, ol); tot += ol; }
		/* a rejected finish must stay rejected: call finish again on the same context */
		else if (dec) { ol = 0; if (s_finish(x, dec, o, &ol) == 1) r = 2; }
		free(o); }
	*outn = tot; free(x); free(n); free(a);
	return r;
}

/* one-shot decryption in place: the ciphertext buffer is also the output buffer */
static char verdict_one_inplace(void) {
	uint8_t *n = dupx(iv.p, iv.n), *a = dupx(aad.p, aad.n), *t, *buf; int r = -1; char v = '0';
	extern uint8_t *g_ct, *g_tag; extern size_t g_ctn;
	buf = dupx(g_ct, g_ctn); t = dupx(g_tag, taglen);
	if (scheme == SM4GCM) { SM4_KEY k; sm4_set_encrypt_key(&k, key.p); r = sm4_gcm_decrypt(&k, n, iv.n, a, aad.n, buf, g_ctn, t, taglen, buf); }
	else if (scheme == AESGCM) { AES_KEY k; if (aes_set_encrypt_key(&k, key.p, key.n) == 1) r = aes_gcm_decrypt(&k, n, iv.n, a, aad.n, buf, g_ctn, t, taglen, buf); }
#ifdef ENABLE_SM4_CCM
	else if (scheme == SM4CCM) { SM4_KEY k; sm4_set_encrypt_key(&k, key.p); r = sm4_ccm_decrypt(&k, n, iv.n, aad.n ? a : NULL, aad.n, buf, g_ctn, t, taglen, buf); }
#endif
	if (r == 1) v = (g_ctn == pt.n && memcmp(buf, pt.p, pt.n) == 0) ? 'K' : 'P';
	free(n); free(a); free(t); free(buf); return v;
}
uint8_t *g_ct, *g_tag; size_t g_ctn;

static char verdict_one(const uint8_t *n, size_t nn, const uint8_t *a, size_t an, const uint8_t *c, size_t cn, const uint8_t *t, size_t tn, int want_pt) {
	uint8_t *o; int r = dec_one(n, nn, a, an, c, cn, t, tn, &o); char v = '0';
	if (r == 1) v = want_pt ? ((cn == pt.n && memcmp(o, pt.p, pt.n) == 0) ? 'K' : 'P') : '1';
	free(o); return v;
}
static char verdict_str(const uint8_t *n, size_t nn, const uint8_t *a, size_t an, const uint8_t *s, size_t sn, size_t off, int want_pt) {
	uint8_t *o; size_t on; int r = s_run(1, n, nn, a, an, s, sn, off, &o, &on); char v = '0';
	if (r == 2) v = '2';      /* finish failed, a second finish on the same context succeeded */
	if (r == 1) v = want_pt ? ((on == pt.n && memcmp(o, pt.p, pt.n) == 0) ? 'K' : 'P') : '1';
	free(o); return v;
}

/* pad <key48> <iv> <aad> <plaintext blocks> <pattern> <expect>: CBC-encrypt the chosen blocks WITHOUT
 * adding padding (the generator crafted the last block), MAC aad || ct, then run the streaming decryptor */
static void do_pad(char **w) {
	char *save = NULL, *t; SM4_KEY k; SM3_HMAC_CTX h; uint8_t ivc[16], *ct, mac[32], *stm, *o; size_t on; int r;
	key = hex2buf(w[1]); iv = hex2buf(w[2]); aad = hex2buf(w[3]); pt = hex2buf(w[4]);
	npat = 0; for (t = strtok_r(w[5], ",", &save); t && npat < 64; t = strtok_r(NULL, ",", &save)) pat[npat++] = (size_t)atol(t);
	if (npat == 0) pat[npat++] = 16;
	if (key.n != 48 || iv.n != 16 || pt.n % 16) { printf("ERR"); goto end; }
	scheme = CBCHMAC; stream_style = 1; taglen = 32;
	sm4_set_encrypt_key(&k, key.p); memcpy(ivc, iv.p, 16);
	ct = malloc(pt.n ? pt.n : 1); sm4_cbc_encrypt_blocks(&k, ivc, pt.p, pt.n / 16, ct);
	sm3_hmac_init(&h, key.p + 16, 32); if (aad.n) sm3_hmac_update(&h, aad.p, aad.n);
	if (pt.n) sm3_hmac_update(&h, ct, pt.n);
	sm3_hmac_finish(&h, mac);
	stm = malloc(pt.n + 32); memcpy(stm, ct, pt.n); memcpy(stm + pt.n, mac, 32);
	r = s_run(1, iv.p, iv.n, aad.p, aad.n, stm, pt.n + 32, 0, &o, &on);
	puthex(ct, pt.n); putchar(' '); puthex(mac, 32); printf(" %c", r == 1 ? '1' : '0');
	free(ct); free(stm); free(o);
end:
	free(key.p); free(iv.p); free(aad.p); free(pt.p);
}

static void handle(size_t nw, char **w) {
	const char *field; uint8_t *ct = NULL, *tag = NULL, *st = NULL; size_t ctn = 0, stn = 0, i, nbits; char *save = NULL, *t;
	if (nw == 7 && !strcmp(w[0], "pad")) { do_pad(w); return; }
	if (nw != 10 || strcmp(w[0], "nb")) { printf("ERR bad-op"); return; }
	scheme = !strcmp(w[1], "sm4gcm") ? SM4GCM : !strcmp(w[1], "aesgcm") ? AESGCM : !strcmp(w[1], "sm4ccm") ? SM4CCM : !strcmp(w[1], "cbchmac") ? CBCHMAC : CTRHMAC;
	stream_style = !strcmp(w[2], "str"); field = w[3];
	key = hex2buf(w[4]); iv = hex2buf(w[5]); aad = hex2buf(w[6]); pt = hex2buf(w[7]); taglen = (size_t)atol(w[8]);
	npat = 0; for (t = strtok_r(w[9], ",", &save); t && npat < 64; t = strtok_r(NULL, ",", &save)) pat[npat++] = (size_t)atol(t);
	if (npat == 0) pat[npat++] = 16;
	if ((scheme == SM4GCM || scheme == SM4CCM) && key.n != 16) { printf("ERR"); goto end; }
	if (!stream_style) {
		ct = malloc(pt.n ? pt.n : 1); tag = malloc(taglen ? taglen : 1); ctn = pt.n;
		if (enc_one(ct, tag) != 1) { printf("ERR"); goto end; }
		st = malloc(ctn + taglen + 1); memcpy(st, ct, ctn); memcpy(st + ctn, tag, taglen); stn = ctn + taglen;
	} else {
		if (s_run(0, iv.p, iv.n, aad.p, aad.n, pt.p, pt.n, 0, &st, &stn) != 1) { printf("ERR"); goto end; }
		if (scheme != SM4GCM) taglen = 32;
		if (stn < taglen) { printf("ERR short"); goto end; }
		ctn = stn - taglen; ct = dupx(st, ctn); tag = dupx(st + ctn, taglen);
	}
	puthex(ct, ctn); putchar(' '); puthex(tag, taglen); putchar(' ');
#define V1(n_, nn_, a_, an_, c_, cn_, t_, tn_, s_, sn_, off_, want) \
	putchar(stream_style ? verdict_str(n_, nn_, a_, an_, s_, sn_, off_, want) : verdict_one(n_, nn_, a_, an_, c_, cn_, t_, tn_, want))
	if (!strcmp(field, "ok")) {
		V1(iv.p, iv.n, aad.p, aad.n, ct, ctn, tag, taglen, st, stn, 0, 1);
		if (!stream_style) { g_ct = ct; g_tag = tag; g_ctn = ctn; putchar(verdict_one_inplace()); }
		if (stream_style) {   /* further chunkings of the untouched stream: rotated pattern, then one single chunk */
			for (i = 1; i < 4; i++) putchar(verdict_str(iv.p, iv.n, aad.p, aad.n, st, stn, i, 1));
			npat = 1; pat[0] = stn ? stn : 1;
			putchar(verdict_str(iv.p, iv.n, aad.p, aad.n, st, stn, 0, 1));
		}
		goto end;
	}
	if (!strcmp(field, "nonce") || !strcmp(field, "aad") || !strcmp(field, "ct") || !strcmp(field, "tag")) {
		int f = field[0]; /* n a c t */
		size_t len = f == 'n' ? iv.n : f == 'a' ? aad.n : f == 'c' ? ctn : taglen;
		nbits = 8 * len;
		if (!nbits) putchar('-');
		for (i = 0; i < nbits; i++) {
			uint8_t *n2 = dupx(iv.p, iv.n), *a2 = dupx(aad.p, aad.n), *s2 = dupx(st, stn); uint8_t m = (uint8_t)(1u << (i % 8));
			if (f == 'n') n2[i / 8] ^= m; else if (f == 'a') a2[i / 8] ^= m; else if (f == 'c') s2[i / 8] ^= m; else s2[ctn + i / 8] ^= m;
			V1(n2, iv.n, a2, aad.n, s2, ctn, s2 + ctn, taglen, s2, stn, i, 0);
			free(n2); free(a2); free(s2);
		}
		goto end;
	}
	if (!strcmp(field, "trunc")) {
		if (stream_style) { if (!stn) putchar('-'); for (i = 1; i <= stn; i++) putchar(verdict_str(iv.p, iv.n, aad.p, aad.n, st, stn - i, i, 0)); }
		else { if (!ctn) putchar('-'); for (i = 1; i <= ctn; i++) putchar(verdict_one(iv.p, iv.n, aad.p, aad.n, ct, ctn - i, tag, taglen, 0)); }
		goto end;
	}
	if (!strcmp(field, "ext")) {
		static const uint8_t ext[4] = { 0x00, 0x01, 0xff, 0x5a };
		for (i = 0; i < 4; i++) {
			if (stream_style) { uint8_t *s2 = malloc(stn + 1); memcpy(s2, st, stn); s2[stn] = ext[i]; putchar(verdict_str(iv.p, iv.n, aad.p, aad.n, s2, stn + 1, i, 0)); free(s2); }
			else { uint8_t *c2 = malloc(ctn + 1); memcpy(c2, ct, ctn); c2[ctn] = ext[i]; putchar(verdict_one(iv.p, iv.n, aad.p, aad.n, c2, ctn + 1, tag, taglen, 0)); free(c2); }
		}
		goto end;
	}
	printf("ERR bad-field");
end:
	free(ct); free(tag); free(st); free(key.p); free(iv.p); free(aad.p); free(pt.p);
}

int main(void) {
	if (!getenv("VERIF_STDERR")) { FILE *f = fopen("/dev/null", "w"); if (f) stderr = f; }
	main_loop(handle); return 0;
}
