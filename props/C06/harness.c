/* C06 fuzz-only harness (test support, NOT proof): the not-yet-modelled decoder / printer surface.
 *   mk <kind>            build a valid object with the library's own issuing API, print it as hex
 *   fz <kind> <hex>      run the decoders / printers / checkers of that kind on the bytes
 * Oracle (in run.py): the process neither aborts (ASan / UBSan report, signal) nor hangs.
 * Inputs live in exactly sized heap blocks whose end is the end of the data; fixed-size outputs
 * get the capacity the library's own callers use. */
#include "common.h"
#include "entropy.h"
#include <gmssl/sm2.h>
#include <gmssl/sm3.h>
#include <gmssl/sm4.h>
#include <gmssl/x509_alg.h>
#include <gmssl/sm9.h>
#include <gmssl/oid.h>
#include <gmssl/asn1.h>
#include <gmssl/x509.h>
#include <gmssl/x509_ext.h>
#include <gmssl/x509_crl.h>
#include <gmssl/x509_req.h>
#include <gmssl/cms.h>
#include <gmssl/pkcs8.h>
#include <gmssl/pem.h>
#include <gmssl/tls.h>
#include <gmssl/error.h>

typedef struct { uint8_t *base, *p; size_t n; } xb;
static xb xalloc(size_t n) { xb b; b.n = n; if (n) { b.base = malloc(n); b.p = b.base; } else { b.base = malloc(1); b.p = b.base + 1; } return b; }
static xb xhex(const char *s) {
	size_t l = strcmp(s, "-") ? strlen(s) / 2 : 0, i; xb b = xalloc(l);
	for (i = 0; i < l; i++) b.p[i] = (uint8_t)(hexval(s[2*i]) * 16 + hexval(s[2*i+1]));
	return b;
}
static void xfree(xb b) { free(b.base); }

static FILE *nul;
static SM2_KEY keys[3];
#define NOW 1700000000

static int mk_name(uint8_t *name, size_t *len, size_t max, const char *cn) {
	*len = 0; return x509_name_set(name, len, max, "CN", "Beijing", "Haidian", "VERIF", "CA", cn);
}
static size_t mk_cert(uint8_t *out, size_t max, int ca, const char *cn, int k, int signer, int nexts) {
	uint8_t subj[256], iss[256], exts[1024], gns[128], serial[12]; size_t sl, il, el = 0, gl = 0, len = 0; uint8_t *p = out;
	memset(serial, 0x21, sizeof serial);
	if (mk_name(subj, &sl, sizeof subj, cn) != 1 || mk_name(iss, &il, sizeof iss, "ROOT") != 1) return 0;
	if (nexts) {
		if (x509_exts_add_basic_constraints(exts, &el, sizeof exts, 1, ca, ca ? 3 : -1) != 1) return 0;
		if (x509_exts_add_key_usage(exts, &el, sizeof exts, 1, ca ? (X509_KU_KEY_CERT_SIGN|X509_KU_CRL_SIGN) : X509_KU_DIGITAL_SIGNATURE) != 1) return 0;
		if (x509_exts_add_subject_key_identifier_ex(exts, &el, sizeof exts, -1, &keys[k]) != 1) return 0;
		if (x509_exts_add_default_authority_key_identifier(exts, &el, sizeof exts, &keys[signer]) != 1) return 0;
		if (x509_general_names_add_dns_name(gns, &gl, sizeof gns, "verif.example") != 1
			|| x509_general_names_add_rfc822_name(gns, &gl, sizeof gns, "a@verif.example") != 1
			|| x509_exts_add_subject_alt_name(exts, &el, sizeof exts, -1, gns, gl) != 1) return 0;
	}
	if (x509_cert_sign_to_der(X509_version_v3, serial, sizeof serial, OID_sm2sign_with_sm3, iss, il, NOW - 1000, NOW + 86400 * 365,
		subj, sl, &keys[k], NULL, 0, NULL, 0, el ? exts : NULL, el, &keys[signer], SM2_DEFAULT_ID, SM2_DEFAULT_ID_LENGTH, NULL, &len) != 1 || len > max) return 0;
	len = 0;
	if (x509_cert_sign_to_der(X509_version_v3, serial, sizeof serial, OID_sm2sign_with_sm3, iss, il, NOW - 1000, NOW + 86400 * 365,
		subj, sl, &keys[k], NULL, 0, NULL, 0, el ? exts : NULL, el, &keys[signer], SM2_DEFAULT_ID, SM2_DEFAULT_ID_LENGTH, &p, &len) != 1) return 0;
	return len;
}

static size_t mk_crl(uint8_t *out) {
	uint8_t iss[256], rev[512], exts[256], serial[8]; size_t il, rl = 0, el = 0, len = 0; uint8_t *rp = rev, *p = out; int i;
	mk_name(iss, &il, sizeof iss, "ROOT"); memset(serial, 0x31, sizeof serial);
	for (i = 0; i < 3; i++) { serial[7] = (uint8_t)i; if (x509_revoked_cert_to_der_ex(serial, sizeof serial, NOW - 100 * i, i == 1 ? X509_cr_key_compromise : -1, i == 2 ? NOW - 5000 : -1, NULL, 0, &rp, &rl) != 1) return 0; }
	if (x509_crl_exts_add_crl_number(exts, &el, sizeof exts, -1, 7) != 1 || x509_crl_exts_add_default_authority_key_identifier(exts, &el, sizeof exts, &keys[0]) != 1) return 0;
	if (x509_crl_sign_to_der(X509_version_v2, OID_sm2sign_with_sm3, iss, il, NOW - 100, NOW + 86400, rev, rl, exts, el, &keys[0], SM2_DEFAULT_ID, SM2_DEFAULT_ID_LENGTH, &p, &len) != 1) return 0;
	return len;
}

static void do_mk(const char *kind) {
	static uint8_t buf[65536], tmp[8192], tmp2[8192]; size_t len = 0, l2 = 0; uint8_t *p = buf;
	if (!strcmp(kind, "cert")) len = mk_cert(buf, sizeof buf, 0, "leaf", 1, 0, 1);
	else if (!strcmp(kind, "cacert")) len = mk_cert(buf, sizeof buf, 1, "ROOT", 0, 0, 1);
	else if (!strcmp(kind, "certnoext")) len = mk_cert(buf, sizeof buf, 0, "plain", 2, 0, 0);
	else if (!strcmp(kind, "crl")) len = mk_crl(buf);
	else if (!strcmp(kind, "req")) {
		uint8_t subj[256]; size_t sl; mk_name(subj, &sl, sizeof subj, "requester");
		if (x509_req_sign_to_der(X509_version_v1, subj, sl, &keys[1], subj, 0, OID_sm2sign_with_sm3, &keys[1], SM2_DEFAULT_ID, SM2_DEFAULT_ID_LENGTH, &p, &len) != 1) len = 0;
	}
	else if (!strncmp(kind, "cms", 3)) {
		static const uint8_t content[] = "the quick brown fox jumps over the lazy dog"; uint8_t key[16], iv[16];
		CMS_CERTS_AND_KEY sg; size_t cl = mk_cert(tmp, sizeof tmp, 0, "leaf", 1, 0, 1); size_t rl = mk_cert(tmp2, sizeof tmp2, 0, "rcpt", 2, 0, 1);
		memset(key, 0x42, 16); memset(iv, 0x24, 16); sg.certs = tmp; sg.certs_len = cl; sg.sign_key = &keys[1];
		if (!cl || !rl) { printf("ERR"); return; }
		if (!strcmp(kind, "cmsdata")) { if (cms_set_data(buf, &len, content, sizeof content) != 1) len = 0; }
		else if (!strcmp(kind, "cmssigned")) { if (cms_sign(buf, &len, &sg, 1, OID_cms_data, content, sizeof content, NULL, 0) != 1) len = 0; }
		else if (!strcmp(kind, "cmsenv")) { if (cms_envelop(buf, &len, tmp2, rl, OID_sm4_cbc, key, 16, iv, 16, OID_cms_data, content, sizeof content, NULL, 0, NULL, 0) != 1) len = 0; }
		else if (!strcmp(kind, "cmsenc")) { if (cms_encrypt(buf, &len, OID_sm4_cbc, key, 16, iv, 16, OID_cms_data, content, sizeof content, NULL, 0, NULL, 0) != 1) len = 0; }
		else if (!strcmp(kind, "cmssignenv")) { static uint8_t crl[2048]; size_t crll = mk_crl(crl);   /* without CRLs the real pass fails (C16 finding) */
			if (!crll || cms_sign_and_envelop(buf, &len, &sg, 1, tmp2, rl, OID_sm4_cbc, key, 16, iv, 16, OID_cms_data, content, sizeof content, crl, crll, NULL, 0, NULL, 0) != 1) len = 0; }
		(void)l2;
	}
	else if (!strcmp(kind, "p8")) { if (sm2_private_key_info_to_der(&keys[1], &p, &len) != 1) len = 0; }
	else if (!strcmp(kind, "p8e")) { if (sm2_private_key_info_encrypt_to_der(&keys[1], "password", &p, &len) != 1) len = 0; }
	else if (!strcmp(kind, "sm2priv")) { if (sm2_private_key_to_der(&keys[1], &p, &len) != 1) len = 0; }
	else if (!strcmp(kind, "sm2pub")) { if (sm2_public_key_info_to_der(&keys[1], &p, &len) != 1) len = 0; }
	else if (!strcmp(kind, "sm2ct")) { static const uint8_t m[] = "forty-two bytes of plaintext for SM2 ....."; if (sm2_encrypt(&keys[1], m, sizeof m, buf, &len) != 1) len = 0; }
	else if (!strcmp(kind, "sm2sig")) { uint8_t d[32]; memset(d, 0x5a, 32); if (sm2_sign(&keys[1], d, buf, &len) != 1) len = 0; }
	else if (!strncmp(kind, "tls", 3)) {
		uint8_t rnd[32], sid[32]; int suites[] = { TLS_cipher_ecdhe_sm4_cbc_sm3, TLS_cipher_ecc_sm4_cbc_sm3, 0x00ff };
		static uint8_t exts[512]; size_t el = 0; uint8_t *ep = exts; SM2_Z256_POINT pt;
		memset(rnd, 0x77, 32); memset(sid, 0x66, 32); len = 0;
		tls_record_set_protocol(buf, TLS_protocol_tls12);
		if (!strcmp(kind, "tlsch")) { int fm[] = { 0 }; int gr[] = { TLS_curve_sm2p256v1 }; int sa[] = { TLS_sig_sm2sig_sm3 };
			tls_ec_point_formats_ext_to_bytes(fm, 1, &ep, &el); tls_supported_groups_ext_to_bytes(gr, 1, &ep, &el); tls_signature_algorithms_ext_to_bytes(sa, 1, &ep, &el);
			if (tls_record_set_handshake_client_hello(buf, &len, TLS_protocol_tls12, rnd, sid, 32, suites, 3, exts, el) != 1) len = 0; }
		else if (!strcmp(kind, "tlssh")) { int fm[] = { 0 }; tls_ec_point_formats_ext_to_bytes(fm, 1, &ep, &el);
			if (tls_record_set_handshake_server_hello(buf, &len, TLS_protocol_tls12, rnd, sid, 32, TLS_cipher_ecdhe_sm4_cbc_sm3, exts, el) != 1) len = 0; }
		else if (!strcmp(kind, "tlscert") || !strcmp(kind, "tlscert5")) { size_t cl = 0, i, n = kind[7] ? 5 : 2;
			for (i = 0; i < n; i++) { size_t one = mk_cert(tmp + cl, sizeof tmp - cl, i > 0, i ? "ROOT" : "leaf", i ? 0 : 1, 0, 1); if (!one) { printf("ERR"); return; } cl += one; }
			if (tls_record_set_handshake_certificate(buf, &len, tmp, cl) != 1) len = 0; }
		else if (!strcmp(kind, "tlsske")) { uint8_t sig[72]; size_t sl = 0; uint8_t d[32]; memset(d, 1, 32); sm2_sign(&keys[0], d, sig, &sl);
			pt = keys[1].public_key; if (tls_record_set_handshake_server_key_exchange_ecdhe(buf, &len, TLS_curve_sm2p256v1, &pt, sig, sl) != 1) len = 0; }
		else if (!strcmp(kind, "tlscr")) { uint8_t types[] = { 64, 1 }; uint8_t names[300]; size_t nl = 0; size_t cl = mk_cert(tmp, sizeof tmp, 1, "ROOT", 0, 0, 1);
			if (tls_authorities_from_certs(names, &nl, sizeof names, tmp, cl) != 1 || tls_record_set_handshake_certificate_request(buf, &len, types, 2, names, nl) != 1) len = 0; }
		else if (!strcmp(kind, "tlsckepke")) { uint8_t c[200]; memset(c, 0x30, sizeof c); if (tls_record_set_handshake_client_key_exchange_pke(buf, &len, c, 150) != 1) len = 0; }
		else if (!strcmp(kind, "tlsckeecdhe")) { pt = keys[2].public_key; if (tls_record_set_handshake_client_key_exchange_ecdhe(buf, &len, &pt) != 1) len = 0; }
		else if (!strcmp(kind, "tlscv")) { uint8_t sig[72]; size_t sl = 0; uint8_t d[32]; memset(d, 2, 32); sm2_sign(&keys[1], d, sig, &sl); if (tls_record_set_handshake_certificate_verify(buf, &len, sig, sl) != 1) len = 0; }
		else if (!strcmp(kind, "tlsfin")) { uint8_t vd[12]; memset(vd, 9, 12); if (tls_record_set_handshake_finished(buf, &len, vd, 12) != 1) len = 0; }
		else if (!strcmp(kind, "tlsshd")) { if (tls_record_set_handshake_server_hello_done(buf, &len) != 1) len = 0; }
		else if (!strcmp(kind, "tlsalert")) { if (tls_record_set_alert(buf, &len, 2, 40) != 1) len = 0; }
		else if (!strcmp(kind, "tlsccs")) { if (tls_record_set_change_cipher_spec(buf, &len) != 1) len = 0; }
		else if (!strcmp(kind, "tlsapp")) { if (tls_record_set_application_data(buf, &len, rnd, 32) != 1) len = 0; }
	}
	if (!len) printf("ERR"); else puthex(buf, len);
}

/* ---- fuzz targets: every call's status goes into one small result word, nothing else is compared */
static void fz_cert(xb in) {
	const uint8_t *p = in.p, *a = NULL; size_t l = in.n, al = 0; int r[6] = {0};
	r[0] = x509_cert_from_der(&a, &al, &p, &l);
	if (r[0] == 1) {
		int ver, ialg, salg, plc = 0; const uint8_t *ser, *iss, *sub, *iu, *su, *ex, *sig; size_t sl, il, ul, iul, sul, el, sgl; time_t nb, na; SM2_KEY *pk = malloc(sizeof(SM2_KEY));
		r[1] = x509_cert_print(nul, 0, 0, "c", a, al);
		r[2] = x509_cert_get_details(a, al, &ver, &ser, &sl, &ialg, &iss, &il, &nb, &na, &sub, &ul, pk, &iu, &iul, &su, &sul, &ex, &el, &salg, &sig, &sgl);
		r[3] = x509_cert_check(a, al, X509_cert_server_auth, &plc);
		r[4] = x509_cert_check(a, al, X509_cert_ca, &plc);
		r[5] = x509_cert_verify_by_ca_cert(a, al, a, al, SM2_DEFAULT_ID, SM2_DEFAULT_ID_LENGTH);
		free(pk);
	}
	printf("r=%d,%d,%d,%d,%d,%d", r[0], r[1], r[2], r[3], r[4], r[5]);
}
static void fz_certs(xb in) {        /* a concatenation of certificates as in TLS_CONNECT.server_certs */
	size_t cnt = 0; int r0 = x509_certs_get_count(in.p, in.n, &cnt), r1 = x509_certs_print(nul, 0, 0, "cs", in.p, in.n), vr = 0;
	int r2 = x509_certs_verify(in.p, in.n, X509_cert_chain_server, in.p, in.n, 5, &vr);
	printf("r=%d,%d,%d", r0, r1, r2);
}
static void fz_crl(xb in) {
	const uint8_t *p = in.p, *a = NULL; size_t l = in.n, al = 0; int r[4] = {0};
	r[0] = x509_crl_from_der(&a, &al, &p, &l);
	if (r[0] == 1) { time_t rd; const uint8_t *ee; size_t eel; uint8_t serial[8]; memset(serial, 0x31, 8); serial[7] = 1;
		r[1] = x509_crl_print(nul, 0, 0, "crl", a, al); r[2] = x509_crl_check(a, al, NOW);
		r[3] = x509_crl_find_revoked_cert_by_serial_number(a, al, serial, 8, &rd, &ee, &eel); }
	printf("r=%d,%d,%d,%d", r[0], r[1], r[2], r[3]);
}
static void fz_req(xb in) {
	const uint8_t *p = in.p, *a = NULL; size_t l = in.n, al = 0; int r[3] = {0};
	r[0] = x509_req_from_der(&a, &al, &p, &l);
	if (r[0] == 1) { r[1] = x509_req_print(nul, 0, 0, "req", a, al); r[2] = x509_req_verify(a, al, SM2_DEFAULT_ID, SM2_DEFAULT_ID_LENGTH); }
	printf("r=%d,%d,%d", r[0], r[1], r[2]);
}
static void fz_cms(xb in) {
	int r[4] = {0}; int ct; const uint8_t *c, *certs, *crls, *sis; size_t cl, csl, crl, sil;
	r[0] = cms_print(nul, 0, 0, "cms", in.p, in.n);
	{ const uint8_t *p = in.p; size_t l = in.n; int oid; const uint8_t *d; size_t dl; r[1] = cms_content_info_from_der(&oid, &d, &dl, &p, &l); }
	r[2] = cms_verify(in.p, in.n, NULL, 0, NULL, 0, &ct, &c, &cl, &certs, &csl, &crls, &crl, &sis, &sil);
	{ uint8_t key[16]; uint8_t *out = malloc(in.n + 64); size_t ol = 0; int alg; const uint8_t *s1, *s2; size_t s1l, s2l; memset(key, 0x42, 16);
	  r[3] = cms_decrypt(in.p, in.n, &alg, key, 16, &ct, out, &ol, &s1, &s1l, &s2, &s2l); free(out); }
	printf("r=%d,%d,%d,%d", r[0], r[1], r[2], r[3]);
}
static void fz_p8(xb in) {
	SM2_KEY *k = malloc(sizeof(SM2_KEY)); const uint8_t *p = in.p, *at; size_t l = in.n, atl; int r[4] = {0};
	r[0] = sm2_private_key_info_from_der(k, &at, &atl, &p, &l);
	r[1] = sm2_private_key_info_print(nul, 0, 0, "p8", in.p, in.n);
	{ const uint8_t *salt, *iv, *enced; size_t sl, ivl, el; int iter, kl, prf, ciph; p = in.p; l = in.n;
	  r[2] = pkcs8_enced_private_key_info_from_der(&salt, &sl, &iter, &kl, &prf, &ciph, &iv, &ivl, &enced, &el, &p, &l);
	  (void)pkcs8_enced_private_key_info_print(nul, 0, 0, "p8e", in.p, in.n);
	  if (r[2] == 1 && iter <= 70000) { p = in.p; l = in.n; r[3] = sm2_private_key_info_decrypt_from_der(k, &at, &atl, "password", &p, &l); } }
	free(k); printf("r=%d,%d,%d,%d", r[0], r[1], r[2], r[3]);
}
static void fz_sm2priv(xb in) { SM2_KEY *k = malloc(sizeof(SM2_KEY)); const uint8_t *p = in.p; size_t l = in.n; int r0 = sm2_private_key_from_der(k, &p, &l), r1 = sm2_private_key_print(nul, 0, 0, "k", in.p, in.n); free(k); printf("r=%d,%d", r0, r1); }
static void fz_sm2pub(xb in) { SM2_KEY *k = malloc(sizeof(SM2_KEY)); const uint8_t *p = in.p; size_t l = in.n; int r0 = sm2_public_key_info_from_der(k, &p, &l), r1 = x509_public_key_info_print(nul, 0, 0, "k", in.p, in.n); free(k); printf("r=%d,%d", r0, r1); }
static void fz_sm2ct(xb in) {
	SM2_CIPHERTEXT *c = malloc(sizeof(SM2_CIPHERTEXT)); const uint8_t *p = in.p; size_t l = in.n; xb out = xalloc(SM2_MAX_PLAINTEXT_SIZE); size_t ol = 0;
	int r0 = sm2_ciphertext_from_der(c, &p, &l), r1 = sm2_ciphertext_print(nul, 0, 0, "c", in.p, in.n), r2 = sm2_decrypt(&keys[1], in.p, in.n, out.p, &ol);
	free(c); xfree(out); printf("r=%d,%d,%d", r0, r1, r2);
}
static void fz_sm2sig(xb in) { uint8_t d[32]; memset(d, 0x5a, 32); int r0 = sm2_signature_print(nul, 0, 0, "s", in.p, in.n), r1 = sm2_verify(&keys[1], d, in.p, in.n); printf("r=%d,%d", r0, r1); }
static void fz_sm9sig(xb in) { SM9_SIGNATURE *s = malloc(sizeof(SM9_SIGNATURE)); const uint8_t *p = in.p; size_t l = in.n; int r0 = sm9_signature_from_der(s, &p, &l), r1 = sm9_signature_print(nul, 0, 0, "s", in.p, in.n); free(s); printf("r=%d,%d", r0, r1); }
static void fz_sm9ct(xb in) { SM9_Z256_POINT *c1 = malloc(sizeof(SM9_Z256_POINT)); const uint8_t *c2, *c3; size_t c2l; const uint8_t *p = in.p; size_t l = in.n;
	int r0 = sm9_ciphertext_from_der(c1, &c2, &c2l, &c3, &p, &l), r1 = sm9_ciphertext_print(nul, 0, 0, "c", in.p, in.n); free(c1); printf("r=%d,%d", r0, r1); }
static void fz_sm2point(xb in) { SM2_Z256_POINT *P = malloc(sizeof(SM2_Z256_POINT)); int r0 = sm2_z256_point_from_octets(P, in.p, in.n); free(P); printf("r=%d", r0); }

/* TLS: the record length field is what tls_record_recv guarantees (5 + length = bytes received) */
static void fz_tlsrec(xb in) {
	int r[16] = {0}, i; uint8_t *rec = in.p;
	if (in.n < 5 || (size_t)tls_record_data_length(rec) + 5 != in.n) { printf("SKIP"); return; }
	r[0] = tls_record_print(nul, rec, in.n, 0, 0);
	r[1] = tlcp_record_print(nul, rec, in.n, 0, 0);
	r[2] = tls13_record_print(nul, 0, 0, rec, in.n);
	r[3] = tls_record_print(nul, rec, in.n, (TLS_cipher_ecdhe_sm4_cbc_sm3 << 8), 0);
	{ int t; const uint8_t *d; size_t dl; r[4] = tls_record_get_handshake(rec, &t, &d, &dl); }
	{ int pr; const uint8_t *rnd, *sid, *cs, *ex; size_t sl, csl, el; r[5] = tls_record_get_handshake_client_hello(rec, &pr, &rnd, &sid, &sl, &cs, &csl, &ex, &el);
	  if (r[5] == 1 && ex) { xb o = xalloc(512); size_t ol = 0; (void)tls_process_client_hello_exts(ex, el, o.p, &ol, 512); xfree(o); } }
	{ int pr, c; const uint8_t *rnd, *sid, *ex; size_t sl, el; r[6] = tls_record_get_handshake_server_hello(rec, &pr, &rnd, &sid, &sl, &c, &ex, &el);
	  if (r[6] == 1 && ex) (void)tls_process_server_hello_exts(ex, el, &pr, &c, &c); }
	{ xb certs = xalloc(TLS_MAX_CERTIFICATES_SIZE); size_t cl = 0; r[7] = tls_record_get_handshake_certificate(rec, certs.p, &cl); xfree(certs); }
	{ int cv; SM2_Z256_POINT *P = malloc(sizeof *P); const uint8_t *sg; size_t sgl; r[8] = tls_record_get_handshake_server_key_exchange_ecdhe(rec, &cv, P, &sg, &sgl); free(P); }
	{ const uint8_t *ct, *cn; size_t ctl, cnl; r[9] = tls_record_get_handshake_certificate_request(rec, &ct, &ctl, &cn, &cnl); }
	{ const uint8_t *e; size_t el; r[10] = tls_record_get_handshake_client_key_exchange_pke(rec, &e, &el); }
	{ SM2_Z256_POINT *P = malloc(sizeof *P); r[11] = tls_record_get_handshake_client_key_exchange_ecdhe(rec, P); free(P); }
	{ const uint8_t *s; size_t sl; r[12] = tls_record_get_handshake_certificate_verify(rec, &s, &sl); }
	{ const uint8_t *v; size_t vl; r[13] = tls_record_get_handshake_finished(rec, &v, &vl); }
	{ int a, b; r[14] = tls_record_get_alert(rec, &a, &b); r[15] = tls_record_get_change_cipher_spec(rec); }
	printf("r="); for (i = 0; i < 16; i++) printf("%s%d", i ? "," : "", r[i]);
}
/* pem_read(fp, name, out, &outlen, maxlen): out has exactly maxlen bytes */
static void fz_pem(const char *maxs, xb in) {
	size_t maxlen = strtoul(maxs, NULL, 10), ol = 0; xb out = xalloc(maxlen); FILE *fp = in.n ? fmemopen(in.p, in.n, "r") : fopen("/dev/null", "r"); int r0;
	r0 = pem_read(fp, "CERTIFICATE", out.p, &ol, maxlen);
	fclose(fp); printf("r=%d len=%zu", r0, r0 == 1 ? ol : 0); if (r0 == 1 && ol > maxlen) printf(" OVER-CAPACITY"); xfree(out);
}
static void fz_tagname(const char *t) { const char *s = asn1_tag_name(atoi(t)); printf("r=%d", s ? (int)strlen(s) : -1); }


/* ------------------------------------------------------------------ capacity cases
 * APIs that write into a caller buffer with a declared (maxlen / max count) or implied capacity are
 * given an exactly sized heap buffer; the expected status is a function of the sizes (checked in run.py),
 * a write before the check is an ASan report. */
static size_t rcpt_cert(uint8_t *cert, size_t max, const uint8_t **iss, size_t *il, const uint8_t **ser, size_t *sl) {
	size_t cl = mk_cert(cert, max, 0, "rcpt", 2, 0, 1);
	if (!cl || x509_cert_get_issuer_and_serial_number(cert, cl, iss, il, ser, sl) != 1) return 0;
	return cl;
}
static void cap_rcpt(size_t wl, size_t maxlen) {
	static uint8_t cert[2048], ri[1024]; const uint8_t *iss, *ser; size_t il, sl, rl = 0, ol = 0x5a5a; uint8_t *rp = ri; xb w = xalloc(wl), out = xalloc(maxlen); int r;
	memset(w.p, 0x6b, wl);
	if (!rcpt_cert(cert, sizeof cert, &iss, &il, &ser, &sl) || cms_recipient_info_encrypt_to_der(&keys[2], iss, il, ser, sl, w.p, wl, &rp, &rl) != 1) { printf("ERR-BUILD"); xfree(w); xfree(out); return; }
	{ xb in = xalloc(rl); const uint8_t *p; size_t l = rl; memcpy(in.p, ri, rl); p = in.p;
	  r = cms_recipient_info_decrypt_from_der(&keys[2], iss, il, ser, sl, out.p, &ol, maxlen, &p, &l);
	  printf("r=%d", r); if (r == 1) { printf(" len=%zu ok=%d", ol, ol == wl && (!wl || out.p[wl - 1] == 0x6b)); } xfree(in); }
	xfree(w); xfree(out);
}
static void cap_env(size_t wl, int two) {
	static uint8_t cert[2048], ris[2048], ed[4096]; const uint8_t *iss, *ser; size_t il, sl, rl = 0, el = 0, cl = 0; uint8_t *rp = ris, *ep = ed;
	uint8_t key[255], iv[16], content[40], enced[64]; size_t encl = 0; SM4_KEY sk; int r, ct = 0x5a5a;
	memset(key, 0x42, sizeof key); memset(iv, 0x24, 16); memset(content, 0x63, sizeof content);
	sm4_set_encrypt_key(&sk, key); sm4_cbc_padding_encrypt(&sk, iv, content, sizeof content, enced, &encl);
	if (!rcpt_cert(cert, sizeof cert, &iss, &il, &ser, &sl)) { printf("ERR-BUILD"); return; }
	if (two) { uint8_t other[8]; memset(other, 0x77, 8); if (cms_recipient_info_encrypt_to_der(&keys[1], iss, il, other, 8, key, 16, &rp, &rl) != 1) { printf("ERR-BUILD"); return; } }
	if (cms_recipient_info_encrypt_to_der(&keys[2], iss, il, ser, sl, key, wl, &rp, &rl) != 1
		|| cms_enveloped_data_to_der(CMS_version_v1, ris, rl, OID_cms_data, OID_sm4_cbc, iv, 16, enced, encl, NULL, 0, NULL, 0, &ep, &el) != 1) { printf("ERR-BUILD"); return; }
	{ xb in = xalloc(el), out = xalloc(encl); const uint8_t *p, *ri, *s1, *s2; size_t l = el, ril, s1l, s2l; memcpy(in.p, ed, el); p = in.p;
	  r = cms_enveloped_data_decrypt_from_der(&keys[2], iss, il, ser, sl, &ct, out.p, &cl, &ri, &ril, &s1, &s1l, &s2, &s2l, &p, &l);
	  printf("r=%d", r); if (r == 1) printf(" len=%zu ok=%d", cl, cl == sizeof content && out.p[0] == 0x63); xfree(in); xfree(out); }
}
static void cap_sm2dec(size_t ptlen, size_t cap) {
	uint8_t pt[255], ct[SM2_MAX_CIPHERTEXT_SIZE]; size_t cl = 0, ol = 0x5a5a; xb out = xalloc(cap); int r; memset(pt, 0x70, sizeof pt);
	if (sm2_encrypt(&keys[1], pt, ptlen, ct, &cl) != 1) { printf("ERR-BUILD"); xfree(out); return; }
	{ xb in = xalloc(cl); memcpy(in.p, ct, cl); r = sm2_decrypt(&keys[1], in.p, cl, out.p, &ol); printf("r=%d", r); if (r == 1) printf(" len=%zu", ol); xfree(in); }
	xfree(out);
}
static void cap_sm2upd(const char *which, char *sizes) {
	char *sv = NULL, *t; int dec = which[0] == 'd'; size_t cur;
	if (dec) { SM2_DEC_CTX *c = malloc(sizeof *c); sm2_decrypt_init(c); printf("r=");
		for (t = strtok_r(sizes, ",", &sv); t; t = strtok_r(NULL, ",", &sv)) { size_t n = strtoul(t, NULL, 10); xb in = xalloc(n); memset(in.p, 0x30, n); printf("%d,", sm2_decrypt_update(c, in.p, n)); xfree(in); }
		cur = c->buf_size; free(c); }
	else { SM2_ENC_CTX *c = malloc(sizeof *c); sm2_encrypt_init(c); printf("r=");
		for (t = strtok_r(sizes, ",", &sv); t; t = strtok_r(NULL, ",", &sv)) { size_t n = strtoul(t, NULL, 10); xb in = xalloc(n); memset(in.p, 0x30, n); printf("%d,", sm2_encrypt_update(c, in.p, n)); xfree(in); }
		cur = c->buf_size; free(c); }
	printf(" size=%zu", cur);
}
static void cap_pem(const char *kind, long delta) {
	static uint8_t der[8192]; size_t dl = 0, ol = 0x5a5a; char *txt = NULL; size_t tl = 0; FILE *fp = open_memstream(&txt, &tl); int r = -9; size_t maxlen;
	if (!strcmp(kind, "cert")) { dl = mk_cert(der, sizeof der, 0, "leaf", 1, 0, 1); x509_cert_to_pem(der, dl, fp); }
	else if (!strcmp(kind, "certs")) { dl = mk_cert(der, sizeof der, 0, "leaf", 1, 0, 1); dl += mk_cert(der + dl, sizeof der - dl, 1, "ROOT", 0, 0, 1); x509_certs_to_pem(der, dl, fp); }
	else if (!strcmp(kind, "req")) { uint8_t subj[256]; size_t sl; uint8_t *p = der; mk_name(subj, &sl, sizeof subj, "requester");
		x509_req_sign_to_der(X509_version_v1, subj, sl, &keys[1], subj, 0, OID_sm2sign_with_sm3, &keys[1], SM2_DEFAULT_ID, SM2_DEFAULT_ID_LENGTH, &p, &dl); x509_req_to_pem(der, dl, fp); }
	else if (!strcmp(kind, "cms")) { static const uint8_t c[] = "capacity"; cms_set_data(der, &dl, c, sizeof c); cms_to_pem(der, dl, fp); }
	fclose(fp);
	if (!dl) { printf("ERR-BUILD"); free(txt); return; }
	maxlen = (long)dl + delta < 0 ? 0 : (size_t)((long)dl + delta);
	{ xb out = xalloc(maxlen); FILE *in = fmemopen(txt, tl, "r");
	  if (!strcmp(kind, "cert")) r = x509_cert_from_pem(out.p, &ol, maxlen, in); else if (!strcmp(kind, "certs")) r = x509_certs_from_pem(out.p, &ol, maxlen, in);
	  else if (!strcmp(kind, "req")) r = x509_req_from_pem(out.p, &ol, maxlen, in);
	  else r = cms_from_pem(out.p, &ol, maxlen, in);
	  fclose(in); printf("need=%zu r=%d", dl, r); if (r == 1) printf(" len=%zu", ol); xfree(out); }
	free(txt);
}
static void cap_tlsauth(int n, long delta) {
	static uint8_t certs[8192], big[4096]; size_t cl = 0, need = 0, ol = 0x5a5a; int i, r;
	for (i = 0; i < n; i++) { char cn[16]; size_t one; snprintf(cn, sizeof cn, "CA%d", i); one = mk_cert(certs + cl, sizeof certs - cl, 1, cn, 0, 0, 0); if (!one) { printf("ERR-BUILD"); return; } cl += one; }
	if (tls_authorities_from_certs(big, &need, sizeof big, certs, cl) != 1) { printf("ERR-BUILD"); return; }
	{ xb in = xalloc(cl), out = xalloc((long)need + delta < 0 ? 0 : (size_t)((long)need + delta)); memcpy(in.p, certs, cl);
	  r = tls_authorities_from_certs(out.p, &ol, out.n, in.p, cl); printf("need=%zu r=%d", need, r); if (r == 1) printf(" len=%zu", ol); xfree(in); xfree(out); }
}
static void cap_tlsexts(int rep, size_t maxlen) {
	static uint8_t exts[4096]; size_t el = 0, ol = 0; uint8_t *ep = exts; int i, r; int fm[] = { 0 }; int gr[] = { TLS_curve_sm2p256v1 }; int sa[] = { TLS_sig_sm2sig_sm3 };
	for (i = 0; i < rep && el < sizeof exts - 64; i++) { tls_ec_point_formats_ext_to_bytes(fm, 1, &ep, &el); tls_supported_groups_ext_to_bytes(gr, 1, &ep, &el); tls_signature_algorithms_ext_to_bytes(sa, 1, &ep, &el); }
	{ xb in = xalloc(el), out = xalloc(maxlen); memcpy(in.p, exts, el); r = tls_process_client_hello_exts(in.p, el, out.p, &ol, maxlen);
	  printf("r=%d", r); if (r == 1) printf(" len=%zu%s", ol, ol > maxlen ? " OVER-CAPACITY" : ""); xfree(in); xfree(out); }
}
static void cap_digalgs(int cnt, size_t max) {
	uint8_t body[512], set[600]; size_t bl = 0, sl = 0, n = 0x5a5a; uint8_t *bp = body, *sp = set; int i, r; int *algs = malloc(max ? max * sizeof(int) : 1);
	for (i = 0; i < cnt; i++) x509_digest_algor_to_der(OID_sm3, &bp, &bl);
	asn1_set_to_der(body, bl, &sp, &sl);
	{ xb in = xalloc(sl); const uint8_t *p; size_t l = sl; memcpy(in.p, set, sl); p = in.p; r = cms_digest_algors_from_der(algs, &n, max, &p, &l); printf("r=%d", r); if (r == 1) printf(" cnt=%zu", n); xfree(in); }
	free(algs);
}
static void cap_eku(int cnt, size_t max) {
	uint8_t body[512], seq[600]; size_t bl = 0, sl = 0, n = 0x5a5a; uint8_t *bp = body, *sp = seq; int i, r; int *oids = malloc(max ? max * sizeof(int) : 1);
	for (i = 0; i < cnt; i++) x509_key_purpose_to_der(OID_kp_server_auth, &bp, &bl);
	asn1_sequence_to_der(body, bl, &sp, &sl);
	{ xb in = xalloc(sl); const uint8_t *p; size_t l = sl; memcpy(in.p, seq, sl); p = in.p; r = x509_ext_key_usage_from_der(oids, &n, max, &p, &l); printf("r=%d", r); if (r == 1) printf(" cnt=%zu", n); xfree(in); }
	free(oids);
}
extern int tls13_process_certificate_list(const uint8_t *cert_list, size_t cert_list_len, uint8_t *certs, size_t *certs_len);
/* a VALID chain of n certificates through the TLS 1.2 and the TLS 1.3 Certificate parsers into the 2048 bytes the callers provide */
static void cap_tlscerts(int v13, int n, int withexts) {
	static uint8_t certs[16384], msg[17000]; size_t cl = 0, ol = 0x5a5a, total = 0; int i, r;
	xb out = xalloc(TLS_MAX_CERTIFICATES_SIZE);
	if (v13) { size_t ml = 0;
		for (i = 0; i < n; i++) { size_t one = mk_cert(certs, sizeof certs, i > 0, i ? "ROOT" : "leaf", i ? 0 : 1, 0, withexts); if (!one) { printf("ERR-BUILD"); xfree(out); return; }
			msg[ml++] = (uint8_t)(one >> 16); msg[ml++] = (uint8_t)(one >> 8); msg[ml++] = (uint8_t)one; memcpy(msg + ml, certs, one); ml += one; msg[ml++] = 0; msg[ml++] = 0; total += one; }
		{ xb in = xalloc(ml); memcpy(in.p, msg, ml); r = tls13_process_certificate_list(in.p, ml, out.p, &ol); xfree(in); }
	} else { size_t rl = 0;
		for (i = 0; i < n; i++) { size_t one = mk_cert(certs + cl, sizeof certs - cl, i > 0, i ? "ROOT" : "leaf", i ? 0 : 1, 0, withexts); if (!one) { printf("ERR-BUILD"); xfree(out); return; } cl += one; }
		total = cl; tls_record_set_protocol(msg, TLS_protocol_tls12);
		if (tls_record_set_handshake_certificate(msg, &rl, certs, cl) != 1) { printf("ERR-BUILD"); xfree(out); return; }
		{ xb in = xalloc(rl); memcpy(in.p, msg, rl); r = tls_record_get_handshake_certificate(in.p, out.p, &ol); xfree(in); }
	}
	printf("total=%zu r=%d", total, r); if (r == 1) printf(" len=%zu", ol); xfree(out);
}
/* x509_crl_new_from_cert on a certificate whose CRLDistributionPoints carry no URI: the answer must be 0 with *crl = NULL and
 * must not depend on what the stack held before the call (the uri pointer is a local of the callee).  No URI => no network. */
static const uint8_t ppc_byte;
#define PPC (&ppc_byte)
static __attribute__((noinline)) void dirty_stack(void) { volatile uint8_t junk[8192]; size_t i; for (i = 0; i < sizeof junk; i++) junk[i] = 0x5a; }
static void cap_crlfromcert(const char *dphex) {
	static uint8_t cert[4096]; uint8_t subj[256], iss[256], exts[1024], serial[8]; size_t sl, il, el = 0, len = 0, i; uint8_t *p = cert;
	xb dp = xhex(dphex); uint8_t *crl = (uint8_t *)PPC; size_t crl_len = 0x5a5a; int r;
	for (i = 0; i < dp.n; i++) if (dp.p[i] == 0x86) { printf("ERR refused: URI"); xfree(dp); return; }
	memset(serial, 0x41, sizeof serial); mk_name(subj, &sl, sizeof subj, "leaf"); mk_name(iss, &il, sizeof iss, "ROOT");
	if (x509_exts_add_basic_constraints(exts, &el, sizeof exts, 1, 0, -1) != 1
		|| x509_exts_add_sequence(exts, &el, sizeof exts, OID_ce_crl_distribution_points, -1, dp.p, dp.n) != 1
		|| x509_cert_sign_to_der(X509_version_v3, serial, sizeof serial, OID_sm2sign_with_sm3, iss, il, NOW - 1000, NOW + 86400, subj, sl, &keys[1], NULL, 0, NULL, 0,
			exts, el, &keys[0], SM2_DEFAULT_ID, SM2_DEFAULT_ID_LENGTH, &p, &len) != 1) { printf("ERR-BUILD"); xfree(dp); return; }
	{ xb in = xalloc(len); memcpy(in.p, cert, len); dirty_stack(); r = x509_crl_new_from_cert(&crl, &crl_len, in.p, len); xfree(in); }
	printf("r=%d crl=%s", r, crl == (uint8_t *)PPC ? "POISON" : (crl ? "SET" : "NULL")); if (r == 1 && crl && crl != (uint8_t *)PPC) free(crl);
	xfree(dp);
}
static int handle_cap(size_t nw, char **w) {
	if (strcmp(w[0], "cap") || nw < 3) return 0;
	ent_seed(0xCA9, -1);
	if (!strcmp(w[1], "rcpt") && nw == 4) cap_rcpt(strtoul(w[2], NULL, 10), strtoul(w[3], NULL, 10));
	else if (!strcmp(w[1], "env") && nw == 4) cap_env(strtoul(w[2], NULL, 10), atoi(w[3]));
	else if (!strcmp(w[1], "sm2dec") && nw == 4) cap_sm2dec(strtoul(w[2], NULL, 10), strtoul(w[3], NULL, 10));
	else if (!strcmp(w[1], "sm2upd") && nw == 4) cap_sm2upd(w[2], w[3]);
	else if (!strcmp(w[1], "pem") && nw == 4) cap_pem(w[2], strtol(w[3], NULL, 10));
	else if (!strcmp(w[1], "tlsauth") && nw == 4) cap_tlsauth(atoi(w[2]), strtol(w[3], NULL, 10));
	else if (!strcmp(w[1], "tlsexts") && nw == 4) cap_tlsexts(atoi(w[2]), strtoul(w[3], NULL, 10));
	else if (!strcmp(w[1], "digalgs") && nw == 4) cap_digalgs(atoi(w[2]), strtoul(w[3], NULL, 10));
	else if (!strcmp(w[1], "eku") && nw == 4) cap_eku(atoi(w[2]), strtoul(w[3], NULL, 10));
	else if (!strcmp(w[1], "tlscerts") && nw == 5) cap_tlscerts(atoi(w[2]) == 13, atoi(w[3]), atoi(w[4]));
	else if (!strcmp(w[1], "crlfromcert") && nw == 3) cap_crlfromcert(w[2]);
	else printf("ERR bad-cap");
	return 1;
}


/* ------------------------------------------------------------------ failure-then-cleanup / failure-then-retry
 * Loaders and initialisers that allocate into or fill a CALLER-OWNED object are run with a file that fails at
 * some stage; then the caller does what callers do: the matching cleanup, a retry with a good file on the SAME
 * object, or carries on.  A stale pointer / length left behind shows as STALE in the line or as an ASan report
 * (double free, use after free).  Files live in $C06_TMP (the check's build directory). */
#include <sys/stat.h>
static char fdir[400];
static int files_ready;
static const char *fpath(const char *name) { static char b[8][512]; static int i; i = (i + 1) & 7; snprintf(b[i], sizeof b[i], "%s/%s", fdir, name); return b[i]; }
static void wfile(const char *name, const uint8_t *d, size_t n) { FILE *f = fopen(fpath(name), "wb"); if (f) { fwrite(d, 1, n, f); fclose(f); } }
static void make_files(void) {
	static uint8_t chain[8192], one[4096]; size_t cl = 0, ol; char *txt = NULL; size_t tl = 0; FILE *ms; int i;
	const char *base = getenv("C06_TMP");
	if (files_ready) return;
	snprintf(fdir, sizeof fdir, "%s/c06_%d", base ? base : "/tmp", (int)getpid()); mkdir(base ? base : "/tmp", 0700); mkdir(fdir, 0700);
	/* chain: leaf (key 1) + encryption cert (key 2) + root (key 0) */
	cl = mk_cert(chain, sizeof chain, 0, "leaf", 1, 0, 1); cl += mk_cert(chain + cl, sizeof chain - cl, 0, "kenc", 2, 0, 1); cl += mk_cert(chain + cl, sizeof chain - cl, 1, "ROOT", 0, 0, 1);
	ms = open_memstream(&txt, &tl); x509_certs_to_pem(chain, cl, ms); fclose(ms);
	wfile("good.pem", (uint8_t *)txt, tl);
	wfile("empty.pem", (uint8_t *)"", 0);
	{ uint8_t g[300]; for (i = 0; i < 300; i++) g[i] = (uint8_t)(i * 37 + 11); wfile("garbage.pem", g, sizeof g); }
	wfile("binary.pem", chain, cl);
	{ char *second = strstr(txt + 10, "-----BEGIN"); size_t k = second ? (size_t)(second - txt) : tl / 2;
	  wfile("trunc2.pem", (uint8_t *)txt, k + 200);                                   /* valid certificate, second block cut in the base64 body */
	  wfile("cutline.pem", (uint8_t *)txt, k + 27 + 64 * 3 + 30);                     /* ... cut in the middle of a line */
	  { char *t2 = malloc(tl + 64); memcpy(t2, txt, tl); t2[k + 100] = '!'; t2[k + 101] = '*'; wfile("garb2.pem", (uint8_t *)t2, tl); free(t2); }   /* bad characters in block 2 */
	  { char *e = strstr(second ? second : txt, "-----END"); size_t ke = e ? (size_t)(e - txt) : tl; wfile("noend.pem", (uint8_t *)txt, ke); }
	  wfile("first.pem", (uint8_t *)txt, k); }
	{ char *big = malloc(tl * 12 + 1); for (i = 0; i < 12; i++) memcpy(big + tl * i, txt, tl); wfile("many.pem", (uint8_t *)big, tl * 12); free(big); }
	free(txt);
	{ uint8_t subj[256], req[1024]; size_t sl, rl = 0; uint8_t *rp = req; mk_name(subj, &sl, sizeof subj, "requester");
	  x509_req_sign_to_der(X509_version_v1, subj, sl, &keys[1], subj, 0, OID_sm2sign_with_sm3, &keys[1], SM2_DEFAULT_ID, SM2_DEFAULT_ID_LENGTH, &rp, &rl);
	  txt = NULL; tl = 0; ms = open_memstream(&txt, &tl); x509_req_to_pem(req, rl, ms); fclose(ms); wfile("req.pem", (uint8_t *)txt, tl); wfile("reqtrunc.pem", (uint8_t *)txt, tl / 2); free(txt); }
	ol = mk_cert(one, sizeof one, 0, "leaf", 1, 0, 1); txt = NULL; tl = 0; ms = open_memstream(&txt, &tl); x509_cert_to_pem(one, ol, ms); fclose(ms); wfile("cert.pem", (uint8_t *)txt, tl); free(txt);
	for (i = 0; i < 3; i++) { char nm[32]; FILE *f; snprintf(nm, sizeof nm, "key%d.pem", i); f = fopen(fpath(nm), "w"); sm2_private_key_info_encrypt_to_pem(&keys[i], "pw", f); fclose(f); }
	{ FILE *f = fopen(fpath("key1.pem"), "r"); char kb[2048]; size_t kn = fread(kb, 1, sizeof kb, f); fclose(f); wfile("keytrunc.pem", (uint8_t *)kb, kn / 2); }
	files_ready = 1;
}
static const char *vfile(const char *v) {      /* variant name -> path */
	if (!strcmp(v, "missing")) return fpath("does-not-exist.pem");
	{ static char n[64]; snprintf(n, sizeof n, "%s.pem", v); return fpath(n); }
}
typedef int (*newfn)(uint8_t **, size_t *, const char *);
static void seq_new(newfn f, const char *bad, const char *good) {
	uint8_t *out = NULL; size_t len = 0; int r1, r2;
	r1 = f(&out, &len, vfile(bad)); printf("r1=%d", r1);
	if (r1 != 1) { if (out) { printf(" STALE-POINTER"); free(out); out = NULL; } }      /* what an owner does in its cleanup */
	else { free(out); out = NULL; }
	r2 = f(&out, &len, vfile(good)); printf(" r2=%d", r2); if (r2 == 1) { printf(" len=%zu first=%02x", len, out[0]); free(out); } else if (out) printf(" STALE-POINTER");
}
static void seq_ctx(const char *what, const char *v1, const char *v2, const char *after) {
	TLS_CTX *ctx = malloc(sizeof *ctx); int r1, r2 = 9, r3 = 9, tlcp = !strcmp(what, "tlcp");
	tls_ctx_init(ctx, tlcp ? TLS_protocol_tlcp : TLS_protocol_tls12, !strcmp(what, "ca"));
	if (!strcmp(what, "ca")) r1 = tls_ctx_set_ca_certificates(ctx, vfile(v1), 3);
	else if (tlcp) r1 = tls_ctx_set_tlcp_server_certificate_and_keys(ctx, vfile(v1), vfile(v2), strstr(after, "wrongpass") ? "no" : "pw", vfile("key2"), "pw");
	else r1 = tls_ctx_set_certificate_and_key(ctx, vfile(v1), vfile(v2), strstr(after, "wrongpass") ? "no" : "pw");
	printf("r1=%d", r1);
	if (r1 != 1 && (ctx->cacerts || ctx->certs)) printf(" STALE-POINTER");
	if (r1 != 1 && ((!ctx->cacerts && ctx->cacertslen) || (!ctx->certs && ctx->certslen))) printf(" STALE-LENGTH");
	if (strstr(after, "retry")) {
		if (!strcmp(what, "ca")) r2 = tls_ctx_set_ca_certificates(ctx, vfile("good"), 3);
		else if (tlcp) r2 = tls_ctx_set_tlcp_server_certificate_and_keys(ctx, vfile("good"), vfile("key1"), "pw", vfile("key2"), "pw");
		else r2 = tls_ctx_set_certificate_and_key(ctx, vfile("good"), vfile("key1"), "pw");
		printf(" r2=%d", r2);
	}
	if (strstr(after, "init")) { TLS_CONNECT *conn = malloc(sizeof *conn); r3 = tls_init(conn, ctx); printf(" r3=%d", r3); tls_cleanup(conn); free(conn); }
	tls_ctx_cleanup(ctx); tls_ctx_cleanup(ctx);
	free(ctx);
}
static int handle_seq(size_t nw, char **w) {
	if (strcmp(w[0], "seq") || nw < 3) return 0;
	ent_seed(0x5E9, -1); make_files();
	if (!strcmp(w[1], "certs_new") && nw == 4) seq_new(x509_certs_new_from_file, w[2], w[3]);
	else if (!strcmp(w[1], "cert_new") && nw == 4) seq_new(x509_cert_new_from_file, w[2], w[3]);
	else if (!strcmp(w[1], "req_new") && nw == 4) seq_new(x509_req_new_from_file, w[2], w[3]);
	else if (!strcmp(w[1], "ctx") && nw == 6) seq_ctx(w[2], w[3], w[4], w[5]);
	else printf("ERR bad-seq");
	return 1;
}


/* ------------------------------------------------------------------ out-parameters are fully determined
 * Decoders with several out-parameters / struct targets are run twice on the same input, the targets pre-filled with
 * two different poison patterns (0x5a.., 0xa5..); after a success every out-parameter must hold the same value in both
 * runs - a field the callee leaves unset keeps its poison and differs.  No model is involved: this is a test. */
static int det_bad;
static void det_report(const char *what, int ra, int rb, const void *a, const void *b, size_t n) {
	if (ra != rb) { printf(" %s:RET-DIFFERS(%d,%d)", what, ra, rb); det_bad = 1; }
	else if (ra == 1 && memcmp(a, b, n)) { size_t i; const uint8_t *x = a, *y = b; for (i = 0; i < n && x[i] == y[i]; i++) ; printf(" %s:UNDETERMINED@%zu", what, i); det_bad = 1; }
	else printf(" %s=%d", what, ra);
}
typedef struct { const uint8_t *serial, *issuer, *subject, *iuid, *suid, *exts, *sig; size_t serial_len, issuer_len, subject_len, iuid_len, suid_len, exts_len, sig_len; time_t nb, na; SM2_KEY key; int version, inner_alg, sig_alg, pad_; } det_cert_t;
typedef struct { size_t nodes_cnt; const uint8_t *val; size_t vlen; int oid, critical; uint32_t nodes[32]; } det_ext_t;
static int det_cert_call(det_cert_t *o, const uint8_t *a, size_t al) {
	return x509_cert_get_details(a, al, &o->version, &o->serial, &o->serial_len, &o->inner_alg, &o->issuer, &o->issuer_len, &o->nb, &o->na, &o->subject, &o->subject_len,
		&o->key, &o->iuid, &o->iuid_len, &o->suid, &o->suid_len, &o->exts, &o->exts_len, &o->sig_alg, &o->sig, &o->sig_len); }
static void det_cert(xb in) {
	det_cert_t A, B; int ra, rb; memset(&A, 0x5a, sizeof A); memset(&B, 0xa5, sizeof B); A.pad_ = B.pad_ = 0;
	ra = det_cert_call(&A, in.p, in.n); rb = det_cert_call(&B, in.p, in.n); det_report("details", ra, rb, &A, &B, sizeof A);
	if (ra == 1 && rb == 1 && A.exts && A.exts == B.exts) {
		const uint8_t *pa = A.exts, *pb = A.exts; size_t la = A.exts_len, lb = A.exts_len; int n = 0;
		while (la && n++ < 16) { det_ext_t EA, EB; int ea, eb; memset(&EA, 0x5a, sizeof EA); memset(&EB, 0xa5, sizeof EB);
			ea = x509_ext_from_der(&EA.oid, EA.nodes, &EA.nodes_cnt, &EA.critical, &EA.val, &EA.vlen, &pa, &la);
			eb = x509_ext_from_der(&EB.oid, EB.nodes, &EB.nodes_cnt, &EB.critical, &EB.val, &EB.vlen, &pb, &lb);
			if (ea == 1 && eb == 1) { memset(EA.nodes + (EA.nodes_cnt <= 32 ? EA.nodes_cnt : 0), 0, sizeof(uint32_t) * (32 - (EA.nodes_cnt <= 32 ? EA.nodes_cnt : 0))); memset(EB.nodes + (EB.nodes_cnt <= 32 ? EB.nodes_cnt : 0), 0, sizeof(uint32_t) * (32 - (EB.nodes_cnt <= 32 ? EB.nodes_cnt : 0))); }
			det_report("ext", ea, eb, &EA, &EB, sizeof EA);
			if (ea != 1) break;
			if (EA.oid == OID_ce_basic_constraints) { struct { int ca, plc; } CA, CB; const uint8_t *q = EA.val; size_t ql = EA.vlen; int ca, cb; memset(&CA, 0x5a, sizeof CA); memset(&CB, 0xa5, sizeof CB);
				ca = x509_basic_constraints_from_der(&CA.ca, &CA.plc, &q, &ql); q = EA.val; ql = EA.vlen; cb = x509_basic_constraints_from_der(&CB.ca, &CB.plc, &q, &ql); det_report("bc", ca, cb, &CA, &CB, sizeof CA); }
			if (EA.oid == OID_ce_authority_key_identifier) { struct { const uint8_t *k, *i, *s; size_t kl, il, sl; } KA, KB; const uint8_t *q = EA.val; size_t ql = EA.vlen; int ka, kb; memset(&KA, 0x5a, sizeof KA); memset(&KB, 0xa5, sizeof KB);
				ka = x509_authority_key_identifier_from_der(&KA.k, &KA.kl, &KA.i, &KA.il, &KA.s, &KA.sl, &q, &ql); q = EA.val; ql = EA.vlen; kb = x509_authority_key_identifier_from_der(&KB.k, &KB.kl, &KB.i, &KB.il, &KB.s, &KB.sl, &q, &ql); det_report("aki", ka, kb, &KA, &KB, sizeof KA); }
		}
	}
}
static void det_crl(xb in) {
	struct { const uint8_t *issuer, *rev, *exts, *sig; size_t il, rl, el, sl; time_t tu, nu; int version, inner_alg, sig_alg, pad_; } A, B; int ra, rb; memset(&A, 0x5a, sizeof A); memset(&B, 0xa5, sizeof B); A.pad_ = B.pad_ = 0;
	ra = x509_crl_get_details(in.p, in.n, &A.version, &A.inner_alg, &A.issuer, &A.il, &A.tu, &A.nu, &A.rev, &A.rl, &A.exts, &A.el, &A.sig_alg, &A.sig, &A.sl);
	rb = x509_crl_get_details(in.p, in.n, &B.version, &B.inner_alg, &B.issuer, &B.il, &B.tu, &B.nu, &B.rev, &B.rl, &B.exts, &B.el, &B.sig_alg, &B.sig, &B.sl);
	det_report("details", ra, rb, &A, &B, sizeof A);
}
static void det_req(xb in) {
	struct { const uint8_t *subj, *attrs, *sig; size_t sl, al, gl; SM2_KEY key; int version, sig_alg; } A, B; int ra, rb; memset(&A, 0x5a, sizeof A); memset(&B, 0xa5, sizeof B);
	ra = x509_req_get_details(in.p, in.n, &A.version, &A.subj, &A.sl, &A.key, &A.attrs, &A.al, &A.sig_alg, &A.sig, &A.gl);
	rb = x509_req_get_details(in.p, in.n, &B.version, &B.subj, &B.sl, &B.key, &B.attrs, &B.al, &B.sig_alg, &B.sig, &B.gl);
	det_report("details", ra, rb, &A, &B, sizeof A);
}
static void det_cms(xb in) {
	struct { const uint8_t *c; size_t cl; int ct, pad_; } A, B; const uint8_t *p; size_t l; int ra, rb; memset(&A, 0x5a, sizeof A); memset(&B, 0xa5, sizeof B); A.pad_ = B.pad_ = 0;
	p = in.p; l = in.n; ra = cms_content_info_from_der(&A.ct, &A.c, &A.cl, &p, &l); p = in.p; l = in.n; rb = cms_content_info_from_der(&B.ct, &B.c, &B.cl, &p, &l);
	det_report("ci", ra, rb, &A, &B, sizeof A);
	if (ra != 1 || rb != 1 || !A.c) return;
	if (A.ct == OID_cms_signed_data) {
		struct { size_t dac; const uint8_t *c, *certs, *crls, *si; size_t cl, certsl, crlsl, sil; int ver, ct; int da[4]; } SA, SB; const uint8_t *q; size_t ql; int sa, sb;
		memset(&SA, 0x5a, sizeof SA); memset(&SB, 0xa5, sizeof SB);
		q = A.c; ql = A.cl; sa = cms_signed_data_from_der(&SA.ver, SA.da, &SA.dac, 4, &SA.ct, &SA.c, &SA.cl, &SA.certs, &SA.certsl, &SA.crls, &SA.crlsl, &SA.si, &SA.sil, &q, &ql);
		q = A.c; ql = A.cl; sb = cms_signed_data_from_der(&SB.ver, SB.da, &SB.dac, 4, &SB.ct, &SB.c, &SB.cl, &SB.certs, &SB.certsl, &SB.crls, &SB.crlsl, &SB.si, &SB.sil, &q, &ql);
		if (sa == 1 && sb == 1 && SA.dac <= 4 && SB.dac <= 4) { memset(SA.da + SA.dac, 0, sizeof(int) * (4 - SA.dac)); memset(SB.da + SB.dac, 0, sizeof(int) * (4 - SB.dac)); }
		det_report("signed", sa, sb, &SA, &SB, sizeof SA);
		if (sa == 1 && sb == 1 && SA.si && SA.si == SB.si) { const uint8_t *pa = SA.si, *pb = SA.si; size_t la = SA.sil, lb = SA.sil; int n = 0;
			while (la && n++ < 4) { struct { const uint8_t *iss, *ser, *aa, *ed, *ua; size_t il, sl, aal, edl, ual; int ver, da, sa, pad_; } IA, IB; int ia, ib; memset(&IA, 0x5a, sizeof IA); memset(&IB, 0xa5, sizeof IB); IA.pad_ = IB.pad_ = 0;
				ia = cms_signer_info_from_der(&IA.ver, &IA.iss, &IA.il, &IA.ser, &IA.sl, &IA.da, &IA.aa, &IA.aal, &IA.sa, &IA.ed, &IA.edl, &IA.ua, &IA.ual, &pa, &la);
				ib = cms_signer_info_from_der(&IB.ver, &IB.iss, &IB.il, &IB.ser, &IB.sl, &IB.da, &IB.aa, &IB.aal, &IB.sa, &IB.ed, &IB.edl, &IB.ua, &IB.ual, &pb, &lb);
				det_report("signer", ia, ib, &IA, &IB, sizeof IA); if (ia != 1) break; } }
	} else if (A.ct == OID_cms_enveloped_data) {
		struct { const uint8_t *ri, *eci; size_t ril, ecil; int ver, pad_; } EA, EB; const uint8_t *q; size_t ql; int ea, eb; memset(&EA, 0x5a, sizeof EA); memset(&EB, 0xa5, sizeof EB); EA.pad_ = EB.pad_ = 0;
		q = A.c; ql = A.cl; ea = cms_enveloped_data_from_der(&EA.ver, &EA.ri, &EA.ril, &EA.eci, &EA.ecil, &q, &ql); q = A.c; ql = A.cl; eb = cms_enveloped_data_from_der(&EB.ver, &EB.ri, &EB.ril, &EB.eci, &EB.ecil, &q, &ql);
		det_report("enveloped", ea, eb, &EA, &EB, sizeof EA);
		if (ea == 1 && eb == 1 && EA.ri && EA.ri == EB.ri) {
			struct { const uint8_t *iss, *ser, *par, *ek; size_t il, sl, pl, ekl; int ver, alg; } RA, RB; const uint8_t *pa = EA.ri, *pb = EA.ri; size_t la = EA.ril, lb = EA.ril; int r1, r2; memset(&RA, 0x5a, sizeof RA); memset(&RB, 0xa5, sizeof RB);
			r1 = cms_recipient_info_from_der(&RA.ver, &RA.iss, &RA.il, &RA.ser, &RA.sl, &RA.alg, &RA.par, &RA.pl, &RA.ek, &RA.ekl, &pa, &la);
			r2 = cms_recipient_info_from_der(&RB.ver, &RB.iss, &RB.il, &RB.ser, &RB.sl, &RB.alg, &RB.par, &RB.pl, &RB.ek, &RB.ekl, &pb, &lb); det_report("rcpt", r1, r2, &RA, &RB, sizeof RA); }
		if (ea == 1 && eb == 1 && EA.eci && EA.eci == EB.eci) {
			struct { const uint8_t *iv, *ec, *s1, *s2; size_t ivl, ecl, s1l, s2l; int ct, alg; } CA, CB; const uint8_t *pa = EA.eci, *pb = EA.eci; size_t la = EA.ecil, lb = EA.ecil; int c1, c2; memset(&CA, 0x5a, sizeof CA); memset(&CB, 0xa5, sizeof CB);
			c1 = cms_enced_content_info_from_der(&CA.ct, &CA.alg, &CA.iv, &CA.ivl, &CA.ec, &CA.ecl, &CA.s1, &CA.s1l, &CA.s2, &CA.s2l, &pa, &la);
			c2 = cms_enced_content_info_from_der(&CB.ct, &CB.alg, &CB.iv, &CB.ivl, &CB.ec, &CB.ecl, &CB.s1, &CB.s1l, &CB.s2, &CB.s2l, &pb, &lb); det_report("enced", c1, c2, &CA, &CB, sizeof CA); }
	}
}
#define DET_STRUCT(NAME, T, FN) static void NAME(xb in) { T *A = malloc(sizeof(T)), *B = malloc(sizeof(T)); const uint8_t *p; size_t l; int ra, rb; \
	memset(A, 0x5a, sizeof(T)); memset(B, 0xa5, sizeof(T)); p = in.p; l = in.n; ra = FN(A, &p, &l); p = in.p; l = in.n; rb = FN(B, &p, &l); det_report(#FN, ra, rb, A, B, sizeof(T)); free(A); free(B); }
DET_STRUCT(det_sm9sig, SM9_SIGNATURE, sm9_signature_from_der)
DET_STRUCT(det_sm9smpk, SM9_SIGN_MASTER_KEY, sm9_sign_master_public_key_from_der)
DET_STRUCT(det_sm9smsk, SM9_SIGN_MASTER_KEY, sm9_sign_master_key_from_der)
DET_STRUCT(det_sm9sk, SM9_SIGN_KEY, sm9_sign_key_from_der)
DET_STRUCT(det_sm9empk, SM9_ENC_MASTER_KEY, sm9_enc_master_public_key_from_der)
DET_STRUCT(det_sm9emsk, SM9_ENC_MASTER_KEY, sm9_enc_master_key_from_der)
DET_STRUCT(det_sm9ek, SM9_ENC_KEY, sm9_enc_key_from_der)
DET_STRUCT(det_sm2pub, SM2_KEY, sm2_public_key_info_from_der)
DET_STRUCT(det_sm2priv, SM2_KEY, sm2_private_key_from_der)
/* password-encrypted SM9 keys: every loader is fed every kind of key (right and wrong password); heap targets */
static void fz_sm9p8(const char *loader, const char *pass, xb in) {
	const uint8_t *p = in.p; size_t l = in.n; int r = -9;
	if (!strcmp(loader, "smsk")) { SM9_SIGN_MASTER_KEY *k = malloc(sizeof *k); r = sm9_sign_master_key_info_decrypt_from_der(k, pass, &p, &l); free(k); }
	else if (!strcmp(loader, "sk")) { SM9_SIGN_KEY *k = malloc(sizeof *k); r = sm9_sign_key_info_decrypt_from_der(k, pass, &p, &l); free(k); }
	else if (!strcmp(loader, "emsk")) { SM9_ENC_MASTER_KEY *k = malloc(sizeof *k); r = sm9_enc_master_key_info_decrypt_from_der(k, pass, &p, &l); free(k); }
	else if (!strcmp(loader, "ek")) { SM9_ENC_KEY *k = malloc(sizeof *k); r = sm9_enc_key_info_decrypt_from_der(k, pass, &p, &l); free(k); }
	printf("r=%d", r);
}
static void mk_sm9(const char *kind) {
	static uint8_t buf[2048]; uint8_t *p = buf; size_t len = 0;
	if (!strncmp(kind, "sm9p8", 5)) {
		if (!strcmp(kind, "sm9p8smsk") || !strcmp(kind, "sm9p8sk")) { SM9_SIGN_MASTER_KEY *m = malloc(sizeof *m); SM9_SIGN_KEY *k = malloc(sizeof *k); sm9_sign_master_key_generate(m);
			if (kind[6] == 'm') sm9_sign_master_key_info_encrypt_to_der(m, "pw", &p, &len); else { sm9_sign_master_key_extract_key(m, "alice", 5, k); sm9_sign_key_info_encrypt_to_der(k, "pw", &p, &len); } free(m); free(k); }
		else { SM9_ENC_MASTER_KEY *m = malloc(sizeof *m); SM9_ENC_KEY *k = malloc(sizeof *k); sm9_enc_master_key_generate(m);
			if (kind[6] == 'm') sm9_enc_master_key_info_encrypt_to_der(m, "pw", &p, &len); else { sm9_enc_master_key_extract_key(m, "bob", 3, k); sm9_enc_key_info_encrypt_to_der(k, "pw", &p, &len); } free(m); free(k); }
		if (len) puthex(buf, len); else printf("ERR"); return; }
	if (!strncmp(kind, "sm9s", 4)) { SM9_SIGN_MASTER_KEY *m = malloc(sizeof *m); SM9_SIGN_KEY *k = malloc(sizeof *k); sm9_sign_master_key_generate(m);
		if (!strcmp(kind, "sm9smpk")) sm9_sign_master_public_key_to_der(m, &p, &len); else if (!strcmp(kind, "sm9smsk")) sm9_sign_master_key_to_der(m, &p, &len);
		else { sm9_sign_master_key_extract_key(m, "alice", 5, k); sm9_sign_key_to_der(k, &p, &len); } free(m); free(k); }
	else { SM9_ENC_MASTER_KEY *m = malloc(sizeof *m); SM9_ENC_KEY *k = malloc(sizeof *k); sm9_enc_master_key_generate(m);
		if (!strcmp(kind, "sm9empk")) sm9_enc_master_public_key_to_der(m, &p, &len); else if (!strcmp(kind, "sm9emsk")) sm9_enc_master_key_to_der(m, &p, &len);
		else { sm9_enc_master_key_extract_key(m, "bob", 3, k); sm9_enc_key_to_der(k, &p, &len); } free(m); free(k); }
	if (len) puthex(buf, len); else printf("ERR");
}
static int handle_det(size_t nw, char **w) {
	if (!strcmp(w[0], "mk") && nw == 2 && (!strcmp(w[1], "sm9smpk") || !strcmp(w[1], "sm9smsk") || !strcmp(w[1], "sm9sk") || !strcmp(w[1], "sm9empk") || !strcmp(w[1], "sm9emsk") || !strcmp(w[1], "sm9ek") || !strncmp(w[1], "sm9p8", 5))) { ent_seed(0x5139, -1); mk_sm9(w[1]); return 1; }
	if (!strcmp(w[0], "fz") && nw == 5 && !strcmp(w[1], "sm9p8")) { xb in = xhex(w[4]); ent_seed(0xF00D, -1); fz_sm9p8(w[2], w[3], in); xfree(in); return 1; }
	if (strcmp(w[0], "det") || nw != 3) return 0;
	{ xb in = xhex(w[2]); const char *k = w[1]; det_bad = 0; ent_seed(0xDE7, -1); printf("det");
	  if (!strcmp(k, "cert")) det_cert(in); else if (!strcmp(k, "crl")) det_crl(in); else if (!strcmp(k, "req")) det_req(in); else if (!strcmp(k, "cms")) det_cms(in);
	  else if (!strcmp(k, "sm9sig")) det_sm9sig(in); else if (!strcmp(k, "sm9smpk")) det_sm9smpk(in); else if (!strcmp(k, "sm9smsk")) det_sm9smsk(in); else if (!strcmp(k, "sm9sk")) det_sm9sk(in);
	  else if (!strcmp(k, "sm9empk")) det_sm9empk(in); else if (!strcmp(k, "sm9emsk")) det_sm9emsk(in); else if (!strcmp(k, "sm9ek")) det_sm9ek(in);
	  else if (!strcmp(k, "sm2pub")) det_sm2pub(in); else if (!strcmp(k, "sm2priv")) det_sm2priv(in); else printf(" bad-kind");
	  printf(det_bad ? " BAD" : " DETERMINED"); xfree(in); }
	return 1;
}

#include "harness_wave5.inc"
static void handle(size_t nw, char **w) {
	if (handle_wave5(nw, w)) return;
	if (handle_det(nw, w)) return;
	if (handle_cap(nw, w)) return;
	if (handle_seq(nw, w)) return;
	if (!strcmp(w[0], "mk") && nw == 2) { ent_seed(0xC06, -1); do_mk(w[1]); return; }
	if (!strcmp(w[0], "fz") && nw == 3 && !strcmp(w[1], "tagname")) { fz_tagname(w[2]); return; }
	if (!strcmp(w[0], "fz") && nw == 4 && !strcmp(w[1], "pem")) { xb in = xhex(w[3]); fz_pem(w[2], in); xfree(in); return; }
	if (!strcmp(w[0], "fz") && nw == 3) {
		xb in = xhex(w[2]); const char *k = w[1];
		ent_seed(0xF00D, -1);
		if (!strcmp(k, "cert")) fz_cert(in); else if (!strcmp(k, "certs")) fz_certs(in); else if (!strcmp(k, "crl")) fz_crl(in);
		else if (!strcmp(k, "req")) fz_req(in); else if (!strcmp(k, "cms")) fz_cms(in); else if (!strcmp(k, "p8")) fz_p8(in);
		else if (!strcmp(k, "sm2priv")) fz_sm2priv(in); else if (!strcmp(k, "sm2pub")) fz_sm2pub(in); else if (!strcmp(k, "sm2ct")) fz_sm2ct(in);
		else if (!strcmp(k, "sm2sig")) fz_sm2sig(in); else if (!strcmp(k, "sm9sig")) fz_sm9sig(in); else if (!strcmp(k, "sm9ct")) fz_sm9ct(in);
		else if (!strcmp(k, "sm2point")) fz_sm2point(in); else if (!strcmp(k, "tlsrec")) fz_tlsrec(in);
		else printf("ERR bad-kind");
		xfree(in); return;
	}
	printf("ERR bad-op");
}

int main(void) {
	int i;
	nul = fopen("/dev/null", "w");
	ent_seed(0xC06C06, -1); ent_clock(NOW);
	for (i = 0; i < 3; i++) if (sm2_key_generate(&keys[i]) != 1) { printf("KEYGEN-FAIL\n"); return 2; }
	main_loop(handle);
	return 0;
}
