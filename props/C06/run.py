"""C06 — no memory-safety violation on untrusted input.
Part A (modelled, proof + correspondence): the DER primitive / text codec decoders of Codec/*.v
  against the ASan+UBSan build with exactly sized buffers; `FAULT` from the harness must
  correspond to the model's verdict (the Fixed model never faults: Props/Properties_C06.v).
Part B (fuzz only, TEST SUPPORT, not proof): mutation of valid certificates, CRLs, requests, CMS,
  PKCS#8, SM2/SM9 objects, TLS records, PEM through the parse/print/check entry points with the
  oracle "no sanitizer report, no crash, terminates"."""
import re, subprocess, os
from vlib import core
from vlib.core import hexs
from vlib.codec_common import der_len, tlv, der_uint, b128, mutate, compare, key_hints, sm2_pub_bytes, tlv_spans, structured_mutations

# ------------------------------------------------------------------------------------ part A
def gen_modelled(ctx):
    r = ctx.rng
    K = 12 if ctx.tier == "thorough" else 3
    cases = []
    add = lambda line, cell: cases.append((line, cell))

    def fam(op, valid, budget=40, hint=None):
        """valid objects + structure-aware mutations + random stream for one decoder op;
        hint(bytes) = extra tokens (curve-arithmetic hints for the key models)"""
        name = op.split()[0] + (":" + op.split()[1] if op.split()[0] in ("strD", "isstr") else "")
        h = (lambda b: hint(b)) if hint else (lambda b: "")
        for v in valid:
            add("%s %s%s" % (op, hexs(v), h(v)), name + ":valid")
            for kind, m in structured_mutations(r, v, budget * K):
                add("%s %s%s" % (op, hexs(m), h(m)), name + ":" + kind)
        for _ in range(30 * K):
            b = r.bytes(r.range(0, 12))
            add("%s %s%s" % (op, hexs(b), h(b)), name + ":random-stream")
            # random stream that starts like the expected object
            if valid:
                v = r.choice(valid)
                b = v[:r.range(1, min(4, len(v)))] + r.bytes(r.range(0, 20))
                add("%s %s%s" % (op, hexs(b), h(b)), name + ":random-after-header")

    octs = [tlv(4, r.bytes(n)) for n in (0, 1, 5, 127, 128, 200, 256)]
    fam("typD 4", octs); fam("netD 4", octs); fam("anytD", octs); fam("anyD", octs)
    fam("lenD", [der_len(n) + r.bytes(n) for n in (0, 1, 127, 128, 255, 256, 300)], 20)
    fam("boolD 1", [bytes([1, 1, 255]), bytes([1, 1, 0])], 20)
    ints = [der_uint(x) for x in (0, 1, 127, 128, 255, 256, 2**31 - 1, 2**31, 2**32 - 1, 2**63, 2**255, 2**256 - 1)]
    fam("intD 2", ints); fam("i32D 2", ints[:9])
    bits = [tlv(3, bytes([(-nb) % 8]) + r.bytes((nb + 7) // 8)) for nb in (0, 1, 7, 8, 9, 31, 32, 33, 64, 520)]
    fam("bstrD 3", bits); fam("boctD 3", bits); fam("bitsD 3", bits[:8])
    fam("nullD", [bytes([5, 0])], 10)
    arcs = [0, 1, 127, 128, 16383, 16384, 2**21, 2**28 - 1, 2**28, 2**32 - 1]
    def oid(nodes):
        return bytes([nodes[0] * 40 + nodes[1]]) + b"".join(b128(a) for a in nodes[2:])
    oids = [oid([1, 2] + [r.choice(arcs) for _ in range(c - 2)]) for c in (2, 3, 8, 31, 32)] + \
           [oid([1, 2] + [r.below(128) for _ in range(c - 2)]) for c in (31, 32, 33, 34, 64)]
    fam("oidD", oids); fam("oidderD 6", [tlv(6, o) for o in oids])
    for c in (30, 31, 32, 33, 34, 35, 64, 128):      # element count at capacity-1 .. capacity+1 and far beyond
        add("oidD %s" % hexs(oid([1, 2] + [1] * (c - 2))), "oidD:count%s" % ("<=cap" if c <= 32 else ("cap+1" if c == 33 else ">cap+1")))
        add("oidderD 6 %s" % hexs(tlv(6, oid([1, 2] + [r.below(2**32) for _ in range(c - 2)]))), "oidderD:count%s" % ("<=cap" if c <= 32 else ("cap+1" if c == 33 else ">cap+1")))
    for mx in (1, 2, 4, 8):
        for c in (mx - 1, mx, mx + 1, mx + 2, 4 * mx):
            if c < 0:
                continue
            body = b"".join(der_uint(r.below(1 << r.range(1, 31))) for _ in range(c))
            add("seqintD %d %s" % (mx, hexs(tlv(0x30, body))), "seqintD:count%s" % ("<=max" if c <= mx else ("max+1" if c == mx + 1 else ">max+1")))
            for kind, m in structured_mutations(r, tlv(0x30, body), 12 * K):
                add("seqintD %d %s" % (mx, hexs(m)), "seqintD:" + kind)
    for k, tag in (("utf8", 12), ("prn", 19), ("ia5", 22)):
        strs = [tlv(tag, s) for s in (b"a", b"GmSSL test", "中文证书".encode(), "é€\U00010000".encode(), b"A" * 130)]
        fam("strD %s %d" % (k, tag), strs, 24)
        for _ in range(60 * K):
            s = bytes(r.choice([r.below(256), 0xc3, 0xe4, 0xf0, 0x80, 0xbf, 0x41]) for _ in range(r.range(0, 9)))
            add("isstr %s %s" % (k, hexs(s)), "isstr:%s:random" % k)
    times = [tlv(23, b"250101000000Z"), tlv(23, b"491231235959Z"), tlv(24, b"20250101000000Z"), tlv(24, b"99991231235959Z")]
    fam("timeD 1 23", times[:2], 30); fam("timeD 0 24", times[2:], 30)
    sigs = [tlv(0x30, der_uint(int.from_bytes(r.bytes(32), "big")) + der_uint(int.from_bytes(r.bytes(32), "big"))) for _ in range(3)] + \
           [tlv(0x30, der_uint(1) + der_uint(2**256 - 1))]
    fam("sigD", sigs, 60)
    # composite objects (models of coq/Codec/Pkcs.v, Pem.v)
    import importlib.util, os
    spec = importlib.util.spec_from_file_location("c14_run", os.path.join(core.ROOT, "props", "C14", "run.py"))
    c14 = importlib.util.module_from_spec(spec); spec.loader.exec_module(c14)
    salt = r.bytes(8)
    fam("pkalgD", [tlv(0x30, c14.oid_der(10) + c14.oid_der(1)), tlv(0x30, c14.oid_der(11) + b"\x05\x00")], 20)
    fam("encalgD", [tlv(0x30, c14.oid_der(20) + tlv(4, r.bytes(16)))], 20)
    fam("kdfpD", [c14.kdf_params(salt, 3, 16, 30), c14.kdf_params(salt, 65536)], 30)
    fam("p8eD", [c14.p8e_der(salt, 3, 16, 30, 20, r.bytes(16), r.bytes(48)), c14.p8e_der(salt, 2, None, None, 20, r.bytes(16), r.bytes(16))], 60)
    fam("ctD", [tlv(0x30, der_uint(int.from_bytes(r.bytes(32), "big")) + der_uint(int.from_bytes(r.bytes(32), "big")) + tlv(4, r.bytes(32)) + tlv(4, r.bytes(n))) for n in (1, 255)], 50)
    d = r.bytes(32)
    xy = sm2_pub_bytes(d)
    fam("pubiD", [tlv(0x30, tlv(0x30, c14.oid_der(10) + c14.oid_der(1)) + tlv(3, b"\0\x04" + xy))], 50, hint=key_hints)
    fam("privD", [c14.priv_der(d)], 60, hint=key_hints)
    fam("p8D", [c14.p8_der(d), c14.p8_der(d, attrs=b"\x30\x03\x02\x01\x05")], 60, hint=key_hints)
    import base64
    for n in (1, 48, 100):
        data = r.bytes(n)
        b64 = base64.b64encode(data)
        text = b"-----BEGIN X-----\n" + b"".join(b64[i:i + 64] + b"\n" for i in range(0, len(b64), 64)) + b"-----END X-----\n"
        for cap in (n + 8, n, n - 1, 0):
            add("pemR 58 %d %s" % (cap, hexs(text)), "pemR:capacity%s" % (">=len" if cap >= n else "<len"))
            for kind, m in [("noise", mutate(r, text, r.range(1, 3))) for _ in range(10 * K)] + [("truncate", text[:c]) for c in range(0, len(text), max(1, len(text) // 10))]:
                add("pemR 58 %d %s" % (cap, hexs(m)), "pemR:" + kind)
    for _ in range(40 * K):
        t = r.bytes(r.range(0, 40)).hex().encode()
        add("hexD %s" % hexs(mutate(r, t, r.below(3))), "hexD:mutated")
        add("hexD %s" % hexs(r.bytes(r.range(0, 9))), "hexD:random-stream")
        t = base64.b64encode(r.bytes(r.range(0, 60)))
        add("b64blkD %s" % hexs(mutate(r, t, r.below(3))), "b64blkD:mutated")
        add("b64blkD %s" % hexs(bytes(r.choice([32, 9, 10, 13, 65, 61, 45]) for _ in range(r.range(0, 9)))), "b64blkD:ws-and-controls")
        txt = b"".join(base64.b64encode(r.bytes(48)) + b"\n" for _ in range(r.below(3))) + base64.b64encode(r.bytes(r.range(0, 47))) + b"\n"
        chunks = r.split(mutate(r, txt, r.below(3)), r.range(1, 4))
        add("b64D %s" % ",".join(hexs(c) for c in chunks), "b64D:mutated")
        add("b64D %s" % hexs(bytes(r.choice([65, 66, 61, 10, 45, 32, 33, 200]) for _ in range(r.range(1, 140)))), "b64D:alphabet-stream")
    return cases


# ------------------------------------------------------------------------------------ part B
FUZZ_KINDS = {
    # fz kind: seeds (mk kinds)
    "cert": ["cert", "cacert", "certnoext"], "certs": ["cert"], "crl": ["crl"], "req": ["req"],
    "cms": ["cmsdata", "cmssigned", "cmsenv", "cmsenc", "cmssignenv"], "p8": ["p8", "p8e"],
    "sm2priv": ["sm2priv"], "sm2pub": ["sm2pub"], "sm2ct": ["sm2ct"], "sm2sig": ["sm2sig"],
    "tlsrec": ["tlsch", "tlssh", "tlscert", "tlscert5", "tlsske", "tlscr", "tlsckepke", "tlsckeecdhe", "tlscv", "tlsfin", "tlsshd", "tlsalert", "tlsccs", "tlsapp"],
}


def fix_record(b, fix_handshake):
    """what tls_record_recv guarantees: header length = payload length (and optionally a consistent handshake length)"""
    if len(b) < 5:
        b = b + bytes(5 - len(b))
    n = min(len(b) - 5, 0xffff)
    b = bytearray(b[:5 + n])
    b[3], b[4] = n >> 8, n & 255
    if fix_handshake and b[0] == 22 and n >= 4:
        h = n - 4
        b[6], b[7], b[8] = (h >> 16) & 255, (h >> 8) & 255, h & 255
    return bytes(b)


def gen_fuzz(ctx, seeds):
    r = ctx.rng
    K = 12 if ctx.tier == "thorough" else 3
    cases = []
    add = lambda line, cell: cases.append((line, cell))
    for kind, mks in FUZZ_KINDS.items():
        for mk in mks:
            s = seeds.get(mk)
            if not s:
                continue
            add("fz %s %s" % (kind, hexs(s)), "fz:%s:%s:valid" % (kind, mk))
            budget = (160 if len(s) < 700 else 260) * K
            for mkind, m in structured_mutations(r, s, budget):
                if kind == "tlsrec":
                    m = fix_record(m, r.chance(2, 3))
                add("fz %s %s" % (kind, hexs(m)), "fz:%s:%s:%s" % (kind, mk, mkind))
            if kind == "tlsrec":            # vectors inside the handshake body: every 1/2/3-byte length field candidate
                body = bytearray(s)
                for pos in range(9, min(len(body), 9 + 120)):
                    for v in (0, 1, 0x7f, 0xff):
                        m = bytearray(body); m[pos] = v
                        add("fz tlsrec %s" % hexs(fix_record(bytes(m), True)), "fz:tlsrec:%s:field-sweep" % mk)
    # certificate lists (TLS_CONNECT.server_certs) and an over-long chain in a Certificate message
    if seeds.get("cert") and seeds.get("cacert"):
        chain = seeds["cert"] + seeds["cacert"]
        add("fz certs %s" % hexs(chain), "fz:certs:chain:valid")
        for mkind, m in structured_mutations(r, chain, 120 * K):
            add("fz certs %s" % hexs(m), "fz:certs:chain:" + mkind)
    # SM2 points / SM9 objects (hand-made seeds)
    pt = seeds.get("sm2pub", b"")[-65:]
    for p in (b"", b"\x00", b"\x04", b"\x04" + bytes(64), pt, pt[:33], b"\x02" + pt[1:33], b"\x03" + pt[1:33], b"\x06" + pt[1:], pt + b"\x00", b"\x04" + b"\xff" * 64):
        add("fz sm2point %s" % hexs(p), "fz:sm2point:%s" % ("empty" if not p else "len%d" % len(p)))
    for _ in range(60 * K):
        add("fz sm2point %s" % hexs(mutate(r, pt, r.range(1, 2))), "fz:sm2point:mutated")
    sm9sig = tlv(0x30, tlv(4, r.bytes(32)) + tlv(3, b"\x00\x04" + r.bytes(64)))
    sm9ct = tlv(0x30, der_uint(0) + tlv(3, b"\x00\x04" + r.bytes(64)) + tlv(4, r.bytes(32)) + tlv(4, r.bytes(40)))
    for kind, s in (("sm9sig", sm9sig), ("sm9ct", sm9ct)):
        add("fz %s %s" % (kind, hexs(s)), "fz:%s:handmade" % kind)
        for mkind, m in structured_mutations(r, s, 100 * K):
            add("fz %s %s" % (kind, hexs(m)), "fz:%s:%s" % (kind, mkind))
    # PEM: body sizes around the declared capacity, newline styles, junk
    import base64
    for n in (1, 47, 48, 49, 100, 300):
        body = r.bytes(n)
        b64 = base64.b64encode(body)
        text = b"-----BEGIN CERTIFICATE-----\n" + b"".join(b64[i:i + 64] + b"\n" for i in range(0, len(b64), 64)) + b"-----END CERTIFICATE-----\n"
        for cap in (n + 80, n + 2, n, n - 1, n // 2, 1):
            if cap >= 0:
                add("fz pem %d %s" % (cap, hexs(text)), "fz:pem:capacity%s" % (">=body+2" if cap >= n + 2 else ("=body" if cap >= n else "<body")))
        for _ in range(10 * K):
            add("fz pem %d %s" % (n + 80, hexs(mutate(r, text, r.range(1, 3)))), "fz:pem:mutated")
        add("fz pem %d %s" % (n + 80, hexs(text.replace(b"\n", b"\r\n"))), "fz:pem:crlf")
        add("fz pem %d %s" % (n + 80, hexs(text[:-1])), "fz:pem:no-final-newline")
        add("fz pem %d %s" % (4096, hexs(b"-----BEGIN CERTIFICATE-----\n" + b64[:20] + b"A" * 200 + b"\n-----END CERTIFICATE-----\n")), "fz:pem:long-line")
    # password-encrypted SM9 keys: every loader x every kind of key, right / wrong password, mutated
    for kind in ("smsk", "sk", "emsk", "ek"):
        s = seeds.get("sm9p8" + kind)
        if not s:
            continue
        for loader in ("smsk", "sk", "emsk", "ek"):
            for pw in ("pw", "no"):
                add("fz sm9p8 %s %s %s" % (loader, pw, hexs(s)), "fz:sm9p8:%s-into-%s:%s" % (kind, loader, "right-password" if pw == "pw" else "wrong-password"))
            for mkind, m in structured_mutations(r, s, 24 * K):
                add("fz sm9p8 %s pw %s" % (loader, hexs(m)), "fz:sm9p8:%s-into-%s:%s" % (kind, loader, mkind))
    for t in (0, 5, 48, 0x7f, 0x80, 0x81, 0x9f, 0xa0, 0xa3, 0xbf, 0xc0, 0xff, 256):
        add("fz tagname %d" % t, "fz:tagname:%s" % ("context" if 0x80 <= t < 0xc0 else "other"))
    return cases



# ------------------------------------------------------------------------------------ part C: capacities
# ------------------------------------------------------------------------------------ part B, wave 5 (TEST SUPPORT)
MK5_KINDS = ["richcert", "richca", "richnouri", "iapcert", "richname", "richnamedc", "richcrl", "richcrlplain", "kai", "cmssd", "cmssev",
             "tlsext_svc", "tlsext_svs", "tlsext_ksc", "tlsext_kss", "tlsext_sigc", "tlsext_ca", "tlsext_all", "uri", "httpresp", "seqint"]
# fz5 kind: seeds; a name without prefix is a `mk5` seed, "mk:<kind>" is one of the existing `mk` seeds
FUZZ5_KINDS = {
    "cert": ["richcert", "richca", "richnouri", "iapcert", "mk:cert", "mk:cacert", "mk:certnoext"],
    "certs": ["richcert", "mk:cert"],
    "crl": ["richcrl", "richcrlplain", "mk:crl"],
    "name": ["richname", "richnamedc"],
    "cms": ["kai", "cmssd", "cmssev", "mk:cmsenv", "mk:cmssignenv", "mk:cmssigned", "mk:cmsenc", "mk:cmsdata"],
    "sm9smsk": ["mk:sm9smsk"], "sm9smpk": ["mk:sm9smpk"], "sm9sk": ["mk:sm9sk"], "sm9emsk": ["mk:sm9emsk"], "sm9empk": ["mk:sm9empk"], "sm9ek": ["mk:sm9ek"],
    "tlsrec": ["mk:tlsch", "mk:tlssh", "mk:tlscert", "mk:tlsske", "mk:tlscr", "mk:tlsckepke", "mk:tlsckeecdhe", "mk:tlscv", "mk:tlsfin", "mk:tlsshd", "mk:tlsalert", "mk:tlsccs", "mk:tlsapp"],
    "tlsext": ["tlsext_svc", "tlsext_svs", "tlsext_ksc", "tlsext_kss", "tlsext_sigc", "tlsext_ca", "tlsext_all"],
    "http": ["uri", "httpresp"],
    "asn1": ["seqint", "richname"],
}
# seeds whose VALID form already aborts the process (library defect, see findings): every mutant that keeps the shape dies the same
# way and core.run_lines gives up after 200 restarts per shard, so their mutation budget is kept small until the library is fixed
FUZZ5_SMALL_BUDGET = {"iapcert": 40}


def gen_fuzz5(ctx, seeds, seeds5):
    """(line, cell) like gen_fuzz; seeds = the `mk` seeds, seeds5 = the `mk5` seeds"""
    r = ctx.rng
    K = 12 if ctx.tier == "thorough" else 1
    cases = []
    add = lambda line, cell: cases.append((line, cell))
    for kind, mks in FUZZ5_KINDS.items():
        for mk in mks:
            s = seeds.get(mk[3:]) if mk.startswith("mk:") else seeds5.get(mk)
            name = mk[3:] if mk.startswith("mk:") else mk
            if not s:
                continue
            add("fz5 %s %s" % (kind, hexs(s)), "fz5:%s:%s:valid" % (kind, name))
            budget = FUZZ5_SMALL_BUDGET.get(name, (48 if len(s) < 700 else 72) * K)
            for mkind, m in structured_mutations(r, s, budget):
                if kind == "tlsrec":
                    m = fix_record(m, r.chance(2, 3))
                add("fz5 %s %s" % (kind, hexs(m)), "fz5:%s:%s:%s" % (kind, name, mkind))
            if kind == "http":              # text: byte noise is the interesting class (sscanf / strstr / atoi)
                for _ in range(40 * K):
                    add("fz5 http %s" % hexs(mutate(r, s, r.range(1, 4))), "fz5:http:%s:noise" % name)
    # hand-made http inputs: field widths of http_parse_uri (host[128], path[256]) and Content-Length values
    for host in (1, 126, 127, 128, 129, 300):
        for path in (0, 1, 253, 254, 255, 256, 400):
            add("fz5 http %s" % hexs(b"http://" + b"h" * host + b":8080/" + b"p" * path), "fz5:http:uri-widths")
            add("fz5 http %s" % hexs(b"http://" + b"h" * host + b"/" + b"p" * path), "fz5:http:uri-widths")
    for cl in (b"0", b"-1", b"1", b"12", b"13", b"2147483647", b"2147483648", b"4294967297", b"99999999999999999999", b"", b"x"):
        add("fz5 http %s" % hexs(b"HTTP/1.1 200 OK\r\nContent-Length: " + cl + b"\r\n\r\nhello world!"), "fz5:http:content-length")
    return cases



def gen_capacity(ctx):
    """(line, cell, expected) — expected: exact result string, or a predicate on the result"""
    r = ctx.rng
    cases = []
    def add(line, cell, exp):
        cases.append((line, cell, exp))
    # RecipientInfo / EnvelopedData: wrapped key length against the caller's capacity (callers pass key[32])
    for maxlen in (16, 32, 64, 255):
        for wl in sorted({1, 15, 16, 17, 31, 32, 33, 64, 200, 254, 255, maxlen - 1, maxlen, maxlen + 1}):
            if 1 <= wl <= 255:
                add("cap rcpt %d %d" % (wl, maxlen), "cap:rcpt:%s" % ("fits" if wl <= maxlen else "exceeds"),
                    ("r=1 len=%d ok=1" % wl) if wl <= maxlen else "r=-1")
    for wl in (1, 15, 16, 17, 31, 32, 33, 34, 48, 64, 128, 200, 254, 255):
        for two in (0, 1):
            add("cap env %d %d" % (wl, two), "cap:env:wrapped%s" % ("=16" if wl == 16 else ("<=32" if wl <= 32 else ">32")),
                "r=1 len=40 ok=1" if wl == 16 else "r=-1")
    for n in (1, 2, 16, 32, 100, 254, 255):
        add("cap sm2dec %d %d" % (n, n), "cap:sm2dec:exact-buffer", "r=1 len=%d" % n)
    for which, cap in (("dec", 366), ("enc", 255)):
        seqs = [[cap], [cap, 1], [cap + 1], [1] * 5, [100, 100, 100, 100], [cap - 1, 1, 1], [0, cap, 0, 1], [200, 200], [cap // 2, cap // 2, cap // 2]]
        for _ in range(12):
            seqs.append([r.choice([0, 1, 7, 50, 100, 200, cap, cap + 1, r.below(cap + 20)]) for _ in range(r.range(1, 6))])
        for q in seqs:
            cur, st = 0, []
            for n in q:
                if n <= cap - cur:
                    cur += n; st.append("1")
                else:
                    st.append("-1")
            add("cap sm2upd %s %s" % (which, ",".join(str(n) for n in q)), "cap:sm2upd:%s:%s" % (which, "overflow-attempt" if "-1" in st else "fits"),
                "r=%s, size=%d" % (",".join(st), cur))
    for kind in ("cert", "certs", "req", "cms"):
        for delta in (-200, -2, -1, 0, 1, 100):
            add("cap pem %s %d" % (kind, delta), "cap:pem:%s:%s" % (kind, "fits" if delta >= 0 else "exceeds"),
                (lambda o, d=delta: (re.fullmatch(r"need=(\d+) r=1 len=\1", o) is not None) if d >= 0 else (re.fullmatch(r"need=\d+ r=-1", o) is not None)))
    # x509_crl_new_from_cert: CRLDistributionPoints without any URI (empty point, reasons/issuer only, nameRelativeToCRLIssuer,
    # fullName without a URI, several such points): 0 and *crl = NULL whatever the stack held (defect:dp_uri); no URI, so no network
    for dp in ("3000", "3004030201fe", "300ea00ca10a300806035504030c0178", "300ca00aa0088206646e732e6578", "30003000", "3000300ea00ca10a300806035504030c0178",
               "300ea00ca10a300806035504030c01783000", "30083006" + "3004" + "8202" + "6161"):      # the argument is the list of DistributionPoint TLVs
        add("cap crlfromcert %s" % dp, "cap:crlfromcert:no-uri", "r=0 crl=NULL")
    for n in (1, 2, 3, 8):
        for delta in (-97, -3, -2, -1, 0, 1):
            add("cap tlsauth %d %d" % (n, delta), "cap:tlsauth:%s" % ("fits" if delta >= 0 else "exceeds"),
                (lambda o, d=delta: (re.fullmatch(r"need=(\d+) r=1 len=\1", o) is not None) if d >= 0 else (re.fullmatch(r"need=\d+ r=-1", o) is not None)))
    for rep in (1, 2, 10, 23, 24, 40, 100, 400):
        for maxlen in (0, 8, 21, 22, 32, 64, 512, 528):
            add("cap tlsexts %d %d" % (rep, maxlen), "cap:tlsexts:%s" % ("fits" if 22 * rep + 8 <= maxlen else "exceeds"),
                (lambda o, rp=rep, mx=maxlen: ("OVER-CAPACITY" not in o) and (not o.startswith("FAULT")) and (o == "r=1 len=22" if (rp == 1 and mx >= 32) else True) and (o.startswith("r=-1") if 22 * rp > mx else True)))
    for v in (12, 13):
        for n in (1, 2, 3, 4, 5, 6, 8):
            for we in (0, 1):
                add("cap tlscerts %d %d %d" % (v, n, we), "cap:tlscerts:tls%d" % v,
                    (lambda o: (lambda m: m is not None and ((int(m.group(1)) <= 2048 and m.group(2) == "1 len=" + m.group(1)) or (int(m.group(1)) > 2048 and m.group(2) == "-1")))(re.fullmatch(r"total=(\d+) r=(-1|1 len=\d+)", o))))
    for max_ in (1, 3, 4):
        for cnt in (0, 1, max_ - 1, max_, max_ + 1, max_ + 2, 3 * max_):
            if cnt >= 0:
                exp = ("r=1 cnt=%d" % cnt) if cnt <= max_ else "r=-1"
                if cnt == 0:
                    exp = lambda o: not o.startswith("FAULT")          # an empty SET / SEQUENCE is refused or accepted by the TLV layer
                add("cap digalgs %d %d" % (cnt, max_), "cap:digalgs:%s" % ("fits" if cnt <= max_ else "exceeds"), exp)
                add("cap eku %d %d" % (cnt, max_), "cap:eku:%s" % ("fits" if cnt <= max_ else "exceeds"), exp)
    return cases



# ------------------------------------------------------------------------------------ part D: failure-then-cleanup / retry
BAD_BUNDLES = ["missing", "empty", "garbage", "binary", "trunc2", "cutline", "garb2", "noend"]


# ------------------------------------------------------------------------------------ part C, wave 5
NAMES5_EXPECTED = "OK 544"     # measured once on /repo HEAD (ASan build); the number of non-NULL table entries over ids -2..300 + 23 extra ids.
                               # It MUST be stable from run to run (no entropy, no clock involved); it changes only when the library's name tables change -
                               # then re-measure with `echo names5 | <harness>` and update this constant after reviewing the table change.


def gen_capacity5(ctx):
    """(line, cell, expected) like gen_capacity"""
    cases = [("names5", "names5:tables", NAMES5_EXPECTED)]
    for seed in (1, 2, 0xabcdef) + ((7, 8, 9, 10) if ctx.tier == "thorough" else ()):      # ~1.5 s each under ASan (8 PBKDF2 runs of 65536 iterations)
        cases.append(("sm9io5 %d" % seed, "sm9io5:generate-extract-pem-roundtrip-print", "OK"))
    return cases



def gen_sequences(ctx):
    """(line, cell, predicate): loaders / initialisers on caller-owned objects fed a file that fails at some stage,
    followed by cleanup, by a retry with a good file on the same object, or by the next call of an ordinary caller"""
    cases = []
    def add(line, cell, must_retry_ok=True):
        cases.append((line, cell, must_retry_ok))
    for bad in BAD_BUNDLES + ["good", "many", "first"]:
        add("seq certs_new %s good" % bad, "seq:certs_new:%s" % ("good" if bad in ("good", "many", "first") else "fails"))
        add("seq cert_new %s cert" % bad, "seq:cert_new:%s" % ("good" if bad in ("good", "many", "first", "trunc2", "cutline", "garb2", "noend") else "fails"))
    for bad in ("missing", "empty", "garbage", "reqtrunc", "cert", "req"):
        add("seq req_new %s req" % bad, "seq:req_new:%s" % ("good" if bad == "req" else "fails"))
    for bad in BAD_BUNDLES + ["good"]:
        for after in ("cleanup", "retry", "init", "retry+init"):
            add("seq ctx ca %s x %s" % (bad, after), "seq:ctx-ca:%s:%s" % ("good" if bad == "good" else "fails", after), bad != "good")
    for chain in ("good", "trunc2", "garbage", "missing", "empty"):
        for key, cls in (("key1", "matching"), ("key0", "other-key"), ("keytrunc", "truncated-key"), ("missing", "no-key-file"), ("garbage", "garbage-key")):
            for after in ("cleanup", "retry", "init", "wrongpass+retry"):
                if chain != "good" and key != "key1":
                    continue
                good = chain == "good" and key == "key1" and "wrongpass" not in after
                add("seq ctx cert %s %s %s" % (chain, key, after), "seq:ctx-cert:%s:%s" % ("good" if good else "chain-" + chain + ":" + cls, after.replace("wrongpass+", "wrongpass-")), not good)
    for chain in ("good", "first", "trunc2", "garbage"):
        for key in ("key1", "key0", "keytrunc"):
            for after in ("cleanup", "retry", "init"):
                good = chain == "good" and key == "key1"
                add("seq ctx tlcp %s %s %s" % (chain, key, after), "seq:ctx-tlcp:%s:%s" % ("good" if good else "fails", after), not good)
    return cases



# ------------------------------------------------------------------------------------ part E: out-parameters fully determined
DET_KINDS = {"cert": ["cert", "cacert", "certnoext"], "crl": ["crl"], "req": ["req"], "cms": ["cmsdata", "cmssigned", "cmsenv", "cmsenc", "cmssignenv"],
             "sm9smpk": ["sm9smpk"], "sm9smsk": ["sm9smsk"], "sm9sk": ["sm9sk"], "sm9empk": ["sm9empk"], "sm9emsk": ["sm9emsk"], "sm9ek": ["sm9ek"],
             "sm2pub": ["sm2pub"], "sm2priv": ["sm2priv"]}


def gen_determined(ctx, seeds):
    r = ctx.rng
    K = 4 if ctx.tier == "thorough" else 1
    cases = []
    for kind, mks in DET_KINDS.items():
        for mk in mks:
            s = seeds.get(mk)
            if not s:
                continue
            cases.append(("det %s %s" % (kind, hexs(s)), "det:%s:%s:valid" % (kind, mk)))
            for mkind, m in structured_mutations(r, s, (60 if len(s) < 700 else 100) * K):
                cases.append(("det %s %s" % (kind, hexs(m)), "det:%s:%s:%s" % (kind, mk, mkind)))
    return cases


def locate(exe, line):
    """re-run one faulting op alone and name the first library frame of the sanitizer report"""
    e = dict(os.environ)
    e["C06_TMP"] = os.path.join(core.BUILD, "c06_tmp")
    e["ASAN_OPTIONS"] = "detect_leaks=0:abort_on_error=0:allocator_may_return_null=1"
    e["UBSAN_OPTIONS"] = "print_stacktrace=1"
    try:
        p = subprocess.run([exe], input=(line + "\n").encode(), stdout=subprocess.PIPE, stderr=subprocess.PIPE, env=e, timeout=120)
    except subprocess.TimeoutExpired:
        return "timeout", ""
    err = p.stderr.decode("utf-8", "replace")
    m = re.search(r"SUMMARY: \w+Sanitizer: (\S+) \S*?/src/([\w.]+):\d+(?::\d+)? in (\w+)", err)
    if m:
        return "%s:%s" % (m.group(1), m.group(3)), err[-1800:]
    for fm in re.finditer(r"#\d+ 0x[0-9a-f]+ in (\w+) \S*?/src/([\w.]+):\d+", err):
        if not fm.group(1).startswith("__"):
            kind = "ubsan" if "runtime error" in err else "asan"
            return "%s:%s" % (kind, fm.group(1)), err[-1800:]
    return "crash", err[-1800:]


def run(ctx):
    ctx.check_proofs()
    model, log = core.build_model("C14")
    if model is None:
        ctx.violation("correspondence:model-build", "extracted model does not build: " + log[-500:], {"kind": "correspondence", "log": log[-3000:]}, False)
        return finish(ctx, 0, 0, 0)
    der, log = core.build_harness("C14", "asan")
    fz, log2 = core.build_harness("C06", "asan")
    if der is None or fz is None:
        core.harness_build_failed(ctx, log if der is None else log2)
        return finish(ctx, 0, 0, 0)
    # ---- part A
    from vlib import codec_x509, codec_crl, codec_cms
    casesA = gen_modelled(ctx) + codec_x509.gen_x509(ctx, scale=2) + codec_crl.gen_crl(ctx, scale=1) + codec_cms.gen_cms(ctx, scale=1)
    linesA = [c[0] for c in casesA]
    mout, _ = core.run_lines(model, linesA)
    iout, ierr = core.run_lines(der, linesA)
    nbad = compare(ctx, casesA, iout, mout, "asan", ierr, out_of_scope=("bit_empty", "oid_first", "oid_lead", "utf8", "digest_ret", "encdata_enc", "time_neg", "multiple"))
    ctx.notes.append("modelled part: %d cases, %d disagreements" % (len(casesA), nbad))
    # ---- part B
    mk = sorted({m for ms in FUZZ_KINDS.values() for m in ms} | {m for ms in DET_KINDS.values() for m in ms} | {"sm9p8smsk", "sm9p8sk", "sm9p8emsk", "sm9p8ek"})
    sout, _ = core.run_lines(fz, ["mk " + m for m in mk], shards=1)
    seeds = {}
    for m, o in zip(mk, sout):
        if re.fullmatch(r"[0-9a-f]+", o or ""):
            seeds[m] = bytes.fromhex(o)
        else:
            ctx.notes.append("seed %s could not be built: %s" % (m, (o or "")[:60]))
    s5out, _ = core.run_lines(fz, ["mk5 " + m for m in MK5_KINDS], shards=1)
    seeds5 = {}
    for m, o in zip(MK5_KINDS, s5out):
        if re.fullmatch(r"[0-9a-f]+", o or ""):
            seeds5[m] = bytes.fromhex(o)
        else:
            # `ERR <step>`: a builder of the library refused / changed behaviour (the step names the call) - not silent
            ctx.violation("fuzz5:seed:" + m, "wave-5 seed `%s` could not be built: %s" % (m, (o or "")[:80]),
                          {"kind": "failing-input", "op": "mk5 " + m, "impl": o, "expected": "hex", "harness": "props/C06/harness.c"}, found_input=True)
    casesB = gen_fuzz(ctx, seeds) + gen_fuzz5(ctx, seeds, seeds5)
    linesB = [c[0] for c in casesB]
    fout, ferr = core.run_lines(fz, linesB, timeout=600)
    located = {}
    nfault = 0
    for (line, cell), o in zip(casesB, fout):
        ctx.cov["evaluations"] += 1
        kind = line.split(" ")[1]
        ctx.count("fuzz:" + kind)
        if o.startswith("FAULT"):
            nfault += 1
            pre = cell.rsplit(":", 1)[0] + "|" + o
            seen = located.setdefault(pre, [])
            if len(seen) < 5:                           # name the faulting function for a few cases per (seed family, fault kind)
                where, err = locate(fz, line)
                seen.append(where)
            else:                                       # the rest of the family: the family's most frequent location
                where, err = max(set(seen), key=seen.count), ""
            ctx.count("fuzz-fault:" + where)
            key = "fuzz:" + where
            ctx.violation(key, "fuzz-only surface: `%s` aborts the process: %s (op `%s`)" % (kind, where, line[:140]),
                          {"kind": "failing-input", "op": line, "impl": o, "expected": "no sanitizer report / crash / hang", "harness": "props/C06/harness.c", "stderr": err}, found_input=True)
        elif "STDOUT-LEAK" in o or re.search(r"-7[78]\b", o):
            what = "a printer wrote to stdout instead of the FILE it was given" if "STDOUT-LEAK" in o else "an output length / pointer left the buffer the caller provided (-77/-78 marker)"
            ctx.violation("fuzz5:" + ("stdout-leak" if "STDOUT-LEAK" in o else "out-of-range-output"), "%s (op `%s`): %s" % (what, line[:120], o[:80]),
                          {"kind": "failing-input", "op": line, "impl": o, "expected": "nothing on stdout; lengths within capacity", "harness": "props/C06/harness.c"}, found_input=True)
        elif "OVER-CAPACITY" in o:
            ctx.violation("fuzz:pem-capacity", "pem_read returned more bytes than the declared maxlen (op `%s`): %s" % (line[:120], o),
                          {"kind": "failing-input", "op": line, "impl": o, "expected": "len <= maxlen", "harness": "props/C06/harness.c"}, found_input=True)
        elif not re.fullmatch(r"r=-?\d+(,-?\d+)*( len=\d+)?", o):
            # every printer is handed a FILE* on /dev/null: anything else on the harness's stdout was written by a printer
            # that ignored its stream (cf. the fixes 624ff34 tls_secrets_print, ac80d12 gf128_print)
            ctx.violation("fuzz:stdout-pollution:" + kind, "fuzz-only surface: `%s` wrote to stdout instead of the stream it was given: %s (op `%s`)" % (kind, o[:120], line[:140]),
                          {"kind": "failing-input", "op": line, "impl": o[:2000], "expected": "r=<status list> only", "harness": "props/C06/harness.c"}, found_input=True)
        else:
            ctx.cell(cell + (":ok" if "r=1" in o else ":err"))
    ctx.notes.append("fuzz-only part: %d cases, %d faults" % (len(casesB), nfault))
    # ---- part C: declared / implied capacities
    casesC = gen_capacity(ctx) + gen_capacity5(ctx)
    cout, _ = core.run_lines(fz, [c[0] for c in casesC], timeout=600)
    nbadc = 0
    for (line, cell, exp), o in zip(casesC, cout):
        ctx.cov["evaluations"] += 1
        ctx.count("cap:" + (line.split(" ") + ["-"])[1])
        ok = (o == exp) if isinstance(exp, str) else bool(exp(o))
        if ok and not o.startswith("FAULT"):
            ctx.cell(cell + (":ok" if "r=1" in o else ":refused"))
            continue
        nbadc += 1
        if o.startswith("FAULT"):
            where, err = locate(fz, line)
            key = "cap:" + where
            text = "capacity case `%s`: the buffer of the declared/implied capacity is overrun (%s)" % (line, where)
        else:
            where, err = "", ""
            key = cell
            text = "capacity case `%s` answered `%s`, expected %s" % (line, o[:80], exp if isinstance(exp, str) else "(predicate)")
        ctx.violation(key, text, {"kind": "failing-input", "op": line, "impl": o, "expected": exp if isinstance(exp, str) else "predicate in props/C06/run.py gen_capacity",
                                  "harness": "props/C06/harness.c", "stderr": err}, found_input=True)
    ctx.notes.append("capacity part: %d cases, %d bad" % (len(casesC), nbadc))
    # ---- part D: failure-then-cleanup / failure-then-retry sequences on caller-owned objects
    casesD = gen_sequences(ctx)
    tmpd = os.path.join(core.BUILD, "c06_tmp")
    os.makedirs(tmpd, exist_ok=True)
    dout, _ = core.run_lines(fz, [c[0] for c in casesD], timeout=900, shards=8, env={"C06_TMP": tmpd})
    nbadd = 0
    for (line, cell, retry_ok), o in zip(casesD, dout):
        ctx.cov["evaluations"] += 1
        ctx.count("seq:" + line.split(" ")[1])
        problem = None
        if o.startswith("FAULT"):
            where, err = locate(fz, line)
            problem, key = "aborts: " + where, "seq:" + where
        elif "STALE" in o:
            err = ""
            problem, key = "leaves a stale %s in the caller's object after a failed call" % ("pointer" if "STALE-POINTER" in o else "length"), "seq:stale-" + ("pointer" if "STALE-POINTER" in o else "length")
        elif "retry" in line and retry_ok and " r2=1" not in o:
            err = ""
            problem, key = "a retry with a good file on the same object is refused", cell + ":retry-refused"
        elif not re.match(r"r1=-?\d", o):
            err = ""
            problem, key = "unexpected answer", cell
        if problem is None:
            ctx.cell(cell + (":ok" if o.startswith("r1=1") else ":refused"))
            continue
        nbadd += 1
        ctx.violation(key, "sequence `%s` (%s) %s: `%s`" % (line, cell, problem, o[:80]),
                      {"kind": "failing-input", "op": line, "impl": o, "expected": "error return, object left clean, cleanup and retry work", "harness": "props/C06/harness.c",
                       "env": "C06_TMP=<build dir>/c06_tmp", "stderr": err}, found_input=True)
    import shutil
    shutil.rmtree(tmpd, ignore_errors=True)
    ctx.notes.append("sequence part: %d cases, %d bad" % (len(casesD), nbadd))
    # ---- part E: every out-parameter / struct field is written on success (two poison patterns must give the same result)
    casesE = gen_determined(ctx, seeds)
    eout, _ = core.run_lines(fz, [c[0] for c in casesE], timeout=600)
    nbade = 0
    for (line, cell), o in zip(casesE, eout):
        ctx.cov["evaluations"] += 1
        ctx.count("det:" + line.split(" ")[1])
        if o.startswith("det") and o.endswith(" DETERMINED"):
            ctx.cell(cell + (":ok" if "=1" in o else ":refused"))
            continue
        nbade += 1
        if o.startswith("FAULT"):
            where, err = locate(fz, line)
            key, text = "det:" + where, "aborts: " + where
        else:
            m = re.search(r" (\w+):(UNDETERMINED|RET-DIFFERS)", o)
            err = ""
            key, text = "det:%s:%s" % (line.split(" ")[1], m.group(1) if m else "?"), "leaves an out-parameter / field unset on success (result depends on what the target held before): " + o[:120]
        ctx.violation(key, "decode-into-dirty-target `%s...` %s" % (line[:60], text),
                      {"kind": "failing-input", "op": line, "impl": o, "expected": "identical results for targets pre-filled with 0x5a.. and 0xa5..", "harness": "props/C06/harness.c", "stderr": err}, found_input=True)
    ctx.notes.append("determined part: %d cases, %d bad" % (len(casesE), nbade))
    return finish(ctx, len(casesA), len(casesB), len(casesC), len(casesD), len(casesE))


def replay(path):
    import json
    rp = json.load(open(path)).get("replay", {})
    op = rp.get("op")
    if not op:
        print("replay names a proof obligation / relation, not an input:", json.dumps(rp)[:1000]); return 0
    if rp.get("harness") == "props/C06/harness.c":
        exe, log = core.build_harness("C06", "asan")
        tmpd = os.path.join(core.BUILD, "c06_tmp"); os.makedirs(tmpd, exist_ok=True)
        out, err = core.run_lines(exe, [op], shards=1, env={"C06_TMP": tmpd})
        print("op:    ", op[:400]); print("impl:  ", out[0]); print("stderr:", err[-2500:])
        print("FAULT" if out[0].startswith("FAULT") else "no fault")
        return 0
    model, _ = core.build_model("C14")
    exe, log = core.build_harness("C14", "asan")
    a, err = core.run_lines(exe, [op], shards=1)
    b, _ = core.run_lines(model, [op], shards=1)
    print("op:    ", op[:400]); print("impl:  ", a[0]); print("model: ", b[0])
    if err.strip():
        print("stderr:", err[-1500:])
    print("AGREE" if a[0].split(" ")[0] == b[0].split(" ~")[0].split(" ")[0] and (a[0] if not a[0].startswith("FAULT") else "FAULT") == b[0].split(" ~")[0] else "DIFFER")
    return 0


def finish(ctx, na, nb, nc=0, nd=0, ne=0):
    modelled = ["lenD", "typD", "netD", "anytD", "anyD", "boolD", "intD", "i32D", "bstrD", "boctD", "bitsD", "nullD", "oidD", "oidderD",
                "seqintD", "strD/isstr utf8|prn|ia5", "timeD", "sigD", "hexD", "b64blkD", "b64D",
                "pkalgD", "encalgD", "kdfpD", "p8eD", "ctD", "pubiD", "privD", "p8D", "pemR"]
    from vlib import codec_x509, codec_crl, codec_cms          # wave 5: X.509 ext/name/cert, CRL/request, CMS decoders (Codec/X509.v Crl.v Cms.v)
    import re as _re
    drv = open(os.path.join(core.ROOT, "props", "C14", "driver.ml")).read()
    for lst in ("x509_ops", "crl_ops", "cms_ops"):
        m = _re.search(r"let %s = \[(.*?)\]" % lst, drv, _re.S)
        modelled += _re.findall(r'"(\w+)"', m.group(1)) if m else []
    fuzz_only = ["x509_cert_from_der/print/get_details/check/verify_by_ca_cert", "x509_certs_get_count/print/verify", "x509_crl_from_der/print/check/find_revoked",
                 "x509_req_from_der/print/verify", "cms_print/content_info_from_der/verify/decrypt", "sm2_private_key_info_from_der/print, pkcs8_enced_private_key_info_from_der/print, decrypt_from_der",
                 "sm2_private_key_from_der/print", "sm2_public_key_info_from_der/print", "sm2_ciphertext_from_der/print, sm2_decrypt", "sm2_signature_print, sm2_verify",
                 "sm2_z256_point_from_octets", "sm9_signature_from_der/print", "sm9_ciphertext_from_der/print", "sm9 *_key_info_decrypt_from_der (4 loaders x 4 kinds of encrypted key)",
                 "tls_record_print, tlcp_record_print, tls13_record_print, tls_record_get_handshake_* (12 getters), tls_process_*_hello_exts", "pem_read", "asn1_tag_name",
                 "wave 5: x509_exts_print / x509_exts_check (7 cert types) / per-extension decoders, x509_name_* getters / equ / names_print, x509_certs_get_last / verify_tlcp / from_pem_by_subject, "
                 "x509_crl_to_der / verify_by_ca_cert / revoked entries, cms_deenvelop / deenvelop_and_verify / signed_and_enveloped decipher / key agreement info, sm9 *_print, "
                 "tls13 extension printers and processors, tls_extensions_print / encrypted_record_print / secrets_print, http_parse_uri / http_parse_response, asn1 helpers"]
    ctx.assumptions = [
        "Part A: decoder models take the bytes from the C pointer to the end of the buffer and identify *inlen with that length; Fault = read/write outside; the theorems of Props/Properties_C06.v are about the Fixed model",
        "Part B is fuzzing (mutation of library-issued objects, oracle = no sanitizer report / crash / hang) and is test support, not proof; it says nothing about inputs it did not try",
        "in the X.509 / CRL / CMS models a loop that does not end within its fuel (the length of its data) is Fault, so never-Fault includes termination; the keyed CMS levels (decrypt / verify) are proved with SM4-CBC, SM2 and SM3 as parameters and reach the library only through the fuzz and capacity parts",
        "uninitialised reads are visible only as UBSan/ASan reports or differing outputs (no MSan); live TLS peers and http.c are exercised by other properties' harnesses, not here",
    ]
    return ctx.finish(level="proof",
                      rule="part A: per modelled decoder, valid objects + truncation at (sampled) every byte + edits of every TLV length octet / tag + insertions + byte noise + random streams + element counts at capacity-1/capacity/capacity+1; a cell = (op, mutation class, ok|ERR|ABSENT|FAULT) on which implementation and Fixed model agreed.  part B: per fuzz kind and seed object the same mutation classes (TLS records re-framed as tls_record_recv guarantees); a cell = (kind, seed, mutation class, ok|err) that ran without a fault",
                      trusted=core.TRUSTED_COMMON + ["Coq files: Codec/Der.v Hex.v Base64.v Time.v Pkcs.v Pem.v OidTables.v (generated from the library sources by vlib/oid_tables.py) X509.v Crl.v Cms.v Sm9Key.v (models), Codec/DerProofs.v SafetyProofs.v HexProofs.v Base64Proofs.v Base64Safety.v TimeProofs.v PkcsProofs.v PkcsOpen.v PemProofs.v X509Proofs.v CrlProofs.v CmsProofs.v Sm9KeyProofs.v, Props/Properties_C06.v",
                                                     "props/C14/harness.c + harness_x509.inc harness_crl.inc harness_cms.inc harness_sm9.inc + props/C14/driver.ml (modelled ops), props/C06/harness.c (fuzz-only ops), vlib/codec_common.py codec_x509.py codec_crl.py codec_cms.py oid_tables.py"],
                      extra={"modelled_ops": modelled, "fuzz_only_ops": fuzz_only, "modelled_cases": na, "fuzz_only_cases": nb, "capacity_cases": nc, "sequence_cases": nd, "determined_cases": ne,
                             "determined_ops": ["x509_cert_get_details + x509_ext_from_der + basic_constraints / authority_key_identifier", "x509_crl_get_details", "x509_req_get_details", "cms_content_info / signed_data / signer_info / enveloped_data / recipient_info / enced_content_info _from_der", "sm9 sign/enc master key, master public key, user key _from_der", "sm2_public_key_info_from_der, sm2_private_key_from_der"],
                             "sequence_ops": ["x509_cert_new_from_file / x509_certs_new_from_file / x509_req_new_from_file (fail, owner cleanup, retry)", "tls_ctx_set_ca_certificates / tls_ctx_set_certificate_and_key / tls_ctx_set_tlcp_server_certificate_and_keys x {cleanup, retry, tls_init} + double tls_ctx_cleanup"],
                             "capacity_ops": ["cms_recipient_info_decrypt_from_der(maxlen)", "cms_enveloped_data_decrypt_from_der (key[32])", "sm2_decrypt (exact plaintext buffer)",
                                              "sm2_decrypt_update / sm2_encrypt_update (sums against 366 / 255)", "x509_cert_from_pem / x509_certs_from_pem / x509_req_from_pem / cms_from_pem (maxlen)",
                                              "tls_authorities_from_certs(maxlen)", "tls_process_client_hello_exts(maxlen)", "cms_digest_algors_from_der(max)", "x509_ext_key_usage_from_der(max_cnt)", "tls_record_get_handshake_certificate / tls13_process_certificate_list (TLS_MAX_CERTIFICATES_SIZE)",
                                              "x509_crl_new_from_cert on certificates without a CRL URI (0 / NULL, independent of the stack)", "names5 (36 name tables and their inverses)", "sm9io5 (SM9 generate / extract / PEM round trip / print)"],
                             "fuzz_only_note": "fuzz_only_ops are test support (mutation fuzzing under ASan/UBSan), not covered by any theorem"})
