"""C14 — encodings round-trip, are canonical, respect capacities (ASN.1/DER primitives, hex,
base64, time strings, SM2 signature DER)."""
import calendar, os
from vlib import core
from vlib.core import hexs
from vlib.codec_common import der_len, tlv, der_uint, b128, mutate, compare, key_hints, sm2_pub_bytes, sm2_octets_ok, SM2_N, SM2_P

INT_MAX = 2**31 - 1


def oid_octets(nodes):
    return bytes([(nodes[0] * 40 + nodes[1]) & 255]) + b"".join(b128(a) for a in nodes[2:])


def b64_text(bs, nl=b"\n", width=64):
    import base64
    t = base64.b64encode(bs)
    out = b""
    for i in range(0, len(t), width):
        out += t[i:i + width] + nl
    return out


def chunks_str(chunks):
    return ",".join(hexs(c) for c in chunks) if chunks else "."


def gen(ctx):
    r = ctx.rng
    thorough = ctx.tier == "thorough"
    K = 12 if thorough else 3
    cases = []
    add = lambda line, cell: cases.append((line, cell))

    # ------------------------------------------------------------------ length
    for l in [0, 1, 126, 127, 128, 129, 254, 255, 256, 257, 65534, 65535, 65536, 65537, 2**24 - 1, 2**24, 2**24 + 1,
              INT_MAX - 1, INT_MAX, INT_MAX + 1, 2**32 - 1, 2**32, 2**40]:
        add("lenE %d" % l, "lenE:boundary")
    for _ in range(150 * K):
        l = r.below(1 << r.range(1, 33))
        add("lenE %d" % l, "lenE:random:nbytes%d" % (0 if l < 128 else (l.bit_length() + 7) // 8))
    for l in [0, 1, 5, 127, 128, 129, 255, 256, 300, 65535, 65536]:
        for d in (-1, 0, 1, 7):
            tail = l + d
            if tail < 0 or (tail > 70000):
                continue
            add("lenD %s" % hexs(der_len(l) + r.bytes(tail)), "lenD:valid-form:tail%+d" % min(d, 1))
    nonmin = ["8100", "817f", "8180", "81ff", "820001", "82007f", "820080", "8200ff", "8201", "820100", "83000100", "83010000",
              "8400010000", "8401000000", "84ffffffff", "80", "85", "850000000001", "88", "ff", "-", "81", "82", "8280", "7f", "00"]
    for h in nonmin:
        for tl in (0, 1, 130, 260):
            add("lenD %s" % hexs((bytes.fromhex(h) if h != "-" else b"") + r.bytes(tl)), "lenD:nonminimal-or-malformed")
    for _ in range(300 * K):
        add("lenD %s" % hexs(r.bytes(r.range(0, 6)) + r.bytes(r.choice([0, 1, 5, 200]))), "lenD:random")

    # ------------------------------------------------------------------ generic TLV
    for tag in (4, 0x30, 0x31, 0xa0, 0x80, 12, 0, 255):
        for n in (0, 1, 127, 128, 255, 256, 300):
            d = r.bytes(n)
            add("typE %d %s" % (tag, hexs(d)), "typE:len%s" % ("<128" if n < 128 else ("<256" if n < 256 else ">=256")))
            e = tlv(tag, d)
            add("typD %d %s" % (tag, hexs(e + r.bytes(r.below(4)))), "typD:valid")
            add("netD %d %s" % (tag, hexs(e)), "netD:valid%s" % (":empty" if n == 0 else ""))
            add("anytD %s" % hexs(e + r.bytes(r.below(3))), "anytD:valid")
            add("anyD %s" % hexs(e + r.bytes(r.below(3))), "anyD:valid")
            add("typD %d %s" % ((tag + 1) & 255, hexs(e)), "typD:tag-mismatch")
    add("typE 4 NULL", "typE:null")
    # every encoder that emits a length: content sizes around 2^8 and 2^16 (the 2- and 3-octet length forms)
    for n in (254, 255, 256, 257, 65534, 65535, 65536, 65537):
        d = r.bytes(n)
        cell = "len2^%d%+d" % ((8, n - 256) if n < 1000 else (16, n - 65536))
        add("typE 48 %s" % hexs(d), "typE:" + cell)
        add("typD 48 %s" % hexs(tlv(0x30, d)), "typD:" + cell)
        add("anyD %s" % hexs(tlv(4, d)), "anyD:" + cell)
        add("intE 2 %s" % hexs(b"\x01" + d[1:]), "intE:" + cell)
        add("intD 2 %s" % hexs(tlv(2, b"\x01" + d[1:])), "intD:" + cell)
        add("boctE 3 %s" % hexs(d[:-1]), "boctE:" + cell)
        add("boctD 3 %s" % hexs(tlv(3, b"\0" + d[:-1])), "boctD:" + cell)
        add("bstrE 3 %s %d" % (hexs(d[:-1]), 8 * (n - 1)), "bstrE:" + cell)
        add("strE ia5 22 %s" % hexs(bytes(65 + (x % 26) for x in d)), "strE:" + cell)
        add("strD ia5 22 %s" % hexs(tlv(22, bytes(65 + (x % 26) for x in d))), "strD:" + cell)
    for op in ("typD 4", "netD 4", "anytD", "anyD"):
        add("%s -" % op, op.split()[0] + ":empty-input")
    base = tlv(4, r.bytes(140))
    for cut in list(range(0, 8)) + [len(base) - 1]:
        for op in ("typD 4", "netD 4", "anytD", "anyD"):
            add("%s %s" % (op, hexs(base[:cut])), op.split()[0] + ":truncated")
    for _ in range(300 * K):
        e = mutate(r, tlv(r.choice([4, 0x30]), r.bytes(r.choice([0, 1, 3, 127, 128, 200]))), r.range(1, 2))
        op = r.choice(["typD 4", "typD 48", "netD 4", "anytD", "anyD"])
        add("%s %s" % (op, hexs(e)), op.split()[0] + ":mutated")

    # ------------------------------------------------------------------ boolean
    for tag in (1, 0x81):
        for v in (-5, -1, 0, 1, 2, 255, 256, 2**31 - 1):
            add("boolE %d %d" % (tag, v), "boolE:%s" % ("absent" if v < 0 else ("false" if v == 0 else "true")))
        for v in range(256):
            add("boolD %d %s" % (tag, hexs(bytes([tag, 1, v]) + r.bytes(r.below(3)))), "boolD:value-%s" % ("ff" if v == 255 else ("00" if v == 0 else "other")))
        for lb in (0, 2, 3, 0x81, 0xff):
            add("boolD %d %s" % (tag, hexs(bytes([tag, lb, 0xff, 0xff]))), "boolD:bad-length")
        for h in ("-", "%02x" % tag, "%02x01" % tag, "02 01 ff".replace(" ", ""), "%02x0100" % (tag ^ 0x40)):
            add("boolD %d %s" % (tag, h), "boolD:short-or-other-tag")

    # ------------------------------------------------------------------ INTEGER, byte-string form
    ints = [b"\0", b"\0\0", b"\0\0\0", b"\x01", b"\x7f", b"\x80", b"\xff", b"\0\x7f", b"\0\x80", b"\0\0\x80", b"\0\0\x01",
            b"\x7f" + b"\xff" * 31, b"\x80" + b"\0" * 31, b"\0" * 32, b"\0" * 31 + b"\x01", b"\xff" * 126, b"\xff" * 127, b"\xff" * 128,
            b"\x7f" * 127, b"\x7f" * 128, b"\x01" * 255, b"\x81" * 255, b"\x01" * 256]
    for a in ints:
        for tag in (2, 0x80):
            add("intE %d %s" % (tag, hexs(a)), "intE:%s%s" % ("lead0" if a[0] == 0 and len(a) > 1 else "plain", ":hibit" if a.lstrip(b"\0")[:1] >= b"\x80" else ""))
    add("intE 2 NULL", "intE:null")
    add("intE 2 -", "intE:empty")
    for _ in range(120 * K):
        a = b"\0" * r.choice([0, 0, 1, 3]) + r.bytes(r.range(1, 40))
        add("intE 2 %s" % hexs(a), "intE:random")
        add("intD 2 %s" % hexs(der_uint(int.from_bytes(a, "big")) + r.bytes(r.below(3))), "intD:valid")
    for h in ["0200", "020100", "02017f", "020180", "0201ff", "02020000", "0202007f", "02020080", "020200ff", "0203000001", "0203000080",
              "02028000", "0202ff7f", "02", "0201", "020200", "0281010a", "028200010a", "0205000000007f", "03017f", "-", "02810100",
              "0221" + "00" + "80" * 32, "0221" + "00" + "7f" * 32, "0220" + "80" * 32, "0220" + "7f" * 32]:
        add("intD 2 %s" % h, "intD:minimality-sign-length")
    for _ in range(300 * K):
        e = mutate(r, der_uint(int.from_bytes(r.bytes(r.range(1, 34)), "big")), r.range(1, 2))
        add("intD 2 %s" % hexs(e), "intD:mutated")

    # ------------------------------------------------------------------ INTEGER, C int form
    ivals = [0, 1, 127, 128, 255, 256, 32767, 32768, 65535, 65536, 2**23 - 1, 2**23, 2**24 - 1, 2**24, 2**31 - 2, 2**31 - 1, -1, -2, -128, -2**31]
    for a in ivals:
        add("i32E 2 %d" % a, "i32E:%s" % ("absent" if a == -1 else ("negative" if a < 0 else "bytes%d" % max(1, (a.bit_length() + 7) // 8))))
        if a >= 0:
            add("i32D 2 %s" % hexs(der_uint(a) + r.bytes(r.below(2))), "i32D:valid")
    for _ in range(100 * K):
        a = r.below(1 << r.range(1, 31))
        add("i32E 2 %d" % a, "i32E:random")
        add("i32D 2 %s" % hexs(der_uint(a)), "i32D:random")
    for h in ["02050080000000", "020500ffffffff", "020500800000ff", "02050100000000", "02047fffffff", "020480000000", "0206000000000001",
              "02060080000000ff", "0204007fffff", "020400800000", "0203800000", "02030080ff"]:
        add("i32D 2 %s" % h, "i32D:sign-bit-and-width")
    for _ in range(150 * K):
        add("i32D 2 %s" % hexs(mutate(r, der_uint(r.below(2**32)), 1)), "i32D:mutated")

    # ------------------------------------------------------------------ BIT STRING
    for nbits in [0, 1, 7, 8, 9, 15, 16, 17, 63, 64, 1015, 1016, 1017, 2040]:
        b = r.bytes((nbits + 7) // 8)
        add("bstrE 3 %s %d" % (hexs(b), nbits), "bstrE:%s" % ("empty" if nbits == 0 else ("aligned" if nbits % 8 == 0 else "unused")))
        e = tlv(3, bytes([(-nbits) % 8]) + b)
        add("bstrD 3 %s" % hexs(e + r.bytes(r.below(2))), "bstrD:%s" % ("empty" if nbits == 0 else "valid"))
        add("boctD 3 %s" % hexs(e), "boctD:%s" % ("empty" if nbits == 0 else ("aligned" if nbits % 8 == 0 else "unaligned")))
        if nbits % 8 == 0:
            add("boctE 3 %s" % hexs(b), "boctE:%s" % ("empty" if nbits == 0 else "valid"))
    add("bstrE 3 NULL 0", "bstrE:null")
    add("bstrE 3 NULL 5", "bstrE:null-nonzero")
    add("boctE 3 NULL", "boctE:null")
    for h in ["0300", "030100", "030101", "030107", "030108", "03020800", "030207ff", "030200ff", "0302ff00", "03", "0301", "0302", "-", "040100", "03810100"]:
        add("bstrD 3 %s" % h, "bstrD:short-or-bad-unused")
        add("boctD 3 %s" % h, "boctD:short-or-bad-unused")
        add("bitsD 3 %s" % h, "bitsD:short-or-bad-unused")
    for v in [0, 1, 2, 3, 5, 127, 128, 255, 256, 257, 0x8000, 0xffff, 0x10000, 2**24 - 1, 2**24, 2**30, 2**31 - 1, -1, -7]:
        add("bitsE 3 %d" % v, "bitsE:%s" % ("absent" if v < 0 else "nbits%d" % ((max(1, v.bit_length()) + 7) // 8)))
    for _ in range(80 * K):
        v = r.below(1 << r.range(1, 31))
        add("bitsE 3 %d" % v, "bitsE:random")
    for nb in range(0, 41):
        b = r.bytes((nb + 7) // 8)
        add("bitsD 3 %s" % hexs(tlv(3, bytes([(-nb) % 8]) + b)), "bitsD:nbits%s" % ("<=31" if nb <= 31 else ">31"))
    for _ in range(200 * K):
        nb = r.range(1, 40)
        e = mutate(r, tlv(3, bytes([(-nb) % 8]) + r.bytes((nb + 7) // 8)), 1)
        op = r.choice(["bstrD", "boctD", "bitsD"])
        add("%s 3 %s" % (op, hexs(e)), op + ":mutated")

    # ------------------------------------------------------------------ NULL
    add("nullE", "nullE")
    for h in ["0500", "050000", "0501", "05", "-", "0400", "05ff", "0581"]:
        add("nullD %s" % h, "nullD")

    # ------------------------------------------------------------------ OBJECT IDENTIFIER
    arcv = [0, 1, 127, 128, 129, 16383, 16384, 2**21 - 1, 2**21, 2**28 - 1, 2**28, 2**31, 2**32 - 1]
    for a in arcv:
        add("oidE 1.2.%d" % a, "oidE:arc-septets%d" % max(1, (a.bit_length() + 6) // 7))
        add("oidD %s" % hexs(oid_octets([1, 2, a])), "oidD:arc-septets%d" % max(1, (a.bit_length() + 6) // 7))
        add("oidderE 6 1.2.%d.%d" % (a, r.choice(arcv)), "oidderE:valid")
        add("oidderD 6 %s" % hexs(tlv(6, oid_octets([1, 2, a, 840])) + r.bytes(r.below(2))), "oidderD:valid")
    for n0 in range(0, 4):
        for n1 in (0, 1, 39, 40, 47, 79, 80, 100, 175, 176, 999):
            add("oidE %d.%d.3" % (n0, n1), "oidE:first-arcs:%s" % ("x690" if n0 < 2 and n1 < 40 or n0 == 2 and n1 < 40 else "beyond-one-octet"))
    for b0 in (0, 39, 40, 79, 80, 119, 120, 127, 128, 0x88, 200, 255):
        add("oidD %s" % hexs(bytes([b0, 0x37])), "oidD:first-octet:%s" % ("<80" if b0 < 80 else (">=80" if b0 < 128 else "hibit")))
        add("oidD %s" % hexs(bytes([b0])), "oidD:first-octet-only:%s" % ("<80" if b0 < 80 else (">=80" if b0 < 128 else "hibit")))
    for cnt in (1, 2, 3, 31, 32, 33, 34, 40):
        nodes = [1, 2] + [r.choice(arcv) for _ in range(cnt - 2)] if cnt >= 2 else [1]
        add("oidE %s" % ".".join(str(x) for x in nodes), "oidE:count%s" % ("=cap" if cnt == 32 else ("<cap" if cnt < 32 else ">cap")))
        add("oidderE 6 %s" % ".".join(str(x) for x in nodes), "oidderE:count%s" % ("=cap" if cnt == 32 else ("<cap" if cnt < 32 else ">cap")))
        if cnt >= 2:
            small = [1, 2] + [r.below(128) for _ in range(cnt - 2)]
            for nodes2 in (nodes, small):
                add("oidD %s" % hexs(oid_octets(nodes2)), "oidD:count%s" % ("=cap" if cnt == 32 else ("<cap" if cnt < 32 else ("=cap+1" if cnt == 33 else ">cap+1"))))
                add("oidderD 6 %s" % hexs(tlv(6, oid_octets(nodes2))), "oidderD:count%s" % ("=cap" if cnt == 32 else ("<cap" if cnt < 32 else ("=cap+1" if cnt == 33 else ">cap+1"))))
    add("oidderE 6 NULL", "oidderE:null")
    for h in ["2a8001", "2a808001", "2a80", "2a8080808001", "2a8f80808000", "2a9080808000", "2a8fffffff7f", "2aff", "2a81", "2a818283848586",
              "-", "2a808080808001", "2a0080", "2a8100"]:
        add("oidD %s" % h, "oidD:lead80-overflow-truncated")
        add("oidderD 6 %s" % (hexs(tlv(6, bytes.fromhex(h))) if h != "-" else "0600"), "oidderD:lead80-overflow-truncated")
    for _ in range(300 * K):
        nodes = [r.below(3), r.below(40)] + [r.choice(arcv + [r.below(2**32)]) for _ in range(r.range(0, 8))]
        add("oidD %s" % hexs(mutate(r, oid_octets(nodes), 1)), "oidD:mutated")
        add("oidderD 6 %s" % hexs(mutate(r, tlv(6, oid_octets(nodes)), 1)), "oidderD:mutated")
        add("oidE %s" % ".".join(str(x) for x in nodes), "oidE:random")

    # ------------------------------------------------------------------ SEQUENCE OF INTEGER
    for cnt in (0, 1, 2, 7, 8, 9, 40):
        nums = [r.choice(ivals[:16]) for _ in range(cnt)]
        add("seqintE %s" % (",".join(str(x) for x in nums) if nums else "."), "seqintE:count%d" % min(cnt, 3))
        body = b"".join(der_uint(x) for x in nums)
        for mx in (cnt - 1, cnt, cnt + 1, 0):
            if mx < 0:
                continue
            add("seqintD %d %s" % (mx, hexs(tlv(0x30, body) + r.bytes(r.below(2)))), "seqintD:max%s" % ("=0" if mx == 0 else ("=count" if mx == cnt else ("=count-1" if mx < cnt else ">count"))))
    add("seqintE 1,-1,2", "seqintE:absent-element")
    add("seqintE 1,-5", "seqintE:negative-element")
    for h in ["3000", "30", "-", "3003020100", "300302017f00", "3003040100", "30060201010500", "3181020101", "30050203800000", "300702050080000000"]:
        add("seqintD 4 %s" % h, "seqintD:malformed")
    for _ in range(150 * K):
        nums = [r.below(1 << r.range(1, 31)) for _ in range(r.range(1, 6))]
        e = tlv(0x30, b"".join(der_uint(x) for x in nums))
        add("seqintD %d %s" % (r.range(1, 7), hexs(mutate(r, e, r.below(2)))), "seqintD:mutated")

    # ------------------------------------------------------------------ character strings
    for c in range(256):
        for k in ("prn", "ia5", "utf8"):
            add("isstr %s %02x" % (k, c), "isstr:%s:single-byte" % k)
    u8 = ["é", "ß", "中", "文", "€", "߿", "ࠀ", "￿", "\U00010000", "\U0010ffff", "a中b", "中文证书", "\x7f", "\x00", "abc"]
    for s in u8:
        b = s.encode("utf-8")
        cls = "ascii" if len(b) == len(s) else "multibyte"
        add("isstr utf8 %s" % hexs(b), "isstr:utf8:valid-" + cls)
        add("strE utf8 12 %s" % hexs(b), "strE:utf8:valid-" + cls)
        add("strD utf8 12 %s" % hexs(tlv(12, b) + r.bytes(r.below(2))), "strD:utf8:valid-" + cls)
    for h in ["c3", "c328", "c3c3", "e282", "e28228", "e2ac", "f0908d", "f0288c8c", "f8808080", "fc80808080", "80", "bf", "c080", "ff", "61c3", "e2282828", "c3e9", "c3a9c3"]:
        add("isstr utf8 %s" % h, "isstr:utf8:malformed")
        add("strD utf8 12 %s" % hexs(tlv(12, bytes.fromhex(h))), "strD:utf8:malformed")
        add("strE utf8 12 %s" % h, "strE:utf8:malformed")
    for k, tag in (("prn", 19), ("ia5", 22), ("utf8", 12)):
        add("isstr %s -" % k, "isstr:%s:empty" % k)
        add("strE %s %d -" % (k, tag), "strE:%s:empty" % k)
        add("strE %s %d NULL" % (k, tag), "strE:%s:null" % k)
        add("strD %s %d %02x00" % (k, tag, tag), "strD:%s:empty" % k)
        add("strD %s %d -" % (k, tag), "strD:%s:empty-input" % k)
        for s in (b"GmSSL CA (test), O=x/y:z=?", b"a@b.c", b"under_score", b"star*", b"Hello World", b"A" * 127, b"A" * 128, b"z" * 300):
            add("isstr %s %s" % (k, hexs(s)), "isstr:%s:text" % k)
            add("strE %s %d %s" % (k, tag, hexs(s)), "strE:%s:text" % k)
            add("strD %s %d %s" % (k, tag, hexs(tlv(tag, s))), "strD:%s:text" % k)
        for _ in range(60 * K):
            s = bytes(r.choice([r.below(128), r.below(256), 0x41 + r.below(26)]) for _ in range(r.range(1, 12)))
            add("isstr %s %s" % (k, hexs(s)), "isstr:%s:random" % k)
            add("strD %s %d %s" % (k, tag, hexs(mutate(r, tlv(tag, s), r.below(2)))), "strD:%s:mutated" % k)

    # ------------------------------------------------------------------ time
    def ts(y, mo, d, h=0, mi=0, s=0):
        return calendar.timegm((y, mo, d, h, mi, s))
    tvals = [0, 1, 59, 60, 3599, 3600, 86399, 86400, ts(1970, 12, 31, 23, 59, 59), ts(1971, 1, 1), ts(1972, 2, 28, 23, 59, 59), ts(1972, 2, 29),
             ts(1972, 3, 1), ts(1999, 12, 31, 23, 59, 59), ts(2000, 1, 1), ts(2000, 2, 29), ts(2000, 3, 1), ts(2001, 2, 28), ts(2001, 3, 1),
             ts(2038, 1, 19, 3, 14, 7), ts(2038, 1, 19, 3, 14, 8), ts(2049, 12, 31, 23, 59, 59), ts(2050, 1, 1), ts(2050, 12, 31, 23, 59, 59),
             ts(2051, 1, 1), ts(2100, 2, 28), ts(2100, 3, 1), ts(2400, 2, 29), ts(9999, 12, 31, 23, 59, 59), ts(9999, 12, 31, 23, 59, 59) + 1,
             2**40, 2**61]
    for t in tvals:
        for utc in (1, 0):
            add("timeS %d %d" % (utc, t), "timeS:%s:boundary" % ("utc" if utc else "gen"))
            add("timeE %d %d %d" % (utc, 23 if utc else 24, t), "timeE:%s:boundary" % ("utc" if utc else "gen"))
    for t in (-2, -5, -59, -60, -61, -3599, -3600, -86399, -86400, -86401, -10 * 86400, -31 * 86400, -365 * 86400, -2**31, -2**31 - 1, -2**40) + tuple(-r.below(2**33) - 2 for _ in range(6 * K)):
        for utc in (1, 0):                     # signed time_t: negative time stamps other than the marker -1
            add("timeS %d %d" % (utc, t), "timeS:%s:negative" % ("utc" if utc else "gen"))
            add("timeE %d %d %d" % (utc, 23 if utc else 24, t), "timeE:%s:negative" % ("utc" if utc else "gen"))
    add("timeE 1 23 -1", "timeE:utc:absent")
    add("timeE 0 24 -1", "timeE:gen:absent")
    import time as _t
    def fmt(t, utc):
        st = _t.gmtime(t)
        return (("%02d" % (st.tm_year % 100)) if utc else ("%04d" % st.tm_year)) + "%02d%02d%02d%02d%02dZ" % (st.tm_mon, st.tm_mday, st.tm_hour, st.tm_min, st.tm_sec)
    for _ in range(250 * K):
        utc = r.below(2)
        t = r.below(ts(2051, 1, 1) if utc else ts(9999, 12, 31, 23, 59, 59) + 1) if not r.chance(1, 3) else r.below(ts(2040, 1, 1))
        add("timeS %d %d" % (utc, t), "timeS:%s:random" % ("utc" if utc else "gen"))
        if (utc and t < ts(2051, 1, 1)) or not utc:
            s = fmt(t, utc).encode()
            add("timeP %d %s" % (utc, hexs(s)), "timeP:%s:valid" % ("utc" if utc else "gen"))
            add("timeD %d %d %s" % (utc, 23 if utc else 24, hexs(tlv(23 if utc else 24, s) + r.bytes(r.below(2)))), "timeD:%s:valid" % ("utc" if utc else "gen"))
    bad_utc = ["000101000000Z", "490101000000Z", "500101000000Z", "510101000000Z", "690101000000Z", "700101000000Z", "991231235959Z",
               "700001000000Z", "701301000000Z", "700100000000Z", "700132000000Z", "700229000000Z", "720229000000Z", "720230000000Z", "000229000000Z",
               "700431000000Z", "700101240000Z", "700101006000Z", "700101000060Z", "7001010000000", "70010100000aZ", "7a0101000000Z", "700101000000z",
               "70010100000/Z", "70010100000:Z", "\xff00101000000Z"]
    for s in bad_utc:
        b = s.encode("latin-1")
        add("timeP 1 %s" % hexs(b), "timeP:utc:field-range")
        add("timeD 1 23 %s" % hexs(tlv(23, b)), "timeD:utc:field-range")
    bad_gen = ["19700101000000Z", "19691231235959Z", "99991231235959Z", "21000229000000Z", "24000229000000Z", "20000229000000Z", "19000101000000Z",
               "20231301000000Z", "20230001000000Z", "20230132000000Z", "20230230000000Z", "20230101250000Z", "2023010100000Z", "202301010000000Z", "20230101000000+0800"]
    for s in bad_gen:
        b = s.encode()
        if len(b) == 15:
            add("timeP 0 %s" % hexs(b), "timeP:gen:field-range")
        add("timeD 0 24 %s" % hexs(tlv(24, b)), "timeD:gen:field-range-or-length")
    for h in ["-", "17", "170d", "1711" + "30" * 17, "170c" + "30" * 12, "180f", "1813" + "30" * 19]:
        add("timeD 1 23 %s" % h, "timeD:utc:short-or-length")
        add("timeD 0 24 %s" % h, "timeD:gen:short-or-length")
    for _ in range(100 * K):
        utc = r.below(2)
        s = fmt(r.below(ts(2049, 1, 1)), utc).encode()
        add("timeD %d %d %s" % (utc, 23 if utc else 24, hexs(mutate(r, tlv(23 if utc else 24, s), 1))), "timeD:%s:mutated" % ("utc" if utc else "gen"))

    # ------------------------------------------------------------------ hex
    for n in list(range(0, 6)) + [31, 32, 33, 255, 256, 1000, 4096]:
        b = r.bytes(n)
        add("hexRT 0 %s" % hexs(b), "hexRT:lower")
        add("hexRT 1 %s" % hexs(b), "hexRT:upper")
    add("hexRT 0 %s" % bytes(range(256)).hex(), "hexRT:all-bytes")
    add("hexRT 1 %s" % bytes(range(256)).hex(), "hexRT:all-bytes")
    for c in range(256):
        add("hexD %s" % hexs(bytes([c, 0x30])), "hexD:char-class-first")
        add("hexD %s" % hexs(bytes([0x41, c])), "hexD:char-class-second")
    for s in (b"", b"0", b"012", b"0g", b"g0", b"00 11", b"0x11", b"aAbBcCdDeEfF", b"00:11", b"0011\n"):
        add("hexD %s" % hexs(s), "hexD:%s" % ("odd" if len(s) % 2 else "even"))
    for _ in range(100 * K):
        t = r.bytes(r.range(0, 40)).hex().encode()
        add("hexD %s" % hexs(mutate(r, t, r.below(2))), "hexD:mutated")

    # ------------------------------------------------------------------ base64 blocks
    for n in list(range(0, 10)) + [47, 48, 49, 95, 96, 97]:
        b = r.bytes(n)
        add("b64blkE %s" % hexs(b), "b64blkE:len%%3=%d" % (n % 3))
        import base64
        t = base64.b64encode(b)
        add("b64blkD %s" % hexs(t), "b64blkD:valid:len%%3=%d" % (n % 3))
        add("b64blkD %s" % hexs(b"  " + t + b"\r\n"), "b64blkD:ws-trim")
    for s in (b"", b" ", b"    ", b"\t\t\t\t", b"A", b"AB", b"ABC", b"ABCD", b"ABC=", b"AB==", b"A===", b"====", b"AB=C", b"ABCD\n", b"ABCD\n\n\n\n", b"ABC\n", b"AB!D", b"ABCD-",
              b" ABCD", b"ABCDE", b"AB CD", b"\x80BCD", b"ABCDEFGH", b"ABCD====", b"----", b"\n\n\n\n", b" \n", b"   A"):
        add("b64blkD %s" % hexs(s), "b64blkD:%s" % ("all-ws" if s and not s.strip(b" \t") else "malformed-or-edge"))
    for _ in range(150 * K):
        t = base64.b64encode(r.bytes(r.range(0, 30)))
        add("b64blkD %s" % hexs(mutate(r, t, r.range(1, 2))), "b64blkD:mutated")

    # ------------------------------------------------------------------ base64 streams
    sizes = list(range(0, 12)) + [46, 47, 48, 49, 50, 95, 96, 97, 143, 144, 145, 1000] + ([4096] if True else [])
    for n in sizes:
        b = r.bytes(n)
        add("b64E %s" % hexs(b), "b64E:oneshot:%s" % ("<48" if n < 48 else ("=48k" if n % 48 == 0 else ">48")))
        for _ in range(3):
            add("b64E %s" % chunks_str(r.split(b, r.range(2, 8))), "b64E:split:%s" % ("<48" if n < 48 else ("=48k" if n % 48 == 0 else ">48")))
        t = b64_text(b)
        add("b64D %s" % hexs(t), "b64D:canonical:oneshot:pad%d" % ((3 - n % 3) % 3))
        for _ in range(4):
            add("b64D %s" % chunks_str(r.split(t, r.range(2, 9))), "b64D:canonical:split:pad%d" % ((3 - n % 3) % 3))
        lines = [l + b"\n" for l in t.split(b"\n") if l]
        add("b64D %s" % chunks_str(lines), "b64D:canonical:per-line:pad%d" % ((3 - n % 3) % 3))
        add("b64D %s" % chunks_str([l.rstrip(b"\n") for l in lines]), "b64D:no-newline:per-line")
        add("b64D %s" % hexs(b64_text(b, b"\r\n")), "b64D:crlf")
        add("b64D %s" % hexs(b64_text(b, b"\n", 76)), "b64D:width76")
        add("b64D %s" % hexs(b64_text(b, b"\n", 4)), "b64D:width4")
        add("b64D %s" % hexs(b64_text(b, b"")), "b64D:no-newlines")
        add("b64D %s" % hexs(t + b"-----END"), "b64D:eof-dash")
    # every split point of one padded and one unpadded text
    for n in (50, 49, 48):
        b = r.bytes(n)
        t = b64_text(b)
        for off in range(0, len(t) + 1):
            add("b64D %s" % chunks_str([t[:off], t[off:]]), "b64D:split2:pad%d:%s" % ((3 - n % 3) % 3, "in-last-group" if off >= len(t) - 5 else ("at-line" if off in (64, 65) else "body")))
    for s in (b"QUJD=", b"QUJD==", b"QUI=QUJD", b"QQ==QUJD", b"Q===", b"=QUJ", b"QUJ", b"QU", b"Q", b"QUJD!", b"QUJD\x80", b"QU JD", b"QUJD\n-", b"QU-JD", b"QUI", b"QUI=\nQUJD", b"QQ=\n=", b"QQ=", b"=", b"==", b"===", b"====", b"A" * 63 + b"=", b"A" * 62 + b"==", b"A" * 61 + b"===", b"A" * 64 + b"=", b"A" * 65):
        add("b64D %s" % hexs(s), "b64D:malformed-oneshot")
        if len(s) > 2:
            for _ in range(2):
                add("b64D %s" % chunks_str(r.split(s, r.range(2, 4))), "b64D:malformed-split")
    add("b64D .", "b64D:no-chunks")
    add("b64D -", "b64D:empty-chunk")
    add("b64D 51554a44,-,51554a44", "b64D:empty-chunk-between")
    add("b64E .", "b64E:no-chunks")
    add("b64E -", "b64E:empty-chunk")
    for _ in range(150 * K):
        t = b64_text(r.bytes(r.range(0, 120)), r.choice([b"\n", b"\r\n", b""]), r.choice([64, 76, 20]))
        add("b64D %s" % chunks_str(r.split(mutate(r, t, r.range(1, 2)), r.range(1, 4))), "b64D:mutated")

    # ------------------------------------------------------------------ SM2 signature
    svals = [b"\0" * 32, b"\0" * 31 + b"\x01", b"\x7f" + b"\xff" * 31, b"\x80" + b"\0" * 31, b"\xff" * 32, b"\0" * 16 + b"\x80" + b"\0" * 15, b"\0\x7f" + b"\x11" * 30]
    for rr in svals:
        for ss in svals[:4] + [r.bytes(32)]:
            add("sigE %s %s" % (hexs(rr), hexs(ss)), "sigE:boundary")
            e = tlv(0x30, der_uint(int.from_bytes(rr, "big")) + der_uint(int.from_bytes(ss, "big")))
            add("sigD %s" % hexs(e + r.bytes(r.below(2))), "sigD:valid")
    for _ in range(80 * K):
        rr, ss = r.bytes(32), r.bytes(32)
        add("sigE %s %s" % (hexs(rr), hexs(ss)), "sigE:random")
        e = tlv(0x30, der_uint(int.from_bytes(rr, "big")) + der_uint(int.from_bytes(ss, "big")))
        add("sigD %s" % hexs(mutate(r, e, r.below(3))), "sigD:mutated")
    one = der_uint(1)
    for body in [one, one + one + one, one + one + b"\x05\x00", b"\x02\x21\x01" + b"\0" * 32 + one, one + b"\x02\x21\x01" + b"\0" * 32, b"\x02\x02\x00\x01" + one,
                 one + b"\x02\x01\x80", b"", one + b"\x02\x00", b"\x02\x22\x00" + b"\x80" * 33 + one]:
        add("sigD %s" % hexs(tlv(0x30, body)), "sigD:structure")
    for h in ["-", "30", "3000", "3100", "308100"]:
        add("sigD %s" % h, "sigD:structure")
    return cases



# ------------------------------------------------------------------------------------ composite objects
OIDS = {1: [1, 2, 156, 10197, 1, 301], 2: [1, 2, 840, 10045, 3, 1, 1], 3: [1, 2, 840, 10045, 3, 1, 7], 4: [1, 3, 132, 0, 10], 5: [1, 3, 132, 0, 34],
        6: [1, 3, 132, 0, 35], 10: [1, 2, 840, 10045, 2, 1], 11: [1, 2, 840, 113549, 1, 1, 1], 20: [1, 2, 156, 10197, 1, 104, 2],
        21: [2, 16, 840, 1, 101, 3, 4, 1, 2], 22: [2, 16, 840, 1, 101, 3, 4, 1, 22], 23: [2, 16, 840, 1, 101, 3, 4, 1, 42],
        30: [1, 2, 156, 10197, 1, 401, 2], "pbkdf2": [1, 2, 840, 113549, 1, 5, 12], "pbes2": [1, 2, 840, 113549, 1, 5, 13], "unknown": [1, 2, 3, 4, 5]}


def oid_der(k):
    n = OIDS[k]
    return tlv(6, b128(n[0] * 40 + n[1]) + b"".join(b128(a) for a in n[2:]))


def kdf_params(salt, iter_, keylen=None, prf=None, extra=b""):
    return tlv(0x30, tlv(4, salt) + der_uint(iter_) + (der_uint(keylen) if keylen is not None else b"") +
               (tlv(0x30, oid_der(prf)) if prf is not None else b"") + extra)


def p8e_der(salt, iter_, keylen, prf, cipher, iv, enced):
    kdfa = tlv(0x30, oid_der("pbkdf2") + kdf_params(salt, iter_, keylen, prf))
    enca = tlv(0x30, oid_der(cipher) + tlv(4, iv))
    return tlv(0x30, tlv(0x30, oid_der("pbes2") + tlv(0x30, kdfa + enca)) + tlv(4, enced))


def priv_der(d, pub=None, ver=1, curve=1, with0=True, with1=True):
    pub = sm2_pub_bytes(d) if pub is None else pub
    return tlv(0x30, der_uint(ver) + tlv(4, d) + (tlv(0xa0, oid_der(curve)) if with0 else b"") +
               (tlv(0xa1, tlv(3, b"\0\x04" + pub)) if with1 else b""))


def p8_der(d, ver=0, alg=None, attrs=None, inner=None):
    alg = tlv(0x30, oid_der(10) + oid_der(1)) if alg is None else alg
    return tlv(0x30, der_uint(ver) + alg + tlv(4, priv_der(d) if inner is None else inner) + (tlv(0xa0, attrs) if attrs is not None else b""))


def gen_composite(ctx, harness):
    r = ctx.rng
    thorough = ctx.tier == "thorough"
    K = 4 if thorough else 1
    cases = []
    add = lambda line, cell: cases.append((line, cell))

    def mut(op, valid, n, hints=False, pre=""):
        for v in valid:
            for _ in range(n * K):
                m = mutate(r, v, r.range(1, 2))
                add("%s %s%s%s" % (op, pre, hexs(m), key_hints(m) if hints else ""), op.split()[0] + ":mutated")
            for cut in range(0, len(v), max(1, len(v) // 12)):
                add("%s %s%s%s" % (op, pre, hexs(v[:cut]), key_hints(v[:cut]) if hints else ""), op.split()[0] + ":truncated")

    # ---- named curves and AlgorithmIdentifiers
    for c in (1, 2, 3, 4, 5, 6, 0, -1, 7, 20):
        add("curveE %d" % c, "curveE:%s" % ("known" if 1 <= c <= 6 else "unknown"))
        add("pkalgE 10 %d" % c, "pkalgE:ec:%s" % ("known" if 1 <= c <= 6 else "unknown"))
    for k in (1, 2, 3, 4, 5, 6, 10, 20, "unknown"):
        add("curveD %s" % hexs(oid_der(k) + r.bytes(r.below(2))), "curveD:%s" % ("known" if k in (1, 2, 3, 4, 5, 6) else "not-a-curve"))
    for h in ("0500", "-", "06", "0600", "3000", "06082a811ccf5501822d00"):
        add("curveD %s" % h, "curveD:absent-or-malformed")
    for a, par in ((11, 0), (11, 1), (12, 0), (0, 0), (20, 1)):
        add("pkalgE %d %d" % (a, par), "pkalgE:%s" % ("rsa" if a == 11 else "unknown"))
    pk_valid = [tlv(0x30, oid_der(10) + oid_der(c)) for c in (1, 2, 3, 4, 5, 6)] + [tlv(0x30, oid_der(11) + b"\x05\x00"), tlv(0x30, oid_der(11))]
    pk_bad = [tlv(0x30, oid_der(10)), tlv(0x30, oid_der(10) + b"\x05\x00"), tlv(0x30, oid_der(10) + oid_der(20)), tlv(0x30, oid_der(10) + oid_der(1) + b"\x05\x00"),
              tlv(0x30, oid_der(11) + b"\x05\x00\x05\x00"), tlv(0x30, oid_der(11) + oid_der(1)), tlv(0x30, oid_der(20) + b"\x05\x00"), tlv(0x30, oid_der("unknown")),
              tlv(0x30, b""), tlv(0x31, oid_der(10) + oid_der(1)), b"", tlv(0x30, b"\x05\x00")]
    for v in pk_valid + pk_bad:
        add("pkalgD %s" % hexs(v + r.bytes(r.below(2))), "pkalgD:%s" % ("valid" if v in pk_valid else "malformed"))
        add("sm2algD %s" % hexs(v), "sm2algD:%s" % ("sm2" if v == pk_valid[0] else "other"))
    add("sm2algE", "sm2algE")
    mut("pkalgD", pk_valid[:2] + pk_valid[6:], 12)
    for a in (20, 21, 22, 23, 24, 10, 0):
        for ivl in (0, 15, 16, 17):
            add("encalgE %d %s" % (a, hexs(r.bytes(ivl))), "encalgE:%s:iv%s" % ("known" if 20 <= a <= 23 else "unknown", "=16" if ivl == 16 else "!=16"))
            add("p2eE %d %s" % (a, hexs(r.bytes(ivl))), "p2eE:%s:iv%s" % ("sm4" if a == 20 else "other", "=16" if ivl == 16 else "!=16"))
    enc_valid = [tlv(0x30, oid_der(a) + tlv(4, r.bytes(16))) for a in (20, 21, 22, 23)]
    enc_bad = [tlv(0x30, oid_der(20) + tlv(4, r.bytes(n))) for n in (0, 15, 17)] + [tlv(0x30, oid_der(20)), tlv(0x30, oid_der(20) + b"\x05\x00"), tlv(0x30, oid_der(10) + tlv(4, bytes(16))),
               tlv(0x30, oid_der("unknown") + tlv(4, bytes(16))), tlv(0x30, oid_der(20) + tlv(4, bytes(16)) + b"\x05\x00"), b"", b"\x05\x00", tlv(0x30, b"")]
    for v in enc_valid + enc_bad:
        add("encalgD %s" % hexs(v + r.bytes(r.below(2))), "encalgD:%s" % ("valid" if v in enc_valid else "malformed-or-absent"))
        add("p2eD %s" % hexs(v), "p2eD:%s" % ("sm4" if v == enc_valid[0] else "other-or-malformed"))
    mut("encalgD", enc_valid[:2], 12)

    # ---- PBKDF2-params with every presence pattern of the OPTIONAL fields, at every nesting level
    for prf in (30, -1, 20, 0):
        add("prfE %d" % prf, "prfE:%s" % ("hmac-sm3" if prf == 30 else ("absent" if prf == -1 else "other")))
    for v in (tlv(0x30, oid_der(30)), tlv(0x30, oid_der(20)), tlv(0x30, oid_der(30) + b"\x05\x00"), tlv(0x30, b""), b"", b"\x05\x00", b"\x02\x01\x10", tlv(0x30, oid_der(30))[:-1]):
        add("prfD %s" % hexs(v + r.bytes(r.below(2))), "prfD")
    combos = [(kl, prf) for kl in (None, 16, 32, 0, 255, 65536) for prf in (None, 30)]
    for salt_len in (1, 8, 16, 64):
        for it in (1, 2, 1000, 65536, 2**31 - 1):
            for kl, prf in (combos if (salt_len, it) in ((8, 65536), (16, 2)) else [r.choice(combos)]):
                salt = r.bytes(salt_len)
                cls = "keylen-%s:prf-%s" % ("absent" if kl is None else "present", "absent" if prf is None else "present")
                args = "%s %d %d %d" % (hexs(salt), it, -1 if kl is None else kl, -1 if prf is None else prf)
                add("kdfpE " + args, "kdfpE:" + cls)
                add("kdfaE " + args, "kdfaE:" + cls)
                iv = r.bytes(16)
                add("p2pE %s 20 %s" % (args, hexs(iv)), "p2pE:" + cls)
                add("p2aE %s 20 %s" % (args, hexs(iv)), "p2aE:" + cls)
                en = r.bytes(r.choice([0, 16, 160]))
                add("p8eE %s 20 %s %s" % (args, hexs(iv), hexs(en)), "p8eE:" + cls)
                kp = kdf_params(salt, it, kl, prf)
                ka = tlv(0x30, oid_der("pbkdf2") + kp)
                pp = tlv(0x30, ka + tlv(0x30, oid_der(20) + tlv(4, iv)))
                pa = tlv(0x30, oid_der("pbes2") + pp)
                for op, v in (("kdfpD", kp), ("kdfaD", ka), ("p2pD", pp), ("p2aD", pa), ("p8eD", tlv(0x30, pa + tlv(4, en)))):
                    add("%s %s" % (op, hexs(v + r.bytes(r.below(2)))), "%s:%s" % (op, cls))
    for a in ("aabb -1 16 30", "aabb 0 16 30", "- 5 16 30", "aabb 5 -1 20", "aabb -7 16 30", "aabb 5 -5 -1"):
        add("kdfpE " + a, "kdfpE:edge")
    salt = r.bytes(8)
    bad = [kdf_params(b"", 5, 16, 30), kdf_params(salt, 0, 16, 30), kdf_params(salt, 5, 16, 20), kdf_params(salt, 5, 16, 30, b"\x05\x00"), kdf_params(salt, 5, None, None, der_uint(3) + der_uint(4)),
           tlv(0x30, tlv(4, salt)), tlv(0x30, der_uint(5) + tlv(4, salt)), tlv(0x30, tlv(4, salt) + der_uint(5) + tlv(0x30, oid_der(30)) + der_uint(16)),
           tlv(0x30, tlv(4, salt) + b"\x02\x05\x00\x80\x00\x00\x00"), tlv(0x30, tlv(4, salt) + der_uint(5) + b"\x02\x01\x80"), tlv(0x30, tlv(4, salt) + der_uint(5) + tlv(0x30, oid_der(30) + oid_der(30))), b"", b"\x05\x00"]
    for v in bad:
        add("kdfpD %s" % hexs(v), "kdfpD:malformed")
        add("kdfaD %s" % hexs(tlv(0x30, oid_der("pbkdf2") + v)), "kdfaD:malformed")
        add("p8eD %s" % hexs(tlv(0x30, tlv(0x30, oid_der("pbes2") + tlv(0x30, tlv(0x30, oid_der("pbkdf2") + v) + tlv(0x30, oid_der(20) + tlv(4, bytes(16))))) + tlv(4, b"x" * 16))), "p8eD:malformed-kdf")
    good = p8e_der(salt, 3, 16, 30, 20, bytes(16), r.bytes(32))
    for v in (p8e_der(salt, 3, 16, 30, 21, bytes(16), b"x"), p8e_der(salt, 3, 16, 30, 20, bytes(15), b"x"), tlv(0x30, tlv(0x30, oid_der("pbkdf2") + b"\x05\x00") + tlv(4, b"x")),
              tlv(0x30, good[3:-34]), good + b"\x00", tlv(0x30, good[3:] + b"\x05\x00")):
        add("p8eD %s" % hexs(v), "p8eD:malformed")
    mut("kdfpD", [kdf_params(salt, 3, 16, 30), kdf_params(salt, 3)], 25)
    mut("p8eD", [good, p8e_der(salt, 3, None, None, 20, bytes(16), r.bytes(16))], 40)
    # sibling-OID substitution in every OID-dispatching composite decoder (an OID comparison that looks at a prefix only)
    from vlib.codec_common import oid_siblings
    sib_targets = [("prfD", tlv(0x30, oid_der(30))), ("kdfaD", tlv(0x30, oid_der("pbkdf2") + kdf_params(salt, 3, 16, 30))), ("kdfpD", kdf_params(salt, 3, 16, 30)),
                   ("p2aD", good[3:3 + 2 + good[4]]), ("p8eD", good), ("pkalgD", tlv(0x30, oid_der(10) + oid_der(1))), ("pkalgD", tlv(0x30, oid_der(11) + b"\x05\x00")),
                   ("encalgD", tlv(0x30, oid_der(20) + tlv(4, bytes(16)))), ("p2eD", tlv(0x30, oid_der(20) + tlv(4, bytes(16)))), ("curveD", oid_der(1)), ("sm2algD", tlv(0x30, oid_der(10) + oid_der(1)))]
    for op, v in sib_targets:
        for kind, m_ in oid_siblings(r, v, 24 * K):
            add("%s %s" % (op, hexs(m_)), op + ":" + kind.split("-high")[0])
    mut("p2aD", [good[3:3 + 2 + good[4]]], 25)

    # ---- SM2 ciphertext
    xs = [bytes(32), bytes(31) + b"\x01", b"\x7f" + b"\xff" * 31, b"\x80" + bytes(31), b"\xff" * 32, bytes(16) + b"\x80" + bytes(15), r.bytes(32)]
    for x in xs:
        for clen in (0, 1, 32, 255):
            y, h, c = r.choice(xs), r.bytes(32), r.bytes(clen)
            add("ctE %s %s %s %s" % (hexs(x), hexs(y), hexs(h), hexs(c)), "ctE:clen%s" % ("=0" if clen == 0 else ("=255" if clen == 255 else "mid")))
            e = tlv(0x30, der_uint(int.from_bytes(x, "big")) + der_uint(int.from_bytes(y, "big")) + tlv(4, h) + tlv(4, c))
            add("ctD %s" % hexs(e + r.bytes(r.below(2))), "ctD:valid")
    one = der_uint(1)
    for body in (one + one + tlv(4, bytes(32)) + tlv(4, bytes(256)), one + one + tlv(4, bytes(31)) + tlv(4, b"x"), one + one + tlv(4, bytes(33)) + tlv(4, b"x"), one + one + tlv(4, bytes(32)),
                 one + tlv(4, bytes(32)) + tlv(4, b"x"), tlv(2, b"\x01" + bytes(32)) + one + tlv(4, bytes(32)) + tlv(4, b"x"), one + tlv(2, b"\x00" + b"\x80" * 33) + tlv(4, bytes(32)) + tlv(4, b"x"),
                 one + one + tlv(4, bytes(32)) + tlv(4, b"x") + b"\x05\x00", b"\x02\x01\x80" + one + tlv(4, bytes(32)) + tlv(4, b"x"), b""):
        add("ctD %s" % hexs(tlv(0x30, body)), "ctD:structure")
    ct_ok = tlv(0x30, der_uint(int.from_bytes(r.bytes(32), "big")) + der_uint(int.from_bytes(r.bytes(32), "big")) + tlv(4, r.bytes(32)) + tlv(4, r.bytes(40)))
    mut("ctD", [ct_ok], 60)

    # ---- SM2 public keys
    ds = [r.bytes(32) for _ in range(3)] + [(1).to_bytes(32, "big"), (SM2_N - 2).to_bytes(32, "big")]
    ds = [d for d in ds if 0 < int.from_bytes(d, "big") < SM2_N - 1]
    pubs = [sm2_pub_bytes(d) for d in ds]
    for xy in pubs:
        add("pubE %s" % hexs(xy), "pubE")
        add("pubiE %s" % hexs(xy), "pubiE")
    def pubcase(op, bits, cell, wrap=False):
        v = tlv(3, bits)
        if wrap:
            v = tlv(0x30, tlv(0x30, oid_der(10) + oid_der(1)) + v)
        add("%s %s%s" % (op, hexs(v), key_hints(v)), "%s:%s" % (op, cell))
    for op, wrap in (("pubD", False), ("pubiD", True)):
        for xy in pubs:
            pubcase(op, b"\0\x04" + xy, "valid", wrap)
            y = (SM2_P - int.from_bytes(xy[32:], "big")).to_bytes(32, "big")
            pubcase(op, b"\0\x04" + xy[:32] + y, "valid-negated", wrap)
            m = bytearray(xy); m[r.below(64)] ^= 1 << r.below(8)
            pubcase(op, b"\0\x04" + bytes(m), "off-curve", wrap)
        xy = pubs[0]
        for pre in (0, 2, 3, 5, 6, 7, 0xff):
            pubcase(op, b"\0" + bytes([pre]) + xy, "bad-prefix", wrap)
        pubcase(op, b"\0\x04" + bytes(64), "zero-point", wrap)
        pubcase(op, b"\0\x04" + SM2_P.to_bytes(32, "big") + xy[32:], "x>=p", wrap)
        pubcase(op, b"\0\x04" + xy[:32] + (SM2_P + 1).to_bytes(32, "big"), "y>=p", wrap)
        pubcase(op, b"\0\x04" + b"\xff" * 64, "x,y>=p", wrap)
        pubcase(op, b"\0\x04" + xy[:63], "short", wrap)
        pubcase(op, b"\0\x04" + xy + b"\0", "long", wrap)
        pubcase(op, b"\0\x02" + xy[:32], "compressed-33", wrap)
        pubcase(op, b"\x01\x04" + xy, "unused-bits", wrap)
        pubcase(op, b"", "empty", wrap)
    add("pubiD %s%s" % (hexs(tlv(0x30, tlv(0x30, oid_der(10) + oid_der(3)) + tlv(3, b"\0\x04" + pubs[0]))), " P=04%s:1" % pubs[0].hex()), "pubiD:other-curve")
    add("pubiD %s%s" % (hexs(tlv(0x30, tlv(0x30, oid_der(11) + b"\x05\x00") + tlv(3, b"\0\x04" + pubs[0]))), " P=04%s:1" % pubs[0].hex()), "pubiD:rsa-alg")
    add("pubiD %s%s" % (hexs(tlv(0x30, tlv(0x30, oid_der(10) + oid_der(1)) + tlv(3, b"\0\x04" + pubs[0]) + b"\x05\x00")), " P=04%s:1" % pubs[0].hex()), "pubiD:trailing")
    mut("pubiD", [tlv(0x30, tlv(0x30, oid_der(10) + oid_der(1)) + tlv(3, b"\0\x04" + pubs[0]))], 40, hints=True)

    # ---- SM2 private keys, PrivateKeyInfo
    for d in ds:
        h = " H=%s:%s" % (d.hex(), sm2_pub_bytes(d).hex())
        add("privE %s%s" % (hexs(d), h), "privE")
        add("p8E %s%s" % (hexs(d), h), "p8E")
    def kcase(op, v, cell):
        add("%s %s%s" % (op, hexs(v), key_hints(v)), "%s:%s" % (op, cell))
    d0, d1 = ds[0], ds[1]
    for d in ds:
        kcase("privD", priv_der(d) + r.bytes(r.below(2)), "valid")
        kcase("p8D", p8_der(d) + r.bytes(r.below(2)), "valid:attrs-absent")
    for dbad, cls in ((bytes(32), "d=0"), ((SM2_N - 1).to_bytes(32, "big"), "d=n-1"), (SM2_N.to_bytes(32, "big"), "d=n"), (b"\xff" * 32, "d=2^256-1")):
        kcase("privD", priv_der(dbad, pub=sm2_pub_bytes(d0)), "range:" + cls)
    kcase("privD", priv_der(d0, pub=sm2_pub_bytes(d1)), "public-mismatch")
    kcase("privD", priv_der(d0, with1=False), "no-public")
    kcase("privD", priv_der(d0, with0=False), "no-params")
    kcase("privD", priv_der(d0, curve=3), "other-curve")
    for ver in (0, 2, 255):
        kcase("privD", priv_der(d0, ver=ver), "version")
    kcase("privD", tlv(0x30, der_uint(1) + tlv(4, d0[:31]) + tlv(0xa0, oid_der(1)) + tlv(0xa1, tlv(3, b"\0\x04" + sm2_pub_bytes(d0)))), "d-31-bytes")
    kcase("privD", tlv(0x30, der_uint(1) + tlv(4, b"\0" + d0) + tlv(0xa0, oid_der(1)) + tlv(0xa1, tlv(3, b"\0\x04" + sm2_pub_bytes(d0)))), "d-33-bytes")
    kcase("privD", tlv(0x30, der_uint(1) + tlv(4, d0) + tlv(0xa0, oid_der(1) + b"\x05\x00") + tlv(0xa1, tlv(3, b"\0\x04" + sm2_pub_bytes(d0)))), "params-trailing")
    kcase("privD", tlv(0x30, der_uint(1) + tlv(4, d0) + tlv(0xa0, b"") + tlv(0xa1, tlv(3, b"\0\x04" + sm2_pub_bytes(d0)))), "params-empty")
    kcase("privD", tlv(0x30, der_uint(1) + tlv(4, d0) + tlv(0xa0, oid_der(1)) + tlv(0xa1, tlv(3, b"\0\x04" + sm2_pub_bytes(d0)) + b"\x05\x00")), "public-trailing")
    kcase("privD", priv_der(d0)[:-1] , "truncated")
    kcase("privD", tlv(0x30, priv_der(d0)[3:] + b"\x05\x00"), "trailing-in-sequence")
    kcase("privD", b"", "empty")
    kcase("p8D", p8_der(d0, attrs=b"\x30\x03\x02\x01\x05"), "valid:attrs-present")
    kcase("p8D", p8_der(d0, attrs=b""), "valid:attrs-empty")
    kcase("p8D", p8_der(d0, ver=1), "version")
    kcase("p8D", p8_der(d0, alg=tlv(0x30, oid_der(11) + b"\x05\x00")), "rsa-alg")
    kcase("p8D", p8_der(d0, alg=tlv(0x30, oid_der(10) + oid_der(3))), "other-curve")
    kcase("p8D", p8_der(d0, inner=priv_der(d0) + b"\x00"), "inner-trailing")
    kcase("p8D", p8_der(d0, inner=priv_der(d0, pub=sm2_pub_bytes(d1))), "inner-public-mismatch")
    kcase("p8D", p8_der(d0, inner=b""), "inner-empty")
    kcase("p8D", tlv(0x30, p8_der(d0)[3:] + b"\x05\x00"), "trailing-in-sequence")
    kcase("p8D", tlv(0x30, der_uint(0) + tlv(0x30, oid_der(10) + oid_der(1))), "no-key")
    mut("privD", [priv_der(d0)], 70, hints=True)
    mut("p8D", [p8_der(d0), p8_der(d1, attrs=b"\x30\x00")], 50, hints=True)

    # ---- keys through PEM into a (dirty) SM2_KEY
    import base64 as _b64
    def pem_text(name, der, nl=b"\n"):
        b = _b64.b64encode(der)
        return b"-----BEGIN " + name + b"-----" + nl + b"".join(b[i:i + 64] + nl for i in range(0, len(b), 64)) + b"-----END " + name + b"-----" + nl
    def pem_hints(text):
        """hints for whatever a lenient reader could get out of a (mutated) PEM text"""
        import re as _re
        body = b"".join(l for l in text.replace(b"\r", b"").split(b"\n") if not l.startswith(b"-----"))
        body = _re.sub(rb"[^A-Za-z0-9+/]", b"", body.split(b"=")[0])
        out = ""
        for cut in (0, 1, 2, 3):
            b = body[:len(body) - cut] if cut else body
            try:
                out += key_hints(_b64.b64decode(b + b"=" * (-len(b) % 4)))
            except Exception:
                pass
        return out
    for d in ds:
        pi = tlv(0x30, tlv(0x30, oid_der(10) + oid_der(1)) + tlv(3, b"\0\x04" + sm2_pub_bytes(d)))
        for op, name, der in (("pubiP", b"PUBLIC KEY", pi), ("p8P", b"PRIVATE KEY", p8_der(d))):
            add("%s %s%s" % (op, hexs(pem_text(name, der)), key_hints(der)), op + ":valid")
            add("%s %s%s" % (op, hexs(pem_text(name, der, b"\r\n")), key_hints(der)), op + ":crlf")
            add("%s %s%s" % (op, hexs(pem_text(name, der + b"\0")), key_hints(der)), op + ":trailing-byte")
            add("%s %s%s" % (op, hexs(pem_text(b"CERTIFICATE", der)), key_hints(der)), op + ":other-name")
            add("%s %s%s" % (op, hexs(pem_text(name, der + bytes(600))), key_hints(der)), op + ":over-512")
            for _ in range(6 * K):
                m = mutate(r, der, 1)
                add("%s %s%s" % (op, hexs(pem_text(name, m)), key_hints(m)), op + ":mutated-der")
                mt = mutate(r, pem_text(name, der), 1)
                add("%s %s%s%s" % (op, hexs(mt), key_hints(der), pem_hints(mt)), op + ":mutated-text")
    add("pubiP -", "pubiP:empty")
    add("p8P -", "p8P:empty")

    # ---- password-encrypted keys: built with chosen parameters, opened with right and wrong passwords
    def keyh(d):
        xy = sm2_pub_bytes(d)
        return " H=%s:%s P=04%s:1" % (d.hex(), xy.hex(), xy.hex())
    seals = []
    for i, (it, kl, prf) in enumerate([(1, 16, 30), (2, -1, -1), (3, 16, -1), (5, -1, 30), (2, 32, 30), (2, 16, 30)]):
        d = ds[i % len(ds)]
        pw = [b"password", b"", b"a", b"correct horse battery staple 0123456789", b"pw", b"\xe5\xaf\x86\xe7\xa0\x81"][i]
        seals.append(("p8seal %s %s %s %s %d %d %d%s" % (hexs(d), hexs(pw), hexs(r.bytes(r.choice([8, 16]))), hexs(r.bytes(16)), it, kl, prf, keyh(d)), d, pw, kl))
    out, _ = core.run_lines(harness, [x[0] for x in seals], shards=1)
    for (line, d, pw, kl), o in zip(seals, out):
        add(line, "p8seal:keylen%s" % ("-absent" if kl == -1 else ("=16" if kl == 16 else "-other")))
        if not o.startswith("OK "):
            continue
        der = bytes.fromhex(o.split()[1])
        add("p8open %s %s%s" % (hexs(pw), hexs(der + r.bytes(r.below(2))), keyh(d)), "p8open:right-password:keylen%s" % ("-absent" if kl == -1 else ("=16" if kl == 16 else "-other")))
        for wrong in (pw + b"x", pw[:-1] if pw else b"z", b"Password", bytes(reversed(pw)) if len(set(pw)) > 1 else b"zz"):
            if wrong != pw:
                add("p8open %s %s%s" % (hexs(wrong), hexs(der), keyh(d)), "p8open:wrong-password")
        for _ in range(12 * K):
            add("p8open %s %s%s" % (hexs(pw), hexs(mutate(r, der, 1)), keyh(d)), "p8open:tampered")
        for cut in (0, 1, len(der) // 2, len(der) - 17, len(der) - 1):
            add("p8open %s %s%s" % (hexs(pw), hexs(der[:cut]), keyh(d)), "p8open:truncated")
    # plaintexts the library's writer never produces: PrivateKeyInfo with attributes, with trailing bytes, other structures
    raws = []
    for i, (info, cls) in enumerate([(p8_der(ds[0], attrs=b"\x30\x03\x02\x01\x05"), "attrs-present"), (p8_der(ds[1], attrs=b""), "attrs-empty"),
                                     (p8_der(ds[0]) + b"\x00", "trailing-byte"), (priv_der(ds[0]), "bare-ECPrivateKey"), (p8_der(ds[0], ver=1), "version-1")]):
        raws.append(("p8sealraw %s %s %s %s 2 16 30" % (hexs(info), hexs(b"pw"), hexs(r.bytes(8)), hexs(r.bytes(16))), info, cls))
    out, _ = core.run_lines(harness, [x[0] for x in raws], shards=1)
    for (line, info, cls), o in zip(raws, out):
        add(line, "p8sealraw:" + cls)
        if o.startswith("OK "):
            der = bytes.fromhex(o.split()[1])
            add("p8open %s %s%s" % (hexs(b"pw"), hexs(der), keyh(ds[0]) + keyh(ds[1])), "p8open:plaintext:" + cls)
    for en_len in (0, 15, 16, 32, 256, 257, 272):
        v = p8e_der(r.bytes(8), 2, 16, 30, 20, r.bytes(16), r.bytes(en_len))
        add("p8open 70617373 %s" % hexs(v), "p8open:garbage-ciphertext:len%s" % ("<=256" if en_len <= 256 else ">256"))
    add("p8open 70617373 %s" % hexs(p8e_der(r.bytes(8), 2, 16, 30, 21, r.bytes(16), r.bytes(32))), "p8open:other-cipher")
    add("p8open 70617373 %s" % hexs(p8e_der(r.bytes(8), 2, 16, None, 20, r.bytes(16), r.bytes(32))), "p8open:prf-absent")
    add("p8open 70617373 %s" % hexs(p8e_der(r.bytes(8), 2, None, 30, 20, r.bytes(16), r.bytes(32))), "p8open:keylen-absent")
    # the library's own writer (65536 iterations): PBKDF2 output is taken from the harness as a hint
    libn = 2 if not thorough else 4
    d = ds[0]
    lib = ["p8sealLib %s %s %d" % (hexs(d), hexs(b"lib-pass-%d" % i), 1000 + i) for i in range(libn)]
    out, _ = core.run_lines(harness, lib, shards=1)
    for i, o in enumerate(out):
        if not o.startswith("OK "):
            ctx.notes.append("p8sealLib failed: " + o[:80])
            continue
        der = bytes.fromhex(o.split()[1])
        from vlib.codec_common import scan_strings
        salt = next(b for t, b in scan_strings(der) if t == 4)
        pws = [b"lib-pass-%d" % i, b"lib-pass-x"]
        ks, _ = core.run_lines(harness, ["kdf %s %s 65536" % (hexs(pw), hexs(salt)) for pw in pws], shards=1)
        for pw, k in zip(pws, ks):
            add("p8open %s %s%s K=%s/%s/65536:%s" % (hexs(pw), hexs(der), keyh(d), hexs(pw), hexs(salt), k),
                "p8open:library-made:%s" % ("right-password" if pw == pws[0] else "wrong-password"))

    # ---- PEM
    import base64
    names = [b"CERTIFICATE", b"EC PRIVATE KEY", b"X", b"N" * 60, b"N" * 70]
    for n in (1, 2, 3, 47, 48, 49, 96, 100, 1000):
        data = r.bytes(n)
        name = names[n % 3]
        add("pemW %s %s" % (hexs(name), hexs(data)), "pemW:%s" % ("<48" if n < 48 else ("=48k" if n % 48 == 0 else ">48")))
        b64 = base64.b64encode(data)
        text = b"-----BEGIN " + name + b"-----\n" + b"".join(b64[i:i + 64] + b"\n" for i in range(0, len(b64), 64)) + b"-----END " + name + b"-----\n"
        for cap in (n + 100, n + 1, n, n - 1, n // 2, 0):
            add("pemR %s %d %s" % (hexs(name), cap, hexs(text)), "pemR:canonical:capacity%s" % (">=len" if cap >= n else "<len"))
        add("pemR %s %d %s" % (hexs(name), n, hexs(text.replace(b"\n", b"\r\n"))), "pemR:crlf")
        add("pemR %s %d %s" % (hexs(name), n, hexs(text[:-1])), "pemR:no-final-newline")
        add("pemR %s %d %s" % (hexs(name), n, hexs(text + b"trailing text\n")), "pemR:text-after-end")
        add("pemR %s %d %s" % (hexs(name), n, hexs(text[:text.rfind(b"-----END")])), "pemR:no-end-line")
        add("pemR %s %d %s" % (hexs(names[(n + 1) % 3]), n, hexs(text)), "pemR:other-name")
        add("pemR %s %d %s" % (hexs(name), n, hexs(b"\n" + text)), "pemR:leading-blank-line")
        wide = b"-----BEGIN " + name + b"-----\n" + b"".join(b64[i:i + 100] + b"\n" for i in range(0, len(b64), 100)) + b"-----END " + name + b"-----\n"
        add("pemR %s %d %s" % (hexs(name), n, hexs(wide)), "pemR:width100")
        narrow = b"-----BEGIN " + name + b"-----\n" + b"".join(b64[i:i + 4] + b"\n" for i in range(0, len(b64), 4)) + b"-----END " + name + b"-----\n"
        add("pemR %s %d %s" % (hexs(name), n, hexs(narrow)), "pemR:width4")
        for _ in range(8 * K):
            add("pemR %s %d %s" % (hexs(name), n + 8, hexs(mutate(r, text, r.range(1, 2)))), "pemR:mutated")
    add("pemW %s -" % hexs(b"X"), "pemW:empty")
    for nm in names[3:]:
        data = r.bytes(30)
        add("pemW %s %s" % (hexs(nm), hexs(data)), "pemW:long-name")
        text = b"-----BEGIN " + nm + b"-----\n" + base64.b64encode(data) + b"\n-----END " + nm + b"-----\n"
        add("pemR %s 30 %s" % (hexs(nm), hexs(text)), "pemR:long-name")
    for t in (b"", b"\n", b"-----BEGIN X-----", b"-----BEGIN X-----\n", b"-----BEGIN X-----\n-----END X-----\n", b"-----BEGIN X-----\nQUJD\n-----END X-----", b"-----BEGIN X-----\nQUJD\x00junk\n-----END X-----\n",
              b"-----BEGIN X-----\nQU JD\n-----END X-----\n", b"-----BEGIN X-----\nQUJ\n-----END X-----\n", b"-----BEGIN X-----\nQUJD!\n-----END X-----\n", b"-----BEGIN X-----\n" + b"QUJD" * 30 + b"\n-----END X-----\n",
              b"-----BEGIN X-----\nQQ==\n-----END X-----\n", b"-----BEGIN X-----\nQQ==\nQUJD\n-----END X-----\n", b"-----BEGIN X-----\n====\n-----END X-----\n", b" -----BEGIN X-----\nQUJD\n-----END X-----\n",
              b"-----BEGIN X-----\n-----END X-----\nQUJD\n", b"-----BEGIN X-----\n\n\nQUJD\n\n-----END X-----\n", b"-----BEGIN X-----\r\nQUJD\r\n-----END X-----\r\n", b"-----BEGIN X-----\nQUJD\n-----END X-----\r"):
        add("pemR 58 64 %s" % hexs(t), "pemR:literal")
    return cases


def run(ctx):
    ctx.check_proofs()
    # the OID tables of the models are generated from the library sources: the tree under check must still have the tables
    # the theorems were proved about (regenerate with vlib/oid_tables.py write_if_changed and re-run when the library changes)
    from vlib import oid_tables
    try:
        cur = oid_tables.render()
    except Exception as e:
        cur = "cannot parse: %r" % (e,)
    if cur != open(os.path.join(core.COQ, "Codec", "OidTables.v")).read():
        ctx.violation("correspondence:oid-tables", "the OID tables in the library sources differ from coq/Codec/OidTables.v (generated copy the theorems are about)",
                      {"kind": "correspondence", "log": cur[:2000]}, False)
    model, log = core.build_model("C14")
    if model is None:
        ctx.violation("correspondence:model-build", "extracted model does not build: " + log[-500:], {"kind": "correspondence", "log": log[-3000:]}, False)
        return finish(ctx)
    exe0, log = core.build_harness("C14", "asan")
    if exe0 is None:
        core.harness_build_failed(ctx, log)
        return finish(ctx)
    from vlib import codec_x509, codec_sm9, codec_crl, codec_cms
    cases = gen(ctx) + gen_composite(ctx, exe0) + codec_x509.gen_x509(ctx) + codec_sm9.gen_sm9(ctx, exe0) + codec_crl.gen_crl(ctx) + codec_cms.gen_cms(ctx)
    lines = [c[0] for c in cases]
    mout, _ = core.run_lines(model, lines)
    for v in (["asan"] if ctx.tier == "quick" else ["asan", "fast"]):
        exe, log = core.build_harness("C14", v)
        if exe is None:
            core.harness_build_failed(ctx, log)
            continue
        iout, ierr = core.run_lines(exe, lines)
        nbad = compare(ctx, cases, iout, mout, v, ierr)
        ctx.notes.append("variant %s: %d cases, %d disagreements" % (v, len(cases), nbad))
    return finish(ctx)


def finish(ctx):
    ctx.assumptions = [
        "decoder models take the bytes from the C pointer to the end of the buffer and identify *inlen with the length of that list; the pairing of pointer and length updates is checked by the `consumed` field compared on every case",
        "Fixed = the code after the patches proposed for the listed defects; the theorems are about Fixed; a case on which the tree still behaves like AsIs is reported as VIOLATION defect:<name>",
        "time_t is signed: asn1_time_to_str / the DER time writers are modelled over Z (time_to_str_z / time_to_der_z); a negative time stamp other than the marker -1 must be refused (defect:time_neg)",
        "OID tables of the AlgorithmIdentifier / extension / CMS models are generated from the library sources (vlib/oid_tables.py -> Codec/OidTables.v) and carry the library's enum values",
        "SM9 key containers: point validity on G1 / the twist is a parameter of the models, supplied per case by the library's own point decoders (hints G1=/G2=): the correspondence covers the decoder structure, not the SM9 curve arithmetic",
        "key models are parametric in [d]G (pub_of), curve membership (pt_ok), PBKDF2 (kdf) and SM4-CBC (cbcdec); the wrong-password clause is the structural theorem C14_encrypted_key_open_sound; that no second password satisfies it is cryptographic",
        "every decoder out-parameter is pre-filled with a poison value by the harness and printed, on success and on the 'absent' answer",
        "lengths above INT_MAX and 4-byte DER lengths with matching content (>= 16 MiB) are not exercised at run time",
    ]
    return ctx.finish(level="proof",
                      rule="cases = per-type value boundaries (length octet counts, sign/minimality of integers, all 256 boolean/char values, arc septet counts, node/element counts at capacity-1/capacity/capacity+1, UTF-8 classes, calendar boundaries, 48-byte line and 64-char block boundaries, every 2-way split of three base64 texts) + mutated valid encodings + malformed literals; a cell = (op, class, ok|ERR|ABSENT|FAULT); distinct_nontrivial = cells on which implementation and Fixed model agreed",
                      trusted=core.TRUSTED_COMMON + ["Coq files: Codec/Der.v Hex.v Base64.v Time.v Pkcs.v Pem.v PkcsInst.v OidTables.v (generated) X509.v Crl.v Cms.v Sm9Key.v (models; PkcsInst imports Hash/ PBKDF2 and Cipher/ SM4-CBC read-only), Codec/*Proofs.v PkcsOpen.v (proofs), Props/Properties_C14.v", "python SM2 point arithmetic in vlib/codec_common.py supplies [d]G and the on-curve verdict to the key models (hints H=/P=); PBKDF2 with 65536 iterations is taken from the harness (hint K=) for the library-made encrypted keys",
                                                     "vlib/codec_common.py (comparison and defect attribution)"])
