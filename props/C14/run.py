"""C14 — encodings round-trip, are canonical, respect capacities (ASN.1/DER primitives, hex,
base64, time strings, SM2 signature DER)."""
import calendar
from vlib import core
from vlib.core import hexs
from vlib.codec_common import der_len, tlv, der_uint, b128, mutate, compare

INT_MAX = 2**31 - 1


def oid_octets(nodes):
    return bytes([(nodes[0] * 40 + nodes[1]) & 255]) + b"".join(b128(a) for a in nodes[2:])


def b64_text(bs, nl=b"\n", width=64):
    import base64
    t = base64.b64encode(bs)
    out = b""
    for i in range(0, len(t), width):
        out += t[i:i + width] + nl
    return out


def chunks_str(chunks):
    return ",".join(hexs(c) for c in chunks) if chunks else "."


def gen(ctx):
    r = ctx.rng
    thorough = ctx.tier == "thorough"
    K = 12 if thorough else 3
    cases = []
    add = lambda line, cell: cases.append((line, cell))

    # ------------------------------------------------------------------ length
    for l in [0, 1, 126, 127, 128, 129, 254, 255, 256, 257, 65534, 65535, 65536, 65537, 2**24 - 1, 2**24, 2**24 + 1,
              INT_MAX - 1, INT_MAX, INT_MAX + 1, 2**32 - 1, 2**32, 2**40]:
        add("lenE %d" % l, "lenE:boundary")
    for _ in range(150 * K):
        l = r.below(1 << r.range(1, 33))
        add("lenE %d" % l, "lenE:random:nbytes%d" % (0 if l < 128 else (l.bit_length() + 7) // 8))
    for l in [0, 1, 5, 127, 128, 129, 255, 256, 300, 65535, 65536]:
        for d in (-1, 0, 1, 7):
            tail = l + d
            if tail < 0 or (tail > 70000):
                continue
            add("lenD %s" % hexs(der_len(l) + r.bytes(tail)), "lenD:valid-form:tail%+d" % min(d, 1))
    nonmin = ["8100", "817f", "8180", "81ff", "820001", "82007f", "820080", "8200ff", "8201", "820100", "83000100", "83010000",
              "8400010000", "8401000000", "84ffffffff", "80", "85", "850000000001", "88", "ff", "-", "81", "82", "8280", "7f", "00"]
    for h in nonmin:
        for tl in (0, 1, 130, 260):
            add("lenD %s" % hexs((bytes.fromhex(h) if h != "-" else b"") + r.bytes(tl)), "lenD:nonminimal-or-malformed")
    for _ in range(300 * K):
        add("lenD %s" % hexs(r.bytes(r.range(0, 6)) + r.bytes(r.choice([0, 1, 5, 200]))), "lenD:random")

    # ------------------------------------------------------------------ generic TLV
    for tag in (4, 0x30, 0x31, 0xa0, 0x80, 12, 0, 255):
        for n in (0, 1, 127, 128, 255, 256, 300):
            d = r.bytes(n)
            add("typE %d %s" % (tag, hexs(d)), "typE:len%s" % ("<128" if n < 128 else ("<256" if n < 256 else ">=256")))
            e = tlv(tag, d)
            add("typD %d %s" % (tag, hexs(e + r.bytes(r.below(4)))), "typD:valid")
            add("netD %d %s" % (tag, hexs(e)), "netD:valid%s" % (":empty" if n == 0 else ""))
            add("anytD %s" % hexs(e + r.bytes(r.below(3))), "anytD:valid")
            add("anyD %s" % hexs(e + r.bytes(r.below(3))), "anyD:valid")
            add("typD %d %s" % ((tag + 1) & 255, hexs(e)), "typD:tag-mismatch")
    add("typE 4 NULL", "typE:null")
    for op in ("typD 4", "netD 4", "anytD", "anyD"):
        add("%s -" % op, op.split()[0] + ":empty-input")
    base = tlv(4, r.bytes(140))
    for cut in list(range(0, 8)) + [len(base) - 1]:
        for op in ("typD 4", "netD 4", "anytD", "anyD"):
            add("%s %s" % (op, hexs(base[:cut])), op.split()[0] + ":truncated")
    for _ in range(300 * K):
        e = mutate(r, tlv(r.choice([4, 0x30]), r.bytes(r.choice([0, 1, 3, 127, 128, 200]))), r.range(1, 2))
        op = r.choice(["typD 4", "typD 48", "netD 4", "anytD", "anyD"])
        add("%s %s" % (op, hexs(e)), op.split()[0] + ":mutated")

    # ------------------------------------------------------------------ boolean
    for tag in (1, 0x81):
        for v in (-5, -1, 0, 1, 2, 255, 256, 2**31 - 1):
            add("boolE %d %d" % (tag, v), "boolE:%s" % ("absent" if v < 0 else ("false" if v == 0 else "true")))
        for v in range(256):
            add("boolD %d %s" % (tag, hexs(bytes([tag, 1, v]) + r.bytes(r.below(3)))), "boolD:value-%s" % ("ff" if v == 255 else ("00" if v == 0 else "other")))
        for lb in (0, 2, 3, 0x81, 0xff):
            add("boolD %d %s" % (tag, hexs(bytes([tag, lb, 0xff, 0xff]))), "boolD:bad-length")
        for h in ("-", "%02x" % tag, "%02x01" % tag, "02 01 ff".replace(" ", ""), "%02x0100" % (tag ^ 0x40)):
            add("boolD %d %s" % (tag, h), "boolD:short-or-other-tag")

    # ------------------------------------------------------------------ INTEGER, byte-string form
    ints = [b"\0", b"\0\0", b"\0\0\0", b"\x01", b"\x7f", b"\x80", b"\xff", b"\0\x7f", b"\0\x80", b"\0\0\x80", b"\0\0\x01",
            b"\x7f" + b"\xff" * 31, b"\x80" + b"\0" * 31, b"\0" * 32, b"\0" * 31 + b"\x01", b"\xff" * 126, b"\xff" * 127, b"\xff" * 128,
            b"\x7f" * 127, b"\x7f" * 128, b"\x01" * 255, b"\x81" * 255, b"\x01" * 256]
    for a in ints:
        for tag in (2, 0x80):
            add("intE %d %s" % (tag, hexs(a)), "intE:%s%s" % ("lead0" if a[0] == 0 and len(a) > 1 else "plain", ":hibit" if a.lstrip(b"\0")[:1] >= b"\x80" else ""))
    add("intE 2 NULL", "intE:null")
    add("intE 2 -", "intE:empty")
    for _ in range(120 * K):
        a = b"\0" * r.choice([0, 0, 1, 3]) + r.bytes(r.range(1, 40))
        add("intE 2 %s" % hexs(a), "intE:random")
        add("intD 2 %s" % hexs(der_uint(int.from_bytes(a, "big")) + r.bytes(r.below(3))), "intD:valid")
    for h in ["0200", "020100", "02017f", "020180", "0201ff", "02020000", "0202007f", "02020080", "020200ff", "0203000001", "0203000080",
              "02028000", "0202ff7f", "02", "0201", "020200", "0281010a", "028200010a", "0205000000007f", "03017f", "-", "02810100",
              "0221" + "00" + "80" * 32, "0221" + "00" + "7f" * 32, "0220" + "80" * 32, "0220" + "7f" * 32]:
        add("intD 2 %s" % h, "intD:minimality-sign-length")
    for _ in range(300 * K):
        e = mutate(r, der_uint(int.from_bytes(r.bytes(r.range(1, 34)), "big")), r.range(1, 2))
        add("intD 2 %s" % hexs(e), "intD:mutated")

    # ------------------------------------------------------------------ INTEGER, C int form
    ivals = [0, 1, 127, 128, 255, 256, 32767, 32768, 65535, 65536, 2**23 - 1, 2**23, 2**24 - 1, 2**24, 2**31 - 2, 2**31 - 1, -1, -2, -128, -2**31]
    for a in ivals:
        add("i32E 2 %d" % a, "i32E:%s" % ("absent" if a == -1 else ("negative" if a < 0 else "bytes%d" % max(1, (a.bit_length() + 7) // 8))))
        if a >= 0:
            add("i32D 2 %s" % hexs(der_uint(a) + r.bytes(r.below(2))), "i32D:valid")
    for _ in range(100 * K):
        a = r.below(1 << r.range(1, 31))
        add("i32E 2 %d" % a, "i32E:random")
        add("i32D 2 %s" % hexs(der_uint(a)), "i32D:random")
    for h in ["02050080000000", "020500ffffffff", "020500800000ff", "02050100000000", "02047fffffff", "020480000000", "0206000000000001",
              "02060080000000ff", "0204007fffff", "020400800000", "0203800000", "02030080ff"]:
        add("i32D 2 %s" % h, "i32D:sign-bit-and-width")
    for _ in range(150 * K):
        add("i32D 2 %s" % hexs(mutate(r, der_uint(r.below(2**32)), 1)), "i32D:mutated")

    # ------------------------------------------------------------------ BIT STRING
    for nbits in [0, 1, 7, 8, 9, 15, 16, 17, 63, 64, 1015, 1016, 1017, 2040]:
        b = r.bytes((nbits + 7) // 8)
        add("bstrE 3 %s %d" % (hexs(b), nbits), "bstrE:%s" % ("empty" if nbits == 0 else ("aligned" if nbits % 8 == 0 else "unused")))
        e = tlv(3, bytes([(-nbits) % 8]) + b)
        add("bstrD 3 %s" % hexs(e + r.bytes(r.below(2))), "bstrD:%s" % ("empty" if nbits == 0 else "valid"))
        add("boctD 3 %s" % hexs(e), "boctD:%s" % ("empty" if nbits == 0 else ("aligned" if nbits % 8 == 0 else "unaligned")))
        if nbits % 8 == 0:
            add("boctE 3 %s" % hexs(b), "boctE:%s" % ("empty" if nbits == 0 else "valid"))
    add("bstrE 3 NULL 0", "bstrE:null")
    add("bstrE 3 NULL 5", "bstrE:null-nonzero")
    add("boctE 3 NULL", "boctE:null")
    for h in ["0300", "030100", "030101", "030107", "030108", "03020800", "030207ff", "030200ff", "0302ff00", "03", "0301", "0302", "-", "040100", "03810100"]:
        add("bstrD 3 %s" % h, "bstrD:short-or-bad-unused")
        add("boctD 3 %s" % h, "boctD:short-or-bad-unused")
        add("bitsD 3 %s" % h, "bitsD:short-or-bad-unused")
    for v in [0, 1, 2, 3, 5, 127, 128, 255, 256, 257, 0x8000, 0xffff, 0x10000, 2**24 - 1, 2**24, 2**30, 2**31 - 1, -1, -7]:
        add("bitsE 3 %d" % v, "bitsE:%s" % ("absent" if v < 0 else "nbits%d" % ((max(1, v.bit_length()) + 7) // 8)))
    for _ in range(80 * K):
        v = r.below(1 << r.range(1, 31))
        add("bitsE 3 %d" % v, "bitsE:random")
    for nb in range(0, 41):
        b = r.bytes((nb + 7) // 8)
        add("bitsD 3 %s" % hexs(tlv(3, bytes([(-nb) % 8]) + b)), "bitsD:nbits%s" % ("<=31" if nb <= 31 else ">31"))
    for _ in range(200 * K):
        nb = r.range(1, 40)
        e = mutate(r, tlv(3, bytes([(-nb) % 8]) + r.bytes((nb + 7) // 8)), 1)
        op = r.choice(["bstrD", "boctD", "bitsD"])
        add("%s 3 %s" % (op, hexs(e)), op + ":mutated")

    # ------------------------------------------------------------------ NULL
    add("nullE", "nullE")
    for h in ["0500", "050000", "0501", "05", "-", "0400", "05ff", "0581"]:
        add("nullD %s" % h, "nullD")

    # ------------------------------------------------------------------ OBJECT IDENTIFIER
    arcv = [0, 1, 127, 128, 129, 16383, 16384, 2**21 - 1, 2**21, 2**28 - 1, 2**28, 2**31, 2**32 - 1]
    for a in arcv:
        add("oidE 1.2.%d" % a, "oidE:arc-septets%d" % max(1, (a.bit_length() + 6) // 7))
        add("oidD %s" % hexs(oid_octets([1, 2, a])), "oidD:arc-septets%d" % max(1, (a.bit_length() + 6) // 7))
        add("oidderE 6 1.2.%d.%d" % (a, r.choice(arcv)), "oidderE:valid")
        add("oidderD 6 %s" % hexs(tlv(6, oid_octets([1, 2, a, 840])) + r.bytes(r.below(2))), "oidderD:valid")
    for n0 in range(0, 4):
        for n1 in (0, 1, 39, 40, 47, 79, 80, 100, 175, 176, 999):
            add("oidE %d.%d.3" % (n0, n1), "oidE:first-arcs:%s" % ("x690" if n0 < 2 and n1 < 40 or n0 == 2 and n1 < 40 else "beyond-one-octet"))
    for b0 in (0, 39, 40, 79, 80, 119, 120, 127, 128, 0x88, 200, 255):
        add("oidD %s" % hexs(bytes([b0, 0x37])), "oidD:first-octet:%s" % ("<80" if b0 < 80 else (">=80" if b0 < 128 else "hibit")))
        add("oidD %s" % hexs(bytes([b0])), "oidD:first-octet-only:%s" % ("<80" if b0 < 80 else (">=80" if b0 < 128 else "hibit")))
    for cnt in (1, 2, 3, 31, 32, 33, 34, 40):
        nodes = [1, 2] + [r.choice(arcv) for _ in range(cnt - 2)] if cnt >= 2 else [1]
        add("oidE %s" % ".".join(str(x) for x in nodes), "oidE:count%s" % ("=cap" if cnt == 32 else ("<cap" if cnt < 32 else ">cap")))
        add("oidderE 6 %s" % ".".join(str(x) for x in nodes), "oidderE:count%s" % ("=cap" if cnt == 32 else ("<cap" if cnt < 32 else ">cap")))
        if cnt >= 2:
            small = [1, 2] + [r.below(128) for _ in range(cnt - 2)]
            for nodes2 in (nodes, small):
                add("oidD %s" % hexs(oid_octets(nodes2)), "oidD:count%s" % ("=cap" if cnt == 32 else ("<cap" if cnt < 32 else ("=cap+1" if cnt == 33 else ">cap+1"))))
                add("oidderD 6 %s" % hexs(tlv(6, oid_octets(nodes2))), "oidderD:count%s" % ("=cap" if cnt == 32 else ("<cap" if cnt < 32 else ("=cap+1" if cnt == 33 else ">cap+1"))))
    add("oidderE 6 NULL", "oidderE:null")
    for h in ["2a8001", "2a808001", "2a80", "2a8080808001", "2a8f80808000", "2a9080808000", "2a8fffffff7f", "2aff", "2a81", "2a818283848586",
              "-", "2a808080808001", "2a0080", "2a8100"]:
        add("oidD %s" % h, "oidD:lead80-overflow-truncated")
        add("oidderD 6 %s" % (hexs(tlv(6, bytes.fromhex(h))) if h != "-" else "0600"), "oidderD:lead80-overflow-truncated")
    for _ in range(300 * K):
        nodes = [r.below(3), r.below(40)] + [r.choice(arcv + [r.below(2**32)]) for _ in range(r.range(0, 8))]
        add("oidD %s" % hexs(mutate(r, oid_octets(nodes), 1)), "oidD:mutated")
        add("oidderD 6 %s" % hexs(mutate(r, tlv(6, oid_octets(nodes)), 1)), "oidderD:mutated")
        add("oidE %s" % ".".join(str(x) for x in nodes), "oidE:random")

    # ------------------------------------------------------------------ SEQUENCE OF INTEGER
    for cnt in (0, 1, 2, 7, 8, 9, 40):
        nums = [r.choice(ivals[:16]) for _ in range(cnt)]
        add("seqintE %s" % (",".join(str(x) for x in nums) if nums else "."), "seqintE:count%d" % min(cnt, 3))
        body = b"".join(der_uint(x) for x in nums)
        for mx in (cnt - 1, cnt, cnt + 1, 0):
            if mx < 0:
                continue
            add("seqintD %d %s" % (mx, hexs(tlv(0x30, body) + r.bytes(r.below(2)))), "seqintD:max%s" % ("=0" if mx == 0 else ("=count" if mx == cnt else ("=count-1" if mx < cnt else ">count"))))
    add("seqintE 1,-1,2", "seqintE:absent-element")
    add("seqintE 1,-5", "seqintE:negative-element")
    for h in ["3000", "30", "-", "3003020100", "300302017f00", "3003040100", "30060201010500", "3181020101", "30050203800000", "300702050080000000"]:
        add("seqintD 4 %s" % h, "seqintD:malformed")
    for _ in range(150 * K):
        nums = [r.below(1 << r.range(1, 31)) for _ in range(r.range(1, 6))]
        e = tlv(0x30, b"".join(der_uint(x) for x in nums))
        add("seqintD %d %s" % (r.range(1, 7), hexs(mutate(r, e, r.below(2)))), "seqintD:mutated")

    # ------------------------------------------------------------------ character strings
    for c in range(256):
        for k in ("prn", "ia5", "utf8"):
            add("isstr %s %02x" % (k, c), "isstr:%s:single-byte" % k)
    u8 = ["é", "ß", "中", "文", "€", "߿", "ࠀ", "￿", "\U00010000", "\U0010ffff", "a中b", "中文证书", "\x7f", "\x00", "abc"]
    for s in u8:
        b = s.encode("utf-8")
        cls = "ascii" if len(b) == len(s) else "multibyte"
        add("isstr utf8 %s" % hexs(b), "isstr:utf8:valid-" + cls)
        add("strE utf8 12 %s" % hexs(b), "strE:utf8:valid-" + cls)
        add("strD utf8 12 %s" % hexs(tlv(12, b) + r.bytes(r.below(2))), "strD:utf8:valid-" + cls)
    for h in ["c3", "c328", "c3c3", "e282", "e28228", "e2ac", "f0908d", "f0288c8c", "f8808080", "fc80808080", "80", "bf", "c080", "ff", "61c3", "e2282828", "c3e9", "c3a9c3"]:
        add("isstr utf8 %s" % h, "isstr:utf8:malformed")
        add("strD utf8 12 %s" % hexs(tlv(12, bytes.fromhex(h))), "strD:utf8:malformed")
        add("strE utf8 12 %s" % h, "strE:utf8:malformed")
    for k, tag in (("prn", 19), ("ia5", 22), ("utf8", 12)):
        add("isstr %s -" % k, "isstr:%s:empty" % k)
        add("strE %s %d -" % (k, tag), "strE:%s:empty" % k)
        add("strE %s %d NULL" % (k, tag), "strE:%s:null" % k)
        add("strD %s %d %02x00" % (k, tag, tag), "strD:%s:empty" % k)
        add("strD %s %d -" % (k, tag), "strD:%s:empty-input" % k)
        for s in (b"GmSSL CA (test), O=x/y:z=?", b"a@b.c", b"under_score", b"star*", b"Hello World", b"A" * 127, b"A" * 128, b"z" * 300):
            add("isstr %s %s" % (k, hexs(s)), "isstr:%s:text" % k)
            add("strE %s %d %s" % (k, tag, hexs(s)), "strE:%s:text" % k)
            add("strD %s %d %s" % (k, tag, hexs(tlv(tag, s))), "strD:%s:text" % k)
        for _ in range(60 * K):
            s = bytes(r.choice([r.below(128), r.below(256), 0x41 + r.below(26)]) for _ in range(r.range(1, 12)))
            add("isstr %s %s" % (k, hexs(s)), "isstr:%s:random" % k)
            add("strD %s %d %s" % (k, tag, hexs(mutate(r, tlv(tag, s), r.below(2)))), "strD:%s:mutated" % k)

    # ------------------------------------------------------------------ time
    def ts(y, mo, d, h=0, mi=0, s=0):
        return calendar.timegm((y, mo, d, h, mi, s))
    tvals = [0, 1, 59, 60, 3599, 3600, 86399, 86400, ts(1970, 12, 31, 23, 59, 59), ts(1971, 1, 1), ts(1972, 2, 28, 23, 59, 59), ts(1972, 2, 29),
             ts(1972, 3, 1), ts(1999, 12, 31, 23, 59, 59), ts(2000, 1, 1), ts(2000, 2, 29), ts(2000, 3, 1), ts(2001, 2, 28), ts(2001, 3, 1),
             ts(2038, 1, 19, 3, 14, 7), ts(2038, 1, 19, 3, 14, 8), ts(2049, 12, 31, 23, 59, 59), ts(2050, 1, 1), ts(2050, 12, 31, 23, 59, 59),
             ts(2051, 1, 1), ts(2100, 2, 28), ts(2100, 3, 1), ts(2400, 2, 29), ts(9999, 12, 31, 23, 59, 59), ts(9999, 12, 31, 23, 59, 59) + 1,
             2**40, 2**61]
    for t in tvals:
        for utc in (1, 0):
            add("timeS %d %d" % (utc, t), "timeS:%s:boundary" % ("utc" if utc else "gen"))
            add("timeE %d %d %d" % (utc, 23 if utc else 24, t), "timeE:%s:boundary" % ("utc" if utc else "gen"))
    add("timeE 1 23 -1", "timeE:utc:absent")
    add("timeE 0 24 -1", "timeE:gen:absent")
    import time as _t
    def fmt(t, utc):
        st = _t.gmtime(t)
        return (("%02d" % (st.tm_year % 100)) if utc else ("%04d" % st.tm_year)) + "%02d%02d%02d%02d%02dZ" % (st.tm_mon, st.tm_mday, st.tm_hour, st.tm_min, st.tm_sec)
    for _ in range(250 * K):
        utc = r.below(2)
        t = r.below(ts(2051, 1, 1) if utc else ts(9999, 12, 31, 23, 59, 59) + 1) if not r.chance(1, 3) else r.below(ts(2040, 1, 1))
        add("timeS %d %d" % (utc, t), "timeS:%s:random" % ("utc" if utc else "gen"))
        if (utc and t < ts(2051, 1, 1)) or not utc:
            s = fmt(t, utc).encode()
            add("timeP %d %s" % (utc, hexs(s)), "timeP:%s:valid" % ("utc" if utc else "gen"))
            add("timeD %d %d %s" % (utc, 23 if utc else 24, hexs(tlv(23 if utc else 24, s) + r.bytes(r.below(2)))), "timeD:%s:valid" % ("utc" if utc else "gen"))
    bad_utc = ["000101000000Z", "490101000000Z", "500101000000Z", "510101000000Z", "690101000000Z", "700101000000Z", "991231235959Z",
               "700001000000Z", "701301000000Z", "700100000000Z", "700132000000Z", "700229000000Z", "720229000000Z", "720230000000Z", "000229000000Z",
               "700431000000Z", "700101240000Z", "700101006000Z", "700101000060Z", "7001010000000", "70010100000aZ", "7a0101000000Z", "700101000000z",
               "70010100000/Z", "70010100000:Z", "\xff00101000000Z"]
    for s in bad_utc:
        b = s.encode("latin-1")
        add("timeP 1 %s" % hexs(b), "timeP:utc:field-range")
        add("timeD 1 23 %s" % hexs(tlv(23, b)), "timeD:utc:field-range")
    bad_gen = ["19700101000000Z", "19691231235959Z", "99991231235959Z", "21000229000000Z", "24000229000000Z", "20000229000000Z", "19000101000000Z",
               "20231301000000Z", "20230001000000Z", "20230132000000Z", "20230230000000Z", "20230101250000Z", "2023010100000Z", "202301010000000Z", "20230101000000+0800"]
    for s in bad_gen:
        b = s.encode()
        if len(b) == 15:
            add("timeP 0 %s" % hexs(b), "timeP:gen:field-range")
        add("timeD 0 24 %s" % hexs(tlv(24, b)), "timeD:gen:field-range-or-length")
    for h in ["-", "17", "170d", "1711" + "30" * 17, "170c" + "30" * 12, "180f", "1813" + "30" * 19]:
        add("timeD 1 23 %s" % h, "timeD:utc:short-or-length")
        add("timeD 0 24 %s" % h, "timeD:gen:short-or-length")
    for _ in range(100 * K):
        utc = r.below(2)
        s = fmt(r.below(ts(2049, 1, 1)), utc).encode()
        add("timeD %d %d %s" % (utc, 23 if utc else 24, hexs(mutate(r, tlv(23 if utc else 24, s), 1))), "timeD:%s:mutated" % ("utc" if utc else "gen"))

    # ------------------------------------------------------------------ hex
    for n in list(range(0, 6)) + [31, 32, 33, 255, 256, 1000, 4096]:
        b = r.bytes(n)
        add("hexRT 0 %s" % hexs(b), "hexRT:lower")
        add("hexRT 1 %s" % hexs(b), "hexRT:upper")
    add("hexRT 0 %s" % bytes(range(256)).hex(), "hexRT:all-bytes")
    add("hexRT 1 %s" % bytes(range(256)).hex(), "hexRT:all-bytes")
    for c in range(256):
        add("hexD %s" % hexs(bytes([c, 0x30])), "hexD:char-class-first")
        add("hexD %s" % hexs(bytes([0x41, c])), "hexD:char-class-second")
    for s in (b"", b"0", b"012", b"0g", b"g0", b"00 11", b"0x11", b"aAbBcCdDeEfF", b"00:11", b"0011\n"):
        add("hexD %s" % hexs(s), "hexD:%s" % ("odd" if len(s) % 2 else "even"))
    for _ in range(100 * K):
        t = r.bytes(r.range(0, 40)).hex().encode()
        add("hexD %s" % hexs(mutate(r, t, r.below(2))), "hexD:mutated")

    # ------------------------------------------------------------------ base64 blocks
    for n in list(range(0, 10)) + [47, 48, 49, 95, 96, 97]:
        b = r.bytes(n)
        add("b64blkE %s" % hexs(b), "b64blkE:len%%3=%d" % (n % 3))
        import base64
        t = base64.b64encode(b)
        add("b64blkD %s" % hexs(t), "b64blkD:valid:len%%3=%d" % (n % 3))
        add("b64blkD %s" % hexs(b"  " + t + b"\r\n"), "b64blkD:ws-trim")
    for s in (b"", b" ", b"    ", b"\t\t\t\t", b"A", b"AB", b"ABC", b"ABCD", b"ABC=", b"AB==", b"A===", b"====", b"AB=C", b"ABCD\n", b"ABCD\n\n\n\n", b"ABC\n", b"AB!D", b"ABCD-",
              b" ABCD", b"ABCDE", b"AB CD", b"\x80BCD", b"ABCDEFGH", b"ABCD====", b"----", b"\n\n\n\n", b" \n", b"   A"):
        add("b64blkD %s" % hexs(s), "b64blkD:%s" % ("all-ws" if s and not s.strip(b" \t") else "malformed-or-edge"))
    for _ in range(150 * K):
        t = base64.b64encode(r.bytes(r.range(0, 30)))
        add("b64blkD %s" % hexs(mutate(r, t, r.range(1, 2))), "b64blkD:mutated")

    # ------------------------------------------------------------------ base64 streams
    sizes = list(range(0, 12)) + [46, 47, 48, 49, 50, 95, 96, 97, 143, 144, 145, 1000] + ([4096] if True else [])
    for n in sizes:
        b = r.bytes(n)
        add("b64E %s" % hexs(b), "b64E:oneshot:%s" % ("<48" if n < 48 else ("=48k" if n % 48 == 0 else ">48")))
        for _ in range(3):
            add("b64E %s" % chunks_str(r.split(b, r.range(2, 8))), "b64E:split:%s" % ("<48" if n < 48 else ("=48k" if n % 48 == 0 else ">48")))
        t = b64_text(b)
        add("b64D %s" % hexs(t), "b64D:canonical:oneshot:pad%d" % ((3 - n % 3) % 3))
        for _ in range(4):
            add("b64D %s" % chunks_str(r.split(t, r.range(2, 9))), "b64D:canonical:split:pad%d" % ((3 - n % 3) % 3))
        lines = [l + b"\n" for l in t.split(b"\n") if l]
        add("b64D %s" % chunks_str(lines), "b64D:canonical:per-line:pad%d" % ((3 - n % 3) % 3))
        add("b64D %s" % chunks_str([l.rstrip(b"\n") for l in lines]), "b64D:no-newline:per-line")
        add("b64D %s" % hexs(b64_text(b, b"\r\n")), "b64D:crlf")
        add("b64D %s" % hexs(b64_text(b, b"\n", 76)), "b64D:width76")
        add("b64D %s" % hexs(b64_text(b, b"\n", 4)), "b64D:width4")
        add("b64D %s" % hexs(b64_text(b, b"")), "b64D:no-newlines")
        add("b64D %s" % hexs(t + b"-----END"), "b64D:eof-dash")
    # every split point of one padded and one unpadded text
    for n in (50, 49, 48):
        b = r.bytes(n)
        t = b64_text(b)
        for off in range(0, len(t) + 1):
            add("b64D %s" % chunks_str([t[:off], t[off:]]), "b64D:split2:pad%d:%s" % ((3 - n % 3) % 3, "in-last-group" if off >= len(t) - 5 else ("at-line" if off in (64, 65) else "body")))
    for s in (b"QUJD=", b"QUJD==", b"QUI=QUJD", b"QQ==QUJD", b"Q===", b"=QUJ", b"QUJ", b"QU", b"Q", b"QUJD!", b"QUJD\x80", b"QU JD", b"QUJD\n-", b"QU-JD", b"QUI", b"QUI=\nQUJD", b"QQ=\n=", b"QQ=", b"=", b"==", b"===", b"====", b"A" * 63 + b"=", b"A" * 62 + b"==", b"A" * 61 + b"===", b"A" * 64 + b"=", b"A" * 65):
        add("b64D %s" % hexs(s), "b64D:malformed-oneshot")
        if len(s) > 2:
            for _ in range(2):
                add("b64D %s" % chunks_str(r.split(s, r.range(2, 4))), "b64D:malformed-split")
    add("b64D .", "b64D:no-chunks")
    add("b64D -", "b64D:empty-chunk")
    add("b64D 51554a44,-,51554a44", "b64D:empty-chunk-between")
    add("b64E .", "b64E:no-chunks")
    add("b64E -", "b64E:empty-chunk")
    for _ in range(150 * K):
        t = b64_text(r.bytes(r.range(0, 120)), r.choice([b"\n", b"\r\n", b""]), r.choice([64, 76, 20]))
        add("b64D %s" % chunks_str(r.split(mutate(r, t, r.range(1, 2)), r.range(1, 4))), "b64D:mutated")

    # ------------------------------------------------------------------ SM2 signature
    svals = [b"\0" * 32, b"\0" * 31 + b"\x01", b"\x7f" + b"\xff" * 31, b"\x80" + b"\0" * 31, b"\xff" * 32, b"\0" * 16 + b"\x80" + b"\0" * 15, b"\0\x7f" + b"\x11" * 30]
    for rr in svals:
        for ss in svals[:4] + [r.bytes(32)]:
            add("sigE %s %s" % (hexs(rr), hexs(ss)), "sigE:boundary")
            e = tlv(0x30, der_uint(int.from_bytes(rr, "big")) + der_uint(int.from_bytes(ss, "big")))
            add("sigD %s" % hexs(e + r.bytes(r.below(2))), "sigD:valid")
    for _ in range(80 * K):
        rr, ss = r.bytes(32), r.bytes(32)
        add("sigE %s %s" % (hexs(rr), hexs(ss)), "sigE:random")
        e = tlv(0x30, der_uint(int.from_bytes(rr, "big")) + der_uint(int.from_bytes(ss, "big")))
        add("sigD %s" % hexs(mutate(r, e, r.below(3))), "sigD:mutated")
    one = der_uint(1)
    for body in [one, one + one + one, one + one + b"\x05\x00", b"\x02\x21\x01" + b"\0" * 32 + one, one + b"\x02\x21\x01" + b"\0" * 32, b"\x02\x02\x00\x01" + one,
                 one + b"\x02\x01\x80", b"", one + b"\x02\x00", b"\x02\x22\x00" + b"\x80" * 33 + one]:
        add("sigD %s" % hexs(tlv(0x30, body)), "sigD:structure")
    for h in ["-", "30", "3000", "3100", "308100"]:
        add("sigD %s" % h, "sigD:structure")
    return cases


def run(ctx):
    ctx.check_proofs()
    model, log = core.build_model("C14")
    if model is None:
        ctx.violation("correspondence:model-build", "extracted model does not build: " + log[-500:], {"kind": "correspondence", "log": log[-3000:]}, False)
        return finish(ctx)
    cases = gen(ctx)
    lines = [c[0] for c in cases]
    mout, _ = core.run_lines(model, lines)
    for v in (["asan"] if ctx.tier == "quick" else ["asan", "fast"]):
        exe, log = core.build_harness("C14", v)
        if exe is None:
            core.harness_build_failed(ctx, log)
            continue
        iout, ierr = core.run_lines(exe, lines)
        nbad = compare(ctx, cases, iout, mout, v, ierr)
        ctx.notes.append("variant %s: %d cases, %d disagreements" % (v, len(cases), nbad))
    return finish(ctx)


def finish(ctx):
    ctx.assumptions = [
        "decoder models take the bytes from the C pointer to the end of the buffer and identify *inlen with the length of that list; the pairing of pointer and length updates is checked by the `consumed` field compared on every case",
        "Fixed = the code after the patches proposed for the listed defects; the theorems are about Fixed; a case on which the tree still behaves like AsIs is reported as VIOLATION defect:<name>",
        "time_t is modelled for t >= 0 (and the marker -1); negative time stamps are not guarded by the C code and are outside the property's range",
        "lengths above INT_MAX and 4-byte DER lengths with matching content (>= 16 MiB) are not exercised at run time",
    ]
    return ctx.finish(level="proof",
                      rule="cases = per-type value boundaries (length octet counts, sign/minimality of integers, all 256 boolean/char values, arc septet counts, node/element counts at capacity-1/capacity/capacity+1, UTF-8 classes, calendar boundaries, 48-byte line and 64-char block boundaries, every 2-way split of three base64 texts) + mutated valid encodings + malformed literals; a cell = (op, class, ok|ERR|ABSENT|FAULT); distinct_nontrivial = cells on which implementation and Fixed model agreed",
                      trusted=core.TRUSTED_COMMON + ["Coq files: Codec/Der.v Hex.v Base64.v Time.v (models), Codec/*Proofs.v (proofs), Props/Properties_C14.v",
                                                     "vlib/codec_common.py (comparison and defect attribution)"])
