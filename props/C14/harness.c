/* C14 / C06 correspondence harness: ASN.1/DER primitives (src/asn1.c), hex, base64, SM2 signature DER.
 * Every buffer handed to the library is an exactly sized heap block whose END coincides with the
 * end of the data, so ASan reports any access past the declared length / capacity. */
#include "common.h"
#include <time.h>
#include <gmssl/asn1.h>
#include <gmssl/hex.h>
#include <gmssl/base64.h>
#include <gmssl/sm2.h>
#include <gmssl/sm3.h>
#include <gmssl/sm4.h>
#include <gmssl/oid.h>
#include <gmssl/ec.h>
#include <gmssl/pem.h>
#include <gmssl/pkcs8.h>
#include <gmssl/x509_alg.h>
#include "entropy.h"

typedef struct { uint8_t *base, *p; size_t n; } xb;
static xb xalloc(size_t n) { xb b; b.n = n; if (n) { b.base = malloc(n); b.p = b.base; } else { b.base = malloc(1); b.p = b.base + 1; } return b; }
static xb xhex(const char *s) {
	size_t l = strcmp(s, "-") ? strlen(s) / 2 : 0, i; xb b = xalloc(l);
	for (i = 0; i < l; i++) b.p[i] = (uint8_t)(hexval(s[2*i]) * 16 + hexval(s[2*i+1]));
	return b;
}
static void xfree(xb b) { free(b.base); }
#define PI 0x5a5a5a5a
static const uint8_t poison_byte;
#define PP (&poison_byte)
static void pint(int v) { if (v == PI) printf("POISON"); else printf("%d", v); }
static void pbuf(const uint8_t *d, size_t n) { if (d == PP) printf("POISON"); else if (!d) printf("NULL"); else puthex(d, n); }
static int isnull(const char *s) { return !strcmp(s, "NULL"); }

/* two-pass encoder protocol: dry run with out == NULL, dry run with *out == NULL, real run into
 * a buffer of exactly the reported size.  CALL uses OUT (uint8_t **) and OUTLEN (size_t *). */
#define ENC(CALL) do { \
	size_t dry = 0, dry2 = 0, real = 0; int r_; \
	{ uint8_t **OUT = NULL; size_t *OUTLEN = &dry; r_ = (CALL); } \
	if (r_ == 0) { printf("ABSENT"); break; } \
	if (r_ < 0) { printf("ERR"); break; } \
	{ uint8_t *np_ = NULL; uint8_t **OUT = &np_; size_t *OUTLEN = &dry2; (void)(CALL); } \
	{ xb o_ = xalloc(dry); uint8_t *p_ = o_.p; uint8_t **OUT = &p_; size_t *OUTLEN = &real; r_ = (CALL); \
	  if (r_ != 1) printf("ERR-REAL-RUN %d", r_); \
	  else { printf("OK "); puthex(o_.p, (size_t)(p_ - o_.p)); printf(" %zu", dry); \
	         if (real != dry || dry2 != dry || (size_t)(p_ - o_.p) != dry) printf(" MISMATCH real=%zu dry2=%zu written=%zu", real, dry2, (size_t)(p_ - o_.p)); } \
	  xfree(o_); } \
} while (0)

/* decoder protocol: IN (const uint8_t **), INLEN (size_t *); prints consumed count */
#define DEC_BEGIN(HEX) xb in_ = xhex(HEX); const uint8_t *ip_ = in_.p; size_t il_ = in_.n; const uint8_t **IN = &ip_; size_t *INLEN = &il_; int r_
#define DEC_RET() if (r_ == 0) { printf("ABSENT"); } else if (r_ < 0) { printf("ERR"); } else
/* same, printing the out-parameters the interface defines for the "absent" answer */
#define DEC_RETA(ABS) if (r_ == 0) { printf("ABSENT "); ABS; } else if (r_ < 0) { printf("ERR"); } else
#define DEC_END() do { if (r_ == 1) { printf(" %zu", in_.n - il_); if (ip_ != in_.p + (in_.n - il_)) printf(" PTRMISMATCH"); } xfree(in_); } while (0)


/* ------------------------------------------------------------------ composite objects
 * Every out-parameter is pre-filled with a poison value and printed on success (and, where the
 * interface defines it, on "absent"), so a parameter the callee leaves unset is visible. */
static int myoid(int o) {            /* library enum -> the numbering of coq/Codec/Pkcs.v */
	switch (o) {
	case -1: return -1; case OID_undef: return 0; case OID_sm2: return 1; case OID_prime192v1: return 2; case OID_prime256v1: return 3;
	case OID_secp256k1: return 4; case OID_secp384r1: return 5; case OID_secp521r1: return 6;
	case OID_ec_public_key: return 10; case OID_rsa_encryption: return 11;
	case OID_sm4_cbc: return 20; case OID_aes128_cbc: return 21; case OID_aes192_cbc: return 22; case OID_aes256_cbc: return 23;
	case OID_hmac_sm3: return 30; case PI: return 777777;
	}
	return 900000 + o;
}
static int liboid(int o) {
	switch (o) {
	case -1: return -1; case 0: return OID_undef; case 1: return OID_sm2; case 2: return OID_prime192v1; case 3: return OID_prime256v1;
	case 4: return OID_secp256k1; case 5: return OID_secp384r1; case 6: return OID_secp521r1; case 10: return OID_ec_public_key; case 11: return OID_rsa_encryption;
	case 20: return OID_sm4_cbc; case 21: return OID_aes128_cbc; case 22: return OID_aes192_cbc; case 23: return OID_aes256_cbc; case 30: return OID_hmac_sm3;
	}
	return 9999;
}
static void pkey_out(const SM2_KEY *k, int with_priv) {
	uint8_t b[64];
	if (with_priv) { sm2_z256_to_bytes(k->private_key, b); puthex(b, 32); printf(" "); }
	sm2_z256_point_to_bytes(&k->public_key, b); puthex(b, 64);
}
/* decode-into-dirty-target: the decoder has run into a poison-filled object (*A); run it again on the same input into
 * an object holding ANOTHER valid value of the type; on success the two results must be the same object, byte for byte */
static SM2_KEY other_key; static int other_key_ok;
static const SM2_KEY *otherkey(void) { if (!other_key_ok) { sm2_z256_t d; uint8_t b[32]; memset(b, 0x37, 32); sm2_z256_from_bytes(d, b); sm2_key_set_private_key(&other_key, d); other_key_ok = 1; } return &other_key; }
static void whole(int same) { printf(same ? " WHOLE" : " TARGET-DEPENDENT"); }
#define SECOND_RUN(HEX, TYPE, A, INIT, CALL) do { xb in2_ = xhex(HEX); const uint8_t *ip2_ = in2_.p; size_t il2_ = in2_.n; const uint8_t **IN = &ip2_; size_t *INLEN = &il2_; \
	TYPE *B = malloc(sizeof(TYPE)); int r2_; INIT; r2_ = (CALL); whole(r2_ == 1 && memcmp(A, B, sizeof(TYPE)) == 0); free(B); xfree(in2_); } while (0)
static int key_from_d(SM2_KEY *k, const char *hex) { xb d = xhex(hex); sm2_z256_t x; int r = -1; if (d.n == 32) { sm2_z256_from_bytes(x, d.p); r = sm2_key_set_private_key(k, x); } xfree(d); return r; }
static int key_from_xy(SM2_KEY *k, const char *hex) { xb d = xhex(hex); SM2_Z256_POINT P; int r = -1; if (d.n == 64 && sm2_z256_point_from_bytes(&P, d.p) == 1) r = sm2_key_set_public_key(k, &P); xfree(d); return r; }

static int handle2(size_t nw, char **w) {
	const char *op = w[0];
	if (!strcmp(op, "curveE") && nw == 2) { int id = liboid(atoi(w[1])); ENC(ec_named_curve_to_der(id, OUT, OUTLEN)); }
	else if (!strcmp(op, "curveD") && nw == 2) { DEC_BEGIN(w[1]); int id = PI; r_ = ec_named_curve_from_der(&id, IN, INLEN);
		if (r_ == 0) { printf("ABSENT oid="); pint(myoid(id)); } else if (r_ < 0) printf("ERR"); else { printf("OK "); pint(myoid(id)); } DEC_END(); }
	else if (!strcmp(op, "pkalgE") && nw == 3) { int id = liboid(atoi(w[1])), par = atoi(w[1]) == 10 ? liboid(atoi(w[2])) : atoi(w[2]); ENC(x509_public_key_algor_to_der(id, par, OUT, OUTLEN)); }
	else if (!strcmp(op, "pkalgD") && nw == 2) { DEC_BEGIN(w[1]); int id = PI, par = PI; r_ = x509_public_key_algor_from_der(&id, &par, IN, INLEN);
		DEC_RET() { printf("OK "); pint(myoid(id)); printf(" "); pint(id == OID_ec_public_key ? myoid(par) : par); } DEC_END(); }
	else if (!strcmp(op, "sm2algE") && nw == 1) { ENC(sm2_public_key_algor_to_der(OUT, OUTLEN)); }
	else if (!strcmp(op, "sm2algD") && nw == 2) { DEC_BEGIN(w[1]); r_ = sm2_public_key_algor_from_der(IN, INLEN); DEC_RET() { printf("OK -"); } DEC_END(); }
	else if (!strcmp(op, "encalgE") && nw == 3) { int id = liboid(atoi(w[1])); xb iv = xhex(w[2]); ENC(x509_encryption_algor_to_der(id, iv.p, iv.n, OUT, OUTLEN)); xfree(iv); }
	else if ((!strcmp(op, "encalgD") || !strcmp(op, "p2eD")) && nw == 2) { DEC_BEGIN(w[1]); int id = PI; const uint8_t *iv = PP; size_t ivl = PI;
		r_ = op[0] == 'e' ? x509_encryption_algor_from_der(&id, &iv, &ivl, IN, INLEN) : pbes2_enc_algor_from_der(&id, &iv, &ivl, IN, INLEN);
		if (r_ == 0) { printf("ABSENT oid="); pint(myoid(id)); printf(" iv="); pbuf(iv, 0); printf(" ivlen="); pint((int)ivl); }
		else if (r_ < 0) printf("ERR"); else { printf("OK "); pint(myoid(id)); printf(" "); pbuf(iv, ivl); } DEC_END(); }
	else if (!strcmp(op, "p2eE") && nw == 3) { int id = liboid(atoi(w[1])); xb iv = xhex(w[2]); ENC(pbes2_enc_algor_to_der(id, iv.p, iv.n, OUT, OUTLEN)); xfree(iv); }
	else if (!strcmp(op, "prfE") && nw == 2) { int prf = liboid(atoi(w[1])); ENC(pbkdf2_prf_to_der(prf, OUT, OUTLEN)); }
	else if (!strcmp(op, "prfD") && nw == 2) { DEC_BEGIN(w[1]); int prf = PI; r_ = pbkdf2_prf_from_der(&prf, IN, INLEN);
		if (r_ == 0) { printf("ABSENT prf="); pint(myoid(prf)); } else if (r_ < 0) printf("ERR"); else { printf("OK "); pint(myoid(prf)); } DEC_END(); }
	else if ((!strcmp(op, "kdfpE") || !strcmp(op, "kdfaE")) && nw == 5) { xb salt = xhex(w[1]); int iter = atoi(w[2]), kl = atoi(w[3]), prf = liboid(atoi(w[4]));
		if (op[3] == 'p') ENC(pbkdf2_params_to_der(salt.p, salt.n, iter, kl, prf, OUT, OUTLEN)); else ENC(pbkdf2_algor_to_der(salt.p, salt.n, iter, kl, prf, OUT, OUTLEN)); xfree(salt); }
	else if ((!strcmp(op, "kdfpD") || !strcmp(op, "kdfaD")) && nw == 2) { DEC_BEGIN(w[1]); const uint8_t *salt = PP; size_t sl = PI; int iter = PI, kl = PI, prf = PI;
		r_ = op[3] == 'p' ? pbkdf2_params_from_der(&salt, &sl, &iter, &kl, &prf, IN, INLEN) : pbkdf2_algor_from_der(&salt, &sl, &iter, &kl, &prf, IN, INLEN);
		DEC_RET() { printf("OK "); pbuf(salt, sl); printf(" "); pint(iter); printf(" "); pint(kl); printf(" "); pint(myoid(prf)); } DEC_END(); }
	else if ((!strcmp(op, "p2pE") || !strcmp(op, "p2aE")) && nw == 7) { xb salt = xhex(w[1]), iv = xhex(w[6]); int iter = atoi(w[2]), kl = atoi(w[3]), prf = liboid(atoi(w[4])), ci = liboid(atoi(w[5]));
		if (op[2] == 'p') ENC(pbes2_params_to_der(salt.p, salt.n, iter, kl, prf, ci, iv.p, iv.n, OUT, OUTLEN)); else ENC(pbes2_algor_to_der(salt.p, salt.n, iter, kl, prf, ci, iv.p, iv.n, OUT, OUTLEN)); xfree(salt); xfree(iv); }
	else if ((!strcmp(op, "p2pD") || !strcmp(op, "p2aD")) && nw == 2) { DEC_BEGIN(w[1]); const uint8_t *salt = PP, *iv = PP; size_t sl = PI, ivl = PI; int iter = PI, kl = PI, prf = PI, ci = PI;
		r_ = op[2] == 'p' ? pbes2_params_from_der(&salt, &sl, &iter, &kl, &prf, &ci, &iv, &ivl, IN, INLEN) : pbes2_algor_from_der(&salt, &sl, &iter, &kl, &prf, &ci, &iv, &ivl, IN, INLEN);
		DEC_RET() { printf("OK "); pbuf(salt, sl); printf(" "); pint(iter); printf(" "); pint(kl); printf(" "); pint(myoid(prf)); printf(" "); pint(myoid(ci)); printf(" "); pbuf(iv, ivl); } DEC_END(); }
	else if (!strcmp(op, "p8eE") && nw == 8) { xb salt = xhex(w[1]), iv = xhex(w[6]), en = xhex(w[7]); int iter = atoi(w[2]), kl = atoi(w[3]), prf = liboid(atoi(w[4])), ci = liboid(atoi(w[5]));
		ENC(pkcs8_enced_private_key_info_to_der(salt.p, salt.n, iter, kl, prf, ci, iv.p, iv.n, en.p, en.n, OUT, OUTLEN)); xfree(salt); xfree(iv); xfree(en); }
	else if (!strcmp(op, "p8eD") && nw == 2) { DEC_BEGIN(w[1]); const uint8_t *salt = PP, *iv = PP, *en = PP; size_t sl = PI, ivl = PI, enl = PI; int iter = PI, kl = PI, prf = PI, ci = PI;
		r_ = pkcs8_enced_private_key_info_from_der(&salt, &sl, &iter, &kl, &prf, &ci, &iv, &ivl, &en, &enl, IN, INLEN);
		DEC_RET() { printf("OK "); pbuf(salt, sl); printf(" "); pint(iter); printf(" "); pint(kl); printf(" "); pint(myoid(prf)); printf(" "); pint(myoid(ci)); printf(" "); pbuf(iv, ivl); printf(" "); pbuf(en, enl); } DEC_END(); }
	else if (!strcmp(op, "ctE") && nw == 5) { xb x = xhex(w[1]), y = xhex(w[2]), h = xhex(w[3]), c = xhex(w[4]); SM2_CIPHERTEXT *C = malloc(sizeof(*C)); memset(C, 0, sizeof(*C));
		memcpy(C->point.x, x.p, x.n < 32 ? x.n : 32); memcpy(C->point.y, y.p, y.n < 32 ? y.n : 32); memcpy(C->hash, h.p, h.n < 32 ? h.n : 32); memcpy(C->ciphertext, c.p, c.n < 255 ? c.n : 255); C->ciphertext_size = (uint8_t)(c.n < 255 ? c.n : 255);
		ENC(sm2_ciphertext_to_der(C, OUT, OUTLEN)); free(C); xfree(x); xfree(y); xfree(h); xfree(c); }
	else if (!strcmp(op, "ctD") && nw == 2) { DEC_BEGIN(w[1]); SM2_CIPHERTEXT *C = malloc(sizeof(*C)); memset(C, 0x5a, sizeof(*C));
		r_ = sm2_ciphertext_from_der(C, IN, INLEN); DEC_RET() { size_t i_, z_ = 1; printf("OK "); puthex(C->point.x, 32); printf(" "); puthex(C->point.y, 32); printf(" "); puthex(C->hash, 32); printf(" "); puthex(C->ciphertext, C->ciphertext_size);
			for (i_ = C->ciphertext_size; i_ < sizeof(C->ciphertext); i_++) if (C->ciphertext[i_]) z_ = 0;      /* the unused tail is part of the object */
			if (!z_) printf(" TAIL-NOT-ZERO");
			SECOND_RUN(w[1], SM2_CIPHERTEXT, C, memset(B, 0xc3, sizeof(*B)), sm2_ciphertext_from_der(B, IN, INLEN)); } DEC_END(); free(C); }
	else if ((!strcmp(op, "pubE") || !strcmp(op, "pubiE")) && nw >= 2) { SM2_KEY *k = malloc(sizeof(*k)); if (key_from_xy(k, w[1]) != 1) printf("ERR-KEYSET");
		else if (op[3] == 'E') ENC(sm2_public_key_to_der(k, OUT, OUTLEN)); else ENC(sm2_public_key_info_to_der(k, OUT, OUTLEN)); free(k); }
	else if ((!strcmp(op, "pubD") || !strcmp(op, "pubiD")) && nw >= 2) { DEC_BEGIN(w[1]); SM2_KEY *k = malloc(sizeof(*k)); memset(k, 0x5a, sizeof(*k));
		r_ = op[3] == 'D' ? sm2_public_key_from_der(k, IN, INLEN) : sm2_public_key_info_from_der(k, IN, INLEN); DEC_RET() { printf("OK "); pkey_out(k, 1);
			SECOND_RUN(w[1], SM2_KEY, k, *B = *otherkey(), op[3] == 'D' ? sm2_public_key_from_der(B, IN, INLEN) : sm2_public_key_info_from_der(B, IN, INLEN)); } DEC_END(); free(k); }
	else if ((!strcmp(op, "pubiP") || !strcmp(op, "p8P")) && nw >= 2) { xb t = xhex(w[1]); SM2_KEY *k = malloc(sizeof(*k)), *B = malloc(sizeof(*B)); FILE *fp = t.n ? fmemopen(t.p, t.n, "r") : fopen("/dev/null", "r"); int r, r2;
		memset(k, 0x5a, sizeof(*k)); *B = *otherkey();
		r = op[1] == 'u' ? sm2_public_key_info_from_pem(k, fp) : sm2_private_key_info_from_pem(k, fp); fclose(fp);
		fp = t.n ? fmemopen(t.p, t.n, "r") : fopen("/dev/null", "r"); r2 = op[1] == 'u' ? sm2_public_key_info_from_pem(B, fp) : sm2_private_key_info_from_pem(B, fp); fclose(fp);
		if (r == 1) { printf("OK "); pkey_out(k, 1); whole(r2 == 1 && memcmp(k, B, sizeof(*k)) == 0); } else printf("ERR");
		free(k); free(B); xfree(t); }
	else if ((!strcmp(op, "privE") || !strcmp(op, "p8E")) && nw >= 2) { SM2_KEY *k = malloc(sizeof(*k)); if (key_from_d(k, w[1]) != 1) printf("ERR-KEYSET");
		else if (op[1] == 'r') ENC(sm2_private_key_to_der(k, OUT, OUTLEN)); else ENC(sm2_private_key_info_to_der(k, OUT, OUTLEN)); free(k); }
	else if (!strcmp(op, "privD") && nw >= 2) { DEC_BEGIN(w[1]); SM2_KEY *k = malloc(sizeof(*k)); memset(k, 0x5a, sizeof(*k));
		r_ = sm2_private_key_from_der(k, IN, INLEN); DEC_RET() { printf("OK "); pkey_out(k, 1);
			SECOND_RUN(w[1], SM2_KEY, k, *B = *otherkey(), sm2_private_key_from_der(B, IN, INLEN)); } DEC_END(); free(k); }
	else if (!strcmp(op, "p8D") && nw >= 2) { DEC_BEGIN(w[1]); SM2_KEY *k = malloc(sizeof(*k)); const uint8_t *at = PP; size_t atl = PI; memset(k, 0x5a, sizeof(*k));
		r_ = sm2_private_key_info_from_der(k, &at, &atl, IN, INLEN); DEC_RET() { const uint8_t *at2; size_t atl2; printf("OK "); pkey_out(k, 1); printf(" "); pbuf(at, atl);
			SECOND_RUN(w[1], SM2_KEY, k, *B = *otherkey(), sm2_private_key_info_from_der(B, &at2, &atl2, IN, INLEN)); } DEC_END(); free(k); }
	else if (!strcmp(op, "kdf") && nw == 4) { xb pass = xhex(w[1]), salt = xhex(w[2]); uint8_t key[16]; int r = sm3_pbkdf2((char *)pass.p, pass.n, salt.p, salt.n, (size_t)atoi(w[3]), 16, key);
		if (r == 1) puthex(key, 16); else printf("ERR"); xfree(pass); xfree(salt); }
	else if (!strcmp(op, "p8seal") && nw >= 8) {       /* EncryptedPrivateKeyInfo with chosen parameters, as sm2_private_key_info_encrypt_to_der builds it */
		SM2_KEY *k = malloc(sizeof(*k)); xb pass = xhex(w[2]), salt = xhex(w[3]), iv = xhex(w[4]); int iter = atoi(w[5]), kl = atoi(w[6]), prf = liboid(atoi(w[7]));
		uint8_t info[256], enced[300], key[16]; uint8_t *ip = info; size_t il = 0, el = 0; SM4_KEY sk;
		if (key_from_d(k, w[1]) != 1 || iv.n != 16 || sm2_private_key_info_to_der(k, &ip, &il) != 1
			|| sm3_pbkdf2((char *)pass.p, pass.n, salt.p, salt.n, (size_t)iter, 16, key) != 1) printf("ERR-SEAL");
		else { sm4_set_encrypt_key(&sk, key);
			if (sm4_cbc_padding_encrypt(&sk, iv.p, info, il, enced, &el) != 1) printf("ERR-SEAL");
			else ENC(pkcs8_enced_private_key_info_to_der(salt.p, salt.n, iter, kl, prf, OID_sm4_cbc, iv.p, iv.n, enced, el, OUT, OUTLEN)); }
		free(k); xfree(pass); xfree(salt); xfree(iv); }
	else if (!strcmp(op, "p8sealraw") && nw >= 8) {    /* the same wrapping around an arbitrary plaintext (e.g. a PrivateKeyInfo with attributes) */
		xb info = xhex(w[1]), pass = xhex(w[2]), salt = xhex(w[3]), iv = xhex(w[4]); int iter = atoi(w[5]), kl = atoi(w[6]), prf = liboid(atoi(w[7]));
		uint8_t enced[600], key[16]; size_t el = 0; SM4_KEY sk;
		if (iv.n != 16 || info.n > 500 || sm3_pbkdf2((char *)pass.p, pass.n, salt.p, salt.n, (size_t)iter, 16, key) != 1) printf("ERR-SEAL");
		else { sm4_set_encrypt_key(&sk, key);
			if (sm4_cbc_padding_encrypt(&sk, iv.p, info.p, info.n, enced, &el) != 1) printf("ERR-SEAL");
			else ENC(pkcs8_enced_private_key_info_to_der(salt.p, salt.n, iter, kl, prf, OID_sm4_cbc, iv.p, iv.n, enced, el, OUT, OUTLEN)); }
		xfree(info); xfree(pass); xfree(salt); xfree(iv); }
	else if (!strcmp(op, "p8sealLib") && nw == 4) {    /* the library's own writer (65536 iterations), entropy scripted from the seed */
		SM2_KEY *k = malloc(sizeof(*k)); xb pass = xhex(w[2]); char *pz = malloc(pass.n + 1); memcpy(pz, pass.p, pass.n); pz[pass.n] = 0;
		ent_seed((uint64_t)strtoull(w[3], NULL, 10), -1);
		if (key_from_d(k, w[1]) != 1) printf("ERR-KEYSET"); else ENC(sm2_private_key_info_encrypt_to_der(k, pz, OUT, OUTLEN));
		free(k); free(pz); xfree(pass); }
	else if (!strcmp(op, "p8open") && nw >= 3) { xb pass = xhex(w[1]); char *pz = malloc(pass.n + 1); memcpy(pz, pass.p, pass.n); pz[pass.n] = 0;
		DEC_BEGIN(w[2]); SM2_KEY *k = malloc(sizeof(*k)); const uint8_t *at = PP; size_t atl = PI; memset(k, 0x5a, sizeof(*k));
		r_ = sm2_private_key_info_decrypt_from_der(k, &at, &atl, pz, IN, INLEN);
		if (r_ == 1) { const uint8_t *at2; size_t atl2; printf("OK "); pkey_out(k, 1); printf(" "); pbuf(at, atl);
			SECOND_RUN(w[2], SM2_KEY, k, *B = *otherkey(), sm2_private_key_info_decrypt_from_der(B, &at2, &atl2, pz, IN, INLEN)); } else printf("ERR"); DEC_END(); free(k); free(pz); xfree(pass); }
	else if (!strcmp(op, "pemW") && nw == 3) { xb name = xhex(w[1]), d = xhex(w[2]); char *nz = malloc(name.n + 1); char *txt = NULL; size_t tl = 0; FILE *fp = open_memstream(&txt, &tl); int r;
		memcpy(nz, name.p, name.n); nz[name.n] = 0; r = pem_write(fp, nz, d.p, d.n); fclose(fp);
		if (r == 1) { printf("OK "); puthex((uint8_t *)txt, tl); } else printf("ERR"); free(txt); free(nz); xfree(name); xfree(d); }
	else if (!strcmp(op, "pemR") && nw == 4) { xb name = xhex(w[1]), t = xhex(w[3]); size_t maxlen = strtoul(w[2], NULL, 10), ol = PI; xb o = xalloc(maxlen); char *nz = malloc(name.n + 1);
		FILE *fp = t.n ? fmemopen(t.p, t.n, "r") : fopen("/dev/null", "r"); int r; memcpy(nz, name.p, name.n); nz[name.n] = 0;
		r = pem_read(fp, nz, o.p, &ol, maxlen);
		if (r == 1) { printf("OK "); puthex(o.p, ol); printf(" %ld", ftell(fp)); } else if (r == 0) printf("ABSENT"); else printf("ERR");
		fclose(fp); free(nz); xfree(o); xfree(name); xfree(t); }
	else return 0;
	return 1;
}

#include <gmssl/sm9.h>
#include "harness_sm9.inc"
#include "harness_x509.inc"
#include "harness_crl.inc"
#include "harness_cms.inc"

static void handle(size_t nw, char **w) {
	const char *op = w[0];
	if (handle2(nw, w)) return;
	if (handle_sm9(nw, w)) return;
	if (handle_x509(nw, w)) return;
	if (handle_crl(nw, w)) return;
	if (handle_cms(nw, w)) return;
	if (!strcmp(op, "lenE") && nw == 2) { size_t l = strtoull(w[1], NULL, 10); ENC(asn1_length_to_der(l, OUT, OUTLEN)); }
	else if (!strcmp(op, "lenD") && nw == 2) { DEC_BEGIN(w[1]); size_t l = 0; r_ = asn1_length_from_der(&l, IN, INLEN); DEC_RET() { printf("OK %zu", l); } DEC_END(); }
	else if (!strcmp(op, "typE") && nw == 3) { int tag = atoi(w[1]); xb d = isnull(w[2]) ? xalloc(0) : xhex(w[2]);
		ENC(asn1_type_to_der(tag, isnull(w[2]) ? NULL : d.p, d.n, OUT, OUTLEN)); xfree(d); }
	else if ((!strcmp(op, "typD") || !strcmp(op, "netD")) && nw == 3) { int tag = atoi(w[1]); DEC_BEGIN(w[2]); const uint8_t *d = PP; size_t dl = PI;
		r_ = op[0] == 't' ? asn1_type_from_der(tag, &d, &dl, IN, INLEN) : asn1_nonempty_type_from_der(tag, &d, &dl, IN, INLEN);
		DEC_RETA((printf("d="), pbuf(d, 0), printf(" dlen="), pint((int)dl))) { printf("OK "); puthex(d, dl); } DEC_END(); }
	else if (!strcmp(op, "anytD") && nw == 2) { DEC_BEGIN(w[1]); int tag = PI; const uint8_t *d = PP; size_t dl = PI;
		r_ = asn1_any_type_from_der(&tag, &d, &dl, IN, INLEN); DEC_RETA((printf("tag="), pint(tag), printf(" d="), pbuf(d, 0), printf(" dlen="), pint((int)dl))) { printf("OK %d ", tag); puthex(d, dl); } DEC_END(); }
	else if (!strcmp(op, "anyD") && nw == 2) { DEC_BEGIN(w[1]); const uint8_t *a = NULL; size_t al = 0;
		r_ = asn1_any_from_der(&a, &al, IN, INLEN); DEC_RET() { printf("OK "); puthex(a, al); } DEC_END(); }
	else if (!strcmp(op, "boolE") && nw == 3) { int tag = atoi(w[1]), v = atoi(w[2]); ENC(asn1_boolean_to_der_ex(tag, v, OUT, OUTLEN)); }
	else if (!strcmp(op, "boolD") && nw == 3) { int tag = atoi(w[1]); DEC_BEGIN(w[2]); int v = PI;
		r_ = asn1_boolean_from_der_ex(tag, &v, IN, INLEN); DEC_RETA((printf("val="), pint(v))) { printf("OK %d", v); } DEC_END(); }
	else if (!strcmp(op, "intE") && nw == 3) { int tag = atoi(w[1]); xb a = isnull(w[2]) ? xalloc(0) : xhex(w[2]);
		ENC(asn1_integer_to_der_ex(tag, isnull(w[2]) ? NULL : a.p, a.n, OUT, OUTLEN)); xfree(a); }
	else if (!strcmp(op, "intD") && nw == 3) { int tag = atoi(w[1]); DEC_BEGIN(w[2]); const uint8_t *a = PP; size_t al = PI;
		r_ = asn1_integer_from_der_ex(tag, &a, &al, IN, INLEN); DEC_RETA((printf("a="), pbuf(a, 0), printf(" alen="), pint((int)al))) { printf("OK "); puthex(a, al); } DEC_END(); }
	else if (!strcmp(op, "i32E") && nw == 3) { int tag = atoi(w[1]); int a = (int)strtol(w[2], NULL, 10); ENC(asn1_int_to_der_ex(tag, a, OUT, OUTLEN)); }
	else if (!strcmp(op, "i32D") && nw == 3) { int tag = atoi(w[1]); DEC_BEGIN(w[2]); int a = PI;
		r_ = asn1_int_from_der_ex(tag, &a, IN, INLEN); DEC_RETA((printf("a="), pint(a))) { printf("OK %d", a); } DEC_END(); }
	else if (!strcmp(op, "bstrE") && nw == 4) { int tag = atoi(w[1]); xb b = isnull(w[2]) ? xalloc(0) : xhex(w[2]); size_t nbits = strtoull(w[3], NULL, 10);
		ENC(asn1_bit_string_to_der_ex(tag, isnull(w[2]) ? NULL : b.p, nbits, OUT, OUTLEN)); xfree(b); }
	else if (!strcmp(op, "bstrD") && nw == 3) { int tag = atoi(w[1]); DEC_BEGIN(w[2]); const uint8_t *b = PP; size_t nb = PI;
		r_ = asn1_bit_string_from_der_ex(tag, &b, &nb, IN, INLEN); DEC_RETA((printf("bits="), pbuf(b, 0), printf(" nbits="), pint((int)nb))) { printf("OK "); puthex(b, (nb + 7) / 8); printf(" %zu", nb); } DEC_END(); }
	else if (!strcmp(op, "boctE") && nw == 3) { int tag = atoi(w[1]); xb b = isnull(w[2]) ? xalloc(0) : xhex(w[2]);
		ENC(asn1_bit_octets_to_der_ex(tag, isnull(w[2]) ? NULL : b.p, b.n, OUT, OUTLEN)); xfree(b); }
	else if (!strcmp(op, "boctD") && nw == 3) { int tag = atoi(w[1]); DEC_BEGIN(w[2]); const uint8_t *b = PP; size_t n = PI;
		r_ = asn1_bit_octets_from_der_ex(tag, &b, &n, IN, INLEN); DEC_RETA((printf("octs="), pbuf(b, 0), printf(" nocts="), pint((int)n))) { printf("OK "); puthex(b, n); } DEC_END(); }
	else if (!strcmp(op, "bitsE") && nw == 3) { int tag = atoi(w[1]); int v = (int)strtol(w[2], NULL, 10); ENC(asn1_bits_to_der_ex(tag, v, OUT, OUTLEN)); }
	else if (!strcmp(op, "bitsD") && nw == 3) { int tag = atoi(w[1]); DEC_BEGIN(w[2]); int v = PI;
		r_ = asn1_bits_from_der_ex(tag, &v, IN, INLEN); DEC_RETA((printf("bits="), pint(v))) { printf("OK %d", v); } DEC_END(); }
	else if (!strcmp(op, "nullE") && nw == 1) { ENC(asn1_null_to_der(OUT, OUTLEN)); }
	else if (!strcmp(op, "nullD") && nw == 2) { DEC_BEGIN(w[1]); r_ = asn1_null_from_der(IN, INLEN); DEC_RET() { printf("OK -"); } DEC_END(); }
	else if ((!strcmp(op, "oidE") && nw == 2) || (!strcmp(op, "oidderE") && nw == 3)) {
		const char *s = w[nw - 1]; uint32_t *nodes = malloc(64 * sizeof(uint32_t)); size_t cnt = 0; char *cp = strdup(s), *sv = NULL, *t;
		int isn = isnull(s);
		if (!isn) for (t = strtok_r(cp, ".", &sv); t && cnt < 64; t = strtok_r(NULL, ".", &sv)) nodes[cnt++] = (uint32_t)strtoul(t, NULL, 10);
		{ uint32_t *ex = malloc(cnt ? cnt * 4 : 1); memcpy(ex, nodes, cnt * 4); free(nodes); nodes = ex; }  /* exactly sized */
		if (op[3] == 'E') {                                  /* to_octets: dry (out NULL) then real */
			size_t dry = 0, real = 0; int r = asn1_object_identifier_to_octets(nodes, cnt, NULL, &dry);
			if (r != 1) printf("ERR");
			else { xb o = xalloc(dry); r = asn1_object_identifier_to_octets(nodes, cnt, o.p, &real);
				if (r != 1) printf("ERR-REAL-RUN"); else { printf("OK "); puthex(o.p, real); printf(" %zu", dry); if (real != dry) printf(" MISMATCH"); } xfree(o); }
		} else { int tag = atoi(w[1]); ENC(asn1_object_identifier_to_der_ex(tag, isn ? NULL : nodes, cnt, OUT, OUTLEN)); }
		free(nodes); free(cp);
	}
	else if (!strcmp(op, "oidD") && nw == 2) { xb in = xhex(w[1]); uint32_t *nodes = malloc(ASN1_OID_MAX_NODES * sizeof(uint32_t)); size_t cnt = 0, i;
		int r = asn1_object_identifier_from_octets(nodes, &cnt, in.p, in.n);
		if (r != 1) printf("ERR"); else { printf("OK "); for (i = 0; i < cnt; i++) printf("%s%u", i ? "." : "", nodes[i]); }
		free(nodes); xfree(in); }
	else if (!strcmp(op, "oidderD") && nw == 3) { int tag = atoi(w[1]); DEC_BEGIN(w[2]); uint32_t *nodes = malloc(ASN1_OID_MAX_NODES * sizeof(uint32_t)); size_t cnt = PI, i;
		r_ = asn1_object_identifier_from_der_ex(tag, nodes, &cnt, IN, INLEN);
		DEC_RETA((printf("cnt="), pint((int)cnt))) { printf("OK "); for (i = 0; i < cnt; i++) printf("%s%u", i ? "." : "", nodes[i]); } DEC_END(); free(nodes); }
	else if (!strcmp(op, "seqintE") && nw == 2) { int *nums = malloc(64 * sizeof(int)); size_t cnt = 0; char *cp = strdup(w[1]), *sv = NULL, *t;
		if (strcmp(w[1], ".")) for (t = strtok_r(cp, ",", &sv); t && cnt < 64; t = strtok_r(NULL, ",", &sv)) nums[cnt++] = (int)strtol(t, NULL, 10);
		{ int *ex = malloc(cnt ? cnt * 4 : 1); memcpy(ex, nums, cnt * 4); free(nums); nums = ex; }
		ENC(asn1_sequence_of_int_to_der(nums, cnt, OUT, OUTLEN)); free(nums); free(cp); }
	else if (!strcmp(op, "seqintD") && nw == 3) { size_t mx = strtoul(w[1], NULL, 10); DEC_BEGIN(w[2]); int *nums = malloc(mx ? mx * sizeof(int) : 1); size_t cnt = PI, i;
		r_ = asn1_sequence_of_int_from_der(nums, &cnt, mx, IN, INLEN);
		DEC_RETA((printf("cnt="), pint((int)cnt))) { printf("OK "); if (!cnt) printf("."); for (i = 0; i < cnt; i++) printf("%s%d", i ? "," : "", nums[i]); } DEC_END(); free(nums); }
	else if (!strcmp(op, "isstr") && nw == 3) { xb a = xhex(w[2]); int r;
		if (!strcmp(w[1], "utf8")) r = asn1_string_is_utf8_string((char *)a.p, a.n);
		else if (!strcmp(w[1], "prn")) r = asn1_string_is_printable_string((char *)a.p, a.n);
		else r = asn1_string_is_ia5_string((char *)a.p, a.n);
		printf("%d", r); xfree(a); }
	else if (!strcmp(op, "strE") && nw == 4) { int tag = atoi(w[2]); xb d = isnull(w[3]) ? xalloc(0) : xhex(w[3]); const char *dp = isnull(w[3]) ? NULL : (char *)d.p;
		if (!strcmp(w[1], "utf8")) ENC(asn1_utf8_string_to_der_ex(tag, dp, d.n, OUT, OUTLEN));
		else if (!strcmp(w[1], "prn")) ENC(asn1_printable_string_to_der_ex(tag, dp, d.n, OUT, OUTLEN));
		else ENC(asn1_ia5_string_to_der_ex(tag, dp, d.n, OUT, OUTLEN));
		xfree(d); }
	else if (!strcmp(op, "strD") && nw == 4) { int tag = atoi(w[2]); DEC_BEGIN(w[3]); const char *d = (const char *)PP; size_t dl = PI;
		if (!strcmp(w[1], "utf8")) r_ = asn1_utf8_string_from_der_ex(tag, &d, &dl, IN, INLEN);
		else if (!strcmp(w[1], "prn")) r_ = asn1_printable_string_from_der_ex(tag, &d, &dl, IN, INLEN);
		else r_ = asn1_ia5_string_from_der_ex(tag, &d, &dl, IN, INLEN);
		DEC_RETA((printf("d="), pbuf((const uint8_t *)d, 0), printf(" dlen="), pint((int)dl))) { printf("OK "); puthex((const uint8_t *)d, dl); } DEC_END(); }
	else if (!strcmp(op, "sigE") && nw == 3) { xb r = xhex(w[1]), s = xhex(w[2]); SM2_SIGNATURE *sig = malloc(sizeof(*sig));
		memset(sig, 0, sizeof(*sig)); memcpy(sig->r, r.p, r.n < 32 ? r.n : 32); memcpy(sig->s, s.p, s.n < 32 ? s.n : 32);
		ENC(sm2_signature_to_der(sig, OUT, OUTLEN)); free(sig); xfree(r); xfree(s); }
	else if (!strcmp(op, "sigD") && nw == 2) { DEC_BEGIN(w[1]); SM2_SIGNATURE *sig = malloc(sizeof(*sig)); memset(sig, 0xAA, sizeof(*sig));
		r_ = sm2_signature_from_der(sig, IN, INLEN); DEC_RET() { printf("OK "); puthex(sig->r, 32); printf(" "); puthex(sig->s, 32);
			SECOND_RUN(w[1], SM2_SIGNATURE, sig, memset(B, 0x11, sizeof(*B)), sm2_signature_from_der(B, IN, INLEN)); } DEC_END(); free(sig); }
	else if (!strcmp(op, "hexD") && nw == 2) { xb t = xhex(w[1]); xb o = xalloc(t.n / 2); size_t ol = 0;
		int r = hex_to_bytes((char *)t.p, t.n, o.p, &ol);
		if (r == 1) { printf("OK "); puthex(o.p, ol); } else printf("ERR");
		xfree(o); xfree(t); }
	else if (!strcmp(op, "hexRT") && nw == 3) {          /* print with %02x / %02X, then hex_to_bytes */
		xb b = xhex(w[2]); xb t = xalloc(2 * b.n + 1); size_t i, ol = 0; xb o = xalloc(b.n); int r;
		for (i = 0; i < b.n; i++) sprintf((char *)t.p + 2 * i, w[1][0] == '1' ? "%02X" : "%02x", b.p[i]);
		r = hex_to_bytes((char *)t.p, 2 * b.n, o.p, &ol);
		if (r == 1) { printf("OK "); puthex(o.p, ol); } else printf("ERR");
		xfree(o); xfree(t); xfree(b); }
	else if (!strcmp(op, "b64blkE") && nw == 2) { xb f = xhex(w[1]); xb t = xalloc((f.n + 2) / 3 * 4 + 1);
		int r = base64_encode_block(t.p, f.p, (int)f.n);
		printf("OK "); puthex(t.p, (size_t)r); printf(" %d", r); if (t.p[r] != 0) printf(" NO-NUL"); xfree(t); xfree(f); }
	else if (!strcmp(op, "b64blkD") && nw == 2) { xb f = xhex(w[1]); xb t = xalloc(f.n / 4 * 3);
		int r = base64_decode_block(t.p, f.p, (int)f.n);
		if (r < 0) printf("ERR"); else { printf("OK "); puthex(t.p, (size_t)r); } xfree(t); xfree(f); }
	else if (!strcmp(op, "b64E") && nw == 2) {
		static buf_t ch[128]; size_t k = split_chunks(w[1], ch, 128), i; BASE64_CTX *c = malloc(sizeof(*c)); int ol;
		base64_encode_init(c);
		for (i = 0; i < k; i++) { xb in = xalloc(ch[i].n); memcpy(in.p, ch[i].p, ch[i].n);
			xb o = xalloc(((size_t)c->num + ch[i].n) / 48 * 65 + 1); ol = -7;
			int r = base64_encode_update(c, in.p, (int)in.n, o.p, &ol);
			printf("%d:", r); puthex(o.p, ol > 0 ? (size_t)ol : 0); printf("/"); xfree(o); xfree(in); }
		{ xb o = xalloc(c->num ? ((size_t)c->num + 2) / 3 * 4 + 2 : 0); ol = -7; base64_encode_finish(c, o.p, &ol); printf("f:"); puthex(o.p, ol > 0 ? (size_t)ol : 0); xfree(o); }
		free(c); free_chunks(ch, k); }
	else if (!strcmp(op, "b64D") && nw == 2) {
		static buf_t ch[128]; size_t k = split_chunks(w[1], ch, 128), i; BASE64_CTX *c = malloc(sizeof(*c)); int ol;
		base64_decode_init(c);
		for (i = 0; i < k; i++) { xb in = xalloc(ch[i].n); memcpy(in.p, ch[i].p, ch[i].n);
			xb o = xalloc(((size_t)c->num + ch[i].n) / 4 * 3); ol = -7;
			int r = base64_decode_update(c, in.p, (int)in.n, o.p, &ol);
			printf("%d:", r); puthex(o.p, ol > 0 ? (size_t)ol : 0); printf("/"); xfree(o); xfree(in); }
		{ xb o = xalloc((size_t)c->num / 4 * 3); ol = -7; int r = base64_decode_finish(c, o.p, &ol); printf("f%d:", r); puthex(o.p, (r == 1 && ol > 0) ? (size_t)ol : 0); xfree(o); }
		free(c); free_chunks(ch, k); }
	else if (!strcmp(op, "timeS") && nw == 3) { int utc = atoi(w[1]); time_t t = (time_t)strtoll(w[2], NULL, 10); xb s = xalloc(utc ? 13 : 15);
		int r = asn1_time_to_str(utc, t, (char *)s.p); if (r == 1) { printf("OK "); puthex(s.p, s.n); } else printf("ERR"); xfree(s); }
	else if (!strcmp(op, "timeP") && nw == 3) { int utc = atoi(w[1]); xb s = xhex(w[2]); time_t t = 0;
		int r = asn1_time_from_str(utc, &t, (char *)s.p); if (r == 1) printf("OK %lld", (long long)t); else printf("ERR"); xfree(s); }
	else if (!strcmp(op, "timeE") && nw == 4) { int utc = atoi(w[1]), tag = atoi(w[2]); time_t t = (time_t)strtoll(w[3], NULL, 10);
		if (utc) ENC(asn1_utc_time_to_der_ex(tag, t, OUT, OUTLEN)); else ENC(asn1_generalized_time_to_der_ex(tag, t, OUT, OUTLEN)); }
	else if (!strcmp(op, "timeD") && nw == 4) { int utc = atoi(w[1]), tag = atoi(w[2]); DEC_BEGIN(w[3]); time_t t = PI;
		r_ = utc ? asn1_utc_time_from_der_ex(tag, &t, IN, INLEN) : asn1_generalized_time_from_der_ex(tag, &t, IN, INLEN);
		DEC_RETA((printf("t="), pint((int)t))) { printf("OK %lld", (long long)t); } DEC_END(); }
	else printf("ERR bad-op");
}

int main(void) { main_loop(handle); return 0; }   /* stderr is kept: run_lines classifies sanitizer reports from it */
