/* C14 / C06 correspondence harness: ASN.1/DER primitives (src/asn1.c), hex, base64, SM2 signature DER.
 * Every buffer handed to the library is an exactly sized heap block whose END coincides with the
 * end of the data, so ASan reports any access past the declared length / capacity. */
#include "common.h"
#include <time.h>
#include <gmssl/asn1.h>
#include <gmssl/hex.h>
#include <gmssl/base64.h>
#include <gmssl/sm2.h>

typedef struct { uint8_t *base, *p; size_t n; } xb;
static xb xalloc(size_t n) { xb b; b.n = n; if (n) { b.base = malloc(n); b.p = b.base; } else { b.base = malloc(1); b.p = b.base + 1; } return b; }
static xb xhex(const char *s) {
	size_t l = strcmp(s, "-") ? strlen(s) / 2 : 0, i; xb b = xalloc(l);
	for (i = 0; i < l; i++) b.p[i] = (uint8_t)(hexval(s[2*i]) * 16 + hexval(s[2*i+1]));
	return b;
}
static void xfree(xb b) { free(b.base); }
static int isnull(const char *s) { return !strcmp(s, "NULL"); }

/* two-pass encoder protocol: dry run with out == NULL, dry run with *out == NULL, real run into
 * a buffer of exactly the reported size.  CALL uses OUT (uint8_t **) and OUTLEN (size_t *). */
#define ENC(CALL) do { \
	size_t dry = 0, dry2 = 0, real = 0; int r_; \
	{ uint8_t **OUT = NULL; size_t *OUTLEN = &dry; r_ = (CALL); } \
	if (r_ == 0) { printf("ABSENT"); break; } \
	if (r_ < 0) { printf("ERR"); break; } \
	{ uint8_t *np_ = NULL; uint8_t **OUT = &np_; size_t *OUTLEN = &dry2; (void)(CALL); } \
	{ xb o_ = xalloc(dry); uint8_t *p_ = o_.p; uint8_t **OUT = &p_; size_t *OUTLEN = &real; r_ = (CALL); \
	  if (r_ != 1) printf("ERR-REAL-RUN %d", r_); \
	  else { printf("OK "); puthex(o_.p, (size_t)(p_ - o_.p)); printf(" %zu", dry); \
	         if (real != dry || dry2 != dry || (size_t)(p_ - o_.p) != dry) printf(" MISMATCH real=%zu dry2=%zu written=%zu", real, dry2, (size_t)(p_ - o_.p)); } \
	  xfree(o_); } \
} while (0)

/* decoder protocol: IN (const uint8_t **), INLEN (size_t *); prints consumed count */
#define DEC_BEGIN(HEX) xb in_ = xhex(HEX); const uint8_t *ip_ = in_.p; size_t il_ = in_.n; const uint8_t **IN = &ip_; size_t *INLEN = &il_; int r_
#define DEC_RET() if (r_ == 0) { printf("ABSENT"); } else if (r_ < 0) { printf("ERR"); } else
#define DEC_END() do { if (r_ == 1) { printf(" %zu", in_.n - il_); if (ip_ != in_.p + (in_.n - il_)) printf(" PTRMISMATCH"); } xfree(in_); } while (0)

static void handle(size_t nw, char **w) {
	const char *op = w[0];
	if (!strcmp(op, "lenE") && nw == 2) { size_t l = strtoull(w[1], NULL, 10); ENC(asn1_length_to_der(l, OUT, OUTLEN)); }
	else if (!strcmp(op, "lenD") && nw == 2) { DEC_BEGIN(w[1]); size_t l = 0; r_ = asn1_length_from_der(&l, IN, INLEN); DEC_RET() { printf("OK %zu", l); } DEC_END(); }
	else if (!strcmp(op, "typE") && nw == 3) { int tag = atoi(w[1]); xb d = isnull(w[2]) ? xalloc(0) : xhex(w[2]);
		ENC(asn1_type_to_der(tag, isnull(w[2]) ? NULL : d.p, d.n, OUT, OUTLEN)); xfree(d); }
	else if ((!strcmp(op, "typD") || !strcmp(op, "netD")) && nw == 3) { int tag = atoi(w[1]); DEC_BEGIN(w[2]); const uint8_t *d = NULL; size_t dl = 0;
		r_ = op[0] == 't' ? asn1_type_from_der(tag, &d, &dl, IN, INLEN) : asn1_nonempty_type_from_der(tag, &d, &dl, IN, INLEN);
		DEC_RET() { printf("OK "); puthex(d, dl); } DEC_END(); }
	else if (!strcmp(op, "anytD") && nw == 2) { DEC_BEGIN(w[1]); int tag = 0; const uint8_t *d = NULL; size_t dl = 0;
		r_ = asn1_any_type_from_der(&tag, &d, &dl, IN, INLEN); DEC_RET() { printf("OK %d ", tag); puthex(d, dl); } DEC_END(); }
	else if (!strcmp(op, "anyD") && nw == 2) { DEC_BEGIN(w[1]); const uint8_t *a = NULL; size_t al = 0;
		r_ = asn1_any_from_der(&a, &al, IN, INLEN); DEC_RET() { printf("OK "); puthex(a, al); } DEC_END(); }
	else if (!strcmp(op, "boolE") && nw == 3) { int tag = atoi(w[1]), v = atoi(w[2]); ENC(asn1_boolean_to_der_ex(tag, v, OUT, OUTLEN)); }
	else if (!strcmp(op, "boolD") && nw == 3) { int tag = atoi(w[1]); DEC_BEGIN(w[2]); int v = 7;
		r_ = asn1_boolean_from_der_ex(tag, &v, IN, INLEN); DEC_RET() { printf("OK %d", v); } DEC_END(); }
	else if (!strcmp(op, "intE") && nw == 3) { int tag = atoi(w[1]); xb a = isnull(w[2]) ? xalloc(0) : xhex(w[2]);
		ENC(asn1_integer_to_der_ex(tag, isnull(w[2]) ? NULL : a.p, a.n, OUT, OUTLEN)); xfree(a); }
	else if (!strcmp(op, "intD") && nw == 3) { int tag = atoi(w[1]); DEC_BEGIN(w[2]); const uint8_t *a = NULL; size_t al = 0;
		r_ = asn1_integer_from_der_ex(tag, &a, &al, IN, INLEN); DEC_RET() { printf("OK "); puthex(a, al); } DEC_END(); }
	else if (!strcmp(op, "i32E") && nw == 3) { int tag = atoi(w[1]); int a = (int)strtol(w[2], NULL, 10); ENC(asn1_int_to_der_ex(tag, a, OUT, OUTLEN)); }
	else if (!strcmp(op, "i32D") && nw == 3) { int tag = atoi(w[1]); DEC_BEGIN(w[2]); int a = 7;
		r_ = asn1_int_from_der_ex(tag, &a, IN, INLEN); DEC_RET() { printf("OK %d", a); } DEC_END(); }
	else if (!strcmp(op, "bstrE") && nw == 4) { int tag = atoi(w[1]); xb b = isnull(w[2]) ? xalloc(0) : xhex(w[2]); size_t nbits = strtoull(w[3], NULL, 10);
		ENC(asn1_bit_string_to_der_ex(tag, isnull(w[2]) ? NULL : b.p, nbits, OUT, OUTLEN)); xfree(b); }
	else if (!strcmp(op, "bstrD") && nw == 3) { int tag = atoi(w[1]); DEC_BEGIN(w[2]); const uint8_t *b = NULL; size_t nb = 0;
		r_ = asn1_bit_string_from_der_ex(tag, &b, &nb, IN, INLEN); DEC_RET() { printf("OK "); puthex(b, (nb + 7) / 8); printf(" %zu", nb); } DEC_END(); }
	else if (!strcmp(op, "boctE") && nw == 3) { int tag = atoi(w[1]); xb b = isnull(w[2]) ? xalloc(0) : xhex(w[2]);
		ENC(asn1_bit_octets_to_der_ex(tag, isnull(w[2]) ? NULL : b.p, b.n, OUT, OUTLEN)); xfree(b); }
	else if (!strcmp(op, "boctD") && nw == 3) { int tag = atoi(w[1]); DEC_BEGIN(w[2]); const uint8_t *b = NULL; size_t n = 0;
		r_ = asn1_bit_octets_from_der_ex(tag, &b, &n, IN, INLEN); DEC_RET() { printf("OK "); puthex(b, n); } DEC_END(); }
	else if (!strcmp(op, "bitsE") && nw == 3) { int tag = atoi(w[1]); int v = (int)strtol(w[2], NULL, 10); ENC(asn1_bits_to_der_ex(tag, v, OUT, OUTLEN)); }
	else if (!strcmp(op, "bitsD") && nw == 3) { int tag = atoi(w[1]); DEC_BEGIN(w[2]); int v = 7;
		r_ = asn1_bits_from_der_ex(tag, &v, IN, INLEN); DEC_RET() { printf("OK %d", v); } DEC_END(); }
	else if (!strcmp(op, "nullE") && nw == 1) { ENC(asn1_null_to_der(OUT, OUTLEN)); }
	else if (!strcmp(op, "nullD") && nw == 2) { DEC_BEGIN(w[1]); r_ = asn1_null_from_der(IN, INLEN); DEC_RET() { printf("OK -"); } DEC_END(); }
	else if ((!strcmp(op, "oidE") && nw == 2) || (!strcmp(op, "oidderE") && nw == 3)) {
		const char *s = w[nw - 1]; uint32_t *nodes = malloc(64 * sizeof(uint32_t)); size_t cnt = 0; char *cp = strdup(s), *sv = NULL, *t;
		int isn = isnull(s);
		if (!isn) for (t = strtok_r(cp, ".", &sv); t && cnt < 64; t = strtok_r(NULL, ".", &sv)) nodes[cnt++] = (uint32_t)strtoul(t, NULL, 10);
		{ uint32_t *ex = malloc(cnt ? cnt * 4 : 1); memcpy(ex, nodes, cnt * 4); free(nodes); nodes = ex; }  /* exactly sized */
		if (op[3] == 'E') {                                  /* to_octets: dry (out NULL) then real */
			size_t dry = 0, real = 0; int r = asn1_object_identifier_to_octets(nodes, cnt, NULL, &dry);
			if (r != 1) printf("ERR");
			else { xb o = xalloc(dry); r = asn1_object_identifier_to_octets(nodes, cnt, o.p, &real);
				if (r != 1) printf("ERR-REAL-RUN"); else { printf("OK "); puthex(o.p, real); printf(" %zu", dry); if (real != dry) printf(" MISMATCH"); } xfree(o); }
		} else { int tag = atoi(w[1]); ENC(asn1_object_identifier_to_der_ex(tag, isn ? NULL : nodes, cnt, OUT, OUTLEN)); }
		free(nodes); free(cp);
	}
	else if (!strcmp(op, "oidD") && nw == 2) { xb in = xhex(w[1]); uint32_t *nodes = malloc(ASN1_OID_MAX_NODES * sizeof(uint32_t)); size_t cnt = 0, i;
		int r = asn1_object_identifier_from_octets(nodes, &cnt, in.p, in.n);
		if (r != 1) printf("ERR"); else { printf("OK "); for (i = 0; i < cnt; i++) printf("%s%u", i ? "." : "", nodes[i]); }
		free(nodes); xfree(in); }
	else if (!strcmp(op, "oidderD") && nw == 3) { int tag = atoi(w[1]); DEC_BEGIN(w[2]); uint32_t *nodes = malloc(ASN1_OID_MAX_NODES * sizeof(uint32_t)); size_t cnt = 0, i;
		r_ = asn1_object_identifier_from_der_ex(tag, nodes, &cnt, IN, INLEN);
		DEC_RET() { printf("OK "); for (i = 0; i < cnt; i++) printf("%s%u", i ? "." : "", nodes[i]); } DEC_END(); free(nodes); }
	else if (!strcmp(op, "seqintE") && nw == 2) { int *nums = malloc(64 * sizeof(int)); size_t cnt = 0; char *cp = strdup(w[1]), *sv = NULL, *t;
		if (strcmp(w[1], ".")) for (t = strtok_r(cp, ",", &sv); t && cnt < 64; t = strtok_r(NULL, ",", &sv)) nums[cnt++] = (int)strtol(t, NULL, 10);
		{ int *ex = malloc(cnt ? cnt * 4 : 1); memcpy(ex, nums, cnt * 4); free(nums); nums = ex; }
		ENC(asn1_sequence_of_int_to_der(nums, cnt, OUT, OUTLEN)); free(nums); free(cp); }
	else if (!strcmp(op, "seqintD") && nw == 3) { size_t mx = strtoul(w[1], NULL, 10); DEC_BEGIN(w[2]); int *nums = malloc(mx ? mx * sizeof(int) : 1); size_t cnt = 0, i;
		r_ = asn1_sequence_of_int_from_der(nums, &cnt, mx, IN, INLEN);
		DEC_RET() { printf("OK "); if (!cnt) printf("."); for (i = 0; i < cnt; i++) printf("%s%d", i ? "," : "", nums[i]); } DEC_END(); free(nums); }
	else if (!strcmp(op, "isstr") && nw == 3) { xb a = xhex(w[2]); int r;
		if (!strcmp(w[1], "utf8")) r = asn1_string_is_utf8_string((char *)a.p, a.n);
		else if (!strcmp(w[1], "prn")) r = asn1_string_is_printable_string((char *)a.p, a.n);
		else r = asn1_string_is_ia5_string((char *)a.p, a.n);
		printf("%d", r); xfree(a); }
	else if (!strcmp(op, "strE") && nw == 4) { int tag = atoi(w[2]); xb d = isnull(w[3]) ? xalloc(0) : xhex(w[3]); const char *dp = isnull(w[3]) ? NULL : (char *)d.p;
		if (!strcmp(w[1], "utf8")) ENC(asn1_utf8_string_to_der_ex(tag, dp, d.n, OUT, OUTLEN));
		else if (!strcmp(w[1], "prn")) ENC(asn1_printable_string_to_der_ex(tag, dp, d.n, OUT, OUTLEN));
		else ENC(asn1_ia5_string_to_der_ex(tag, dp, d.n, OUT, OUTLEN));
		xfree(d); }
	else if (!strcmp(op, "strD") && nw == 4) { int tag = atoi(w[2]); DEC_BEGIN(w[3]); const char *d = NULL; size_t dl = 0;
		if (!strcmp(w[1], "utf8")) r_ = asn1_utf8_string_from_der_ex(tag, &d, &dl, IN, INLEN);
		else if (!strcmp(w[1], "prn")) r_ = asn1_printable_string_from_der_ex(tag, &d, &dl, IN, INLEN);
		else r_ = asn1_ia5_string_from_der_ex(tag, &d, &dl, IN, INLEN);
		DEC_RET() { printf("OK "); puthex((const uint8_t *)d, dl); } DEC_END(); }
	else if (!strcmp(op, "sigE") && nw == 3) { xb r = xhex(w[1]), s = xhex(w[2]); SM2_SIGNATURE *sig = malloc(sizeof(*sig));
		memset(sig, 0, sizeof(*sig)); memcpy(sig->r, r.p, r.n < 32 ? r.n : 32); memcpy(sig->s, s.p, s.n < 32 ? s.n : 32);
		ENC(sm2_signature_to_der(sig, OUT, OUTLEN)); free(sig); xfree(r); xfree(s); }
	else if (!strcmp(op, "sigD") && nw == 2) { DEC_BEGIN(w[1]); SM2_SIGNATURE *sig = malloc(sizeof(*sig)); memset(sig, 0xAA, sizeof(*sig));
		r_ = sm2_signature_from_der(sig, IN, INLEN); DEC_RET() { printf("OK "); puthex(sig->r, 32); printf(" "); puthex(sig->s, 32); } DEC_END(); free(sig); }
	else if (!strcmp(op, "hexD") && nw == 2) { xb t = xhex(w[1]); xb o = xalloc(t.n / 2); size_t ol = 0;
		int r = hex_to_bytes((char *)t.p, t.n, o.p, &ol);
		if (r == 1) { printf("OK "); puthex(o.p, ol); } else printf("ERR");
		xfree(o); xfree(t); }
	else if (!strcmp(op, "hexRT") && nw == 3) {          /* print with %02x / %02X, then hex_to_bytes */
		xb b = xhex(w[2]); xb t = xalloc(2 * b.n + 1); size_t i, ol = 0; xb o = xalloc(b.n); int r;
		for (i = 0; i < b.n; i++) sprintf((char *)t.p + 2 * i, w[1][0] == '1' ? "%02X" : "%02x", b.p[i]);
		r = hex_to_bytes((char *)t.p, 2 * b.n, o.p, &ol);
		if (r == 1) { printf("OK "); puthex(o.p, ol); } else printf("ERR");
		xfree(o); xfree(t); xfree(b); }
	else if (!strcmp(op, "b64blkE") && nw == 2) { xb f = xhex(w[1]); xb t = xalloc((f.n + 2) / 3 * 4 + 1);
		int r = base64_encode_block(t.p, f.p, (int)f.n);
		printf("OK "); puthex(t.p, (size_t)r); printf(" %d", r); if (t.p[r] != 0) printf(" NO-NUL"); xfree(t); xfree(f); }
	else if (!strcmp(op, "b64blkD") && nw == 2) { xb f = xhex(w[1]); xb t = xalloc(f.n / 4 * 3);
		int r = base64_decode_block(t.p, f.p, (int)f.n);
		if (r < 0) printf("ERR"); else { printf("OK "); puthex(t.p, (size_t)r); } xfree(t); xfree(f); }
	else if (!strcmp(op, "b64E") && nw == 2) {
		static buf_t ch[128]; size_t k = split_chunks(w[1], ch, 128), i; BASE64_CTX *c = malloc(sizeof(*c)); int ol;
		base64_encode_init(c);
		for (i = 0; i < k; i++) { xb in = xalloc(ch[i].n); memcpy(in.p, ch[i].p, ch[i].n);
			xb o = xalloc(((size_t)c->num + ch[i].n) / 48 * 65 + 1); ol = -7;
			int r = base64_encode_update(c, in.p, (int)in.n, o.p, &ol);
			printf("%d:", r); puthex(o.p, ol > 0 ? (size_t)ol : 0); printf("/"); xfree(o); xfree(in); }
		{ xb o = xalloc(c->num ? ((size_t)c->num + 2) / 3 * 4 + 2 : 0); ol = -7; base64_encode_finish(c, o.p, &ol); printf("f:"); puthex(o.p, ol > 0 ? (size_t)ol : 0); xfree(o); }
		free(c); free_chunks(ch, k); }
	else if (!strcmp(op, "b64D") && nw == 2) {
		static buf_t ch[128]; size_t k = split_chunks(w[1], ch, 128), i; BASE64_CTX *c = malloc(sizeof(*c)); int ol;
		base64_decode_init(c);
		for (i = 0; i < k; i++) { xb in = xalloc(ch[i].n); memcpy(in.p, ch[i].p, ch[i].n);
			xb o = xalloc(((size_t)c->num + ch[i].n) / 4 * 3); ol = -7;
			int r = base64_decode_update(c, in.p, (int)in.n, o.p, &ol);
			printf("%d:", r); puthex(o.p, ol > 0 ? (size_t)ol : 0); printf("/"); xfree(o); xfree(in); }
		{ xb o = xalloc((size_t)c->num / 4 * 3); ol = -7; int r = base64_decode_finish(c, o.p, &ol); printf("f%d:", r); puthex(o.p, (r == 1 && ol > 0) ? (size_t)ol : 0); xfree(o); }
		free(c); free_chunks(ch, k); }
	else if (!strcmp(op, "timeS") && nw == 3) { int utc = atoi(w[1]); time_t t = (time_t)strtoll(w[2], NULL, 10); xb s = xalloc(utc ? 13 : 15);
		int r = asn1_time_to_str(utc, t, (char *)s.p); if (r == 1) { printf("OK "); puthex(s.p, s.n); } else printf("ERR"); xfree(s); }
	else if (!strcmp(op, "timeP") && nw == 3) { int utc = atoi(w[1]); xb s = xhex(w[2]); time_t t = 0;
		int r = asn1_time_from_str(utc, &t, (char *)s.p); if (r == 1) printf("OK %lld", (long long)t); else printf("ERR"); xfree(s); }
	else if (!strcmp(op, "timeE") && nw == 4) { int utc = atoi(w[1]), tag = atoi(w[2]); time_t t = (time_t)strtoll(w[3], NULL, 10);
		if (utc) ENC(asn1_utc_time_to_der_ex(tag, t, OUT, OUTLEN)); else ENC(asn1_generalized_time_to_der_ex(tag, t, OUT, OUTLEN)); }
	else if (!strcmp(op, "timeD") && nw == 4) { int utc = atoi(w[1]), tag = atoi(w[2]); DEC_BEGIN(w[3]); time_t t = 0;
		r_ = utc ? asn1_utc_time_from_der_ex(tag, &t, IN, INLEN) : asn1_generalized_time_from_der_ex(tag, &t, IN, INLEN);
		DEC_RET() { printf("OK %lld", (long long)t); } DEC_END(); }
	else printf("ERR bad-op");
}

int main(void) { main_loop(handle); return 0; }   /* stderr is kept: run_lines classifies sanitizer reports from it */
