(* C14 / C06 model driver: evaluates the extracted Impl models of the DER primitives and the
   text codecs on one op per line.  For ops whose model has defect switches the line is
     <result under Fixed>[ ~<switch>=<result with only that switch off>]...[ ~asis=<result under AsIs>]
   (the extra fields appear only when they differ from the Fixed result). *)
let hx = hex_of_bytes
let soi = string_of_int
let ni = int_of_n
let opt_hex s = if s = "NULL" then None else Some (bytes_of_hex s)
let llen l = List.length l

let pr_enc (r : n list res) (size : n) = match r with
  | Ok e -> "OK " ^ hx e ^ " " ^ soi (ni size)
  | Absent -> "ABSENT" | Err -> "ERR" | Fault -> "FAULT"
(* decoders: value string and number of consumed bytes *)
let pr_dec ?(abs="") inp (r : 'a res) (show : 'a -> string * n list) = match r with
  | Ok v -> let (s, rest) = show v in "OK " ^ s ^ " " ^ soi (llen inp - llen rest)
  | Absent -> if abs = "" then "ABSENT" else "ABSENT " ^ abs
  | Err -> "ERR" | Fault -> "FAULT"

let switches = [
  ("oid_cap", { fixed with fx_oid_cap = false });
  ("oid_lead", { fixed with fx_oid_lead = false });
  ("oid_first", { fixed with fx_oid_first = false });
  ("seq_cap", { fixed with fx_seq_cap = false });
  ("int_shift", { fixed with fx_int_shift = false });
  ("bit_empty", { fixed with fx_bit_empty = false });
  ("utf8", { fixed with fx_utf8 = false });
  ("hex_odd", { fixed with fx_hex_odd = false });
  ("b64_ws", { fixed with fx_b64_ws = false }) ]
let with_modes (f : mode -> string) =
  let r = f fixed in
  let extra = List.filter_map (fun (nm, m) -> let x = f m in if x = r then None else Some (" ~" ^ nm ^ "=" ^ x)) switches in
  let a = f asIs in
  r ^ String.concat "" extra ^ (if a = r then "" else " ~asis=" ^ a)

let ints_of s = if s = "." then [] else List.map int_of_string (split_on ',' s)
let nodes_of s = List.map (fun x -> n_of_int (int_of_string x)) (split_on '.' s)
let show_nodes ns = String.concat "." (List.map (fun x -> soi (ni x)) ns)

let str_valid m kind = match kind with
  | "utf8" -> is_utf8_string m | "prn" -> is_printable_string | _ -> is_ia5_string

let handle ws = match ws with
  | ["lenE"; l] ->
    let l = n_of_int (int_of_string l) in
    (match len_to_der l, len_size l with
     | Some e, Some s -> "OK " ^ hx e ^ " " ^ soi (ni s) | _ -> "ERR")
  | ["lenD"; h] -> let i = bytes_of_hex h in
    pr_dec i (len_from_der i) (fun (l, r) -> (soi (ni l), r))
  | ["typE"; tag; d] -> let t = n_of_int (int_of_string tag) and d = opt_hex d in
    pr_enc (type_to_der t d) (type_size t d)
  | ["typD"; tag; h] -> let i = bytes_of_hex h in
    pr_dec ~abs:"d=NULL dlen=0" i (type_from_der (n_of_int (int_of_string tag)) i) (fun (d, r) -> (hx d, r))
  | ["netD"; tag; h] -> let i = bytes_of_hex h in
    pr_dec ~abs:"d=NULL dlen=0" i (nonempty_type_from_der (n_of_int (int_of_string tag)) i) (fun (d, r) -> (hx d, r))
  | ["anytD"; h] -> let i = bytes_of_hex h in
    pr_dec ~abs:"tag=-1 d=NULL dlen=0" i (any_type_from_der i) (fun ((t, d), r) -> (soi (ni t) ^ " " ^ hx d, r))
  | ["anyD"; h] -> let i = bytes_of_hex h in
    pr_dec i (any_from_der i) (fun (a, r) -> (hx a, r))
  | ["boolE"; tag; v] -> let v = z_of_int (int_of_string v) in
    pr_enc (boolean_to_der (n_of_int (int_of_string tag)) v) (boolean_size v)
  | ["boolD"; tag; h] -> let i = bytes_of_hex h in
    pr_dec ~abs:"val=-1" i (boolean_from_der (n_of_int (int_of_string tag)) i) (fun (b, r) -> ((if b then "1" else "0"), r))
  | ["intE"; tag; a] -> let a = opt_hex a in
    pr_enc (integer_to_der (n_of_int (int_of_string tag)) a) (integer_size a)
  | ["intD"; tag; h] -> let i = bytes_of_hex h in
    pr_dec ~abs:"a=NULL alen=0" i (integer_from_der (n_of_int (int_of_string tag)) i) (fun (a, r) -> (hx a, r))
  | ["i32E"; tag; a] -> let a = z_of_int (int_of_string a) in
    pr_enc (int_to_der (n_of_int (int_of_string tag)) a) (int_size a)
  | ["i32D"; tag; h] -> let i = bytes_of_hex h in
    with_modes (fun m -> pr_dec ~abs:"a=-1" i (int_from_der m (n_of_int (int_of_string tag)) i) (fun (a, r) -> (soi (ni a), r)))
  | ["bstrE"; tag; b; nbits] -> let b = opt_hex b and nb = n_of_int (int_of_string nbits) in
    pr_enc (bit_string_to_der (n_of_int (int_of_string tag)) b nb) (bit_string_size b nb)
  | ["bstrD"; tag; h] -> let i = bytes_of_hex h in
    with_modes (fun m -> pr_dec ~abs:"bits=NULL nbits=0" i (bit_string_from_der m (n_of_int (int_of_string tag)) i)
                  (fun ((b, nb), r) -> (hx b ^ " " ^ soi (ni nb), r)))
  | ["boctE"; tag; b] -> let b = opt_hex b in
    let nb = (match b with Some x -> n_of_int (8 * llen x) | None -> N0) in
    pr_enc (bit_octets_to_der (n_of_int (int_of_string tag)) b) (bit_string_size b nb)
  | ["boctD"; tag; h] -> let i = bytes_of_hex h in
    with_modes (fun m -> pr_dec ~abs:"octs=NULL nocts=0" i (bit_octets_from_der m (n_of_int (int_of_string tag)) i) (fun (b, r) -> (hx b, r)))
  | ["bitsE"; tag; v] -> let v = z_of_int (int_of_string v) in
    pr_enc (bits_to_der (n_of_int (int_of_string tag)) v) (bits_size v)
  | ["bitsD"; tag; h] -> let i = bytes_of_hex h in
    with_modes (fun m -> pr_dec ~abs:"bits=-1" i (bits_from_der m (n_of_int (int_of_string tag)) i) (fun (v, r) -> (soi (ni v), r)))
  | ["nullE"] -> "OK " ^ hx null_to_der ^ " 2"
  | ["nullD"; h] -> let i = bytes_of_hex h in pr_dec i (null_from_der i) (fun r -> ("-", r))
  | ["oidE"; ns] -> let ns = nodes_of ns in
    with_modes (fun m -> match oid_to_octets m ns with
      | Ok o -> "OK " ^ hx o ^ " " ^ soi (llen o) | Absent -> "ABSENT" | Err -> "ERR" | Fault -> "FAULT")
  | ["oidD"; h] -> let i = bytes_of_hex h in
    with_modes (fun m -> match oid_from_octets m (n_of_int 32) i with
      | Ok ns -> "OK " ^ show_nodes ns | Absent -> "ABSENT" | Err -> "ERR" | Fault -> "FAULT")
  | ["oidderE"; tag; ns] -> let ns = if ns = "NULL" then None else Some (nodes_of ns) in
    let t = n_of_int (int_of_string tag) in
    with_modes (fun m -> pr_enc (oid_to_der m t ns) (oid_size m ns))
  | ["oidderD"; tag; h] -> let i = bytes_of_hex h in
    with_modes (fun m -> pr_dec ~abs:"cnt=0" i (oid_from_der m (n_of_int 32) (n_of_int (int_of_string tag)) i)
                  (fun (ns, r) -> (show_nodes ns, r)))
  | ["seqintE"; l] -> let l = List.map z_of_int (ints_of l) in
    pr_enc (seq_of_int_to_der l) (seq_of_int_size l)
  | ["seqintD"; mx; h] -> let i = bytes_of_hex h and mx = n_of_int (int_of_string mx) in
    with_modes (fun m -> pr_dec ~abs:"cnt=0" i (seq_of_int_from_der m mx mx i)
                  (fun (ns, r) -> ((if ns = [] then "." else String.concat "," (List.map (fun x -> soi (ni x)) ns)), r)))
  | ["isstr"; kind; h] -> let a = bytes_of_hex h in
    with_modes (fun m -> if str_valid m kind a then "1" else "0")
  | ["strE"; kind; tag; d] -> let d = opt_hex d and t = n_of_int (int_of_string tag) in
    with_modes (fun m -> pr_enc (string_to_der (str_valid m kind) t d) (type_size t d))
  | ["strD"; kind; tag; h] -> let i = bytes_of_hex h in
    with_modes (fun m -> pr_dec ~abs:"d=NULL dlen=0" i (string_from_der (str_valid m kind) (n_of_int (int_of_string tag)) i) (fun (d, r) -> (hx d, r)))
  | ["sigE"; r; s] -> let r = bytes_of_hex r and s = bytes_of_hex s in
    pr_enc (sm2_sig_to_der r s) (sm2_sig_size r s)
  | ["sigD"; h] -> let i = bytes_of_hex h in
    pr_dec i (sm2_sig_from_der i) (fun ((r, s), rest) -> (hx r ^ " " ^ hx s ^ " WHOLE", rest))
  | ["hexD"; t] -> let i = bytes_of_hex t in
    with_modes (fun m -> match hex_to_bytes m i with
     | Ok o -> "OK " ^ hx o | Absent -> "ABSENT" | Err -> "ERR" | Fault -> "FAULT")
  | ["hexRT"; up; b] -> let bs = bytes_of_hex b in
    (match hex_to_bytes fixed (hex_enc (up = "1") bs) with
     | Ok o -> "OK " ^ hx o | Absent -> "ABSENT" | Err -> "ERR" | Fault -> "FAULT")
  | ["b64blkE"; b] -> let o = encode_block (bytes_of_hex b) in "OK " ^ hx o ^ " " ^ soi (llen o)
  | ["b64blkD"; t] -> let f = bytes_of_hex t in
    with_modes (fun m -> match decode_block_m m f (n_of_int (llen f)) with
     | Ok o -> "OK " ^ hx o | Absent -> "ABSENT" | Err -> "ERR" | Fault -> "FAULT")
  | ["b64E"; c] ->
    (* per update: output; then finish output; '/'-separated *)
    let chunks = chunks_of c in
    let buf = ref [] and outs = ref [] in
    List.iter (fun ch -> let ((rv, b), o) = encode_update !buf ch in buf := b;
                outs := (soi (ni rv) ^ ":" ^ hx o) :: !outs) chunks;
    outs := ("f:" ^ hx (encode_finish !buf)) :: !outs;
    String.concat "/" (List.rev !outs)
  | ["b64D"; c] ->
    let chunks = chunks_of c in
    let buf = ref [] and outs = ref [] in
    List.iter (fun ch -> let ((rv, b), o) = decode_update !buf ch in buf := b;
                outs := (soi (int_of_z rv) ^ ":" ^ hx o) :: !outs) chunks;
    outs := (match decode_finish !buf with
        | Ok o -> "f1:" ^ hx o | Fault -> "FAULT" | _ -> "f-1:-") :: !outs;
    String.concat "/" (List.rev !outs)
  | ["timeS"; utc; t] ->
    (match time_to_str (utc = "1") (n_of_int (int_of_string t)) with Some s -> "OK " ^ hx s | None -> "ERR")
  | ["timeP"; utc; s] ->
    (match time_from_str (utc = "1") (bytes_of_hex s) with
     | Ok t -> "OK " ^ soi (ni t) | Absent -> "ABSENT" | Err -> "ERR" | Fault -> "FAULT")
  | ["timeE"; utc; tag; t] ->
    let t = if t = "-1" then None else Some (n_of_int (int_of_string t)) in
    pr_enc (time_to_der (utc = "1") (n_of_int (int_of_string tag)) t) (time_size (utc = "1") t)
  | ["timeD"; utc; tag; h] -> let i = bytes_of_hex h in
    pr_dec ~abs:"t=-1" i (time_from_der (utc = "1") (n_of_int (int_of_string tag)) i) (fun (t, r) -> (soi (ni t), r))

  (* ---- composite objects (coq/Codec/Pkcs.v, Pem.v).  Hints: H=<d>:<xy>,... ([d]G) and P=<65 octets>:<0|1>,... *)
  | op :: args when List.mem op ["curveE";"curveD";"pkalgE";"pkalgD";"sm2algE";"sm2algD";"encalgE";"encalgD";"p2eE";"p2eD";"prfE";"prfD";
                                 "kdfpE";"kdfpD";"kdfaE";"kdfaD";"p2pE";"p2pD";"p2aE";"p2aD";"p8eE";"p8eD";"ctE";"ctD";"pubE";"pubD";"pubiE";"pubiD";
                                 "privE";"privD";"p8E";"p8D";"p8seal";"p8sealraw";"p8open";"pemW";"pemR";"pubiP";"p8P"] ->
    let zi x = z_of_int (int_of_string x) and zs z = soi (int_of_z z) in
    let hints pre = List.concat (List.map (fun a ->
        if String.length a > 2 && String.sub a 0 2 = pre then
          List.map (fun kv -> match split_on ':' kv with [k; v] -> (k, v) | _ -> failwith "hint") (split_on ',' (String.sub a 2 (String.length a - 2)))
        else []) args) in
    let hH = hints "H=" and hP = hints "P=" and hK = hints "K=" in
    (* inside an encrypted key the generator cannot see a tampered scalar / point: an unknown scalar has an unknown
       public key (never equal to the embedded one), an unknown point is taken as invalid - either way the key is refused *)
    let lenient = (op = "p8open") in
    let pub_of d = (match List.assoc_opt (hx d) hH with Some v -> bytes_of_hex v | None -> if lenient then [] else failwith ("NOHINT-pub " ^ hx d)) in
    let pt_ok o = (match List.assoc_opt (hx o) hP with Some v -> v = "1" | None -> if lenient then false else failwith ("NOHINT-pt " ^ hx o)) in
    let kdf pass salt iter = (match List.assoc_opt (hx pass ^ "/" ^ hx salt ^ "/" ^ zs iter) hK with Some v -> bytes_of_hex v | None -> kdf_sm3 pass salt iter) in
    let args = List.filter (fun a -> not (String.length a > 2 && a.[1] = '=')) args in
    let enc r = (match r with Ok e -> "OK " ^ hx e ^ " " ^ soi (llen e) | Absent -> "ABSENT" | Err -> "ERR" | Fault -> "FAULT") in
    let show_p (p : pbes2) full = hx p.p_salt ^ " " ^ zs p.p_iter ^ " " ^ zs p.p_keylen ^ " " ^ zs p.p_prf ^ (if full then " " ^ zs p.p_cipher ^ " " ^ hx p.p_iv else "") in
    let attrs_s a = (match a with None -> "NULL" | Some x -> hx x) in
    (match op, args with
     | "curveE", [id] -> enc (curve_to_der (zi id))
     | "curveD", [h] -> let i = bytes_of_hex h in pr_dec ~abs:"oid=-1" i (curve_from_der i) (fun (id, r) -> (zs id, r))
     | "pkalgE", [id; par] -> enc (pk_algor_to_der (zi id) (zi par))
     | "pkalgD", [h] -> let i = bytes_of_hex h in pr_dec i (pk_algor_from_der i) (fun ((id, par), r) -> (zs id ^ " " ^ zs par, r))
     | "sm2algE", [] -> enc sm2_algor_to_der
     | "sm2algD", [h] -> let i = bytes_of_hex h in pr_dec i (sm2_algor_from_der i) (fun r -> ("-", r))
     | "encalgE", [id; iv] -> enc (enc_algor_to_der (zi id) (bytes_of_hex iv))
     | "encalgD", [h] -> let i = bytes_of_hex h in pr_dec ~abs:"oid=0 iv=NULL ivlen=0" i (enc_algor_from_der i) (fun ((id, iv), r) -> (zs id ^ " " ^ hx iv, r))
     | "p2eE", [id; iv] -> enc (pbes2_enc_algor_to_der (zi id) (bytes_of_hex iv))
     | "p2eD", [h] -> let i = bytes_of_hex h in pr_dec ~abs:"oid=0 iv=NULL ivlen=0" i (pbes2_enc_algor_from_der i) (fun ((id, iv), r) -> (zs id ^ " " ^ hx iv, r))
     | "prfE", [prf] -> enc (prf_to_der (zi prf))
     | "prfD", [h] -> let i = bytes_of_hex h in
       (match prf_from_der i with
        | Ok (prf, r) -> if int_of_z prf = -1 then "ABSENT prf=-1" else "OK " ^ zs prf ^ " " ^ soi (llen i - llen r)
        | Absent -> "ABSENT" | Err -> "ERR" | Fault -> "FAULT")
     | "kdfpE", [salt; iter; kl; prf] -> enc (pbkdf2_params_to_der (bytes_of_hex salt) (zi iter) (zi kl) (zi prf))
     | "kdfaE", [salt; iter; kl; prf] -> enc (pbkdf2_algor_to_der (bytes_of_hex salt) (zi iter) (zi kl) (zi prf))
     | ("kdfpD" | "kdfaD"), [h] -> let i = bytes_of_hex h in
       pr_dec i ((if op = "kdfpD" then pbkdf2_params_from_der else pbkdf2_algor_from_der) i)
         (fun ((((salt, iter), kl), prf), r) -> (hx salt ^ " " ^ zs iter ^ " " ^ zs kl ^ " " ^ zs prf, r))
     | ("p2pE" | "p2aE"), [salt; iter; kl; prf; ci; iv] ->
       let p = { p_salt = bytes_of_hex salt; p_iter = zi iter; p_keylen = zi kl; p_prf = zi prf; p_cipher = zi ci; p_iv = bytes_of_hex iv } in
       enc ((if op = "p2pE" then pbes2_params_to_der else pbes2_algor_to_der) p)
     | ("p2pD" | "p2aD"), [h] -> let i = bytes_of_hex h in
       pr_dec i ((if op = "p2pD" then pbes2_params_from_der else pbes2_algor_from_der) i) (fun (p, r) -> (show_p p true, r))
     | "p8eE", [salt; iter; kl; prf; ci; iv; en] ->
       let p = { p_salt = bytes_of_hex salt; p_iter = zi iter; p_keylen = zi kl; p_prf = zi prf; p_cipher = zi ci; p_iv = bytes_of_hex iv } in
       enc (p8e_to_der p (bytes_of_hex en))
     | "p8eD", [h] -> let i = bytes_of_hex h in pr_dec i (p8e_from_der i) (fun ((p, en), r) -> (show_p p true ^ " " ^ hx en, r))
     | "ctE", [x; y; hh; c] -> enc (sm2_ct_to_der (bytes_of_hex x) (bytes_of_hex y) (bytes_of_hex hh) (bytes_of_hex c))
     | "ctD", [h] -> let i = bytes_of_hex h in
       pr_dec i (sm2_ct_from_der i) (fun ((((x, y), hh), c), r) -> (hx x ^ " " ^ hx y ^ " " ^ hx hh ^ " " ^ hx c ^ " WHOLE", r))
     | "pubE", [xy] -> enc (sm2_pub_to_der (bytes_of_hex xy))
     | "pubiE", [xy] -> enc (sm2_pubinfo_to_der (bytes_of_hex xy))
     | "pubD", [h] -> let i = bytes_of_hex h in pr_dec i (sm2_pubkey_from_der pt_ok i) (fun (k, r) -> (hx k.k_priv ^ " " ^ hx k.k_pub ^ " WHOLE", r))
     | "pubiD", [h] -> let i = bytes_of_hex h in pr_dec i (sm2_pubkeyinfo_from_der pt_ok i) (fun (k, r) -> (hx k.k_priv ^ " " ^ hx k.k_pub ^ " WHOLE", r))
     | "pubiP", [t] -> (match sm2_pubkeyinfo_from_pem pt_ok (bytes_of_hex t) with Ok k -> "OK " ^ hx k.k_priv ^ " " ^ hx k.k_pub ^ " WHOLE" | Fault -> "FAULT" | _ -> "ERR")
     | "p8P", [t] -> (match sm2_privkeyinfo_from_pem pub_of pt_ok (bytes_of_hex t) with Ok k -> "OK " ^ hx k.k_priv ^ " " ^ hx k.k_pub ^ " WHOLE" | Fault -> "FAULT" | _ -> "ERR")
     | "privE", [d] -> enc (sm2_priv_to_der pub_of (bytes_of_hex d))
     | "p8E", [d] -> enc (sm2_p8_to_der pub_of (bytes_of_hex d))
     | "privD", [h] -> let i = bytes_of_hex h in pr_dec i (sm2_priv_from_der pub_of pt_ok i) (fun ((d, xy), r) -> (hx d ^ " " ^ hx xy ^ " WHOLE", r))
     | "p8D", [h] -> let i = bytes_of_hex h in
       pr_dec i (sm2_p8_from_der pub_of pt_ok i) (fun (((d, xy), at), r) -> (hx d ^ " " ^ hx xy ^ " " ^ attrs_s at ^ " WHOLE", r))
     | "p8seal", [d; pass; salt; iv; iter; kl; prf] ->
       (match sm2_p8_to_der pub_of (bytes_of_hex d) with
        | Ok info ->
          let key = kdf (bytes_of_hex pass) (bytes_of_hex salt) (zi iter) in
          let en = cbcenc_sm4 key (bytes_of_hex iv) info in
          let p = { p_salt = bytes_of_hex salt; p_iter = zi iter; p_keylen = zi kl; p_prf = zi prf; p_cipher = z_of_int 20; p_iv = bytes_of_hex iv } in
          enc (p8e_to_der p en)
        | _ -> "ERR")
     | "p8sealraw", [info; pass; salt; iv; iter; kl; prf] ->
       let key = kdf (bytes_of_hex pass) (bytes_of_hex salt) (zi iter) in
       let en = cbcenc_sm4 key (bytes_of_hex iv) (bytes_of_hex info) in
       let p = { p_salt = bytes_of_hex salt; p_iter = zi iter; p_keylen = zi kl; p_prf = zi prf; p_cipher = z_of_int 20; p_iv = bytes_of_hex iv } in
       enc (p8e_to_der p en)
     | "p8open", [pass; h] -> let i = bytes_of_hex h in
       (match sm2_p8_open_c pub_of pt_ok kdf cbcdec_sm4 (bytes_of_hex pass) i with
        | Ok (((d, xy), at), r) -> "OK " ^ hx d ^ " " ^ hx xy ^ " " ^ attrs_s at ^ " WHOLE " ^ soi (llen i - llen r)
        | Fault -> "FAULT" | _ -> "ERR")
     | "pemW", [name; d] -> (match pem_write (bytes_of_hex name) (bytes_of_hex d) with Some t -> "OK " ^ hx t | None -> "ERR")
     | "pemR", [name; mx; t] -> let i = bytes_of_hex t in
       (match pem_read (bytes_of_hex name) i (n_of_int (int_of_string mx)) with
        | Ok (d, r) -> "OK " ^ hx d ^ " " ^ soi (llen i - llen r) | Absent -> "ABSENT" | Err -> "ERR" | Fault -> "FAULT")
     | _ -> "ERR bad-op")
  | _ -> "ERR bad-op"

let () = main_loop handle
