(* C14 / C06 model driver: evaluates the extracted Impl models of the DER primitives and the
   text codecs on one op per line.  For ops whose model has defect switches the line is
     <result under Fixed>[ ~<switch>=<result with only that switch off>]...[ ~asis=<result under AsIs>]
   (the extra fields appear only when they differ from the Fixed result). *)
let hx = hex_of_bytes
let soi = string_of_int
let ni = int_of_n
let opt_hex s = if s = "NULL" then None else Some (bytes_of_hex s)
let llen l = List.length l

let pr_enc (r : n list res) (size : n) = match r with
  | Ok e -> "OK " ^ hx e ^ " " ^ soi (ni size)
  | Absent -> "ABSENT" | Err -> "ERR" | Fault -> "FAULT"
(* decoders: value string and number of consumed bytes *)
let pr_dec inp (r : 'a res) (show : 'a -> string * n list) = match r with
  | Ok v -> let (s, rest) = show v in "OK " ^ s ^ " " ^ soi (llen inp - llen rest)
  | Absent -> "ABSENT" | Err -> "ERR" | Fault -> "FAULT"

let switches = [
  ("oid_cap", { fixed with fx_oid_cap = false });
  ("oid_lead", { fixed with fx_oid_lead = false });
  ("oid_first", { fixed with fx_oid_first = false });
  ("seq_cap", { fixed with fx_seq_cap = false });
  ("int_shift", { fixed with fx_int_shift = false });
  ("bit_empty", { fixed with fx_bit_empty = false });
  ("utf8", { fixed with fx_utf8 = false });
  ("hex_odd", { fixed with fx_hex_odd = false });
  ("b64_ws", { fixed with fx_b64_ws = false }) ]
let with_modes (f : mode -> string) =
  let r = f fixed in
  let extra = List.filter_map (fun (nm, m) -> let x = f m in if x = r then None else Some (" ~" ^ nm ^ "=" ^ x)) switches in
  let a = f asIs in
  r ^ String.concat "" extra ^ (if a = r then "" else " ~asis=" ^ a)

let ints_of s = if s = "." then [] else List.map int_of_string (split_on ',' s)
let nodes_of s = List.map (fun x -> n_of_int (int_of_string x)) (split_on '.' s)
let show_nodes ns = String.concat "." (List.map (fun x -> soi (ni x)) ns)

let str_valid m kind = match kind with
  | "utf8" -> is_utf8_string m | "prn" -> is_printable_string | _ -> is_ia5_string

let handle ws = match ws with
  | ["lenE"; l] ->
    let l = n_of_int (int_of_string l) in
    (match len_to_der l, len_size l with
     | Some e, Some s -> "OK " ^ hx e ^ " " ^ soi (ni s) | _ -> "ERR")
  | ["lenD"; h] -> let i = bytes_of_hex h in
    pr_dec i (len_from_der i) (fun (l, r) -> (soi (ni l), r))
  | ["typE"; tag; d] -> let t = n_of_int (int_of_string tag) and d = opt_hex d in
    pr_enc (type_to_der t d) (type_size t d)
  | ["typD"; tag; h] -> let i = bytes_of_hex h in
    pr_dec i (type_from_der (n_of_int (int_of_string tag)) i) (fun (d, r) -> (hx d, r))
  | ["netD"; tag; h] -> let i = bytes_of_hex h in
    pr_dec i (nonempty_type_from_der (n_of_int (int_of_string tag)) i) (fun (d, r) -> (hx d, r))
  | ["anytD"; h] -> let i = bytes_of_hex h in
    pr_dec i (any_type_from_der i) (fun ((t, d), r) -> (soi (ni t) ^ " " ^ hx d, r))
  | ["anyD"; h] -> let i = bytes_of_hex h in
    pr_dec i (any_from_der i) (fun (a, r) -> (hx a, r))
  | ["boolE"; tag; v] -> let v = z_of_int (int_of_string v) in
    pr_enc (boolean_to_der (n_of_int (int_of_string tag)) v) (boolean_size v)
  | ["boolD"; tag; h] -> let i = bytes_of_hex h in
    pr_dec i (boolean_from_der (n_of_int (int_of_string tag)) i) (fun (b, r) -> ((if b then "1" else "0"), r))
  | ["intE"; tag; a] -> let a = opt_hex a in
    pr_enc (integer_to_der (n_of_int (int_of_string tag)) a) (integer_size a)
  | ["intD"; tag; h] -> let i = bytes_of_hex h in
    pr_dec i (integer_from_der (n_of_int (int_of_string tag)) i) (fun (a, r) -> (hx a, r))
  | ["i32E"; tag; a] -> let a = z_of_int (int_of_string a) in
    pr_enc (int_to_der (n_of_int (int_of_string tag)) a) (int_size a)
  | ["i32D"; tag; h] -> let i = bytes_of_hex h in
    with_modes (fun m -> pr_dec i (int_from_der m (n_of_int (int_of_string tag)) i) (fun (a, r) -> (soi (ni a), r)))
  | ["bstrE"; tag; b; nbits] -> let b = opt_hex b and nb = n_of_int (int_of_string nbits) in
    pr_enc (bit_string_to_der (n_of_int (int_of_string tag)) b nb) (bit_string_size b nb)
  | ["bstrD"; tag; h] -> let i = bytes_of_hex h in
    with_modes (fun m -> pr_dec i (bit_string_from_der m (n_of_int (int_of_string tag)) i)
                  (fun ((b, nb), r) -> (hx b ^ " " ^ soi (ni nb), r)))
  | ["boctE"; tag; b] -> let b = opt_hex b in
    let nb = (match b with Some x -> n_of_int (8 * llen x) | None -> N0) in
    pr_enc (bit_octets_to_der (n_of_int (int_of_string tag)) b) (bit_string_size b nb)
  | ["boctD"; tag; h] -> let i = bytes_of_hex h in
    with_modes (fun m -> pr_dec i (bit_octets_from_der m (n_of_int (int_of_string tag)) i) (fun (b, r) -> (hx b, r)))
  | ["bitsE"; tag; v] -> let v = z_of_int (int_of_string v) in
    pr_enc (bits_to_der (n_of_int (int_of_string tag)) v) (bits_size v)
  | ["bitsD"; tag; h] -> let i = bytes_of_hex h in
    with_modes (fun m -> pr_dec i (bits_from_der m (n_of_int (int_of_string tag)) i) (fun (v, r) -> (soi (ni v), r)))
  | ["nullE"] -> "OK " ^ hx null_to_der ^ " 2"
  | ["nullD"; h] -> let i = bytes_of_hex h in pr_dec i (null_from_der i) (fun r -> ("-", r))
  | ["oidE"; ns] -> let ns = nodes_of ns in
    with_modes (fun m -> match oid_to_octets m ns with
      | Ok o -> "OK " ^ hx o ^ " " ^ soi (llen o) | Absent -> "ABSENT" | Err -> "ERR" | Fault -> "FAULT")
  | ["oidD"; h] -> let i = bytes_of_hex h in
    with_modes (fun m -> match oid_from_octets m (n_of_int 32) i with
      | Ok ns -> "OK " ^ show_nodes ns | Absent -> "ABSENT" | Err -> "ERR" | Fault -> "FAULT")
  | ["oidderE"; tag; ns] -> let ns = if ns = "NULL" then None else Some (nodes_of ns) in
    let t = n_of_int (int_of_string tag) in
    with_modes (fun m -> pr_enc (oid_to_der m t ns) (oid_size m ns))
  | ["oidderD"; tag; h] -> let i = bytes_of_hex h in
    with_modes (fun m -> pr_dec i (oid_from_der m (n_of_int 32) (n_of_int (int_of_string tag)) i)
                  (fun (ns, r) -> (show_nodes ns, r)))
  | ["seqintE"; l] -> let l = List.map z_of_int (ints_of l) in
    pr_enc (seq_of_int_to_der l) (seq_of_int_size l)
  | ["seqintD"; mx; h] -> let i = bytes_of_hex h and mx = n_of_int (int_of_string mx) in
    with_modes (fun m -> pr_dec i (seq_of_int_from_der m mx mx i)
                  (fun (ns, r) -> ((if ns = [] then "." else String.concat "," (List.map (fun x -> soi (ni x)) ns)), r)))
  | ["isstr"; kind; h] -> let a = bytes_of_hex h in
    with_modes (fun m -> if str_valid m kind a then "1" else "0")
  | ["strE"; kind; tag; d] -> let d = opt_hex d and t = n_of_int (int_of_string tag) in
    with_modes (fun m -> pr_enc (string_to_der (str_valid m kind) t d) (type_size t d))
  | ["strD"; kind; tag; h] -> let i = bytes_of_hex h in
    with_modes (fun m -> pr_dec i (string_from_der (str_valid m kind) (n_of_int (int_of_string tag)) i) (fun (d, r) -> (hx d, r)))
  | ["sigE"; r; s] -> let r = bytes_of_hex r and s = bytes_of_hex s in
    pr_enc (sm2_sig_to_der r s) (sm2_sig_size r s)
  | ["sigD"; h] -> let i = bytes_of_hex h in
    pr_dec i (sm2_sig_from_der i) (fun ((r, s), rest) -> (hx r ^ " " ^ hx s, rest))
  | ["hexD"; t] -> let i = bytes_of_hex t in
    with_modes (fun m -> match hex_to_bytes m i with
     | Ok o -> "OK " ^ hx o | Absent -> "ABSENT" | Err -> "ERR" | Fault -> "FAULT")
  | ["hexRT"; up; b] -> let bs = bytes_of_hex b in
    (match hex_to_bytes fixed (hex_enc (up = "1") bs) with
     | Ok o -> "OK " ^ hx o | Absent -> "ABSENT" | Err -> "ERR" | Fault -> "FAULT")
  | ["b64blkE"; b] -> let o = encode_block (bytes_of_hex b) in "OK " ^ hx o ^ " " ^ soi (llen o)
  | ["b64blkD"; t] -> let f = bytes_of_hex t in
    with_modes (fun m -> match decode_block_m m f (n_of_int (llen f)) with
     | Ok o -> "OK " ^ hx o | Absent -> "ABSENT" | Err -> "ERR" | Fault -> "FAULT")
  | ["b64E"; c] ->
    (* per update: output; then finish output; '/'-separated *)
    let chunks = chunks_of c in
    let buf = ref [] and outs = ref [] in
    List.iter (fun ch -> let ((rv, b), o) = encode_update !buf ch in buf := b;
                outs := (soi (ni rv) ^ ":" ^ hx o) :: !outs) chunks;
    outs := ("f:" ^ hx (encode_finish !buf)) :: !outs;
    String.concat "/" (List.rev !outs)
  | ["b64D"; c] ->
    let chunks = chunks_of c in
    let buf = ref [] and outs = ref [] in
    List.iter (fun ch -> let ((rv, b), o) = decode_update !buf ch in buf := b;
                outs := (soi (int_of_z rv) ^ ":" ^ hx o) :: !outs) chunks;
    outs := (match decode_finish !buf with
        | Ok o -> "f1:" ^ hx o | Fault -> "FAULT" | _ -> "f-1:-") :: !outs;
    String.concat "/" (List.rev !outs)
  | ["timeS"; utc; t] ->
    (match time_to_str (utc = "1") (n_of_int (int_of_string t)) with Some s -> "OK " ^ hx s | None -> "ERR")
  | ["timeP"; utc; s] ->
    (match time_from_str (utc = "1") (bytes_of_hex s) with
     | Ok t -> "OK " ^ soi (ni t) | Absent -> "ABSENT" | Err -> "ERR" | Fault -> "FAULT")
  | ["timeE"; utc; tag; t] ->
    let t = if t = "-1" then None else Some (n_of_int (int_of_string t)) in
    pr_enc (time_to_der (utc = "1") (n_of_int (int_of_string tag)) t) (time_size (utc = "1") t)
  | ["timeD"; utc; tag; h] -> let i = bytes_of_hex h in
    pr_dec i (time_from_der (utc = "1") (n_of_int (int_of_string tag)) i) (fun (t, r) -> (soi (ni t), r))
  | _ -> "ERR bad-op"

let () = main_loop handle
