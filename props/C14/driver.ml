(* C14 / C06 model driver: evaluates the extracted Impl models of the DER primitives and the
   text codecs on one op per line.  For ops whose model has defect switches the line is
     <result under Fixed>[ ~<switch>=<result with only that switch off>]...[ ~asis=<result under AsIs>]
   (the extra fields appear only when they differ from the Fixed result). *)
let hx = hex_of_bytes
let soi = string_of_int
let ni = int_of_n
let opt_hex s = if s = "NULL" then None else Some (bytes_of_hex s)
let llen l = List.length l

let pr_enc (r : n list res) (size : n) = match r with
  | Ok e -> "OK " ^ hx e ^ " " ^ soi (ni size)
  | Absent -> "ABSENT" | Err -> "ERR" | Fault -> "FAULT"
(* decoders: value string and number of consumed bytes *)
let pr_dec ?(abs="") inp (r : 'a res) (show : 'a -> string * n list) = match r with
  | Ok v -> let (s, rest) = show v in "OK " ^ s ^ " " ^ soi (llen inp - llen rest)
  | Absent -> if abs = "" then "ABSENT" else "ABSENT " ^ abs
  | Err -> "ERR" | Fault -> "FAULT"

let switches = [
  ("oid_cap", { fixed with fx_oid_cap = false });
  ("oid_lead", { fixed with fx_oid_lead = false });
  ("oid_first", { fixed with fx_oid_first = false });
  ("seq_cap", { fixed with fx_seq_cap = false });
  ("int_shift", { fixed with fx_int_shift = false });
  ("bit_empty", { fixed with fx_bit_empty = false });
  ("utf8", { fixed with fx_utf8 = false });
  ("hex_odd", { fixed with fx_hex_odd = false });
  ("b64_ws", { fixed with fx_b64_ws = false }) ]
let with_modes (f : mode -> string) =
  let r = f fixed in
  let extra = List.filter_map (fun (nm, m) -> let x = f m in if x = r then None else Some (" ~" ^ nm ^ "=" ^ x)) switches in
  let a = f asIs in
  r ^ String.concat "" extra ^ (if a = r then "" else " ~asis=" ^ a)

let ints_of s = if s = "." then [] else List.map int_of_string (split_on ',' s)
let nodes_of s = List.map (fun x -> n_of_int (int_of_string x)) (split_on '.' s)
let show_nodes ns = String.concat "." (List.map (fun x -> soi (ni x)) ns)

let str_valid m kind = match kind with
  | "utf8" -> is_utf8_string m | "prn" -> is_printable_string | _ -> is_ia5_string


(* ---- X.509 layer (coq/Codec/X509.v): "OK f1 f2 ... <consumed>" | "ABSENT f1 ..." | "ERR" | "FAULT".
   Alternatives for the as-is text: ~digest_ret=, ~dp_uri=.  Hints: P=<65 octets>:<0|1>,... *)
let x509_ops = ["xdgstE";"xdgstD";"xsigaE";"xsigaD";"xpkeE";"xpkeD";"xextidD";"xextD";"xextsget";"xothernD";"xgnD";"xgnsnext";"xgnsfirst";"xurignsD";
  "xakiD";"xbcD";"xdtextD";"xnrefD";"xunoticeD";"xpqiD";"xcpidD";"xpolinfoD";"xpolmapD";"xattrD";"xgsubD";"xncD";"xpcD";"xkpD";"xekuD";"xekuE";
  "xdpnD";"xuridpnD";"xuriedpnD";"xuridpD";"xuridpsD";"xaccmD";"xaccdD";"xaiaD";"xdirnD";"xedirnD";"xediD";"xatvD";"xrdnD";"xrdnchk";"xnamechk";
  "xverD";"xtimeD";"xvalidD";"xxextsD";"xtbsD";"xcertdet";"xsignedD";"xcertD"]
let zs z = soi (int_of_z z)
let zi x = z_of_int (int_of_string x)
let nn x = n_of_int (int_of_string x)
let f_ptr = function PUnset -> "POISON" | PNull -> "NULL" | PBuf d -> hx d
let f_nodes ns = if ns = [] then "." else show_nodes ns
let f_ints l = if l = [] then "." else String.concat "," (List.map zs l)
let f_nints l = if l = [] then "." else String.concat "," (List.map (fun x -> soi (ni x)) l)
let f_time t = soi (ni t)
let xres ?(abs="") ?(consumed=true) inp (r : 'a res) (show : 'a -> string list * n list) = match r with
  | Ok v -> let (fs, rest) = show v in
    String.concat " " ("OK" :: fs) ^ (if consumed then " " ^ soi (llen inp - llen rest) else "")
  | Absent -> if abs = "" then "ABSENT" else "ABSENT " ^ abs
  | Err -> "ERR" | Fault -> "FAULT"
let xenc r = match r with Ok e -> "OK " ^ hx e ^ " " ^ soi (llen e) | Absent -> "ABSENT" | Err -> "ERR" | Fault -> "FAULT"
let alt name fixed asis = if asis = fixed then fixed else fixed ^ " ~" ^ name ^ "=" ^ asis
let handle_x509 op args =
  let hints pre = List.concat (List.map (fun a ->
      if String.length a > 2 && String.sub a 0 2 = pre then
        List.map (fun kv -> match split_on ':' kv with [k; v] -> (k, v) | _ -> failwith "hint") (split_on ',' (String.sub a 2 (String.length a - 2)))
      else []) args) in
  let hP = hints "P=" in
  let pt_ok o = (match List.assoc_opt (hx o) hP with Some v -> v = "1" | None -> failwith ("NOHINT-pt " ^ hx o)) in
  let args = List.filter (fun a -> not (String.length a > 2 && a.[1] = '=')) args in
  let tbs_f (t : tbs_cert) = [zs t.t_version; hx t.t_serial; zs t.t_sigalg; hx t.t_issuer; f_time t.t_not_before; f_time t.t_not_after; hx t.t_subject;
                              hx t.t_pub; f_ptr t.t_issuer_uid; f_ptr t.t_subject_uid; f_ptr t.t_exts] in
  match op, args with
  | "xdgstE", [id] -> xenc (digest_algor_to_der (zi id))
  | "xdgstD", [h] -> let i = bytes_of_hex h in
    let f fx = xres ~abs:"0" i (digest_algor_from_der fx i) (fun (id, r) -> ([zs id], r)) in alt "digest_ret" (f true) (f false)
  | "xsigaE", [id] -> xenc (sign_algor_to_der (zi id))
  | "xsigaD", [h] -> let i = bytes_of_hex h in xres ~abs:"0" i (sign_algor_from_der i) (fun (id, r) -> ([zs id], r))
  | "xpkeE", [id] -> xenc (pke_algor_to_der (zi id))
  | "xpkeD", [h] -> let i = bytes_of_hex h in xres ~abs:"0 NULL" i (pke_algor_from_der i) (fun ((id, p), r) -> ([zs id; f_ptr p], r))
  | "xextidD", [h] -> let i = bytes_of_hex h in xres ~abs:"-1 ." i (ext_id_from_der i) (fun ((id, ns), r) -> ([zs id; f_nodes ns], r))
  | "xextD", [h] -> let i = bytes_of_hex h in
    xres ~abs:"POISON POISON POISON POISON" i (ext_from_der i) (fun ((((id, ns), c), v), r) -> ([zs id; f_nodes ns; zs c; hx v], r))
  | "xextsget", [oid; h] -> let d = bytes_of_hex h in
    (match exts_get_ext_by_oid d (zi oid) with
     | Ok (Some (c, v)) -> "OK " ^ zs c ^ " " ^ hx v | Ok None -> "ABSENT -1 NULL" | Absent -> "ABSENT" | Err -> "ERR" | Fault -> "FAULT")
  | "xothernD", [h] -> let i = bytes_of_hex h in xres ~abs:"POISON POISON" i (other_name_from_der i) (fun ((ns, v), r) -> ([f_nodes ns; hx v], r))
  | "xgnD", [h] -> let i = bytes_of_hex h in xres ~abs:"POISON NULL" i (general_name_from_der i) (fun ((c, v), r) -> ([zs c; hx v], r))
  | ("xgnsnext" | "xgnsfirst"), _ ->
    let (c, off, h) = (match args with [c; off; h] -> (c, off, h) | [c; h] -> (c, "0", h) | _ -> failwith "args") in
    let g = bytes_of_hex h in
    (match (if op = "xgnsnext" then general_names_get_next g (nn off) (zi c) else general_names_get_first g (zi c)) with
     | Ok (Some (v, r)) -> "OK " ^ hx v ^ " " ^ soi (llen g - llen r) | Ok None -> "ABSENT NULL" | Absent -> "ABSENT" | Err -> "ERR" | Fault -> "FAULT")
  | "xurignsD", [tag; h] -> let i = bytes_of_hex h in xres ~abs:"NULL" i (uri_as_general_names_from_der (nn tag) i) (fun (u, r) -> ([f_ptr u], r))
  | "xakiD", [h] -> let i = bytes_of_hex h in
    xres ~abs:"POISON POISON POISON" i (aki_from_der i) (fun (((k, is), sn), r) -> ([f_ptr k; f_ptr is; f_ptr sn], r))
  | "xbcD", [h] -> let i = bytes_of_hex h in xres ~abs:"-1 -1" i (basic_constraints_from_der i) (fun ((ca, plc), r) -> ([zs ca; zs plc], r))
  | "xdtextD", [h] -> let i = bytes_of_hex h in xres i (display_text_from_der i) (fun ((t, v), r) -> ([zs t; hx v], r))
  | "xnrefD", [mx; h] -> let i = bytes_of_hex h in
    xres i (notice_reference_from_der (nn mx) i) (fun (((t, org), nums), r) -> ([zs t; hx org; f_nints nums], r))
  | "xunoticeD", [mx; h] -> let i = bytes_of_hex h in
    xres i (user_notice_from_der (nn mx) i) (fun ((nref, txt), r) ->
      ((match nref with ((t, org), nums) -> [zs t; f_ptr org; f_nints nums]) @ (match txt with (t, v) -> [zs t; f_ptr v]), r))
  | "xpqiD", [h] -> let i = bytes_of_hex h in xres i (policy_qualifier_info_from_der i) (fun ((id, q), r) -> ([zs id; hx q], r))
  | "xcpidD", [h] -> let i = bytes_of_hex h in xres ~abs:"-1 ." i (cert_policy_id_from_der i) (fun ((id, ns), r) -> ([zs id; f_nodes ns], r))
  | "xpolinfoD", [h] -> let i = bytes_of_hex h in xres i (policy_information_from_der i) (fun (((id, ns), q), r) -> ([zs id; f_nodes ns; f_ptr q], r))
  | "xpolmapD", [h] -> let i = bytes_of_hex h in
    xres i (policy_mapping_from_der i) (fun ((((i1, n1), i2), n2), r) -> ([zs i1; f_nodes n1; zs i2; f_nodes n2], r))
  | "xattrD", [h] -> let i = bytes_of_hex h in xres i (attribute_from_der i) (fun ((ns, v), r) -> (["0"; f_nodes ns; hx v], r))
  | "xgsubD", [h] -> let i = bytes_of_hex h in
    xres i (general_subtree_from_der i) (fun ((((c, b), mn), mx), r) -> ([zs c; hx b; zs mn; zs mx], r))
  | "xncD", [h] -> let i = bytes_of_hex h in xres i (name_constraints_from_der i) (fun ((a, b), r) -> ([f_ptr a; f_ptr b], r))
  | "xpcD", [h] -> let i = bytes_of_hex h in xres ~abs:"-1 -1" i (policy_constraints_from_der i) (fun ((a, b), r) -> ([zs a; zs b], r))
  | "xkpD", [h] -> let i = bytes_of_hex h in xres ~abs:"-1" i (key_purpose_from_der i) (fun (id, r) -> ([zs id], r))
  | "xekuD", [mx; h] -> let i = bytes_of_hex h in xres ~abs:"." i (ext_key_usage_from_der (nn mx) i) (fun (ids, r) -> ([f_ints ids], r))
  | "xekuE", [ids] -> xenc (ext_key_usage_to_der (if ids = "." then [] else List.map zi (split_on ',' ids)))
  | "xdpnD", [h] -> let i = bytes_of_hex h in xres i (distribution_point_name_from_der i) (fun ((c, v), r) -> ([zs c; hx v], r))
  | "xuridpnD", [h] -> let i = bytes_of_hex h in
    let f u0 = xres i (uri_as_dpn_from_der u0 i) (fun (u, r) -> ([f_ptr u], r)) in alt "dp_uri" (f PNull) (f PUnset)
  | "xuriedpnD", [ix; h] -> let i = bytes_of_hex h in
    let f u0 = xres i (uri_as_explicit_dpn_from_der u0 (nn ix) i) (fun (u, r) -> ([f_ptr u], r)) in alt "dp_uri" (f PNull) (f PUnset)
  | "xuridpD", [h] -> let i = bytes_of_hex h in
    let f u0 = xres i (uri_as_dp_from_der u0 i) (fun (((u, rs), is), r) -> ([f_ptr u; zs rs; f_ptr is], r)) in alt "dp_uri" (f PNull) (f PUnset)
  | "xuridpsD", [h] -> let i = bytes_of_hex h in
    let f fx = xres i (uri_as_dps_from_der fx i) (fun (((u, rs), is), r) -> ([f_ptr u; zs rs; f_ptr is], r)) in alt "dp_uri" (f true) (f false)
  | "xaccmD", [h] -> let i = bytes_of_hex h in xres ~abs:"-1" i (access_method_from_der i) (fun (id, r) -> ([zs id], r))
  | "xaccdD", [h] -> let i = bytes_of_hex h in xres ~abs:"-1 NULL" i (access_description_from_der i) (fun ((id, u), r) -> ([zs id; hx u], r))
  | "xaiaD", [h] -> let i = bytes_of_hex h in xres ~abs:"NULL NULL" i (aia_from_der i) (fun ((a, b), r) -> ([f_ptr a; f_ptr b], r))
  | "xdirnD", [h] -> let i = bytes_of_hex h in xres i (directory_name_from_der i) (fun ((t, v), r) -> ([zs t; hx v], r))
  | "xedirnD", [ix; h] -> let i = bytes_of_hex h in xres i (explicit_directory_name_from_der (nn ix) i) (fun ((t, v), r) -> ([zs t; hx v], r))
  | "xediD", [h] -> let i = bytes_of_hex h in
    xres i (edi_party_name_from_der i) (fun ((a, (t2, v2)), r) ->
      ((match a with (t, v) -> [zs t; f_ptr v]) @ [zs t2; hx v2], r))
  | "xatvD", [h] -> let i = bytes_of_hex h in
    xres ~abs:"POISON -1 NULL" i (attr_type_and_value_from_der i) (fun (((id, t), v), r) -> ([zs id; zs t; hx v], r))
  | "xrdnD", [h] -> let i = bytes_of_hex h in
    xres ~abs:"-1 -1 NULL NULL" i (rdn_from_der i) (fun ((((id, t), v), m), r) -> ([zs id; zs t; hx v; f_ptr m], r))
  | ("xrdnchk" | "xnamechk"), [h] -> let d = bytes_of_hex h in
    (match (if op = "xrdnchk" then rdn_check d else name_check d) with Ok _ -> "OK" | Absent -> "ABSENT" | Err -> "ERR" | Fault -> "FAULT")
  | "xverD", [ix; h] -> let i = bytes_of_hex h in xres ~abs:"-1" i (explicit_version_from_der (nn ix) i) (fun (v, r) -> ([zs v], r))
  | "xtimeD", [h] -> let i = bytes_of_hex h in xres ~abs:"-1" i (x509_time_from_der i) (fun (t, r) -> ([f_time t], r))
  | "xvalidD", [h] -> let i = bytes_of_hex h in xres ~abs:"-1 -1" i (validity_from_der i) (fun ((a, b), r) -> ([f_time a; f_time b], r))
  | "xxextsD", [ix; h] -> let i = bytes_of_hex h in xres ~abs:"NULL" i (explicit_exts_from_der (nn ix) i) (fun (d, r) -> ([hx d], r))
  | "xtbsD", [h] -> let i = bytes_of_hex h in xres i (tbs_cert_from_der pt_ok i) (fun (t, r) -> (tbs_f t, r))
  | "xcertdet", [h] -> let i = bytes_of_hex h in
    xres ~consumed:false i (cert_get_details pt_ok i) (fun ((t, alg), sg) -> (tbs_f t @ [zs alg; hx sg], []))
  | "xsignedD", [h] -> let i = bytes_of_hex h in xres ~abs:"NULL -1 NULL" i (signed_from_der i) (fun (((t, a), sg), r) -> ([hx t; zs a; hx sg], r))
  | "xcertD", [h] -> let i = bytes_of_hex h in xres i (cert_from_der pt_ok i) (fun (a, r) -> ([hx a], r))
  | _ -> "MODEL-BADOP " ^ op

(* ---- SM9 key containers (coq/Codec/Sm9Key.v).  FRAGMENT for props/C14/driver.ml.  Merge:
     1. paste this fragment before   let handle ws = match ws with
     2. add as the FIRST case of that match:      | op :: args when List.mem op sm9_ops -> handle_sm9 op args
   Hint tokens (any position after the op, removed before the arguments are read):
     G1=<65 octets>:<0|1>,...    verdict of sm9_z256_point_from_uncompressed_octets        (taken from the harness op s9ok)
     G2=<129 octets>:<0|1>,...   verdict of sm9_z256_twist_point_from_uncompressed_octets  (taken from the harness op s9ok)
     K=<pass>/<salt>/<iter>:<key>,...   PBKDF2 output for 65536 iterations (taken from the harness op kdf)
     E=<salt>/<iv>               the 16 + 16 bytes of entropy drawn by the library's writer (op s9sealLib) *)
let sm9_ops = ["s9oidE";"s9oidD";"s9algE";"s9algD";"s9E";"s9D";"s9ctE";"s9ctD";"s9sealLib";"s9open"]
let handle_sm9 op args =
  let zi x = z_of_int (int_of_string x) and zs z = soi (int_of_z z) in
  let is_hint a = (match String.index_opt a '=' with Some i -> i >= 1 && i <= 2 | None -> false) in
  let hints pre = List.concat (List.map (fun a ->
      let pl = String.length pre in
      if String.length a > pl && String.sub a 0 pl = pre then
        List.map (fun kv -> match split_on ':' kv with [k; v] -> (k, v) | _ -> failwith "hint") (split_on ',' (String.sub a pl (String.length a - pl)))
      else []) args) in
  let hG1 = hints "G1=" and hG2 = hints "G2=" and hK = hints "K=" in
  let hE = List.concat (List.map (fun a -> if String.length a > 2 && String.sub a 0 2 = "E=" then
                                       (match split_on '/' (String.sub a 2 (String.length a - 2)) with [s; i] -> [(bytes_of_hex s, bytes_of_hex i)] | _ -> failwith "hint E") else []) args) in
  (* inside an encrypted container the generator cannot see a tampered point: an unknown point is taken as invalid, the key is refused *)
  let lenient = (op = "s9open") in
  let g1_ok o = (match List.assoc_opt (hx o) hG1 with Some v -> v = "1" | None -> if lenient then false else failwith ("NOHINT-g1 " ^ hx o)) in
  let g2_ok o = (match List.assoc_opt (hx o) hG2 with Some v -> v = "1" | None -> if lenient then false else failwith ("NOHINT-g2 " ^ hx o)) in
  let kdf pass salt iter = (match List.assoc_opt (hx pass ^ "/" ^ hx salt ^ "/" ^ zs iter) hK with Some v -> bytes_of_hex v | None -> kdf_sm3 pass salt iter) in
  let args = List.filter (fun a -> not (is_hint a)) args in
  let enc r = (match r with Ok e -> "OK " ^ hx e ^ " " ^ soi (llen e) | Absent -> "ABSENT" | Err -> "ERR" | Fault -> "FAULT") in
  let b = bytes_of_hex in
  let two x y = hx x ^ " " ^ hx y ^ " WHOLE" in
  let s_smsk (k : sign_msk) = two k.sm_ks k.sm_Ppubs and s_sk (k : sign_key) = two k.sk_ds k.sk_Ppubs in
  let s_emsk (k : enc_msk) = two k.em_ke k.em_Ppube and s_ek (k : enc_key) = two k.ek_de k.ek_Ppube in
  (match op, args with
   | "s9oidE", [id] -> enc (sm9_oid_to_der (zi id))
   | "s9oidD", [h] -> let i = b h in pr_dec ~abs:"oid=-1" i (sm9_oid_from_der i) (fun (id, r) -> (zs id, r))
   | "s9algE", [a; p] -> enc (sm9_algor_to_der (zi a) (zi p))
   | "s9algD", [h] -> let i = b h in pr_dec i (sm9_algor_from_der i) (fun ((a, p), r) -> (zs a ^ " " ^ zs p, r))
   | "s9E", ["smsk"; f1; f2] -> enc (sign_msk_to_der { sm_ks = b f1; sm_Ppubs = b f2 })
   | "s9E", ["smpk"; f1; f2] -> enc (sign_mpk_to_der { sm_ks = b f1; sm_Ppubs = b f2 })
   | "s9E", ["sk"; f1; f2] -> enc (sign_key_to_der { sk_ds = b f1; sk_Ppubs = b f2 })
   | "s9E", ["emsk"; f1; f2] -> enc (enc_msk_to_der { em_ke = b f1; em_Ppube = b f2 })
   | "s9E", ["empk"; f1; f2] -> enc (enc_mpk_to_der { em_ke = b f1; em_Ppube = b f2 })
   | "s9E", ["ek"; f1; f2] -> enc (enc_key_to_der { ek_de = b f1; ek_Ppube = b f2 })
   | "s9E", ["sig"; f1; f2] -> enc (sm9_sig_to_der (b f1) (b f2))
   | "s9D", ["smsk"; h] -> let i = b h in pr_dec i (sign_msk_from_der g2_ok i) (fun (k, r) -> (s_smsk k, r))
   | "s9D", ["smpk"; h] -> let i = b h in pr_dec i (sign_mpk_from_der g2_ok i) (fun (k, r) -> (s_smsk k, r))
   | "s9D", ["sk"; h] -> let i = b h in pr_dec i (sign_key_from_der g1_ok g2_ok i) (fun (k, r) -> (s_sk k, r))
   | "s9D", ["emsk"; h] -> let i = b h in pr_dec i (enc_msk_from_der g1_ok i) (fun (k, r) -> (s_emsk k, r))
   | "s9D", ["empk"; h] -> let i = b h in pr_dec i (enc_mpk_from_der g1_ok i) (fun (k, r) -> (s_emsk k, r))
   | "s9D", ["ek"; h] -> let i = b h in pr_dec i (enc_key_from_der g1_ok g2_ok i) (fun (k, r) -> (s_ek k, r))
   | "s9D", ["sig"; h] -> let i = b h in pr_dec i (sm9_sig_from_der g1_ok i) (fun ((hh, s), r) -> (two hh s, r))
   | "s9ctE", [c1; c2; c3] -> enc (sm9_ct_to_der (b c1) (b c2) (b c3))
   | "s9ctD", [h] -> let i = b h in
     pr_dec i (sm9_ct_from_der g1_ok i) (fun (((c1, c2), c3), r) -> (hx c1 ^ " " ^ hx c2 ^ " " ^ hx c3 ^ " WHOLE", r))
   | "s9sealLib", [ty; f1; f2; pass; _seed] ->
     (match hE with
      | [(salt, iv)] ->
        let pass = b pass in
        (match ty with
         | "smsk" -> enc (sign_msk_seal kdf cbcenc_sm4 { sm_ks = b f1; sm_Ppubs = b f2 } pass salt iv)
         | "sk" -> enc (sign_key_seal kdf cbcenc_sm4 { sk_ds = b f1; sk_Ppubs = b f2 } pass salt iv)
         | "emsk" -> enc (enc_msk_seal kdf cbcenc_sm4 { em_ke = b f1; em_Ppube = b f2 } pass salt iv)
         | "ek" -> enc (enc_key_seal kdf cbcenc_sm4 { ek_de = b f1; ek_Ppube = b f2 } pass salt iv)
         | _ -> "ERR")
      | _ -> failwith "NOHINT-E")
   | "s9open", [ty; pass; h] -> let i = b h and pass = b pass in
     let fin show r = (match r with
         | Ok (k, rest) -> "OK " ^ show k ^ " " ^ soi (llen i - llen rest)
         | Fault -> "FAULT" | _ -> "ERR") in
     (match ty with
      | "smsk" -> fin s_smsk (sign_msk_open g2_ok kdf cbcdec_sm4 pass i)
      | "sk" -> fin s_sk (sign_key_open g1_ok g2_ok kdf cbcdec_sm4 pass i)
      | "emsk" -> fin s_emsk (enc_msk_open g1_ok kdf cbcdec_sm4 pass i)
      | "ek" -> fin s_ek (enc_key_open g1_ok g2_ok kdf cbcdec_sm4 pass i)
      | _ -> "ERR")
   | _ -> "ERR bad-op")

(* ---- CRL / certification request layer (coq/Codec/Crl.v): "OK f1 f2 ... [<consumed>]" | "ABSENT f1 ..." | "ERR" | "FAULT".
   To be placed after the X.509 fragment of props/C14/driver.ml (uses zs zi nn hx soi llen f_ptr f_nodes f_time xres),
   with `| op :: args when List.mem op crl_ops -> handle_crl op args` in [handle].  Hints: P=<65 octets>:<0|1>,...
   In-values of rentryextexD: a number / hex, NULL, or P (the harness's poison: 0x5a5a5a5a resp. an unset pointer). *)
let crl_ops = ["rreasonD";"rentryextidD";"rentrycrit";"rentryextD";"rentryextexD";"rentryextsget";"rentryextsD";"rentryextschk";
  "rrevokedD";"rrevokedexD";"rfindserial";"rcrlextidexD";"rcrlextidD";"ridpD";"rcrlextcrit";"rcrlextD";"rcrlextschk";
  "rtbscrlD";"rcrlexD";"rcrldet";"rcrlchk";"rcrlissuer";"rcrlrevoked";"rcrlfind";"rcrlD";"qreqinfoD";"qreqdet";"qreqD"]
let handle_crl op args =
  let hints pre = List.concat (List.map (fun a ->
      if String.length a > 2 && String.sub a 0 2 = pre then
        List.map (fun kv -> match split_on ':' kv with [k; v] -> (k, v) | _ -> failwith "hint") (split_on ',' (String.sub a 2 (String.length a - 2)))
      else []) args) in
  let hP = hints "P=" in
  let pt_ok o = (match List.assoc_opt (hx o) hP with Some v -> v = "1" | None -> failwith ("NOHINT-pt " ^ hx o)) in
  let args = List.filter (fun a -> not (String.length a > 2 && a.[1] = '=')) args in
  let poison = 0x5a5a5a5a in
  let zin s = if s = "P" then z_of_int poison else zi s in
  let zsp z = if int_of_z z = poison then "POISON" else zs z in
  let pin s = if s = "NULL" then PNull else if s = "P" then PUnset else PBuf (bytes_of_hex s) in
  let unit_res r = (match r with Ok _ -> "OK" | Absent -> "ABSENT" | Err -> "ERR" | Fault -> "FAULT") in
  let found r = (match r with
     | Ok (Some (d, e)) -> "OK " ^ f_time d ^ " " ^ f_ptr e | Ok None -> "ABSENT -1 NULL" | Absent -> "ABSENT" | Err -> "ERR" | Fault -> "FAULT") in
  let crl_f (t : tbs_crl) = [zs t.c_version; zs t.c_sigalg; hx t.c_issuer; f_time t.c_this_update; zs t.c_next_update; f_ptr t.c_revoked; f_ptr t.c_exts] in
  let p7 = "POISON POISON POISON POISON POISON POISON POISON" in
  match op, args with
  | "rreasonD", [h] -> let i = bytes_of_hex h in xres ~abs:"-1" i (crl_reason_from_der i) (fun (v, r) -> ([zs v], r))
  | "rentryextidD", [h] -> let i = bytes_of_hex h in xres ~abs:"-1" i (crl_entry_ext_id_from_der i) (fun (v, r) -> ([zs v], r))
  | "rentrycrit", [o; c] -> if crl_entry_ext_critical_check (zi o) (zi c) then "OK" else "ERR"
  | "rentryextD", [h] -> let i = bytes_of_hex h in
    xres ~abs:"POISON POISON POISON" i (crl_entry_ext_from_der i) (fun (((id, c), v), r) -> ([zs id; zs c; hx v], r))
  | "rentryextexD", [r0; d0; c0; h] -> let i = bytes_of_hex h in
    xres ~abs:"POISON POISON -1 -1 NULL" i (crl_entry_ext_from_der_ex (zin r0) (zin d0) (pin c0) i)
      (fun (((((id, c), rs), dt), ci), r) -> ([zs id; zs c; zsp rs; zsp dt; f_ptr ci], r))
  | "rentryextsget", [h] -> let d = bytes_of_hex h in
    xres ~consumed:false d (crl_entry_exts_get d) (fun ((rs, dt), ci) -> ([zs rs; zs dt; f_ptr ci], []))
  | "rentryextsD", [h] -> let i = bytes_of_hex h in
    xres ~abs:"POISON POISON POISON" i (crl_entry_exts_from_der i) (fun (((rs, dt), ci), r) -> ([zs rs; zs dt; f_ptr ci], r))
  | "rentryextschk", [h] -> unit_res (crl_entry_exts_check (bytes_of_hex h))
  | "rrevokedD", [h] -> let i = bytes_of_hex h in
    xres ~abs:"POISON POISON POISON" i (revoked_cert_from_der i) (fun (((sn, d), e), r) -> ([hx sn; f_time d; f_ptr e], r))
  | "rrevokedexD", [h] -> let i = bytes_of_hex h in
    xres ~abs:"POISON POISON POISON POISON POISON" i (revoked_cert_from_der_ex i)
      (fun (((((sn, d), rs), dt), ci), r) -> ([hx sn; f_time d; zs rs; zs dt; f_ptr ci], r))
  | "rfindserial", [s; h] -> found (revoked_certs_find_by_serial (bytes_of_hex h) (bytes_of_hex s))
  | "rcrlextidexD", [h] -> let i = bytes_of_hex h in xres ~abs:"0 ." i (crl_ext_id_from_der_ex i) (fun ((id, ns), r) -> ([zs id; f_nodes ns], r))
  | "rcrlextidD", [h] -> let i = bytes_of_hex h in xres ~abs:"0" i (crl_ext_id_from_der i) (fun (id, r) -> ([zs id], r))
  | "ridpD", [h] -> let i = bytes_of_hex h in
    xres ~abs:p7 i (issuing_distribution_point_from_der i)
      (fun (((((((c, dp), a), b), rs), d), e), r) -> ([zs c; hx dp; zs a; zs b; zs rs; zs d; zs e], r))
  | "rcrlextcrit", [o; c] -> unit_res (crl_ext_critical_check (zi o) (zi c))
  | "rcrlextD", [h] -> let i = bytes_of_hex h in
    xres ~abs:"POISON POISON POISON POISON" i (crl_ext_from_der_ex i) (fun ((((id, ns), c), v), r) -> ([zs id; f_nodes ns; zs c; hx v], r))
  | "rcrlextschk", [h] -> unit_res (crl_exts_check (bytes_of_hex h))
  | "rtbscrlD", [h] -> let i = bytes_of_hex h in xres ~abs:p7 i (tbs_crl_from_der i) (fun (t, r) -> (crl_f t, r))
  | "rcrlexD", [h] -> let i = bytes_of_hex h in
    xres ~abs:(p7 ^ " -1 NULL") i (crl_from_der_ex i) (fun (((t, a), sg), r) -> (crl_f t @ [zs a; hx sg], r))
  | "rcrldet", [h] -> let a = bytes_of_hex h in
    xres ~consumed:false a (crl_get_details a) (fun ((t, alg), sg) -> (crl_f t @ [zs alg; hx sg], []))
  | "rcrlchk", [now; h] -> unit_res (crl_check (bytes_of_hex h) (zi now))
  | "rcrlissuer", [h] -> let a = bytes_of_hex h in xres ~consumed:false a (crl_get_issuer a) (fun is -> ([hx is], []))
  | "rcrlrevoked", [h] -> let a = bytes_of_hex h in xres ~consumed:false a (crl_get_revoked_certs a) (fun p -> ([f_ptr p], []))
  | "rcrlfind", [s; h] -> found (crl_find_revoked_cert_by_serial_number (bytes_of_hex h) (bytes_of_hex s))
  | "rcrlD", [h] -> let i = bytes_of_hex h in xres i (crl_from_der i) (fun (a, r) -> ([hx a], r))
  | "qreqinfoD", [h] -> let i = bytes_of_hex h in
    xres i (request_info_from_der pt_ok i) (fun ((((v, su), xy), at), r) -> ([zs v; hx su; hx xy; f_ptr at], r))
  | "qreqdet", [h] -> let a = bytes_of_hex h in
    xres ~consumed:false a (req_get_details pt_ok a) (fun (((((v, su), xy), at), alg), sg) -> ([zs v; hx su; hx xy; f_ptr at; zs alg; hx sg], []))
  | "qreqD", [h] -> let i = bytes_of_hex h in xres i (req_from_der pt_ok i) (fun (a, r) -> ([hx a], r))
  | _ -> "MODEL-BADOP " ^ op

(* ---- CMS layer (coq/Codec/Cms.v, plain decoders and encoders): "OK f1 f2 ... <consumed>" | "ABSENT f1 ..." | "ERR" | "FAULT".
   FRAGMENT for props/C14/driver.ml, to be placed after the X.509 fragment (uses zs zi nn hx soi llen f_ptr f_ints xres xenc),
   with `| op :: args when List.mem op cms_ops -> handle_cms op args` in [handle].  Hints: P=<65 octets>:<0|1>,... (ckaiD).
   Alternatives for the text of the pinned tree, printed only when they differ from the repaired form:
     ~digest_ret=    x509_digest_algor_from_der returning the status of the OID lookup        (fixed = false)
     ~cms_dalg_cap=  cms_digest_algors_from_der testing "cnt > max" (FAULT = a store beyond the array)   (fxcap = false)
     ~encdata_enc=   cms_encrypted_data_to_der whose second pass writes no EncryptedContentInfo       (fixed = false) *)
let cms_ops = ["cxencalgD";"cctypeD";"ccinfoD";"cdataD";"cenciD";"cencdD";"cenciE";"cencdE";"ciasnD";"csinfoD";"csinfosD";"crinfosD";
  "cdalgsD";"csdataD";"crinfoD";"cenvD";"csenvD";"ckaiD"]
let handle_cms op args =
  let hints pre = List.concat (List.map (fun a ->
      if String.length a > 2 && String.sub a 0 2 = pre then
        List.map (fun kv -> match split_on ':' kv with [k; v] -> (k, v) | _ -> failwith "hint") (split_on ',' (String.sub a 2 (String.length a - 2)))
      else []) args) in
  let hP = hints "P=" in
  let pt_ok o = (match List.assoc_opt (hx o) hP with Some v -> v = "1" | None -> failwith ("NOHINT-pt " ^ hx o)) in
  let args = List.filter (fun a -> not (String.length a > 2 && a.[1] = '=')) args in
  let alts base l = base ^ String.concat "" (List.filter_map (fun (nm, v) -> if v = base then None else Some (" ~" ^ nm ^ "=" ^ v)) l) in
  let oh s = if s = "NULL" then None else Some (bytes_of_hex s) in
  let b = bytes_of_hex in
  match op, args with
  | "cxencalgD", [h] -> let i = b h in xres ~abs:"0 NULL" i (x509_enc_algor_from_der i) (fun ((id, iv), r) -> ([zs id; hx iv], r))
  | "cctypeD", [h] -> let i = b h in xres ~abs:"-1" i (cms_content_type_from_der i) (fun (id, r) -> ([zs id], r))
  | "ccinfoD", [h] -> let i = b h in xres i (cms_content_info_from_der i) (fun ((ct, c), r) -> ([zs ct; f_ptr c], r))
  | "cdataD", [h] -> let i = b h in xres ~abs:"NULL" i (cms_data_from_der i) (fun (d, r) -> ([hx d], r))
  | "cenciD", [h] -> let i = b h in
    xres i (cms_enced_content_info_from_der i) (fun ((((((ct, alg), iv), ec), s1), s2), r) -> ([zs ct; zs alg; hx iv; f_ptr ec; f_ptr s1; f_ptr s2], r))
  | "cencdD", [h] -> let i = b h in
    xres i (cms_encrypted_data_from_der i) (fun (((((((v, ct), alg), iv), ec), s1), s2), r) -> ([zs v; zs ct; zs alg; hx iv; f_ptr ec; f_ptr s1; f_ptr s2], r))
  | "cenciE", [ct; alg; iv; ec; s1; s2] -> xenc (cms_enced_content_info_to_der (zi ct) (zi alg) (b iv) (oh ec) (oh s1) (oh s2))
  | "cencdE", [v; ct; alg; iv; ec; s1; s2] ->
    let f fx = xenc (cms_encrypted_data_to_der fx (zi v) (zi ct) (zi alg) (b iv) (oh ec) (oh s1) (oh s2)) in
    alts (f true) [("encdata_enc", f false)]
  | "ciasnD", [h] -> let i = b h in xres i (cms_issuer_and_serial_number_from_der i) (fun ((is, sn), r) -> ([hx is; hx sn], r))
  | "csinfoD", [h] -> let i = b h in
    let f fx = xres i (cms_signer_info_from_der fx i) (fun ((((((((v, is), sn), dg), aa), sa), ed), ua), r) ->
        ([zs v; hx is; hx sn; zs dg; f_ptr aa; zs sa; hx ed; f_ptr ua], r)) in
    alts (f true) [("digest_ret", f false)]
  | ("csinfosD" | "crinfosD"), [h] -> let i = b h in
    xres ~abs:"NULL" i ((if op = "csinfosD" then cms_signer_infos_from_der else cms_recipient_infos_from_der) i) (fun (d, r) -> ([hx d], r))
  | "cdalgsD", [mx; h] -> let i = b h and mx = nn mx in
    let f fx fc = xres i (cms_digest_algors_from_der fx fc mx mx i) (fun (ids, r) -> ([f_ints ids], r)) in
    alts (f true true) [("digest_ret", f false true); ("cms_dalg_cap", f true false)]
  | "csdataD", [mx; h] -> let i = b h and mx = nn mx in
    let f fx fc = xres i (cms_signed_data_from_der fx fc mx mx i) (fun (((((((v, ids), ct), c), ce), cr), si), r) ->
        ([zs v; f_ints ids; zs ct; f_ptr c; f_ptr ce; f_ptr cr; hx si], r)) in
    alts (f true true) [("digest_ret", f false true); ("cms_dalg_cap", f true false)]
  | "crinfoD", [h] -> let i = b h in
    xres i (cms_recipient_info_from_der i) (fun ((((((v, is), sn), alg), pa), ek), r) -> ([zs v; hx is; hx sn; zs alg; f_ptr pa; hx ek], r))
  | "cenvD", [h] -> let i = b h in xres i (cms_enveloped_data_from_der i) (fun (((v, ri), eci), r) -> ([zs v; hx ri; hx eci], r))
  | "csenvD", [mx; h] -> let i = b h and mx = nn mx in
    let f fx fc = xres i (cms_signed_and_enveloped_data_from_der fx fc mx mx i) (fun (((((((v, ri), ids), eci), ce), cr), si), r) ->
        ([zs v; hx ri; f_ints ids; hx eci; f_ptr ce; f_ptr cr; hx si], r)) in
    alts (f true true) [("digest_ret", f false true); ("cms_dalg_cap", f true false)]
  | "ckaiD", [h] -> let i = b h in
    xres i (cms_key_agreement_info_from_der pt_ok i) (fun ((((v, k), ce), id), r) -> ([zs v; hx k.k_priv; hx k.k_pub; hx ce; hx id], r))
  | _ -> "MODEL-BADOP " ^ op

let handle ws = match ws with
  | op :: args when List.mem op x509_ops -> handle_x509 op args
  | op :: args when List.mem op cms_ops -> handle_cms op args
  | op :: args when List.mem op crl_ops -> handle_crl op args
  | op :: args when List.mem op sm9_ops -> handle_sm9 op args
  | ["lenE"; l] ->
    let l = n_of_int (int_of_string l) in
    (match len_to_der l, len_size l with
     | Some e, Some s -> "OK " ^ hx e ^ " " ^ soi (ni s) | _ -> "ERR")
  | ["lenD"; h] -> let i = bytes_of_hex h in
    pr_dec i (len_from_der i) (fun (l, r) -> (soi (ni l), r))
  | ["typE"; tag; d] -> let t = n_of_int (int_of_string tag) and d = opt_hex d in
    pr_enc (type_to_der t d) (type_size t d)
  | ["typD"; tag; h] -> let i = bytes_of_hex h in
    pr_dec ~abs:"d=NULL dlen=0" i (type_from_der (n_of_int (int_of_string tag)) i) (fun (d, r) -> (hx d, r))
  | ["netD"; tag; h] -> let i = bytes_of_hex h in
    pr_dec ~abs:"d=NULL dlen=0" i (nonempty_type_from_der (n_of_int (int_of_string tag)) i) (fun (d, r) -> (hx d, r))
  | ["anytD"; h] -> let i = bytes_of_hex h in
    pr_dec ~abs:"tag=-1 d=NULL dlen=0" i (any_type_from_der i) (fun ((t, d), r) -> (soi (ni t) ^ " " ^ hx d, r))
  | ["anyD"; h] -> let i = bytes_of_hex h in
    pr_dec i (any_from_der i) (fun (a, r) -> (hx a, r))
  | ["boolE"; tag; v] -> let v = z_of_int (int_of_string v) in
    pr_enc (boolean_to_der (n_of_int (int_of_string tag)) v) (boolean_size v)
  | ["boolD"; tag; h] -> let i = bytes_of_hex h in
    pr_dec ~abs:"val=-1" i (boolean_from_der (n_of_int (int_of_string tag)) i) (fun (b, r) -> ((if b then "1" else "0"), r))
  | ["intE"; tag; a] -> let a = opt_hex a in
    pr_enc (integer_to_der (n_of_int (int_of_string tag)) a) (integer_size a)
  | ["intD"; tag; h] -> let i = bytes_of_hex h in
    pr_dec ~abs:"a=NULL alen=0" i (integer_from_der (n_of_int (int_of_string tag)) i) (fun (a, r) -> (hx a, r))
  | ["i32E"; tag; a] -> let a = z_of_int (int_of_string a) in
    pr_enc (int_to_der (n_of_int (int_of_string tag)) a) (int_size a)
  | ["i32D"; tag; h] -> let i = bytes_of_hex h in
    with_modes (fun m -> pr_dec ~abs:"a=-1" i (int_from_der m (n_of_int (int_of_string tag)) i) (fun (a, r) -> (soi (ni a), r)))
  | ["bstrE"; tag; b; nbits] -> let b = opt_hex b and nb = n_of_int (int_of_string nbits) in
    pr_enc (bit_string_to_der (n_of_int (int_of_string tag)) b nb) (bit_string_size b nb)
  | ["bstrD"; tag; h] -> let i = bytes_of_hex h in
    with_modes (fun m -> pr_dec ~abs:"bits=NULL nbits=0" i (bit_string_from_der m (n_of_int (int_of_string tag)) i)
                  (fun ((b, nb), r) -> (hx b ^ " " ^ soi (ni nb), r)))
  | ["boctE"; tag; b] -> let b = opt_hex b in
    let nb = (match b with Some x -> n_of_int (8 * llen x) | None -> N0) in
    pr_enc (bit_octets_to_der (n_of_int (int_of_string tag)) b) (bit_string_size b nb)
  | ["boctD"; tag; h] -> let i = bytes_of_hex h in
    with_modes (fun m -> pr_dec ~abs:"octs=NULL nocts=0" i (bit_octets_from_der m (n_of_int (int_of_string tag)) i) (fun (b, r) -> (hx b, r)))
  | ["bitsE"; tag; v] -> let v = z_of_int (int_of_string v) in
    pr_enc (bits_to_der (n_of_int (int_of_string tag)) v) (bits_size v)
  | ["bitsD"; tag; h] -> let i = bytes_of_hex h in
    with_modes (fun m -> pr_dec ~abs:"bits=-1" i (bits_from_der m (n_of_int (int_of_string tag)) i) (fun (v, r) -> (soi (ni v), r)))
  | ["nullE"] -> "OK " ^ hx null_to_der ^ " 2"
  | ["nullD"; h] -> let i = bytes_of_hex h in pr_dec i (null_from_der i) (fun r -> ("-", r))
  | ["oidE"; ns] -> let ns = nodes_of ns in
    with_modes (fun m -> match oid_to_octets m ns with
      | Ok o -> "OK " ^ hx o ^ " " ^ soi (llen o) | Absent -> "ABSENT" | Err -> "ERR" | Fault -> "FAULT")
  | ["oidD"; h] -> let i = bytes_of_hex h in
    with_modes (fun m -> match oid_from_octets m (n_of_int 32) i with
      | Ok ns -> "OK " ^ show_nodes ns | Absent -> "ABSENT" | Err -> "ERR" | Fault -> "FAULT")
  | ["oidderE"; tag; ns] -> let ns = if ns = "NULL" then None else Some (nodes_of ns) in
    let t = n_of_int (int_of_string tag) in
    with_modes (fun m -> pr_enc (oid_to_der m t ns) (oid_size m ns))
  | ["oidderD"; tag; h] -> let i = bytes_of_hex h in
    with_modes (fun m -> pr_dec ~abs:"cnt=0" i (oid_from_der m (n_of_int 32) (n_of_int (int_of_string tag)) i)
                  (fun (ns, r) -> (show_nodes ns, r)))
  | ["seqintE"; l] -> let l = List.map z_of_int (ints_of l) in
    pr_enc (seq_of_int_to_der l) (seq_of_int_size l)
  | ["seqintD"; mx; h] -> let i = bytes_of_hex h and mx = n_of_int (int_of_string mx) in
    with_modes (fun m -> pr_dec ~abs:"cnt=0" i (seq_of_int_from_der m mx mx i)
                  (fun (ns, r) -> ((if ns = [] then "." else String.concat "," (List.map (fun x -> soi (ni x)) ns)), r)))
  | ["isstr"; kind; h] -> let a = bytes_of_hex h in
    with_modes (fun m -> if str_valid m kind a then "1" else "0")
  | ["strE"; kind; tag; d] -> let d = opt_hex d and t = n_of_int (int_of_string tag) in
    with_modes (fun m -> pr_enc (string_to_der (str_valid m kind) t d) (type_size t d))
  | ["strD"; kind; tag; h] -> let i = bytes_of_hex h in
    with_modes (fun m -> pr_dec ~abs:"d=NULL dlen=0" i (string_from_der (str_valid m kind) (n_of_int (int_of_string tag)) i) (fun (d, r) -> (hx d, r)))
  | ["sigE"; r; s] -> let r = bytes_of_hex r and s = bytes_of_hex s in
    pr_enc (sm2_sig_to_der r s) (sm2_sig_size r s)
  | ["sigD"; h] -> let i = bytes_of_hex h in
    pr_dec i (sm2_sig_from_der i) (fun ((r, s), rest) -> (hx r ^ " " ^ hx s ^ " WHOLE", rest))
  | ["hexD"; t] -> let i = bytes_of_hex t in
    with_modes (fun m -> match hex_to_bytes m i with
     | Ok o -> "OK " ^ hx o | Absent -> "ABSENT" | Err -> "ERR" | Fault -> "FAULT")
  | ["hexRT"; up; b] -> let bs = bytes_of_hex b in
    (match hex_to_bytes fixed (hex_enc (up = "1") bs) with
     | Ok o -> "OK " ^ hx o | Absent -> "ABSENT" | Err -> "ERR" | Fault -> "FAULT")
  | ["b64blkE"; b] -> let o = encode_block (bytes_of_hex b) in "OK " ^ hx o ^ " " ^ soi (llen o)
  | ["b64blkD"; t] -> let f = bytes_of_hex t in
    with_modes (fun m -> match decode_block_m m f (n_of_int (llen f)) with
     | Ok o -> "OK " ^ hx o | Absent -> "ABSENT" | Err -> "ERR" | Fault -> "FAULT")
  | ["b64E"; c] ->
    (* per update: output; then finish output; '/'-separated *)
    let chunks = chunks_of c in
    let buf = ref [] and outs = ref [] in
    List.iter (fun ch -> let ((rv, b), o) = encode_update !buf ch in buf := b;
                outs := (soi (ni rv) ^ ":" ^ hx o) :: !outs) chunks;
    outs := ("f:" ^ hx (encode_finish !buf)) :: !outs;
    String.concat "/" (List.rev !outs)
  | ["b64D"; c] ->
    let chunks = chunks_of c in
    let buf = ref [] and outs = ref [] in
    List.iter (fun ch -> let ((rv, b), o) = decode_update !buf ch in buf := b;
                outs := (soi (int_of_z rv) ^ ":" ^ hx o) :: !outs) chunks;
    outs := (match decode_finish !buf with
        | Ok o -> "f1:" ^ hx o | Fault -> "FAULT" | _ -> "f-1:-") :: !outs;
    String.concat "/" (List.rev !outs)
  | ["timeS"; utc; t] ->
    let f fx = (match time_to_str_z fx (utc = "1") (z_of_int (int_of_string t)) with Some s -> "OK " ^ hx s | None -> "ERR") in
    alt "time_neg" (f true) (f false)
  | ["timeP"; utc; s] ->
    (match time_from_str (utc = "1") (bytes_of_hex s) with
     | Ok t -> "OK " ^ soi (ni t) | Absent -> "ABSENT" | Err -> "ERR" | Fault -> "FAULT")
  | ["timeE"; utc; tag; t] when int_of_string t >= -1 ->
    let t = if t = "-1" then None else Some (n_of_int (int_of_string t)) in
    pr_enc (time_to_der (utc = "1") (n_of_int (int_of_string tag)) t) (time_size (utc = "1") t)
  | ["timeE"; utc; tag; t] ->
    let f fx = xenc (time_to_der_z fx (utc = "1") (n_of_int (int_of_string tag)) (z_of_int (int_of_string t))) in
    alt "time_neg" (f true) (f false)
  | ["timeD"; utc; tag; h] -> let i = bytes_of_hex h in
    pr_dec ~abs:"t=-1" i (time_from_der (utc = "1") (n_of_int (int_of_string tag)) i) (fun (t, r) -> (soi (ni t), r))

  (* ---- composite objects (coq/Codec/Pkcs.v, Pem.v).  Hints: H=<d>:<xy>,... ([d]G) and P=<65 octets>:<0|1>,... *)
  | op :: args when List.mem op ["curveE";"curveD";"pkalgE";"pkalgD";"sm2algE";"sm2algD";"encalgE";"encalgD";"p2eE";"p2eD";"prfE";"prfD";
                                 "kdfpE";"kdfpD";"kdfaE";"kdfaD";"p2pE";"p2pD";"p2aE";"p2aD";"p8eE";"p8eD";"ctE";"ctD";"pubE";"pubD";"pubiE";"pubiD";
                                 "privE";"privD";"p8E";"p8D";"p8seal";"p8sealraw";"p8open";"pemW";"pemR";"pubiP";"p8P"] ->
    let zi x = z_of_int (int_of_string x) and zs z = soi (int_of_z z) in
    let hints pre = List.concat (List.map (fun a ->
        if String.length a > 2 && String.sub a 0 2 = pre then
          List.map (fun kv -> match split_on ':' kv with [k; v] -> (k, v) | _ -> failwith "hint") (split_on ',' (String.sub a 2 (String.length a - 2)))
        else []) args) in
    let hH = hints "H=" and hP = hints "P=" and hK = hints "K=" in
    (* inside an encrypted key the generator cannot see a tampered scalar / point: an unknown scalar has an unknown
       public key (never equal to the embedded one), an unknown point is taken as invalid - either way the key is refused *)
    let lenient = (op = "p8open") in
    let pub_of d = (match List.assoc_opt (hx d) hH with Some v -> bytes_of_hex v | None -> if lenient then [] else failwith ("NOHINT-pub " ^ hx d)) in
    let pt_ok o = (match List.assoc_opt (hx o) hP with Some v -> v = "1" | None -> if lenient then false else failwith ("NOHINT-pt " ^ hx o)) in
    let kdf pass salt iter = (match List.assoc_opt (hx pass ^ "/" ^ hx salt ^ "/" ^ zs iter) hK with Some v -> bytes_of_hex v | None -> kdf_sm3 pass salt iter) in
    let args = List.filter (fun a -> not (String.length a > 2 && a.[1] = '=')) args in
    let enc r = (match r with Ok e -> "OK " ^ hx e ^ " " ^ soi (llen e) | Absent -> "ABSENT" | Err -> "ERR" | Fault -> "FAULT") in
    let show_p (p : pbes2) full = hx p.p_salt ^ " " ^ zs p.p_iter ^ " " ^ zs p.p_keylen ^ " " ^ zs p.p_prf ^ (if full then " " ^ zs p.p_cipher ^ " " ^ hx p.p_iv else "") in
    let attrs_s a = (match a with None -> "NULL" | Some x -> hx x) in
    (match op, args with
     | "curveE", [id] -> enc (curve_to_der (zi id))
     | "curveD", [h] -> let i = bytes_of_hex h in pr_dec ~abs:"oid=-1" i (curve_from_der i) (fun (id, r) -> (zs id, r))
     | "pkalgE", [id; par] -> enc (pk_algor_to_der (zi id) (zi par))
     | "pkalgD", [h] -> let i = bytes_of_hex h in pr_dec i (pk_algor_from_der i) (fun ((id, par), r) -> (zs id ^ " " ^ zs par, r))
     | "sm2algE", [] -> enc sm2_algor_to_der
     | "sm2algD", [h] -> let i = bytes_of_hex h in pr_dec i (sm2_algor_from_der i) (fun r -> ("-", r))
     | "encalgE", [id; iv] -> enc (enc_algor_to_der (zi id) (bytes_of_hex iv))
     | "encalgD", [h] -> let i = bytes_of_hex h in pr_dec ~abs:"oid=0 iv=NULL ivlen=0" i (enc_algor_from_der i) (fun ((id, iv), r) -> (zs id ^ " " ^ hx iv, r))
     | "p2eE", [id; iv] -> enc (pbes2_enc_algor_to_der (zi id) (bytes_of_hex iv))
     | "p2eD", [h] -> let i = bytes_of_hex h in pr_dec ~abs:"oid=0 iv=NULL ivlen=0" i (pbes2_enc_algor_from_der i) (fun ((id, iv), r) -> (zs id ^ " " ^ hx iv, r))
     | "prfE", [prf] -> enc (prf_to_der (zi prf))
     | "prfD", [h] -> let i = bytes_of_hex h in
       (match prf_from_der i with
        | Ok (prf, r) -> if int_of_z prf = -1 then "ABSENT prf=-1" else "OK " ^ zs prf ^ " " ^ soi (llen i - llen r)
        | Absent -> "ABSENT" | Err -> "ERR" | Fault -> "FAULT")
     | "kdfpE", [salt; iter; kl; prf] -> enc (pbkdf2_params_to_der (bytes_of_hex salt) (zi iter) (zi kl) (zi prf))
     | "kdfaE", [salt; iter; kl; prf] -> enc (pbkdf2_algor_to_der (bytes_of_hex salt) (zi iter) (zi kl) (zi prf))
     | ("kdfpD" | "kdfaD"), [h] -> let i = bytes_of_hex h in
       pr_dec i ((if op = "kdfpD" then pbkdf2_params_from_der else pbkdf2_algor_from_der) i)
         (fun ((((salt, iter), kl), prf), r) -> (hx salt ^ " " ^ zs iter ^ " " ^ zs kl ^ " " ^ zs prf, r))
     | ("p2pE" | "p2aE"), [salt; iter; kl; prf; ci; iv] ->
       let p = { p_salt = bytes_of_hex salt; p_iter = zi iter; p_keylen = zi kl; p_prf = zi prf; p_cipher = zi ci; p_iv = bytes_of_hex iv } in
       enc ((if op = "p2pE" then pbes2_params_to_der else pbes2_algor_to_der) p)
     | ("p2pD" | "p2aD"), [h] -> let i = bytes_of_hex h in
       pr_dec i ((if op = "p2pD" then pbes2_params_from_der else pbes2_algor_from_der) i) (fun (p, r) -> (show_p p true, r))
     | "p8eE", [salt; iter; kl; prf; ci; iv; en] ->
       let p = { p_salt = bytes_of_hex salt; p_iter = zi iter; p_keylen = zi kl; p_prf = zi prf; p_cipher = zi ci; p_iv = bytes_of_hex iv } in
       enc (p8e_to_der p (bytes_of_hex en))
     | "p8eD", [h] -> let i = bytes_of_hex h in pr_dec i (p8e_from_der i) (fun ((p, en), r) -> (show_p p true ^ " " ^ hx en, r))
     | "ctE", [x; y; hh; c] -> enc (sm2_ct_to_der (bytes_of_hex x) (bytes_of_hex y) (bytes_of_hex hh) (bytes_of_hex c))
     | "ctD", [h] -> let i = bytes_of_hex h in
       pr_dec i (sm2_ct_from_der i) (fun ((((x, y), hh), c), r) -> (hx x ^ " " ^ hx y ^ " " ^ hx hh ^ " " ^ hx c ^ " WHOLE", r))
     | "pubE", [xy] -> enc (sm2_pub_to_der (bytes_of_hex xy))
     | "pubiE", [xy] -> enc (sm2_pubinfo_to_der (bytes_of_hex xy))
     | "pubD", [h] -> let i = bytes_of_hex h in pr_dec i (sm2_pubkey_from_der pt_ok i) (fun (k, r) -> (hx k.k_priv ^ " " ^ hx k.k_pub ^ " WHOLE", r))
     | "pubiD", [h] -> let i = bytes_of_hex h in pr_dec i (sm2_pubkeyinfo_from_der pt_ok i) (fun (k, r) -> (hx k.k_priv ^ " " ^ hx k.k_pub ^ " WHOLE", r))
     | "pubiP", [t] -> (match sm2_pubkeyinfo_from_pem pt_ok (bytes_of_hex t) with Ok k -> "OK " ^ hx k.k_priv ^ " " ^ hx k.k_pub ^ " WHOLE" | Fault -> "FAULT" | _ -> "ERR")
     | "p8P", [t] -> (match sm2_privkeyinfo_from_pem pub_of pt_ok (bytes_of_hex t) with Ok k -> "OK " ^ hx k.k_priv ^ " " ^ hx k.k_pub ^ " WHOLE" | Fault -> "FAULT" | _ -> "ERR")
     | "privE", [d] -> enc (sm2_priv_to_der pub_of (bytes_of_hex d))
     | "p8E", [d] -> enc (sm2_p8_to_der pub_of (bytes_of_hex d))
     | "privD", [h] -> let i = bytes_of_hex h in pr_dec i (sm2_priv_from_der pub_of pt_ok i) (fun ((d, xy), r) -> (hx d ^ " " ^ hx xy ^ " WHOLE", r))
     | "p8D", [h] -> let i = bytes_of_hex h in
       pr_dec i (sm2_p8_from_der pub_of pt_ok i) (fun (((d, xy), at), r) -> (hx d ^ " " ^ hx xy ^ " " ^ attrs_s at ^ " WHOLE", r))
     | "p8seal", [d; pass; salt; iv; iter; kl; prf] ->
       (match sm2_p8_to_der pub_of (bytes_of_hex d) with
        | Ok info ->
          let key = kdf (bytes_of_hex pass) (bytes_of_hex salt) (zi iter) in
          let en = cbcenc_sm4 key (bytes_of_hex iv) info in
          let p = { p_salt = bytes_of_hex salt; p_iter = zi iter; p_keylen = zi kl; p_prf = zi prf; p_cipher = z_of_int 20; p_iv = bytes_of_hex iv } in
          enc (p8e_to_der p en)
        | _ -> "ERR")
     | "p8sealraw", [info; pass; salt; iv; iter; kl; prf] ->
       let key = kdf (bytes_of_hex pass) (bytes_of_hex salt) (zi iter) in
       let en = cbcenc_sm4 key (bytes_of_hex iv) (bytes_of_hex info) in
       let p = { p_salt = bytes_of_hex salt; p_iter = zi iter; p_keylen = zi kl; p_prf = zi prf; p_cipher = z_of_int 20; p_iv = bytes_of_hex iv } in
       enc (p8e_to_der p en)
     | "p8open", [pass; h] -> let i = bytes_of_hex h in
       (match sm2_p8_open_c pub_of pt_ok kdf cbcdec_sm4 (bytes_of_hex pass) i with
        | Ok (((d, xy), at), r) -> "OK " ^ hx d ^ " " ^ hx xy ^ " " ^ attrs_s at ^ " WHOLE " ^ soi (llen i - llen r)
        | Fault -> "FAULT" | _ -> "ERR")
     | "pemW", [name; d] -> (match pem_write (bytes_of_hex name) (bytes_of_hex d) with Some t -> "OK " ^ hx t | None -> "ERR")
     | "pemR", [name; mx; t] -> let i = bytes_of_hex t in
       (match pem_read (bytes_of_hex name) i (n_of_int (int_of_string mx)) with
        | Ok (d, r) -> "OK " ^ hx d ^ " " ^ soi (llen i - llen r) | Absent -> "ABSENT" | Err -> "ERR" | Fault -> "FAULT")
     | _ -> "ERR bad-op")
  | _ -> "ERR bad-op"

let () = main_loop handle
