"""C18 wave 5: differential run of the gateway / rejection-sampling / nonce-pool models (coq/Sys/Gateway.v, Sys/Rand.v,
evaluated by vm_compute inside coqc) against the compiled code: same op line on both sides, lines must be equal."""
import re, time
from vlib import core

IMPORTS = ("From Coq Require Import List NArith Arith String.\nFrom GmVerif Require Import Sys.Rand Sys.Gateway.\n"
           "Import ListNotations.\nOpen Scope string_scope.\n")
N_SM2 = "0xFFFFFFFEFFFFFFFFFFFFFFFFFFFFFFFF7203DF6B21C6052B53BBF40939D54123%N"
N_SM9 = "0xB640000002A3A6F1D603AB4FF58EC74449F2934B18EA8BEEE56EE19CD69ECF25%N"


# operations whose entropy draws have fixed lengths (a rejected rand_range value, probability < 2^-31 per draw for the
# SM2 / SM9 orders, would show as a model difference; the rejection branch itself is compared by `rr`)
SCRIPTS = {"tls_random": [28], "tls_pms": [46], "tls_cbc": [16], "tls_record": [16], "tls13_padding": [1], "pkcs8": [16, 16], "sm2_pkcs8_pem": [16, 16],
           "sm9_smk_info_der": [16, 16], "sm9_sk_info_der": [16, 16], "sm9_emk_info_der": [16, 16], "sm9_ek_info_der": [16, 16],
           "sm9_smk_info_pem": [16, 16], "sm9_sk_info_pem": [16, 16], "sm9_emk_info_pem": [16, 16], "sm9_ek_info_pem": [16, 16],
           "sm2_keygen": [32], "sm2_sign": [32], "sm2_encrypt": [32], "sm2_ecdhe": [32], "sm2_sign_ctx": [32] * 32, "tls_ske_sign": [32] * 32, "tls13_cv_sign": [32] * 32,
           "sm2_enc_precomp": [32] * 8}
# SM9: the group order is about 0.71 * 2^256, so about 29 % of the draws are rejected: compared on the real bytes (op -> number of selections)
VALS = {"sm9_sign_master_keygen": 1, "sm9_enc_master_keygen": 1, "sm9_sign": 1, "sm9_encrypt": 1, "sm9_exchange": 2}


def ur_expr(line):
    _, n, sc = line.split()
    n = int(n)
    if sc == "open":
        return "line_ur (rand_bytes_urandom false %d false [])" % n
    items = []
    for it in sc.split(","):
        if it == "f":
            items.append("Deliver %d" % max(n, 1))
        elif it[0] == "s":
            items.append("Deliver %s" % it[1:])
        elif it == "e":
            items.append("Eof")
        else:
            items.append("Fail %s" % ("true" if it[1:] == "EINTR" else "false"))
    return "line_ur (rand_bytes_urandom false %d true [%s])" % (n, "; ".join(items))


def cases(ctx):
    r = ctx.rng
    thorough = ctx.tier == "thorough"
    main, ur = [], []
    # rand_bytes (default gateway): length guard boundaries x number of failing attempts x errno
    for ln in (-1, 0, 1, 2, 16, 32, 255, 256, 257, 1000):
        for k in (0, 1, 2, 8):
            for en in (("EINTR", "EIO") if not thorough else ("EINTR", "EAGAIN", "EIO", "ENOSYS", "untouched")):
                if k == 0 and en != "EINTR":
                    continue
                att = "[" + "; ".join(["false"] * k + ["true"]) + "]"
                main.append(("rbytes %d %d %s" % (ln, k, en), "line_rbytes (rand_bytes_unix %s %d %s)" % ("true" if ln < 0 else "false", max(ln, 0) if ln >= 0 else 8, att),
                             "model:rbytes:len=%s:k=%s" % ("null" if ln < 0 else ("0" if ln == 0 else ("<=256" if ln <= 256 else ">256")), "0" if k == 0 else "n")))
    # rejection sampling: k rejected values then accept / fail / exhaust the 100 tries
    for curve, rng in (("sm2", N_SM2), ("sm9", N_SM9)):
        for k in ([0, 1, 2, 50, 98, 99, 100, 101] if not thorough else list(range(0, 6)) + [50, 97, 98, 99, 100, 101, 120]):
            for last in ("l", "f"):
                sc = "h" * k + last
                main.append(("rr %s %s" % (curve, sc), "line_rr (repeat Hi %d ++ [%s]) %s" % (k, "Lo" if last == "l" else "Fl", rng),
                             "model:rr:%s:rejected=%s:%s" % (curve, "0" if k == 0 else ("<100" if k < 100 else ">=100"), "accept" if last == "l" else "fail")))
    # the nonce pool of one SM2_SIGN_CTX: attempts around the refill boundaries, failures inside / outside refills
    sd = r.below(10**6) + 256
    for n, fl in ((5, []), (32, []), (33, []), (70, []), (40, [32]), (40, [40]), (40, [63]), (40, [32, 33]), (70, [35, 70]), (70, [32, 64, 96]), (34, [31]), (100, [45, 77, 78, 140]),
                  (66, [64])) + (tuple((40, [32 + i]) for i in range(1, 32, 3)) if thorough else ()):
        main.append(("pooltrace %d %d %s" % (sd, n, ",".join(map(str, fl)) if fl else "-"), "line_pool 32 32 [%s] %d" % ("; ".join(map(str, fl)), n),
                     "model:pool:attempts=%s:failures=%d" % ("<=32" if n <= 32 else ">32", len(fl))))
    # draw scripts of the operations whose draws have fixed lengths: healthy run and a failure at every draw index
    for op, lens in SCRIPTS.items():
        sdd = r.below(10**6) + 256
        idx = [-1] + (list(range(len(lens))) if len(lens) <= 4 or thorough else [0, 1, len(lens) // 2, len(lens) - 1])
        for i in idx:
            main.append(("lens %s %d %d" % (op, sdd, i), "line_script [%s] %s" % ("; ".join(map(str, lens)), "None" if i < 0 else "(Some %d)" % i),
                         "model:script:%s:%s" % (op, "healthy" if i < 0 else "fail")))
    for op, ncalls in VALS.items():
        for _ in range(3 if not thorough else 12):
            main.append(("vals %s %d" % (op, r.below(10**6) + 256), ("VALS", ncalls), "model:vals:%s" % op))
    # the /dev/urandom gateway
    for n in (0, 1, 16, 32, 255, 256, 1000, 4096, 4097):
        scs = ["f", "e", "open", "xEINTR", "xEIO", "s1,f", "s%d,f" % max(1, n - 1), "s%d,f" % n, "s%d,f" % (n + 5), "s%d,s%d,f" % (max(1, n // 2), max(1, n // 4)), "xEINTR,f", "s1,s1,f"]
        for sc in scs:
            ur.append(("ur %d %s" % (n, sc), None, "model:ur:len=%s:%s" % ("0" if n == 0 else ("<=4096" if n <= 4096 else ">4096"), re.sub(r"\d+", "", sc))))
    ur = [(l, ur_expr(l), c) for (l, _, c) in ur]
    return main, ur


def run(ctx, exe, ur_exe):
    t0 = time.time()
    main, ur = cases(ctx)
    if ur_exe is None:
        ur = []
    impl, err = core.run_lines(exe, [c[0] for c in main], shards=2) if main else ([], "")
    if ur:
        impl2, err2 = core.run_lines(ur_exe, [c[0] for c in ur], shards=1)
        impl = impl + impl2
    exprs = []
    for i, c in enumerate(main + ur):
        if isinstance(c[1], tuple):                       # fed with the bytes the implementation reports to have drawn
            mm = re.search(r"vals=(\S*)", impl[i])
            vals = [v for v in (mm.group(1).split(",") if mm else []) if len(v) == 64]
            lst = "; ".join("[" + "; ".join("%d%%N" % int(v[j:j + 2], 16) for j in range(0, 64, 2)) + "]" for v in vals)
            exprs.append("line_vals %s %d [%s]" % (N_SM9, c[1][1], lst))
            impl[i] = impl[i].split(" vals=")[0]
        else:
            exprs.append(c[1])
    model = core.coq_eval("C18", IMPORTS, exprs, shards=3, tag="gw")
    for (line, expr, cell), a, b in zip(main + ur, impl, model):
        ctx.cov["evaluations"] += 1
        ctx.count("model:" + line.split()[0])
        if b.startswith("MODEL-"):
            ctx.violation("model-eval:" + line.split()[0], "model side failed on `%s`: %s" % (line, b[:200]), {"kind": "model", "op": line, "model": b}, False)
        elif a == b:
            ctx.cell(cell + (":ERR" if ("rc=-1" in a or "rc=0" in a) else ":ok"))
        else:
            ctx.violation(cell, "implementation and Coq model differ on `%s`: impl=%s model=%s (%s)" % (line, a[:120], b[:120], str(expr)[:100]),
                          {"kind": "failing-input", "op": line, "impl": a, "expected": b, "variant": "asan"}, True)
    ctx.notes.append("model differential (gateway, rejection sampling, nonce pool, urandom): %d lines in %.1fs" % (len(main) + len(ur), time.time() - t0))
