/* C18 runtime: every randomised API operation reachable without sockets, driven by the scripted
 * getentropy() of harness/entropy.h.
 *
 *   randguard <seed>             rand_bytes length guard -> GUARD ok | GUARD bad ...
 *   count  <op> <seed>            -> DRAWS rc=<r> draws=<k> bytes=<n> out=<transcript bytes>
 *   fail   <op> <seed> <i>        the i-th draw fails (i = -2: every draw fails)
 *                                 -> FAILCLOSED rc=<r> draws=<k>            (reported failure)
 *                                  | NOTREACHED rc=1 draws=<k>              (fewer than i+1 draws: nothing failed)
 *                                  | SUCCEEDED-DESPITE-FAILURE draws=<k> out=<hex prefix>
 *   det    <op> <seed>            same stream and clock twice -> SAME bytes=<n> digest=<sm3> | DIFFERENT
 *   fresh  <op> <seed1> <seed2>   different streams -> DISTINCT | SAME-EPHEMERAL eph=<hex> | NOEPH
 *   rbytes / rr / pooltrace / (ur in ur_harness.c)   gateway, rejection sampling and nonce pool, line-compared with the Coq models
 *   bval   <op> <seed> <zero|n|nplus|max|one|nminus1|nminus2>   boundary value as the first 32-byte draw -> OK | NOT-REDRAWN | BROKEN
 *   eint   <op> <seed> <i> <EINTR|EAGAIN|EIO|ENOSYS|untouched> <k>
 *                                 the next k attempts at draw i fail with that errno (destination poisoned), then the
 *                                 source works again and serves the same bytes as in the healthy run
 *                                 -> EQUAL (success, output identical to the healthy run) | FAILED rc=<r> (reported failure)
 *                                  | DIVERGED rc=1 poison=<longest 0xA5 run> ... (success with bytes the script never served)
 *   recover <sm2_sign_ctx|sm2_enc_ctx|op> <seed> <pre> <failrel> <post>
 *                                 one context / one stream: <pre> operations, then the <failrel>-th draw from here fails
 *                                 during one more attempt, then the source is healthy again and <post> more operations
 *                                 follow on the SAME context: every ephemeral value produced before and after the failure
 *                                 must be pairwise distinct and every later operation must still succeed and verify
 *                                 -> FRESH ops=<n> attempt=<rc> draws=<d> | REUSE i=<a> j=<b> | BROKEN at=<i> rc=<r>
 *   repeat <op> <seed> <count>    count operations in one stream: ephemeral values and the drawn
 *                                 32-byte nonces (replayed from the entropy log) pairwise distinct
 *                                 -> DISTINCT count=<c> draws=<d> nonces=<m> | REUSE what=<eph|nonce> i=<a> j=<b>
 */
#include "entwrap.h"
#include "sysops.h"

static int op_sm2_sign_ctx_multi(opctx_t *c, obuf_t *o) {
	/* one SM2_SIGN_CTX, 70 signatures of the same message: the 32 pre-computed nonces are used up twice */
	enum { N = 70 };
	SM2_SIGN_CTX *sc = malloc(sizeof *sc); uint8_t sig[SM2_MAX_SIGNATURE_SIZE]; size_t sl; int i, j, r = 1;
	uint8_t (*rs)[32] = malloc(N * 32);
	if (sm2_sign_init(sc, &c->sm2, SM2_DEFAULT_ID, SM2_DEFAULT_ID_LENGTH) != 1) r = -1;
	for (i = 0; r == 1 && i < N; i++) {
		SM2_SIGNATURE s; const uint8_t *p = sig; size_t l;
		sl = 0;
		if (sm2_sign_reset(sc) != 1 || sm2_sign_update(sc, c->msg, c->msglen) != 1 || sm2_sign_finish(sc, sig, &sl) != 1) { r = -1; break; }
		ob_put(o, "sig", sig, sl);
		l = sl; if (sm2_signature_from_der(&s, &p, &l) != 1) { r = -2; break; }
		memcpy(rs[i], s.r, 32);
		for (j = 0; j < i; j++) if (!memcmp(rs[j], rs[i], 32)) { r = -3; ob_put(o, "reused-r", rs[i], 32); }
	}
	if (r == 1) set_eph(c, rs, 512);
	free(rs); free(sc);
	return r;
}
/* helpers of the handshakes that can be called without a socket: they witness the unchecked call
 * sites tls.c:tls_sign_server_ecdh_params, tls13.c:tls13_sign_certificate_verify, tls13.c:tls13_padding_len_rand */
int tls13_sign_certificate_verify(int tls_mode, const SM2_KEY *key, const char *signer_id, size_t signer_id_len,
	const DIGEST_CTX *tbs_dgst_ctx, uint8_t *sig, size_t *siglen);
int tls13_padding_len_rand(size_t *padding_len);
static int op_tls_ske_sign(opctx_t *c, obuf_t *o) {
	uint8_t sig[SM2_MAX_SIGNATURE_SIZE + 8]; size_t sl = 0; uint8_t cr[32], sr[32];
	memcpy(cr, c->dgst, 32); memcpy(sr, c->mackey, 32);
	if (tls_sign_server_ecdh_params(&c->sm2, cr, sr, TLS_curve_sm2p256v1, &c->peer.public_key, sig, &sl) != 1) return -1;
	if (sl > SM2_MAX_SIGNATURE_SIZE) return -1;
	ob_put(o, "sig", sig, sl); set_eph(c, sig, sl < 40 ? sl : 40);
	if (tls_verify_server_ecdh_params(&c->sm2, cr, sr, TLS_curve_sm2p256v1, &c->peer.public_key, sig, sl) != 1) return -2;
	return 1;
}
static int op_tls13_cv_sign(opctx_t *c, obuf_t *o) {
	uint8_t sig[SM2_MAX_SIGNATURE_SIZE + 8]; size_t sl = 0; DIGEST_CTX dc;
	if (digest_init(&dc, DIGEST_sm3()) != 1 || digest_update(&dc, c->msg, c->msglen) != 1) return -9;
	if (tls13_sign_certificate_verify(TLS_client_mode, &c->sm2, "TLSv1.3+GM+Cipher+Suite", 23, &dc, sig, &sl) != 1) return -1;
	if (sl > SM2_MAX_SIGNATURE_SIZE) return -1;
	ob_put(o, "sig", sig, sl); set_eph(c, sig, sl < 40 ? sl : 40);
	return 1;
}
static int op_tls13_padding(opctx_t *c, obuf_t *o) {
	size_t pl = 0x5a5a5a5a; uint8_t b[8]; int i;
	if (tls13_padding_len_rand(&pl) != 1) return -1;
	for (i = 0; i < 8; i++) b[i] = (uint8_t)(pl >> (8 * i));
	ob_put(o, "padding_len", b, 8); set_eph(c, b, 0);
	return 1;
}
/* ---- wave 3: every exported entropy-dependent function gets an op (props/C18/run.py enumerates them from the table
 *      and fails loudly when one is reached by no op) */
#include <gmssl/x509_req.h>
#include <gmssl/x509_crl.h>
#include <gmssl/sm3_xmss.h>
static int op_sm9_sign_master_keygen(opctx_t *c, obuf_t *o) {
	SM9_SIGN_MASTER_KEY m; uint8_t b[129];
	if (sm9_sign_master_key_generate(&m) != 1) return -1;
	sm9_z256_twist_point_to_uncompressed_octets(&m.Ppubs, b); ob_put(o, "Ppubs", b, 129); set_eph(c, b, 129);
	return 1;
}
static int op_sm9_enc_master_keygen(opctx_t *c, obuf_t *o) {
	SM9_ENC_MASTER_KEY m; uint8_t b[65];
	if (sm9_enc_master_key_generate(&m) != 1) return -1;
	sm9_z256_point_to_uncompressed_octets(&m.Ppube, b); ob_put(o, "Ppube", b, 65); set_eph(c, b, 65);
	return 1;
}
#define SM9_INFO_OP(NAME, TYPE, FIELD, ENC_DER, DEC_DER, ENC_PEM, DEC_PEM) \
static int op_##NAME##_der(opctx_t *c, obuf_t *o) { \
	uint8_t der[1024]; uint8_t *p = der; size_t dl = 0, l; const uint8_t *cp = der; TYPE k2; \
	if (prepare9(c) != 1) return -9; \
	if (ENC_DER(&c->FIELD, c->pass, &p, &dl) != 1) return -1; \
	ob_put(o, "epki", der, dl); set_eph(c, der, dl < 160 ? dl : 160); \
	l = dl; memset(&k2, 0, sizeof k2); \
	if (DEC_DER(&k2, c->pass, &cp, &l) != 1) return -2; \
	return 1; } \
static int op_##NAME##_pem(opctx_t *c, obuf_t *o) { \
	FILE *fp; char buf[2048]; size_t n; TYPE k2; int r = 1; \
	if (prepare9(c) != 1) return -9; \
	if (!(fp = tmpfile())) return -9; \
	if (ENC_PEM(&c->FIELD, c->pass, fp) != 1) r = -1; \
	if (r == 1) { fflush(fp); rewind(fp); n = fread(buf, 1, sizeof buf, fp); ob_put(o, "pem", buf, n); set_eph(c, buf + 40, n > 200 ? 160 : 0); \
		rewind(fp); memset(&k2, 0, sizeof k2); if (DEC_PEM(&k2, c->pass, fp) != 1) r = -2; } \
	fclose(fp); return r; }
SM9_INFO_OP(sm9_smk_info, SM9_SIGN_MASTER_KEY, s9sm, sm9_sign_master_key_info_encrypt_to_der, sm9_sign_master_key_info_decrypt_from_der,
	sm9_sign_master_key_info_encrypt_to_pem, sm9_sign_master_key_info_decrypt_from_pem)
SM9_INFO_OP(sm9_sk_info, SM9_SIGN_KEY, s9sk, sm9_sign_key_info_encrypt_to_der, sm9_sign_key_info_decrypt_from_der,
	sm9_sign_key_info_encrypt_to_pem, sm9_sign_key_info_decrypt_from_pem)
SM9_INFO_OP(sm9_emk_info, SM9_ENC_MASTER_KEY, s9em, sm9_enc_master_key_info_encrypt_to_der, sm9_enc_master_key_info_decrypt_from_der,
	sm9_enc_master_key_info_encrypt_to_pem, sm9_enc_master_key_info_decrypt_from_pem)
SM9_INFO_OP(sm9_ek_info, SM9_ENC_KEY, s9ekA, sm9_enc_key_info_encrypt_to_der, sm9_enc_key_info_decrypt_from_der,
	sm9_enc_key_info_encrypt_to_pem, sm9_enc_key_info_decrypt_from_pem)
static int op_sm2_pkcs8_pem(opctx_t *c, obuf_t *o) {
	FILE *fp; char buf[2048]; size_t n; SM2_KEY k2; int r = 1;
	if (!(fp = tmpfile())) return -9;
	if (sm2_private_key_info_encrypt_to_pem(&c->sm2, c->pass, fp) != 1) r = -1;
	if (r == 1) { fflush(fp); rewind(fp); n = fread(buf, 1, sizeof buf, fp); ob_put(o, "pem", buf, n); set_eph(c, buf + 40, n > 200 ? 160 : 0);
		rewind(fp); if (sm2_private_key_info_decrypt_from_pem(&k2, c->pass, fp) != 1 || memcmp(k2.private_key, c->sm2.private_key, 32)) r = -2; }
	fclose(fp); return r;
}
static int op_x509_req_sign(opctx_t *c, obuf_t *o) {
	uint8_t req[1024]; uint8_t *p = req; size_t l = 0; static const uint8_t attrs[2] = {0x30, 0x00};   /* the encoder refuses an absent attribute set */
	if (x509_req_sign_to_der(X509_version_v1, c->name, c->namelen, &c->sm2, attrs, sizeof attrs, OID_sm2sign_with_sm3, &c->sm2, SM2_DEFAULT_ID, SM2_DEFAULT_ID_LENGTH, &p, &l) != 1) return -1;
	ob_put(o, "req", req, l); set_eph(c, req + (l > 72 ? l - 72 : 0), l > 72 ? 72 : l);
	if (x509_req_verify(req, l, SM2_DEFAULT_ID, SM2_DEFAULT_ID_LENGTH) != 1) return -2;
	return 1;
}
static int op_x509_crl_sign(opctx_t *c, obuf_t *o) {
	uint8_t crl[1024]; uint8_t *p = crl; size_t l = 0; const uint8_t *iss; size_t issl;
	if (x509_cert_get_subject(c->cert, c->certlen, &iss, &issl) != 1) return -9;
	if (x509_crl_sign_to_der(X509_version_v2, OID_sm2sign_with_sm3, iss, issl, 1700000000, 1700000000 + 86400 * 30, NULL, 0, NULL, 0,
		&c->sm2, SM2_DEFAULT_ID, SM2_DEFAULT_ID_LENGTH, &p, &l) != 1) return -1;
	ob_put(o, "crl", crl, l); set_eph(c, crl + (l > 72 ? l - 72 : 0), l > 72 ? 72 : l);
	if (x509_crl_verify_by_ca_cert(crl, l, c->cert, c->certlen, SM2_DEFAULT_ID, SM2_DEFAULT_ID_LENGTH) != 1) return -2;
	return 1;
}
static int op_cms_sign_envelop(opctx_t *c, obuf_t *o) {
	uint8_t *cms = malloc(8192); size_t cl = 0; CMS_CERTS_AND_KEY sg; int r = 1; int ct; uint8_t content[512]; size_t contentlen = 0;
	const uint8_t *ri, *si, *sc, *scr, *s1, *s2; size_t ril, sil, scl, scrl, s1l, s2l;
	sg.certs = c->cert; sg.certs_len = c->certlen; sg.sign_key = &c->sm2;
	if (cms_sign_and_envelop(cms, &cl, &sg, 1, c->peercert, c->peercertlen, OID_sm4_cbc, c->symkey, 16, c->iv, 16, OID_cms_data, c->msg, c->msglen,
		NULL, 0, NULL, 0, NULL, 0) != 1) r = -1;
	if (r == 1) {
		ob_put(o, "cms", cms, cl); set_eph(c, cms, cl < 500 ? cl : 500);
		if (cms_deenvelop_and_verify(cms, cl, &c->peer, c->peercert, c->peercertlen, NULL, 0, NULL, 0, &ct, content, &contentlen, &ri, &ril, &si, &sil,
			&sc, &scl, &scr, &scrl, &s1, &s1l, &s2, &s2l) != 1 || contentlen < c->msglen || memcmp(content + contentlen - c->msglen, c->msg, c->msglen)) r = -2;
	}
	free(cms);
	return r;
}
static int op_cms_rcpt_info(opctx_t *c, obuf_t *o) {
	uint8_t d[1024]; size_t dl = 0, l; const uint8_t *iss, *ser, *cp = d; size_t issl, serl; uint8_t key[64]; size_t kl = 0;
	if (x509_cert_get_issuer_and_serial_number(c->peercert, c->peercertlen, &iss, &issl, &ser, &serl) != 1) return -9;
	if (cms_recipient_infos_add_recipient_info(d, &dl, sizeof d, &c->peer, iss, issl, ser, serl, c->symkey, 16) != 1) return -1;
	ob_put(o, "rcpt", d, dl); set_eph(c, d, dl < 300 ? dl : 300);
	l = dl;
	if (cms_recipient_info_decrypt_from_der(&c->peer, iss, issl, ser, serl, key, &kl, sizeof key, &cp, &l) != 1 || kl != 16 || memcmp(key, c->symkey, 16)) return -2;
	return 1;
}
static int op_sm2_enc_precomp(opctx_t *c, obuf_t *o) {
	SM2_ENC_PRE_COMP pre[SM2_ENC_PRE_COMP_NUM]; SM2_CIPHERTEXT ct; uint8_t der[SM2_MAX_CIPHERTEXT_SIZE]; uint8_t *p = der; size_t dl = 0; uint8_t pt[SM2_MAX_PLAINTEXT_SIZE]; size_t pl = 0;
	if (sm2_encrypt_pre_compute(pre) != 1) return -1;
	if (sm2_do_encrypt_ex(&c->sm2, &pre[SM2_ENC_PRE_COMP_NUM - 1], c->msg, c->msglen, &ct) != 1) return -1;
	if (sm2_ciphertext_to_der(&ct, &p, &dl) != 1) return -9;
	ob_put(o, "ct", der, dl); set_eph(c, &ct.point, 64);
	if (sm2_decrypt(&c->sm2, der, dl, pt, &pl) != 1 || pl != c->msglen || memcmp(pt, c->msg, pl)) return -2;
	return 1;
}
static int op_sm9_fp12_rand(opctx_t *c, obuf_t *o) {
	sm9_z256_fp12_t r; uint8_t b[384];
	if (sm9_z256_fp12_rand(r) != 1) return -1;
	sm9_z256_fp12_to_bytes(r, b); ob_put(o, "fp12", b, 384); set_eph(c, b, 384);
	return 1;
}
static int op_xmss_keygen(opctx_t *c, obuf_t *o) {
	SM3_XMSS_KEY k; uint8_t pub[256]; size_t pl = sizeof pub; int r = 1;
	memset(&k, 0, sizeof k);
	if (sm3_xmss_key_generate(&k, XMSS_SM3_10) != 1) return -1;
	if (sm3_xmss_public_key_to_bytes(&k, pub, &pl) != 1) r = -9;
	else { ob_put(o, "xmss-pub", pub, pl); set_eph(c, pub, pl); }
	sm3_xmss_key_cleanup(&k);
	return r;
}
/* ---- final wave: the rarely used low-level entry points, called directly */
static int op_sm2_do_sign(opctx_t *c, obuf_t *o) {
	SM2_SIGNATURE sg;
	if (sm2_do_sign(&c->sm2, c->dgst, &sg) != 1) return -1;
	ob_put(o, "sig", &sg, sizeof sg); set_eph(c, sg.r, 32);
	if (sm2_do_verify(&c->sm2, c->dgst, &sg) != 1) return -2;
	return 1;
}
static int op_sm2_sign_fixlen(opctx_t *c, obuf_t *o) {
	uint8_t sig[80]; SM2_SIGNATURE s; const uint8_t *p = sig; size_t l = 71;
	if (sm2_sign_fixlen(&c->sm2, c->dgst, 71, sig) != 1) return -1;
	ob_put(o, "sig", sig, 71);
	if (sm2_signature_from_der(&s, &p, &l) == 1) set_eph(c, s.r, 32);
	if (sm2_verify(&c->sm2, c->dgst, sig, 71) != 1) return -2;
	return 1;
}
static int op_sm2_do_encrypt(opctx_t *c, obuf_t *o) {
	SM2_CIPHERTEXT ct; uint8_t pt[SM2_MAX_PLAINTEXT_SIZE]; size_t pl = 0;
	memset(&ct, 0x5c, sizeof ct);
	if (sm2_do_encrypt(&c->sm2, c->msg, c->msglen, &ct) != 1) return -1;
	ob_put(o, "ct", &ct, 64 + 32 + 1 + c->msglen); set_eph(c, &ct.point, 64);
	if (sm2_do_decrypt(&c->sm2, &ct, pt, &pl) != 1 || pl != c->msglen || memcmp(pt, c->msg, pl)) return -2;
	return 1;
}
static int op_sm2_do_encrypt_fixlen(opctx_t *c, obuf_t *o) {
	SM2_CIPHERTEXT ct; uint8_t pt[SM2_MAX_PLAINTEXT_SIZE]; size_t pl = 0;
	memset(&ct, 0x5c, sizeof ct);
	if (sm2_do_encrypt_fixlen(&c->sm2, c->msg, c->msglen, SM2_ciphertext_typical_point_size, &ct) != 1) return -1;
	ob_put(o, "ct", &ct, 64 + 32 + 1 + c->msglen); set_eph(c, &ct.point, 64);
	if (sm2_do_decrypt(&c->sm2, &ct, pt, &pl) != 1 || pl != c->msglen || memcmp(pt, c->msg, pl)) return -2;
	return 1;
}
static int op_sm2_encrypt_fixlen(opctx_t *c, obuf_t *o) {
	uint8_t ct[SM2_MAX_CIPHERTEXT_SIZE]; size_t cl = 0; uint8_t pt[SM2_MAX_PLAINTEXT_SIZE]; size_t pl = 0;
	if (sm2_encrypt_fixlen(&c->sm2, c->msg, c->msglen, SM2_ciphertext_typical_point_size, ct, &cl) != 1) return -1;
	ob_put(o, "ct", ct, cl); set_eph(c, ct, cl < 72 ? cl : 72);
	if (sm2_decrypt(&c->sm2, ct, cl, pt, &pl) != 1 || pl != c->msglen || memcmp(pt, c->msg, pl)) return -2;
	return 1;
}
static int op_sm2_fast_sign_pool(opctx_t *c, obuf_t *o) {
	/* the pre-compute interface used without SM2_SIGN_CTX: fill a pool, sign with every entry once */
	SM2_SIGN_PRE_COMP pre[SM2_SIGN_PRE_COMP_COUNT]; sm2_z256_t fp; SM2_SIGNATURE sg; int i, j; uint8_t rs[SM2_SIGN_PRE_COMP_COUNT][32];
	memset(pre, 0x5c, sizeof pre);
	if (sm2_fast_sign_pre_compute(pre) != 1) return -1;
	if (sm2_fast_sign_compute_key(&c->sm2, fp) != 1) return -9;
	for (i = 0; i < SM2_SIGN_PRE_COMP_COUNT; i++) {
		if (sm2_fast_sign(fp, &pre[i], c->dgst, &sg) != 1) return -1;
		if (sm2_do_verify(&c->sm2, c->dgst, &sg) != 1) return -2;
		memcpy(rs[i], sg.r, 32);
		for (j = 0; j < i; j++) if (!memcmp(rs[j], rs[i], 32)) return -3;
		ob_put(o, "sig", &sg, sizeof sg);
	}
	set_eph(c, rs, 512);
	return 1;
}
static int op_sm9_do_sign(opctx_t *c, obuf_t *o) {
	SM3_CTX h; SM9_SIGNATURE sg;
	if (prepare9(c) != 1) return -9;
	sm3_init(&h); sm3_update(&h, c->msg, c->msglen);
	if (sm9_do_sign(&c->s9sk, &h, &sg) != 1) return -1;
	ob_put(o, "sig", &sg, sizeof sg); set_eph(c, &sg, sizeof sg < 512 ? sizeof sg : 512);
	sm3_init(&h); sm3_update(&h, c->msg, c->msglen);
	if (sm9_do_verify(&c->s9sm, ID_A, strlen(ID_A), &h, &sg) != 1) return -2;
	return 1;
}
static int op_sm9_kem(opctx_t *c, obuf_t *o) {
	uint8_t k1[32], k2[32], b[65]; SM9_Z256_POINT C1;
	if (prepare9(c) != 1) return -9;
	if (sm9_kem_encrypt(&c->s9em, ID_B, strlen(ID_B), 32, k1, &C1) != 1) return -1;
	sm9_z256_point_to_uncompressed_octets(&C1, b); ob_put(o, "C", b, 65); ob_put(o, "K", k1, 32); set_eph(c, b, 65);
	if (sm9_kem_decrypt(&c->s9ekB, ID_B, strlen(ID_B), &C1, 32, k2) != 1 || memcmp(k1, k2, 32)) return -2;
	return 1;
}
static const sysop_t EXTRA_OPS[] = {
	{"sm2_do_sign", op_sm2_do_sign, 1, 0}, {"sm2_sign_fixlen", op_sm2_sign_fixlen, 1, 0}, {"sm2_do_encrypt", op_sm2_do_encrypt, 1, 0},
	{"sm2_do_encrypt_fixlen", op_sm2_do_encrypt_fixlen, 1, 0}, {"sm2_encrypt_fixlen", op_sm2_encrypt_fixlen, 1, 0}, {"sm2_fast_sign_pool", op_sm2_fast_sign_pool, 1, 0},
	{"sm9_do_sign", op_sm9_do_sign, 1, 1}, {"sm9_kem", op_sm9_kem, 1, 1},
	{"sm9_sign_master_keygen", op_sm9_sign_master_keygen, 1, 1}, {"sm9_enc_master_keygen", op_sm9_enc_master_keygen, 1, 1},
	{"sm9_smk_info_der", op_sm9_smk_info_der, 1, 1}, {"sm9_smk_info_pem", op_sm9_smk_info_pem, 1, 1},
	{"sm9_sk_info_der", op_sm9_sk_info_der, 1, 1}, {"sm9_sk_info_pem", op_sm9_sk_info_pem, 1, 1},
	{"sm9_emk_info_der", op_sm9_emk_info_der, 1, 1}, {"sm9_emk_info_pem", op_sm9_emk_info_pem, 1, 1},
	{"sm9_ek_info_der", op_sm9_ek_info_der, 1, 1}, {"sm9_ek_info_pem", op_sm9_ek_info_pem, 1, 1},
	{"sm2_pkcs8_pem", op_sm2_pkcs8_pem, 1, 1}, {"x509_req_sign", op_x509_req_sign, 1, 0}, {"x509_crl_sign", op_x509_crl_sign, 1, 0},
	{"cms_sign_envelop", op_cms_sign_envelop, 1, 0}, {"cms_rcpt_info", op_cms_rcpt_info, 1, 0}, {"sm2_enc_precomp", op_sm2_enc_precomp, 1, 0}, {"sm9_fp12_rand", op_sm9_fp12_rand, 1, 0},
	{"xmss_keygen", op_xmss_keygen, 1, 1}, {"sm2_sign_ctx_multi", op_sm2_sign_ctx_multi, 1, 0}, {"tls_ske_sign", op_tls_ske_sign, 1, 0},
	{"tls13_cv_sign", op_tls13_cv_sign, 1, 0}, {"tls13_padding", op_tls13_padding, 1, 0} };
static const sysop_t *find_op2(const char *n) { size_t i; for (i = 0; i < sizeof EXTRA_OPS / sizeof EXTRA_OPS[0]; i++) if (!strcmp(n, EXTRA_OPS[i].name)) return &EXTRA_OPS[i]; return find_op(n); }

static opctx_t *C;
static uint64_t prepared_seed = ~0ULL;
static void prep(uint64_t seed) {
	/* long-term material depends on the seed only; keep it across ops of the same seed (SM9 set-up is slow) */
	if (!C) C = malloc(sizeof *C);
	if (prepared_seed != seed) { prepare(C, seed); prepared_seed = seed; }
	C->nsec = 0; C->ephlen = 0;
}
static int run_once(const sysop_t *op, uint64_t stream_seed, long failat, obuf_t *o, long *draws, size_t *bytes) {
	int rc;
	if (op->heavy) prepare9(C);
	ent_seed(stream_seed, failat); ent_clock(1700000000);
	rc = op->run(C, o);
	*draws = ent.draws; *bytes = ent.total;
	return rc;
}
static int cmp32(const void *a, const void *b) { return memcmp(a, b, 32); }

/* ---- one context, one stream, a failure in the middle, then the source is healthy again ---------------- */
typedef struct { SM2_SIGN_CTX sign; SM2_ENC_CTX enc; SM9_SIGN_CTX s9; } ctxs_t;
static int ctx_step(const char *kind, const sysop_t *op, ctxs_t *x, obuf_t *o, uint8_t eph[32]) {
	/* one operation on the persistent context; eph = digest of its ephemeral public value; 1 on success */
	SM3_CTX h3; int rc;
	if (!strcmp(kind, "sm2_sign_ctx")) {
		uint8_t sig[SM2_MAX_SIGNATURE_SIZE]; size_t sl = 0; SM2_SIGNATURE s; const uint8_t *p = sig; size_t l;
		if (sm2_sign_reset(&x->sign) != 1 || sm2_sign_update(&x->sign, C->msg, C->msglen) != 1) return -9;
		if (sm2_sign_finish(&x->sign, sig, &sl) != 1) return -1;
		l = sl; if (sm2_signature_from_der(&s, &p, &l) != 1) return -2;
		{ SM2_VERIFY_CTX vc; if (sm2_verify_init(&vc, &C->sm2, SM2_DEFAULT_ID, SM2_DEFAULT_ID_LENGTH) != 1 || sm2_verify_update(&vc, C->msg, C->msglen) != 1
			|| sm2_verify_finish(&vc, sig, sl) != 1) return -2; }
		sm3_init(&h3); sm3_update(&h3, s.r, 32); sm3_finish(&h3, eph);          /* same message: equal nonce <=> equal r */
		return 1;
	}
	if (!strcmp(kind, "sm2_sign_ctx_fixlen")) {
		/* the fixed-length variant on the same context type (SM2_signature_typical_size = 71) */
		uint8_t sig[SM2_MAX_SIGNATURE_SIZE]; SM2_SIGNATURE s; const uint8_t *p = sig; size_t l = 71;
		if (sm2_sign_reset(&x->sign) != 1 || sm2_sign_update(&x->sign, C->msg, C->msglen) != 1) return -9;
		if (sm2_sign_finish_fixlen(&x->sign, 71, sig) != 1) return -1;
		if (sm2_signature_from_der(&s, &p, &l) != 1) return -2;
		{ SM2_VERIFY_CTX vc; if (sm2_verify_init(&vc, &C->sm2, SM2_DEFAULT_ID, SM2_DEFAULT_ID_LENGTH) != 1 || sm2_verify_update(&vc, C->msg, C->msglen) != 1
			|| sm2_verify_finish(&vc, sig, 71) != 1) return -2; }
		sm3_init(&h3); sm3_update(&h3, s.r, 32); sm3_finish(&h3, eph);
		return 1;
	}
	if (!strcmp(kind, "sm9_sign_ctx")) {
		uint8_t sig[SM9_SIGNATURE_SIZE + 16]; size_t sl = 0;
		if (prepare9(C) != 1) return -9;
		if (sm9_sign_init(&x->s9) != 1 || sm9_sign_update(&x->s9, C->msg, C->msglen) != 1) return -9;
		if (sm9_sign_finish(&x->s9, &C->s9sk, sig, &sl) != 1) return -1;
		sm3_init(&h3); sm3_update(&h3, sig, sl); sm3_finish(&h3, eph);
		return 1;
	}
	if (!strcmp(kind, "sm2_enc_ctx")) {
		uint8_t ct[SM2_MAX_CIPHERTEXT_SIZE]; size_t cl = sizeof ct; uint8_t pt[SM2_MAX_PLAINTEXT_SIZE]; size_t pl = 0;
		if (sm2_encrypt_reset(&x->enc) != 1 || sm2_encrypt_update(&x->enc, C->msg, C->msglen) != 1) return -9;
		if (sm2_encrypt_finish(&x->enc, &C->sm2, ct, &cl) != 1) return -1;
		if (sm2_decrypt(&C->sm2, ct, cl, pt, &pl) != 1 || pl != C->msglen || memcmp(pt, C->msg, pl)) return -2;
		sm3_init(&h3); sm3_update(&h3, ct, cl < 70 ? cl : 70); sm3_finish(&h3, eph);   /* C1 */
		return 1;
	}
	o->n = 0; C->ephlen = 0;
	rc = op->run(C, o);
	if (rc == 1) { sm3_init(&h3); sm3_update(&h3, C->eph, C->ephlen); sm3_finish(&h3, eph); }
	return rc;
}
static void do_recover(char **w) {
	const char *kind = !strcmp(w[1], "sm2_sign_ctx_reinit") ? "sm2_sign_ctx" : w[1]; const sysop_t *op = find_op2(kind); uint64_t seed = strtoull(w[2], NULL, 10);
	int pre = atoi(w[3]), post = atoi(w[5]), i, j, n = 0, attempt; long failrel = atol(w[4]);
	ctxs_t *x = malloc(sizeof *x); obuf_t o; uint8_t (*eph)[32]; int rc;
	int reinit = !strcmp(w[1], "sm2_sign_ctx_reinit");
	int is_ctx = reinit || !strcmp(kind, "sm2_sign_ctx") || !strcmp(kind, "sm2_enc_ctx") || !strcmp(kind, "sm2_sign_ctx_fixlen") || !strcmp(kind, "sm9_sign_ctx");
	if ((!is_ctx && !op) || pre < 0 || post < 0 || pre + post > 4000) { printf("ERR usage"); free(x); return; }
	prep(seed >> 8); ob_init(&o);
	if (op && op->heavy) prepare9(C);
	eph = malloc((size_t)(pre + post + 2) * 32);
	ent_seed(seed, -1); ent_clock(1700000000);
	if (!strncmp(kind, "sm2_sign_ctx", 12) && sm2_sign_init(&x->sign, &C->sm2, SM2_DEFAULT_ID, SM2_DEFAULT_ID_LENGTH) != 1) { printf("ERR init"); goto done; }
	if (!strcmp(kind, "sm2_enc_ctx") && sm2_encrypt_init(&x->enc) != 1) { printf("ERR init"); goto done; }
	for (i = 0; i < pre; i++) { rc = ctx_step(kind, op, x, &o, eph[n]); if (rc != 1) { printf("BROKEN at=%d rc=%d phase=before", i, rc); goto done; } n++; }
	ent.fail_at = ent.draws + failrel;                                     /* the failing draw, relative to here */
	if (reinit) {
		/* re-initialisation of the USED context with a one-shot failure inside its pool fill, then a healthy re-initialisation */
		attempt = sm2_sign_init(&x->sign, &C->sm2, SM2_DEFAULT_ID, SM2_DEFAULT_ID_LENGTH) == 1 ? 2 : -1;
		ent.fail_at = -1;
		if (attempt == -1 && sm2_sign_init(&x->sign, &C->sm2, SM2_DEFAULT_ID, SM2_DEFAULT_ID_LENGTH) != 1) { printf("BROKEN at=%d rc=-1 phase=re-init", pre); goto done; }
	} else
	attempt = ctx_step(kind, op, x, &o, eph[n]);
	if (attempt == 1) n++;                                                 /* the failing draw was not reached: an ordinary operation */
	else if (attempt == -2) { printf("BROKEN at=%d rc=-2 phase=failing-attempt (success reported, output invalid)", pre); goto done; }
	ent.fail_at = -1;                                                      /* the source is healthy again */
	for (i = 0; i < post; i++) { rc = ctx_step(kind, op, x, &o, eph[n]); if (rc != 1) { printf("BROKEN at=%d rc=%d phase=after", pre + 1 + i, rc); goto done; } n++; }
	for (i = 0; i < n; i++) for (j = 0; j < i; j++) if (!memcmp(eph[i], eph[j], 32)) { printf("REUSE i=%d j=%d of=%d attempt=%d", j, i, n, attempt); goto done; }
	printf("FRESH ops=%d attempt=%d draws=%ld", n, attempt, ent.draws);
done:
	free(eph); free(x); ob_free(&o);
}

static void handle(size_t nw, char **w) {
	const sysop_t *op; uint64_t seed; obuf_t o; long draws; size_t bytes; int rc;
	alarm(nw >= 1 && !strcmp(w[0], "repeat") ? 300 : 40);      /* an operation that spins (e.g. retries for ever on a dead source) is killed and reported as a fault */
	if (nw == 2 && !strcmp(w[0], "randguard")) {
		/* the single gateway: refuses NULL, 0 and > 256 bytes without touching the source; serves 1..256 */
		uint8_t *b = malloc(300); int r0, r257, rn, r256, r1; long d0;
		ent_seed(strtoull(w[1], NULL, 10), -1);
		r0 = rand_bytes(b, 0); r257 = rand_bytes(b, 257); rn = rand_bytes(NULL, 8); d0 = ent.draws;
		r256 = rand_bytes(b, 256); r1 = rand_bytes(b, 1);
		if (r0 != 1 && r257 != 1 && rn != 1 && d0 == 0 && r256 == 1 && r1 == 1 && ent.draws == 2 && ent.total == 257) printf("GUARD ok");
		else printf("GUARD bad r0=%d r257=%d rnull=%d draws-after-refusals=%ld r256=%d r1=%d draws=%ld bytes=%zu", r0, r257, rn, d0, r256, r1, ent.draws, ent.total);
		free(b);
		return;
	}
	if (nw == 6 && !strcmp(w[0], "recover")) { do_recover(w); return; }
	if (nw == 4 && !strcmp(w[0], "rbytes")) {
		/* gateway level, compared with Sys/Gateway.v rand_bytes_unix: rbytes <len | -1 = NULL buffer> <k failing attempts> <errno> */
		long len = atol(w[1]); int k = atoi(w[2]); size_t n = len < 0 ? 8 : (size_t)len; uint8_t *b = malloc(n ? n : 1), *ref = malloc(n ? n : 1); int r;
		memset(b, 0x5c, n ? n : 1);
		ent_seed(4242, -1); errno = 0; ent_calls = 0;
		if (k > 0) entfault_set(0, k, errno_of_name(w[3]));
		r = rand_bytes(len < 0 ? NULL : b, n);
		entfault_clear();
		if (r == 1) {
			ent_seed(4242, -1);
			if (n && n <= 256 && verif_ent_getentropy(ref, n) == 0 && !memcmp(ref, b, n)) printf("EXACT rc=1 attempts=%ld", ent_calls);
			else printf("BAD rc=1 attempts=%ld (bytes are not the ones the source served)", ent_calls);
		} else printf("FAILED rc=%d attempts=%ld", r, ent_calls);
		free(b); free(ref);
		return;
	}
	if (nw == 3 && !strcmp(w[0], "rr")) {
		/* rejection sampling, compared with Sys/Rand.v rand_range: rr <sm2|sm9> <script of h (value >= range) / l (value 1) / f (source fails)> */
		size_t n = strlen(w[2]), i; uint8_t *sc = malloc(32 * n + 32); long failat = -1; int r; sm2_z256_t v2; sm9_z256_t v9;
		for (i = 0; i < n; i++) {
			memset(sc + 32 * i, w[2][i] == 'h' ? 0xff : 0x00, 32);
			if (w[2][i] == 'l') sc[32 * i] = 1;
			if (w[2][i] == 'f' && failat < 0) failat = (long)i;
		}
		ent_script(sc, 32 * n, failat);
		ent.sm = 0;                                                 /* after the script: splitmix bytes (accepted with overwhelming probability) */
		r = !strcmp(w[1], "sm2") ? sm2_z256_rand_range(v2, sm2_z256_order()) : sm9_z256_rand_range(v9, sm9_z256_order());
		printf("rc=%d draws=%ld", r, ent.draws);
		free(sc);
		return;
	}
	if (nw == 4 && !strcmp(w[0], "pooltrace")) {
		/* the nonce pool of one SM2_SIGN_CTX, compared with Sys/Rand.v sign_step: pooltrace <seed> <attempts> <failing draw indices a,b,c | ->  */
		SM2_SIGN_CTX *sc; int n = atoi(w[2]), i, nf = 0; long fl[16]; char *save = NULL, *t; uint8_t sig[SM2_MAX_SIGNATURE_SIZE]; size_t sl;
		prep(strtoull(w[1], NULL, 10) >> 8);
		if (strcmp(w[3], "-")) for (t = strtok_r(w[3], ",", &save); t && nf < 16; t = strtok_r(NULL, ",", &save)) fl[nf++] = atol(t);
		sc = malloc(sizeof *sc);
		ent_seed(strtoull(w[1], NULL, 10), -1);
		if (sm2_sign_init(sc, &C->sm2, SM2_DEFAULT_ID, SM2_DEFAULT_ID_LENGTH) != 1 || ent.draws != 32) { printf("ERR init draws=%ld", ent.draws); free(sc); return; }
		printf("ok=");
		for (i = 0; i < n; i++) {
			int j; long next = -1;
			for (j = 0; j < nf; j++) if (fl[j] >= ent.draws && (next < 0 || fl[j] < next)) next = fl[j];
			ent.fail_at = next;
			sl = 0;
			printf("%d", sm2_sign_reset(sc) == 1 && sm2_sign_update(sc, C->msg, C->msglen) == 1 && sm2_sign_finish(sc, sig, &sl) == 1);
		}
		printf(" draws=%ld", ent.draws);
		free(sc);
		return;
	}
	if (nw < 3 || !(op = find_op2(w[1]))) { printf("ERR usage"); return; }
	seed = strtoull(w[2], NULL, 10);
	prep(seed >> 8);                                           /* 256 stream seeds share one key set */
	ob_init(&o);
	if (!strcmp(w[0], "bval") && nw == 4) {
		/* boundary values of the first 32-byte draw: zero / n / n+1 / 2^256-1 must be re-drawn (the outcome equals the healthy run on the
		 * stream without that draw, with one more draw); 1 / n-1 / n-2 are ordinary values (the operation succeeds and its output verifies) */
		uint8_t v[32]; uint64_t nn[4]; obuf_t o2; long d2; size_t b2; int rc2, redraw; uint64_t S = 0xb0a7 + seed;
		int sm9 = !strncmp(w[1], "sm9", 3);
		memcpy(nn, sm9 ? (const void *)sm9_z256_order() : (const void *)sm2_z256_order(), 32);
		memset(v, 0, 32); redraw = 1;
		if (!strcmp(w[3], "zero")) {}
		else if (!strcmp(w[3], "n")) memcpy(v, nn, 32);
		else if (!strcmp(w[3], "nplus")) { nn[0] += 1; memcpy(v, nn, 32); }
		else if (!strcmp(w[3], "max")) memset(v, 0xff, 32);
		else if (!strcmp(w[3], "one")) { v[0] = 1; redraw = 0; }
		else if (!strcmp(w[3], "nminus2")) { nn[0] -= 2; memcpy(v, nn, 32); redraw = 0; }
		else if (!strcmp(w[3], "nminus1")) { nn[0] -= 1; memcpy(v, nn, 32); redraw = -1; }   /* rejected by key generation (range n-1), accepted as a nonce */
		else { printf("ERR kind"); ob_free(&o); return; }
		ob_init(&o2);
		if (op->heavy) prepare9(C);
		ent_script(NULL, 0, -1); ent.sm = S; ent_clock(1700000000);               /* reference: the stream without the special draw */
		rc = op->run(C, &o); draws = ent.draws; bytes = ent.total; C->nsec = 0;
		ent_script(v, 32, -1); ent.sm = S; ent_clock(1700000000);
		rc2 = op->run(C, &o2); d2 = ent.draws; b2 = ent.total;
		if (rc != 1) printf("ERR reference rc=%d", rc);
		else if (rc2 != 1) printf("BROKEN rc=%d draws=%ld (a boundary value of the draw makes the operation fail or emit invalid output)", rc2, d2);
		else if (redraw == 1 && !(d2 == draws + 1 && o2.n == o.n && !memcmp(o.p, o2.p, o.n))) printf("NOT-REDRAWN draws=%ld/%ld same-output=%d", d2, draws, o2.n == o.n && !memcmp(o.p, o2.p, o.n));
		else printf("OK rc=1 draws=%ld/%ld %s", d2, draws, redraw == 1 ? "redrawn" : (d2 == draws + 1 ? "redrawn" : "accepted"));
		(void)b2; (void)bytes;
		ob_free(&o2);
	} else if (!strcmp(w[0], "vals") && nw == 3) {
		/* the 32-byte values the operation drew (replayed from the stream): the Coq model of the rejection sampling is fed the
		 * same bytes and must consume exactly as many */
		long k, lim; size_t lens[64]; uint8_t v[256];
		rc = run_once(op, seed, -1, &o, &draws, &bytes);
		lim = draws < 64 ? draws : 64;
		for (k = 0; k < lim; k++) lens[k] = ent.log[k].len;
		printf("rc=%d draws=%ld", rc == 1 ? 1 : -1, draws);
		ent_seed(seed, -1);
		printf(" vals=");
		for (k = 0; k < lim; k++) { if (verif_ent_getentropy(v, lens[k]) != 0) break; if (k) printf(","); puthex(v, lens[k]); }
	} else if (!strcmp(w[0], "lens") && nw == 4) {
		/* draw script of the operation (lengths of the draws served, in order) and its outcome with draw <failat> failing:
		 * line-compared with the script model of Sys/Gateway.v */
		long k, lim;
		rc = run_once(op, seed, atol(w[3]), &o, &draws, &bytes);
		printf("rc=%d draws=%ld lens=", rc == 1 ? 1 : -1, draws);
		lim = draws < ENT_MAXLOG ? draws : ENT_MAXLOG;
		if (atol(w[3]) >= 0 && atol(w[3]) < lim) lim = atol(w[3]);         /* the failing draw is not served */
		for (k = 0; k < lim; k++) printf("%s%zu", k ? "," : "", ent.log[k].len);
		if (!lim) printf("-");
	} else if (!strcmp(w[0], "count") && nw == 3) {
		rc = run_once(op, seed, -1, &o, &draws, &bytes);
		printf("DRAWS rc=%d draws=%ld bytes=%zu out=%zu", rc, draws, bytes, o.n);
	} else if (!strcmp(w[0], "fail") && nw == 4) {
		long i = atol(w[3]);
		rc = run_once(op, seed, i, &o, &draws, &bytes);
		if (rc == 1 && i >= 0 && draws <= i) printf("NOTREACHED rc=1 draws=%ld", draws);
		else if (rc == 1 || rc == -2) {      /* -2: the randomised call returned success but its output does not verify / decrypt */
			printf("SUCCEEDED-DESPITE-FAILURE %s draws=%ld out=", rc == 1 ? "valid-output" : "invalid-output", draws); puthex(o.p, o.n < 48 ? o.n : 48); }
		else printf("FAILCLOSED rc=%d draws=%ld", rc, draws);
	} else if (!strcmp(w[0], "det") && nw == 3) {
		obuf_t o2; long d2; size_t b2; int rc2; uint8_t dg[32]; SM3_CTX s3;
		ob_init(&o2);
		rc = run_once(op, seed, -1, &o, &draws, &bytes);
		C->nsec = 0;
		rc2 = run_once(op, seed, -1, &o2, &d2, &b2);
		if (rc == rc2 && draws == d2 && o.n == o2.n && !memcmp(o.p, o2.p, o.n)) {
			sm3_init(&s3); sm3_update(&s3, o.p, o.n); sm3_finish(&s3, dg);
			printf("SAME rc=%d draws=%ld bytes=%zu digest=", rc, draws, o.n); puthex(dg, 32);
		} else printf("DIFFERENT rc=%d/%d draws=%ld/%ld bytes=%zu/%zu", rc, rc2, draws, d2, o.n, o2.n);
		ob_free(&o2);
	} else if (!strcmp(w[0], "fresh") && nw == 4) {
		uint8_t e1[512]; size_t l1; uint64_t seed2 = strtoull(w[3], NULL, 10);
		rc = run_once(op, seed, -1, &o, &draws, &bytes);
		l1 = C->ephlen; memcpy(e1, C->eph, l1);
		o.n = 0; C->ephlen = 0;
		if (rc == 1) rc = run_once(op, seed2, -1, &o, &draws, &bytes);
		if (rc != 1) printf("ERR rc=%d", rc);
		else if (draws == 0 || l1 == 0) printf("NOEPH draws=%ld", draws);
		else if (l1 == C->ephlen && !memcmp(e1, C->eph, l1)) { printf("SAME-EPHEMERAL draws=%ld eph=", draws); puthex(e1, l1 < 40 ? l1 : 40); }
		else printf("DISTINCT draws=%ld", draws);
	} else if (!strcmp(w[0], "eint") && nw == 6) {
		obuf_t o2; long d2; size_t b2; int rc2; long i = atol(w[3]); int k = atoi(w[5]);
		ob_init(&o2);
		rc = run_once(op, seed, -1, &o, &draws, &bytes);                  /* the healthy reference */
		C->nsec = 0;
		if (op->heavy) prepare9(C);
		ent_seed(seed, -1); ent_clock(1700000000); errno = 0;
		entfault_set(i, k, errno_of_name(w[4]));
		rc2 = op->run(C, &o2); d2 = ent.draws; b2 = ent.total;
		entfault_clear();
		if (rc != 1) printf("ERR reference rc=%d", rc);
		else if (i >= draws) printf("NOTREACHED draws=%ld", draws);
		else if (rc2 == 1 && o.n == o2.n && !memcmp(o.p, o2.p, o.n) && d2 == draws && b2 == bytes) printf("EQUAL rc=1 draws=%ld attempts-failed=%ld", d2, entfault.failed_attempts);
		else if (rc2 == 1 || rc2 == -2) { printf("DIVERGED rc=%d poison=%zu draws=%ld/%ld attempts-failed=%ld out=", rc2, poison_run(o2.p, o2.n), d2, draws, entfault.failed_attempts); puthex(o2.p, o2.n < 48 ? o2.n : 48); }
		else printf("FAILED rc=%d draws=%ld attempts-failed=%ld", rc2, d2, entfault.failed_attempts);
		ob_free(&o2);
	} else if (!strcmp(w[0], "repeat") && nw == 4) {
		int count = atoi(w[3]), i, bad = 0; uint8_t (*ephs)[32] = malloc((size_t)count * 32); long nd; uint8_t (*non)[32]; long nn = 0, k;
		if (op->heavy) prepare9(C);
		ent_seed(seed, -1); ent_clock(1700000000);
		for (i = 0; i < count; i++) {
			o.n = 0; C->ephlen = 0;
			rc = op->run(C, &o);
			if (rc != 1 || C->ephlen < 16) { printf("ERR rc=%d at=%d", rc, i); bad = 1; break; }
			{ SM3_CTX h3; sm3_init(&h3); sm3_update(&h3, C->eph, C->ephlen); sm3_finish(&h3, ephs[i]); }   /* digest of the whole ephemeral value */
		}
		nd = ent.draws;
		if (!bad) {
			/* replay the stream and collect every logged 32-byte draw */
			long lim = nd < ENT_MAXLOG ? nd : ENT_MAXLOG; size_t lens[ENT_MAXLOG];
			for (k = 0; k < lim; k++) lens[k] = ent.log[k].len;
			non = malloc((size_t)(lim + 1) * 32);
			ent_seed(seed, -1);
			for (k = 0; k < lim; k++) { uint8_t buf[256]; if (getentropy(buf, lens[k]) != 0) break; if (lens[k] == 32) memcpy(non[nn++], buf, 32); }
			qsort(ephs, (size_t)count, 32, cmp32);
			for (i = 1; i < count && !bad; i++) if (!memcmp(ephs[i - 1], ephs[i], 32)) { printf("REUSE what=eph value="); puthex(ephs[i], 32); bad = 1; }
			qsort(non, (size_t)nn, 32, cmp32);
			for (k = 1; k < nn && !bad; k++) if (!memcmp(non[k - 1], non[k], 32)) { printf("REUSE what=nonce value="); puthex(non[k], 32); bad = 1; }
			if (!bad) printf("DISTINCT count=%d draws=%ld nonces=%ld", count, nd, nn);
			free(non);
		}
		free(ephs);
	} else printf("ERR usage");
	ob_free(&o);
}

int main(void) { quiet_stderr(); main_loop(handle); return 0; }
