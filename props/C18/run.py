"""C18 — randomised operations are fresh, entropy-driven and fail closed.

(a) table: tools/rand_sites.py regenerates coq/Gen/RandSitesTable.v (the set E of entropy-dependent
    status-returning functions and every call site of a member of E with "is the status used");
    instance theorem `all_sites_checked` re-proved over it by coqc; failing rows are named per site.
(b) model theorems: Props/Properties_C18.v (entropy-stream computations: determinism, no reuse,
    fail closed for checked computations, witness for an ignored status).
(c) runtime: scripted getentropy(): for every randomised operation and EVERY draw index a run with
    that draw failing; equal streams => identical output; different streams => different ephemeral
    values; repeated operations in one stream => pairwise distinct ephemeral values and nonces."""
import os, re, sys, time
from vlib import core
sys.path.insert(0, os.path.join(core.ROOT, "tools"))
sys.path.insert(0, os.path.join(core.ROOT, "props", "C18"))
import rand_sites, tablecheck
try:
    import tlsrun
except Exception:                                            # pragma: no cover
    tlsrun = None

NEW_OPS = ["sm9_sign_master_keygen", "sm9_enc_master_keygen", "sm9_smk_info_der", "sm9_smk_info_pem", "sm9_sk_info_der", "sm9_sk_info_pem",
           "sm9_emk_info_der", "sm9_emk_info_pem", "sm9_ek_info_der", "sm9_ek_info_pem", "sm2_pkcs8_pem", "x509_req_sign", "x509_crl_sign",
           "cms_sign_envelop", "cms_rcpt_info", "sm2_enc_precomp", "sm9_fp12_rand", "xmss_keygen",
           "sm2_do_sign", "sm2_sign_fixlen", "sm2_do_encrypt", "sm2_do_encrypt_fixlen", "sm2_encrypt_fixlen", "sm2_fast_sign_pool", "sm9_do_sign", "sm9_kem"]
SLOW = {"xmss_keygen"}                     # seconds per run under ASan: count + every draw index + one fresh pair only
C19_ONLY_OPS = {"pkcs8_wrongpass", "tls_cbc_badmac"}
OPS = ["sm2_keygen", "sm2_sign", "sm2_sign_ctx", "sm2_sign_ctx_multi", "sm2_encrypt", "sm2_ecdhe", "sm9_sign", "sm9_encrypt", "sm9_exchange",
       "pkcs8", "x509_sign", "cms_sign", "cms_envelop", "tls_cbc", "tls_record", "tls_random", "tls_pms",
       "tls_ske_sign", "tls13_cv_sign", "tls13_padding"] + NEW_OPS
# operations whose first entropy draw is a rejection-sampled scalar (nonce or private key)
RR_FIRST = ["sm2_do_sign", "sm2_sign_fixlen", "sm2_do_encrypt", "sm2_do_encrypt_fixlen", "sm2_encrypt_fixlen", "sm2_fast_sign_pool", "sm9_do_sign", "sm9_kem", "sm2_keygen", "sm2_sign", "sm2_encrypt", "sm2_ecdhe", "sm2_sign_ctx", "sm2_enc_precomp", "tls_ske_sign", "tls13_cv_sign", "x509_sign", "cms_sign",
            "cms_envelop", "cms_rcpt_info", "sm9_sign", "sm9_encrypt", "sm9_exchange", "sm9_sign_master_keygen", "sm9_enc_master_keygen"]
NOENT = ["cms_encrypt", "tls13_gcm"]
HEAVY = {"sm9_sign", "sm9_encrypt", "sm9_exchange", "pkcs8"} | {o for o in NEW_OPS if o.startswith("sm9_") and o != "sm9_fp12_rand"} | {"sm2_pkcs8_pem", "xmss_keygen"}
REPEAT = {"sm2_keygen": 1000, "sm2_sign": 1000, "sm2_encrypt": 1000, "sm2_ecdhe": 300, "sm2_sign_ctx": 100, "tls_cbc": 1000, "tls_record": 1000,
          "tls_random": 1000, "tls_pms": 1000, "x509_sign": 60, "cms_sign": 200, "cms_envelop": 200, "sm9_sign": 12, "sm9_encrypt": 12, "pkcs8": 6,
          "tls_ske_sign": 60, "tls13_cv_sign": 60}
# socket-free witnesses of unchecked call sites: op -> (site keys witnessed by a failing draw inside sm2_sign_init / rand_bytes,
#                                                        site keys witnessed when every draw fails)
WITNESS = {
    "tls_ske_sign": (["site:tls.c:tls_sign_server_ecdh_params:sm2_sign_init"], ["site:tls.c:tls_sign_server_ecdh_params:sm2_sign_finish"]),
    "tls13_cv_sign": (["site:tls13.c:tls13_sign_certificate_verify:sm2_sign_init"], ["site:tls13.c:tls13_sign_certificate_verify:sm2_sign_finish"]),
    "tls13_padding": (["site:tls13.c:tls13_padding_len_rand:rand_bytes"], []),
}


def site_keys(rows):
    """site:<file>:<fn>:<callee>, with #k for the k-th (k >= 2) call of the same callee in the same function"""
    seen = {}
    out = []
    for r in rows:
        base = "site:%s:%s:%s" % (r["file"], r["fn"], r["callee"])
        seen[base] = seen.get(base, 0) + 1
        out.append(base if seen[base] == 1 else "%s#%d" % (base, seen[base]))
    return out


def table_part(ctx):
    t0 = time.time()
    rows, stats = rand_sites.table(core.REPO, core.BUILD, "asan")
    rand_sites.emit(rows, os.path.join(core.COQ, "Gen", "RandSitesTable.v"), stats["optional_rows"], stats["unlisted_rows"])
    ctx.cov["entropy_dependent_functions"] = stats["E"]
    ctx.notes.append("rand-site table: %d functions in E, %d call sites, %s, %.1fs" % (
        len(stats["E"]), len(rows), {k: stats[k] for k in ("files", "cached", "parsed")}, time.time() - t0))
    res = tablecheck.run("C18", "RandSitesTable", "rand_sites", "(fun s => (site_key s ++ \"@\" ++ s_how s)%string)", "site_ok", "all_sites_checked",
                         "forall s, In s rand_sites -> s_result_used s = true /\\ forall v, In v (s_fails s) -> exists t, In t (s_tests s) /\\ distinguishes t v = true",
                         "rand_table_sound")
    ctx.cov["obligations"] += 1
    ctx.cov.setdefault("theorems", []).append({"name": "all_sites_checked (instance over coq/Gen/RandSitesTable.v, %s rows)" % res["rows"],
                                               "assumptions": [] if res["closed"] else None})
    ctx.cov["evaluations"] += len(rows)
    for r in rows:
        ctx.cell("table:%s:%s" % (r["file"], "checked" if r["used"] else "unchecked"))
    failing = []
    if res["proved"] and res["closed"] and res["failing"] == []:
        ctx.cov["discharged"] += 1
        ctx.cell("table:all_sites_checked:proved")
    elif res["failing"] is None:
        ctx.violation("table:rand-check", "the table check file did not compile: " + res["log"][-600:],
                      {"kind": "proof", "theorem_or_file": "all_sites_checked over coq/Gen/RandSitesTable.v", "detail": res["log"][-2000:]}, False)
    else:
        keys = site_keys(rows)
        failing = [(k, r) for k, r in zip(keys, rows) if not rand_sites.py_site_ok(r)]
        if len(failing) != len(res["failing"]):
            ctx.violation("table:rand-mismatch", "Coq reports %d failing rows, the translator %d" % (len(res["failing"]), len(failing)),
                          {"kind": "proof", "theorem_or_file": "all_sites_checked", "detail": str(res["failing"])[:1500]}, False)
    # ---- wave 5: the same theorem over the call sites in the C files that only some cmake option / platform compiles;
    #      files that no cmake source list mentions cannot be part of the library in any configuration: observed, not judged
    urows = stats["optional_rows"]
    res2 = tablecheck.run("C18", "RandSitesTable", "rand_sites_optional", "(fun s => (site_key s ++ \"@\" ++ s_how s)%string)", "site_ok", "all_optional_sites_checked",
                          "forall s, In s rand_sites_optional -> s_result_used s = true /\\ forall v, In v (s_fails s) -> exists t, In t (s_tests s) /\\ distinguishes t v = true",
                          "rand_table_sound")
    ctx.cov["obligations"] += 1
    ctx.cov["theorems"].append({"name": "all_optional_sites_checked (instance over rand_sites_optional, %s rows)" % res2["rows"], "assumptions": [] if res2["closed"] else None})
    ctx.cov["evaluations"] += len(urows) + len(stats["unlisted_rows"])
    ctx.cov["unbuilt_sources"] = {"classes": stats["unbuilt_classes"], "not_parsable_here": stats["unbuilt_unparsed"],
                                  "sites_in_embedded_tests_not_judged": stats["unbuilt_test_sites"]}
    if res2["proved"] and res2["closed"] and res2["failing"] == []:
        ctx.cov["discharged"] += 1
        ctx.cell("table:all_optional_sites_checked:proved")
    elif res2["failing"] is None:
        ctx.violation("table:rand-optional-check", "the table check file did not compile: " + res2["log"][-600:],
                      {"kind": "proof", "theorem_or_file": "all_optional_sites_checked", "detail": res2["log"][-2000:]}, False)
    else:
        for k, r in zip(site_keys(urows), urows):
            if not rand_sites.py_site_ok(r):
                ctx.violation(k.replace("site:", "site-optional:", 1), "%s:%d %s() %s %s (file compiled only under a non-default cmake option; tests=%s fails=%s)" % (
                    r["file"], r["line"], r["fn"], "ignores the status of" if not r["used"] else "does not test adequately the status of", r["callee"], r["tests"], r["fails"]),
                    {"kind": "table-row", "theorem_or_file": "all_optional_sites_checked over coq/Gen/RandSitesTable.v", "row": r}, False)
    obs = []
    for r in stats["unlisted_rows"]:
        ctx.cell("table:unlisted:%s" % ("adequate" if rand_sites.py_site_ok(r) else "inadequate"))
        if not rand_sites.py_site_ok(r):
            obs.append("%s:%d %s() %s %s — the file is in no cmake source list, so this is not an operation of the library in any configuration" % (
                r["file"], r["line"], r["fn"], "ignores the status of" if not r["used"] else "does not test adequately the status of", r["callee"]))
    ctx.cov["observations"] = obs
    for o in obs:
        print("OBSERVATION: property=C18 " + o)
    ctx._rand_stats = stats
    return failing


def coverage_part(ctx, stats):
    """Every exported function that depends on entropy must be reached by a harness operation under per-draw
    injection: the list comes from the table (members of E with external linkage), the coverage from the ASTs of the
    harness sources themselves (library functions called from op_* functions / the handshake role, closed under the
    library call graph).  A function nobody reaches is a loud `uncovered:<function>` violation."""
    import cast
    t0 = time.time()
    fdefs, E = stats["fdefs"], set(stats["E"])
    fwd = {}
    for callee, cs in stats["callers"].items():
        for c in cs:
            fwd.setdefault(c, set()).add(callee)
    d = os.path.join(core.ROOT, "props", "C18")
    inc = "-I%s -I%s/include -I%s/src -I%s" % (os.path.join(core.ROOT, "harness"), core.REPO, core.REPO, d)

    def reached(src, roots, skip=("prepare", "prepare9", "make_sm2", "make_cert", "make_cert2", "make_pki", "prep")):
        rec = cast.reduce_tu(os.path.join(d, src), inc, "", core.ROOT)
        hg = {}
        for c in rec["calls"]:
            if c["callee"] and c["func"]:
                hg.setdefault(c["func"], set()).add(c["callee"])
        direct, seen, work = set(), set(), [f for f in hg if any(f == r or (r.endswith("*") and f.startswith(r[:-1])) for r in roots)]
        while work:
            f = work.pop()
            if f in seen:
                continue
            seen.add(f)
            for g in hg.get(f, ()):
                if g in fdefs:
                    direct.add(g)
                elif g in hg and g not in skip:
                    work.append(g)
        out, work = set(), list(direct)
        while work:
            f = work.pop()
            if f in out:
                continue
            out.add(f)
            work.extend(g for g in fwd.get(f, ()) if g in fdefs and g not in out)
        DIRECT.update(direct)
        return out
    DIRECT = set()
    try:
        cov = reached("harness.c", ["op_*", "ctx_step", "do_recover", "handle"]) | reached("hs_harness.c", ["role"])
    except Exception as e:
        ctx.violation("coverage:analysis", "cannot analyse the harness sources: %r" % (e,), {"kind": "internal", "error": repr(e)}, False)
        return
    exported = sorted(f for f in E if f in fdefs and not fdefs[f].get("static"))
    unc = [f for f in exported if f not in cov]
    ctx.cov["exported_entropy_functions"] = exported
    for f in exported:
        ctx.cov["evaluations"] += 1
        if f in cov:
            ctx.cell("covered:" + ("api" if f in stats["header_decls"] else "internal"))
    for f in unc:
        ctx.violation("uncovered:" + f, "%s() (%s) depends on the entropy source and is exported, but no harness operation reaches it: its draws are never made to fail" % (
            f, fdefs[f]["file"]), {"kind": "table-row", "theorem_or_file": "coverage of E by props/C18/harness.c + hs_harness.c", "row": {"function": f, "file": fdefs[f]["file"]}}, False)
    # every member of E that a public header declares must be CALLED DIRECTLY by some operation (rarely used low-level entry points —
    # pre-compute / _ex / do_ / fixlen variants — have their own status handling), unless waived here with a reason
    waived = {f: "handshake entry point, dispatched by tls_do_handshake in the handshake harness" for f in
              ("tlcp_do_accept", "tlcp_do_connect", "tls12_do_accept", "tls12_do_connect", "tls13_do_accept", "tls13_do_connect")}
    waived.update({f: "inner CMS builder with a 15+ argument interface; every draw is injected through cms_sign / cms_envelop / cms_sign_and_envelop" for f in
                   ("cms_enveloped_data_encrypt_to_der", "cms_recipient_info_encrypt_to_der", "cms_signed_and_enveloped_data_encipher_to_der",
                    "cms_signed_data_sign_to_der", "cms_signer_info_sign_to_der", "cms_signer_infos_add_signer_info")})
    waived.update({f: "called by sm9_z256_fp12_rand (op sm9_fp12_rand) only; same three-line shape" for f in ("sm9_z256_fp2_rand", "sm9_z256_fp4_rand")})
    waived.update({"sm9_do_encrypt": "wrapper of sm9_kem_encrypt (op sm9_kem) + symmetric part; reached through sm9_encrypt"})
    ctx.cov["indirectly_covered_waived"] = waived
    for f in exported:
        if f in stats["header_decls"] and f in cov and f not in DIRECT:
            ctx.cov["evaluations"] += 1
            if f in waived:
                ctx.cell("indirect-only:waived")
            else:
                ctx.violation("indirect-only:" + f, "%s() is a public entry point that draws entropy but no harness operation calls it directly (only through other functions)" % f,
                              {"kind": "table-row", "theorem_or_file": "direct coverage of public entropy-dependent entry points", "row": {"function": f}}, False)
    # every exported member of E that works on a caller-held mutable context must be used REPEATEDLY on one context
    # (ctx_step of `recover`, or a *_multi operation): nonce pools live there
    try:
        rep = reached("harness.c", ["ctx_step", "op_sm2_sign_ctx_multi"])
    except Exception:
        rep = set()
    for f in exported:
        ps = fdefs[f].get("params") or []
        if ps and re.search(r"_CTX \*$", ps[0][1]) and "const" not in ps[0][1]:
            ctx.cov["evaluations"] += 1
            if f in rep:
                ctx.cell("ctx-repeated:" + f)
            else:
                ctx.violation("uncovered-ctx:" + f, "%s() draws entropy into / out of a caller-held %s but no harness operation uses one context repeatedly through it" % (f, ps[0][1]),
                              {"kind": "table-row", "theorem_or_file": "repeated-use coverage of context entry points", "row": {"function": f}}, False)
    # every randomised op the harness defines must be driven by this file
    names = set()
    for src in ("sysops.h", "harness.c"):
        names |= set(re.findall(r'\{"(\w+)",\s*op_\w+,\s*1,', open(os.path.join(d, src)).read()))
    for n in sorted(names - set(OPS) - C19_ONLY_OPS):
        ctx.violation("uncovered-op:" + n, "harness operation %s is defined but not driven by props/C18/run.py" % n, {"kind": "internal", "error": n}, False)
    ctx.notes.append("coverage: %d exported entropy-dependent functions, %d reached by harness operations, %.1fs" % (len(exported), len(exported) - len(unc), time.time() - t0))


def urandom_part(ctx):
    """wave 3: the gateway of the other build configuration.  cmake is configured (not built) with -DHAVE_GETENTROPY=OFF,
    the rand*.c it selects (src/rand.c: /dev/urandom through stdio) is compiled into props/C18/ur_harness.c, which wraps
    fopen/fread/fclose and scripts short reads, EOF, errno errors and open failure."""
    import cast
    t0 = time.time()
    bdir = os.path.join(core.BUILD, "lib_nogetentropy")
    if not os.path.exists(os.path.join(bdir, "build.ninja")):
        rc, out = core.sh(["cmake", "-G", "Ninja", "-S", core.REPO, "-B", bdir, "-DBUILD_SHARED_LIBS=OFF", "-DCMAKE_C_COMPILER=gcc", "-DCMAKE_BUILD_TYPE=None",
                           "-DHAVE_GETENTROPY=OFF"])
        if rc != 0:
            ctx.violation("urandom:configure", "cmake -DHAVE_GETENTROPY=OFF does not configure: " + out[-400:], {"kind": "correspondence", "log": out[-3000:]}, False)
            return
    gate = lambda lst: sorted(s[0] for s in lst if re.search(r"/src/rand[^/]*\.c$", s[0]) and "rdrand" not in s[0])
    alt, dflt = gate(cast.source_list(core.BUILD, "nogetentropy")), gate(cast.source_list(core.BUILD, "asan"))
    ctx.cov["entropy_gateways"] = {"default": [os.path.basename(x) for x in dflt], "HAVE_GETENTROPY=OFF": [os.path.basename(x) for x in alt]}
    if not alt or alt == dflt:
        ctx.notes.append("no alternative entropy back end is selected by -DHAVE_GETENTROPY=OFF (%s)" % alt)
        return
    exe, log = core.build_harness("C18ur", "asan", sources=[os.path.join(core.ROOT, "props", "C18", "ur_harness.c")] + alt,
                                  extra="-Wl,--wrap=fopen,--wrap=fread,--wrap=fclose")
    if exe is None:
        ctx.violation("urandom:harness-build", "the /dev/urandom gateway does not build into the harness: " + log[-500:], {"kind": "correspondence", "log": log[-3000:]}, False)
        return
    cs = []
    for n in (1, 16, 32, 46, 255, 256, 1000, 4096):
        scripts = ["f", "e", "open", "xEINTR", "xEIO", "xEAGAIN", "s1,f", "s%d,f" % max(1, n - 1), "s%d,s%d,f" % (max(1, n // 2), max(1, n // 4)), "s%d,e" % max(1, n // 2),
                   "s%d,xEINTR,f" % max(1, n // 3), "xEINTR,f", ",".join(["s1"] * min(n, 40)) + ",f", "s%d,s%d,s%d,s%d,f" % ((max(1, n // 5),) * 4)]
        for sc in scripts:
            cs.append(("ur %d %s" % (n, sc), "ur:len=%s:%s" % ("1" if n == 1 else ("<=256" if n <= 256 else ">256"), re.sub(r"\d+", "", sc)[:24])))
    for n in (0, 4097, 100000):
        cs.append(("ur %d f" % n, "ur:guard:len=%d" % n))
    for sc in ("f", "s7,f", "s31,f", "e", "xEINTR", "s16,e", "open", "s1,s1,s1,f"):
        cs.append(("urkey " + sc, "urkey:" + re.sub(r"\d+", "", sc)))
    outs, err = core.run_lines(exe, [c[0] for c in cs], shards=2)
    for (line, cell), o in zip(cs, outs):
        ctx.cov["evaluations"] += 1
        ctx.count("urandom")
        guard = ":guard:" in cell
        if o.startswith("EXACT") and not guard:
            ctx.cell(cell + ":exact")
        elif o.startswith("FAILED"):
            ctx.cell(cell + ":ERR")
        else:
            ctx.violation("urandom:" + ("guard" if guard else line.split()[0]), "the /dev/urandom gateway (%s) %s: `%s` -> %s" % (
                ",".join(os.path.basename(x) for x in alt), "accepts a length outside its guard" if guard else "reports success with bytes the device did not deliver", line, o[:200]),
                {"kind": "failing-input", "op": line, "impl": o, "expected": "FAILED, or EXACT (every byte of the result delivered by the device, in order)", "variant": "asan+rand.c",
                 "stderr": err[-1200:] if o.startswith("FAULT") else ""}, True)
    ctx.notes.append("urandom back end (%s): %d scripted-device cases in %.1fs" % (",".join(os.path.basename(x) for x in alt), len(cs), time.time() - t0))
    return exe


def phase1(ctx):
    r = ctx.rng
    thorough = ctx.tier == "thorough"
    cs = []
    for op in OPS + NOENT:
        nseed = 1 if (op in HEAVY and not thorough) else (2 if not thorough else 4)
        for _ in range(nseed):
            sd = r.below(10**6) + 256
            cs.append(("count %s %d" % (op, sd), "count:" + op))
            if op not in SLOW:
                cs.append(("det %s %d" % (op, sd), "det:" + op))
        for _ in range(1 if op in HEAVY and not thorough else 3):
            a = r.below(10**6) + 256
            cs.append(("fresh %s %d %d" % (op, a, a + 1 + r.below(200)), "fresh:" + op))
        if op in REPEAT:
            n = REPEAT[op] if (thorough or op not in HEAVY) else max(3, REPEAT[op] // 3)
            cs.append(("repeat %s %d %d" % (op, r.below(10**6) + 256, n), "repeat:" + op))
    cs.append(("randguard %d" % r.below(10**6), "randguard"))
    # ---- wave 2: the same context / stream used again after an entropy failure
    sd = lambda: r.below(10**6) + 256
    for pre in ([0, 1, 31, 32, 33, 64] if not thorough else [0, 1, 2, 16, 31, 32, 33, 63, 64, 65]):
        rels = [0] if pre % 32 else list(range(32))           # a one-shot failure at EVERY draw of a pool (re)fill
        for rel in rels:
            cs.append(("recover sm2_sign_ctx %d %d %d 40" % (sd(), pre, rel), "recover:sm2_sign_ctx:pre=%s:%s" % (pre if pre % 32 else "32k", "first" if rel == 0 else ("last" if rel == 31 else "middle"))))
    for pre in (0, 1, 5, 32, 40):                               # re-initialisation of a used context, failing at every draw of its fill
        for rel in (range(32) if pre in (5, 32) or thorough else (0, 1, 30, 31)):
            cs.append(("recover sm2_sign_ctx_reinit %d %d %d 40" % (sd(), pre, rel), "recover:sm2_sign_ctx_reinit:pre=%d:%s" % (pre, "first" if rel == 0 else ("last" if rel == 31 else "middle"))))
    for kind, pres in (("sm2_sign_ctx_fixlen", (0, 1, 31, 32, 33)), ("sm9_sign_ctx", (0, 2))):
        for pre in pres:
            for rel in ((0,) if kind.startswith("sm9") or pre % 32 else (0, 15, 31)):
                cs.append(("recover %s %d %d %d %d" % (kind, sd(), pre, rel, 3 if kind.startswith("sm9") else 40), "recover:%s:pre=%s" % (kind, pre if pre % 32 else "32k")))
    # boundary values of the drawn scalar (first draw of every operation whose first draw is a rejection-sampled scalar)
    for op in RR_FIRST:
        for kindv in ("zero", "n", "nplus", "max", "one", "nminus1", "nminus2"):
            if op in HEAVY and thorough is False and kindv in ("nplus", "nminus2"):
                continue
            cs.append(("bval %s %d %s" % (op, sd(), kindv), "bval:%s:%s" % (op, kindv)))
    for pre in (0, 7, 8, 9):
        for rel in (0, 3, 7):
            cs.append(("recover sm2_enc_ctx %d %d %d 20" % (sd(), pre, rel), "recover:sm2_enc_ctx:pre=%d" % pre))
    for op, rels in (("sm2_sign", [0]), ("sm2_encrypt", [0]), ("sm2_keygen", [0]), ("sm2_ecdhe", [0]), ("tls_cbc", [0]), ("tls_record", [0]), ("tls_random", [0]),
                     ("x509_sign", [0, 16, 32]), ("cms_sign", [0, 1]), ("cms_envelop", [0, 1]), ("sm2_sign_ctx", [0, 31]), ("sm9_sign", [0]), ("sm9_encrypt", [0])):
        for rel in rels:
            cs.append(("recover %s %d %d %d %d" % (op, sd(), 2 if op in HEAVY else 4, rel, 2 if op in HEAVY else 6), "recover:" + op))
    return cs


def run(ctx):
    ctx.check_proofs()
    lib, log = core.build_lib("asan")                        # the translators read the source list from its build.ninja
    if lib is None:
        core.harness_build_failed(ctx, log)
        return ctx.finish(level="proof", rule="library build failed")
    failing = table_part(ctx)
    coverage_part(ctx, ctx._rand_stats)
    witnessed = {}                       # site key -> (op line, observed)
    exe, log = core.build_harness("C18", "asan")
    if exe is None:
        core.harness_build_failed(ctx, log)
    else:
        cs = phase1(ctx)
        t0 = time.time()
        outs, err = core.run_lines(exe, [c[0] for c in cs], shards=4)
        t1 = time.time()
        fails, eints = [], []
        for (line, cell), o in zip(cs, outs):
            ctx.cov["evaluations"] += 1
            kind, op = line.split()[0], line.split()[1]
            ctx.count(kind)
            bad = None
            if kind == "randguard":
                if o == "GUARD ok":
                    ctx.cell("randguard:ok")
                else:
                    ctx.violation("randguard", "rand_bytes length guard: `%s` -> %s" % (line, o[:200]),
                                  {"kind": "failing-input", "op": line, "impl": o, "expected": "GUARD ok", "variant": "asan"}, True)
                continue
            if kind == "bval":
                if o.startswith("OK"):
                    ctx.cell(cell + (":redrawn" if "redrawn" in o else ":accepted"))
                else:
                    ctx.violation("bval:%s" % op, "boundary value `%s` as the first drawn scalar: `%s` -> %s" % (line.split()[3], line, o[:200]),
                                  {"kind": "failing-input", "op": line, "impl": o, "expected": "OK (0 and values >= n are drawn again; 1, n-2 are used; the output verifies)", "variant": "asan",
                                   "stderr": err[-1200:] if o.startswith("FAULT") else ""}, True)
                continue
            if kind == "recover":
                if o.startswith("FRESH"):
                    ctx.cell(cell + (":failed-attempt" if "attempt=-1" in o else ":not-reached"))
                else:
                    what = "reuse" if o.startswith("REUSE") else "broken"
                    ctx.violation("recover-%s:%s" % (what, op), ("an ephemeral value / nonce produced before an entropy failure is produced again after it" if what == "reuse"
                                  else "the context is unusable or produces invalid output after an entropy failure") + ": `%s` -> %s" % (line, o[:200]),
                                  {"kind": "failing-input", "op": line, "impl": o, "expected": "FRESH", "variant": "asan", "stderr": err[-1200:] if o.startswith("FAULT") else ""}, True)
                continue
            if kind == "count":
                m = re.match(r"DRAWS rc=1 draws=(\d+)", o)
                if not m:
                    bad = "operation does not succeed on a healthy stream"
                else:
                    k = int(m.group(1))
                    ctx.cell("count:%s:draws=%s" % (op, "0" if k == 0 else ("1" if k == 1 else ("2-31" if k < 32 else "32+"))))
                    if (k == 0) != (op in NOENT):
                        bad = "draws=%d but the operation is %sexpected to use entropy" % (k, "not " if op in NOENT else "")
                    sd = line.split()[2]
                    idx = list(range(k)) + [-2] if k else []
                    if k and op not in ("sm2_sign_ctx_multi",) and op not in SLOW:
                        heavy = op in HEAVY
                        eidx = [0] if heavy else sorted({0, k // 2, k - 1})
                        for i in eidx:
                            for kk in ((1, 8, 16) if heavy else (1, 2, 7, 8, 9, 16)):
                                for en in (("EINTR", "untouched") if heavy else ("EINTR", "EAGAIN", "EIO", "ENOSYS", "untouched")):
                                    if len([1 for e in eints if e[0].split()[1] == op]) < (6 if heavy else 90):
                                        eints.append(("eint %s %s %d %s %d" % (op, sd, i, en, kk), "eint:%s:%s:k%s" % (op, en, "1" if kk == 1 else ("<=8" if kk <= 8 else ">8"))))
                    for i in idx:
                        fails.append(("fail %s %s %d" % (op, sd, i), "fail:%s:%s" % (op, "all-draws" if i == -2 else ("first" if i == 0 else ("last" if i == k - 1 else "middle")))))
            elif kind == "det":
                if o.startswith("SAME"):
                    ctx.cell(cell + ":same")
                else:
                    bad = "two runs on the same entropy stream and clock differ"
            elif kind == "fresh":
                if o.startswith("DISTINCT"):
                    ctx.cell(cell + ":distinct")
                elif o.startswith("NOEPH") and op in NOENT + ["tls13_padding"]:
                    ctx.cell(cell + ":no-entropy")
                else:
                    bad = "two different entropy streams give the same ephemeral public value"
            elif kind == "repeat":
                if o.startswith("DISTINCT"):
                    ctx.cell(cell + ":distinct")
                    ctx.sample({"op": line, "result": o})
                else:
                    bad = "a nonce / ephemeral value repeats within one stream"
            if bad:
                ctx.violation("%s:%s" % ({"count": "healthy", "det": "det", "fresh": "fresh", "repeat": "reuse"}[kind], op),
                              "%s: `%s` -> %s" % (bad, line, o[:200]),
                              {"kind": "failing-input", "op": line, "impl": o, "expected": {"count": "DRAWS rc=1", "det": "SAME", "fresh": "DISTINCT", "repeat": "DISTINCT"}[kind],
                               "variant": "asan", "stderr": err[-1200:] if o.startswith("FAULT") else ""}, True)
        # ---- phase 2: one run per (operation, draw index) with that draw failing
        outs2, err2 = core.run_lines(exe, [c[0] for c in fails], shards=4)
        t2 = time.time()
        # ---- wave 2: k consecutive failing attempts with a chosen errno, destination poisoned, then the healthy bytes
        outs3, err3 = core.run_lines(exe, [c[0] for c in eints], shards=4)
        ctx.notes.append("errno / repeated-attempt faults: %d runs in %.1fs" % (len(eints), time.time() - t2))
        for (line, cell), o in zip(eints, outs3):
            ctx.cov["evaluations"] += 1
            ctx.count("eint")
            w = line.split()
            if o.startswith("EQUAL"):
                ctx.cell(cell + ":retried")
            elif o.startswith("FAILED"):
                ctx.cell(cell + ":ERR")
            elif o.startswith("NOTREACHED"):
                ctx.cell(cell + ":notreached")
            else:
                ctx.violation("eint:%s:%s" % (w[4], w[1]), "draw %s failed %s time(s) with errno %s and the operation neither failed nor reproduced the healthy output (it used bytes the source never served): `%s` -> %s" % (
                    w[3], w[5], w[4], line, o[:220]),
                    {"kind": "failing-input", "op": line, "impl": o, "expected": "FAILED, or EQUAL to the healthy run", "variant": "asan",
                     "stderr": err3[-1200:] if o.startswith("FAULT") else ""}, True)
        ctx.notes.append("runtime: %d stream cases in %.1fs, %d failure injections in %.1fs" % (len(cs), t1 - t0, len(fails), t2 - t1))
        for (line, cell), o in zip(fails, outs2):
            ctx.cov["evaluations"] += 1
            ctx.count("fail")
            op, i = line.split()[1], int(line.split()[3])
            if o.startswith("FAILCLOSED"):
                ctx.cell(cell + ":ERR")
                continue
            if o.startswith("NOTREACHED"):
                ctx.cell(cell + ":notreached")
                continue
            wit = WITNESS.get(op)
            if wit:
                for k in (wit[1] if i == -2 else wit[0]):
                    witnessed.setdefault(k, (line, o))
                if i == -2:
                    for k in wit[0]:
                        witnessed.setdefault(k, (line, o))
                continue
            ctx.violation("failopen:%s" % op, "entropy failure at draw %s not reported: `%s` -> %s" % ("(all)" if i == -2 else i, line, o[:200]),
                          {"kind": "failing-input", "op": line, "impl": o, "expected": "FAILCLOSED (return value != 1)", "variant": "asan",
                           "stderr": err2[-1200:] if o.startswith("FAULT") else ""}, True)
    ur_exe = urandom_part(ctx)
    if exe is not None:
        import modelcmp
        modelcmp.run(ctx, exe, ur_exe)
    if tlsrun is not None:
        try:
            tlsrun.c18_handshakes(ctx, failing, witnessed)
        except Exception as e:                               # pragma: no cover
            ctx.notes.append("handshake failure injection not run: %r" % (e,))
    else:
        ctx.notes.append("the three handshakes x two roles are not executed here; their call sites are decided by the table only")
    for key, r in failing:
        if not r["used"]:
            text = "%s:%d %s() ignores the status of %s (%s)" % (r["file"], r["line"], r["fn"], r["callee"], r["how"])
        else:
            bad = [v for v in r["fails"] if not any(rand_sites.py_distinguishes(t, v) for t in r["tests"])]
            text = "%s:%d %s() tests the status of %s with %s, which does not tell its failure value(s) %s from success" % (
                r["file"], r["line"], r["fn"], r["callee"], r["tests"], bad)
        hit = witnessed.get(key)
        if hit:
            ctx.violation(key, text + "; observed: `%s` -> %s" % (hit[0], hit[1][:150]),
                          {"kind": "failing-input", "op": hit[0], "impl": hit[1], "expected": "failure reported, nothing emitted", "variant": "asan", "row": r}, True)
        else:
            ctx.violation(key, text, {"kind": "table-row", "theorem_or_file": "all_sites_checked over coq/Gen/RandSitesTable.v", "row": r}, False)
    ctx.assumptions = [
        "the theorems are about the computations of coq/Sys/Rand.v (entropy stream indexed by draw; rand_bytes guard, rand_range, nonzero selection, draw scripts); the SM2/SM9 arithmetic applied to the drawn bytes belongs to C01/C02/C17",
        "freshness (different nonce => different ephemeral public value) is checked at run time only; as a theorem it needs k -> [k]G injective on [1,n-1] (premise ord G = n), not stated here",
        "`status used` is syntactic (the call is not an expression statement, loop/branch body, for-init/inc, comma-lhs or cast to void); a status that is stored and never tested would pass",
        "E is computed from direct calls; calls through function pointers are not followed",
    ]
    return ctx.finish(level="proof",
                      rule="table rows = every call of an entropy-dependent int function, each checked by the Coq predicate site_ok; runtime cells = (kind, operation, class) for count/det/fresh/repeat and (operation, position of the failing draw, ERR) for every draw index",
                      trusted=core.TRUSTED_COMMON + ["translator tools/cast.py, tools/rand_sites.py, tools/tablecheck.py (clang 14 JSON AST); Coq files Sys/Rand.v, Sys/Tables.v, generated Gen/RandSitesTable.v",
                                                     "harness/entropy.h link-time getentropy()/time() replacement; props/C18/sysops.h operation wrappers"])


def replay(path):
    import sysreplay
    return sysreplay.replay(path)
