/* Uniform "operations" over the randomised / secret-handling API surface of the library that is
 * reachable without sockets.  Shared by the C18 (entropy), C19 (diagnostic channels) and C20
 * (concurrency) harnesses.
 *
 *   prepare(ctx, seed)     long-term keys, certificates, messages: deterministic from `seed`
 *                          (drawn from a private splitmix stream + a private entropy stream)
 *   op->run(ctx, out)      the operation under test: its entropy draws come from whatever stream
 *                          the caller installed with ent_seed()/ent_script(); it appends every
 *                          value it produces to `out`, registers the secrets it handled in
 *                          ctx->sec[], stores the ephemeral public value in ctx->eph and returns 1
 *                          on success, <= 0 if the library reported failure.
 */
#ifndef VERIF_SYSOPS_H
#define VERIF_SYSOPS_H
#include "common.h"
#include "entropy.h"
#include <gmssl/sm2.h>
#include <gmssl/sm3.h>
#include <gmssl/sm4.h>
#include <gmssl/sm9.h>
#include <gmssl/sha2.h>
#include <gmssl/digest.h>
#include <gmssl/hmac.h>
#include <gmssl/oid.h>
#include <gmssl/asn1.h>
#include <gmssl/x509.h>
#include <gmssl/cms.h>
#include <gmssl/tls.h>
#include <gmssl/rand.h>
#include <gmssl/block_cipher.h>

#define OB_CAP (1 << 16)
typedef struct { uint8_t *p; size_t n; int overflow; } obuf_t;
static void ob_init(obuf_t *o) { o->p = malloc(OB_CAP); o->n = 0; o->overflow = 0; }
static void ob_free(obuf_t *o) { free(o->p); o->p = NULL; }
static void ob_put(obuf_t *o, const char *tag, const void *d, size_t n) {
	size_t tl = strlen(tag);
	if (o->n + tl + 5 + n > OB_CAP) { o->overflow = 1; return; }
	o->p[o->n++] = (uint8_t)tl; memcpy(o->p + o->n, tag, tl); o->n += tl;
	o->p[o->n++] = (uint8_t)(n >> 24); o->p[o->n++] = (uint8_t)(n >> 16); o->p[o->n++] = (uint8_t)(n >> 8); o->p[o->n++] = (uint8_t)n;
	if (n) memcpy(o->p + o->n, d, n);
	o->n += n;
}

#define MAXSEC 64
typedef struct { char label[28]; uint8_t b[400]; size_t n; } secret_t;

typedef struct {
	uint64_t seed, sm;
	int prepared, prepared9;
	SM2_KEY sm2, peer;
	uint8_t cert[1024]; size_t certlen;          /* self-signed certificate of sm2 */
	uint8_t peercert[1024]; size_t peercertlen;  /* self-signed certificate of peer */
	uint8_t name[256]; size_t namelen;
	SM9_SIGN_MASTER_KEY s9sm; SM9_SIGN_KEY s9sk;
	SM9_ENC_MASTER_KEY s9em; SM9_ENC_KEY s9ekA, s9ekB; SM9_EXCH_KEY s9xkA, s9xkB;
	uint8_t msg[200]; size_t msglen; uint8_t dgst[32];
	uint8_t symkey[16], iv[16], mackey[32], seq[8];
	char pass[24];
	secret_t sec[MAXSEC]; int nsec;
	uint8_t eph[512]; size_t ephlen;
} opctx_t;

static const char *ID_A = "Alice@verif", *ID_B = "Bob@verif";

static uint64_t ctx_next(opctx_t *c) {
	uint64_t z = (c->sm += 0x9E3779B97F4A7C15ULL);
	z = (z ^ (z >> 30)) * 0xBF58476D1CE4E5B9ULL; z = (z ^ (z >> 27)) * 0x94D049BB133111EBULL;
	return z ^ (z >> 31);
}
static void ctx_bytes(opctx_t *c, uint8_t *p, size_t n) { size_t i; for (i = 0; i < n; i++) p[i] = (uint8_t)(ctx_next(c) >> 24); }

static void add_secret(opctx_t *c, const char *label, const void *d, size_t n) {
	int i;
	if (n > sizeof(c->sec[0].b)) n = sizeof(c->sec[0].b);
	for (i = 0; i < c->nsec; i++) if (c->sec[i].n == n && !memcmp(c->sec[i].b, d, n)) return;
	if (c->nsec >= MAXSEC) return;
	snprintf(c->sec[c->nsec].label, sizeof(c->sec[0].label), "%s", label);
	memcpy(c->sec[c->nsec].b, d, n); c->sec[c->nsec].n = n; c->nsec++;
}
static void add_secret_sm2(opctx_t *c, const char *label, const SM2_KEY *k) {
	uint8_t b[32]; char l2[28];
	sm2_z256_to_bytes(k->private_key, b); add_secret(c, label, b, 32);
	snprintf(l2, sizeof l2, "%s-raw", label); add_secret(c, l2, k->private_key, 32);
}
static void set_eph(opctx_t *c, const void *d, size_t n) { if (n > sizeof c->eph) n = sizeof c->eph; memcpy(c->eph, d, n); c->ephlen = n; }

static int make_sm2(opctx_t *c, SM2_KEY *k) {
	uint8_t d[32]; sm2_z256_t x;
	ctx_bytes(c, d, 32); d[0] &= 0x7f; d[31] |= 1;
	sm2_z256_from_bytes(x, d);
	if (sm2_key_set_private_key(k, x) != 1) return -1;
	{ uint8_t pb[64]; sm2_z256_point_to_bytes(&k->public_key, pb); sm2_z256_point_from_bytes(&k->public_key, pb); } /* affine form, as parsed from a certificate */
	return 1;
}
static int make_cert(opctx_t *c, const SM2_KEY *k, const char *cn, uint8_t *out, size_t *outlen) {
	uint8_t serial[12], name[256]; size_t nl = 0; uint8_t *p = out; time_t nb = 1700000000, na;
	ctx_bytes(c, serial, sizeof serial); serial[0] &= 0x7f; serial[0] |= 1;
	if (x509_name_set(name, &nl, sizeof name, "CN", "Beijing", "Haidian", "PKU", "CS", cn) != 1) return -1;
	x509_validity_add_days(&na, nb, 3650);
	*outlen = 0;
	return x509_cert_sign_to_der(X509_version_v3, serial, sizeof serial, OID_sm2sign_with_sm3, name, nl, nb, na, name, nl,
		k, NULL, 0, NULL, 0, NULL, 0, k, SM2_DEFAULT_ID, SM2_DEFAULT_ID_LENGTH, &p, outlen);
}

static int prepare(opctx_t *c, uint64_t seed) {
	ent_state_t saved = ent;
	int ok = 1;
	memset(c, 0, sizeof *c);
	c->seed = seed; c->sm = seed * 0x9E3779B97F4A7C15ULL + 77;
	ent_seed(seed ^ 0x5eed5eed5eedULL, -1);
	ok &= make_sm2(c, &c->sm2) == 1;
	ok &= make_sm2(c, &c->peer) == 1;
	ok &= make_cert(c, &c->sm2, "signer", c->cert, &c->certlen) == 1;
	ok &= make_cert(c, &c->peer, "recipient", c->peercert, &c->peercertlen) == 1;
	ok &= x509_name_set(c->name, &c->namelen, sizeof c->name, "CN", "Beijing", "Haidian", "PKU", "CS", "subject") == 1;
	c->msglen = 17 + (size_t)(ctx_next(c) % 150);
	ctx_bytes(c, c->msg, c->msglen);
	ctx_bytes(c, c->dgst, 32); ctx_bytes(c, c->symkey, 16); ctx_bytes(c, c->iv, 16); ctx_bytes(c, c->mackey, 32);
	ctx_bytes(c, c->seq, 8);
	snprintf(c->pass, sizeof c->pass, "pw-%016llx", (unsigned long long)ctx_next(c));
	c->prepared = ok;
	ent = saved;
	return ok ? 1 : -1;
}
static int prepare9(opctx_t *c) {
	ent_state_t saved = ent;
	int ok = 1;
	if (c->prepared9) return 1;
	ent_seed(c->seed ^ 0x99999999ULL, -1);
	ok &= sm9_sign_master_key_generate(&c->s9sm) == 1;
	ok &= sm9_sign_master_key_extract_key(&c->s9sm, ID_A, strlen(ID_A), &c->s9sk) == 1;
	ok &= sm9_enc_master_key_generate(&c->s9em) == 1;
	ok &= sm9_enc_master_key_extract_key(&c->s9em, ID_A, strlen(ID_A), &c->s9ekA) == 1;
	ok &= sm9_enc_master_key_extract_key(&c->s9em, ID_B, strlen(ID_B), &c->s9ekB) == 1;
	ok &= sm9_exch_master_key_extract_key(&c->s9em, ID_A, strlen(ID_A), &c->s9xkA) == 1;
	ok &= sm9_exch_master_key_extract_key(&c->s9em, ID_B, strlen(ID_B), &c->s9xkB) == 1;
	c->prepared9 = ok;
	ent = saved;
	return ok ? 1 : -1;
}

/* ------------------------------------------------------------------------------- operations */
static int op_sm2_keygen(opctx_t *c, obuf_t *o) {
	SM2_KEY k; uint8_t pub[64];
	memset(&k, 0, sizeof k);
	if (sm2_key_generate(&k) != 1) return -1;
	sm2_z256_point_to_bytes(&k.public_key, pub);
	ob_put(o, "pub", pub, 64); set_eph(c, pub, 64);
	add_secret_sm2(c, "sm2-generated-priv", &k);
	return 1;
}
static int op_sm2_sign(opctx_t *c, obuf_t *o) {
	uint8_t sig[SM2_MAX_SIGNATURE_SIZE]; size_t sl = 0; SM2_SIGNATURE s; const uint8_t *p = sig; size_t l;
	add_secret_sm2(c, "sm2-priv", &c->sm2);
	if (sm2_sign(&c->sm2, c->dgst, sig, &sl) != 1) return -1;
	ob_put(o, "sig", sig, sl);
	l = sl; if (sm2_signature_from_der(&s, &p, &l) == 1) set_eph(c, s.r, 32);
	if (sm2_verify(&c->sm2, c->dgst, sig, sl) != 1) return -2;
	return 1;
}
static int op_sm2_sign_ctx(opctx_t *c, obuf_t *o) {
	SM2_SIGN_CTX *sc = malloc(sizeof *sc); SM2_VERIFY_CTX *vc = malloc(sizeof *vc);
	uint8_t sig[SM2_MAX_SIGNATURE_SIZE]; size_t sl = 0; int r = 1; SM2_SIGNATURE s; const uint8_t *p = sig; size_t l;
	add_secret_sm2(c, "sm2-priv", &c->sm2);
	if (sm2_sign_init(sc, &c->sm2, SM2_DEFAULT_ID, SM2_DEFAULT_ID_LENGTH) != 1
		|| sm2_sign_update(sc, c->msg, c->msglen) != 1
		|| sm2_sign_finish(sc, sig, &sl) != 1) r = -1;
	if (r == 1) {
		ob_put(o, "sig", sig, sl);
		l = sl; if (sm2_signature_from_der(&s, &p, &l) == 1) set_eph(c, s.r, 32);
		if (sm2_verify_init(vc, &c->sm2, SM2_DEFAULT_ID, SM2_DEFAULT_ID_LENGTH) != 1
			|| sm2_verify_update(vc, c->msg, c->msglen) != 1
			|| sm2_verify_finish(vc, sig, sl) != 1) r = -2;
	}
	free(sc); free(vc);
	return r;
}
static int op_sm2_encrypt(opctx_t *c, obuf_t *o) {
	uint8_t ct[SM2_MAX_CIPHERTEXT_SIZE]; size_t cl = 0; uint8_t pt[SM2_MAX_PLAINTEXT_SIZE]; size_t pl = 0;
	add_secret_sm2(c, "sm2-priv", &c->sm2); add_secret(c, "sm2-plaintext", c->msg, c->msglen);
	if (sm2_encrypt(&c->sm2, c->msg, c->msglen, ct, &cl) != 1) return -1;
	ob_put(o, "ct", ct, cl); set_eph(c, ct, cl < 72 ? cl : 72);
	if (sm2_decrypt(&c->sm2, ct, cl, pt, &pl) != 1 || pl != c->msglen || memcmp(pt, c->msg, pl)) return -2;
	return 1;
}
static int op_sm2_ecdhe(opctx_t *c, obuf_t *o) {
	SM2_KEY e; SM2_Z256_POINT P; uint8_t pub[64], sh[64];
	memset(&e, 0, sizeof e);
	if (sm2_key_generate(&e) != 1) return -1;
	if (sm2_do_ecdh(&e, &c->peer.public_key, &P) != 1) return -1;
	sm2_z256_point_to_bytes(&e.public_key, pub); sm2_z256_point_to_bytes(&P, sh);
	ob_put(o, "epub", pub, 64); ob_put(o, "shared", sh, 64); set_eph(c, pub, 64);
	add_secret_sm2(c, "ecdhe-priv", &e); add_secret(c, "ecdhe-shared", sh, 32);
	return 1;
}
static int op_sm9_sign(opctx_t *c, obuf_t *o) {
	SM9_SIGN_CTX sc; uint8_t sig[SM9_SIGNATURE_SIZE + 16]; size_t sl = 0; uint8_t b[65];
	if (prepare9(c) != 1) return -9;
	sm9_z256_to_bytes(c->s9sm.ks, b); add_secret(c, "sm9-ks", b, 32);
	sm9_z256_point_to_uncompressed_octets(&c->s9sk.ds, b); add_secret(c, "sm9-ds", b + 1, 64);
	if (sm9_sign_init(&sc) != 1 || sm9_sign_update(&sc, c->msg, c->msglen) != 1 || sm9_sign_finish(&sc, &c->s9sk, sig, &sl) != 1) return -1;
	ob_put(o, "sig", sig, sl); set_eph(c, sig, sl);
	if (sm9_verify_init(&sc) != 1 || sm9_verify_update(&sc, c->msg, c->msglen) != 1
		|| sm9_verify_finish(&sc, sig, sl, &c->s9sm, ID_A, strlen(ID_A)) != 1) return -2;
	return 1;
}
static int op_sm9_encrypt(opctx_t *c, obuf_t *o) {
	uint8_t ct[SM9_MAX_CIPHERTEXT_SIZE + 32]; size_t cl = 0; uint8_t pt[SM9_MAX_PLAINTEXT_SIZE + 32]; size_t pl = 0; uint8_t b[129];
	if (prepare9(c) != 1) return -9;
	sm9_z256_to_bytes(c->s9em.ke, b); add_secret(c, "sm9-ke", b, 32);
	sm9_z256_twist_point_to_uncompressed_octets(&c->s9ekB.de, b); add_secret(c, "sm9-de", b + 1, 128);
	add_secret(c, "sm9-plaintext", c->msg, c->msglen);
	if (sm9_encrypt(&c->s9em, ID_B, strlen(ID_B), c->msg, c->msglen, ct, &cl) != 1) return -1;
	ob_put(o, "ct", ct, cl); set_eph(c, ct, cl < 80 ? cl : 80);
	if (sm9_decrypt(&c->s9ekB, ID_B, strlen(ID_B), ct, cl, pt, &pl) != 1 || pl != c->msglen || memcmp(pt, c->msg, pl)) return -2;
	return 1;
}
static int op_sm9_exchange(opctx_t *c, obuf_t *o) {
	SM9_Z256_POINT RA, RB; sm9_z256_t rA; uint8_t skA[32], skB[32], b[130];
	if (prepare9(c) != 1) return -9;
	if (sm9_exch_step_1A(&c->s9em, ID_B, strlen(ID_B), &RA, rA) != 1) return -1;
	if (sm9_exch_step_1B(&c->s9em, ID_A, strlen(ID_A), ID_B, strlen(ID_B), &c->s9xkB, &RA, &RB, skB, sizeof skB) != 1) return -1;
	if (sm9_exch_step_2A(&c->s9em, ID_A, strlen(ID_A), ID_B, strlen(ID_B), &c->s9xkA, rA, &RA, &RB, skA, sizeof skA) != 1) return -1;
	sm9_z256_point_to_uncompressed_octets(&RA, b); sm9_z256_point_to_uncompressed_octets(&RB, b + 65);
	ob_put(o, "RA", b, 65); ob_put(o, "RB", b + 65, 65); ob_put(o, "sk", skA, 32); set_eph(c, b, 130);
	add_secret(c, "sm9-exch-sk", skA, 32);
	sm9_z256_to_bytes(rA, b); add_secret(c, "sm9-exch-rA", b, 32);
	if (memcmp(skA, skB, 32)) return -2;
	return 1;
}
static int op_pkcs8(opctx_t *c, obuf_t *o) {
	uint8_t der[1024]; uint8_t *p = der; size_t dl = 0; const uint8_t *cp = der; const uint8_t *attrs; size_t al, l; SM2_KEY k2;
	add_secret_sm2(c, "sm2-priv", &c->sm2); add_secret(c, "password", c->pass, strlen(c->pass));
	if (sm2_private_key_info_encrypt_to_der(&c->sm2, c->pass, &p, &dl) != 1) return -1;
	ob_put(o, "epki", der, dl); set_eph(c, der, dl < 120 ? dl : 120);
	l = dl;
	if (sm2_private_key_info_decrypt_from_der(&k2, &attrs, &al, c->pass, &cp, &l) != 1 || memcmp(k2.private_key, c->sm2.private_key, 32)) return -2;
	return 1;
}
static int op_pkcs8_wrongpass(opctx_t *c, obuf_t *o) {   /* induced-failure path of "PKCS#8 open" */
	uint8_t der[1024]; uint8_t *p = der; size_t dl = 0; const uint8_t *cp = der; const uint8_t *attrs; size_t al, l; SM2_KEY k2;
	add_secret_sm2(c, "sm2-priv", &c->sm2); add_secret(c, "password", c->pass, strlen(c->pass));
	if (sm2_private_key_info_encrypt_to_der(&c->sm2, c->pass, &p, &dl) != 1) return -1;
	l = dl;
	if (sm2_private_key_info_decrypt_from_der(&k2, &attrs, &al, "not-the-password", &cp, &l) == 1) { ob_put(o, "opened", "1", 1); return -2; }
	ob_put(o, "rejected", "1", 1);
	return 1;
}
static int op_x509_sign(opctx_t *c, obuf_t *o) {
	uint8_t cert[1024]; uint8_t *p = cert; size_t cl = 0; uint8_t serial[8] = {1, 2, 3, 4, 5, 6, 7, 8}; time_t na;
	add_secret_sm2(c, "sm2-priv", &c->sm2);
	x509_validity_add_days(&na, 1700000000, 365);
	if (x509_cert_sign_to_der(X509_version_v3, serial, sizeof serial, OID_sm2sign_with_sm3, c->name, c->namelen, 1700000000, na,
		c->name, c->namelen, &c->sm2, NULL, 0, NULL, 0, NULL, 0, &c->sm2, SM2_DEFAULT_ID, SM2_DEFAULT_ID_LENGTH, &p, &cl) != 1) return -1;
	ob_put(o, "cert", cert, cl); set_eph(c, cert + (cl > 72 ? cl - 72 : 0), cl > 72 ? 72 : cl);
	if (x509_cert_verify_by_ca_cert(cert, cl, cert, cl, SM2_DEFAULT_ID, SM2_DEFAULT_ID_LENGTH) != 1) return -2;
	return 1;
}
static int op_cms_sign(opctx_t *c, obuf_t *o) {
	uint8_t *cms = malloc(8192); size_t cl = 0; CMS_CERTS_AND_KEY sg; int r = 1;
	int ct; const uint8_t *content, *certs, *crls, *sis; size_t contentlen, certslen, crlslen, sislen;
	add_secret_sm2(c, "sm2-priv", &c->sm2);
	sg.certs = c->cert; sg.certs_len = c->certlen; sg.sign_key = &c->sm2;
	if (cms_sign(cms, &cl, &sg, 1, OID_cms_data, c->msg, c->msglen, NULL, 0) != 1) r = -1;
	if (r == 1) {
		ob_put(o, "cms", cms, cl); set_eph(c, cms + (cl > 72 ? cl - 72 : 0), cl > 72 ? 72 : cl);
		if (cms_verify(cms, cl, NULL, 0, NULL, 0, &ct, &content, &contentlen, &certs, &certslen, &crls, &crlslen, &sis, &sislen) != 1
			|| contentlen < c->msglen || memcmp(content + contentlen - c->msglen, c->msg, c->msglen)) r = -2;  /* content = the OCTET STRING TLV of the data */
	}
	free(cms);
	return r;
}
static int op_cms_envelop(opctx_t *c, obuf_t *o) {
	uint8_t *cms = malloc(8192); size_t cl = 0; int r = 1; int ct; uint8_t content[512]; size_t contentlen = 0;
	const uint8_t *ri, *s1, *s2; size_t ril, s1l, s2l;
	add_secret_sm2(c, "peer-priv", &c->peer); add_secret(c, "cms-content", c->msg, c->msglen); add_secret(c, "cms-cek", c->symkey, 16);
	if (cms_envelop(cms, &cl, c->peercert, c->peercertlen, OID_sm4_cbc, c->symkey, 16, c->iv, 16, OID_cms_data, c->msg, c->msglen, NULL, 0, NULL, 0) != 1) r = -1;
	if (r == 1) {
		ob_put(o, "cms", cms, cl); set_eph(c, cms, cl < 400 ? cl : 400);
		if (cms_deenvelop(cms, cl, &c->peer, c->peercert, c->peercertlen, &ct, content, &contentlen, &ri, &ril, &s1, &s1l, &s2, &s2l) != 1
			|| contentlen != c->msglen || memcmp(content, c->msg, contentlen)) r = -2;
	}
	free(cms);
	return r;
}
static int op_cms_encrypt(opctx_t *c, obuf_t *o) {      /* no entropy: key and IV are arguments */
	uint8_t *cms = malloc(8192); size_t cl = 0; int r = 1; int alg, ct; uint8_t content[512]; size_t contentlen = 0;
	const uint8_t *s1, *s2; size_t s1l, s2l;
	add_secret(c, "cms-content", c->msg, c->msglen); add_secret(c, "cms-key", c->symkey, 16);
	if (cms_encrypt(cms, &cl, OID_sm4_cbc, c->symkey, 16, c->iv, 16, OID_cms_data, c->msg, c->msglen, NULL, 0, NULL, 0) != 1) r = -1;
	if (r == 1) {
		ob_put(o, "cms", cms, cl); set_eph(c, cms, 0);
		if (cms_decrypt(cms, cl, &alg, c->symkey, 16, &ct, content, &contentlen, &s1, &s1l, &s2, &s2l) != 1
			|| contentlen != c->msglen || memcmp(content, c->msg, contentlen)) r = -2;
	}
	free(cms);
	return r;
}
static int op_tls_cbc(opctx_t *c, obuf_t *o) {
	SM3_HMAC_CTX h; SM4_KEY ek, dk; uint8_t hdr[5] = {23, 1, 1, 0, 0}; uint8_t out[512], pt[512]; size_t ol = 0, pl = 0;
	add_secret(c, "tls-enc-key", c->symkey, 16); add_secret(c, "tls-mac-key", c->mackey, 32); add_secret(c, "tls-plaintext", c->msg, c->msglen);
	sm3_hmac_init(&h, c->mackey, 32); sm4_set_encrypt_key(&ek, c->symkey); sm4_set_decrypt_key(&dk, c->symkey);
	hdr[3] = (uint8_t)(c->msglen >> 8); hdr[4] = (uint8_t)c->msglen;
	if (tls_cbc_encrypt(&h, &ek, c->seq, hdr, c->msg, c->msglen, out, &ol) != 1) return -1;
	ob_put(o, "rec", out, ol); set_eph(c, out, 16);
	hdr[3] = (uint8_t)(ol >> 8); hdr[4] = (uint8_t)ol;
	if (tls_cbc_decrypt(&h, &dk, c->seq, hdr, out, ol, pt, &pl) != 1 || pl != c->msglen || memcmp(pt, c->msg, pl)) return -2;
	return 1;
}
static int op_tls_cbc_badmac(opctx_t *c, obuf_t *o) {   /* induced-failure path of "record receive" */
	SM3_HMAC_CTX h; SM4_KEY ek, dk; uint8_t hdr[5] = {23, 1, 1, 0, 0}; uint8_t out[512], pt[512]; size_t ol = 0, pl = 0;
	add_secret(c, "tls-enc-key", c->symkey, 16); add_secret(c, "tls-mac-key", c->mackey, 32); add_secret(c, "tls-plaintext", c->msg, c->msglen);
	sm3_hmac_init(&h, c->mackey, 32); sm4_set_encrypt_key(&ek, c->symkey); sm4_set_decrypt_key(&dk, c->symkey);
	hdr[3] = (uint8_t)(c->msglen >> 8); hdr[4] = (uint8_t)c->msglen;
	if (tls_cbc_encrypt(&h, &ek, c->seq, hdr, c->msg, c->msglen, out, &ol) != 1) return -1;
	out[20] ^= 0x40;                                          /* flips a plaintext bit: padding stays valid, MAC must fail */
	hdr[3] = (uint8_t)(ol >> 8); hdr[4] = (uint8_t)ol;
	if (tls_cbc_decrypt(&h, &dk, c->seq, hdr, out, ol, pt, &pl) == 1) { ob_put(o, "accepted", "1", 1); return -2; }
	ob_put(o, "rejected", "1", 1);
	return 1;
}
static int op_tls_record(opctx_t *c, obuf_t *o) {
	SM3_HMAC_CTX h; SM4_KEY ek, dk; uint8_t rec[600], out[700], pt[700]; size_t ol = 0, pl = 0;
	add_secret(c, "tls-enc-key", c->symkey, 16); add_secret(c, "tls-mac-key", c->mackey, 32); add_secret(c, "tls-plaintext", c->msg, c->msglen);
	sm3_hmac_init(&h, c->mackey, 32); sm4_set_encrypt_key(&ek, c->symkey); sm4_set_decrypt_key(&dk, c->symkey);
	rec[0] = 23; rec[1] = 1; rec[2] = 1; rec[3] = (uint8_t)(c->msglen >> 8); rec[4] = (uint8_t)c->msglen; memcpy(rec + 5, c->msg, c->msglen);
	if (tls_record_encrypt(&h, &ek, c->seq, rec, 5 + c->msglen, out, &ol) != 1) return -1;
	ob_put(o, "rec", out, ol); set_eph(c, out + 5, 16);
	if (tls_record_decrypt(&h, &dk, c->seq, out, ol, pt, &pl) != 1 || pl != 5 + c->msglen || memcmp(pt + 5, c->msg, c->msglen)) return -2;
	return 1;
}
static int op_tls_random(opctx_t *c, obuf_t *o) {
	uint8_t r[32]; memset(r, 0, sizeof r);
	if (tls_random_generate(r) != 1) return -1;
	ob_put(o, "random", r, 32); set_eph(c, r, 32);
	return 1;
}
static int op_tls_pms(opctx_t *c, obuf_t *o) {
	uint8_t pms[48]; memset(pms, 0, sizeof pms);
	if (tls_pre_master_secret_generate(pms, TLS_protocol_tlcp) != 1) return -1;
	ob_put(o, "pms", pms, 48); set_eph(c, pms, 48); add_secret(c, "pre-master-secret", pms + 2, 46);
	return 1;
}
static int op_tls13_gcm(opctx_t *c, obuf_t *o) {        /* no entropy: nonce = iv xor seq */
	BLOCK_CIPHER_KEY k; uint8_t out[512], pt[512]; size_t ol = 0, pl = 0; int rt = 0;
	add_secret(c, "tls13-key", c->symkey, 16); add_secret(c, "tls13-iv", c->iv, 12); add_secret(c, "tls13-plaintext", c->msg, c->msglen);
	if (block_cipher_set_encrypt_key(&k, BLOCK_CIPHER_sm4(), c->symkey) != 1) return -1;
	if (tls13_gcm_encrypt(&k, c->iv, c->seq, 23, c->msg, c->msglen, 3, out, &ol) != 1) return -1;
	ob_put(o, "rec", out, ol); set_eph(c, out, 0);
	if (tls13_gcm_decrypt(&k, c->iv, c->seq, out, ol, &rt, pt, &pl) != 1 || rt != 23 || pl != c->msglen || memcmp(pt, c->msg, pl)) return -2;
	return 1;
}
/* deterministic primitives for the concurrency workload */
static int op_hashes(opctx_t *c, obuf_t *o) {
	const char *algs[] = {"sm3", "sha256", "sha512"}; size_t i; DIGEST_CTX dc; uint8_t d[64]; size_t dl; uint8_t mac[32];
	for (i = 0; i < 3; i++) {
		const DIGEST *dg = digest_from_name(algs[i]);
		if (!dg || digest_init(&dc, dg) != 1 || digest_update(&dc, c->msg, c->msglen) != 1 || digest_update(&dc, c->cert, c->certlen) != 1
			|| digest_finish(&dc, d, &dl) != 1) return -1;
		ob_put(o, algs[i], d, dl);
	}
	{ SM3_HMAC_CTX h; sm3_hmac_init(&h, c->mackey, 32); sm3_hmac_update(&h, c->msg, c->msglen); sm3_hmac_finish(&h, mac); } ob_put(o, "hmac", mac, 32);
	return 1;
}
static int op_sm4_modes(opctx_t *c, obuf_t *o) {
	SM4_KEY ek, dk; uint8_t iv[16], out[256], back[256], tag[16]; size_t ol = 0, bl = 0;
	sm4_set_encrypt_key(&ek, c->symkey); sm4_set_decrypt_key(&dk, c->symkey);
	memcpy(iv, c->iv, 16);
	if (sm4_cbc_padding_encrypt(&ek, iv, c->msg, c->msglen, out, &ol) != 1) return -1;
	ob_put(o, "cbc", out, ol);
	memcpy(iv, c->iv, 16);
	if (sm4_cbc_padding_decrypt(&dk, iv, out, ol, back, &bl) != 1 || bl != c->msglen || memcmp(back, c->msg, bl)) return -2;
	memcpy(iv, c->iv, 16);
	sm4_ctr_encrypt(&ek, iv, c->msg, c->msglen, out); ob_put(o, "ctr", out, c->msglen);
	if (sm4_gcm_encrypt(&ek, c->iv, 12, c->mackey, 20, c->msg, c->msglen, out, 16, tag) != 1) return -1;
	ob_put(o, "gcm", out, c->msglen); ob_put(o, "tag", tag, 16);
	if (sm4_gcm_decrypt(&ek, c->iv, 12, c->mackey, 20, out, c->msglen, tag, 16, back) != 1 || memcmp(back, c->msg, c->msglen)) return -2;
	return 1;
}
static int op_x509_parse(opctx_t *c, obuf_t *o) {
	int ver, ialg, salg; const uint8_t *serial, *issuer, *subject, *iu, *su, *exts, *sig; size_t sl, il, subl, iul, sul, el, sigl;
	time_t nb, na; SM2_KEY pk; uint8_t pub[64]; int tag; const uint8_t *cn; size_t cnl;
	if (x509_cert_get_details(c->cert, c->certlen, &ver, &serial, &sl, &ialg, &issuer, &il, &nb, &na, &subject, &subl, &pk,
		&iu, &iul, &su, &sul, &exts, &el, &salg, &sig, &sigl) != 1) return -1;
	sm2_z256_point_to_bytes(&pk.public_key, pub);
	ob_put(o, "serial", serial, sl); ob_put(o, "issuer", issuer, il); ob_put(o, "pub", pub, 64); ob_put(o, "sig", sig, sigl);
	if (x509_name_get_common_name(subject, subl, &tag, &cn, &cnl) != 1) return -1;
	ob_put(o, "cn", cn, cnl);
	if (x509_cert_verify_by_ca_cert(c->cert, c->certlen, c->cert, c->certlen, SM2_DEFAULT_ID, SM2_DEFAULT_ID_LENGTH) != 1) return -2;
	return 1;
}

typedef struct { const char *name; int (*run)(opctx_t *, obuf_t *); int randomised; int heavy; } sysop_t;
static const sysop_t SYSOPS[] = {
	{"sm2_keygen", op_sm2_keygen, 1, 0}, {"sm2_sign", op_sm2_sign, 1, 0}, {"sm2_sign_ctx", op_sm2_sign_ctx, 1, 0},
	{"sm2_encrypt", op_sm2_encrypt, 1, 0}, {"sm2_ecdhe", op_sm2_ecdhe, 1, 0},
	{"sm9_sign", op_sm9_sign, 1, 1}, {"sm9_encrypt", op_sm9_encrypt, 1, 1}, {"sm9_exchange", op_sm9_exchange, 1, 1},
	{"pkcs8", op_pkcs8, 1, 1}, {"pkcs8_wrongpass", op_pkcs8_wrongpass, 1, 1},
	{"x509_sign", op_x509_sign, 1, 0}, {"cms_sign", op_cms_sign, 1, 0}, {"cms_envelop", op_cms_envelop, 1, 0},
	{"cms_encrypt", op_cms_encrypt, 0, 0},
	{"tls_cbc", op_tls_cbc, 1, 0}, {"tls_cbc_badmac", op_tls_cbc_badmac, 1, 0}, {"tls_record", op_tls_record, 1, 0},
	{"tls_random", op_tls_random, 1, 0}, {"tls_pms", op_tls_pms, 1, 0}, {"tls13_gcm", op_tls13_gcm, 0, 0},
	{"hashes", op_hashes, 0, 0}, {"sm4_modes", op_sm4_modes, 0, 0}, {"x509_parse", op_x509_parse, 0, 0},
};
#define NSYSOPS (sizeof(SYSOPS) / sizeof(SYSOPS[0]))
static const sysop_t *find_op(const char *n) { size_t i; for (i = 0; i < NSYSOPS; i++) if (!strcmp(SYSOPS[i].name, n)) return &SYSOPS[i]; return NULL; }
#endif
