"""In-process handshakes (props/C18/hs_harness.c: client and server are forked children of the harness,
socketpair) shared by C18 (entropy failure at every draw of either role) and C19 (fd 1/2 capture)."""
import os, re, subprocess, time
from vlib import core

PROTOS = ["tlcp", "tls12", "tls13"]
# which functions a leak observed under a given treatment may come from (used to hand the observation to a failing table row as its input)
LEAK_FUNCS = {"badheader2": {"tls_record_recv", "tls_decrypt_recv", "tls_recv", "tls13_recv", "tls13_do_recv"}, "badheader": {"tls_record_recv", "tls_decrypt_recv", "tls_recv", "tls13_recv", "tls13_do_recv", "tls12_record_recv", "tlcp_record_recv"},
              "alert": {"tls_record_recv", "tls_decrypt_recv", "tls_recv", "tls13_recv", "tls13_do_recv", "tls_send_alert"},
              "badpms": {"tlcp_do_accept", "tlcp_do_connect"},
              "pay": {"tls_send", "tls_recv", "tls_encrypt_send", "tls_decrypt_recv", "tls13_send", "tls13_recv", "tls13_do_recv", "tls_cbc_encrypt", "tls_cbc_decrypt",
                      "tls13_gcm_encrypt", "tls13_gcm_decrypt", "tls_record_encrypt", "tls_record_decrypt"}}
HINTS = {}
C19_SITE = {("tls12", "client"): "site:tls12.c:tls12_do_connect:tls_secrets_print",
            ("tls12", "server"): "site:tls12.c:tls12_do_accept:tls_secrets_print"}


def build():
    d = os.path.join(core.ROOT, "props", "C18")
    return core.build_harness("C18hs", "asan", sources=[os.path.join(d, "hs_harness.c")], extra="-I%s -no-pie -Wl,--wrap=tls_pre_master_secret_generate" % d)


def parse(o):
    """'HS client rc=.. ... | server rc=..' -> {'client': {...}, 'server': {...}} or None"""
    if not o.startswith("HS "):
        return None
    res = {}
    for part in o[3:].split(" | "):
        w = part.split()
        d = {"role": w[0]}
        for kv in w[1:]:
            k, _, v = kv.partition("=")
            d[k] = v
        for k in ("rc", "app", "draws", "sent", "after", "cap", "ivs", "ivdup", "sendfail", "hsdraws", "apperr", "shut"):
            d[k] = int(d.get(k, "0"))
        res[w[0]] = d
    return res if "client" in res and "server" in res else None


def symbolise(exe, bt):
    """return-address list -> [(function, file, line)] innermost first, inlined frames expanded"""
    if not bt or bt == "-":
        return []
    addrs = ["%x" % (int(a, 16) - 1) for a in bt.split(",") if int(a, 16) < 0x10000000]       # harness image only (-no-pie)
    if not addrs:
        return []
    out = subprocess.run(["addr2line", "-f", "-i", "-e", exe] + addrs, stdout=subprocess.PIPE).stdout.decode().split("\n")
    frames = []
    for i in range(0, len(out) - 1, 2):
        m = re.match(r"(.*?):(\d+)", out[i + 1])
        frames.append((out[i], os.path.basename(m.group(1)) if m else "?", int(m.group(2)) if m else 0))
    return frames


def c18_handshakes(ctx, failing, witnessed):
    exe, log = build()
    if exe is None:
        ctx.notes.append("handshake harness does not build: " + log[-300:])
        ctx.violation("hs:harness-build", "handshake harness does not build against the current tree: " + log[-500:], {"kind": "correspondence", "log": log[-3000:]}, False)
        return
    t0 = time.time()
    modes = [(p, a) for p in PROTOS for a in (" shut", " auth shut")]   # without / with client authentication; data both ways, then close_notify
    seeds = {m: 256 * (1 + ctx.rng.below(4000)) + ctx.rng.below(200) for m in modes}
    base, _ = core.run_lines(exe, ["hs %s %d -1 -1%s" % (m[0], seeds[m], m[1]) for m in modes], shards=4)
    cases = []
    for m, o in zip(modes, base):
        p = m[0] + ("+clientauth" if "auth" in m[1] else "")
        ctx.cov["evaluations"] += 1
        r = parse(o)
        if not r or any(r[x]["rc"] != 1 or r[x]["app"] != 1 or r[x]["shut"] != 1 for x in ("client", "server")):
            ctx.violation("hs:healthy:" + p, "handshake does not complete on healthy entropy streams: `hs %s %d -1 -1%s` -> %s" % (m[0], seeds[m], m[1], o[:300]),
                          {"kind": "failing-input", "op": "hs %s %d -1 -1%s" % (m[0], seeds[m], m[1]), "impl": o, "expected": "rc=1 app=1 on both roles", "variant": "asan"}, True)
            continue
        ctx.cell("hs:%s:healthy" % p)
        for role in ("client", "server"):
            for i in range(r[role]["draws"]):
                cases.append((p, role, i, "hs %s %d %s%s" % (m[0], seeds[m], ("%d -1" % i) if role == "client" else ("-1 %d" % i), m[1])))
    # ---- wave 2: k consecutive failing attempts with a chosen errno at a draw (then the healthy bytes), and the
    #      application phase with an IV draw failing in the middle
    ecases, acases = [], []
    for m, o in zip(modes, base):
        r = parse(o)
        if not r or any(r[x]["rc"] != 1 for x in ("client", "server")):
            continue
        if "auth" in m[1] and m[0] != "tls13" and ctx.tier != "thorough":
            continue
        p = m[0] + ("+clientauth" if "auth" in m[1] else "")
        for role in ("client", "server"):
            d = r[role]["hsdraws"]
            idx = sorted({0, d - 1}) if ctx.tier != "thorough" else sorted({0, 1, d // 2, d - 1})
            for i in idx:
                for k in ((1, 8, 16) if ctx.tier != "thorough" else (1, 2, 7, 8, 9, 16)):
                    for en in (("EINTR", "untouched") if ctx.tier != "thorough" else ("EINTR", "EAGAIN", "EIO", "ENOSYS", "untouched")):
                        ecases.append((p, role, i, k, en, r[role]["sentdg"],
                                       "hs %s %d %s%s k=%d:%s" % (m[0], seeds[m], ("%d -1" % i) if role == "client" else ("-1 %d" % i), m[1], k, en)))
        if m[0] != "tls13":
            acases.append((p, "hs %s %d -1 -1%s app=9" % (m[0], seeds[m], m[1].replace(" shut", ""))))
    eouts, _ = core.run_lines(exe, [c[6] for c in ecases] + [c[1] for c in acases], shards=4)
    for (p, role, i, k, en, dg, line), o in zip(ecases, eouts):
        ctx.cov["evaluations"] += 1
        ctx.count("hs-eint")
        r = parse(o)
        me = r[role] if r else None
        if me is None or me["rc"] == -99:
            ctx.violation("eint:hs:%s:%s" % (p, role), "%s dies when draw %d fails %d time(s) with errno %s: `%s` -> %s" % (role, i, k, en, line, o[:200]),
                          {"kind": "failing-input", "op": line, "impl": o, "expected": "reported failure, or the healthy handshake", "variant": "asan"}, True)
        elif me["rc"] != 1:
            ctx.cell("hs-eint:%s:%s:%s:k%s:ERR" % (p, role, en, "1" if k == 1 else ("<=8" if k <= 8 else ">8")))
        elif me["app"] == 1 and me["sentdg"] == dg:
            ctx.cell("hs-eint:%s:%s:%s:k%s:retried" % (p, role, en, "1" if k == 1 else ("<=8" if k <= 8 else ">8")))
        else:
            ctx.violation("eint:hs:%s:%s" % (p, role), "%s completes the handshake with bytes the entropy source never served (draw %d failed %d time(s), errno %s; sent digest %s, healthy %s): `%s`" % (
                role, i, k, en, me["sentdg"], dg, line),
                {"kind": "failing-input", "op": line, "impl": o, "expected": "rc != 1, or exactly the bytes of the healthy handshake", "variant": "asan"}, True)
    for (p, line), o in zip(acases, eouts[len(ecases):]):
        ctx.cov["evaluations"] += 1
        ctx.count("hs-app")
        r = parse(o)
        me = r["client"] if r else None
        if me is None or me["rc"] != 1:
            ctx.violation("recover-broken:hs:" + p, "application phase not reached: `%s` -> %s" % (line, o[:200]),
                          {"kind": "failing-input", "op": line, "impl": o, "expected": "handshake completes", "variant": "asan"}, True)
        elif int(me["ivdup"]) != 0 or int(me["ivs"]) < 7 or int(me["sendfail"]) > 1:
            ctx.violation("recover-reuse:hs:" + p, "record IVs of one connection around a failed IV draw: ivs=%s ivdup=%s (1 = repeated, 2 = unfilled buffer) sendfail=%s: `%s`" % (
                me["ivs"], me["ivdup"], me["sendfail"], line),
                {"kind": "failing-input", "op": line, "impl": o, "expected": "9 sends, exactly one reported failure, 8 pairwise distinct IVs from the source", "variant": "asan"}, True)
        else:
            ctx.cell("hs-app:%s:ivs-distinct:sendfail=%s" % (p, me["sendfail"]))
    outs, err = core.run_lines(exe, [c[3] for c in cases], shards=4)
    unchecked = {(r["fn"], r["line"]): key for key, r in failing}
    nopen = 0
    for (p, role, i, line), o in zip(cases, outs):
        ctx.cov["evaluations"] += 1
        ctx.count("hs-fail")
        r = parse(o)
        if not r:
            ctx.violation("hs:fault:%s:%s" % (p, role), "handshake harness died on `%s`: %s" % (line, o[:200]),
                          {"kind": "failing-input", "op": line, "impl": o, "expected": "HS ...", "variant": "asan", "stderr": err[-1500:]}, True)
            continue
        me = r[role]
        if i >= me["hsdraws"] and me["rc"] == 1:
            # the failing draw belongs to the application phase (tls_send / tls_shutdown): that call must report it
            if me["apperr"] >= 1:
                ctx.cell("hs:%s:%s:app-phase:ERR" % (p, role))
            else:
                ctx.violation("failopen:hs:%s:%s:app" % (p, role), "%s: entropy draw %d (application phase: tls_send / tls_shutdown) failed and no call reported it: `%s` -> %s" % (
                    role, i, line, o[:260]), {"kind": "failing-input", "op": line, "impl": o, "expected": "tls_send or tls_shutdown returns failure", "variant": "asan"}, True)
            continue
        frames = symbolise(exe, me.get("bt", "-"))
        sites = [unchecked[(fn, ln)] for (fn, f, ln) in frames if (fn, ln) in unchecked]
        # also accept a one-line offset (return address - 1 may fall on the previous source line of a wrapped call)
        sites += [unchecked[(fn, ln + d)] for (fn, f, ln) in frames for d in (-1, 1) if (fn, ln + d) in unchecked and (fn, ln) not in unchecked]
        completed, crashed, emitted = me["rc"] == 1, me["rc"] == -99, me["after"] > 0
        pos = "first" if i == 0 else "later"
        if not (completed or crashed) and not (emitted and sites):
            # reported failure; with every frame of the failing stack checking its callee, what is still sent is the alert
            ctx.cell("hs:%s:%s:%s:ERR" % (p, role, pos))
            continue
        what = "completes (rc=1, app=%d)" % me["app"] if completed else ("dies (exit %d)" % me["app"] if crashed else "fails later but first sends %d more bytes" % me["after"])
        nopen += 1
        if sites:
            for k in sites:
                witnessed.setdefault(k, (line, "%s %s after its entropy draw %d failed; stack: %s" % (role, what, i, " <- ".join(fr[0] for fr in frames[1:6]))))
        else:
            ctx.violation("failopen:hs:%s:%s" % (p, role), "%s %s although its entropy draw %d failed (`%s`); stack: %s" % (
                role, what, i, line, " <- ".join("%s:%d" % (fr[0], fr[2]) for fr in frames[1:7])),
                {"kind": "failing-input", "op": line, "impl": o, "expected": "the role reports failure and sends nothing that depends on the missing randomness", "variant": "asan"}, True)
    ctx.notes.append("handshakes: 3 protocols x 2 roles x {no client auth, client auth}, %d failure injections (one per draw index), %d not fail-closed, %.1fs" % (len(cases), nopen, time.time() - t0))


def c19_handshakes(ctx, leaks):
    exe, log = build()
    if exe is None:
        ctx.notes.append("handshake harness does not build: " + log[-300:])
        return
    t0 = time.time()
    lines = []
    for p in PROTOS:
        for _ in range(2):
            lines.append((p, "hs %s %d -1 -1" % (p, 256 * (1 + ctx.rng.below(4000)) + ctx.rng.below(200))))
        sd = 256 * (1 + ctx.rng.below(4000))
        lines.append((p, "hs %s %d 1 -1" % (p, sd)))          # induced failure paths: a later client / server draw fails
        lines.append((p, "hs %s %d -1 2" % (p, sd)))
    # ---- rejected / unusual inputs on a LIVE connection (keys and the last plaintext are in memory): 5 bytes of a bad record header,
    #      a fatal alert, a PreMasterSecret with the wrong version (TLCP), payloads around and above every printer's internal thresholds
    for p in PROTOS:
        sd = 256 * (1 + ctx.rng.below(4000))
        for tm in ("badheader", "badheader2", "alert"):
            lines.append((p, "hs %s %d -1 -1 tamper=%s" % (p, sd + ctx.rng.below(200), tm)))
        for n in ((63, 65, 257, 16384) if ctx.tier != "thorough" else (1, 63, 64, 65, 255, 256, 257, 1024, 4096, 16383, 16384)):
            lines.append((p, "hs %s %d -1 -1 shut pay=%d" % (p, sd + ctx.rng.below(200), n)))
    lines.append(("tlcp", "hs tlcp %d -1 -1 tamper=badpms" % (256 * (1 + ctx.rng.below(4000)))))
    lines.append(("tlcp", "hs tlcp %d -1 -1 tamper=badpms auth" % (256 * (1 + ctx.rng.below(4000)))))
    outs, err = core.run_lines(exe, [l[1] for l in lines], shards=4)
    for (p, line), o in zip(lines, outs):
        ctx.cov["evaluations"] += 1
        ctx.count("op:handshake-" + p)
        r = parse(o)
        if not r:
            ctx.notes.append("handshake capture: `%s` -> %s" % (line, o[:120]))
            continue
        mt = re.search(r"tamper=(\w+)", line)
        mp = re.search(r"pay=(\d+)", line)
        path = ("rejected-" + mt.group(1)) if mt else (("payload-%s" % ("<=64" if int(mp.group(1)) <= 64 else ("<=256" if int(mp.group(1)) <= 256 else ">256"))) if mp else ("success" if line.endswith("-1 -1") else "induced-failure"))
        for role in ("client", "server"):
            me = r[role]
            if me["leak"] != "none":
                key = C19_SITE.get((p, role), "leak:hs:%s:%s:%s" % (p, role, me["leak"].split(":")[0]))
                leaks.setdefault(key, (line, "%s role: LEAK secret=%s captured=%d bytes on fd 1/2" % (role, me["leak"], me["cap"])))
                HINTS[key] = LEAK_FUNCS.get(mt.group(1) if mt else ("pay" if mp else ""), set()) | {"%s_do_%s" % (p, "connect" if role == "client" else "accept")}
            elif me["rc"] != -99:
                ctx.cell("diag:handshake-%s:%s:%s:%s" % (p, role, path, "ok" if me["rc"] == 1 else "ERR"))
    ctx.notes.append("handshake capture: %d runs (3 protocols x 2 roles, success and induced-failure paths) in %.1fs" % (len(lines), time.time() - t0))
