/* In-process handshakes for C18 (entropy failure at every draw of either role) and C19 (capture of
 * fds 1/2 of each role): client and server are two forked children of the harness, connected by a
 * socketpair; each role has its own scripted entropy stream, its own stdout/stderr capture and
 * reports   rc (handshake), app (application data round trip), draws, bytes sent, bytes sent after
 * the failing draw, the call stack of the failing draw, and whether a secret it holds (master
 * secret, key block, TLS 1.3 IVs, long-term private keys) appeared on its fd 1/2.
 *
 *   hs <tlcp|tls12|tls13> <seed> <client-failat> <server-failat> [auth] [shut] [k=<n>:<errno>] [app=<n>] [tamper=<badheader|alert|badpms>] [pay=<bytes>]
 *        auth: the server requests a client certificate;  k=n:E: instead of one plain failure, n attempts at that draw fail with errno E
 *        (destination poisoned) and then the source serves the healthy bytes;  app=n: after the handshake the client sends n records,
 *        the IV draw of record n/2 fails once: all explicit IVs on the wire must be pairwise distinct and none poison
 *     -> HS client rc=.. app=.. draws=.. sent=.. after=.. leak=<none|label:enc> cap=<bytes> bt=<a,b,..> | server rc=.. ...
 */
#include "entwrap.h"                             /* scripted source + errno / repeated-attempt faults + poison + failure hook */
#include "sysops.h"
#include <gmssl/x509_ext.h>
#include <sys/socket.h>
#include <sys/wait.h>
#include <sys/time.h>
#include <fcntl.h>
#include <execinfo.h>
#include <signal.h>

/* ---- socket write interposition: count and digest what a role sends, what it sends after the failing draw,
 *      and (application phase, CBC suites) the explicit IV of every application-data record */
static size_t sent_total, sent_after; static SM3_CTX sent_dg; static int fault_seen;
static int collect_ivs; static uint8_t ivs[64][16]; static int nivs;
ssize_t send(int fd, const void *buf, size_t n, int flags) {
	ssize_t r = write(fd, buf, n);
	(void)flags;
	if (r > 0) {
		sent_total += (size_t)r; sm3_update(&sent_dg, buf, (size_t)r);
		if (fault_seen) sent_after += (size_t)r;
		if (collect_ivs && n >= 21 && ((const uint8_t *)buf)[0] == 23 && nivs < 64) memcpy(ivs[nivs++], (const uint8_t *)buf + 5, 16);
	}
	return r;
}
/* ---- remember the call stack of the first failing attempt (symbolised by the driver with addr2line) */
static void *fail_bt[24]; static int fail_bt_n; static int bt_pipe = -1;   /* reported at once: the role may not survive */
static void on_entropy_failure(void) {
	fault_seen = 1;
	if (!fail_bt_n) {
		fail_bt_n = backtrace(fail_bt, 24);
		if (bt_pipe >= 0) { char tag = 'B'; if (write(bt_pipe, &tag, 1) == 1 && write(bt_pipe, &fail_bt_n, sizeof fail_bt_n) > 0 && write(bt_pipe, fail_bt, sizeof fail_bt) > 0) {} }
	}
}

typedef struct { uint8_t ca[1024], sign[1024], enc[1024]; size_t calen, signlen, enclen; SM2_KEY cakey, signkey, enckey; } pki_t;

static int make_cert2(opctx_t *c, const SM2_KEY *subj, const char *cn, const SM2_KEY *issuer_key, const char *issuer_cn, int is_ca, int ku,
	uint8_t *out, size_t *outlen) {
	uint8_t serial[12], name[256], iname[256], exts[256]; size_t nl = 0, il = 0, el = 0; uint8_t *p = out; time_t nb = 1600000000, na;
	ctx_bytes(c, serial, sizeof serial); serial[0] &= 0x7f; serial[0] |= 1;
	if (x509_name_set(name, &nl, sizeof name, "CN", "Beijing", "Haidian", "PKU", "CS", cn) != 1) return -1;
	if (x509_name_set(iname, &il, sizeof iname, "CN", "Beijing", "Haidian", "PKU", "CS", issuer_cn) != 1) return -1;
	x509_validity_add_days(&na, nb, 3650);
	if (is_ca && x509_exts_add_basic_constraints(exts, &el, sizeof exts, X509_critical, 1, -1) != 1) return -1;
	if (x509_exts_add_key_usage(exts, &el, sizeof exts, X509_critical, ku) != 1) return -1;
	*outlen = 0;
	return x509_cert_sign_to_der(X509_version_v3, serial, sizeof serial, OID_sm2sign_with_sm3, iname, il, nb, na, name, nl,
		subj, NULL, 0, NULL, 0, exts, el, issuer_key, SM2_DEFAULT_ID, SM2_DEFAULT_ID_LENGTH, &p, outlen);
}
static int make_pki(opctx_t *c, pki_t *k) {
	if (make_sm2(c, &k->cakey) != 1 || make_sm2(c, &k->signkey) != 1 || make_sm2(c, &k->enckey) != 1) return -1;
	if (make_cert2(c, &k->cakey, "verif root", &k->cakey, "verif root", 1, X509_KU_KEY_CERT_SIGN | X509_KU_CRL_SIGN, k->ca, &k->calen) != 1) return -1;
	if (make_cert2(c, &k->signkey, "server sign", &k->cakey, "verif root", 0, X509_KU_DIGITAL_SIGNATURE, k->sign, &k->signlen) != 1) return -1;
	if (make_cert2(c, &k->enckey, "server enc", &k->cakey, "verif root", 0, X509_KU_KEY_ENCIPHERMENT, k->enc, &k->enclen) != 1) return -1;
	return 1;
}

typedef struct { int rc, app; long draws; size_t sent, after, cap; char leak[64]; int nbt; void *bt[24]; uint8_t sentdg[32]; int nivs, ivdup, sendfail; long attempts; long hsdraws; int apperr, shut; } report_t;

static int cap_fd = -1, saved1 = -1, saved2 = -1;
static void cap_begin(void) {
	char path[] = "/tmp/verif_hs_XXXXXX";
	fflush(stdout); fflush(stderr);
	if (getenv("VERIF_HS_NOCAP")) { cap_fd = -1; return; }
	cap_fd = mkstemp(path); unlink(path);
	saved1 = dup(1); saved2 = dup(2);
	dup2(cap_fd, 1); dup2(cap_fd, 2);
}
static uint8_t *cap_end(size_t *n) {
	off_t len; uint8_t *b;
	fflush(stdout); fflush(stderr);
	if (cap_fd < 0) { *n = 0; return malloc(1); }
	dup2(saved1, 1); dup2(saved2, 2); close(saved1); close(saved2);
	len = lseek(cap_fd, 0, SEEK_END); lseek(cap_fd, 0, SEEK_SET);
	b = malloc((size_t)len + 1); *n = 0;
	while (*n < (size_t)len) { ssize_t r = read(cap_fd, b + *n, (size_t)len - *n); if (r <= 0) break; *n += (size_t)r; }
	close(cap_fd); cap_fd = -1;
	return b;
}
static const uint8_t *findb(const uint8_t *h, size_t hn, const uint8_t *nd, size_t nn) {
	size_t i; if (nn == 0 || hn < nn) return NULL;
	for (i = 0; i + nn <= hn; i++) if (h[i] == nd[0] && !memcmp(h + i, nd, nn)) return h + i;
	return NULL;
}
static void scan_secret(report_t *r, const uint8_t *cap, size_t n, const uint8_t *norm, size_t nn, const char *label, const uint8_t *s, size_t sl) {
	size_t w, k;
	if (r->leak[0] != 'n') return;
	for (w = 0; w + 8 <= sl; w++) {
		char hex[17]; size_t same = 0;
		for (k = 0; k < 8; k++) { sprintf(hex + 2 * k, "%02x", s[w + k]); if (s[w + k] == s[w]) same++; }
		if (same == 8) continue;
		if (findb(cap, n, s + w, 8)) { snprintf(r->leak, sizeof r->leak, "%s:raw", label); return; }
		if (findb(norm, nn, (const uint8_t *)hex, 16)) { snprintf(r->leak, sizeof r->leak, "%s:hex", label); return; }
	}
}

#define PAYMAX 16384
static int tamper; static size_t pay_len = 48; static uint8_t ping[PAYMAX], pong[PAYMAX], pms_pattern[46];
static void pay_bytes(uint8_t *p, size_t n, uint64_t seed, int tag) {
	uint64_t z = seed * 0x9E3779B97F4A7C15ULL + (uint64_t)tag * 0x1234567; size_t i;
	for (i = 0; i < n; i++) { z += 0x9E3779B97F4A7C15ULL; { uint64_t x = z; x = (x ^ (x >> 30)) * 0xBF58476D1CE4E5B9ULL; x = (x ^ (x >> 27)) * 0x94D049BB133111EBULL; p[i] = (uint8_t)((x ^ (x >> 31)) >> 16); } }
}
static int recv_all(TLS_CONNECT *conn, uint8_t *out, size_t want) {
	size_t got = 0, n = 0;
	while (got < want) { if (tls_recv(conn, out + got, want - got, &n) != 1 || n == 0) return -1; got += n; }
	return 1;
}
/* the client's PreMasterSecret can be given a wrong version (tamper = 3) and always carries a seed-derived pattern both roles know */
int __real_tls_pre_master_secret_generate(uint8_t pms[48], int protocol);
int __wrap_tls_pre_master_secret_generate(uint8_t pms[48], int protocol) {
	int r = __real_tls_pre_master_secret_generate(pms, protocol);
	if (r == 1 && tamper == 3) { pms[0] = 0x03; pms[1] = 0x03; memcpy(pms + 2, pms_pattern, 46); }
	return r;
}
static int with_shutdown; static int client_auth; static int fault_k; static int fault_errno; static int app_msgs;   /* options of the current op line */
static void role(int proto, int is_client, int sock, uint64_t seed, long failat, const pki_t *pki, report_t *r) {
	TLS_CTX ctx; TLS_CONNECT *conn = malloc(sizeof *conn); uint8_t buf[64]; size_t n = 0, capn, i, nn = 0; uint8_t *cap, *norm; uint8_t pb[32];
	int suites[1];
	struct timeval tv = {10, 0};
	memset(r, 0, sizeof *r); strcpy(r->leak, "none");
	setsockopt(sock, SOL_SOCKET, SO_RCVTIMEO, &tv, sizeof tv); setsockopt(sock, SOL_SOCKET, SO_SNDTIMEO, &tv, sizeof tv);
	cap_begin();
	tls_ctx_init(&ctx, proto, is_client);
	suites[0] = proto == TLS_protocol_tlcp ? TLS_cipher_ecc_sm4_cbc_sm3 : (proto == TLS_protocol_tls12 ? TLS_cipher_ecdhe_sm4_cbc_sm3 : TLS_cipher_sm4_gcm_sm3);
	tls_ctx_set_cipher_suites(&ctx, suites, 1);
	if (is_client) {
		ctx.cacerts = malloc(pki->calen); memcpy(ctx.cacerts, pki->ca, pki->calen); ctx.cacertslen = pki->calen; ctx.verify_depth = 4;
		if (client_auth) { ctx.certs = malloc(pki->signlen); memcpy(ctx.certs, pki->sign, pki->signlen); ctx.certslen = pki->signlen; ctx.signkey = pki->signkey; }
	} else {
		if (client_auth) { ctx.cacerts = malloc(pki->calen); memcpy(ctx.cacerts, pki->ca, pki->calen); ctx.cacertslen = pki->calen; ctx.verify_depth = 4; }
		ctx.certs = malloc(pki->signlen + pki->enclen); memcpy(ctx.certs, pki->sign, pki->signlen); ctx.certslen = pki->signlen;
		if (proto == TLS_protocol_tlcp) { memcpy(ctx.certs + pki->signlen, pki->enc, pki->enclen); ctx.certslen += pki->enclen; }
		ctx.signkey = pki->signkey; ctx.kenckey = pki->enckey;
	}
	sent_total = sent_after = 0; fail_bt_n = 0; fault_seen = 0; nivs = 0; collect_ivs = 0; sm3_init(&sent_dg); ent_fail_hook = on_entropy_failure;
	if (fault_k > 0 && failat >= 0) { ent_seed(seed, -1); entfault_set(failat, fault_k, fault_errno); errno = 0; }   /* k failing attempts, then the same bytes */
	else ent_seed(seed, failat);
	ent_clock(1700000000);
	if (tls_init(conn, &ctx) != 1 || tls_set_socket(conn, sock) != 1) r->rc = -9;
	else r->rc = tls_do_handshake(conn);
	r->draws = r->hsdraws = ent.draws;
	if (r->rc == 1 && app_msgs > 0) {
		/* application phase with an entropy failure in the middle: the client's record IVs before and after must all differ */
		int m; r->app = 1;
		if (is_client) {
			collect_ivs = 1;
			for (m = 0; m < app_msgs; m++) {
				uint8_t msg[32]; memset(msg, 'a' + m % 26, sizeof msg);
				if (m == app_msgs / 2) ent.fail_at = ent.draws;          /* the next draw (this record's IV) fails once */
				if (tls_send(conn, msg, sizeof msg, &n) != 1) r->sendfail++;
				ent.fail_at = -1;
			}
			collect_ivs = 0;
			for (m = 0; m < nivs; m++) { int q; for (q = 0; q < m; q++) if (!memcmp(ivs[m], ivs[q], 16)) r->ivdup = 1; if (poison_run(ivs[m], 16) >= 8) r->ivdup = 2; }
			r->nivs = nivs;
		} else {
			while (tls_recv(conn, buf, sizeof buf, &n) == 1) {}
		}
	} else if (r->rc == 1) {
		/* application data both ways (payloads derived from the seed: they are secrets for the capture), then either close_notify both ways
		 * or a REJECTED input on the live connection: 5 bytes of a bad record header / a fatal alert from the client */
		int a, b; uint8_t *big = malloc(PAYMAX + 64);
		pay_bytes(ping, pay_len, seed >> 1, 1); pay_bytes(pong, pay_len, seed >> 1, 2);
		if (tamper == 4) {
			/* the rejected header arrives right after a record was RECEIVED (the record buffer still holds it / its plaintext) */
			static const uint8_t bad[5] = { 0x17, 0x09, 0x09, 0x40, 0x01 };
			if (is_client) { a = tls_send(conn, ping, pay_len, &n); if (a != 1) r->apperr++; if (write(sock, bad, 5) != 5) {} r->app = a == 1; }
			else { a = recv_all(conn, big, pay_len); r->app = a == 1 && !memcmp(big, ping, pay_len); if (tls_recv(conn, big, PAYMAX, &n) != 1) r->apperr++; }
		} else if (is_client) {
			a = tls_send(conn, ping, pay_len, &n); if (a != 1) r->apperr++;
			b = a == 1 ? recv_all(conn, big, pay_len) : -1; if (b != 1) r->apperr++;
			r->app = a == 1 && b == 1 && !memcmp(big, pong, pay_len);
			if (r->app && tamper == 1) { static const uint8_t bad[5] = { 0x17, 0x09, 0x09, 0x40, 0x01 }; if (write(sock, bad, 5) != 5) {} }
			if (r->app && tamper == 2) tls_send_alert(conn, TLS_alert_bad_record_mac);
		} else {
			a = recv_all(conn, big, pay_len); if (a != 1) r->apperr++;
			r->app = a == 1 && !memcmp(big, ping, pay_len);
			b = r->app ? tls_send(conn, pong, pay_len, &n) : -1; if (b != 1) { r->apperr++; r->app = 0; }
			if (r->app && (tamper == 1 || tamper == 2)) { if (tls_recv(conn, big, PAYMAX, &n) != 1) r->apperr++; }   /* the rejected input */
		}
		if (r->app && with_shutdown && !tamper) { r->shut = tls_shutdown(conn); if (r->shut != 1) r->apperr++; }
		r->draws = ent.draws;
		free(big);
	}
	shutdown(sock, SHUT_RDWR);
	r->sent = sent_total; r->after = sent_after; r->attempts = entfault.failed_attempts; sm3_finish(&sent_dg, r->sentdg);
	r->nbt = fail_bt_n; memcpy(r->bt, fail_bt, sizeof fail_bt);
	free(ctx.cacerts); free(ctx.certs);
	cap = cap_end(&capn); r->cap = capn;
	norm = malloc(capn + 1);
	for (i = 0; i < capn; i++) { uint8_t ch = cap[i]; if (ch == ' ' || ch == ':' || ch == '\n' || ch == '\r' || ch == '\t' || ch == ',') continue; if (ch >= 'A' && ch <= 'F') ch = (uint8_t)(ch - 'A' + 'a'); norm[nn++] = ch; }
	if (r->rc == 1) { scan_secret(r, cap, capn, norm, nn, "app-plaintext-ping", ping, pay_len < 256 ? pay_len : 256); scan_secret(r, cap, capn, norm, nn, "app-plaintext-pong", pong, pay_len < 256 ? pay_len : 256); }
	if (tamper == 3) scan_secret(r, cap, capn, norm, nn, "pre_master_secret", pms_pattern, 46);
	if (proto != TLS_protocol_tls13) {
		scan_secret(r, cap, capn, norm, nn, "master_secret", conn->master_secret, 48);
		scan_secret(r, cap, capn, norm, nn, "key_block", conn->key_block, 96);
	} else {
		scan_secret(r, cap, capn, norm, nn, "client_write_iv", conn->client_write_iv, 12);
		scan_secret(r, cap, capn, norm, nn, "server_write_iv", conn->server_write_iv, 12);
	}
	if (!is_client) {
		sm2_z256_to_bytes(pki->signkey.private_key, pb); scan_secret(r, cap, capn, norm, nn, "server-sign-priv", pb, 32);
		sm2_z256_to_bytes(pki->enckey.private_key, pb); scan_secret(r, cap, capn, norm, nn, "server-enc-priv", pb, 32);
	}
	if (getenv("VERIF_HS_DUMP")) { fwrite(cap, 1, capn < 3000 ? capn : 3000, stderr); }
	free(cap); free(norm); free(conn);
}
static void print_report(const char *who, const report_t *r) {
	int i;
	printf("%s rc=%d app=%d hsdraws=%ld apperr=%d shut=%d draws=%ld sent=%zu after=%zu leak=%s cap=%zu attempts=%ld ivs=%d ivdup=%d sendfail=%d sentdg=", who, r->rc, r->app, r->hsdraws, r->apperr, r->shut, r->draws, r->sent, r->after, r->leak, r->cap,
		r->attempts, r->nivs, r->ivdup, r->sendfail);
	puthex(r->sentdg, 8);
	printf(" bt=");
	if (!r->nbt) printf("-");
	for (i = 0; i < r->nbt; i++) printf("%s%lx", i ? "," : "", (unsigned long)r->bt[i]);
}

static void handle(size_t nw, char **w) {
	int proto, sv[2], pfd[2]; uint64_t seed; long cf, sf; report_t rc_, rs_; opctx_t *c; pki_t *pki; ssize_t got;
	if (nw < 5 || nw > 11 || strcmp(w[0], "hs")) { printf("ERR usage"); return; }
	client_auth = 0; fault_k = 0; fault_errno = -1; app_msgs = 0; with_shutdown = 0; tamper = 0; pay_len = 48;
	{ size_t a; for (a = 5; a < nw; a++) {
		if (!strcmp(w[a], "auth")) client_auth = 1;
		else if (!strcmp(w[a], "shut")) with_shutdown = 1;
		else if (!strncmp(w[a], "tamper=", 7)) tamper = !strcmp(w[a] + 7, "badheader") ? 1 : !strcmp(w[a] + 7, "alert") ? 2 : !strcmp(w[a] + 7, "badpms") ? 3 : !strcmp(w[a] + 7, "badheader2") ? 4 : 0;
		else if (!strncmp(w[a], "pay=", 4)) { pay_len = (size_t)atol(w[a] + 4); if (pay_len < 1 || pay_len > PAYMAX) pay_len = 48; }
		else if (!strncmp(w[a], "k=", 2)) { char *c = strchr(w[a], ':'); fault_k = atoi(w[a] + 2); fault_errno = c ? errno_of_name(c + 1) : -1; }
		else if (!strncmp(w[a], "app=", 4)) app_msgs = atoi(w[a] + 4);
		else { printf("ERR option %s", w[a]); return; } } }
	proto = !strcmp(w[1], "tlcp") ? TLS_protocol_tlcp : (!strcmp(w[1], "tls12") ? TLS_protocol_tls12 : (!strcmp(w[1], "tls13") ? TLS_protocol_tls13 : 0));
	if (!proto) { printf("ERR proto"); return; }
	seed = strtoull(w[2], NULL, 10); cf = atol(w[3]); sf = atol(w[4]);
	pay_bytes(pms_pattern, 46, seed >> 1, 3);
	c = malloc(sizeof *c); pki = malloc(sizeof *pki);
	memset(c, 0, sizeof *c); c->sm = (seed >> 8) * 0x9E3779B97F4A7C15ULL + 99;
	ent_seed((seed >> 8) ^ 0xabcdefULL, -1);
	if (make_pki(c, pki) != 1) { printf("ERR pki"); free(c); free(pki); return; }
	if (socketpair(AF_UNIX, SOCK_STREAM, 0, sv) != 0) { printf("ERR socketpair"); free(c); free(pki); return; }
	fflush(stdout);
	{
		int k; pid_t pids[2]; int fds[2]; report_t *reps[2] = { &rs_, &rc_ };
		for (k = 0; k < 2; k++) {                                /* k = 0: server, k = 1: client; both in children so that a crash is contained */
			if (pipe(pfd) != 0) { printf("ERR pipe"); free(c); free(pki); return; }
			pids[k] = fork();
			if (pids[k] == 0) {
				char tag = 'R'; report_t rep;
				close(pfd[0]); close(sv[k == 0 ? 0 : 1]); alarm(60); bt_pipe = pfd[1];
				role(proto, k, sv[k == 0 ? 1 : 0], seed * 2 + (k == 0), k == 0 ? sf : cf, pki, &rep);
				if (write(pfd[1], &tag, 1) != 1 || write(pfd[1], &rep, sizeof rep) != (ssize_t)sizeof rep) _exit(3);
				_exit(0);
			}
			close(pfd[1]); fds[k] = pfd[0];
		}
		close(sv[0]); close(sv[1]);
		for (k = 0; k < 2; k++) {
			char tag; int nbt = 0; void *bt[24]; int have_report = 0; report_t *rp = reps[k]; int st = 0;
			while (read(fds[k], &tag, 1) == 1) {
				if (tag == 'B') { if (read(fds[k], &nbt, sizeof nbt) != (ssize_t)sizeof nbt || read(fds[k], bt, sizeof bt) != (ssize_t)sizeof bt) break; }
				else if (tag == 'R') { got = read(fds[k], rp, sizeof *rp); have_report = got == (ssize_t)sizeof *rp; break; }
				else break;
			}
			close(fds[k]);
			waitpid(pids[k], &st, 0);
			if (!have_report) {
				memset(rp, 0, sizeof *rp); strcpy(rp->leak, "none"); rp->rc = -99; rp->app = WIFSIGNALED(st) ? -WTERMSIG(st) : -1000 - WEXITSTATUS(st);
				if (nbt > 0 && nbt <= 24) { rp->nbt = nbt; memcpy(rp->bt, bt, sizeof bt); }
			}
		}
	}
	printf("HS "); print_report("client", &rc_); printf(" | "); print_report("server", &rs_);
	free(c); free(pki);
}

int main(void) { signal(SIGPIPE, SIG_IGN); main_loop(handle); return 0; }
