/* C18 wave 3: the other build configuration of the entropy gateway.  When cmake does not find getentropy()
 * (HAVE_GETENTROPY off) the library compiles src/rand.c, which reads /dev/urandom through stdio.  This harness is
 * linked with that gateway source (props/C18/run.py takes the file list from a cmake configure run with
 * -DHAVE_GETENTROPY=OFF) and wraps fopen/fread/fclose (-Wl,--wrap) to script the device: short reads, end of file,
 * errors with a chosen errno, failure to open.
 *
 *   ur <len> <script>      rand_bytes(buf, len) on a poisoned exact-size buffer; script = comma list, one item per
 *                          fread call on the device: f (all that was asked), s<n> (n bytes), e (0 bytes, EOF),
 *                          x<errno-name> (0 bytes, errno set); "open" = fopen fails; after the script: f
 *     -> EXACT rc=1 freads=<k>            success and buf == the first len bytes the script served, in order
 *      | FAILED rc=<r> freads=<k>         reported failure
 *      | BAD rc=1 first-wrong=<i> poison=<n> served=<m> freads=<k>    success with bytes the device never delivered there
 *   urkey <script>         sm2_key_generate() with the script applied to its first read
 *     -> EXACT | FAILED | BAD (private key is not the 32 bytes served)
 */
#include "common.h"
#include <gmssl/rand.h>
#include <gmssl/sm2.h>

static FILE *ur_fp; static int ur_open_fails;
static char *items[64]; static int nitems, item_pos; static int freads;
static uint8_t served[8192]; static size_t nserved; static uint64_t sm = 99;
static uint8_t next_byte(void) { uint64_t z = (sm += 0x9E3779B97F4A7C15ULL); z = (z ^ (z >> 30)) * 0xBF58476D1CE4E5B9ULL; z = (z ^ (z >> 27)) * 0x94D049BB133111EBULL; z ^= z >> 31;
	return (uint8_t)((z >> 24) == 0xA5 ? 0x5A : (z >> 24)); }      /* the device never delivers the poison value */

FILE *__real_fopen(const char *path, const char *mode);
size_t __real_fread(void *ptr, size_t size, size_t n, FILE *fp);
int __real_fclose(FILE *fp);
FILE *__wrap_fopen(const char *path, const char *mode) {
	if (path && !strcmp(path, "/dev/urandom")) {
		if (ur_open_fails) { errno = EMFILE; return NULL; }
		ur_fp = __real_fopen("/dev/null", mode);
		return ur_fp;
	}
	return __real_fopen(path, mode);
}
int __wrap_fclose(FILE *fp) { if (fp == ur_fp) ur_fp = NULL; return __real_fclose(fp); }
static int errno_of(const char *n) { return !strcmp(n, "EINTR") ? EINTR : !strcmp(n, "EAGAIN") ? EAGAIN : !strcmp(n, "EIO") ? EIO : EBADF; }
size_t __wrap_fread(void *ptr, size_t size, size_t n, FILE *fp) {
	size_t want, give, i; const char *it;
	if (fp != ur_fp || !fp) return __real_fread(ptr, size, n, fp);
	freads++;
	want = size * n;
	it = item_pos < nitems ? items[item_pos++] : "f";
	if (it[0] == 'e') return 0;
	if (it[0] == 'x') { errno = errno_of(it + 1); return 0; }
	give = it[0] == 's' ? (size_t)atol(it + 1) : want;
	if (give > want) give = want;
	for (i = 0; i < give; i++) { uint8_t b = next_byte(); ((uint8_t *)ptr)[i] = b; if (nserved < sizeof served) served[nserved++] = b; }
	return size ? give / size : 0;
}
static void set_script(char *s) {
	char *save = NULL, *t; nitems = item_pos = 0; ur_open_fails = 0; freads = 0; nserved = 0;
	if (!strcmp(s, "open")) { ur_open_fails = 1; return; }
	for (t = strtok_r(s, ",", &save); t && nitems < 64; t = strtok_r(NULL, ",", &save)) items[nitems++] = t;
}
static void handle(size_t nw, char **w) {
	alarm(30);
	if (nw == 3 && !strcmp(w[0], "ur")) {
		size_t len = (size_t)atol(w[1]), i, poison = 0, run = 0; uint8_t *buf = malloc(len ? len : 1); int rc; size_t wrong = len;
		memset(buf, 0xA5, len ? len : 1); sm = 1000 + len; set_script(w[2]);
		rc = rand_bytes(buf, len);
		if (rc != 1) { printf("FAILED rc=%d freads=%d", rc, freads); free(buf); return; }
		for (i = 0; i < len; i++) { if (wrong == len && (i >= nserved || buf[i] != served[i])) wrong = i; if (buf[i] == 0xA5) { if (++run > poison) poison = run; } else run = 0; }
		if (wrong == len && len > 0) printf("EXACT rc=1 freads=%d", freads);
		else printf("BAD rc=1 first-wrong=%zu poison=%zu served=%zu freads=%d", wrong, poison, nserved, freads);
		free(buf);
	} else if (nw == 2 && !strcmp(w[0], "urkey")) {
		SM2_KEY k; int rc; memset(&k, 0xA5, sizeof k); sm = 77; set_script(w[1]);
		rc = sm2_key_generate(&k);
		if (rc != 1) printf("FAILED rc=%d freads=%d", rc, freads);
		else if (nserved >= 32 && !memcmp(k.private_key, served + nserved - 32, 32)) printf("EXACT rc=1 freads=%d", freads);   /* the accepted scalar is the last 32 bytes delivered */
		else printf("BAD rc=1 served=%zu freads=%d", nserved, freads);
	} else printf("ERR usage");
}
int main(void) { quiet_stderr(); main_loop(handle); return 0; }
