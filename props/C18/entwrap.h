/* A fault layer in front of the scripted entropy source of harness/entropy.h (C18 wave 2).
 *
 * entropy.h can make draw number i fail once.  A real getentropy() can also fail several times in a
 * row with different errno values (EINTR while blocked, EAGAIN, EIO, ENOSYS, or without touching
 * errno at all) and may leave anything in the destination buffer when it fails.  This layer adds:
 *
 *   entfault.at / .k / .err    the next k ATTEMPTS at draw index `at` fail with errno = err
 *                              (err < 0: errno is left untouched); they do not consume script bytes,
 *                              so the (k+1)-th attempt is served exactly the bytes the healthy run
 *                              gets: a caller that retries must produce the healthy output, a caller
 *                              that gives up must report failure — nothing else is acceptable
 *   poison                     every failing attempt (also entropy.h's own fail_at) fills the
 *                              destination with 0xA5: bytes the script did not serve are recognisable
 *   ent_fail_hook              called on every failing attempt (call-stack capture in hs_harness.c)
 *
 * Include this INSTEAD of "entropy.h", before sysops.h.
 */
#ifndef VERIF_ENTWRAP_H
#define VERIF_ENTWRAP_H
#include "common.h"
#define getentropy verif_ent_getentropy
#include "entropy.h"
#undef getentropy

typedef struct { long at; int k; int err; long failed_attempts; } entfault_t;
static __thread entfault_t entfault = { -1, 0, 0, 0 };
static void (*ent_fail_hook)(void);
static __thread long ent_calls;                 /* getentropy() calls made by the library, failed attempts included */
#define ENT_POISON 0xA5

static void entfault_set(long at, int k, int err) { entfault.at = at; entfault.k = k; entfault.err = err; entfault.failed_attempts = 0; }
static void entfault_clear(void) { entfault.at = -1; entfault.k = 0; }

int getentropy(void *buf, size_t len) {
	int r;
	ent_calls++;
	if (!ent.passthrough && entfault.at >= 0 && ent.draws == entfault.at && entfault.k > 0) {
		entfault.k--; entfault.failed_attempts++;
		if (buf && len && len <= 256) memset(buf, ENT_POISON, len);
		if (entfault.err >= 0) errno = entfault.err;
		if (ent_fail_hook) ent_fail_hook();
		return -1;
	}
	r = verif_ent_getentropy(buf, len);
	if (r != 0) {
		if (buf && len && len <= 256) memset(buf, ENT_POISON, len);
		if (ent_fail_hook) ent_fail_hook();
	}
	return r;
}
static int errno_of_name(const char *n) {
	if (!strcmp(n, "EINTR")) return EINTR;
	if (!strcmp(n, "EAGAIN")) return EAGAIN;
	if (!strcmp(n, "EIO")) return EIO;
	if (!strcmp(n, "ENOSYS")) return ENOSYS;
	if (!strcmp(n, "EFAULT")) return EFAULT;
	return -1;                                               /* "untouched" */
}
/* longest run of poison bytes in a buffer */
static size_t poison_run(const uint8_t *p, size_t n) {
	size_t i, cur = 0, best = 0;
	for (i = 0; i < n; i++) { if (p[i] == ENT_POISON) { if (++cur > best) best = cur; } else cur = 0; }
	return best;
}
#endif
