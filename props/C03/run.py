"""C03 — hash / MAC / KDF interfaces equal their standards under every chunking."""
import os, sys
from vlib import core
from vlib.core import hexs
sys.path.insert(0, os.path.join(core.ROOT, "tools"))
import consts_hash  # noqa: E402

ALGS = [("sm3", 64), ("sha1", 64), ("sha224", 64), ("sha256", 64), ("sha384", 128), ("sha512", 128)]
DISPATCH_ONLY = [("sha512-224", 128), ("sha512-256", 128)]   # reachable through digest_from_name / DIGEST_* only
IV_SM3 = "7380166f4914b2b9172442d7da8a0600a96f30bc163138aae38dee4db0fb0e4e"


def chunks_str(chunks):
    return ",".join(hexs(c) for c in chunks) if chunks else "."


def gen(ctx):
    r = ctx.rng
    thorough = ctx.tier == "thorough"
    cases = []
    add = lambda line, cell: cases.append((line, cell))
    # --- corpus / boundary: empty input, every API
    for alg, B in ALGS:
        add("hash %s ." % alg, "hash:%s:nochunks" % alg)
        add("hash %s -" % alg, "hash:%s:empty" % alg)
        add("hash %s -,-" % alg, "hash:%s:empty" % alg)
        add("digest %s -" % alg, "digest:%s:empty" % alg)
        add("digest1 %s -" % alg, "digest1:%s:empty" % alg)
        add("hmac1 %s 0b0b -" % alg, "hmac1:%s:emptymsg" % alg)
        add("hmacg %s 0b0b -" % alg, "hmacg:%s:emptymsg" % alg)
        add("hmacg %s 0b0b ." % alg, "hmacg:%s:emptymsg" % alg)
        add("hmacg %s - 00" % alg, "hmacg:%s:emptykey" % alg)
    add("hmac - -", "hmac:sm3:emptykey-emptymsg")
    add("hmac - 6162", "hmac:sm3:emptykey")
    # --- block-boundary lengths with random chunking
    for alg, B in ALGS:
        ks = [1, 2, 3] if not thorough else [1, 2, 3, 4, 9]
        for k in ks:
            for d in list(range(-B // 8 - 1 - 1, 2)) + ([-B // 2] if thorough else []):
                n = k * B + d
                if n < 0:
                    continue
                m = r.bytes(n)
                lenf = (B // 8)  # size of length field + 1 gives the padding boundary
                cls = "pad-boundary" if d in (-lenf - 1, -lenf, -lenf + 1) else ("block-boundary" if d in (-1, 0, 1) else "near-block")
                add("hash %s %s" % (alg, chunks_str(r.split(m))), "hash:%s:%s" % (alg, cls))
        # generic dispatch, same classes
        for d in (-B // 8 - 1, -B // 8, -1, 0, 1):
            m = r.bytes(B + d)
            add("digest %s %s" % (alg, chunks_str(r.split(m))), "digest:%s:%s" % (alg, "boundary%+d" % d))
            add("digest1 %s %s" % (alg, hexs(m)), "digest1:%s:%s" % (alg, "boundary%+d" % d))
    # --- exhaustive two-way splits of a 130-byte message (sm3), every 3rd offset for the others in quick
    m130 = r.bytes(130)
    for alg, B in ALGS:
        step = 1 if (alg == "sm3" or thorough) else 7
        for off in range(0, 131, step):
            add("hash %s %s" % (alg, chunks_str([m130[:off], m130[off:]])), "hash:%s:split2@%s" % (alg, "blk" if off % B == 0 else ("pre" if off < B else "post")))
    # --- random k-way splits
    nrand = 40 if not thorough else 400
    maxlen = 700 if not thorough else 65536
    for alg, B in ALGS:
        for i in range(nrand):
            n = r.below(maxlen) if not r.chance(1, 4) else r.below(3 * B)
            m = r.bytes(n)
            k = r.range(1, 9)
            add("hash %s %s" % (alg, chunks_str(r.split(m, k))), "hash:%s:random-k%d" % (alg, min(k, 4)))
    # --- large block counters installed in the public SM3_CTX (bit length > 2^32 and wrap of the fields)
    for nb in [0, 1, 2**23 - 1, 2**23, 2**23 + 1, 2**32 + 5, 2**55 - 1, 2**55, 2**64 - 1]:
        st = IV_SM3 if nb == 0 else r.bytes(32).hex()
        for tail in (0, 1, 55, 56, 63, 64, 65):
            m = r.bytes(tail)
            add("sm3st %d %s %s" % (nb, st, chunks_str(r.split(m, 2))), "sm3st:nb=%s:tail%s" % (("2^%d%+d" % (nb.bit_length() - (0 if nb & (nb - 1) else 1), 0)) if nb else "0", "pad2" if tail % 64 > 55 else "pad1"))
    # same for every digest through its public context struct (op hashst)
    for alg, B in ALGS:
        wide = B == 128
        nbs = [2**23 - 1, 2**23, 2**32 + 5, 2**55, 2**64 - 1] if not wide else [2**54 - 1, 2**54, 2**54 + 1, 2**60 + 3, 2**64 - 3]
        slen = {"sm3": 32, "sha1": 20, "sha224": 32, "sha256": 32, "sha384": 64, "sha512": 64}[alg]
        for nb in nbs:
            st = r.bytes(slen).hex()
            for tail in (0, 1, B - (B // 8) - 1, B - (B // 8), B + 1):
                m = r.bytes(tail)
                add("hashst %s %d %s %s" % (alg, nb, st, chunks_str(r.split(m, 2))), "hashst:%s:nb>=2^%d:%s" % (alg, nb.bit_length() - 1, "pad2" if tail % B > B - B // 8 - 1 else "pad1"))
    # --- digests that exist only behind the generic dispatch (SHA-512/224, SHA-512/256)
    for alg, B in DISPATCH_ONLY:
        add("digest %s -" % alg, "digest:%s:empty" % alg)
        add("digest %s ." % alg, "digest:%s:nochunks" % alg)
        add("digest1 %s -" % alg, "digest1:%s:empty" % alg)
        add("digest1 %s 616263" % alg, "digest1:%s:abc" % alg)
        for k in (1, 2, 3):
            for d in (-B // 8 - 1, -B // 8, -B // 8 + 1, -1, 0, 1):
                m = r.bytes(k * B + d)
                cls = "pad-boundary" if d < -1 else "block-boundary"
                add("digest %s %s" % (alg, chunks_str(r.split(m))), "digest:%s:%s" % (alg, cls))
                add("digest1 %s %s" % (alg, hexs(m)), "digest1:%s:%s" % (alg, cls))
        for i in range(nrand // 2):
            m = r.bytes(r.below(maxlen) if not r.chance(1, 4) else r.below(3 * B))
            k = r.range(1, 9)
            add("digest %s %s" % (alg, chunks_str(r.split(m, k))), "digest:%s:random-k%d" % (alg, min(k, 4)))
    # --- HMAC: key lengths around the block size, every API style
    for alg, B in ALGS + DISPATCH_ONLY:
        for kl in [1, 2, B - 1, B, B + 1, 4 * B] + ([hl for hl in (20, 32)] if thorough else [32]):
            key = r.bytes(kl)
            kcls = "key<=B" if kl <= B else "key>B"
            for n in (0, 1, B - 1, B, B + 1, 3 * B + 7):
                m = r.bytes(n)
                if n:
                    add("hmacg %s %s %s" % (alg, hexs(key), chunks_str(r.split(m))), "hmacg:%s:%s" % (alg, kcls))
                add("hmac1 %s %s %s" % (alg, hexs(key), hexs(m)), "hmac1:%s:%s%s" % (alg, kcls, ":emptymsg" if n == 0 else ""))
                if alg == "sm3":
                    add("hmac %s %s" % (hexs(key), chunks_str(r.split(m))), "hmac:sm3:%s" % kcls)
    # --- hmac_finish_and_verify: the MAC, and its neighbourhood (bit flips at both ends, shorter, longer, empty)
    import hmac as pyhmac
    PY = {"sm3": "sm3", "sha1": "sha1", "sha224": "sha224", "sha256": "sha256", "sha384": "sha384", "sha512": "sha512",
          "sha512-224": "sha512_224", "sha512-256": "sha512_256"}
    for alg, B in ALGS + DISPATCH_ONLY:
        for kl in (1, B, B + 1):
            key = r.bytes(kl)
            for n in (0, 1, B + 3):
                m = r.bytes(n)
                mac = pyhmac.new(key, m, PY[alg]).digest()
                cands = [("ok", mac), ("flip-first", bytes([mac[0] ^ 0x80]) + mac[1:]), ("flip-last", mac[:-1] + bytes([mac[-1] ^ 1])),
                         ("short", mac[:-1]), ("long", mac + b"\0"), ("empty", b""), ("prefix8", mac[:8])]
                if thorough:
                    cands += [("flip-%d" % i, mac[:i] + bytes([mac[i] ^ (1 << r.below(8))]) + mac[i + 1:]) for i in range(1, len(mac) - 1, 5)]
                for cls, cand in cands:
                    add("hmacv %s %s %s %s" % (alg, hexs(key), chunks_str(r.split(m)) if n else "-", hexs(cand)),
                        "hmacv:%s:%s" % (alg, cls.split("-")[0] if cls.startswith("flip") else cls))
    # --- sm3_digest_*: unkeyed and keyed (12..64 bytes, refused outside), chunkings with empty pieces
    for key in ["null"] + [hexs(r.bytes(kl)) for kl in (0, 1, 11, 12, 13, 32, 63, 64, 65, 100)]:
        kl = -1 if key == "null" else (0 if key == "-" else len(key) // 2)
        kcls = "nokey" if kl < 0 else ("key<12" if kl < 12 else ("key>64" if kl > 64 else "key-ok"))
        for n in (0, 1, 55, 56, 64, 65, 200):
            m = r.bytes(n)
            add("sm3dg %s %s" % (key, chunks_str(r.split(m))), "sm3dg:%s" % kcls)
        m = r.bytes(70)
        add("sm3dg %s %s" % (key, chunks_str([m[:10], b"", m[10:64], b"", m[64:]])), "sm3dg:%s:empty-chunks" % kcls)
        add("sm3dg %s ." % key, "sm3dg:%s:no-update" % kcls)
        add("sm3dg %s -" % key, "sm3dg:%s:only-empty-chunk" % kcls)
    # --- independent contexts in 2..4 threads give the sequential results (no hidden shared state)
    for alg, B in ALGS + DISPATCH_ONLY:
        for T in ((2, 4) if not thorough else (2, 3, 4, 8)):
            add("hashpar %s %d %d %d" % (alg, T, 1500 if not thorough else 6000, 3 * B + 5), "hashpar:%s:T%d" % (alg, T))
    # --- KDF: output lengths 1..100 dense, non-multiples of 32, large
    for outlen in list(range(0, 101)) + [255, 256, 257, 8160] + ([65535] if thorough else []):
        z = r.bytes(r.range(0, 80))
        cls = "out%%32=%s" % ("0" if outlen % 32 == 0 else "nz")
        add("kdf %s %d" % (chunks_str(r.split(z)), outlen), "kdf:" + cls)
        if outlen <= 256 or outlen == 8160:
            add("sm2kdf %s %d" % (hexs(z), outlen), "sm2kdf:" + cls)
    # counter beyond one byte (block 256 and later): outputs longer than 255*32 bytes
    for outlen in (8161, 8192, 8200, 16384) + ((70000,) if thorough else ()):
        z = r.bytes(r.range(1, 40))
        add("sm2kdf %s %d" % (hexs(z), outlen), "sm2kdf:counter>255")
        add("kdf %s %d" % (chunks_str(r.split(z)), outlen), "kdf:counter>255")
    # --- PBKDF2 (iteration counts kept small on the model side; see DESIGN 2.1)
    for count in ([1, 2, 3, 10, 64] if not thorough else [1, 2, 3, 10, 64, 1000]):
        for outlen in (1, 31, 32, 33, 64, 70):
            p, s = r.bytes(r.range(0, 70)), r.bytes(r.range(0, 40))
            add("pbkdf2 %s %s %d %d" % (hexs(p), hexs(s), count, outlen), "pbkdf2:c%s:out%%32=%s" % ("1" if count == 1 else "n", "0" if outlen % 32 == 0 else "nz"))
    # --- HKDF
    for alg in ("sm3", "sm3direct", "sha256"):
        for sl in (0, 1, 32, 64, 65, 100):
            for il in (0, 1, 32, 100):
                add("hkdfx %s %s %s" % (alg, hexs(r.bytes(sl)), hexs(r.bytes(il))),
                    "hkdfx:%s:salt%s:ikm%s" % (alg, "0" if sl == 0 else ("<=B" if sl <= 64 else ">B"), "0" if il == 0 else "n"))
        # PRK length different from the digest size (generic interface only; sm3direct takes 32 bytes)
        if alg != "sm3direct":
            for pl in (1, 16, 31, 33, 48, 64, 65, 100):
                for L in (1, 32, 33, 64, 100):
                    add("hkdfe %s %s %s %d" % (alg, hexs(r.bytes(pl)), hexs(r.bytes(r.choice([0, 5]))), L),
                        "hkdfe:%s:prk%s:%s" % (alg, "<h" if pl < 32 else (">B" if pl > 64 else ">h"), "L>h" if L > 32 else "L<=h"))
        for L in [0, 1, 31, 32, 33, 64, 65, 100, 8159, 8160, 8161, 9000]:
            prk = r.bytes(32)
            info = r.bytes(r.choice([0, 1, 10, 70]))
            add("hkdfe %s %s %s %d" % (alg, hexs(prk), hexs(info), L), "hkdfe:%s:%s" % (alg, "L>255h" if L > 8160 else ("L=255h" if L == 8160 else ("L%32=0" if L % 32 == 0 else "L%32nz"))))
    return cases


def run(ctx):
    # source-derived constant tables: regenerated on every run, Properties_C03.C03_hash_tables re-proved
    try:
        consts_hash.generate(core.REPO)
        bad = consts_hash.mismatches(core.REPO)
    except Exception as e:  # noqa
        ctx.violation("tables:hash:parse", "cannot extract the hash constant tables from the source: %s" % e,
                      {"kind": "correspondence", "relation": "tools/consts_hash.py", "detail": str(e)}, False)
        return finish(ctx)
    if bad:
        ctx.violation("tables:hash:entry", "constant in the source differs from the value the standard defines: " +
                      ", ".join("%s[%d]=0x%x (standard 0x%x)" % b for b in bad[:8]),
                      {"kind": "proof", "theorem_or_file": "coq/Props/Properties_C03.v C03_hash_tables",
                       "entries": [list(b) for b in bad[:64]]}, True)
    else:
        ctx.cell("tables:hash:all-entries")
    ok = ctx.check_proofs()
    model, log = core.build_model("C03")
    if model is None:
        ctx.violation("correspondence:model-build", "extracted model does not build: " + log[-500:], {"kind": "correspondence", "log": log[-3000:]}, False)
        return finish(ctx)
    variants = ["asan", "small", "sse"]   # default, ENABLE_SMALL_FOOTPRINT, ENABLE_SM3_SSE (-mssse3); the model runs once
    cases = gen(ctx)
    mo = None
    for v in variants:
        exe, log = core.build_harness("C03", v)
        if exe is None:
            core.harness_build_failed(ctx, log)
            continue
        core.differential(ctx, cases, exe, model, variant=v, model_out=mo)
        mo = ctx.last_model_out
    return finish(ctx)


def finish(ctx):
    ctx.assumptions = [
        "SM3/SHA Spec = my transcription of GB/T 32905 / FIPS 180-4, pinned by the standards' vectors proved as Examples (vm_compute)",
        "sha384/sha512 streaming theorem carries the premise < 2^64 blocks (the C block counter is 64 bits)",
        "every Impl=Spec equality the driver relies on is a theorem of Props/Properties_C03.v (HMAC over the 128-byte-block digests: C03_hmac_generic_stream_wide, below 2^64 blocks); the driver still compares Impl and Spec at run time (MODEL-IMPL-SPEC-DIFFER would be reported)",
        "ENABLE_SM3_SSE (x86 SSSE3) is run as variant `sse`; ARM / AVX SM3 variants are not built here",
    ]
    return ctx.finish(level="proof",
                      rule="cases = corpus/boundary families (empty input, pad boundary, block boundary, exhaustive 2-way splits of 130 bytes, installed block counters up to 2^64-1, key lengths around B, output lengths 0..100/8160/8161) + random k-way chunkings; a cell = (op, algorithm, boundary class, ok|ERR); distinct_nontrivial = number of distinct cells on which impl and model agreed",
                      trusted=core.TRUSTED_COMMON + ["Coq files: Hash/MD.v SM3.v SHA2.v Hmac.v (models), *Proofs.v (proofs), Props/Properties_C03.v",
                                                  "tools/consts_hash.py (regex copy of the SM3 / SHA-1 / SHA-2 round constants and initial values from the C source into coq/Gen/HashTables.v; C03_hash_tables re-proved each run)"])
