/* C03 correspondence harness: hash / HMAC / KDF interfaces of the current /repo tree. */
#include "common.h"
#include <gmssl/sm3.h>
#include <gmssl/sha1.h>
#include <gmssl/sha2.h>
#include <gmssl/digest.h>
#include <gmssl/hmac.h>
#include <gmssl/hkdf.h>
#include <gmssl/sm2.h>
#include <pthread.h>

/* hashpar: T threads, each hashing (and HMACing) its own message R times through the generic
 * dispatch; every result must equal the value computed before the threads started. */
typedef struct { const DIGEST *dg; uint8_t *msg; size_t len; uint8_t ref[64], mref[64]; size_t dl, ml; int rounds; int bad; } par_t;
static void *par_worker(void *a) {
	par_t *p = (par_t *)a; int i;
	for (i = 0; i < p->rounds && !p->bad; i++) {
		uint8_t d[64], m[64]; size_t dl = 0, ml = 0;
		if (digest(p->dg, p->msg, p->len, d, &dl) != 1 || dl != p->dl || memcmp(d, p->ref, dl)) p->bad = i + 1;
		else if (hmac(p->dg, p->msg, 16, p->msg, p->len, m, &ml) != 1 || ml != p->ml || memcmp(m, p->mref, ml)) p->bad = -(i + 1);
	}
	return NULL;
}

#define MAXC 128
static buf_t ch[MAXC];

static void do_hash(const char *alg, char *chunks) {
	size_t k = split_chunks(chunks, ch, MAXC), i;
	uint8_t *d = malloc(64); size_t dl = 0;
	if (!strcmp(alg, "sm3")) { SM3_CTX c; sm3_init(&c); for (i = 0; i < k; i++) sm3_update(&c, ch[i].p, ch[i].n); free(d); d = malloc(32); sm3_finish(&c, d); dl = 32; }
	else if (!strcmp(alg, "sha1")) { SHA1_CTX c; sha1_init(&c); for (i = 0; i < k; i++) sha1_update(&c, ch[i].p, ch[i].n); free(d); d = malloc(20); sha1_finish(&c, d); dl = 20; }
	else if (!strcmp(alg, "sha224")) { SHA224_CTX c; sha224_init(&c); for (i = 0; i < k; i++) sha224_update(&c, ch[i].p, ch[i].n); free(d); d = malloc(28); sha224_finish(&c, d); dl = 28; }
	else if (!strcmp(alg, "sha256")) { SHA256_CTX c; sha256_init(&c); for (i = 0; i < k; i++) sha256_update(&c, ch[i].p, ch[i].n); free(d); d = malloc(32); sha256_finish(&c, d); dl = 32; }
	else if (!strcmp(alg, "sha384")) { SHA384_CTX c; sha384_init(&c); for (i = 0; i < k; i++) sha384_update(&c, ch[i].p, ch[i].n); free(d); d = malloc(48); sha384_finish(&c, d); dl = 48; }
	else if (!strcmp(alg, "sha512")) { SHA512_CTX c; sha512_init(&c); for (i = 0; i < k; i++) sha512_update(&c, ch[i].p, ch[i].n); free(d); d = malloc(64); sha512_finish(&c, d); dl = 64; }
	else { printf("ERR unknown-alg"); free(d); free_chunks(ch, k); return; }
	puthex(d, dl); free(d); free_chunks(ch, k);
}

static void do_digest(const char *alg, char *chunks) {
	size_t k = split_chunks(chunks, ch, MAXC), i;
	const DIGEST *dg = digest_from_name(alg);
	DIGEST_CTX c; uint8_t *d = malloc(64); size_t dl = 0; int ok = 1;
	if (!dg || digest_init(&c, dg) != 1) ok = 0;
	for (i = 0; ok && i < k; i++) if (digest_update(&c, ch[i].p, ch[i].n) < 0) ok = 0; /* 0 = empty chunk, documented no-op */
	if (ok && digest_finish(&c, d, &dl) != 1) ok = 0;
	if (ok) puthex(d, dl); else printf("ERR");
	free(d); free_chunks(ch, k);
}

static void handle(size_t nw, char **w) {
	if (!strcmp(w[0], "hash") && nw == 3) do_hash(w[1], w[2]);
	else if (!strcmp(w[0], "digest") && nw == 3) do_digest(w[1], w[2]);
	else if (!strcmp(w[0], "digest1") && nw == 3) {      /* one-shot generic digest() */
		buf_t m = hex2buf(w[2]); const DIGEST *dg = digest_from_name(w[1]);
		uint8_t *d = malloc(64); size_t dl = 0;
		if (dg && digest(dg, m.p, m.n, d, &dl) == 1) puthex(d, dl); else printf("ERR");
		free(d); free(m.p);
	}
	else if (!strcmp(w[0], "sm3st") && nw == 4) {        /* install block counter + chaining state */
		SM3_CTX c; buf_t st = hex2buf(w[2]); size_t k = split_chunks(w[3], ch, MAXC), i;
		uint8_t *d = malloc(32);
		sm3_init(&c);
		c.nblocks = strtoull(w[1], NULL, 10);
		for (i = 0; i < 8; i++) c.digest[i] = ((uint32_t)st.p[4*i] << 24) | ((uint32_t)st.p[4*i+1] << 16) | ((uint32_t)st.p[4*i+2] << 8) | st.p[4*i+3];
		for (i = 0; i < k; i++) sm3_update(&c, ch[i].p, ch[i].n);
		sm3_finish(&c, d); puthex(d, 32);
		free(d); free(st.p); free_chunks(ch, k);
	}
	else if (!strcmp(w[0], "hashst") && nw == 5) {       /* any digest: install counter + chaining state via the public struct */
		const char *alg = w[1]; unsigned long long nb = strtoull(w[2], NULL, 10);
		buf_t st = hex2buf(w[3]); size_t k = split_chunks(w[4], ch, MAXC), i; uint8_t *d = malloc(64); size_t dl = 0;
#define LOAD32(arr, n) for (i = 0; i < (n); i++) (arr)[i] = ((uint32_t)st.p[4*i] << 24) | ((uint32_t)st.p[4*i+1] << 16) | ((uint32_t)st.p[4*i+2] << 8) | st.p[4*i+3]
#define LOAD64(arr, n) for (i = 0; i < (n); i++) { size_t j; uint64_t v = 0; for (j = 0; j < 8; j++) v = (v << 8) | st.p[8*i+j]; (arr)[i] = v; }
		if (!strcmp(alg, "sm3")) { SM3_CTX c; sm3_init(&c); c.nblocks = nb; LOAD32(c.digest, 8); for (i = 0; i < k; i++) sm3_update(&c, ch[i].p, ch[i].n); sm3_finish(&c, d); dl = 32; }
		else if (!strcmp(alg, "sha1")) { SHA1_CTX c; sha1_init(&c); c.nblocks = nb; LOAD32(c.state, 5); for (i = 0; i < k; i++) sha1_update(&c, ch[i].p, ch[i].n); sha1_finish(&c, d); dl = 20; }
		else if (!strcmp(alg, "sha224")) { SHA224_CTX c; sha224_init(&c); c.nblocks = nb; LOAD32(c.state, 8); for (i = 0; i < k; i++) sha224_update(&c, ch[i].p, ch[i].n); sha224_finish(&c, d); dl = 28; }
		else if (!strcmp(alg, "sha256")) { SHA256_CTX c; sha256_init(&c); c.nblocks = nb; LOAD32(c.state, 8); for (i = 0; i < k; i++) sha256_update(&c, ch[i].p, ch[i].n); sha256_finish(&c, d); dl = 32; }
		else if (!strcmp(alg, "sha384")) { SHA384_CTX c; sha384_init(&c); c.nblocks = nb; LOAD64(c.state, 8); for (i = 0; i < k; i++) sha384_update(&c, ch[i].p, ch[i].n); sha384_finish(&c, d); dl = 48; }
		else if (!strcmp(alg, "sha512")) { SHA512_CTX c; sha512_init(&c); c.nblocks = nb; LOAD64(c.state, 8); for (i = 0; i < k; i++) sha512_update(&c, ch[i].p, ch[i].n); sha512_finish(&c, d); dl = 64; }
		if (dl) puthex(d, dl); else printf("ERR");
		free(d); free(st.p); free_chunks(ch, k);
	}
	else if (!strcmp(w[0], "hmac") && nw == 3) {         /* sm3_hmac_* streaming */
		buf_t key = hex2buf(w[1]); size_t k = split_chunks(w[2], ch, MAXC), i;
		SM3_HMAC_CTX c; uint8_t *d = malloc(32);
		sm3_hmac_init(&c, key.p, key.n);
		for (i = 0; i < k; i++) sm3_hmac_update(&c, ch[i].p, ch[i].n);
		sm3_hmac_finish(&c, d); puthex(d, 32);
		free(d); free(key.p); free_chunks(ch, k);
	}
	else if (!strcmp(w[0], "hmacg") && nw == 4) {        /* generic hmac_* streaming */
		const DIGEST *dg = digest_from_name(w[1]);
		buf_t key = hex2buf(w[2]); size_t k = split_chunks(w[3], ch, MAXC), i;
		HMAC_CTX c; uint8_t *d = malloc(64); size_t dl = 0; int ok = 1;
		if (!dg || hmac_init(&c, dg, key.p, key.n) != 1) ok = 0;
		for (i = 0; ok && i < k; i++) if (hmac_update(&c, ch[i].p, ch[i].n) < 0) ok = 0;
		if (ok && hmac_finish(&c, d, &dl) != 1) ok = 0;
		if (ok) puthex(d, dl); else printf("ERR");
		free(d); free(key.p); free_chunks(ch, k);
	}
	else if (!strcmp(w[0], "hashpar") && nw == 5) {      /* hashpar alg T R len */
		const DIGEST *dg = digest_from_name(w[1]); int T = atoi(w[2]), R = atoi(w[3]), t, bad = 0; size_t len = strtoul(w[4], NULL, 10), i;
		par_t ps[8]; pthread_t th[8];
		if (!dg || T < 1 || T > 8) { printf("ERR"); return; }
		for (t = 0; t < T; t++) {
			ps[t].dg = dg; ps[t].len = len + 16 + (size_t)t * 7; ps[t].msg = malloc(ps[t].len); ps[t].rounds = R; ps[t].bad = 0;
			for (i = 0; i < ps[t].len; i++) ps[t].msg[i] = (uint8_t)(i * 31 + t * 101 + 7);
			digest(dg, ps[t].msg, ps[t].len, ps[t].ref, &ps[t].dl);
			hmac(dg, ps[t].msg, 16, ps[t].msg, ps[t].len, ps[t].mref, &ps[t].ml);
		}
		for (t = 0; t < T; t++) pthread_create(&th[t], NULL, par_worker, &ps[t]);
		for (t = 0; t < T; t++) pthread_join(th[t], NULL);
		for (t = 0; t < T; t++) { if (ps[t].bad && !bad) { printf("RACE thread=%d %s round=%d", t, ps[t].bad > 0 ? "digest" : "hmac", abs(ps[t].bad)); bad = 1; } free(ps[t].msg); }
		if (!bad) printf("OK");
	}
	else if (!strcmp(w[0], "hmacv") && nw == 5) {        /* hmac_init/update/finish_and_verify against a candidate MAC */
		const DIGEST *dg = digest_from_name(w[1]);
		buf_t key = hex2buf(w[2]), mac = hex2buf(w[4]); size_t k = split_chunks(w[3], ch, MAXC), i;
		HMAC_CTX c; int ok = 1, r = -1;
		if (!dg || hmac_init(&c, dg, key.p, key.n) != 1) ok = 0;
		for (i = 0; ok && i < k; i++) if (hmac_update(&c, ch[i].p, ch[i].n) < 0) ok = 0;
		if (ok) r = hmac_finish_and_verify(&c, mac.p, mac.n);
		if (!ok) printf("ERR"); else printf("%s", r == 1 ? "ACCEPT" : "REJECT");
		free(key.p); free(mac.p); free_chunks(ch, k);
	}
	else if (!strcmp(w[0], "sm3dg") && nw == 3) {        /* sm3_digest_*: plain SM3 (key "null") or SM3-HMAC with a 12..64-byte key */
		int nokey = !strcmp(w[1], "null");
		buf_t key = nokey ? (buf_t){ NULL, 0 } : hex2buf(w[1]); size_t k = split_chunks(w[2], ch, MAXC), i;
		SM3_DIGEST_CTX c; uint8_t *d = malloc(32); int ok = 1;
		if (sm3_digest_init(&c, nokey ? NULL : key.p, key.n) != 1) ok = 0;
		for (i = 0; ok && i < k; i++) if (sm3_digest_update(&c, ch[i].p, ch[i].n) != 1) ok = 0;
		if (ok && sm3_digest_finish(&c, d) != 1) ok = 0;
		if (ok) puthex(d, 32); else printf("ERR");
		free(d); if (!nokey) free(key.p); free_chunks(ch, k);
	}
	else if (!strcmp(w[0], "hmac1") && nw == 4) {        /* generic one-shot hmac() */
		const DIGEST *dg = digest_from_name(w[1]);
		buf_t key = hex2buf(w[2]), m = hex2buf(w[3]);
		uint8_t *d = malloc(64); size_t dl = 0;
		if (dg && hmac(dg, key.p, key.n, m.p, m.n, d, &dl) == 1) puthex(d, dl); else printf("ERR");
		free(d); free(key.p); free(m.p);
	}
	else if (!strcmp(w[0], "kdf") && nw == 3) {          /* sm3_kdf_* streaming */
		size_t k = split_chunks(w[1], ch, MAXC), i; size_t outlen = strtoul(w[2], NULL, 10);
		SM3_KDF_CTX c; uint8_t *o = malloc(outlen ? outlen : 1);
		sm3_kdf_init(&c, outlen);
		for (i = 0; i < k; i++) sm3_kdf_update(&c, ch[i].p, ch[i].n);
		sm3_kdf_finish(&c, o); puthex(o, outlen);
		free(o); free_chunks(ch, k);
	}
	else if (!strcmp(w[0], "sm2kdf") && nw == 3) {
		buf_t in = hex2buf(w[1]); size_t outlen = strtoul(w[2], NULL, 10);
		uint8_t *o = malloc(outlen ? outlen : 1);
		if (sm2_kdf(in.p, in.n, outlen, o) == 1) puthex(o, outlen); else printf("ERR");
		free(o); free(in.p);
	}
	else if (!strcmp(w[0], "pbkdf2") && nw == 5) {
		buf_t pass = hex2buf(w[1]), salt = hex2buf(w[2]);
		size_t count = strtoul(w[3], NULL, 10), outlen = strtoul(w[4], NULL, 10);
		uint8_t *o = malloc(outlen ? outlen : 1);
		if (sm3_pbkdf2((char *)pass.p, pass.n, salt.p, salt.n, count, outlen, o) == 1) puthex(o, outlen); else printf("ERR");
		free(o); free(pass.p); free(salt.p);
	}
	else if (!strcmp(w[0], "hkdfx") && nw == 4) {        /* extract: generic (alg) or "sm3direct" */
		buf_t salt = hex2buf(w[2]), ikm = hex2buf(w[3]);
		uint8_t *prk = malloc(64); size_t l = 0; int r;
		if (!strcmp(w[1], "sm3direct")) { free(prk); prk = malloc(32); r = sm3_hkdf_extract(salt.n ? salt.p : NULL, salt.n, ikm.p, ikm.n, prk); l = 32; }
		else { const DIGEST *dg = digest_from_name(w[1]); r = dg ? hkdf_extract(dg, salt.n ? salt.p : NULL, salt.n, ikm.p, ikm.n, prk, &l) : -1; }
		if (r == 1) puthex(prk, l); else printf("ERR");
		free(prk); free(salt.p); free(ikm.p);
	}
	else if (!strcmp(w[0], "hkdfe") && nw == 5) {        /* expand */
		buf_t prk = hex2buf(w[2]), info = hex2buf(w[3]); size_t L = strtoul(w[4], NULL, 10);
		uint8_t *o = malloc(L ? L : 1); int r;
		if (!strcmp(w[1], "sm3direct")) r = (prk.n == 32) ? sm3_hkdf_expand(prk.p, info.n ? info.p : NULL, info.n, L, o) : -1;
		else { const DIGEST *dg = digest_from_name(w[1]); r = dg ? hkdf_expand(dg, prk.p, prk.n, info.n ? info.p : NULL, info.n, L, o) : -1; }
		if (r == 1) puthex(o, L); else printf("ERR");
		free(o); free(prk.p); free(info.p);
	}
	else printf("ERR bad-op");
}

int main(void) { quiet_stderr(); main_loop(handle); return 0; }
