(* C03 model driver: evaluates the extracted Impl model and the Spec on each op. *)
let hx = hex_of_bytes
let both impl spec = if impl = spec then hx impl else "MODEL-IMPL-SPEC-DIFFER " ^ hx impl ^ " " ^ hx spec
let fold upd chunks init = List.fold_left upd init chunks

let hash_impl alg chunks = match alg with
  | "sm3" -> Some (sm3_finish (fold sm3_update chunks sm3_init), sm3 (List.concat chunks))
  | "sha1" -> Some (sha1_finish (fold sha1_update chunks sha1_init), sha1 (List.concat chunks))
  | "sha224" -> Some (sha224_finish (fold sha256_update chunks sha224_init), sha224 (List.concat chunks))
  | "sha256" -> Some (sha256_finish (fold sha256_update chunks sha256_init), sha256 (List.concat chunks))
  | "sha384" -> Some (sha384_finish (fold sha512_update chunks sha384_init), sha384 (List.concat chunks))
  | "sha512" -> Some (sha512_finish (fold sha512_update chunks sha512_init), sha512 (List.concat chunks))
  | "sha512-224" -> Some (sha512_224_finish (fold sha512_update chunks sha512_224_init), sha512_224 (List.concat chunks))
  | "sha512-256" -> Some (sha512_256_finish (fold sha512_update chunks sha512_256_init), sha512_256 (List.concat chunks))
  | _ -> None

let hfun alg = match alg with
  | "sm3" -> Some (sm3, 64, hmacB_sm3) | "sha1" -> Some (sha1, 64, hmacB_sha1)
  | "sha224" -> Some (sha224, 64, hmacB_sha224) | "sha256" -> Some (sha256, 64, hmacB_sha256)
  | "sha384" -> Some (sha384, 128, hmacB_sha384) | "sha512" -> Some (sha512, 128, hmacB_sha512)
  | "sha512-224" -> Some (sha512_224, 128, hmacB_sha512_224) | "sha512-256" -> Some (sha512_256, 128, hmacB_sha512_256)
  | _ -> None

let handle ws = match ws with
  | ["hash"; ("sha512-224" | "sha512-256"); _] -> "ERR unknown-alg"   (* no direct interface, dispatch only *)
  | ["hash"; alg; c] | ["digest"; alg; c] ->
    (match hash_impl alg (chunks_of c) with Some (i, s) -> both i s | None -> "ERR")
  | ["digest1"; alg; m] ->
    (match hash_impl alg [bytes_of_hex m] with Some (i, s) -> both i s | None -> "ERR")
  | ["sm3st"; nb; st; c] ->
    let stw = let b = Array.of_list (List.map int_of_n (bytes_of_hex st)) in
      List.init 8 (fun i -> n_of_int ((b.(4*i) lsl 24) lor (b.(4*i+1) lsl 16) lor (b.(4*i+2) lsl 8) lor b.(4*i+3))) in
    let nbn = bign_of_hex (Printf.sprintf "%Lx" (Int64.of_string ("0u" ^ nb))) in
    let chunks = chunks_of c in
    both (sm3_from_state stw nbn chunks) (sm3_from_state_spec stw nbn (List.concat chunks))
  | ["hashst"; alg; nb; st; c] ->
    let b = Array.of_list (List.map int_of_n (bytes_of_hex st)) in
    let word w i = (* big-endian word of w bytes at index i, as n *)
      bign_of_hex (String.concat "" (List.init w (fun j -> Printf.sprintf "%02x" b.(w*i+j)))) in
    let nbn = bign_of_hex (Printf.sprintf "%Lx" (Int64.of_string ("0u" ^ nb))) in
    let chunks = chunks_of c in
    let m = List.concat chunks in
    let rec take k l = if k = 0 then [] else (match l with [] -> [] | x :: r -> x :: take (k-1) r) in
    (match alg with
     | "sm3" -> let s = List.init 8 (word 4) in both (sm3_from_state s nbn chunks) (sm3_from_state_spec s nbn m)
     | "sha1" -> let s = List.init 5 (word 4) in both (sha1_from_state s nbn chunks) (sha1_from_state_spec s nbn m)
     | "sha256" -> let s = List.init 8 (word 4) in both (sha256_from_state s nbn chunks) (sha256_from_state_spec s nbn m)
     | "sha224" -> let s = List.init 8 (word 4) in both (take 28 (sha256_from_state s nbn chunks)) (take 28 (sha256_from_state_spec s nbn m))
     | "sha512" -> let s = List.init 8 (word 8) in both (sha512_from_state s nbn chunks) (sha512_from_state_spec s nbn m)
     | "sha384" -> let s = List.init 8 (word 8) in both (take 48 (sha512_from_state s nbn chunks)) (take 48 (sha512_from_state_spec s nbn m))
     | _ -> "ERR")
  | ["hmac"; key; c] ->
    let k = bytes_of_hex key and chunks = chunks_of c in
    both (sm3_hmac k chunks) (sm3_hmac_spec k (List.concat chunks))
  | ["hmacg"; alg; key; c] ->
    (match hfun alg with
     | Some (h, b, impl) ->
       let k = bytes_of_hex key and chunks = chunks_of c in
       if k = [] then "ERR" else both (impl k chunks) (hmac_spec h (nat_of_int b) k (List.concat chunks))
     | None -> "ERR")
  | ["hashpar"; _; _; _; _] -> "OK"      (* oracle: concurrent results equal the sequential ones, which other ops tie to the model *)
  | ["hmacv"; alg; key; c; mac] ->
    (match hfun alg with
     | Some (h, b, impl) ->
       let k = bytes_of_hex key and chunks = chunks_of c and mc = bytes_of_hex mac in
       if k = [] then "ERR" else
       let vi = mac_verify (impl k chunks) mc and vs = (mc = hmac_spec h (nat_of_int b) k (List.concat chunks)) in
       if vi <> vs then "MODEL-IMPL-SPEC-DIFFER" else if vi then "ACCEPT" else "REJECT"
     | None -> "ERR")
  | ["sm3dg"; key; c] ->
    let k = if key = "null" then None else Some (bytes_of_hex key) and chunks = chunks_of c in
    (match sm3_digest_api k chunks, sm3_digest_api_spec k (List.concat chunks) with
     | Some i, Some s -> both i s
     | None, None -> "ERR"
     | _ -> "MODEL-IMPL-SPEC-DIFFER")
  | ["hmac1"; alg; key; m] ->
    (match hfun alg with
     | Some (h, b, impl) ->
       let k = bytes_of_hex key and msg = bytes_of_hex m in
       if k = [] then "ERR" else both (impl k [msg]) (hmac_spec h (nat_of_int b) k msg)
     | None -> "ERR")
  | ["kdf"; c; outlen] ->
    let chunks = chunks_of c and n = nat_of_int (int_of_string outlen) in
    both (sm3_kdf_stream chunks n) (sm3_kdf_spec (List.concat chunks) n)
  | ["sm2kdf"; z; outlen] ->
    let zz = bytes_of_hex z and n = nat_of_int (int_of_string outlen) in
    both (sm2_kdf zz n) (sm3_kdf_spec zz n)
  | ["pbkdf2"; pass; salt; count; outlen] ->
    let p = bytes_of_hex pass and s = bytes_of_hex salt in
    let c = nat_of_int (int_of_string count) and n = nat_of_int (int_of_string outlen) in
    both (sm3_pbkdf2 p s c n) (sm3_pbkdf2_spec p s c n)
  | ["hkdfx"; alg; salt; ikm] ->
    let s = bytes_of_hex salt and i = bytes_of_hex ikm in
    (match alg with
     | "sm3" | "sm3direct" -> both (sm3_hkdf_extract s i) (sm3_hkdf_extract_spec s i)
     | "sha256" -> both (sha256_hkdf_extract s i) (sha256_hkdf_extract_spec s i)
     | _ -> "ERR")
  | ["hkdfe"; alg; prk; info; l] ->
    let p = bytes_of_hex prk and i = bytes_of_hex info and n = nat_of_int (int_of_string l) in
    let go impl spec = (match impl p i n with
      | Some r -> both r (spec p i n)
      | None -> "ERR") in
    (match alg with
     | "sm3" | "sm3direct" -> if alg = "sm3direct" && List.length p <> 32 then "ERR" else go sm3_hkdf_expand sm3_hkdf_expand_spec
     | "sha256" -> go sha256_hkdf_expand sha256_hkdf_expand_spec
     | _ -> "ERR")
  | _ -> "ERR bad-op"

let () = main_loop handle
