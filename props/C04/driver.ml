(* C04 model driver: evaluates the extracted Impl model (table-driven SM4, transcribed modes)
   and the Spec (GB/T 32907 round form, the modes' standard definitions) on each op and prints
   the Impl result; if the two differ the line starts with MODEL-IMPL-SPEC-DIFFER. *)
let hx = hex_of_bytes
let ios = int_of_string
let nat = nat_of_int

(* results are strings already rendered in the harness' format *)
let both (impl : string) (spec : string) =
  if impl = spec then impl else "MODEL-IMPL-SPEC-DIFFER " ^ impl ^ " | " ^ spec
let pair (a, b) = hx a ^ " " ^ hx b
let opt f = function Some x -> f x | None -> "ERR"
let len l = List.length l

(* generic streaming run: [upd ctx chunk] and [fin ctx]; prints "q:w,..  fq:fw  data" *)
let run_stream ?(qf = query16) ~query (ctx0 : 'c) (upd : 'c -> n list -> ('c * n list) option)
    (fin : 'c -> n list option) (chunks : n list list) : string =
  let b = Buffer.create 256 in
  let data = Buffer.create 256 in
  if chunks = [] then Buffer.add_string b ".";
  let rec go i ctx = function
    | [] -> Some ctx
    | c :: r ->
      let q = if query then Printf.sprintf "%d:" (int_of_nat (qf (nat (len c)))) else "" in
      (match upd ctx c with
       | None -> Buffer.add_string b (Printf.sprintf "%s%s%s" (if i > 0 then "," else "")
                                        q "E"); None
       | Some (ctx', o) ->
         Buffer.add_string b (Printf.sprintf "%s%s%d" (if i > 0 then "," else "") q (len o));
         Buffer.add_string data (if o = [] then "" else hx o);
         go (i + 1) ctx' r) in
  match go 0 ctx0 chunks with
  | None -> Buffer.contents b ^ " ERR"
  | Some ctx ->
    let fq = if query then Printf.sprintf "%d:" (int_of_nat query_finish) else "" in
    (match fin ctx with
     | None -> Buffer.contents b ^ " " ^ (if query then fq ^ "E" else "E") ^ " ERR"
     | Some o ->
       Buffer.add_string data (if o = [] then "" else hx o);
       let d = Buffer.contents data in
       Buffer.contents b ^ " " ^ fq ^ string_of_int (len o) ^ " " ^ (if d = "" then "-" else d))

(* the same rendering for a Spec that is a function of the whole message: per-update numbers
   cannot come from a spec, so they are taken from the impl run and only the data is compared *)
let replace_data (impl : string) (spec_data : string option) : string =
  match spec_data with
  | None -> (match String.rindex_opt impl ' ' with
      | Some i -> String.sub impl 0 i ^ " ERR" | None -> "ERR")
  | Some d -> (match String.rindex_opt impl ' ' with
      | Some i -> String.sub impl 0 i ^ " " ^ d | None -> d)
(* a spec-side verdict for streams: if the impl run ended in ERR, the spec must also say ERR *)
let stream_both impl (spec : n list option) =
  let ends_err = String.length impl >= 3 && String.sub impl (String.length impl - 3) 3 = "ERR" in
  match spec with
  | None -> if ends_err then impl else "MODEL-IMPL-SPEC-DIFFER " ^ impl ^ " | ERR"
  | Some d -> if ends_err then "MODEL-IMPL-SPEC-DIFFER " ^ impl ^ " | " ^ hx d
    else both impl (replace_data impl (Some (hx d)))

let blocks_ok d = len d mod 16 = 0

let handle ws = match ws with
  | ["blk"; dir; key; blk] ->
    let k = bytes_of_hex key and b = bytes_of_hex blk in
    if len k <> 16 || len b <> 16 then "ERR bad-op" else
    (* loop form, unrolled register-file form, Spec *)
    let u = hx (sm4_encrypt_unrolled (if dir = "enc" then sm4_set_encrypt_key k else sm4_set_decrypt_key k) b) in
    let i = hx (if dir = "enc" then implE k b else implD k b) in
    if u <> i then "MODEL-IMPL-SPEC-DIFFER unrolled/loop " ^ u ^ " | " ^ i else
    both i (hx (if dir = "enc" then specE k b else specD k b))
  | ["bc"; dir; key; blk] ->
    let k = bytes_of_hex key and b = bytes_of_hex blk in
    if len k <> 16 || len b <> 16 then "ERR bad-op" else
    if dir = "enc" then both (hx (block_cipher_encrypt (block_cipher_set_encrypt_key bLOCK_CIPHER_sm4 k) b)) (hx (specE k b))
    else both (hx (block_cipher_decrypt (block_cipher_set_decrypt_key bLOCK_CIPHER_sm4 k) b)) (hx (specD k b))
  | ["bca"; dir; key; blk] ->
    let k = bytes_of_hex key and b = bytes_of_hex blk in
    if len k <> 16 || len b <> 16 then "ERR bad-op" else
    if dir = "enc" then both (hx (bc_aes128_encrypt (bc_aes128_set_encrypt_key k) b)) (hx (aes_encrypt_block k b))
    else
      (* the Spec only: as coded the aes128 object decrypts with aes_encrypt (bc_aes128_decrypt), which
         is not the inverse; see Example bc_aes128_decrypt_refuted *)
      hx (aes_decrypt_block k b)
  | ["ecbblocks"; dir; key; data; _] ->
    let k = bytes_of_hex key and d = bytes_of_hex data in
    let n = nat (len d / 16) in
    let d' = List.filteri (fun i _ -> i < len d / 16 * 16) d in
    if dir = "enc" then both (hx (ecb_blocks (implE k) n d)) (hx (ecb_spec (specE k) d'))
    else both (hx (ecb_blocks (implD k) n d)) (hx (ecb_spec (specD k) d'))
  | ["cbcblocks"; dir; key; iv; data; _] ->
    let k = bytes_of_hex key and iv = bytes_of_hex iv and d = bytes_of_hex data in
    let n = len d / 16 in
    let d' = List.filteri (fun i _ -> i < n * 16) d in
    let last_or l = if n = 0 then iv else List.filteri (fun i _ -> i >= (n - 1) * 16) l in
    if dir = "enc" then
      (* Spec for the returned iv: the last ciphertext block, or the iv itself when nothing was processed *)
      let s = cbc_enc_spec (specE k) iv d' in
      both (pair (cbc_encrypt_blocks (implE k) (nat n) iv d)) (pair (last_or s, s))
    else
      let s = cbc_dec_spec (specD k) iv d' in
      both (pair (cbc_decrypt_blocks (implD k) (nat n) iv d)) (pair (last_or d', s))
  | ["ctrblocks"; w; key; ctr; data; _] ->
    let k = bytes_of_hex key and c = bytes_of_hex ctr and d = bytes_of_hex data in
    let n = len d / 16 in
    let d' = List.filteri (fun i _ -> i < n * 16) d in
    if w = "128" then both (pair (ctr_encrypt_blocks (implE k) (nat n) c d)) (pair (ctr_spec (specE k) c d'))
    else both (pair (ctr32_encrypt_blocks (implE k) (nat n) c d)) (pair (ctr32_spec (specE k) c d'))
  | ["cbcpad"; dir; key; iv; data; _] ->
    let k = bytes_of_hex key and iv = bytes_of_hex iv and d = bytes_of_hex data in
    if dir = "enc" then both (hx (cbc_padding_encrypt (implE k) iv d)) (hx (cbc_pad_enc_spec (specE k) iv d))
    else both (opt hx (sm4_cbc_padding_decrypt (implD k) iv d)) (opt hx (cbc_pad_dec_spec_strict (specD k) iv d))
  | ["ctr"; w; key; ctr; data; _] ->
    let k = bytes_of_hex key and c = bytes_of_hex ctr and d = bytes_of_hex data in
    if w = "128" then
      let i1 = pair (ctr_encrypt (ctr_encrypt_blocks (implE k)) c d) in
      let i2 = pair (ctr_encrypt (ctr_blocks_sf (implE k) ctr_incr) c d) in
      if i1 <> i2 then "MODEL-IMPL-SPEC-DIFFER table/small " ^ i1 ^ " | " ^ i2 else
      both i1 (pair (ctr_spec (specE k) c d))
    else
      let i1 = pair (ctr_encrypt (ctr32_encrypt_blocks (implE k)) c d) in
      let i2 = pair (ctr_encrypt (ctr_blocks_sf (implE k) ctr32_incr) c d) in
      if i1 <> i2 then "MODEL-IMPL-SPEC-DIFFER table/small " ^ i1 ^ " | " ^ i2 else
      both i1 (pair (ctr32_spec (specE k) c d))
  | ["ofb"; key; iv; data; _] ->
    let k = bytes_of_hex key and iv = bytes_of_hex iv and d = bytes_of_hex data in
    let (iv', o) = ofb_encrypt (implE k) iv d in
    (* the Spec speaks about the data only; the returned iv is compared with the C side *)
    both (pair (iv', o)) (pair (iv', ofb_spec (specE k) iv d))
  | ["cfb"; dir; s; key; iv; data; _] ->
    let k = bytes_of_hex key and iv = bytes_of_hex iv and d = bytes_of_hex data and s = ios s in
    if s < 1 || s > 16 then "ERR bad-op" else
    if dir = "enc" then
      let (iv', o) = cfb_encrypt (implE k) (nat s) iv d in
      both (pair (iv', o)) (pair (iv', cfb_enc_spec (specE k) (nat s) iv d))
    else
      let (iv', o) = cfb_decrypt (implE k) (nat s) iv d in
      both (pair (iv', o)) (pair (iv', cfb_dec_spec (specE k) (nat s) iv d))
  | ["xts"; dir; k1; k2; tw; data; _] ->
    let k1 = bytes_of_hex k1 and k2 = bytes_of_hex k2 and tw = bytes_of_hex tw and d = bytes_of_hex data in
    if dir = "enc" then
      both (opt hx (xts_encrypt (implE k1) (implE k2) xts_mul2 tw d))
        (if len d < 16 then "ERR" else hx (xts_enc_spec (specE k1) (specE k2) xts_mul2_spec tw d))
    else
      both (opt hx (xts_decrypt (implD k1) (implE k2) xts_mul2 tw d))
        (if len d < 16 then "ERR" else hx (xts_dec_spec (specD k1) (specE k2) xts_mul2_spec tw d))
  | ["xtsmul2"; t] ->
    let t = bytes_of_hex t in both (hx (xts_mul2 t)) (hx (xts_mul2_spec t))
  | ["s_ecb"; dir; key; chunks; _] ->
    let k = bytes_of_hex key and cs = chunks_of chunks in
    let m = List.concat cs in
    let f = if dir = "enc" then implE k else implD k and fs = if dir = "enc" then specE k else specD k in
    stream_both (run_stream ~query:true ecb_init (ecb_update f) ecb_finish cs)
      (if blocks_ok m then Some (ecb_spec fs m) else None)
  | ["s_cbc"; dir; key; iv; chunks; _] ->
    let k = bytes_of_hex key and iv = bytes_of_hex iv and cs = chunks_of chunks in
    let m = List.concat cs in
    if dir = "enc" then
      stream_both (run_stream ~query:true (cbc_init iv) (cbc_encrypt_update (implE k)) (cbc_encrypt_finish (implE k)) cs)
        (Some (cbc_pad_enc_spec (specE k) iv m))
    else
      stream_both (run_stream ~query:true (cbc_init iv) (cbc_decrypt_update (implD k)) (cbc_decrypt_finish (implD k)) cs)
        (cbc_pad_dec_spec_strict (specD k) iv m)
  | ["s_ctr"; w; key; ctr; chunks; _] ->
    let k = bytes_of_hex key and c = bytes_of_hex ctr and cs = chunks_of chunks in
    let m = List.concat cs in
    let blocks = if w = "128" then ctr_encrypt_blocks (implE k) else ctr32_encrypt_blocks (implE k) in
    let spec = if w = "128" then ctr_spec (specE k) c m else ctr32_spec (specE k) c m in
    stream_both (run_stream ~query:true (ctr_init c) (ctr_update blocks) (ctr_finish blocks) cs) (Some (snd spec))
  | ["s_ofb"; key; iv; chunks; _] ->
    let k = bytes_of_hex key and iv = bytes_of_hex iv and cs = chunks_of chunks in
    stream_both (run_stream ~query:true (ofb_init iv) (ofb_update (implE k)) (ofb_finish (implE k)) cs)
      (Some (ofb_spec (specE k) iv (List.concat cs)))
  | ["s_cfb"; dir; s; key; iv; chunks; _] ->
    let k = bytes_of_hex key and iv = bytes_of_hex iv and cs = chunks_of chunks and s = ios s in
    (match cfb_init (nat s) iv with
     | None -> "ERR init"
     | Some c0 ->
       let m = List.concat cs in
       if dir = "enc" then
         stream_both (run_stream ~qf:cfb_query ~query:true c0 (cfb_encrypt_update (implE k) (nat s)) (cfb_encrypt_finish (implE k) (nat s)) cs)
           (Some (cfb_enc_spec (specE k) (nat s) iv m))
       else
         stream_both (run_stream ~qf:cfb_query ~query:true c0 (cfb_decrypt_update (implE k) (nat s)) (cfb_decrypt_finish (implE k) (nat s)) cs)
           (Some (cfb_dec_spec (specE k) (nat s) iv m)))
  | ["s_xts"; dir; key; iv; dus; chunks] ->
    let key = bytes_of_hex key and iv = bytes_of_hex iv and cs = chunks_of chunks and dus = ios dus in
    if len key <> 32 then "ERR bad-op" else
    let k1 = List.filteri (fun i _ -> i < 16) key and k2 = List.filteri (fun i _ -> i >= 16) key in
    (match xts_init iv (nat dus) with
     | None -> "ERR init"
     | Some c0 ->
       let m = List.concat cs in
       let units = segs (nat dus) m in
       let ok = len m mod dus = 0 in
       if dir = "enc" then
         stream_both (run_stream ~query:false c0 (xts_encrypt_update (implE k1) (implE k2) xts_mul2 (nat dus)) (xts_finish (nat dus)) cs)
           (if ok then Some (List.concat (xts_units_spec (xts_enc_spec (specE k1) (specE k2) xts_mul2_spec) iv units)) else None)
       else
         stream_both (run_stream ~query:false c0 (xts_decrypt_update (implD k1) (implE k2) xts_mul2 (nat dus)) (xts_finish (nat dus)) cs)
           (if ok then Some (List.concat (xts_units_spec (xts_dec_spec (specD k1) (specE k2) xts_mul2_spec) iv units)) else None))
  | ["cbcmac"; key; chunks] ->
    let k = bytes_of_hex key and cs = chunks_of chunks in
    let c = List.fold_left (cbc_mac_update (implE k)) cbc_mac_init cs in
    both (hx (cbc_mac_finish (implE k) c)) (hx (cbc_mac_spec (specE k) (List.concat cs)))
  | ["a_cbcblocks"; dir; key; iv; data; _] ->
    let k = bytes_of_hex key and iv = bytes_of_hex iv and d = bytes_of_hex data in
    let n = len d / 16 in
    let d' = List.filteri (fun i _ -> i < n * 16) d in
    if dir = "enc" then
      (match aes_set_encrypt_key k with None -> "ERR key" | Some (w, r) ->
        let e = aes_encrypt_rk w r in both (hx (aes_cbc_encrypt e (nat n) iv d)) (hx (cbc_enc_spec e iv d')))
    else
      (match aes_set_decrypt_key k with None -> "ERR key" | Some (w, r) ->
        let dd = aes_decrypt_rk w r in both (hx (aes_cbc_decrypt dd (nat n) iv d)) (hx (cbc_dec_spec dd iv d')))
  | ["a_cbcpad"; dir; key; iv; data; _] ->
    let k = bytes_of_hex key and iv = bytes_of_hex iv and d = bytes_of_hex data in
    if dir = "enc" then
      (match aes_set_encrypt_key k with None -> "ERR key" | Some (w, r) ->
        let e = aes_encrypt_rk w r in both (hx (aes_cbc_padding_encrypt e iv d)) (hx (cbc_pad_enc_spec e iv d)))
    else
      (match aes_set_decrypt_key k with None -> "ERR key" | Some (w, r) ->
        let dd = aes_decrypt_rk w r in both (opt hx (aes_cbc_padding_decrypt dd iv d)) (opt hx (cbc_pad_dec_spec dd iv d)))
  | ["a_ctr"; key; ctr; data; _] ->
    let k = bytes_of_hex key and c = bytes_of_hex ctr and d = bytes_of_hex data in
    (match aes_set_encrypt_key k with None -> "ERR key" | Some (w, r) ->
      let e = aes_encrypt_rk w r in both (pair (aes_ctr_encrypt e c d)) (pair (ctr_spec e c d)))
  | ["tables"] ->
    (match sm4_table_mismatches with [] -> "ok"
     | l -> String.concat "," (List.map (fun (t, i) -> Printf.sprintf "%d:%d" (int_of_n t) (int_of_n i)) l))
  | _ -> "ERR bad-op"

let () = main_loop handle
