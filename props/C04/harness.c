/* C04 correspondence harness: SM4 block cipher, block_cipher dispatch and the non-AEAD
 * modes (ECB, CBC + PKCS#7, CTR, CTR32, CFB-s, OFB, XTS, CBC-MAC) of the current /repo tree,
 * one-shot and init/update/finish, optionally in place, with the NULL-output-buffer query
 * before every update/finish.  Input buffers are exactly sized heap blocks.  Output buffers of
 * the streaming calls are [query] bytes followed by a canary zone, so that "wrote more than
 * reported" is observed as a number (q:w with w > q) instead of a crash; a write beyond the
 * bytes the call claims to have written is reported as CANARY. */
#include "common.h"
#include <gmssl/sm4.h>
#include <gmssl/sm4_cbc_mac.h>
#include <gmssl/block_cipher.h>
#include <gmssl/gf128.h>
#include <gmssl/aes.h>

#define MAXC 160
#define CAN 64
static buf_t ch[MAXC];

static uint8_t *dup_exact(const uint8_t *p, size_t n) { uint8_t *r = malloc(n ? n : 1); if (n) memcpy(r, p, n); return r; }

/* growing output accumulator */
static uint8_t *acc; static size_t acc_n, acc_cap;
static void acc_reset(void) { acc_n = 0; }
static void acc_add(const uint8_t *p, size_t n) {
	if (acc_n + n > acc_cap) { acc_cap = (acc_n + n) * 2 + 64; acc = realloc(acc, acc_cap); }
	memcpy(acc + acc_n, p, n); acc_n += n;
}

/* ------------------------------------------------------------------ generic streaming driver */
typedef int (*upd_f)(void *ctx, const uint8_t *in, size_t inlen, uint8_t *out, size_t *outlen);
typedef int (*fin_f)(void *ctx, uint8_t *out, size_t *outlen);

/* returns 1 if everything succeeded; prints "q:w,q:w,... fq:fw " then caller prints data */
static int stream(void *ctx, upd_f upd, fin_f fin, size_t k, int inplace, int has_query, size_t dus)
{
	size_t i, total = 0; int ok = 1, canary = 0;
	acc_reset();
	if (k == 0) printf(".");
	for (i = 0; i < k && ok; i++) {
		size_t q = 0, w = 0, cap, j; uint8_t *in, *out;
		if (has_query) {
			if (upd(ctx, ch[i].p, ch[i].n, NULL, &q) != 1) { printf("%sE:E", i ? "," : ""); ok = 0; break; }
		} else {
			q = ((total % dus + ch[i].n) / dus) * dus;  /* what the xts update will produce */
		}
		if (inplace) {
			cap = (ch[i].n > q ? ch[i].n : q) + CAN;
			out = malloc(cap); memset(out, 0xA5, cap); memcpy(out, ch[i].p, ch[i].n); in = out;
		} else {
			cap = q + CAN;
			in = ch[i].p; out = malloc(cap); memset(out, 0xA5, cap);
		}
		if (upd(ctx, in, ch[i].n, out, &w) != 1) { if (has_query) printf("%s%zu:E", i ? "," : "", q); else printf("%sE", i ? "," : ""); ok = 0; free(out); break; }
		if (has_query) printf("%s%zu:%zu", i ? "," : "", q, w); else printf("%s%zu", i ? "," : "", w);
		if (w > cap) { canary = 1; w = cap; }
		for (j = (inplace && ch[i].n > w) ? ch[i].n : w; j < cap; j++) if (out[j] != 0xA5) canary = 1;
		acc_add(out, w);
		total += ch[i].n;
		free(out);
	}
	if (ok) {
		size_t fq = 0, fw = 0; uint8_t *out;
		if (has_query) { if (fin(ctx, NULL, &fq) != 1) { printf(" E:E"); ok = 0; } }
		if (ok) {
			out = malloc(fq + CAN); memset(out, 0xA5, fq + CAN);
			if (fin(ctx, out, &fw) != 1) { if (has_query) printf(" %zu:E", fq); else printf(" E"); ok = 0; }
			else {
				size_t j;
				if (has_query) printf(" %zu:%zu", fq, fw); else printf(" %zu", fw);
				if (fw > fq + CAN) { canary = 1; fw = fq + CAN; }
				for (j = fw; j < fq + CAN; j++) if (out[j] != 0xA5) canary = 1;
				acc_add(out, fw);
			}
			free(out);
		}
	}
	if (canary) { printf(" CANARY"); return 0; }
	if (!ok) { printf(" ERR"); return 0; }
	printf(" "); puthex(acc, acc_n);
	return 1;
}

/* adapters with a uniform signature */
static int u_ecb_e(void *c, const uint8_t *i, size_t n, uint8_t *o, size_t *l) { return sm4_ecb_encrypt_update(c, i, n, o, l); }
static int f_ecb_e(void *c, uint8_t *o, size_t *l) { return sm4_ecb_encrypt_finish(c, o, l); }
static int u_ecb_d(void *c, const uint8_t *i, size_t n, uint8_t *o, size_t *l) { return sm4_ecb_decrypt_update(c, i, n, o, l); }
static int f_ecb_d(void *c, uint8_t *o, size_t *l) { return sm4_ecb_decrypt_finish(c, o, l); }
static int u_cbc_e(void *c, const uint8_t *i, size_t n, uint8_t *o, size_t *l) { return sm4_cbc_encrypt_update(c, i, n, o, l); }
static int f_cbc_e(void *c, uint8_t *o, size_t *l) { return sm4_cbc_encrypt_finish(c, o, l); }
static int u_cbc_d(void *c, const uint8_t *i, size_t n, uint8_t *o, size_t *l) { return sm4_cbc_decrypt_update(c, i, n, o, l); }
static int f_cbc_d(void *c, uint8_t *o, size_t *l) { return sm4_cbc_decrypt_finish(c, o, l); }
static int u_ctr(void *c, const uint8_t *i, size_t n, uint8_t *o, size_t *l) { return sm4_ctr_encrypt_update(c, i, n, o, l); }
static int f_ctr(void *c, uint8_t *o, size_t *l) { return sm4_ctr_encrypt_finish(c, o, l); }
static int u_ctr32(void *c, const uint8_t *i, size_t n, uint8_t *o, size_t *l) { return sm4_ctr32_encrypt_update(c, i, n, o, l); }
static int f_ctr32(void *c, uint8_t *o, size_t *l) { return sm4_ctr32_encrypt_finish(c, o, l); }
static int u_ofb(void *c, const uint8_t *i, size_t n, uint8_t *o, size_t *l) { return sm4_ofb_encrypt_update(c, i, n, o, l); }
static int f_ofb(void *c, uint8_t *o, size_t *l) { return sm4_ofb_encrypt_finish(c, o, l); }
static int u_cfb_e(void *c, const uint8_t *i, size_t n, uint8_t *o, size_t *l) { return sm4_cfb_encrypt_update(c, i, n, o, l); }
static int f_cfb_e(void *c, uint8_t *o, size_t *l) { return sm4_cfb_encrypt_finish(c, o, l); }
static int u_cfb_d(void *c, const uint8_t *i, size_t n, uint8_t *o, size_t *l) { return sm4_cfb_decrypt_update(c, i, n, o, l); }
static int f_cfb_d(void *c, uint8_t *o, size_t *l) { return sm4_cfb_decrypt_finish(c, o, l); }
static int u_xts_e(void *c, const uint8_t *i, size_t n, uint8_t *o, size_t *l) { return sm4_xts_encrypt_update(c, i, n, o, l); }
static int f_xts_e(void *c, uint8_t *o, size_t *l) { return sm4_xts_encrypt_finish(c, o, l); }
static int u_xts_d(void *c, const uint8_t *i, size_t n, uint8_t *o, size_t *l) { return sm4_xts_decrypt_update(c, i, n, o, l); }
static int f_xts_d(void *c, uint8_t *o, size_t *l) { return sm4_xts_decrypt_finish(c, o, l); }

#define BAD() do { printf("ERR bad-op"); return; } while (0)

static void handle(size_t nw, char **w) {
	const char *op = w[0];
	if (!strcmp(op, "blk") && nw == 4) {             /* blk enc|dec key block */
		buf_t key = hex2buf(w[2]), b = hex2buf(w[3]); SM4_KEY k; uint8_t *o = malloc(16);
		if (key.n != 16 || b.n != 16) { printf("ERR bad-op"); }
		else {
			if (!strcmp(w[1], "enc")) sm4_set_encrypt_key(&k, key.p); else sm4_set_decrypt_key(&k, key.p);
			sm4_encrypt(&k, b.p, o); puthex(o, 16);
		}
		free(o); free(key.p); free(b.p);
	}
	else if (!strcmp(op, "bc") && nw == 4) {         /* bc enc|dec key block : block_cipher.c dispatch */
		buf_t key = hex2buf(w[2]), b = hex2buf(w[3]); BLOCK_CIPHER_KEY k; uint8_t *o = malloc(16); int r;
		const BLOCK_CIPHER *c = BLOCK_CIPHER_sm4();
		if (key.n != 16 || b.n != 16 || c->key_size != 16 || c->block_size != 16) { printf("ERR bad-op"); }
		else {
			if (!strcmp(w[1], "enc")) r = block_cipher_set_encrypt_key(&k, c, key.p) == 1 && block_cipher_encrypt(&k, b.p, o) == 1;
			else r = block_cipher_set_decrypt_key(&k, c, key.p) == 1 && block_cipher_decrypt(&k, b.p, o) == 1;
			if (r) puthex(o, 16); else printf("ERR");
		}
		free(o); free(key.p); free(b.p);
	}
	else if (!strcmp(op, "bca") && nw == 4) {        /* bca enc|dec key blk : block_cipher.c dispatch, aes128 object */
#ifndef ENABLE_AES
		/* the aes128 object exists only when block_cipher.c and this file are compiled with -DENABLE_AES
		 * (run.py does that; a plain build, e.g. ./check --replay, still links) */
		printf("ERR no-aes128-object");
#else
		buf_t key = hex2buf(w[2]), b = hex2buf(w[3]); BLOCK_CIPHER_KEY k; uint8_t *o = malloc(16); int r;
		const BLOCK_CIPHER *c = BLOCK_CIPHER_aes128();
		if (key.n != 16 || b.n != 16 || c->key_size != 16 || c->block_size != 16) { printf("ERR bad-op"); }
		else {
			if (!strcmp(w[1], "enc")) r = block_cipher_set_encrypt_key(&k, c, key.p) == 1 && block_cipher_encrypt(&k, b.p, o) == 1;
			else r = block_cipher_set_decrypt_key(&k, c, key.p) == 1 && block_cipher_decrypt(&k, b.p, o) == 1;
			if (r) puthex(o, 16); else printf("ERR");
		}
		free(o); free(key.p); free(b.p);
	#endif
	}
	else if (!strcmp(op, "ecbblocks") && nw == 5) {  /* ecbblocks enc|dec key data ip */
		buf_t key = hex2buf(w[2]), d = hex2buf(w[3]); int ip = atoi(w[4]); SM4_KEY k;
		uint8_t *in = dup_exact(d.p, d.n), *o = ip ? in : malloc(d.n ? d.n : 1);
		if (!strcmp(w[1], "enc")) sm4_set_encrypt_key(&k, key.p); else sm4_set_decrypt_key(&k, key.p);
		sm4_encrypt_blocks(&k, in, d.n / 16, o); puthex(o, d.n / 16 * 16);
		if (!ip) free(o); free(in); free(key.p); free(d.p);
	}
	else if (!strcmp(op, "cbcblocks") && nw == 6) {  /* cbcblocks enc|dec key iv data ip -> iv' out */
		buf_t key = hex2buf(w[2]), iv = hex2buf(w[3]), d = hex2buf(w[4]); int ip = atoi(w[5]); SM4_KEY k;
		uint8_t *in = dup_exact(d.p, d.n), *o = ip ? in : malloc(d.n ? d.n : 1);
		if (!strcmp(w[1], "enc")) { sm4_set_encrypt_key(&k, key.p); sm4_cbc_encrypt_blocks(&k, iv.p, in, d.n / 16, o); }
		else { sm4_set_decrypt_key(&k, key.p); sm4_cbc_decrypt_blocks(&k, iv.p, in, d.n / 16, o); }
		puthex(iv.p, 16); printf(" "); puthex(o, d.n / 16 * 16);
		if (!ip) free(o); free(in); free(key.p); free(iv.p); free(d.p);
	}
	else if (!strcmp(op, "ctrblocks") && nw == 6) {  /* ctrblocks 128|32 key ctr data ip -> ctr' out */
		buf_t key = hex2buf(w[2]), c = hex2buf(w[3]), d = hex2buf(w[4]); int ip = atoi(w[5]); SM4_KEY k;
		uint8_t *in = dup_exact(d.p, d.n), *o = ip ? in : malloc(d.n ? d.n : 1);
		sm4_set_encrypt_key(&k, key.p);
		if (!strcmp(w[1], "128")) sm4_ctr_encrypt_blocks(&k, c.p, in, d.n / 16, o); else sm4_ctr32_encrypt_blocks(&k, c.p, in, d.n / 16, o);
		puthex(c.p, 16); printf(" "); puthex(o, d.n / 16 * 16);
		if (!ip) free(o); free(in); free(key.p); free(c.p); free(d.p);
	}
	else if (!strcmp(op, "cbcpad") && nw == 6) {     /* cbcpad enc|dec key iv data ip */
		buf_t key = hex2buf(w[2]), iv = hex2buf(w[3]), d = hex2buf(w[4]); int ip = atoi(w[5]); SM4_KEY k;
		int enc = !strcmp(w[1], "enc"); size_t cap = enc ? d.n - d.n % 16 + 16 : (d.n ? d.n : 1), ol = 0; int r;
		uint8_t *in, *o;
		if (ip) { in = malloc(cap > d.n ? cap : (d.n ? d.n : 1)); memcpy(in, d.p, d.n); o = in; }
		else { in = dup_exact(d.p, d.n); o = malloc(cap); }
		if (enc) { sm4_set_encrypt_key(&k, key.p); r = sm4_cbc_padding_encrypt(&k, iv.p, in, d.n, o, &ol); }
		else { sm4_set_decrypt_key(&k, key.p); r = sm4_cbc_padding_decrypt(&k, iv.p, in, d.n, o, &ol); }
		if (r == 1) puthex(o, ol); else printf("ERR");
		if (!ip) free(o); free(in); free(key.p); free(iv.p); free(d.p);
	}
	else if (!strcmp(op, "ctr") && nw == 6) {        /* ctr 128|32 key ctr data ip -> ctr' out */
		buf_t key = hex2buf(w[2]), c = hex2buf(w[3]), d = hex2buf(w[4]); int ip = atoi(w[5]); SM4_KEY k;
		uint8_t *in = dup_exact(d.p, d.n), *o = ip ? in : malloc(d.n ? d.n : 1);
		sm4_set_encrypt_key(&k, key.p);
		if (!strcmp(w[1], "128")) sm4_ctr_encrypt(&k, c.p, in, d.n, o); else sm4_ctr32_encrypt(&k, c.p, in, d.n, o);
		puthex(c.p, 16); printf(" "); puthex(o, d.n);
		if (!ip) free(o); free(in); free(key.p); free(c.p); free(d.p);
	}
	else if (!strcmp(op, "ofb") && nw == 5) {        /* ofb key iv data ip -> iv' out */
		buf_t key = hex2buf(w[1]), iv = hex2buf(w[2]), d = hex2buf(w[3]); int ip = atoi(w[4]); SM4_KEY k;
		uint8_t *in = dup_exact(d.p, d.n), *o = ip ? in : malloc(d.n ? d.n : 1);
		sm4_set_encrypt_key(&k, key.p);
		sm4_ofb_encrypt(&k, iv.p, in, d.n, o);
		puthex(iv.p, 16); printf(" "); puthex(o, d.n);
		if (!ip) free(o); free(in); free(key.p); free(iv.p); free(d.p);
	}
	else if (!strcmp(op, "cfb") && nw == 7) {        /* cfb enc|dec s key iv data ip -> iv' out */
		size_t s = strtoul(w[2], NULL, 10);
		buf_t key = hex2buf(w[3]), iv = hex2buf(w[4]), d = hex2buf(w[5]); int ip = atoi(w[6]); SM4_KEY k;
		uint8_t *in = dup_exact(d.p, d.n), *o = ip ? in : malloc(d.n ? d.n : 1);
		if (s < 1 || s > 16) { printf("ERR bad-op"); }
		else {
			sm4_set_encrypt_key(&k, key.p);
			if (!strcmp(w[1], "enc")) sm4_cfb_encrypt(&k, s, iv.p, in, d.n, o); else sm4_cfb_decrypt(&k, s, iv.p, in, d.n, o);
			puthex(iv.p, 16); printf(" "); puthex(o, d.n);
		}
		if (!ip) free(o); free(in); free(key.p); free(iv.p); free(d.p);
	}
	else if (!strcmp(op, "xts") && nw == 7) {        /* xts enc|dec key1 key2 tweak data ip */
		buf_t k1 = hex2buf(w[2]), k2 = hex2buf(w[3]), tw = hex2buf(w[4]), d = hex2buf(w[5]); int ip = atoi(w[6]);
		SM4_KEY key1, key2; int r;
		uint8_t *in = dup_exact(d.p, d.n), *o = ip ? in : malloc(d.n ? d.n : 1);
		sm4_set_encrypt_key(&key2, k2.p);
		if (!strcmp(w[1], "enc")) { sm4_set_encrypt_key(&key1, k1.p); r = sm4_xts_encrypt(&key1, &key2, tw.p, in, d.n, o); }
		else { sm4_set_decrypt_key(&key1, k1.p); r = sm4_xts_decrypt(&key1, &key2, tw.p, in, d.n, o); }
		if (r == 1) puthex(o, d.n); else printf("ERR");
		if (!ip) free(o); free(in); free(k1.p); free(k2.p); free(tw.p); free(d.p);
	}
	else if (!strcmp(op, "xtsmul2") && nw == 2) {    /* the tweak update of sm4_xts.c */
		buf_t t = hex2buf(w[1]); gf128_t a; uint8_t *o = malloc(16);
		gf128_from_bytes(a, t.p); gf128_mul_by_2(a, a); gf128_to_bytes(a, o); puthex(o, 16);
		free(o); free(t.p);
	}
	else if (!strcmp(op, "s_ecb") && nw == 5) {      /* s_ecb enc|dec key chunks ip */
		buf_t key = hex2buf(w[2]); size_t k = split_chunks(w[3], ch, MAXC); SM4_ECB_CTX c; int enc = !strcmp(w[1], "enc");
		if ((enc ? sm4_ecb_encrypt_init(&c, key.p) : sm4_ecb_decrypt_init(&c, key.p)) != 1) printf("ERR init");
		else stream(&c, enc ? u_ecb_e : u_ecb_d, enc ? f_ecb_e : f_ecb_d, k, atoi(w[4]), 1, 0);
		free(key.p); free_chunks(ch, k);
	}
	else if (!strcmp(op, "s_cbc") && nw == 6) {      /* s_cbc enc|dec key iv chunks ip */
		buf_t key = hex2buf(w[2]), iv = hex2buf(w[3]); size_t k = split_chunks(w[4], ch, MAXC); SM4_CBC_CTX c; int enc = !strcmp(w[1], "enc");
		if ((enc ? sm4_cbc_encrypt_init(&c, key.p, iv.p) : sm4_cbc_decrypt_init(&c, key.p, iv.p)) != 1) printf("ERR init");
		else stream(&c, enc ? u_cbc_e : u_cbc_d, enc ? f_cbc_e : f_cbc_d, k, atoi(w[5]), 1, 0);
		free(key.p); free(iv.p); free_chunks(ch, k);
	}
	else if (!strcmp(op, "s_ctr") && nw == 6) {      /* s_ctr 128|32 key ctr chunks ip */
		buf_t key = hex2buf(w[2]), iv = hex2buf(w[3]); size_t k = split_chunks(w[4], ch, MAXC); SM4_CTR_CTX c; int w128 = !strcmp(w[1], "128");
		if ((w128 ? sm4_ctr_encrypt_init(&c, key.p, iv.p) : sm4_ctr32_encrypt_init(&c, key.p, iv.p)) != 1) printf("ERR init");
		else stream(&c, w128 ? u_ctr : u_ctr32, w128 ? f_ctr : f_ctr32, k, atoi(w[5]), 1, 0);
		free(key.p); free(iv.p); free_chunks(ch, k);
	}
	else if (!strcmp(op, "s_ofb") && nw == 5) {      /* s_ofb key iv chunks ip */
		buf_t key = hex2buf(w[1]), iv = hex2buf(w[2]); size_t k = split_chunks(w[3], ch, MAXC); SM4_OFB_CTX c;
		if (sm4_ofb_encrypt_init(&c, key.p, iv.p) != 1) printf("ERR init");
		else stream(&c, u_ofb, f_ofb, k, atoi(w[4]), 1, 0);
		free(key.p); free(iv.p); free_chunks(ch, k);
	}
	else if (!strcmp(op, "s_cfb") && nw == 7) {      /* s_cfb enc|dec s key iv chunks ip */
		size_t s = strtoul(w[2], NULL, 10);
		buf_t key = hex2buf(w[3]), iv = hex2buf(w[4]); size_t k = split_chunks(w[5], ch, MAXC); SM4_CFB_CTX c; int enc = !strcmp(w[1], "enc");
		if ((enc ? sm4_cfb_encrypt_init(&c, s, key.p, iv.p) : sm4_cfb_decrypt_init(&c, s, key.p, iv.p)) != 1) printf("ERR init");
		else stream(&c, enc ? u_cfb_e : u_cfb_d, enc ? f_cfb_e : f_cfb_d, k, atoi(w[6]), 1, 0);
		free(key.p); free(iv.p); free_chunks(ch, k);
	}
	else if (!strcmp(op, "s_xts") && nw == 6) {      /* s_xts enc|dec key32 iv dus chunks */
		buf_t key = hex2buf(w[2]), iv = hex2buf(w[3]); size_t dus = strtoul(w[4], NULL, 10);
		size_t k = split_chunks(w[5], ch, MAXC); SM4_XTS_CTX c; int enc = !strcmp(w[1], "enc");
		if (key.n != 32) printf("ERR bad-op");
		else if ((enc ? sm4_xts_encrypt_init(&c, key.p, iv.p, dus) : sm4_xts_decrypt_init(&c, key.p, iv.p, dus)) != 1) printf("ERR init");
		else stream(&c, enc ? u_xts_e : u_xts_d, enc ? f_xts_e : f_xts_d, k, 0, 0, dus);
		free(key.p); free(iv.p); free_chunks(ch, k);
	}
	else if (!strcmp(op, "cbcmac") && nw == 3) {     /* cbcmac key chunks */
		buf_t key = hex2buf(w[1]); size_t k = split_chunks(w[2], ch, MAXC), i; SM4_CBC_MAC_CTX c; uint8_t *m = malloc(16);
		sm4_cbc_mac_init(&c, key.p);
		for (i = 0; i < k; i++) sm4_cbc_mac_update(&c, ch[i].p, ch[i].n);
		sm4_cbc_mac_finish(&c, m); puthex(m, 16);
		free(m); free(key.p); free_chunks(ch, k);
	}
	else if (!strcmp(op, "a_cbcblocks") && nw == 6) { /* a_cbcblocks enc|dec key iv data ip : aes_cbc_encrypt/decrypt */
		buf_t key = hex2buf(w[2]), iv = hex2buf(w[3]), d = hex2buf(w[4]); int ip = atoi(w[5]); AES_KEY k;
		uint8_t *in = dup_exact(d.p, d.n), *o = ip ? in : malloc(d.n ? d.n : 1); int enc = !strcmp(w[1], "enc");
		if ((enc ? aes_set_encrypt_key(&k, key.p, key.n) : aes_set_decrypt_key(&k, key.p, key.n)) != 1) printf("ERR key");
		else {
			if (enc) aes_cbc_encrypt(&k, iv.p, in, d.n / 16, o); else aes_cbc_decrypt(&k, iv.p, in, d.n / 16, o);
			puthex(o, d.n / 16 * 16);
		}
		if (!ip) free(o); free(in); free(key.p); free(iv.p); free(d.p);
	}
	else if (!strcmp(op, "a_cbcpad") && nw == 6) {   /* a_cbcpad enc|dec key iv data ip : aes_cbc_padding_* */
		buf_t key = hex2buf(w[2]), iv = hex2buf(w[3]), d = hex2buf(w[4]); int ip = atoi(w[5]); AES_KEY k;
		int enc = !strcmp(w[1], "enc"); size_t cap = enc ? d.n - d.n % 16 + 16 : (d.n ? d.n : 1), ol = 0; int r;
		uint8_t *in, *o;
		if (ip) { in = malloc(cap > d.n ? cap : (d.n ? d.n : 1)); memcpy(in, d.p, d.n); o = in; }
		else { in = dup_exact(d.p, d.n); o = malloc(cap); }
		if ((enc ? aes_set_encrypt_key(&k, key.p, key.n) : aes_set_decrypt_key(&k, key.p, key.n)) != 1) printf("ERR key");
		else {
			r = enc ? aes_cbc_padding_encrypt(&k, iv.p, in, d.n, o, &ol) : aes_cbc_padding_decrypt(&k, iv.p, in, d.n, o, &ol);
			if (r == 1) puthex(o, ol); else printf("ERR");
		}
		if (!ip) free(o); free(in); free(key.p); free(iv.p); free(d.p);
	}
	else if (!strcmp(op, "a_ctr") && nw == 5) {      /* a_ctr key ctr data ip -> ctr' out : aes_ctr_encrypt */
		buf_t key = hex2buf(w[1]), c = hex2buf(w[2]), d = hex2buf(w[3]); int ip = atoi(w[4]); AES_KEY k;
		uint8_t *in = dup_exact(d.p, d.n), *o = ip ? in : malloc(d.n ? d.n : 1);
		if (aes_set_encrypt_key(&k, key.p, key.n) != 1) printf("ERR key");
		else { aes_ctr_encrypt(&k, c.p, in, d.n, o); puthex(c.p, 16); printf(" "); puthex(o, d.n); }
		if (!ip) free(o); free(in); free(key.p); free(c.p); free(d.p);
	}
	else printf("ERR bad-op");
}

int main(void) { quiet_stderr(); main_loop(handle); return 0; }
