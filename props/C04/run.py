"""C04 (block cipher core + non-AEAD modes): SM4 and its ECB / CBC+PKCS#7 / CTR / CTR32 / CFB-s /
OFB / XTS / CBC-MAC interfaces equal the standards' definitions, invert, are chunking-invariant
and never write more than the NULL-buffer query reports."""
import os, re, sys, time
from vlib import core
from vlib.core import hexs

sys.path.insert(0, os.path.join(core.ROOT, "tools"))
import consts_sm4  # noqa: E402

K0 = bytes.fromhex("0123456789abcdeffedcba9876543210")
TABLE_NAMES = {0: "T0", 1: "T1", 2: "T2", 3: "T3", 4: "S", 5: "FK", 6: "CK"}


def chunks_str(chunks):
    return ",".join(hexs(c) for c in chunks) if chunks else "."


def lclass(n, B=16):
    if n == 0:
        return "len0"
    r = n % B
    return "len%%%d=%s" % (B, "0" if r == 0 else ("1" if r == 1 else ("B-1" if r == B - 1 else "mid")))


def kclass(chunks):
    k = len(chunks)
    e = any(len(c) == 0 for c in chunks)
    return ("k0" if k == 0 else "k1" if k == 1 else "k2-5" if k <= 5 else "k>5") + ("+empty" if e else "")


def cfb_over(s, chunks):
    """does some update write more than the NULL-buffer answer inlen + 16?  (never: pending < s <= 16;
    before fix 99a4fc4 the answer was 16*ceil(inlen/16) and s = 3, pending 2, inlen 16 wrote 18)"""
    nb = 0
    for c in chunks:
        if ((nb + len(c)) // s) * s > len(c) + 16:
            return True
        nb = (nb + len(c)) % s
    return False


def aligned_split(r, data, B, k):
    """chunks whose lengths are multiples of B except the last (in-place streaming is only
    meaningful when no bytes are pending at the start of an update)"""
    nblk = len(data) // B
    cuts = sorted(r.below(nblk + 1) * B for _ in range(k - 1))
    cuts = [0] + cuts + [len(data)]
    return [data[cuts[i]:cuts[i + 1]] for i in range(len(cuts) - 1)]


class Gen:
    def __init__(self, ctx):
        self.ctx, self.r = ctx, ctx.rng
        self.thorough = ctx.tier == "thorough"
        self.cases = []
        self.cbc_enc_jobs = []   # (key, iv, msg) whose ciphertext is needed for decrypt cases
        self.aes_enc_jobs = []

    def add(self, line, cell):
        self.cases.append((line, cell))

    def key(self):
        return K0 if self.r.chance(1, 3) else self.r.bytes(16)

    # ------------------------------------------------------------------ one message through every API of a mode
    def mode_cases(self, mode, msg, key=None, tag="", streams=True):
        r = self.r
        key = key or self.key()
        iv = r.bytes(16)
        n = len(msg)
        ip = 1 if r.chance(1, 2) else 0
        hk, hiv, hm = hexs(key), hexs(iv), hexs(msg)
        lc = lclass(n) + tag
        if mode == "ecb":
            d = msg[:n - n % 16]
            for dr in ("enc", "dec"):
                self.add("ecbblocks %s %s %s %d" % (dr, hk, hexs(d), ip if dr == "enc" else 0), "ecbblocks:%s:%s" % (dr, "n0" if not d else "n>0") + (":inplace" if ip and dr == "enc" else ""))
                if streams:
                    ch = r.split(msg)
                    self.add("s_ecb %s %s %s 0" % (dr, hk, chunks_str(ch)), "s_ecb:%s:%s:%s" % (dr, lc, kclass(ch)))
        elif mode == "cbc":
            d = msg[:n - n % 16]
            self.add("cbcblocks enc %s %s %s %d" % (hk, hiv, hexs(d), ip), "cbcblocks:enc:%s" % ("nblocks=0" if not d else "n>0") + (":inplace" if ip and d else ""))
            self.add("cbcblocks dec %s %s %s 0" % (hk, hiv, hexs(d)), "cbcblocks:dec:%s" % ("nblocks=0" if not d else "n>0"))
            self.add("cbcpad enc %s %s %s %d" % (hk, hiv, hm, ip), "cbcpad:enc:%s" % lc + (":inplace" if ip else ""))
            if streams:
                ch = r.split(msg)
                self.add("s_cbc enc %s %s %s 0" % (hk, hiv, chunks_str(ch)), "s_cbc:enc:%s:%s" % (lc, kclass(ch)))
            self.cbc_enc_jobs.append((key, iv, msg, tag, streams))
        elif mode in ("ctr", "ctr32"):
            w = "128" if mode == "ctr" else "32"
            d = msg[:n - n % 16]
            self.add("ctrblocks %s %s %s %s %d" % (w, hk, hiv, hexs(d), ip), "ctrblocks:%s:%s" % (w, "n0" if not d else "n>0") + (":inplace" if ip else ""))
            self.add("ctr %s %s %s %s %d" % (w, hk, hiv, hm, ip), "ctr:%s:%s" % (w, lc) + (":inplace" if ip else ""))
            if streams:
                ch = r.split(msg)
                self.add("s_ctr %s %s %s %s 0" % (w, hk, hiv, chunks_str(ch)), "s_ctr:%s:%s:%s" % (w, lc, kclass(ch)))
        elif mode == "ofb":
            self.add("ofb %s %s %s %d" % (hk, hiv, hm, ip), "ofb:%s" % lc + (":inplace" if ip else ""))
            if streams:
                ch = r.split(msg)
                self.add("s_ofb %s %s %s 0" % (hk, hiv, chunks_str(ch)), "s_ofb:%s:%s" % (lc, kclass(ch)))
        elif mode.startswith("cfb"):
            s = int(mode[3:])
            sc = "s=%d" % s if s in (1, 8, 16) else ("s|16" if 16 % s == 0 else "s∤16")
            lcs = lclass(n, s) + tag
            self.add("cfb enc %d %s %s %s %d" % (s, hk, hiv, hm, ip), "cfb:enc:%s:%s" % (sc, lcs) + (":inplace" if ip else ""))
            self.add("cfb dec %d %s %s %s 0" % (s, hk, hiv, hm), "cfb:dec:%s:%s" % (sc, lcs))
            if streams:
                for dr in ("enc", "dec"):
                    ch = r.split(msg)
                    cell = "s_cfb:%s:written>reported" % dr if cfb_over(s, ch) else "s_cfb:%s:%s:%s:%s" % (dr, sc, lcs, kclass(ch))
                    self.add("s_cfb %s %d %s %s %s 0" % (dr, s, hk, hiv, chunks_str(ch)), cell)
        elif mode == "xts":
            k2 = r.bytes(16)
            cls = "short" if n < 16 else ("whole" if n % 16 == 0 else "steal")
            for dr in ("enc", "dec"):
                self.add("xts %s %s %s %s %s %d" % (dr, hk, hexs(k2), hiv, hm, ip if dr == "enc" else 0), "xts:%s:%s" % (dr, cls) + tag + (":inplace" if ip and dr == "enc" else ""))
        elif mode == "mac":
            ch = r.split(msg)
            self.add("cbcmac %s %s" % (hk, chunks_str(ch)), "cbcmac:%s:%s" % (lc, kclass(ch)))

    # ------------------------------------------------------------------ the families
    def block_cipher(self):
        r = self.r
        self.add("blk enc %s %s" % (hexs(K0), hexs(K0)), "blk:enc:standard-vector")
        self.add("blk dec %s 681edf34d206965e86b3e94f536e4246" % hexs(K0), "blk:dec:standard-vector")
        for i in range(300 if not self.thorough else 3000):
            k, b = r.bytes(16), r.bytes(16)
            if i < 40:   # sparse keys/blocks: every S-box row, single-bit inputs
                k = bytes(16) if i % 2 else bytes([0xff] * 16)
                b = (1 << (i * 3)).to_bytes(16, "big")
            self.add("blk enc %s %s" % (hexs(k), hexs(b)), "blk:enc:%s" % ("sparse" if i < 40 else "random"))
            self.add("blk dec %s %s" % (hexs(k), hexs(b)), "blk:dec:%s" % ("sparse" if i < 40 else "random"))
            if i % 4 == 0:
                self.add("bc enc %s %s" % (hexs(k), hexs(b)), "bc:enc")
                self.add("bc dec %s %s" % (hexs(k), hexs(b)), "bc:dec")
        # every byte value through every S-box position of the first round and of the key schedule
        for v in range(256):
            self.add("blk enc %s %s" % (hexs(bytes([v] * 16)), hexs(bytes([v ^ 0x5a] * 16))), "blk:enc:bytesweep")
        for i in range(64 if not self.thorough else 512):
            self.add("xtsmul2 %s" % hexs(r.bytes(16)), "xtsmul2:random")
        for t in ("00" * 15 + "01", "80" + "00" * 15, "ff" * 16, "00" * 16, "00" * 7 + "01" + "00" * 8, "00" * 8 + "80" + "00" * 7, "e1" + "00" * 15):
            self.add("xtsmul2 " + t, "xtsmul2:edge")

    def dense(self):
        """lengths 0..Ld dense for every mode under the fixed key, then block-boundary triples up to
        4096 (quick) or every length up to 4096 (thorough), the modes taking turns"""
        r = self.r
        modes = ["ecb", "cbc", "ctr", "ctr32", "ofb", "xts", "mac"] + ["cfb%d" % s for s in range(1, 17)]
        Ld = 130 if not self.thorough else 520
        for mode in modes:
            top = Ld if not mode.startswith("cfb") or mode in ("cfb1", "cfb8", "cfb16") else (48 if not self.thorough else Ld)
            for n in range(0, top + 1):
                self.mode_cases(mode, r.bytes(n), key=K0, tag=":dense")
        big = ["ecb", "cbc", "ctr", "ctr32", "ofb", "xts", "mac", "cfb1", "cfb3", "cfb8", "cfb13", "cfb16"]
        if self.thorough:
            # every length up to 4096 once, the modes taking turns (cfb1/cfb3: 16x/5x the block calls, kept short)
            i = 0
            for n in range(Ld + 1, 4097):
                mode = big[i % len(big)]; i += 1
                if mode in ("cfb1", "cfb3") and n > 1500:
                    mode = ("ctr", "cbc", "ofb", "ecb")[i % 4]
                self.mode_cases(mode, r.bytes(n), key=K0, tag=":dense", streams=(i % 3 == 0))
        else:
            i = 0
            for kblk in range(Ld // 16 + 1, 257):
                for d in (-1, 0, 1):
                    n = kblk * 16 + d
                    if n > 4096 or (kblk % 4 and kblk < 250):
                        continue
                    mode = big[i % len(big)]; i += 1
                    if mode in ("cfb1", "cfb3") and n > 1500:
                        mode = "ctr"
                    self.mode_cases(mode, r.bytes(n), key=K0, tag=":big", streams=(i % 2 == 0))

    def chunkings(self):
        r = self.r
        msg = r.bytes(50)
        key, iv = r.bytes(16), r.bytes(16)
        hk, hiv = hexs(key), hexs(iv)
        # exhaustive two-way splits of a 50-byte message, every streaming interface
        for off in range(0, 51):
            ch = [msg[:off], msg[off:]]
            cs = chunks_str(ch)
            oc = "blk" if off % 16 == 0 else "mid"
            self.add("s_cbc enc %s %s %s 0" % (hk, hiv, cs), "s_cbc:enc:split2@%s" % oc)
            self.add("s_ctr 128 %s %s %s 0" % (hk, hiv, cs), "s_ctr:128:split2@%s" % oc)
            self.add("s_ctr 32 %s %s %s 0" % (hk, hiv, cs), "s_ctr:32:split2@%s" % oc)
            self.add("s_ofb %s %s %s 0" % (hk, hiv, cs), "s_ofb:split2@%s" % oc)
            self.add("cbcmac %s %s" % (hk, cs), "cbcmac:split2@%s" % oc)
            ch48 = [msg[:48][:off], msg[:48][off:]]
            self.add("s_ecb enc %s %s 0" % (hk, chunks_str(ch48)), "s_ecb:enc:split2@%s" % oc)
            self.add("s_ecb dec %s %s 0" % (hk, chunks_str(ch48)), "s_ecb:dec:split2@%s" % oc)
            for s in ((3, 5, 16) if not self.thorough else range(1, 17)):
                for dr in ("enc", "dec"):
                    cell = "s_cfb:%s:written>reported" % dr if cfb_over(s, ch) else "s_cfb:%s:split2:s=%d" % (dr, s)
                    self.add("s_cfb %s %d %s %s %s 0" % (dr, s, hk, hiv, cs), cell)
            self.cbc_enc_jobs.append((key, iv, msg[:off % 48 + 1], ":split2", ("split2", off)))
        # random k-way splits with empty chunks, in-place with block-aligned chunks
        nrand = 60 if not self.thorough else 600
        for i in range(nrand):
            n = r.below(700) if not self.thorough or i % 5 else r.below(6000)
            m = r.bytes(n)
            key, iv = self.key(), r.bytes(16)
            hk, hiv = hexs(key), hexs(iv)
            k = r.range(1, 12)
            ch = r.split(m, k)
            if r.chance(1, 3):
                ch.insert(r.below(len(ch) + 1), b"")
            cs, kc, lc = chunks_str(ch), kclass(ch), lclass(n)
            which = i % 6
            if which == 0:
                self.add("s_cbc enc %s %s %s 0" % (hk, hiv, cs), "s_cbc:enc:%s:%s" % (lc, kc))
                self.cbc_enc_jobs.append((key, iv, m, ":rand", ("kway", k)))
            elif which == 1:
                self.add("s_ctr 128 %s %s %s 0" % (hk, hiv, cs), "s_ctr:128:%s:%s" % (lc, kc))
                self.add("s_ctr 32 %s %s %s 0" % (hk, hiv, cs), "s_ctr:32:%s:%s" % (lc, kc))
            elif which == 2:
                self.add("s_ofb %s %s %s 0" % (hk, hiv, cs), "s_ofb:%s:%s" % (lc, kc))
                self.add("cbcmac %s %s" % (hk, cs), "cbcmac:%s:%s" % (lc, kc))
            elif which == 3:
                for dr in ("enc", "dec"):
                    self.add("s_ecb %s %s %s 0" % (dr, hk, cs), "s_ecb:%s:%s:%s" % (dr, lc, kc))
            elif which == 4:
                s = r.range(1, 16)
                sc = "s|16" if 16 % s == 0 else "s∤16"
                for dr in ("enc", "dec"):
                    cell = "s_cfb:%s:written>reported" % dr if cfb_over(s, ch) else "s_cfb:%s:%s:%s:%s" % (dr, sc, lclass(n, s), kc)
                    self.add("s_cfb %s %d %s %s %s 0" % (dr, s, hk, hiv, cs), cell)
            else:
                dus = r.choice([16, 17, 31, 32, 33, 100, 512])
                key32 = r.bytes(32)
                tot = r.choice([0, dus, 2 * dus, 3 * dus, 3 * dus + 1, dus - 1])
                mm = r.bytes(tot)
                chx = r.split(mm, k)
                okc = "whole-units" if tot % dus == 0 else "partial-unit"
                for dr in ("enc", "dec"):
                    self.add("s_xts %s %s %s %d %s" % (dr, hexs(key32), hiv, dus, chunks_str(chx)), "s_xts:%s:dus%s:%s:%s" % (dr, "16" if dus == 16 else ("%16=0" if dus % 16 == 0 else "%16nz"), okc, kclass(chx)))
            # in place, block-aligned chunks (encrypt direction)
            if i % 3 == 0:
                cha = aligned_split(r, m, 16, r.range(1, 5))
                ca = chunks_str(cha)
                self.add("s_cbc enc %s %s %s 1" % (hk, hiv, ca), "s_cbc:enc:inplace")
                self.add("s_ctr 128 %s %s %s 1" % (hk, hiv, ca), "s_ctr:128:inplace")
                self.add("s_ctr 32 %s %s %s 1" % (hk, hiv, ca), "s_ctr:32:inplace")
                self.add("s_ofb %s %s %s 1" % (hk, hiv, ca), "s_ofb:inplace")
                self.add("s_ecb enc %s %s 1" % (hk, ca), "s_ecb:enc:inplace")
                s = r.range(1, 16)
                chs = aligned_split(r, m, s, r.range(1, 5))
                self.add("s_cfb enc %d %s %s %s 1" % (s, hk, hiv, chunks_str(chs)), "s_cfb:enc:inplace")
        # the CFB buffer-size family: pending s-1 bytes, then 16 / 32 bytes (DESIGN 5 #9), every s
        for s in range(1, 17):
            for first in sorted({0, 1, s - 1, s // 2} - {-1}):
                for second in (16, 32, 15, 17, 1):
                    m = r.bytes(first + second + 3)
                    ch = [m[:first], m[first:first + second], m[first + second:]]
                    for dr in ("enc", "dec"):
                        cell = "s_cfb:%s:written>reported" % dr if cfb_over(s, ch) else "s_cfb:%s:%s:pending%s" % (dr, "s|16" if 16 % s == 0 else "s∤16", "0" if first == 0 else ("s-1" if first == s - 1 else "mid"))
                        self.add("s_cfb %s %d %s %s %s 0" % (dr, s, hexs(K0), hexs(iv), chunks_str(ch)), cell)

    def counters(self):
        r = self.r
        edges = []
        for low in (0xffffffff, 0xfffffffe, 0xfffffffd, 0xffffff00, 0x7fffffff, 0):
            for hi in ("ff" * 12, "00" * 12, "ff" * 4 + "00" * 4 + "ff" * 4, "00" * 4 + "ff" * 8, r.bytes(12).hex()):
                edges.append(bytes.fromhex(hi) + low.to_bytes(4, "big"))
        edges += [bytes.fromhex("00" * 7 + "ff" * 9), bytes.fromhex("ff" * 8 + "00" * 8), bytes.fromhex("00" * 8 + "ff" * 8),
                  bytes.fromhex("01" + "ff" * 15), bytes.fromhex("ff" * 15 + "fe")]
        for c in edges:
            wrap32 = int.from_bytes(c[12:], "big") >= 0xfffffffd
            wrap64 = int.from_bytes(c[8:], "big") >= 2**64 - 3
            wrap128 = int.from_bytes(c, "big") >= 2**128 - 3
            cls = "wrap128" if wrap128 else ("carry64" if wrap64 else ("carry32" if wrap32 else "nocarry"))
            for n in (16, 48, 70):
                m = r.bytes(n)
                key = self.key()
                for w in ("128", "32"):
                    self.add("ctr %s %s %s %s 0" % (w, hexs(key), hexs(c), hexs(m)), "ctr:%s:counter-%s" % (w, cls))
                    self.add("ctrblocks %s %s %s %s 0" % (w, hexs(key), hexs(c), hexs(m[:n - n % 16])), "ctrblocks:%s:counter-%s" % (w, cls))
                    ch = r.split(m, 3)
                    self.add("s_ctr %s %s %s %s 0" % (w, hexs(key), hexs(c), chunks_str(ch)), "s_ctr:%s:counter-%s" % (w, cls))
        # XTS data-unit tweak carry (little-endian increment between data units)
        for tw in ("ff" + "00" * 15, "ff" * 2 + "00" * 14, "ff" * 16, "fe" + "ff" * 15, "ff" * 8 + "00" * 8):
            key32 = r.bytes(32)
            m = r.bytes(96)
            for dr in ("enc", "dec"):
                self.add("s_xts %s %s %s 32 %s" % (dr, hexs(key32), tw, chunks_str(r.split(m, 3))), "s_xts:%s:tweak-carry" % dr)

    def malformed(self):
        r = self.r
        hk, hiv = hexs(r.bytes(16)), hexs(r.bytes(16))
        for n in (0, 1, 15, 17, 31, 33):
            self.add("cbcpad dec %s %s %s 0" % (hk, hiv, hexs(r.bytes(n))), "cbcpad:dec:badlen%s" % ("0" if n == 0 else ""))
            self.add("s_cbc dec %s %s %s 0" % (hk, hiv, chunks_str(r.split(r.bytes(n), 2))), "s_cbc:dec:badlen")
        self.add("s_cbc dec %s %s . 0" % (hk, hiv), "s_cbc:dec:nodata")
        for i in range(40):
            self.add("cbcpad dec %s %s %s 0" % (hk, hiv, hexs(r.bytes(16 * r.range(1, 4)))), "cbcpad:dec:random-ciphertext")
        for n in (0, 1, 15):
            for dr in ("enc", "dec"):
                self.add("xts %s %s %s %s %s 0" % (dr, hk, hk, hiv, hexs(r.bytes(n))), "xts:%s:short" % dr)
        for s in (0, 17, 100):
            self.add("s_cfb enc %d %s %s %s 0" % (s, hk, hiv, "00"), "s_cfb:enc:bad-s")
            self.add("s_cfb dec %d %s %s %s 0" % (s, hk, hiv, "00"), "s_cfb:dec:bad-s")
        for dus in (0, 1, 15):
            self.add("s_xts enc %s %s %d 00" % (hexs(r.bytes(32)), hiv, dus), "s_xts:enc:bad-dus")
            self.add("s_xts dec %s %s %d 00" % (hexs(r.bytes(32)), hiv, dus), "s_xts:dec:bad-dus")
        for n in (1, 15, 17, 40):
            for dr in ("enc", "dec"):
                self.add("s_ecb %s %s %s 0" % (dr, hk, chunks_str(r.split(r.bytes(n), 2))), "s_ecb:%s:partial-total" % dr)

    def aes_modes(self):
        """src/aes_modes.c (one-shot API only): every key size, lengths dense, in place for encryption"""
        r = self.r
        top = 100 if not self.thorough else 600
        for kl in (16, 24, 32):
            key = r.bytes(kl)
            hk = hexs(key)
            for n in list(range(0, top + 1)) + ([255, 256, 257, 1023, 1024, 1025] if kl == 16 else []):
                iv, m = r.bytes(16), r.bytes(n)
                ip = 1 if r.chance(1, 2) else 0
                lc = lclass(n)
                d = m[:n - n % 16]
                self.add("a_cbcpad enc %s %s %s %d" % (hk, hexs(iv), hexs(m), ip), "a_cbcpad:enc:k%d:%s" % (kl, lc) + (":inplace" if ip else ""))
                self.add("a_ctr %s %s %s %d" % (hk, hexs(iv), hexs(m), ip), "a_ctr:k%d:%s" % (kl, lc) + (":inplace" if ip else ""))
                if n % 3 == 0:
                    self.add("a_cbcblocks enc %s %s %s %d" % (hk, hexs(iv), hexs(d), ip), "a_cbcblocks:enc:k%d:%s" % (kl, "n0" if not d else "n>0") + (":inplace" if ip else ""))
                    self.add("a_cbcblocks dec %s %s %s 0" % (hk, hexs(iv), hexs(d)), "a_cbcblocks:dec:k%d:%s" % (kl, "n0" if not d else "n>0"))
                self.aes_enc_jobs.append((key, iv, m))
            for c in ("ff" * 16, "00" * 8 + "ff" * 8, "00" * 12 + "ffffffff", "ff" * 15 + "fe"):
                self.add("a_ctr %s %s %s 0" % (hk, c, hexs(r.bytes(50))), "a_ctr:k%d:counter-edge" % kl)
            for n in (0, 1, 15, 17, 33):
                self.add("a_cbcpad dec %s %s %s 0" % (hk, hexs(r.bytes(16)), hexs(r.bytes(n))), "a_cbcpad:dec:k%d:badlen" % kl)
            for i in range(12):
                self.add("a_cbcpad dec %s %s %s 0" % (hk, hexs(r.bytes(16)), hexs(r.bytes(16 * r.range(1, 3)))), "a_cbcpad:dec:k%d:random-ciphertext" % kl)
        for kl in (0, 15, 17, 33):
            self.add("a_cbcpad enc %s %s 00 0" % (hexs(r.bytes(kl)), hexs(r.bytes(16))), "a_cbcpad:enc:bad-keylen")

    def aes_decrypt_cases(self, impl_exe):
        jobs = self.aes_enc_jobs
        lines = ["a_cbcpad enc %s %s %s 0" % (hexs(k), hexs(iv), hexs(m)) for (k, iv, m) in jobs]
        outs, _ = core.run_lines(impl_exe, lines)
        for (k, iv, m), ct in zip(jobs, outs):
            if not re.fullmatch(r"[0-9a-f]+", ct or "") or len(ct) % 32:
                continue
            self.add("a_cbcpad dec %s %s %s 0" % (hexs(k), hexs(iv), ct), "a_cbcpad:dec:k%d:%s" % (len(k), lclass(len(m))))
            if self.r.chance(1, 8):
                t = bytearray(bytes.fromhex(ct)); t[-1 - self.r.below(16)] ^= 1 << self.r.below(8)
                self.add("a_cbcpad dec %s %s %s 0" % (hexs(k), hexs(iv), hexs(bytes(t))), "a_cbcpad:dec:k%d:tampered" % len(k))

    def wave5(self):
        """(a) block_cipher.c aes128 object (dead code unless compiled with -DENABLE_AES);
        (b) decrypt direction in place: outside the property text, reported as OBSERVATION;
        (c) XTS streaming over several data units with the update boundary at every position"""
        r = self.r
        k = bytes(range(16))
        self.add("bca enc %s 00112233445566778899aabbccddeeff" % hexs(k), "bca:enc:fips197")
        self.add("bca dec %s 69c4e0d86a7b0430d8cdb78070b4c55a" % hexs(k), "bca:dec:aes128-dispatch-dead-code")
        for i in range(20):
            self.add("bca enc %s %s" % (hexs(r.bytes(16)), hexs(r.bytes(16))), "bca:enc:random")
            self.add("bca dec %s %s" % (hexs(r.bytes(16)), hexs(r.bytes(16))), "bca:dec:aes128-dispatch-dead-code")
        for n in (16, 32, 48, 50, 64, 100):
            key, iv, m = self.key(), r.bytes(16), r.bytes(n)
            hk, hiv = hexs(key), hexs(iv)
            d = m[:n - n % 16]
            for s_ in (1, 3, 8, 16):
                self.add("cfb dec %d %s %s %s 1" % (s_, hk, hiv, hexs(m)), "cfb:dec:s=%d:dec-inplace" % s_)
            self.add("cbcblocks dec %s %s %s 1" % (hk, hiv, hexs(d)), "cbcblocks:dec:dec-inplace")
            self.add("ecbblocks dec %s %s 1" % (hk, hexs(d)), "ecbblocks:dec:dec-inplace")
            self.add("xts dec %s %s %s %s 1" % (hk, hexs(r.bytes(16)), hiv, hexs(m)), "xts:dec:dec-inplace")
            self.add("a_cbcblocks dec %s %s %s 1" % (hk, hiv, hexs(d)), "a_cbcblocks:dec:dec-inplace")
        # XTS: 3 data units, every two-way boundary, plus three-way boundaries inside different units
        for dus in (16, 20, 33):
            key32, iv = r.bytes(32), r.bytes(16)
            m = r.bytes(3 * dus)
            for off in range(0, 3 * dus + 1):
                for dr in ("enc", "dec"):
                    cls = "unit-boundary" if off % dus == 0 else "inside-unit%d" % (off // dus)
                    self.add("s_xts %s %s %s %d %s" % (dr, hexs(key32), hexs(iv), dus, chunks_str([m[:off], m[off:]])), "s_xts:%s:split2:%s" % (dr, cls))
            for i in range(12 if not self.thorough else 60):
                a = r.range(1, dus - 1); b = dus + r.range(1, dus - 1) if r.chance(1, 2) else 2 * dus + r.range(1, dus - 1)
                for dr in ("enc", "dec"):
                    self.add("s_xts %s %s %s %d %s" % (dr, hexs(key32), hexs(iv), dus, chunks_str([m[:a], m[a:b], m[b:]])), "s_xts:%s:split3:inside-units" % dr)

    def padding_cases(self, impl_exe):
        """the case split of PKCS#7 removal (sm4: every padding byte, since 75d04f0; aes: last byte only):
        chosen final plaintext blocks are encrypted without padding by the implementation's raw CBC block
        functions (inputs only), then fed to the padding-removing decryptors, one-shot and streaming"""
        r = self.r
        jobs = []   # (cipher, key, iv, plaintext, cell class)
        def final_blocks():
            for pad in range(1, 17):
                good = r.bytes(16 - pad) + bytes([pad]) * pad
                yield good, "pad-valid:p=%s" % ("1" if pad == 1 else "16" if pad == 16 else "mid")
                for j in range(16 - pad, 15):          # one wrong interior padding byte, each position
                    b = bytearray(good); b[j] ^= 1 + r.below(255)
                    yield bytes(b), "pad-interior-wrong"
                if pad >= 2:                           # .. and two wrong ones
                    b = bytearray(good); b[16 - pad] ^= 0x80; b[14] ^= 0x01
                    yield bytes(b), "pad-interior-wrong"
            for last in (0, 17, 32, 255):
                yield r.bytes(15) + bytes([last]), "pad-range"
        for blk, cls in final_blocks():
            key, iv = self.key(), r.bytes(16)
            pre = r.bytes(16 * r.choice([0, 0, 1, 3]))
            jobs.append(("sm4", key, iv, pre + blk, cls))
            if cls != "pad-valid:p=mid" or r.chance(1, 3):
                jobs.append(("aes", r.bytes(r.choice([16, 24, 32])), iv, pre + blk, cls))
        lines = [("cbcblocks enc %s %s %s 0" if c == "sm4" else "a_cbcblocks enc %s %s %s 0") % (hexs(k), hexs(iv), hexs(pt))
                 for (c, k, iv, pt, _) in jobs]
        outs, _ = core.run_lines(impl_exe, lines)
        for (c, k, iv, pt, cls), o in zip(jobs, outs):
            ct = (o or "").split(" ")[-1]
            if not re.fullmatch(r"[0-9a-f]+", ct) or len(ct) != 2 * len(pt):
                continue
            if c == "sm4":
                self.add("cbcpad dec %s %s %s 0" % (hexs(k), hexs(iv), ct), "cbcpad:dec:" + cls)
                ch = r.split(bytes.fromhex(ct), r.range(1, 4))
                self.add("s_cbc dec %s %s %s 0" % (hexs(k), hexs(iv), chunks_str(ch)), "s_cbc:dec:" + cls)
            else:
                self.add("a_cbcpad dec %s %s %s 0" % (hexs(k), hexs(iv), ct), "a_cbcpad:dec:" + cls)

    def cbc_decrypt_cases(self, impl_exe):
        """ciphertexts for the decrypt direction are produced by the implementation itself (they are
        only inputs; what is checked is how both sides decrypt them)"""
        r = self.r
        jobs = self.cbc_enc_jobs
        lines = ["cbcpad enc %s %s %s 0" % (hexs(k), hexs(iv), hexs(m)) for (k, iv, m, _, _) in jobs]
        outs, _ = core.run_lines(impl_exe, lines)
        for (k, iv, m, tag, how), ct in zip(jobs, outs):
            if not re.fullmatch(r"[0-9a-f]+", ct or "") or len(ct) % 32:
                continue
            c = bytes.fromhex(ct)
            hk, hiv = hexs(k), hexs(iv)
            lc = lclass(len(m)) + tag
            self.add("cbcpad dec %s %s %s 0" % (hk, hiv, ct), "cbcpad:dec:%s" % lc)
            if how is False:
                continue
            if isinstance(how, tuple) and how[0] == "split2":
                off = how[1] % (len(c) + 1)
                ch = [c[:off], c[off:]]
                self.add("s_cbc dec %s %s %s 0" % (hk, hiv, chunks_str(ch)), "s_cbc:dec:split2@%s" % ("blk" if off % 16 == 0 else "mid"))
            else:
                ch = r.split(c, how[1] if isinstance(how, tuple) else None)
                self.add("s_cbc dec %s %s %s 0" % (hk, hiv, chunks_str(ch)), "s_cbc:dec:%s:%s" % (lc, kclass(ch)))
            if r.chance(1, 6):   # tampered last block: padding check
                t = bytearray(c); t[-1 - r.below(16)] ^= 1 << r.below(8)
                self.add("cbcpad dec %s %s %s 0" % (hk, hiv, hexs(bytes(t))), "cbcpad:dec:tampered")
                self.add("s_cbc dec %s %s %s 0" % (hk, hiv, chunks_str(r.split(bytes(t)))), "s_cbc:dec:tampered")


PAIR = re.compile(r"(\d+):(\d+)")
# cell classes (last component of the cell key) whose disagreements are observations, not violations
OBSERVE = ("dec-inplace", "aes128-dispatch-dead-code")


def oracle(line, a, b):
    """property oracle on top of impl == model: no update/finish may write more than its NULL-buffer answer"""
    if a != b:
        if " CANARY" in a:
            return "bytes written beyond the length the call reports"
        return "implementation differs from proved-equal-to-spec model"
    if line.startswith("s_") and not line.startswith("s_xts"):
        head = a.rsplit(" ", 1)[0]
        for q, w in PAIR.findall(head):
            if int(w) > int(q):
                return "update/finish wrote %s bytes but reports %s for a NULL output buffer" % (w, q)
    return None


def run(ctx):
    # 1. source-derived tables
    try:
        consts_sm4.generate(core.REPO)
    except Exception as e:  # noqa
        ctx.violation("tables:sm4:parse", "cannot extract S/FK/CK/T0..T3 from src/sm4.c: %s" % e,
                      {"kind": "correspondence", "relation": "tools/consts_sm4.py", "detail": str(e)}, False)
        return finish(ctx)
    ok = ctx.check_proofs()
    model, log = core.build_model("C04")
    if model is None:
        ctx.violation("correspondence:model-build", "extracted model does not build: " + log[-500:], {"kind": "correspondence", "log": log[-3000:]}, False)
        return finish(ctx)
    tb, _ = core.run_lines(model, ["tables"], shards=1)
    if tb[0] != "ok":
        names = ", ".join("%s[%s]" % (TABLE_NAMES.get(int(t), t), i) for t, i in (e.split(":") for e in tb[0].split(",")[:12]))
        ctx.violation("tables:sm4:entry", "constant in src/sm4.c differs from the value GB/T 32907 defines: " + names,
                      {"kind": "proof", "theorem_or_file": "coq/Cipher/SM4Proofs.v sm4_tables_ok", "entries": tb[0][:2000]}, True)
    else:
        ctx.cell("tables:sm4:all-entries")
    variants = ["asan"] if ctx.tier == "quick" else ["asan", "small", "aesni", "avx2"]
    g = Gen(ctx)
    g.block_cipher(); g.dense(); g.chunkings(); g.counters(); g.malformed(); g.aes_modes(); g.wave5()
    model_out = None
    for v in variants:
        # block_cipher.c is compiled a second time with -DENABLE_AES (CMakeLists.txt never defines the macro,
        # so the aes128 object is dead code in every library build); the static library's copy is not pulled in
        exe, log = core.build_harness("C04", v, sources=[os.path.join(core.ROOT, "props", "C04", "harness.c"),
                                                         os.path.join(core.REPO, "src", "block_cipher.c")], extra="-DENABLE_AES")
        cases_v = None
        if exe is None:
            # fall back to the plain build (the bca op is compiled out there; its cases are skipped for this variant)
            exe, log2 = core.build_harness("C04", v)
            if exe is not None:
                ctx.notes.append("variant %s: harness with -DENABLE_AES block_cipher.c did not build (%s); bca cases skipped" % (v, log[-200:].replace("\n", " ")))
                cases_v = "nobca"
            else:
                log = log2
        if exe is None:
            if v == "asan":
                core.harness_build_failed(ctx, log)
            else:
                ctx.notes.append("variant %s does not build here: %s" % (v, log[-300:].replace("\n", " ")))
                ctx.violation("correspondence:harness-build:" + v, "variant %s of the current tree does not build: %s" % (v, log[-400:]),
                              {"kind": "correspondence", "relation": "harness build " + v, "log": log[-3000:]}, False)
            continue
        if model_out is None:
            g.cbc_decrypt_cases(exe)
            g.aes_decrypt_cases(exe)
            g.padding_cases(exe)
            t0 = time.time()
            model_out, _ = core.run_lines(model, [c[0] for c in g.cases])
            ctx.notes.append("model: %.1fs, %d cases (evaluated once, compared with every variant)" % (time.time() - t0, len(g.cases)))
        if cases_v == "nobca":
            keep = [i for i, c in enumerate(g.cases) if not c[0].startswith("bca ")]
            compare(ctx, [g.cases[i] for i in keep], exe, [model_out[i] for i in keep], v)
        else:
            compare(ctx, g.cases, exe, model_out, v)
    return finish(ctx)


def compare(ctx, cases, impl_exe, model_out, variant):
    """core.differential with the model side evaluated once for all build variants"""
    lines = [c[0] for c in cases]
    t0 = time.time()
    impl, impl_err = core.run_lines(impl_exe, lines)
    ctx.notes.append("variant %s: impl %.1fs" % (variant, time.time() - t0))
    tag = "" if variant == "asan" else ":" + variant
    for i, (line, cell) in enumerate(cases):
        ctx.cov["evaluations"] += 1
        a, b = impl[i], model_out[i]
        ctx.count("op:" + line.split(" ", 1)[0])
        if b.startswith("MODEL-"):
            ctx.violation("model:" + cell, "model-side failure on `%s`: %s" % (line[:200], b[:200]),
                          {"kind": "model", "op": line, "model": b}, found_input=False)
            continue
        verdict = oracle(line, a, b)
        if verdict is not None and cell.split(":")[-1] in OBSERVE:
            # outside the property text (decrypt-direction aliasing; code no build compiles): never a violation
            if not hasattr(ctx, "observations"):
                ctx.observations = []
            ctx.count("observation:" + cell)
            if not any(o["key"] == cell + tag for o in ctx.observations):
                ctx.observations.append({"key": cell + tag, "variant": variant, "op": line[:400], "impl": a[:200], "model": b[:200]})
                print("OBSERVATION: property=%s key=%s [%s] outside the property text (not a violation): op `%s` impl=%s model=%s"
                      % (ctx.prop, cell + tag, variant, line[:120], a[:60], b[:60]))
            continue
        if verdict is None:
            ctx.cell(cell + tag + (":ERR" if a.startswith("ERR") or a.endswith(" ERR") else ":ok"))
            if i % max(1, len(cases) // 6) == 0 and variant == "asan":
                ctx.sample({"op": line[:300], "result": a[:130]})
        else:
            # a sanitizer abort / crash is keyed per (op, variant), not per boundary cell
            key = "%s:%s:fault" % (line.split(" ", 1)[0], variant) if a.startswith("FAULT") else cell + tag
            ctx.violation(key, "%s [%s]: op `%s` impl=%s model=%s" % (verdict, variant, line[:160], a[:100], b[:100]),
                          {"kind": "failing-input", "op": line, "impl": a, "expected": b, "variant": variant,
                           "stderr": impl_err[-1500:] if a.startswith("FAULT") else ""}, found_input=True)


def finish(ctx):
    ctx.assumptions = [
        "SM4 Spec = my transcription of GB/T 32907-2016 (S-box, L, L', FK, CK_i formula), pinned by the appendix-A vector (Example sm4_vector, vm_compute)",
        "mode Specs = my transcription of GB/T 17964 / SP 800-38A (ECB, CBC, CTR, OFB, CFB-s), PKCS#7 (SM4: removal checks every padding byte, characterised by C04_pkcs7_unpad_strict_iff; aes_modes.c: last byte only, as that code does), GB/T 17964 XTS (GCM bit order tweak), zero-padded CBC-MAC as implemented",
        "XTS: raw functions = index-form Spec and xts_mul2 (bit-reversed words of gf128.c) = multiplication by x are theorems since wave 3; the driver still compares Impl with Spec on every case",
        "the rotating register names of the unrolled ROUND lines and the word-wise xor of the table-driven *_blocks functions are modelled at block level",
        "C04_impl_block_functions_eq_spec uses functional_extensionality_dep (Coq standard library); everything else is closed",
        "AES-NI/AVX2/small-footprint code paths are covered by correspondence only, thorough tier (same Spec); the byte-wise ctr_incr/ctr32_incr of the small-footprint build are modelled and proved",
    ]
    return ctx.finish(level="proof",
                      rule="cases = block cipher (standard vector, sparse, byte sweep, random) + per mode: every length 0..130 (0..520 thorough) dense, block-boundary triples up to 4096 (thorough: every length 0..4096 once, the modes taking turns), all CFB s=1..16, exhaustive 2-way splits of 50 bytes, random k-way chunkings with empty chunks, in-place (one-shot and block-aligned streaming, encrypt direction), counters at 2^32/2^64/2^128 wrap, XTS tweak carries, malformed lengths/parameters, tampered CBC ciphertexts; a cell = (op, direction/width/segment class, length/chunking/boundary class, ok|ERR); distinct_nontrivial = number of distinct cells on which impl and model agreed and the size oracle held",
                      extra={"observations": getattr(ctx, "observations", [])},
                      trusted=core.TRUSTED_COMMON + ["tools/consts_sm4.py (regex copy of S, FK, CK, T0..T3 from src/sm4.c into coq/Gen/Sm4Tables.v)",
                                                     "Coq files: Cipher/SM4.v SM4Tab.v Modes.v SM4Modes.v Gen/Sm4Tables.v (models), BitsX.v SM4Proofs.v ModesProofs.v SM4ModesProofs.v (proofs), Props/Properties_C04.v"])
