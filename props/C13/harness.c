/* C13 correspondence harness: every exported sm2_z256_* function of the current /repo tree.
 * Numbers travel as 64 hex digits (big-endian); points as raw Jacobian/Montgomery triples
 * X Y Z so that infinity, non-normalised and off-curve representatives can be fed. */
#include "common.h"
#include <gmssl/sm2_z256.h>

/* SM2_Z256_2e512modp only exists in the portable C back-end */
extern const uint64_t SM2_Z256_2e512modp[4] __attribute__((weak));
extern const uint64_t SM2_Z256_P[4], SM2_Z256_NEG_P[4], SM2_Z256_P_PRIME[4],
	SM2_Z256_SQRT_EXP[4], SM2_Z256_N[4], SM2_Z256_N_MINUS_ONE[4], SM2_Z256_NEG_N[4], SM2_Z256_N_PRIME[4],
	SM2_Z256_N_MINUS_TWO[4], SM2_Z256_2e512modn[4], SM2_Z256_MODP_MONT_B[4];
extern const uint64_t sm2_z256_pre_comp[37][64 * 4 * 2];

static uint64_t *Z(const char *hex) {           /* exactly sized z256 */
	uint64_t *r = malloc(32); int i, j;
	size_t l = strlen(hex);
	memset(r, 0, 32);
	for (i = 0; i < 4; i++) for (j = 0; j < 16; j++) {
		size_t pos = (size_t)(3 - i) * 16 + (size_t)j;
		int v = pos < l ? hexval(hex[pos]) : 0;
		r[i] = (r[i] << 4) | (uint64_t)(v & 15);
	}
	return r;
}
static void pz(const uint64_t *a) { printf("%016llx%016llx%016llx%016llx", (unsigned long long)a[3], (unsigned long long)a[2], (unsigned long long)a[1], (unsigned long long)a[0]); }
static SM2_Z256_POINT *PT(char **w) {
	SM2_Z256_POINT *P = malloc(sizeof(SM2_Z256_POINT));
	uint64_t *x = Z(w[0]), *y = Z(w[1]), *z = Z(w[2]);
	memcpy(P->X, x, 32); memcpy(P->Y, y, 32); memcpy(P->Z, z, 32);
	free(x); free(y); free(z);
	return P;
}
static SM2_Z256_AFFINE_POINT *AP(char **w) {
	SM2_Z256_AFFINE_POINT *P = malloc(sizeof(SM2_Z256_AFFINE_POINT));
	uint64_t *x = Z(w[0]), *y = Z(w[1]);
	memcpy(P->x, x, 32); memcpy(P->y, y, 32);
	free(x); free(y);
	return P;
}
static void pp(const SM2_Z256_POINT *P) { pz(P->X); putchar(' '); pz(P->Y); putchar(' '); pz(P->Z); }
static SM2_Z256_POINT *NEWP(void) { SM2_Z256_POINT *P = malloc(sizeof(SM2_Z256_POINT)); memset(P, 0xA5, sizeof(*P)); return P; }

#define IS(s) (!strcmp(w[0], s))
typedef void (*f1_t)(uint64_t *, const uint64_t *);
typedef void (*f2_t)(uint64_t *, const uint64_t *, const uint64_t *);

static void handle(size_t nw, char **w) {
	static const struct { const char *n; f2_t f; } F2[] = {
		{"modp_add", sm2_z256_modp_add}, {"modp_sub", sm2_z256_modp_sub},
		{"modn_add", sm2_z256_modn_add}, {"modn_sub", sm2_z256_modn_sub},
		{"modp_mont_mul", sm2_z256_modp_mont_mul}, {"modn_mont_mul", sm2_z256_modn_mont_mul},
		{"modp_mont_exp", sm2_z256_modp_mont_exp}, {"modn_mont_exp", sm2_z256_modn_mont_exp},
		{"modn_mul", sm2_z256_modn_mul}, {"modn_exp", sm2_z256_modn_exp}, {NULL, NULL} };
	static const struct { const char *n; f1_t f; } F1[] = {
		{"modp_dbl", sm2_z256_modp_dbl}, {"modp_tri", sm2_z256_modp_tri}, {"modp_neg", sm2_z256_modp_neg},
		{"modp_haf", sm2_z256_modp_haf}, {"modn_neg", sm2_z256_modn_neg},
		{"modp_mont_sqr", sm2_z256_modp_mont_sqr}, {"modn_mont_sqr", sm2_z256_modn_mont_sqr},
		{"modp_from_mont", sm2_z256_modp_from_mont}, {"modn_from_mont", sm2_z256_modn_from_mont},
		{"modp_mont_inv", sm2_z256_modp_mont_inv}, {"modn_mont_inv", sm2_z256_modn_mont_inv},
		{"modn_sqr", sm2_z256_modn_sqr}, {"modn_inv", sm2_z256_modn_inv}, {NULL, NULL} };
	int i;
	for (i = 0; F2[i].n; i++) if (IS(F2[i].n) && nw == 3) {
		uint64_t *a = Z(w[1]), *b = Z(w[2]), *r = malloc(32);
		F2[i].f(r, a, b); pz(r);
		/* in-place call must give the same (the library calls it that way) */
		F2[i].f(a, a, b); if (memcmp(a, r, 32)) printf(" ALIAS-DIFFERS");
		free(a); free(b); free(r); return;
	}
	for (i = 0; F1[i].n; i++) if (IS(F1[i].n) && nw == 2) {
		uint64_t *a = Z(w[1]), *r = malloc(32);
		F1[i].f(r, a); pz(r);
		F1[i].f(a, a); if (memcmp(a, r, 32)) printf(" ALIAS-DIFFERS");
		free(a); free(r); return;
	}
	if ((IS("modp_to_mont") || IS("modn_to_mont")) && nw == 2) {
		uint64_t *a = Z(w[1]), *r = malloc(32);
		if (IS("modp_to_mont")) sm2_z256_modp_to_mont(a, r); else sm2_z256_modn_to_mont(a, r);
		pz(r); free(a); free(r);
	}
	else if (IS("modp_mont_sqrt") && nw == 2) {
		uint64_t *a = Z(w[1]), *r = malloc(32); int ret;
		memset(r, 0, 32);
		ret = sm2_z256_modp_mont_sqrt(r, a);
		if (ret == 1) { printf("1 "); pz(r); } else printf("%d", ret);
		free(a); free(r);
	}
	else if (IS("add") && nw == 3) { uint64_t *a = Z(w[1]), *b = Z(w[2]), *r = malloc(32); uint64_t c = sm2_z256_add(r, a, b); pz(r); printf(" %llx", (unsigned long long)c); free(a); free(b); free(r); }
	else if (IS("sub") && nw == 3) { uint64_t *a = Z(w[1]), *b = Z(w[2]), *r = malloc(32); uint64_t c = sm2_z256_sub(r, a, b); pz(r); printf(" %llx", (unsigned long long)c); free(a); free(b); free(r); }
	else if (IS("mul") && nw == 3) { uint64_t *a = Z(w[1]), *b = Z(w[2]), *r = malloc(64); sm2_z256_mul(r, a, b); pz(r + 4); pz(r); free(a); free(b); free(r); }
	else if (IS("cmp") && nw == 3) { uint64_t *a = Z(w[1]), *b = Z(w[2]); printf("%d", sm2_z256_cmp(a, b)); free(a); free(b); }
	else if (IS("equ") && nw == 3) { uint64_t *a = Z(w[1]), *b = Z(w[2]); printf("%llx", (unsigned long long)sm2_z256_equ(a, b)); free(a); free(b); }
	else if (IS("iszero") && nw == 2) { uint64_t *a = Z(w[1]); printf("%llx", (unsigned long long)sm2_z256_is_zero(a)); free(a); }
	else if (IS("rshift") && nw == 3) { uint64_t *a = Z(w[1]), *r = malloc(32); sm2_z256_rshift(r, a, (unsigned)atoi(w[2])); pz(r); free(a); free(r); }
	else if (IS("cc") && nw == 4) { uint64_t *d = Z(w[1]), *s = Z(w[2]); sm2_z256_copy_conditional(d, s, (uint64_t)atoi(w[3])); pz(d); free(d); free(s); }
	else if (IS("booth") && nw == 4) { uint64_t *a = Z(w[1]); printf("%d", sm2_z256_get_booth(a, (unsigned)atoi(w[2]), atoi(w[3]))); free(a); }
	else if (IS("bytes") && nw == 2) {      /* from_bytes, to_bytes, copy, from_hex, equ_hex, set_one/zero */
		buf_t b = hex2buf(w[1]); uint64_t *a = malloc(32), *c = malloc(32), *h = malloc(32); uint8_t *o = malloc(32);
		char *hex = malloc(65);
		sm2_z256_from_bytes(a, b.p); pz(a); putchar(' ');
		sm2_z256_copy(c, a); sm2_z256_to_bytes(c, o); puthex(o, 32); putchar(' ');
		memcpy(hex, w[1], 64); hex[64] = 0;
		sm2_z256_from_hex(h, hex); pz(h);
		if (sm2_z256_equ_hex(a, hex) != 1) printf(" EQU-HEX-FAILS");
		sm2_z256_set_one(c); if (c[0] != 1 || c[1] | c[2] | c[3]) printf(" SET-ONE-FAILS");
		if (memcmp(c, sm2_z256_one(), 32)) printf(" ONE-FAILS");
		sm2_z256_set_zero(c); if (c[0] | c[1] | c[2] | c[3]) printf(" SET-ZERO-FAILS");
		free(b.p); free(a); free(c); free(h); free(o); free(hex);
	}
	else if (IS("const") && nw == 2) {
		const uint64_t *c = NULL;
		if (!strcmp(w[1], "P")) { c = SM2_Z256_P; if (memcmp(c, sm2_z256_prime(), 32)) printf("ACCESSOR-DIFFERS "); }
		else if (!strcmp(w[1], "NEG_P")) c = SM2_Z256_NEG_P;
		else if (!strcmp(w[1], "P_PRIME")) c = SM2_Z256_P_PRIME;
		else if (!strcmp(w[1], "MODP_2E512")) { if (&SM2_Z256_2e512modp[0]) c = SM2_Z256_2e512modp; else { printf("ABSENT"); return; } }
		else if (!strcmp(w[1], "SQRT_EXP")) c = SM2_Z256_SQRT_EXP;
		else if (!strcmp(w[1], "N")) { c = SM2_Z256_N; if (memcmp(c, sm2_z256_order(), 32)) printf("ACCESSOR-DIFFERS "); }
		else if (!strcmp(w[1], "N_MINUS_ONE")) { c = SM2_Z256_N_MINUS_ONE; if (memcmp(c, sm2_z256_order_minus_one(), 32)) printf("ACCESSOR-DIFFERS "); }
		else if (!strcmp(w[1], "NEG_N")) c = SM2_Z256_NEG_N;
		else if (!strcmp(w[1], "N_PRIME")) c = SM2_Z256_N_PRIME;
		else if (!strcmp(w[1], "N_MINUS_TWO")) c = SM2_Z256_N_MINUS_TWO;
		else if (!strcmp(w[1], "MODN_2E512")) c = SM2_Z256_2e512modn;
		else if (!strcmp(w[1], "MONT_B")) c = SM2_Z256_MODP_MONT_B;
		else if (!strcmp(w[1], "ONE")) c = sm2_z256_one();
		if (c) pz(c); else printf("ERR");
	}
	else if (IS("pre") && nw == 3) {
		int r = atoi(w[1]), j = atoi(w[2]);
		if (r < 0 || r >= 37 || j < 0 || j >= 64) { printf("ERR"); return; }
		pz(&sm2_z256_pre_comp[r][j * 8]); putchar(' '); pz(&sm2_z256_pre_comp[r][j * 8 + 4]);
	}
	/* ---------- points ---------- */
	else if (IS("pdbl") && nw == 4) { SM2_Z256_POINT *P = PT(w + 1), *R = NEWP(); sm2_z256_point_dbl(R, P); pp(R);
		sm2_z256_point_dbl(P, P); if (memcmp(P, R, sizeof(*P))) printf(" ALIAS-DIFFERS"); free(P); free(R); }
	else if ((IS("padd") || IS("psub")) && nw == 7) { SM2_Z256_POINT *P = PT(w + 1), *Q = PT(w + 4), *R = NEWP();
		if (IS("padd")) sm2_z256_point_add(R, P, Q); else sm2_z256_point_sub(R, P, Q);
		pp(R);
		if (IS("padd")) sm2_z256_point_add(P, P, Q); else sm2_z256_point_sub(P, P, Q);
		if (memcmp(P, R, sizeof(*P))) printf(" ALIAS-DIFFERS");
		free(P); free(Q); free(R); }
	else if (IS("pneg") && nw == 4) { SM2_Z256_POINT *P = PT(w + 1), *R = NEWP(); sm2_z256_point_neg(R, P); pp(R); free(P); free(R); }
	else if ((IS("padd_aff") || IS("psub_aff")) && nw == 6) { SM2_Z256_POINT *P = PT(w + 1), *R = NEWP(); SM2_Z256_AFFINE_POINT *Q = AP(w + 4);
		if (IS("padd_aff")) sm2_z256_point_add_affine(R, P, Q); else sm2_z256_point_sub_affine(R, P, Q);
		pp(R);
		if (IS("padd_aff")) sm2_z256_point_add_affine(P, P, Q); else sm2_z256_point_sub_affine(P, P, Q);
		if (memcmp(P, R, sizeof(*P))) printf(" ALIAS-DIFFERS");
		free(P); free(Q); free(R); }
	else if (IS("pequ") && nw == 7) { SM2_Z256_POINT *P = PT(w + 1), *Q = PT(w + 4); printf("%d", sm2_z256_point_equ(P, Q)); free(P); free(Q); }
	else if (IS("ponc") && nw == 4) { SM2_Z256_POINT *P = PT(w + 1); printf("%d", sm2_z256_point_is_on_curve(P)); free(P); }
	else if (IS("pinf") && nw == 4) { SM2_Z256_POINT *P = PT(w + 1); printf("%d", sm2_z256_point_is_at_infinity(P)); free(P); }
	else if (IS("pxy") && nw == 4) {   /* get_xy and to_bytes must agree */
		SM2_Z256_POINT *P = PT(w + 1); uint64_t *x = malloc(32), *y = malloc(32), *x2 = malloc(32); uint8_t *o = malloc(64);
		uint8_t xb[32], yb[32];
		int r = sm2_z256_point_get_xy(P, x, y), r2, r3;
		printf("%d ", r); pz(x); putchar(' '); pz(y);
		r3 = sm2_z256_point_get_xy(P, x2, NULL);
		if (r3 != r || memcmp(x, x2, 32)) printf(" GETX-DIFFERS");
		r2 = sm2_z256_point_to_bytes(P, o);
		sm2_z256_to_bytes(x, xb); sm2_z256_to_bytes(y, yb);
		if (r2 != r || memcmp(o, xb, 32) || memcmp(o + 32, yb, 32)) printf(" TO-BYTES-DIFFERS");
		free(P); free(x); free(y); free(x2); free(o);
	}
	else if (IS("pmul") && nw == 5) { uint64_t *k = Z(w[1]); SM2_Z256_POINT *P = PT(w + 2), *R = NEWP(), *R2 = NEWP();
		SM2_Z256_POINT *T = malloc(16 * sizeof(SM2_Z256_POINT));
		sm2_z256_point_mul(R, k, P); pp(R);
		sm2_z256_point_mul_pre_compute(P, T); sm2_z256_point_mul_ex(R2, k, T);
		if (memcmp(R, R2, sizeof(*R))) printf(" MUL-EX-DIFFERS");
		free(k); free(P); free(R); free(R2); free(T); }
	else if (IS("pmulgen") && nw == 2) { uint64_t *k = Z(w[1]); SM2_Z256_POINT *R = NEWP(); sm2_z256_point_mul_generator(R, k); pp(R); free(k); free(R); }
	else if (IS("pmulsum") && nw == 6) { uint64_t *t = Z(w[1]), *s = Z(w[5]); SM2_Z256_POINT *P = PT(w + 2), *R = NEWP();
		sm2_z256_point_mul_sum(R, t, P, s); pp(R); free(t); free(s); free(P); free(R); }
	else if (IS("precomp") && nw == 4) { SM2_Z256_POINT *P = PT(w + 1); SM2_Z256_POINT *T = malloc(16 * sizeof(SM2_Z256_POINT)); int j;
		sm2_z256_point_mul_pre_compute(P, T);
		for (j = 0; j < 16; j++) { if (j) putchar(' '); pp(&T[j]); }
		free(P); free(T); }
	else if (IS("pmisc") && nw == 1) {   /* set_infinity, copy_affine */
		SM2_Z256_POINT *R = NEWP(); SM2_Z256_AFFINE_POINT *A = malloc(sizeof(*A));
		sm2_z256_point_set_infinity(R); pp(R); putchar(' ');
		memset(A, 0x11, sizeof(*A)); sm2_z256_point_copy_affine(R, A); pp(R);
		free(R); free(A);
	}
	else printf("ERR unknown-op");
}

int main(void) { quiet_stderr(); main_loop(handle); return 0; }
