"""C13 — SM2 big-number and curve arithmetic equals integer mathematics.
Impl side: props/C13/harness.c over the compiled /repo.  Model side: Ec/Z256Eval.v evaluated by
vm_compute inside coqc (limb-level Impl model, value-level Impl model over BigZ, Spec over BigZ)."""
import os, time
from vlib import core, ecgen as E
from vlib.ecgen import P, N, R, M, G, h64

IMPORTS = ("From Coq Require Import ZArith List String.\nFrom GmVerif Require Import Ec.Num Ec.Mont Ec.Jacobian Ec.Z256Eval.\n"
           "Import ListNotations.\nOpen Scope string_scope.\nOpen Scope Z_scope.\n")
SHARDS = int(os.environ["VERIF_SHARDS"]) if os.environ.get("VERIF_SHARDS") else None
# the assembly back-end on ELF: the repo's default ENABLE_ASM_UNDERSCORE_PREFIX=ON (Mach-O symbol
# names) does not link on Linux, so the variant is registered here with the prefix switched off
core.VARIANTS.setdefault("amd64elf", (core.SAN_FLAGS, ["-DENABLE_SM2_AMD64=ON", "-DENABLE_ASM_UNDERSCORE_PREFIX=OFF"]))


def z(x):
    return "0x%x" % x


class Cases:
    def __init__(self):
        self.l = []          # (c line, gallina expr, cell, cost)
    def add(self, op, args, cell, cost=1, gop=None, gargs=None):
        line = op + "".join(" " + (h64(a) if isinstance(a, int) and not isinstance(a, bool) else str(a)) for a in args)
        ga = gargs if gargs is not None else [z(a) if isinstance(a, int) else a for a in args]
        self.l.append((line, "(h_%s %s)" % (gop or op, " ".join(ga)), cell, cost))
    def small(self, op, args, smalls, cell, cost=1, gop=None, pre=None):
        """args: 256-bit numbers; smalls: small decimal parameters appended"""
        line = op + "".join(" " + h64(a) for a in args) + "".join(" %d" % s for s in smalls)
        ga = ([pre] if pre else []) + [z(a) for a in args] + [("(%d)" % s) for s in smalls]
        self.l.append((line, "(h_%s %s)" % (gop or op, " ".join(ga)), cell, cost))


def pt_args(t):
    return list(t)


def gen(ctx):
    r = ctx.rng
    thorough = ctx.tier == "thorough"
    scale = 4 if thorough else 1
    # bulk random families: the quick tier keeps every class but fewer instances (the whole 20-check
    # quick suite has to fit one session); the thorough tier runs the full size
    def bulk(n_):
        return n_ * 4 if thorough else max(1, (n_ * 2) // 5)
    C = Cases()
    bc = E.bclass
    BV = E.BOUNDARY
    rnd = lambda: E.rand256(r)
    pat = lambda: E.limb_pattern(r)

    # ---------------- constants and the pre-computed table (every entry, every run)
    for name in ["P", "NEG_P", "P_PRIME", "MODP_2E512", "SQRT_EXP", "N", "N_MINUS_ONE", "NEG_N", "N_PRIME",
                 "N_MINUS_TWO", "MODN_2E512", "MONT_B", "ONE"]:
        C.l.append(("const " + name, '(h_const "%s"%%string)' % name, "const:" + name, 1))
    for i in range(37):
        for j in range(64):
            C.l.append(("pre %d %d" % (i, j), "(h_pre %d %d)" % (i, j), "pre:row%d" % i, 1))

    # ---------------- plain 256-bit operations
    pairs = [(a, b) for a in BV for b in BV]
    for (a, b) in pairs:
        C.add("add", [a, b], "add:%s:%s" % (bc(a), bc(b)))
        C.add("sub", [a, b], "sub:%s:%s" % (bc(a), bc(b)))
        C.add("cmp", [a, b], "cmp:%s:%s" % (bc(a), bc(b)))
        C.add("equ", [a, b], "equ:%s:%s" % (bc(a), bc(b)))
    for (a, b) in pairs[::3]:
        C.add("mul", [a, b], "mul:%s:%s" % (bc(a), bc(b)), cost=25)
    for i in range(bulk(1500)):
        a, b = (pat(), pat()) if i % 2 else (rnd(), rnd())
        cls = "limbpattern" if i % 2 else "random"
        C.add("add", [a, b], "add:" + cls)
        C.add("sub", [a, b], "sub:" + cls)
        if i % 4 == 1:
            # carry/borrow propagating through all limbs: b = 2^256 - a (+-1)
            b2 = (R - a + r.below(3) - 1) % R
            C.add("add", [a, b2], "add:complement")
            C.add("sub", [a, (a + r.below(3) - 1) % R], "sub:neighbour")
        C.add("cmp", [a, b], "cmp:" + cls)
        # equal except in exactly one limb / one bit
        k = r.below(256)
        C.add("cmp", [a, a ^ (1 << k)], "cmp:onebit-limb%d" % (k // 64))
        C.add("equ", [a, a ^ (1 << k)], "equ:onebit-limb%d" % (k // 64))
        C.add("equ", [a, a], "equ:same")
        if i % 10 == 0:
            C.add("mul", [a, b], "mul:" + cls, cost=25)
    for a in BV + [pat() for _ in range(60)]:
        C.add("iszero", [a], "iszero:" + bc(a))
        C.add("bytes", [a], "bytes:" + bc(a))
        for nb in (0, 1, 31, 32, 63, 64, 65, 127, 255):
            C.small("rshift", [a], [nb], "rshift:n%d" % (nb & 63))
    for k in range(256):
        C.add("iszero", [1 << k], "iszero:onebit-limb%d" % (k // 64))
    for i in range(120):
        a, b = pat(), rnd()
        C.small("cc", [a, b], [i % 2], "cc:move%d" % (i % 2))
    # Booth digits: every window of boundary scalars, both window sizes
    bscal = [0, 1, N - 70, N - 1, N, M, (1 << 255), 0x5555555555555555555555555555555555555555555555555555555555555555,
             0xAAAAAAAAAAAAAAAAAAAAAAAAAAAAAAAAAAAAAAAAAAAAAAAAAAAAAAAAAAAAAAAAAAAAAAAAAAAAAAAAAAAAAAAAAAAAAAAAAAAAAAAAAAAAAAAAAAAAAAAAAAAAAAAA & M] + [pat() for _ in range(6)] + [rnd() for _ in range(6 * scale)]
    for a in bscal:
        for (w, n) in ((5, 52), (7, 37)):
            for i in range(n):
                j = i * w - 1
                cls = "i0" if i == 0 else ("straddle" if (64 - j % 64) < w + 1 and j // 64 < 3 else ("top" if j // 64 == 3 and (64 - j % 64) < w + 1 else "inside"))
                C.small("booth", [a], [w, i], "booth:w%d:%s" % (w, cls))

    # ---------------- modular add/sub/... (in domain: spec; out of domain: Impl layers only)
    for (mod, nm, fam) in ((P, "modp", ["add", "sub", "dbl", "tri", "neg", "haf"]), (N, "modn", ["add", "sub", "neg"])):
        dom = [0, 1, 2, mod - 1, mod - 2, (mod - 1) // 2, (mod + 1) // 2, R - mod, R - mod - 1, R - mod + 1, (1 << 255) % mod, 1 << 64, (1 << 192) - 1]
        out = [mod, mod + 1, M, M - 1, (1 << 255) + (1 << 254)]
        vals = dom + out
        def mc(x):
            return "out" if x >= mod else ("0" if x == 0 else ("m-1" if x == mod - 1 else "in"))
        for a in vals:
            for b in vals:
                for op in ("add", "sub"):
                    C.add("%s_%s" % (nm, op), [a, b], "%s_%s:%s:%s" % (nm, op, mc(a), mc(b)))
            for op in fam:
                if op not in ("add", "sub"):
                    C.add("%s_%s" % (nm, op), [a], "%s_%s:%s" % (nm, op, mc(a)))
        for i in range(bulk(2500)):
            a, b = rnd() % mod, rnd() % mod
            if i % 3 == 0:
                a = mod - 1 - r.below(4)
            if i % 5 == 0:
                b = (mod - a + r.below(3) - 1) % mod      # a + b around the modulus
            C.add(nm + "_add", [a, b], nm + "_add:random")
            C.add(nm + "_sub", [a, b], nm + "_sub:random")
            if i % 3 == 0:
                for op in fam:
                    if op not in ("add", "sub"):
                        C.add("%s_%s" % (nm, op), [b], "%s_%s:%s" % (nm, op, "0" if b == 0 else "random"))

    # ---------------- Montgomery layer
    for (mod, nm) in ((P, "modp"), (N, "modn")):
        dom = [0, 1, 2, mod - 1, mod - 2, R - mod, (mod - 1) // 2, (mod + 1) // 2, R % mod, R * R % mod, pow(R, -1, mod), (1 << 255) % mod]
        out = [mod, mod + 1, M]
        def mc(x):
            return "out" if x >= mod else ("0" if x == 0 else ("m-1" if x == mod - 1 else "in"))
        # limb level as well (slow): boundary x boundary
        for a in dom + out:
            for b in dom[:8] + out[:1]:
                C.l.append(("%s_mont_mul %s %s" % (nm, h64(a), h64(b)), "(h_%s_mont_mul true %s %s)" % (nm, z(a), z(b)),
                            "%s_mont_mul:limb:%s:%s" % (nm, mc(a), mc(b)), 60))
            for op in ("mont_sqr", "to_mont", "from_mont"):
                C.l.append(("%s_%s %s" % (nm, op, h64(a)), "(h_%s_%s true %s)" % (nm, op, z(a)), "%s_%s:limb:%s" % (nm, op, mc(a)), 60))
        for i in range(bulk(6000)):
            a, b = rnd() % mod, rnd() % mod
            if i % 7 == 0:
                a = mod - 1 - r.below(3)
            if i % 11 == 0:
                b = mod - 1 - r.below(3)
            cls = "random"
            if i % 50 == 0:
                # products whose Montgomery sum lands near the conditional subtraction: a*b = -1, 0, 1 (mod m) scaled
                b = (pow(a, -1, mod) * ((mod - 1 + r.below(3)) % mod)) % mod if a else b
                cls = "near-reduce"
            C.l.append(("%s_mont_mul %s %s" % (nm, h64(a), h64(b)), "(h_%s_mont_mul false %s %s)" % (nm, z(a), z(b)), "%s_mont_mul:%s" % (nm, cls), 1))
            if i % 6 == 0:
                for op in ("mont_sqr", "to_mont", "from_mont"):
                    C.l.append(("%s_%s %s" % (nm, op, h64(a)), "(h_%s_%s false %s)" % (nm, op, z(a)), "%s_%s:random" % (nm, op), 1))
        exps = [0, 1, 2, 3, mod - 2, mod - 1, mod, M, 1 << 255, (mod + 1) // 4]
        for a in dom[:6] + [rnd() % mod for _ in range(6)]:
            for e in exps + [rnd()]:
                C.add(nm + "_mont_exp", [a, e], "%s_mont_exp:%s:e=%s" % (nm, mc(a), bc(e)), cost=40)
        for a in dom + [rnd() % mod for _ in range(40 * scale)]:
            C.add(nm + "_mont_inv", [a], "%s_mont_inv:%s" % (nm, mc(a)), cost=40)
    for i in range(60 * scale):
        a = [0, 1, mont_sq(r), (P - mont_sq(r)) % P, P - 1, E.rand256(r) % P][i % 6]
        C.add("modp_mont_sqrt", [a], "modp_mont_sqrt:" + ["0", "1", "square", "maybe-nonsquare", "p-1", "random"][i % 6], cost=80)
    nd = [0, 1, 2, N - 1, N - 2, (N - 1) // 2, R - N]
    for a in nd + [rnd() % N for _ in range(30 * scale)]:
        for b in (nd[:4] + [rnd() % N]):
            C.add("modn_mul", [a, b], "modn_mul:%s" % ("0" if a == 0 or b == 0 else "in"), cost=3)
        C.add("modn_sqr", [a], "modn_sqr", cost=3)
        C.add("modn_inv", [a], "modn_inv:%s" % ("0" if a == 0 else "in"), cost=40)
        C.add("modn_exp", [a, [0, 1, 2, N - 2, M, rnd()][r.below(6)]], "modn_exp", cost=40)
        C.add("modn_to_mont", [a], "modn_to_mont:v", gop="modn_to_mont false")
        C.add("modn_from_mont", [a], "modn_from_mont:v", gop="modn_from_mont false")

    # ---------------- points
    def rpt():
        return E.mul(1 + rnd() % (N - 1), G)
    def rep(pt, kind):
        """a raw representative of pt"""
        if kind == "norm":
            return E.jac(pt, 1)
        return E.jac(pt, 2 + rnd() % (P - 2))
    INF = [(E.mont(1), E.mont(1), 0), (0, 0, 0), E.jac(None, 12345)]
    pts = [G, E.mul(2, G), E.neg(G), E.mul(N - 1, G), E.mul(35, G), E.mul(N - 35, G)] + [rpt() for _ in range(10 * scale)]
    C.l.append(("pmisc", '(spl [hj (point_infinity _ FpB); hj (point_copy_affine _ FpB (B 0x%s, B 0x%s))])' % ("11" * 32, "11" * 32), "pmisc", 1))
    npair = 0
    for pi, p1 in enumerate(pts):
        for kind in ("norm", "scaled"):
            t = rep(p1, kind)
            C.add("pdbl", list(t), "pdbl:" + kind, cost=20)
            C.add("pneg", list(t), "pneg:" + kind, cost=10)
            C.add("ponc", list(t), "ponc:on:" + kind, cost=10)
            C.add("pinf", list(t), "pinf:finite", cost=5)
            C.add("pxy", list(t), "pxy:" + kind, cost=20)
            if pi < 6:
                C.add("precomp", list(t), "precomp:" + kind, cost=900)
        # special pairs; cells are named after the *effective* relation of the two summands
        def eff(a, b):
            return "doubling" if a == b else ("cancel" if a == E.neg(b) else "generic")
        for p2 in [p1, E.neg(p1), E.mul(2, p1), pts[(pi + 3) % len(pts)], rpt()]:
            for k1 in ("norm", "scaled"):
                for k2 in ("norm", "scaled"):
                    t1, t2 = rep(p1, k1), rep(p2, k2)
                    ra, rs = eff(p1, p2), eff(p1, E.neg(p2))
                    C.add("padd", list(t1) + list(t2), "padd:%s:%s:%s" % (ra, k1, k2), cost=25)
                    C.add("psub", list(t1) + list(t2), "psub:%s:%s:%s" % (rs, k1, k2), cost=25)
                    C.add("pequ", list(t1) + list(t2), "pequ:%s:%s:%s" % ("equal" if p1 == p2 else "different", k1, k2), cost=15)
                    if k2 == "norm":
                        C.add("padd_aff", list(t1) + [t2[0], t2[1]], "padd_aff:%s:%s" % (ra, k1), cost=25)
                        C.add("psub_aff", list(t1) + [t2[0], t2[1]], "psub_aff:%s:%s" % (rs, k1), cost=25)
        for inf in INF:
            t1 = rep(p1, "scaled" if pi % 2 else "norm")
            C.add("padd", list(inf) + list(t1), "padd:inf+Q", cost=25)
            C.add("padd", list(t1) + list(inf), "padd:P+inf", cost=25)
            C.add("psub", list(t1) + list(inf), "psub:P-inf", cost=25)
            C.add("psub", list(inf) + list(t1), "psub:inf-Q", cost=25)
            tn = rep(p1, "norm")
            C.add("padd_aff", list(inf) + [tn[0], tn[1]], "padd_aff:inf+Q", cost=25)
            C.add("psub_aff", list(inf) + [tn[0], tn[1]], "psub_aff:inf-Q", cost=25)
        C.add("padd_aff", list(rep(p1, "scaled")) + [0, 0], "padd_aff:P+inf(0,0)", cost=25)
        C.add("psub_aff", list(rep(p1, "norm")) + [0, 0], "psub_aff:P-inf(0,0)", cost=25)
    # the two curve points with x = 0 (the affine-infinity test ORs the limbs of x AND y), and affine
    # operands with one zero coordinate that are off the curve (Impl layers only)
    P0 = (0, E.sqrt(E.Bc))
    assert E.on_curve(*P0)
    for q0 in (P0, E.neg(P0)):
        tq = E.jac(q0, 1)
        for pi, p1 in enumerate([pts[1], pts[4], q0, E.neg(q0), E.mul(2, q0)]):
            for k1 in ("norm", "scaled"):
                t1 = rep(p1, k1)
                rel = "doubling" if p1 == q0 else ("cancel" if p1 == E.neg(q0) else "generic")
                rels = "doubling" if p1 == E.neg(q0) else ("cancel" if p1 == q0 else "generic")
                # the doubling class keeps its plain cell name (same class, and the same known finding of the
                # assembly back-end, whichever point is doubled)
                C.add("padd_aff", list(t1) + [tq[0], tq[1]], ("padd_aff:doubling:%s" % k1) if rel == "doubling" else "padd_aff:x0-point:%s:%s" % (rel, k1), cost=25)
                C.add("psub_aff", list(t1) + [tq[0], tq[1]], ("psub_aff:doubling:%s" % k1) if rels == "doubling" else "psub_aff:x0-point:%s:%s" % (rels, k1), cost=25)
                C.add("padd", list(t1) + list(tq), "padd:x0-point:%s:%s" % (rel, k1), cost=25)
        for inf in INF:
            C.add("padd_aff", list(inf) + [tq[0], tq[1]], "padd_aff:x0-point:inf+Q", cost=25)
        C.add("pdbl", list(tq), "pdbl:x0-point", cost=20)
        C.add("pxy", list(tq), "pxy:x0-point", cost=20)
        C.add("ponc", list(tq), "ponc:x0-point", cost=10)
        C.add("precomp", list(tq), "precomp:x0-point", cost=900)
        C.add("precomp", list(E.jac(q0, 3)), "precomp:x0-point:scaled", cost=900)
        for k in [1, 2, 3, 17, N - 1, rnd(), pat()]:
            C.add("pmul", [k] + list(tq), "pmul:x0-point:norm", cost=2000)
        C.add("pmul", [rnd()] + list(E.jac(q0, 5)), "pmul:x0-point:scaled", cost=2000)
        C.add("pmulsum", [rnd()] + list(tq) + [rnd()], "pmulsum:x0-point", cost=3500)
        C.add("pmulsum", [1] + list(tq) + [0], "pmulsum:x0-point:t=1,s=0", cost=3500)
    for i in range(4):
        t1 = rep(pts[2 + i], "scaled" if i % 2 else "norm")
        C.add("padd_aff", list(t1) + [0, rnd() % P], "padd_aff:affine-x=0-offcurve", cost=25)
        C.add("padd_aff", list(t1) + [rnd() % P, 0], "padd_aff:affine-y=0-offcurve", cost=25)
        C.add("psub_aff", list(t1) + [rnd() % P, 0], "psub_aff:affine-y=0-offcurve", cost=25)
        # single non-zero limb in one coordinate, zero in the other
        C.add("padd_aff", list(t1) + [0, 1 << (64 * i)], "padd_aff:affine-onelimb-y", cost=25)
        C.add("padd_aff", list(t1) + [1 << (64 * i), 0], "padd_aff:affine-onelimb-x", cost=25)
    # representatives whose raw Z has a single non-zero limb (the infinity tests OR the limbs of Z)
    def sparse(pt, i):
        return E.jac_rawz(pt, (1 + rnd() % ((1 << 32) - 1 if i == 3 else (1 << 64) - 1)) << (64 * i))
    pa, pb = pts[1], pts[4]
    for i in range(4):
        ti = sparse(pa, i)
        C.add("pdbl", list(ti), "pdbl:sparseZ-limb%d" % i, cost=20)
        C.add("pinf", list(ti), "pinf:sparseZ-limb%d" % i, cost=5)
        C.add("pxy", list(ti), "pxy:sparseZ-limb%d" % i, cost=20)
        C.add("ponc", list(ti), "ponc:sparseZ-limb%d" % i, cost=10)
        tn = rep(pb, "norm")
        C.add("padd_aff", list(ti) + [tn[0], tn[1]], "padd_aff:sparseZ-limb%d" % i, cost=25)
        C.add("psub_aff", list(ti) + [tn[0], tn[1]], "psub_aff:sparseZ-limb%d" % i, cost=25)
        C.add("pmul", [rnd()] + list(ti), "pmul:sparseZ-limb%d" % i, cost=2000)
        for j in range(4):
            tj = sparse(pb, j)
            C.add("padd", list(ti) + list(tj), "padd:sparseZ-limb%d-limb%d" % (i, j), cost=25)
            C.add("psub", list(ti) + list(tj), "psub:sparseZ-limb%d-limb%d" % (i, j), cost=25)
            C.add("pequ", list(ti) + list(tj), "pequ:sparseZ-limb%d-limb%d" % (i, j), cost=15)
    for inf in INF:
        C.add("pdbl", list(inf), "pdbl:inf", cost=20)
        C.add("pneg", list(inf), "pneg:inf", cost=10)
        C.add("pinf", list(inf), "pinf:inf", cost=5)
        C.add("ponc", list(inf), "ponc:inf", cost=10)
        C.add("pxy", list(inf), "pxy:inf", cost=20)
        C.add("padd_aff", list(inf) + [0, 0], "padd_aff:inf+inf", cost=25)
        for inf2 in INF:
            C.add("padd", list(inf) + list(inf2), "padd:inf+inf", cost=25)
    # order-2-like / y = 0 does not exist on SM2; off-curve and out-of-range triples: Impl layers only
    for i in range(30 * scale):
        t = (rnd() % P, rnd() % P, [rnd() % P, E.mont(1), 0][i % 3])
        u = (rnd() % P, rnd() % P, rnd() % P)
        cls = ["offcurve", "offcurve-Z1", "Z0-notinf"][i % 3]
        C.add("pdbl", list(t), "pdbl:" + cls, cost=20)
        C.add("padd", list(t) + list(u), "padd:" + cls, cost=25)
        C.add("ponc", list(t), "ponc:" + cls, cost=10)
        C.add("pinf", list(t), "pinf:" + cls, cost=5)
        C.add("pxy", list(t), "pxy:" + cls, cost=40)
        C.add("pequ", list(t) + list(u), "pequ:" + cls, cost=15)
        C.add("padd_aff", list(t) + [u[0], u[1]], "padd_aff:" + cls, cost=25)
    for i in range(6):
        t = [(P, 5, E.mont(1)), (M, M, M), (5, P + 1, 7), (1, 1, P), (0, 0, E.mont(1)), (P - 1, P - 1, P - 1)][i]
        C.add("pdbl", list(t), "pdbl:outofrange", cost=20)
        C.add("padd", list(t) + list(E.jac(G)), "padd:outofrange", cost=25)
        C.add("ponc", list(t), "ponc:outofrange", cost=10)

    # ---------------- scalar multiplications
    scal = [0, 1, 2, 3, 16, 17, 31, 32, 33, 63, 64, 65, 127, 128, 129, N - 71, N - 70, N - 69, N - 2, N - 1, N, N + 1, N + 70, M, M - 1, 1 << 255, (1 << 255) - 1,
            0x5555555555555555555555555555555555555555555555555555555555555555,
            0xAAAAAAAAAAAAAAAAAAAAAAAAAAAAAAAAAAAAAAAAAAAAAAAAAAAAAAAAAAAAAAAAAAAAAAAAAAAAAAAAAAAAAAAAAAAAAAAAAAAAAAAAAAAAAAAAAAAAAAAAAAAAAAAA & M,
            (N - 70) // 2, 2 * (N - 70) % R if 2 * (N - 70) < R else N - 70 + 1]
    def scls(k):
        if k in (N - 70,): return "n-70"
        if k < 4: return str(k)
        if k in (N - 71, N - 69): return "n-70+-1"
        if k in (N - 1, N, N + 1, N - 2): return "around-n"
        if k >= N: return "[n,2^256)"
        return "in"
    single7 = [(d << (7 * i)) % R for i in (0, 1, 9, 18, 35, 36) for d in (1, 63, 64, 65, 127)]
    single5 = [(d << (5 * i)) % R for i in (0, 1, 12, 25, 50, 51) for d in (1, 15, 16, 17, 31)]
    for k in scal:
        C.add("pmulgen", [k], "pmulgen:" + scls(k), cost=1300)
    for k in (single7 if thorough else single7[::2]):
        C.add("pmulgen", [k], "pmulgen:single-window", cost=600)
    for i in range(bulk(70) if not thorough else 70 * scale):
        k = rnd() if i % 4 else pat()
        # n - 70-like neighbours of the only bad scalar, random low window
        if i % 10 == 0:
            k = (N - 128 + r.below(128)) % R
        C.add("pmulgen", [k], "pmulgen:" + ("n-70" if k == N - 70 else ("near-n" if i % 10 == 0 else ("random" if i % 4 else "limbpattern"))), cost=1300)
    bases = [(G, "G", "norm"), (E.mul(2, G), "2G", "scaled"), (rpt(), "rand", "norm"), (rpt(), "rand", "scaled")]
    for (pt, nm_, kind) in bases:
        t = rep(pt, kind)
        ks = scal if nm_ == "G" else scal[::3]
        for k in ks:
            C.add("pmul", [k] + list(t), "pmul:%s:%s:%s" % (nm_, kind, scls(k)), cost=2000)
        for k in single5[:: ((1 if thorough else 3) if nm_ == "G" else 4)]:
            C.add("pmul", [k] + list(t), "pmul:%s:single-window" % kind, cost=1200)
    for i in range((16 if not thorough else 40 * scale)):
        pt = rpt()
        t = rep(pt, "scaled" if i % 2 else "norm")
        C.add("pmul", [rnd() if i % 3 else pat()] + list(t), "pmul:random:%s" % ("scaled" if i % 2 else "norm"), cost=2000)
    for inf in INF:
        C.add("pmul", [rnd()] + list(inf), "pmul:inf", cost=2000)
    C.add("pmul", [5] + [rnd() % P, rnd() % P, E.mont(1)], "pmul:offcurve", cost=1000)
    # [t]P + [s]G
    sums = [(0, 0), (0, 5), (5, 0), (1, 1), (N - 1, 1), (1, N - 1), (3, N - 70), (N, N), (M, M)]
    for i in range((8 if not thorough else 25 * scale)):
        sums.append((rnd(), rnd()))
    dG = 1 + rnd() % (N - 1)
    Pd = E.mul(dG, G)
    for (t_, s_) in sums:
        C.add("pmulsum", [t_] + list(rep(Pd, "norm")) + [s_], "pmulsum:" + ("s=n-70" if s_ == N - 70 else ("random" if t_ > 5 and s_ > 5 and t_ < N - 1 and s_ < N - 70 else "boundary")), cost=3500)
    # tP = sG and tP = -sG (doubling / cancellation inside the final point_add)
    t_ = 1 + rnd() % (N - 1)
    C.add("pmulsum", [t_] + list(rep(Pd, "norm")) + [t_ * dG % N], "pmulsum:tP=sG", cost=3500)
    C.add("pmulsum", [t_] + list(rep(Pd, "scaled")) + [(N - t_ * dG) % N], "pmulsum:tP=-sG", cost=3500)
    return C.l


def mont_sq(r):
    x = E.rand256(r) % P
    return E.mont(x * x % P)


def batches(cases):
    """group case indices into Gallina expressions of bounded cost; expensive first"""
    order = sorted(range(len(cases)), key=lambda i: -cases[i][3])
    out, cur, cost = [], [], 0
    for i in order:
        c = cases[i][3]
        if cur and (cost + c > 2500 or len(cur) >= 200):
            out.append(cur); cur, cost = [], 0
        cur.append(i); cost += c
    if cur:
        out.append(cur)
    return out


def eval_model(cases):
    bs = batches(cases)
    exprs = ["(cat [%s])" % "; ".join(cases[i][1] for i in b) for b in bs]
    res = core.coq_eval("C13", IMPORTS, exprs, shards=SHARDS)
    out = [None] * len(cases)
    for b, rline in zip(bs, res):
        parts = rline.split(";")
        if rline.startswith("MODEL-EXN") or len(parts) != len(b):
            for i in b:
                out[i] = "MODEL-EXN " + rline[:300]
        else:
            for i, p_ in zip(b, parts):
                out[i] = p_
    return out


def rerun_silent(ctx, exe, lines, impl):
    """A harness process that dies without any sanitizer diagnosis ("FAULT crash": killed from
    outside, e.g. under memory pressure) says nothing about the library: the op is run once more
    in a fresh process.  A deterministic crash recurs and is reported as before."""
    idx = [i for i, a in enumerate(impl) if a == "FAULT crash"]
    if idx:
        again, _ = core.run_lines(exe, [lines[i] for i in idx], shards=1)
        for i, a in zip(idx, again):
            impl[i] = a
        ctx.count("rerun-after-silent-process-death", len(idx))
    return impl


def judge(impl, model):
    """-> (status, text)   status in ok | defect | mismatch"""
    if " | " not in model:
        return ("ok", "") if impl == model else ("mismatch", "implementation differs from the Impl model / Spec")
    parts = model.split(" | ")
    raw, verdict = parts[0], parts[1]
    if impl == raw:
        if verdict.startswith("BAD"):
            return ("defect", "result contradicts the Spec (expected %s)" % verdict[4:])
        return ("ok", "")
    return ("mismatch", "implementation differs from the Impl model")


def compare(ctx, cases, impl, model, variant):
    pending = []
    for i, (line, expr, cell, cost) in enumerate(cases):
        ctx.cov["evaluations"] += 1
        a, b = impl[i], model[i]
        ctx.count("op:" + line.split(" ", 1)[0])
        if b.startswith("MODEL-"):
            ctx.violation("model:" + cell, "model-side failure on `%s`: %s" % (line[:200], b[:300]),
                          {"kind": "model", "op": line, "expr": expr, "model": b}, found_input=False)
            continue
        st, text = judge(a, b)
        if a == "ABSENT" and variant == "amd64elf":
            ctx.count("amd64-constant-absent")
            continue
        if st == "mismatch" and variant == "amd64elf" and " | " in b and len(a.split()) == 3:
            pending.append(i)
            continue
        record(ctx, cases[i], a, b, st, text, variant)
    if pending:
        # assembly back-end: other representative of the same point is acceptable
        exprs = []
        for i in pending:
            raw = model[i].split(" | ")[0].split()
            exprs.append("(h_equiv %s %s)" % (" ".join("0x" + x for x in impl[i].split()), " ".join("0x" + x for x in raw)))
        res = core.coq_eval("C13", IMPORTS, ["(cat [%s])" % "; ".join(exprs[j:j + 100]) for j in range(0, len(exprs), 100)], shards=SHARDS, tag="equiv")
        flat = ";".join(res).split(";")
        for i, eq in zip(pending, flat):
            verdict = model[i].split(" | ")[1]
            if eq == "1" and not verdict.startswith("BAD"):
                record(ctx, cases[i], impl[i], model[i], "ok", "", variant)
            elif verdict == "nospec":
                ctx.count("amd64-nospec-representative-differs")
            else:
                record(ctx, cases[i], impl[i], model[i], "defect" if eq == "1" else "mismatch", "assembly back-end result is not the Spec point", variant)


def record(ctx, case, a, b, st, text, variant):
    line, expr, cell, cost = case
    if st == "ok":
        ctx.cell(cell + ":ok")
        if ctx.cov["evaluations"] % 4000 == 1:
            ctx.sample({"op": line[:300], "result": a[:200]})
    else:
        key = cell if variant == "asan" else cell + "@" + variant   # findings of a non-default back-end never mask the default build
        ctx.violation(key, "%s [%s]: op `%s` impl=%s model=%s" % (text, variant, line[:220], a[:200], b[:420]),
                      {"kind": "failing-input", "op": line, "expr": expr, "impl": a, "expected": b, "variant": variant}, found_input=True)


def run(ctx):
    ctx.check_proofs()
    rc, out = core.coq_make(["Ec/Z256Eval.vo"])
    if rc != 0:
        ctx.violation("correspondence:model-build", "Coq model does not build: " + out[-500:], {"kind": "correspondence", "log": out[-3000:]}, False)
        return finish(ctx)
    cases = gen(ctx)
    if os.environ.get("VERIF_C13_OPS"):       # development aid: restrict to some op families
        keep = tuple(os.environ["VERIF_C13_OPS"].split(","))
        cases = [c for c in cases if c[0].split(" ", 1)[0].startswith(keep)]
        ctx.notes.append("restricted to ops " + ",".join(keep))
    t0 = time.time()
    model = eval_model(cases)
    ctx.notes.append("model (coqc vm_compute): %.1fs for %d cases" % (time.time() - t0, len(cases)))
    # the assembly back-end re-uses the model results (the expensive side); in the quick tier it is
    # run on the routines it replaces (field ops mod p, point ops, fixed-base and windowed
    # multiplication), in the thorough tier on everything
    ASM_OPS = ("modp_add", "modp_sub", "modp_dbl", "modp_tri", "modp_neg", "modp_haf", "modp_mont_mul", "modp_mont_sqr",
               "modp_to_mont", "modp_from_mont", "pdbl", "padd", "psub", "pneg", "padd_aff", "psub_aff", "pequ", "ponc",
               "pinf", "pxy", "precomp", "pmulgen", "pmul")
    for v in ["asan", "amd64elf"]:
        exe, log = core.build_harness("C13", v)
        if exe is None:
            core.harness_build_failed(ctx, log)
            continue
        sel = list(range(len(cases)))
        if v != "asan" and ctx.tier == "quick":
            sel = [i for i in sel if cases[i][0].split(" ", 1)[0] in ASM_OPS]
        sub = [cases[i] for i in sel]
        t1 = time.time()
        impl, err = core.run_lines(exe, [c[0] for c in sub], shards=SHARDS)
        impl = rerun_silent(ctx, exe, [c[0] for c in sub], impl)
        ctx.notes.append("variant %s: impl %.1fs, %d cases" % (v, time.time() - t1, len(sub)))
        compare(ctx, sub, impl, [model[i] for i in sel], v)
    return finish(ctx)


def replay(path):
    import json
    rp = json.load(open(path)).get("replay", {})
    op, expr = rp.get("op"), rp.get("expr")
    if not op:
        print("replay names a proof obligation / relation, not an input:", json.dumps(rp)[:1000]); return 0
    exe, log = core.build_harness("C13", rp.get("variant", "asan"))
    if exe is None:
        print(log[-2000:]); return 1
    a, err = core.run_lines(exe, [op], shards=1, env={"VERIF_STDERR": "1"})
    b = core.coq_eval("C13", IMPORTS, [expr], shards=1)
    print("op:    ", op); print("impl:  ", a[0]); print("model: ", b[0])
    st, text = judge(a[0], b[0])
    print("AGREE" if st == "ok" else ("DIFFER: " + text))
    return 0


def finish(ctx):
    ctx.assumptions = [
        "Spec = affine chord-tangent law and integer arithmetic of Ec/CurveSpec.v (pinned by G on curve, [n]G = O, standard key pair)",
        "group-law associativity and primality of p, n are premises of the *_partial theorems, never axioms",
        "the BigZ instance of the generic model text is what is executed; the theorems are about the Z instance of the same text",
        "assembly back-end (ENABLE_SM2_AMD64) is covered by correspondence only (thorough tier)",
    ]
    return ctx.finish(level="proof",
                      rule="cases = boundary x boundary operand grids (0,1,limb edges,p-1,p,n-1,n,2^256-1), limb-pattern and random operands, every Booth window of boundary scalars, all 2368 table entries and all named constants, point pairs (P=Q, P=-Q, infinity, scaled representatives, off-curve, out-of-range), scalar families (0,1,n-70,n-1,n,n+1,2^256-1,single-window,alternating,random); a cell = (op, operand classes); distinct_nontrivial = cells on which library, limb model, value model and Spec agreed",
                      trusted=core.TRUSTED_COMMON + ["Coq files Ec/Z256.v Mont.v Jacobian.v Booth.v ScalarMul.v (models), Ec/Z256Eval.v (evaluation glue, printing), Ec/*Proofs.v, Props/Properties_C13.v",
                                                     "vlib/ecgen.py generates operands only (no verdicts)"])
