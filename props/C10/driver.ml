(* C10 model driver: the handshake message layer (Tls/HsCodec.v).
   Fields: hex; "." = absent (NULL pointer), "-" = present but empty.
   cert_ok / point_ok are inputs of the model: the op line carries the byte strings the library accepts
   ("*" = accept everything: used by the first pass that only asks which strings will be examined). *)
let hx = hex_of_bytes
let b s = if s = "." then [] else bytes_of_hex s
let opt s = if s = "." then None else Some (bytes_of_hex s)
let n16 s = n_of_int (int_of_string ("0x" ^ s))
let sres r = match r with SOk l -> hx l | SErr -> "ERR" | SUnfinished -> "UNFINISHED"
let rec codes l = match l with a :: c :: r -> n_of_int (int_of_n a * 256 + int_of_n c) :: codes r | _ -> []
let oktab s = if s = "*" then (fun _ -> true) else
  let t = if s = "." then [] else List.map bytes_of_hex (split_on ',' s) in (fun x -> List.mem x t)
let f l = String.concat "|" l
let o x = match x with None -> "." | Some l -> hx l
let wf r k = if rec_wfb r then k () else "PRECONDITION"
let seen = ref []
let spy ok x = seen := x :: !seen; ok x
let with_seen star res = let s = List.rev !seen in seen := [];
  if star then res ^ " EXAMINED " ^ (if s = [] then "." else String.concat "," (List.map hx s)) else res

let handle ws = match ws with
  | ["seths"; rv; ty; data] -> (match set_handshake (n16 rv) (n_of_int (int_of_string ty)) (b data) with Some r -> hx r | None -> "ERR")
  | ["geths"; r] -> let r = b r in wf r (fun () -> match get_handshake r with Some (t, d) -> f [string_of_int (int_of_n t); hx d] | None -> "ERR")
  | ["setch"; rv; pr; rnd; sid; cs; ex] -> sres (set_client_hello_c (n16 rv) (n16 pr) (b rnd) (opt sid) (codes (b cs)) (opt ex))
  | ["getch"; r] -> let r = b r in wf r (fun () -> match get_client_hello r with
      | Some ((((p, rnd), sid), cs), ex) -> f [Printf.sprintf "%04x" (int_of_n p); hx rnd; hx sid; hx cs; o ex] | None -> "ERR")
  | ["setsh"; rv; pr; rnd; sid; c; ex] -> sres (set_server_hello_c (n16 rv) (n16 pr) (b rnd) (opt sid) (n16 c) (opt ex))
  | ["getsh"; r] -> let r = b r in wf r (fun () -> match get_server_hello r with
      | Some ((((p, rnd), sid), c), ex) -> f [Printf.sprintf "%04x" (int_of_n p); hx rnd; hx sid; Printf.sprintf "%04x" (int_of_n c); o ex] | None -> "ERR")
  | ["setcert"; rv; certs; ok] ->
    let cl = if certs = "." then [] else List.map bytes_of_hex (split_on ',' certs) in
    sres (set_certificate (oktab ok) (n16 rv) cl)
  | ["getcert"; r; ok] -> let r = b r in wf r (fun () ->
      with_seen (ok = "*") (match get_certificate (spy (oktab ok)) r with Some cs -> hx (List.concat cs) | None -> "ERR"))
  (* ---------------- TLS 1.3 forms (Tls/HsCodec13.v) ---------------- *)
  | ["setee13"; rv] -> sres (set_ee13 (n16 rv))
  | ["getee13"; r] -> let r = b r in wf r (fun () -> match get_ee13 r with Some _ -> "OK" | None -> "ERR")
  | ["setcv13"; rv; alg; sg] -> sres (set_cv13 (n16 rv) (n16 alg) (b sg))
  | ["getcv13"; r] -> let r = b r in wf r (fun () -> match get_cv13 r with Some (a, sg) -> f [Printf.sprintf "%04x" (int_of_n a); hx sg] | None -> "ERR")
  | ["setcr13"; rv; cx; ex] -> sres (set_cr13 (n16 rv) (b cx) (b ex))
  | ["getcr13"; r] -> let r = b r in wf r (fun () -> match get_cr13 r with Some (c, e) -> f [hx c; hx e] | None -> "ERR")
  | ["setcert13"; rv; cx; certs; ok] ->
    let cl = if certs = "." then [] else List.map bytes_of_hex (split_on ',' certs) in
    sres (set_cert13 (oktab ok) (n16 rv) (b cx) cl)
  | ["getcert13"; r] -> let r = b r in wf r (fun () -> match get_cert13 r with Some (c, l) -> f [hx c; hx l] | None -> "ERR")
  | ["certlist13"; l; ok] ->
    with_seen (ok = "*") (match process_cert_list13 (spy (oktab ok)) (b l) with Some cs -> hx (List.concat cs) | None -> "ERR")
  | ["setfin13"; rv; vd] -> sres (set_fin13 (n16 rv) (opt vd))
  | ["getfin13"; r] -> let r = b r in wf r (fun () -> match get_fin13 r with Some v -> hx v | None -> "ERR")
  | ["chexts13"; pt; cap] -> (match client_hello_exts13 (nat_of_int (int_of_string cap)) (b pt) with Some x -> hx x | None -> "ERR")
  | ["shexts13"; ex; ok] ->
    with_seen (ok = "*") (match server_hello_exts13 (spy (oktab ok)) (b ex) with
      | Some (Some pt) -> hx pt | Some None -> "OK-NO-KEY-SHARE" | None -> "ERR")
  | ["pchexts13"; ex; _; cap; spt; ok] ->
    with_seen (ok = "*") (match process_client_hello_exts13 (spy (oktab ok)) (nat_of_int (int_of_string cap)) (b spt) (b ex) with
      | Some (cpt, out) -> f [(match cpt with Some p -> hx p | None -> "-"); hx out] | None -> "ERR")
  | ["pchexts12"; ex; cap] -> (match process_client_hello_exts12 (nat_of_int (int_of_string cap)) (b ex) with Some o -> hx o | None -> "ERR")
  | ["shexts12"; ex] -> (match process_server_hello_exts12 (b ex) with
      | Some ((pf, g), sg) -> let p x = match x with Some v -> string_of_int (int_of_n v) | None -> "-1" in f [p pf; p g; p sg] | None -> "ERR")
  | ["nametab"; w] ->
    let t = (match w with "ext" -> extension_types | "sig" -> signature_schemes | "pf" -> point_formats | "curve" -> curves_known
             | "proto" -> protocols | "cs" -> cipher_suites_known | "hs" -> handshake_types | "ct" -> cert_types_known | _ -> []) in
    if t = [] then "-" else String.concat "," (List.map string_of_int (List.sort compare (List.map int_of_n t)))
  | ["setske"; rv; curve; pt; sg] -> sres (set_ske_ecdhe (n16 rv) (n_of_int (int_of_string curve)) (b pt) (b sg))
  | ["getske"; r; ok] -> let r = b r in wf r (fun () ->
      with_seen (ok = "*") (match get_ske_ecdhe (spy (oktab ok)) r with Some ((c, pt), sg) -> f [string_of_int (int_of_n c); hx pt; hx sg] | None -> "ERR"))
  | ["setckee"; rv; pt] -> sres (set_cke_ecdhe (n16 rv) (b pt))
  | ["getckee"; r; ok] -> let r = b r in wf r (fun () ->
      with_seen (ok = "*") (match get_cke_ecdhe (spy (oktab ok)) r with Some pt -> hx pt | None -> "ERR"))
  | ["setskp"; rv; sg] -> sres (set_ske_pke (n16 rv) (b sg))
  | ["getskp"; r] -> let r = b r in wf r (fun () -> match get_ske_pke r with Some s -> hx s | None -> "ERR")
  | ["setcr"; rv; ty; names] -> sres (set_certificate_request_c (n16 rv) (opt ty) (opt names))
  | ["getcr"; r] -> let r = b r in wf r (fun () -> match get_certificate_request r with Some (t, n) -> f [hx t; hx n] | None -> "ERR")
  | ["setshd"; rv] -> sres (set_server_hello_done (n16 rv))
  | ["getshd"; r] -> let r = b r in wf r (fun () -> match get_server_hello_done r with Some _ -> "OK" | None -> "ERR")
  | ["setckp"; rv; e] -> sres (set_cke_pke (n16 rv) (b e))
  | ["getckp"; r] -> let r = b r in wf r (fun () -> match get_cke_pke r with Some s -> hx s | None -> "ERR")
  | ["setcv"; rv; sg] -> sres (set_certificate_verify (n16 rv) (b sg))
  | ["getcv"; r] -> let r = b r in wf r (fun () -> match get_certificate_verify r with Some s -> hx s | None -> "ERR")
  | ["setfin"; rv; vd] -> sres (set_finished (n16 rv) (b vd))
  | ["getfin"; r] -> let r = b r in wf r (fun () -> match get_finished r with Some s -> hx s | None -> "ERR")
  | _ -> "ERR bad-op"

let () = main_loop handle
