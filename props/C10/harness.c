/* C10 harness: record-aware man-in-the-middle between an honest client and an honest server.
 *   layout <proto> <auth> <seed> [plan [nca]]        nca = CA certificates in trust store / client-CA bundle
 *        fault-free run; prints per direction the records that crossed the proxy (type:len)
 *   fault <proto> <auth> <seed> <kind> <dir> <idx> <off> <bit> <keep> [plan [nca]]
 *        plan = application messages each side sends after the handshake: [x]len[:pad],... (d = two of 16 bytes;
 *        x = through the harness' record-level sender, which can emit empty and padded records)
 *        kind: flip drop dup swap trunc-close trunc-fixlen inject ; dir 0 = client->server
 *        prints both handshake return values and, for a side that returned 1, the results of two
 *        subsequent receive calls (after it sent one application message)
 */
#include "common.h"
#include "entropy.h"
#include "../C08/tls_peer.h"
#include <signal.h>

static pki_t pki; static int pki_ready;
static pki_t *get_pki(void) {
	if (!pki_ready) { ent_seed(0xC10000, -1); ent_clock(T0); if (mk_pki(&pki, 1) != 1) return NULL; pki_ready = 1; }
	return &pki;
}

/* second receive after the post exchange of endpoint_main */
typedef struct { int r2; size_t l2; } post2_t;

static int run(int protocol, int auth, uint64_t seed, fault_t *f, int timeout_ms, int want_layout, const char *plan, int nca) {
	pki_t *k = get_pki(); session_t *S; uint8_t *schain = NULL, *cchain = NULL; size_t schainlen = 0, cchainlen = 0;
	int d, i;
	if (!k) { printf("ERR setup"); return -1; }
	S = calloc(1, sizeof(*S));
	chain_build(&schain, &schainlen, k, &k->ssign, protocol == TLS_protocol_tlcp ? &k->senc : NULL);
	chain_build(&cchain, &cchainlen, k, &k->csign, NULL);
	{	/* nca > 1: the client's trust store and the server's client-CA bundle hold nca certificates */
		uint8_t *anch = NULL; size_t anchlen = 0; int ok;
		if (nca > 1) { ent_seed(0xCA1000 + (uint64_t)nca, -1); if (bundle_build(&anch, &anchlen, &k->root, nca, (int)(seed % (uint64_t)nca), 0) != 1) { printf("ERR bundle"); free(schain); free(cchain); free(S); return -1; } }
		else { anch = malloc(k->root.len); memcpy(anch, k->root.der, k->root.len); anchlen = k->root.len; }
		ok = ep_setup(&S->s, protocol, 0, schain, schainlen, &k->ssign.key, protocol == TLS_protocol_tlcp ? &k->senc.key : NULL,
				auth ? anch : NULL, auth ? anchlen : 0) == 1
			&& ep_setup(&S->c, protocol, 1, auth ? cchain : NULL, auth ? cchainlen : 0, auth ? &k->csign.key : NULL, NULL, anch, anchlen) == 1;
		free(anch);
		if (!ok) { printf("ERR setup"); free(schain); free(cchain); free(S); return -1; }
	}
	S->c.seed = seed * 2 + 1; S->s.seed = seed * 2 + 2;
	S->c.post = S->s.post = 1;
	ep_plan(&S->c, plan); ep_plan(&S->s, plan);
	if (f) S->px.fault = *f;
	session_run(S, timeout_ms, 0);
	printf("rc=%d rs=%d", S->c.hs_ret, S->s.hs_ret);
	printf(" pc=%d:%d:%zu ps=%d:%d:%zu", S->c.post_send_ret, S->c.post_recv_ret, S->c.post_recv_ret == 1 ? S->c.post_recv_len : 0,
		S->s.post_send_ret, S->s.post_recv_ret, S->s.post_recv_ret == 1 ? S->s.post_recv_len : 0);
	{
		int np = S->c.nplan ? S->c.nplan : 2, napp = S->c.nplan ? 0 : 2, i;
		for (i = 0; i < S->c.nplan; i++) napp += PM_IS_APP(S->c.plan[i]);
		printf(" okc=%d oks=%d", S->c.post_accepted == napp && !S->c.post_deviates, S->s.post_accepted == napp && !S->s.post_deviates);
		printf(" accc=%d:%d accs=%d:%d", S->c.post_accepted, S->c.post_deviates, S->s.post_accepted, S->s.post_deviates);
		printf(" retsc="); for (i = 0; i < S->c.post_ncalls; i++) printf("%s%d", i ? "," : "", S->c.post_rets[i]); if (!S->c.post_ncalls) printf("-");
		printf(" retss="); for (i = 0; i < S->s.post_ncalls; i++) printf("%s%d", i ? "," : "", S->s.post_rets[i]); if (!S->s.post_ncalls) printf("-");
		printf(" seqc=%02x%02x:%02x%02x seqs=%02x%02x:%02x%02x", S->c.conn->client_seq_num[6], S->c.conn->client_seq_num[7], S->c.conn->server_seq_num[6], S->c.conn->server_seq_num[7],
			S->s.conn->client_seq_num[6], S->s.conn->client_seq_num[7], S->s.conn->server_seq_num[6], S->s.conn->server_seq_num[7]);
		printf(" np=%d napp=%d", np, napp);
	}
	printf(" applied=%d", S->px.fault.applied);
	if (want_layout) {
		for (d = 0; d < 2; d++) {
			printf(" %s=", d ? "s2c" : "c2s");
			for (i = 0; i < S->px.nrec[d] && i < 32; i++) printf("%s%u:%zu:%02x", i ? "," : "", S->px.rectype[d][i], S->px.reclen[d][i], S->px.copylen[d][i] > 5 ? S->px.copy[d][i][5] : 0);
		}
	}
	session_close(S); free(schain); free(cchain); free(S);
	return 0;
}

static int kind_of(const char *s) {
	if (!strcmp(s, "flip")) return F_FLIP; if (!strcmp(s, "drop")) return F_DROP; if (!strcmp(s, "dup")) return F_DUP;
	if (!strcmp(s, "swap")) return F_SWAP; if (!strcmp(s, "trunc-close")) return F_TRUNC_CLOSE;
	if (!strcmp(s, "trunc-fixlen")) return F_TRUNC_FIXLEN; if (!strcmp(s, "inject")) return F_INJECT;
	return -1;
}

static void handle(size_t nw, char **w) {
	if (!strcmp(w[0], "layout") && nw >= 4 && nw <= 6) run(proto_of(w[1]), atoi(w[2]), strtoull(w[3], NULL, 10), NULL, 6000, 1, nw >= 5 ? w[4] : "d", nw == 6 ? atoi(w[5]) : 1);
	else if (!strcmp(w[0], "fault") && nw >= 10 && nw <= 12) {
		fault_t f; memset(&f, 0, sizeof f);
		f.kind = kind_of(w[4]); f.dir = atoi(w[5]); f.idx = atoi(w[6]); f.off = strtoul(w[7], NULL, 10); f.bit = atoi(w[8]) & 7; f.keep = strtoul(w[9], NULL, 10);
		if (f.kind < 0 || proto_of(w[1]) < 0) { printf("ERR bad-op"); return; }
		run(proto_of(w[1]), atoi(w[2]), strtoull(w[3], NULL, 10), &f, 800, 0, nw >= 11 ? w[10] : "d", nw == 12 ? atoi(w[11]) : 1);
	}
	else printf("ERR bad-op");
}

int main(void) { signal(SIGPIPE, SIG_IGN); quiet_stderr(); main_loop(handle); return 0; }
