"""C10 — in-flight tampering with the handshake is always detected.
Theorems: Props/Properties_C10.v (Finished decision rule; transcripts equal under injectivity
premises).  Run time: FAULT ENUMERATION on the implementation (test support for the theorem):
a record-aware man-in-the-middle between two socketpairs; the oracle is the property text."""
from vlib import core

WRAP = "-Wl,--wrap=tls_record_send,--wrap=tls_record_recv,--wrap=sm2_do_ecdh,--wrap=tls_pre_master_secret_generate,--wrap=tls_record_set_handshake_certificate,--wrap=hkdf_expand,--wrap=tls_uint24array_to_bytes"
PROTOS = ["tlcp", "tls12", "tls13"]


def fields(line):
    return dict(f.split("=", 1) for f in line.split(" ") if "=" in f)


def parse_layout(s):
    return [tuple(int(x, 16) if i == 2 else int(x) for i, x in enumerate(r.split(":"))) for r in s.split(",")] if s else []


def run(ctx):
    ctx.check_proofs()
    exe, log = core.build_harness("C10", "asan", extra=WRAP)
    if exe is None:
        core.harness_build_failed(ctx, log)
        return finish(ctx)
    r = ctx.rng
    thorough = ctx.tier == "thorough"
    seeds = [11 + ctx.seed % 1000] if not thorough else [11 + ctx.seed % 1000, 12 + ctx.seed % 1000]
    # (protocol, auth mode, seed, number of CA certificates in trust store / client-CA bundle): with mutual
    # authentication also 3 CA names in CertificateRequest, so that every part of every message type that
    # exists only in some configuration (CertificateRequest, client Certificate, CertificateVerify) is swept
    configs = [(p, a, s, 1) for p in PROTOS for a in (0, 1) for s in seeds] + [(p, 1, seeds[0] + 50, 3) for p in PROTOS]
    louts, _ = core.run_lines(exe, ["layout %s %d %d d %d" % c for c in configs], shards=min(9, len(configs)))
    cases = []
    seen_types = {}
    for (proto, auth, seed, nca), lo in zip(configs, louts):
        ctx.cov["evaluations"] += 1
        f = fields(lo) if "=" in lo else {}
        if f.get("rc") != "1" or f.get("rs") != "1" or f.get("okc") != "1" or f.get("oks") != "1":
            ctx.violation("mitm:%s:auth%d:nca%d:baseline" % (proto, auth, nca), "fault-free run through the proxy does not complete: " + lo[:200],
                          {"kind": "failing-input", "op": "layout %s %d %d d %d" % (proto, auth, seed, nca), "impl": lo[:1000]})
            continue
        ctx.cell("mitm:%s:auth%d:nca%d:baseline" % (proto, auth, nca))
        lay = [parse_layout(f["c2s"]), parse_layout(f["s2c"])]
        # handshake records = all but the two application records each side sends afterwards
        nhs = [len(lay[0]) - 2, len(lay[1]) - 2]
        # the very last handshake record on the wire: server Finished (TLCP/TLS 1.2), client Finished (TLS 1.3)
        last = (0, nhs[0] - 1) if proto == "tls13" else (1, nhs[1] - 1)
        ctx.sample({"op": "layout %s %d %d d %d" % (proto, auth, seed, nca), "result": "c2s=%s s2c=%s" % (f["c2s"], f["s2c"])})
        for d_ in (0, 1):
            for (typ_, ln_, ht_) in lay[d_][:nhs[d_]]:
                if typ_ == 22:
                    seen_types.setdefault(proto, set()).add(ht_ if ht_ in (1, 2, 11, 12, 13, 14, 15, 16) else 20)
        step = 3 if not thorough else 1
        for d in (0, 1):
            for i in range(nhs[d]):
                typ, ln, ht = lay[d][i]
                base = "fault %s %d %d" % (proto, auth, seed)
                tail = " d %d" % nca
                cellb = "mitm:%s:auth%d%s" % (proto, auth, "" if nca == 1 else ":nca%d" % nca)
                plain_hs = typ == 22
                # messages that exist only with client authentication: every byte, also in the quick tier
                only_some = plain_hs and ht in (0x0d, 0x0f) or (plain_hs and ht == 0x0b and d == 0)
                if nca > 1 and not only_some and not thorough:
                    continue                                   # the extra configuration is there for those messages
                st = 1 if only_some else step
                offs = set(range(5 + (r.below(st) if st > 1 else 0), ln, st))
                if plain_hs:
                    offs |= {5, 6, 7, 8} & set(range(ln))          # handshake type and uint24 length
                offs |= {ln - 1}
                for off in sorted(offs):
                    bits = range(8) if (thorough and (off in (5, 6, 7, 8) or off % 16 == 0)) else [r.below(8)]
                    for bit in bits:
                        cls = "hs-header" if (plain_hs and off in (5, 6, 7, 8)) else ("plain-body" if plain_hs else ("ccs" if typ == 20 else "protected"))
                        cases.append(("%s flip %d %d %d %d 0%s" % (base, d, i, off, bit, tail), "%s:flip:%s" % (cellb, cls + (":client-auth-message" if only_some else "")), (d, i == nhs[d] - 1), "flip"))
                for kind, keeps in (("drop", [0]), ("dup", [0]), ("swap", [0]), ("inject", [0]),
                                    ("trunc-close", sorted({5, ln - 1, 5 + r.below(max(1, ln - 5))})),
                                    ("trunc-fixlen", sorted({5, ln - 1, 5 + r.below(max(1, ln - 5))}))):
                    for keep in keeps:
                        cases.append(("%s %s %d %d 0 0 %d%s" % (base, kind, d, i, keep, tail), "%s:%s" % (cellb, kind), (d, i == nhs[d] - 1), kind))
    outs, _ = core.run_lines(exe, [c[0] for c in cases], shards=16)
    nfault = 0
    for (line, cell, is_last, kind), out in zip(cases, outs):
        ctx.cov["evaluations"] += 1
        ctx.count("fault:" + kind)
        rep = {"kind": "failing-input", "op": line, "impl": out[:1000], "variant": "asan"}
        if out.startswith("FAULT"):
            ctx.violation("mitm:%s:recv-after-rejected-record" % line.split()[1], "an endpoint crashed under ASan (%s): after the tampered / duplicated record was rejected, the next receive call reads through conn->data with the unauthenticated conn->datalen [%s]" % (out[:40], line), rep); continue
        if "=" not in out:
            ctx.violation(cell + ":harness", "harness error: %s [%s]" % (out[:80], line), rep); continue
        f = fields(out)
        if f["applied"] != "1":
            ctx.count("fault-not-applied"); continue
        nfault += 1
        rc, rs = f["rc"], f["rs"]
        pc = f["pc"].split(":"); ps = f["ps"].split(":")
        accc = int(f["accc"].split(":")[0]); accs = int(f["accs"].split(":")[0])   # receive calls that returned 1
        if rc == "1" and rs == "1":
            d_, last_in_dir = is_last
            recv_side = ps if d_ == 0 else pc          # the endpoint that receives the copy
            if kind == "dup" and last_in_dir and recv_side[1] != "1":
                # duplicate of the last handshake record of a direction (a Finished): its receiver has
                # left the handshake before the copy arrives; what the property can still demand -- the
                # copy is not accepted as application data -- holds
                ctx.cell(cell + ":last-record-copy-rejected-as-data"); continue
            ctx.violation(cell + ":both-complete", "both endpoints report a completed handshake although the handshake was tampered with [%s] -> %s" % (line, out[:120]), rep)
            continue
        if rc == "1" and accc > 0:
            ctx.violation(cell + ":completed-client-accepts-data", "the client completed (the server did not) and then accepted application data [%s] -> %s" % (line, out[:120]), rep); continue
        if rs == "1" and accs > 0:
            ctx.violation(cell + ":completed-server-accepts-data", "the server completed (the client did not) and then accepted application data [%s] -> %s" % (line, out[:120]), rep); continue
        ctx.cell(cell + (":neither" if rc != "1" and rs != "1" else ":one-side-then-rejects"))
    ctx.notes.append("%d faults applied" % nfault)
    names = {1: "ClientHello", 2: "ServerHello", 11: "Certificate", 12: "ServerKeyExchange", 13: "CertificateRequest", 14: "ServerHelloDone", 15: "CertificateVerify", 16: "ClientKeyExchange", 20: "Finished(protected)"}
    ctx.cov["swept_plaintext_handshake_types"] = {p: sorted(names.get(t, "type %d" % t) for t in ts) for p, ts in seen_types.items()}
    for p in ("tlcp", "tls12"):
        missing = {13, 15, 11, 12, 14, 16, 1, 2} - seen_types.get(p, set())
        if missing:
            ctx.violation("mitm:%s:coverage" % p, "handshake message types never swept in any configuration: %s" % sorted(missing), {"kind": "coverage", "missing": sorted(missing)}, False)
    return finish(ctx)


def replay(path):
    import json
    r = json.load(open(path)); op = r.get("replay", {}).get("op")
    if not op:
        print("replay names a proof obligation, not an input:", json.dumps(r.get("replay"))[:800]); return 0
    exe, log = core.build_harness("C10", "asan", extra=WRAP)
    if exe is None:
        print(log[-2000:]); return 1
    a, err = core.run_lines(exe, [op], shards=1, env={"VERIF_STDERR": "1"})
    print("op:  ", op); print("impl:", a[0]); print("stderr:", err[-1500:])
    return 0


def finish(ctx):
    ctx.assumptions = [
        "the run-time part is fault ENUMERATION on the implementation (test support for the theorems), decided by the property oracle: never both endpoints complete; a side that completed does not accept application data afterwards",
        "theorem 'transcripts equal' carries explicit premises: the Finished function and SM3 do not collide on the two compared inputs, and the last Finished arrives as sent",
        "record header bytes of plaintext handshake records are not authenticated by the protocols: faults are applied to payload bytes (offset >= 5) and to whole records",
        "duplicate of the last handshake record of a direction (client Finished / server Finished): its receiver has left the handshake before the copy arrives, so both sides complete (true of every TLS implementation); the check then requires that the copy is not accepted as application data",
    ]
    return ctx.finish(level="proof",
                      rule="per protocol x {server-auth, mutual-auth}: single-bit flips at every 3rd payload byte of every handshake record (every byte in the thorough tier) plus all handshake type/length fields and the last byte; per record drop, duplicate, swap-with-next, inject, truncate (+close / +fixed length). cell = (protocol, auth mode, fault kind, region, outcome class)",
                      trusted=core.TRUSTED_COMMON + ["proxy thread and fault injection of props/C08/tls_peer.h", "Coq files: Tls/Handshake.v HandshakeProofs.v, Tls/KeySched.v"])
