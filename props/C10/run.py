"""C10 — in-flight tampering with the handshake is always detected.
Theorems: Props/Properties_C10.v (Finished decision rule; transcripts equal under injectivity
premises).  Run time: FAULT ENUMERATION on the implementation (test support for the theorem):
a record-aware man-in-the-middle between two socketpairs; the oracle is the property text."""
from vlib import core

WRAP = "-Wl,--wrap=tls_record_send,--wrap=tls_record_recv,--wrap=sm2_do_ecdh,--wrap=tls_pre_master_secret_generate,--wrap=tls_record_set_handshake_certificate,--wrap=hkdf_expand,--wrap=tls_uint24array_to_bytes,--wrap=sm2_sign_finish"
PROTOS = ["tlcp", "tls12", "tls13"]


def fields(line):
    return dict(f.split("=", 1) for f in line.split(" ") if "=" in f)


def parse_layout(s):
    return [tuple(int(x, 16) if i == 2 else int(x) for i, x in enumerate(r.split(":"))) for r in s.split(",")] if s else []



# ----------------------------------------------------------------------------- handshake message layer
KNOWN_VERS = ["0101", "0200", "0300", "0301", "0302", "0303", "0304", "feff", "fefd"]
KNOWN_CS = ["0000", "00c6", "00c7", "e011", "e051", "e013", "e053", "e015", "e055", "e017", "e057", "e019", "e059", "e01c", "e05a", "1301", "1302", "1303", "1304", "1305", "00ff"]
KNOWN_CT = [1, 2, 3, 4, 5, 6, 20, 64, 65, 66, 67, 68, 80]
GETTER = {"seths": "geths", "setch": "getch", "setsh": "getsh", "setcert": "getcert", "setske": "getske", "setckee": "getckee",
          "setskp": "getskp", "setcr": "getcr", "setshd": "getshd", "setckp": "getckp", "setcv": "getcv", "setfin": "getfin"}
TABLED = ("getcert", "getske", "getckee", "certlist13", "shexts13", "pchexts13")
CERT_TABLED = ("getcert", "certlist13")


def hx(b):
    return b.hex() if b else "-"


def hn(b):
    """empty = NULL pointer"""
    return b.hex() if b else "."


def codec_set_cases(ctx, r, certs, points):
    """setters on structured random admissible fields and on the boundary lengths (0, 1, max, max + 1)"""
    thorough = ctx.tier == "thorough"
    cases = []
    add = lambda l, c: cases.append((l, c))
    rv = lambda: r.choice(KNOWN_VERS + ["0303", "0101", "0303"])
    rnd32 = lambda: r.bytes(32).hex()
    # generic
    for ty in [0, 1, 2, 11, 12, 13, 14, 15, 16, 20, 22, 254, 7, 9, 10, 17, 255]:
        add("seths %s %d %s" % (rv(), ty, hx(r.bytes(r.choice([0, 1, 5, 300])))), "seths:type-%s" % ("known" if ty in (0, 1, 2, 11, 12, 13, 14, 15, 16, 20, 22, 254) else "unknown"))
    for n in (16379, 16380, 16381):
        add("seths 0303 1 %s" % hx(r.bytes(n)), "seths:len-%s" % ("max" if n <= 16380 else "max+1"))
    for v in ["0000", "0100", "0305", "0404", "ffff", "feff"]:
        add("seths %s 1 00" % v, "seths:record-version-%s" % ("known" if v in KNOWN_VERS else "unknown"))
    # ClientHello
    for i in range(60 if not thorough else 400):
        sid = r.choice([b"", b"", r.bytes(32)])
        ncs = r.choice([1, 1, 2, 3, 21, 64])
        cs = "".join(r.choice(KNOWN_CS) for _ in range(ncs))
        pr = r.choice(KNOWN_VERS)
        ex = r.choice([".", ".", hx(r.bytes(r.choice([1, 4, 60, 512])))])
        add("setch %s %s %s %s %s %s" % (rv(), pr, rnd32(), hn(sid), cs, ex), "setch:%s:%s" % ("sid32" if sid else "nosid", "noexts" if ex == "." else ("exts" if int(pr, 16) >= 0x0303 else "exts-before-tls12")))
    for sl in (1, 31, 33):
        add("setch 0303 0303 %s %s e011 ." % (rnd32(), r.bytes(sl).hex()), "setch:sid-len-not-32")
    add("setch 0303 0303 %s . . ." % rnd32(), "setch:no-ciphers")
    add("setch 0303 0303 %s . %s ." % (rnd32(), "e011" * 64), "setch:ciphers-max")
    add("setch 0303 0303 %s . %s ." % (rnd32(), "e011" * 65), "setch:ciphers-max+1")
    add("setch 0303 0303 %s . e011abcd ." % rnd32(), "setch:unknown-cipher")
    add("setch 0303 0999 %s . e011 ." % rnd32(), "setch:unknown-protocol")
    add("setch 0303 0303 %s . e011 -" % rnd32(), "setch:exts-empty")
    for n in (16338, 16339, 16340):       # body without exts = 2 + 32 + 1 + 2 + 2 + 2 = 41; 41 + 2 + n <= 16380
        add("setch 0303 0303 %s . e011 %s" % (rnd32(), r.bytes(n).hex()), "setch:exts-%s" % ("max" if n <= 16337 else "around-max"))
    add("setch 0303 0303 %s . e011 %s" % (rnd32(), r.bytes(16337).hex()), "setch:exts-max")
    # ServerHello
    for i in range(60 if not thorough else 400):
        sid = r.choice([b"", r.bytes(1), r.bytes(31), r.bytes(32)])
        pr = r.choice(KNOWN_VERS)
        ex = r.choice([".", ".", hx(r.bytes(r.choice([1, 4, 60, 512]))), "-"])
        add("setsh %s %s %s %s %s %s" % (rv(), pr, rnd32(), hn(sid), r.choice(KNOWN_CS), ex), "setsh:sid%s:%s" % ("0" if not sid else "n", "noexts" if ex == "." else ("exts" if int(pr, 16) >= 0x0303 else "exts-before-tls12")))
    add("setsh 0303 0303 %s %s e011 ." % (rnd32(), r.bytes(33).hex()), "setsh:sid-max+1")
    add("setsh 0303 0303 %s . abcd ." % rnd32(), "setsh:unknown-cipher")
    add("setsh 0303 0777 %s . e011 ." % rnd32(), "setsh:unknown-protocol")
    for n in (16339, 16340, 16341, 16342):  # 2 + 32 + 1 + 2 + 1 = 38; 38 + 2 + n <= 16380
        add("setsh 0303 0303 %s . e011 %s" % (rnd32(), r.bytes(n).hex()), "setsh:exts-around-max")
    # Certificate
    for i in range(30 if not thorough else 200):
        k = r.choice([1, 1, 2, 3, 5])
        chain = [r.choice(certs) for _ in range(k)]
        add("setcert %s %s *" % (rv(), ",".join(c.hex() for c in chain)), "setcert:n=%d" % min(k, 3))
    add("setcert 0303 . *", "setcert:empty")
    add("setcert 0303 %s *" % ",".join([certs[0].hex(), r.bytes(40).hex()]), "setcert:garbage-after-first")
    big = []
    while sum(3 + len(c) for c in big) + 3 <= 16380 + 600:
        big.append(r.choice(certs))
    for cut in (0, 1, 2):
        ch = big[:len(big) - cut]
        add("setcert 0303 %s *" % ",".join(c.hex() for c in ch), "setcert:total-%s" % ("over-max" if sum(3 + len(c) for c in ch) + 3 > 16380 else "below-max"))
    # key exchange
    for i in range(20):
        sg = r.bytes(r.choice([1, 70, 71, 72]))
        add("setske %s %d %s %s" % (rv(), r.choice([41, 41, 23, 29, 40, 0]), r.choice(points).hex(), sg.hex()), "setske:sig-ok")
        add("setckee %s %s" % (rv(), r.choice(points).hex()), "setckee")
        add("setskp %s %s" % (r.choice(["0101", "0101", "0303", "0304"]), sg.hex()), "setskp")
        add("setcv %s %s" % (rv(), sg.hex()), "setcv")
        add("setckp %s %s" % (rv(), r.bytes(r.choice([1, 100, 140, 16378])).hex()), "setckp")
    for nm, op in (("setske", "setske 0303 41 %s" % points[0].hex()), ("setskp", "setskp 0101"), ("setcv", "setcv 0303")):
        add("%s ." % op, nm + ":sig-empty"); add("%s %s" % (op, r.bytes(73).hex()), nm + ":sig-max+1")
    add("setckp 0303 .", "setckp:empty"); add("setckp 0303 %s" % r.bytes(16379).hex(), "setckp:max+1")
    # CertificateRequest
    def names(k):
        out = b""
        for _ in range(k):
            nm = r.bytes(r.choice([0, 1, 30, 120])); out += len(nm).to_bytes(2, "big") + nm
        return out
    for i in range(40 if not thorough else 200):
        ty = bytes(r.choice(KNOWN_CT) for _ in range(r.choice([1, 1, 2, 5, 255])))
        add("setcr %s %s %s" % (rv(), hx(ty), hn(names(r.choice([0, 1, 2, 5])))), "setcr:wellformed")
    add("setcr 0303 . .", "setcr:no-types")
    add("setcr 0303 %s ." % bytes([64] * 256).hex(), "setcr:types-256")
    add("setcr 0303 %s ." % bytes([64] * 257).hex(), "setcr:types-257")
    add("setcr 0303 4007 .", "setcr:unknown-type")
    # non-NULL pointer with length 0 (refused) against NULL (absent)
    add("setcr 0303 - .", "setcr:types-nonnull-empty"); add("setcr 0303 40 -", "setcr:names-nonnull-empty"); add("setcr 0303 . 00026162", "setcr:types-null")
    add("setch 0303 0303 %s - e011 ." % rnd32(), "setch:sid-nonnull-empty"); add("setsh 0303 0303 %s - e011 ." % rnd32(), "setsh:sid-nonnull-empty")
    add("setcr 0303 40 0005aabb", "setcr:names-malformed")
    for n in (16376, 16377, 16378):
        add("setcr 0303 40 %s" % r.bytes(n).hex(), "setcr:names-around-max")
    # ServerHelloDone, Finished
    for v in KNOWN_VERS + ["0000", "0404"]:
        add("setshd %s" % v, "setshd:%s" % ("known-version" if v in KNOWN_VERS else "unknown-version"))
    for n in (0, 1, 11, 12, 13, 31, 32, 33, 48):
        add("setfin %s %s" % (rv(), hx(r.bytes(n))), "setfin:len-%s" % ("ok" if n in (12, 32) else "bad"))
    # every setter once more with a record whose version bytes are not a known protocol: tls_record_set_handshake
    # then fails, and the setter either reports that (ERR) or ignores it (UNFINISHED)
    per = {}
    for (l, c) in list(cases):
        w = l.split(" ", 2)
        if w[0] != "seths" and len(w) == 3 and per.get(w[0], 0) < 4 and w[1] in KNOWN_VERS + ["0303", "0101"]:
            per[w[0]] = per.get(w[0], 0) + 1
            add("%s %s %s" % (w[0], r.choice(["0000", "0404", "1234"]), w[2]), w[0] + ":unknown-record-version")
    return cases


def codec_mutations(ctx, r, op, rec, every=False):
    """malformed neighbours of a valid record: always re-framed so that the bytes are 5 + declared length long,
    except for two deliberately ill-framed ones (both sides then answer PRECONDITION)"""
    out = []
    b = bytearray(rec)
    def frame(x):
        x = bytearray(x); n = len(x) - 5
        if 0 <= n < 65536:
            x[3] = n >> 8; x[4] = n & 255
        return bytes(x)
    # record header
    for pos, cls in ((0, "record-type"), (1, "record-version"), (2, "record-version")):
        x = bytearray(b); x[pos] ^= 1 << r.below(8); out.append((bytes(x), "flip:" + cls))
    x = bytearray(b); x[1:3] = bytes.fromhex(r.choice(KNOWN_VERS)); out.append((bytes(x), "other-known-record-version"))
    # handshake header: type, and the 24-bit length off by one in both directions (record length kept consistent / not)
    if len(b) >= 9:
        x = bytearray(b); x[5] = r.choice([0, 1, 2, 11, 12, 13, 14, 15, 16, 20, 7, 99]); out.append((bytes(x), "hs-type"))
        hl = int.from_bytes(b[6:9], "big")
        for d in (-1, 1):
            if 0 <= hl + d < 2**24:
                x = bytearray(b); x[6:9] = (hl + d).to_bytes(3, "big"); out.append((bytes(x), "hs-length%+d" % d))
        out.append((frame(bytes(b) + r.bytes(1)), "trailing-byte:record-length-adjusted"))
        x = bytearray(bytes(b) + r.bytes(1)); x[6:9] = (hl + 1).to_bytes(3, "big"); out.append((frame(x), "trailing-byte:both-lengths-adjusted"))
        if len(b) > 9:
            out.append((frame(bytes(b[:-1])), "truncated:record-length-adjusted"))
            x = bytearray(b[:-1]); x[6:9] = (hl - 1).to_bytes(3, "big"); out.append((frame(x), "truncated:both-lengths-adjusted"))
        out.append((frame(bytes(b[:9])), "body-removed"))
        x = bytearray(b[:9]); x[6:9] = b"\0\0\0"; out.append((frame(x), "empty-body"))
        # inner bytes: one bit flipped at EVERY position of a short body (every field, length byte and fixed
        # value of the message is hit), at a few positions of a long one
        if every and len(b) <= 9 + 160:
            for pos in range(9, len(b)):
                x = bytearray(b); x[pos] ^= 1 << r.below(8); out.append((bytes(x), "flip:body"))
        else:
            for _ in range(6):
                if len(b) > 9:
                    pos = 9 + r.below(len(b) - 9)
                    x = bytearray(b); x[pos] ^= 1 << r.below(8); out.append((bytes(x), "flip:body"))
        # insert / delete one body byte keeping both outer lengths consistent (inner vectors then overrun or leave bytes)
        if len(b) > 10:
            pos = 9 + r.below(len(b) - 9)
            x = bytearray(b[:pos] + r.bytes(1) + b[pos:]); x[6:9] = (hl + 1).to_bytes(3, "big"); out.append((frame(x), "inserted-byte"))
            x = bytearray(b[:pos] + b[pos + 1:]); x[6:9] = (hl - 1).to_bytes(3, "big"); out.append((frame(x), "deleted-byte"))
    # ill-framed on purpose
    out.append((bytes(b) + b"\0", "ill-framed:longer-than-declared"))
    if len(b) > 5:
        out.append((bytes(b[:-1]), "ill-framed:shorter-than-declared"))
    return out


def codec_crafted(ctx, r, certs, points):
    """records built field by field here (not by a setter): every field at and just outside the range the getter
    admits, everything else valid, both length layers consistent"""
    out = []
    u8 = lambda b: bytes([len(b)]) + b
    u16 = lambda b: len(b).to_bytes(2, "big") + b
    u24 = lambda b: len(b).to_bytes(3, "big") + b
    def rec(t, body, ver="0303"):
        return bytes([22]) + bytes.fromhex(ver) + (4 + len(body)).to_bytes(2, "big") + bytes([t]) + len(body).to_bytes(3, "big") + body
    rnd = lambda: r.bytes(32)
    for sl in (0, 1, 31, 32, 33, 64, 255):
        out.append(("getsh " + rec(2, b"\x03\x03" + rnd() + u8(r.bytes(sl)) + b"\xe0\x13\x00").hex(), "getsh:crafted:sid-len-%s" % ("ok" if sl <= 32 else "over")))
        out.append(("getch " + rec(1, b"\x03\x03" + rnd() + u8(r.bytes(sl)) + u16(b"\xe0\x13") + u8(b"\0")).hex(), "getch:crafted:sid-len-%s" % ("ok" if sl <= 32 else "over")))
    for comp in (b"", b"\0", b"\1", b"\1\0", b"\0" * 255):
        out.append(("getch " + rec(1, b"\x03\x03" + rnd() + u8(b"") + u16(b"\xe0\x13") + u8(comp)).hex(), "getch:crafted:compression-methods"))
    for comp in (0, 1, 255):
        for ex in (b"", u16(b""), u16(b"\0\0\0\0"), u16(b"\0\0\0\0") + b"\0"):
            out.append(("getsh " + rec(2, b"\x03\x03" + rnd() + u8(b"") + b"\xe0\x13" + bytes([comp]) + ex).hex(), "getsh:crafted:compression-%d:exts" % min(comp, 1)))
    for cs in (b"", b"\xe0", b"\xe0\x13", b"\xe0\x13\x00", b"\xab\xcd", b"\xe0\x13" * 200):
        out.append(("getch " + rec(1, b"\x03\x03" + rnd() + u8(b"") + u16(cs) + u8(b"\0")).hex(), "getch:crafted:cipher-bytes-%s" % ("even" if len(cs) % 2 == 0 else "odd")))
    for ex in (u16(b""), u16(b"\0\x0a\0\0"), u16(b"\0\x0a\0\0") + b"\0", b"\0"):
        out.append(("getch " + rec(1, b"\x03\x03" + rnd() + u8(b"") + u16(b"\xe0\x13") + u8(b"\0") + ex).hex(), "getch:crafted:exts"))
    for ver in ("0101", "0302", "0303", "0304", "0305", "0000"):
        for rv in ("0101", "0303", "0304"):
            out.append(("getsh " + rec(2, bytes.fromhex(ver) + rnd() + u8(b"") + b"\xe0\x13\x00", rv).hex(), "getsh:crafted:version-vs-record-version"))
            out.append(("getch " + rec(1, bytes.fromhex(ver) + rnd() + u8(b"") + u16(b"\xe0\x13") + u8(b"\0"), rv).hex(), "getch:crafted:version-vs-record-version"))
    for n in (0, 1, 11, 12, 13, 31, 32, 33, 48):
        out.append(("getfin " + rec(20, r.bytes(n)).hex(), "getfin:crafted:len-%s" % ("ok" if n in (12, 32) else "other")))
    for n in (0, 1, 72, 73, 300):
        sg = r.bytes(n)
        out.append(("getcv " + rec(15, u16(sg)).hex(), "getcv:crafted:sig-len-%s" % ("in-range" if 1 <= n <= 72 else "out-of-range")))
        out.append(("getskp " + rec(12, u16(sg), "0101").hex(), "getskp:crafted:sig-len-%s" % ("in-range" if 1 <= n <= 72 else "out-of-range")))
        out.append(("getskp " + rec(12, u16(sg), "0303").hex(), "getskp:crafted:not-tlcp"))
        out.append(("getckp " + rec(16, u16(sg)).hex(), "getckp:crafted:len"))
        pt = r.choice(points)
        for (ct, cv, alg) in ((3, 41, 0x0708), (1, 41, 0x0708), (3, 23, 0x0708), (3, 41, 0x0403), (3, 41, 0x0707)):
            out.append(("getske " + rec(12, bytes([ct]) + cv.to_bytes(2, "big") + u8(pt) + alg.to_bytes(2, "big") + u16(sg)).hex() + " *", "getske:crafted:%s" % ("wellformed" if (ct, cv, alg) == (3, 41, 0x0708) else "wrong-constant")))
    for pt in (points[0], points[0][:64], points[0] + b"\0", b"\x04" + bytes(64), b"\x02" + points[0][1:33], b""):
        out.append(("getckee " + rec(16, u8(pt)).hex() + " *", "getckee:crafted:point"))
        out.append(("getske " + rec(12, b"\x03\x00\x29" + u8(pt) + b"\x07\x08" + u16(b"\x30\x00")).hex() + " *", "getske:crafted:point"))
    for ty in (b"", b"\x01", b"\x40\x07", b"\x07", bytes([64]) * 255):
        for nm in (b"", u16(b"abc"), u16(b"abc") + b"\0", u16(b"abc") + u16(b""), b"\0\5abc"):
            out.append(("getcr " + rec(13, u8(ty) + u16(nm)).hex(), "getcr:crafted"))
    c0 = certs[0]
    for lst in (b"", u24(c0), u24(c0) + u24(c0), u24(b""), u24(c0) + u24(b""), u24(c0 + b"\0"), u24(c0[:-1]), u24(c0) + b"\0\0", u24(c0)[:-1]):
        out.append(("getcert " + rec(11, u24(lst)).hex() + " *", "getcert:crafted:list"))
        out.append(("getcert " + rec(11, u24(lst) + b"\x09").hex() + " *", "getcert:crafted:bytes-after-list"))
    return out


def codec13(ctx, r, model, exe, certs, points):
    """TLS 1.3 forms (Tls/HsCodec13.v): extension lists of the two hello messages, EncryptedExtensions, CertificateVerify,
    CertificateRequest, Certificate (+ certificate_list processing), Finished.  Returns getter-wave cases."""
    thorough = ctx.tier == "thorough"
    out = []
    add = lambda l, c: out.append((l, c))
    u8 = lambda b: bytes([len(b)]) + b
    u16 = lambda b: len(b).to_bytes(2, "big") + b
    u24 = lambda b: len(b).to_bytes(3, "big") + b
    ext = lambda t, d: t.to_bytes(2, "big") + u16(d)
    rv = lambda: r.choice(["0303", "0303", "0301", "0304", "0101"])
    scalar = r.bytes(32).hex()
    spt = core.run_lines(exe, ["mkpoint %s" % scalar], shards=1)[0][0]
    sv_c, sv_s = ext(43, u8(b"\x03\x04")), ext(43, b"\x03\x04")
    groups, sigalgs = ext(10, u16(b"\x00\x29")), ext(13, u16(b"\x07\x08"))
    ks_c = lambda pt: ext(51, u16(b"\x00\x29" + u16(pt)))
    ks_s = lambda pt: ext(51, b"\x00\x29" + u16(pt))

    def ext_mutations(x, every):
        res = []
        b = bytes(x)
        for k in (1, 2, 3):
            res.append(b + r.bytes(k)); res.append(b + bytes(k))
            if len(b) > k:
                res.append(b[:-k])
        res.append(b + b); res.append(b""); res.append(b[:2]); res.append(b[:3]); res.append(b[:4])
        # the length fields of every extension off by one, types changed
        pos = 0
        while pos + 4 <= len(b):
            ln = int.from_bytes(b[pos + 2:pos + 4], "big")
            for d in (-1, 1, 256):
                if 0 <= ln + d < 65536:
                    res.append(b[:pos + 2] + (ln + d).to_bytes(2, "big") + b[pos + 4:])
            res.append(b[:pos] + r.choice([b"\x00\x2b", b"\x00\x33", b"\x00\x0a", b"\xab\xcd"]) + b[pos + 2:])
            res.append(b[:pos] + b[pos + 4 + ln:])                       # this extension removed
            res.append(b[:pos] + ext(0x1234, r.bytes(5)) + b[pos:])      # an unknown one in front of it
            pos += 4 + ln
        positions = range(len(b)) if every else [r.below(len(b)) for _ in range(12)] if b else []
        for i in positions:
            y = bytearray(b); y[i] ^= 1 << r.below(8); res.append(bytes(y))
        return res

    # ---- ClientHello extensions: made by the client, processed by the server
    for pt in points[:3]:
        for cap in (512, 99, 98, 97, 0):
            add("chexts13 %s %d" % (pt.hex(), cap), "chexts13:capacity-%s" % ("enough" if cap >= 98 else "short"))
    for n, pt in enumerate(points[:3 if not thorough else 6]):
        good = sv_c + groups + sigalgs + ks_c(pt)
        tail = " %s %d %s *" % (scalar, 512, spt)
        add("pchexts13 %s%s" % (good.hex(), tail), "pchexts13:valid")
        for m in ext_mutations(good, every=(n == 0 or thorough)):
            add("pchexts13 %s%s" % (m.hex() or "-", tail), "pchexts13:malformed")
        # several versions / several shares / other groups first / share of a wrong length / unknown group
        for vs in (b"\x03\x04\x03\x03", b"\x03\x03\x03\x04", b"\x03\x03", b"\x03\x04\x03", b"\x03", b"", b"\x03\x04" * 127, b"\x03\x03" * 126 + b"\x03\x04\x03", b"\x09\x09\x03\x04"):
            add("pchexts13 %s%s" % ((ext(43, u8(vs)) + ks_c(pt)).hex(), tail), "pchexts13:versions")
        for shares in (b"\x00\x17" + u16(r.bytes(65)) + b"\x00\x29" + u16(pt), b"\x00\x29" + u16(pt) + b"\x00\x17" + u16(r.bytes(65)), b"\x00\x17" + u16(r.bytes(65)),
                       b"\x00\x29" + u16(pt[:64]), b"\x00\x29" + u16(pt + b"\0"), b"\x00\x29" + u16(b""), b"\x12\x34" + u16(pt), b"", b"\x00\x29" + u16(b"\x04" + bytes(64))):
            add("pchexts13 %s%s" % ((sv_c + ext(51, u16(shares))).hex(), tail), "pchexts13:shares")
        # capacity: every answer must fit into what the caller gave (tls13_do_accept: 512 bytes)
        for k, cap in ((1, 79), (1, 78), (1, 73), (6, 512), (7, 512), (8, 512), (20, 512), (3, 200), (2, 152), (2, 151)):
            add("pchexts13 %s %s %d %s *" % ((sv_c + ks_c(pt) * k).hex(), scalar, cap, spt), "pchexts13:over-capacity")
        for k, cap in ((85, 512), (86, 512), (100, 512), (3, 17), (3, 18)):
            add("pchexts13 %s %s %d %s *" % ((sv_c * k + ks_c(pt)).hex(), scalar, cap, spt), "pchexts13:capacity-versions")
    # ---- ServerHello extensions as the client reads them
    for n, pt in enumerate(points[:3 if not thorough else 6]):
        good = sv_s + ks_s(pt)
        add("shexts13 %s *" % good.hex(), "shexts13:valid")
        add("shexts13 %s *" % (ks_s(pt) + sv_s).hex(), "shexts13:valid")
        add("shexts13 %s *" % sv_s.hex(), "shexts13:valid")
        add("shexts13 %s *" % (good + ext(0x1234, r.bytes(9))).hex(), "shexts13:valid")
        for m in ext_mutations(good, every=(n == 0 or thorough)):
            add("shexts13 %s *" % (m.hex() or "-"), "shexts13:malformed")
        for bad in (ext(43, b"\x03\x03") + ks_s(pt), ext(43, b"\x03\x04\x00") + ks_s(pt), ext(43, b"\x03") + ks_s(pt), sv_s + ext(51, b"\x00\x17" + u16(pt)), sv_s + ext(51, b"\x00\x29" + u16(pt[:64])),
                    sv_s + ext(51, b"\x00\x29" + u16(pt) + b"\0"), sv_s + ext(51, b"\x00\x29" + u16(b"\x04" + bytes(64))), sv_s + ext(51, b"")):
            add("shexts13 %s *" % bad.hex(), "shexts13:malformed")
    # ---- name tables transcribed into the model against the library's
    for w in ("ext", "sig", "pf", "curve", "proto", "cs", "hs", "ct"):
        add("nametab %s" % w, "nametab:%s" % w)
    # ---- TLS 1.2 extension processing (src/tls_ext.c): ec_point_formats, supported_groups, signature_algorithms
    pf = lambda fs: ext(11, u8(bytes(fs)))
    gr = lambda gs: ext(10, u16(b"".join(g.to_bytes(2, "big") for g in gs)))
    sa = lambda as_: ext(13, u16(b"".join(a.to_bytes(2, "big") for a in as_)))
    good12 = pf([0]) + gr([41]) + sa([0x0708])
    for cap in (512, 64, 22, 30, 29, 24, 23, 16, 15, 14, 8, 7, 0):
        add("pchexts12 %s %d" % (good12.hex(), cap), "pchexts12:capacity")
        add("pchexts12 %s %d" % ((good12 * 3).hex(), cap), "pchexts12:capacity")
    add("pchexts12 %s 512" % (sa([0x0708]) * 63).hex(), "pchexts12:capacity"); add("pchexts12 %s 512" % (sa([0x0708]) * 64).hex(), "pchexts12:capacity")
    add("pchexts12 %s 512" % (pf([0]) * 86).hex(), "pchexts12:capacity")
    for x in (pf([0, 1, 2]), pf([1, 0]), pf([1, 2]), pf([0, 3]), pf([3, 0]), pf([]), ext(11, b""), ext(11, u8(b"\0") + b"\0"), ext(11, b"\x02\x00"),
              gr([41]), gr([23, 41]), gr([41, 23]), gr([23]), gr([41, 0x9999]), gr([0x9999, 41]), gr([]), ext(10, u16(b"\x00\x29\x00")), ext(10, u16(b"\x00\x29") + b"\0"), ext(10, b""),
              sa([0x0708]), sa([0x0403, 0x0708]), sa([0x0708, 0x0403]), sa([0x0403]), sa([0x9999, 0x0708]), sa([0x0708, 0x9999]), sa([]), ext(13, u16(b"\x07\x08\x00")), ext(13, u16(b"\x00\x07\x08")),
              ext(13, u16(b"\x07\x08") + b"\0"), ext(13, b""), ext(0, u16(b"abc")), ext(43, b"\x03\x04"), ext(0x1234, b""), ext(65281, b"\0"), ext(40, b"")):
        add("pchexts12 %s 512" % x.hex(), "pchexts12:one-extension")
        add("pchexts12 %s 512" % (good12 + x).hex(), "pchexts12:after-valid")
    for m in ext_mutations(good12, every=True):
        add("pchexts12 %s 512" % (m.hex() or "-"), "pchexts12:malformed")
        add("shexts12 %s" % (m.hex() or "-"), "shexts12:malformed")
    add("shexts12 %s" % good12.hex(), "shexts12:valid"); add("shexts12 -", "shexts12:valid")
    for x in (pf([0]), gr([41]), sa([0x0708]), pf([0, 0]), pf([1]), pf([]), gr([41, 41]), gr([23]), gr([]), sa([0x0708, 0x0708]), sa([0x0403]), sa([]), ext(11, b""), ext(10, b""), ext(13, b""),
              ext(43, b"\x03\x04"), ext(0x1234, b""), pf([0]) + pf([0]), ext(11, u8(b"\0") + b"\0"), ext(10, u16(b"\x00\x29") + b"\0")):
        add("shexts12 %s" % x.hex(), "shexts12:one-extension")
    # ---- setters, then getters on what the model says they produce, and on the malformed neighbours
    sets = []
    sa = lambda l, c: sets.append((l, c))   # (rebinds sa: the extension helper above is not used below)
    for v in ("0303", "0304", "0101", "0000", "1234"):
        sa("setee13 %s" % v, "setee13")
    for i in range(12 if not thorough else 60):
        sg = r.bytes(r.choice([0, 1, 70, 71, 72, 73, 300]))
        sa("setcv13 %s %s %s" % (rv(), r.choice(["0708", "0403", "0000", "ffff"]), hx(sg)), "setcv13:%s" % ("sig-empty" if not sg else "sig"))
        sa("setcr13 %s %s %s" % (rv(), hn(r.bytes(r.choice([0, 0, 1, 32, 255]))), hn(r.choice([sigalgs, sigalgs + ext(47, u16(u16(b"abc"))), b"", r.bytes(7)]))), "setcr13")
        sa("setfin13 %s %s" % (rv(), r.choice([".", "-", r.bytes(32).hex(), r.bytes(48).hex(), r.bytes(12).hex(), r.bytes(33).hex(), r.bytes(1).hex()])), "setfin13")
        k = r.choice([1, 1, 2, 3])
        sa("setcert13 %s %s %s *" % (rv(), hn(r.bytes(r.choice([0, 0, 4, 255]))), ",".join(r.choice(certs).hex() for _ in range(k))), "setcert13:n=%d" % k)
    sa("setcv13 0000 0708 3000", "setcv13:unknown-record-version"); sa("setcr13 1234 . 000d00020708", "setcr13:unknown-record-version")
    sa("setfin13 0404 %s" % r.bytes(32).hex(), "setfin13:unknown-record-version"); sa("setcert13 0000 . %s *" % certs[0].hex(), "setcert13:unknown-record-version")
    sa("setcert13 0303 . . *", "setcert13:empty")
    sa("setcert13 0303 . %s *" % ",".join([certs[0].hex(), r.bytes(40).hex()]), "setcert13:garbage-after-first")
    sa("setcert13 0303 . %s *" % ",".join([r.bytes(40).hex(), certs[0].hex()]), "setcert13:garbage-first")
    big = []
    while sum(5 + len(c) for c in big) + 4 <= 16380 + 500:
        big.append(r.choice(certs))
    for cut in (0, 1, 2):
        ch = big[:len(big) - cut]
        sa("setcert13 0303 . %s *" % ",".join(c.hex() for c in ch), "setcert13:total-%s" % ("over-max" if sum(5 + len(c) for c in ch) + 4 > 16380 else "below-max"))
    okcerts = ",".join(c.hex() for c in certs)
    sets = [((l[:-1] + okcerts) if l.startswith("setcert13 ") else l, c) for (l, c) in sets]
    mo, _ = core.run_lines(model, [l for l, _ in sets])
    G13 = {"setee13": "getee13", "setcv13": "getcv13", "setcr13": "getcr13", "setcert13": "getcert13", "setfin13": "getfin13"}
    nper = {}
    for (l, c), o in zip(sets, mo):
        out.append((l, c))
        if o.startswith(("ERR", "UNFINISHED", "MODEL")):
            continue
        op = l.split(" ", 1)[0]; g = G13[op]; rec = bytes.fromhex(o)
        add("%s %s" % (g, o), "%s:valid" % g)
        if len(rec) <= 700 or r.chance(1, 4):
            nper[g] = nper.get(g, 0) + 1
            for (m, cls) in codec_mutations(ctx, r, op, rec, every=(nper[g] <= (6 if not thorough else 40))):
                add("%s %s" % (g, m.hex()), "%s:%s" % (g, "malformed" if g == "getcv13" else cls))
        g2 = r.choice(sorted(G13.values()))
        add("%s %s" % (g2, o), "%s:%s" % (g2, "malformed" if g2 == "getcv13" else "other-message"))
        if op == "setcert13":
            body = rec[9:]; cl = body[0]; lst = body[1 + cl + 3:]
            add("certlist13 %s *" % (lst.hex() or "-"), "certlist13:valid")
    # ---- certificate_list processing: entries with extensions, empty entries, total size against the callers' 2048 bytes
    c0 = certs[0]
    ent = lambda c, ex=b"": u24(c) + u16(ex)
    for lst in (b"", ent(c0), ent(c0) + ent(c0), ent(c0, ext(5, b"")), ent(c0, ext(18, r.bytes(4))), ent(c0, ext(0x1234, b"")), ent(c0, ext(0, u16(b"abc"))), ent(c0, ext(10, b"")), ent(c0, ext(43, b"\x03\x04")), ent(c0, ext(51, b"")), ent(c0) + ent(c0, ext(13, b"")), ent(c0, b"\0"), ent(b""), ent(c0) + ent(b""), ent(c0 + b"\0"), ent(c0[:-1]),
                ent(c0)[:-1], ent(c0)[:-2], ent(c0) + b"\0", ent(c0) + b"\0\0\0", u24(c0)):
        add("certlist13 %s *" % (lst.hex() or "-"), "certlist13:crafted")
    chain = b""; total = 0
    while total + len(certs[1]) <= 2048 + 700:
        chain += ent(certs[1]); total += len(certs[1])
        add("certlist13 %s *" % chain.hex(), "certlist13:total-%s" % ("within-2048" if total <= 2048 else "over-2048"))
    # ---- crafted getter inputs
    def rec13(t, body, ver="0303"):
        return bytes([22]) + bytes.fromhex(ver) + (4 + len(body)).to_bytes(2, "big") + bytes([t]) + len(body).to_bytes(3, "big") + body
    for n in (0, 1, 31, 32, 33, 47, 48, 49, 64):
        add("getfin13 " + rec13(20, r.bytes(n)).hex(), "getfin13:crafted:len-%s" % ("ok" if n in (32, 48) else "other"))
    for body in (b"", b"\x07", b"\x07\x08", b"\x07\x08\x00", b"\x07\x08\x00\x00", b"\x07\x08\x00\x01", b"\x07\x08\x00\x02\x30", b"\x07\x08" + u16(r.bytes(70)) + b"\0", b"\x07\x08\xff\xff" + r.bytes(20)):
        add("getcv13 " + rec13(15, body).hex(), "getcv13:malformed")
    for body in (b"\x07\x08" + u16(r.bytes(70)), b"\x04\x03" + u16(r.bytes(8)), b"\x07\x08" + u16(r.bytes(300))):
        add("getcv13 " + rec13(15, body).hex(), "getcv13:valid")
    for t in (8, 11, 1, 20):
        for body in (u16(b""), u16(groups), u16(groups) + b"\0", b"", b"\0", b"\x00\x09" + groups[:8]):
            add("getee13 " + rec13(t, body).hex(), "getee13:crafted:type-%s" % ("ee" if t == 8 else "other"))
    for body in (u8(b"") + u16(sigalgs), u8(b"ctx") + u16(sigalgs), u8(b"") + u16(b""), u8(b"") + u16(sigalgs) + b"\0", u8(b""), b"", u8(b"") + b"\x00"):
        add("getcr13 " + rec13(13, body).hex(), "getcr13:crafted")
    for body in (u8(b"") + u24(ent(c0)), u8(b"cx") + u24(ent(c0)), u8(b"") + u24(b""), u8(b"") + u24(ent(c0)) + b"\0", u8(b"") + u24(ent(c0))[:-1], u8(b""), b""):
        add("getcert13 " + rec13(11, body).hex(), "getcert13:crafted")
    return out


def codec(ctx):
    """differential run of the handshake message layer (Tls/HsCodec.v vs src/tls.c, tls12.c, tlcp.c)"""
    import os
    model, log = core.build_model("C10")
    if model is None:
        ctx.violation("codec:model-build", "extracted codec model does not build: " + log[-500:], {"kind": "correspondence", "log": log[-3000:]}, False); return
    exe, log = core.build_harness("C10codec", "asan", sources=[os.path.join(core.ROOT, "props", "C10", "hscodec_harness.c")])
    if exe is None:
        core.harness_build_failed(ctx, log); return
    r = core.Rng(ctx.seed * 7919 + 17)
    # test data made by the library: certificates of several sizes, points
    seeds = [(100 + i, f) for i, f in enumerate([0, 0, 1, 17, 64, 128])]
    couts, _ = core.run_lines(exe, ["mkcert %d %d" % sf for sf in seeds] + ["mkpoint %s" % r.bytes(32).hex() for _ in range(6)], shards=1)
    certs = [bytes.fromhex(o) for o in couts[:len(seeds)] if not o.startswith(("ERR", "FAULT"))]
    points = [bytes.fromhex(o) for o in couts[len(seeds):] if not o.startswith(("ERR", "FAULT"))]
    if len(certs) < 3 or len(points) < 3:
        ctx.violation("codec:test-data", "could not generate certificates / points with the library", {"kind": "correspondence", "out": couts[:3]}, False); return
    setc = codec_set_cases(ctx, r, certs, points)
    # wave 1: setters (model decides with cert_ok = everything the library generated; fixed up below for garbage)
    okcerts = ",".join(c.hex() for c in certs)
    setc = [((l[:-1] + okcerts) if l.startswith("setcert ") else l, c) for (l, c) in setc]
    mouts, _ = core.run_lines(model, [l for l, _ in setc])
    # wave 2: getters on what the model's setters produced, and on their malformed neighbours, and on garbage
    getc = []
    nper = {}
    for (l, c), o in zip(setc, mouts):
        op = l.split(" ", 1)[0]
        if o.startswith(("ERR", "UNFINISHED", "MODEL")):
            continue
        rec = bytes.fromhex(o)
        g = GETTER[op]
        tail = " *" if g in TABLED else ""
        getc.append(("%s %s%s" % (g, o, tail), "%s:valid" % g))
        if len(rec) <= 600 or r.chance(1, 6):
            nper[g] = nper.get(g, 0) + 1
            for (m, cls) in codec_mutations(ctx, r, op, rec, every=(nper[g] <= (8 if ctx.tier != "thorough" else 60))):
                getc.append(("%s %s%s" % (g, m.hex(), tail), "%s:%s" % (g, cls)))
        # a record of one message type presented to another getter
        g2 = r.choice(sorted(set(GETTER.values())))
        getc.append(("%s %s%s" % (g2, o, " *" if g2 in TABLED else ""), "%s:other-message" % g2))
    for g in sorted(set(GETTER.values())):
        for n in [0, 1, 3, 4, 5, 10, 50, 300]:
            body = r.bytes(n)
            rec = bytes([22]) + bytes.fromhex(r.choice(KNOWN_VERS)) + len(body).to_bytes(2, "big") + body
            getc.append(("%s %s%s" % (g, rec.hex(), " *" if g in TABLED else ""), "%s:garbage" % g))
            if n >= 4:
                hdr = bytes([r.choice([1, 2, 11, 12, 13, 14, 15, 16, 20])]) + (n - 4).to_bytes(3, "big")
                rec = bytes([22, 3, 3]) + n.to_bytes(2, "big") + hdr + body[4:]
                getc.append(("%s %s%s" % (g, rec.hex(), " *" if g in TABLED else ""), "%s:garbage-framed" % g))
    getc += codec_crafted(ctx, r, certs, points)
    getc += codec13(ctx, r, model, exe, certs, points)
    # the byte strings cert_ok / point_ok will be asked about: first pass with "*", then ask the library
    tabled = [i for i, (l, c) in enumerate(getc) if l.split(" ", 1)[0] in TABLED]
    p1, _ = core.run_lines(model, [getc[i][0] for i in tabled])
    ask = {}
    for i, o in zip(tabled, p1):
        ex = o.rsplit(" EXAMINED ", 1)[1] if " EXAMINED " in o else "."
        for e in ([] if ex == "." else ex.split(",")):
            ask[(getc[i][0].split(" ", 1)[0] in CERT_TABLED, e)] = None
    keys = sorted(ask)
    qouts, _ = core.run_lines(exe, [("certok %s" if k[0] else "pointok %s") % (k[1] if k[1] != "-" else "-") for k in keys]) if keys else ([], "")
    for k, o in zip(keys, qouts):
        ask[k] = (o == "1")
    for i, o in zip(tabled, p1):
        ex = o.rsplit(" EXAMINED ", 1)[1] if " EXAMINED " in o else "."
        iscert = getc[i][0].split(" ", 1)[0] in CERT_TABLED
        ok = [e for e in ([] if ex == "." else ex.split(",")) if ask.get((iscert, e))]
        getc[i] = (getc[i][0][:-1] + (",".join(ok) if ok else "."), getc[i][1])
    # garbage handed to set_certificate: the model must be told that it is not a certificate
    allcases = setc + getc

    def oracle(line, a, b):
        if a.startswith(("OVER-CAPACITY", "OUTSIDE")):
            return "the function reported / returned data beyond the declared capacity: " + a[:60]
        if a.startswith("SKIP"):
            return None
        return None if a == b else "implementation differs from the handshake codec model"
    cases = [("codec " + l if False else l, "codec:" + c) for (l, c) in allcases]
    core.differential(ctx, cases, exe, model, variant="asan", oracle=oracle)
    ctx.notes.append("codec: %d setter cases, %d getter cases (%d with cert_ok / point_ok answered by the library)" % (len(setc), len(getc), len(tabled)))


def run(ctx):
    import os
    os.environ.setdefault("VERIF_OP_TIMEOUT", "120")   # per-operation watchdog of harness/common.h: a blocked peer becomes FAULT for that op
    ctx.check_proofs()
    codec(ctx)
    exe, log = core.build_harness("C10", "asan", extra=WRAP)
    if exe is None:
        core.harness_build_failed(ctx, log)
        return finish(ctx)
    r = ctx.rng
    thorough = ctx.tier == "thorough"
    seeds = [11 + ctx.seed % 1000] if not thorough else [11 + ctx.seed % 1000, 12 + ctx.seed % 1000]
    # (protocol, auth mode, seed, number of CA certificates in trust store / client-CA bundle): with mutual
    # authentication also 3 CA names in CertificateRequest, so that every part of every message type that
    # exists only in some configuration (CertificateRequest, client Certificate, CertificateVerify) is swept
    configs = [(p, a, s, 1) for p in PROTOS for a in (0, 1) for s in seeds] + [(p, 1, seeds[0] + 50, 3) for p in PROTOS]
    louts, _ = core.run_lines(exe, ["layout %s %d %d d %d" % c for c in configs], shards=min(9, len(configs)))
    cases = []
    seen_types = {}
    for (proto, auth, seed, nca), lo in zip(configs, louts):
        ctx.cov["evaluations"] += 1
        f = fields(lo) if "=" in lo else {}
        if f.get("rc") != "1" or f.get("rs") != "1" or f.get("okc") != "1" or f.get("oks") != "1":
            ctx.violation("mitm:%s:auth%d:nca%d:baseline" % (proto, auth, nca), "fault-free run through the proxy does not complete: " + lo[:200],
                          {"kind": "failing-input", "op": "layout %s %d %d d %d" % (proto, auth, seed, nca), "impl": lo[:1000]})
            continue
        ctx.cell("mitm:%s:auth%d:nca%d:baseline" % (proto, auth, nca))
        lay = [parse_layout(f["c2s"]), parse_layout(f["s2c"])]
        # handshake records = all but the two application records each side sends afterwards
        nhs = [len(lay[0]) - 2, len(lay[1]) - 2]
        # the very last handshake record on the wire: server Finished (TLCP/TLS 1.2), client Finished (TLS 1.3)
        last = (0, nhs[0] - 1) if proto == "tls13" else (1, nhs[1] - 1)
        ctx.sample({"op": "layout %s %d %d d %d" % (proto, auth, seed, nca), "result": "c2s=%s s2c=%s" % (f["c2s"], f["s2c"])})
        for d_ in (0, 1):
            for (typ_, ln_, ht_) in lay[d_][:nhs[d_]]:
                if typ_ == 22:
                    seen_types.setdefault(proto, set()).add(ht_ if ht_ in (1, 2, 11, 12, 13, 14, 15, 16) else 20)
        step = 3 if not thorough else 1
        for d in (0, 1):
            for i in range(nhs[d]):
                typ, ln, ht = lay[d][i]
                base = "fault %s %d %d" % (proto, auth, seed)
                tail = " d %d" % nca
                cellb = "mitm:%s:auth%d%s" % (proto, auth, "" if nca == 1 else ":nca%d" % nca)
                plain_hs = typ == 22
                # messages that exist only with client authentication: every byte, also in the quick tier
                only_some = plain_hs and ht in (0x0d, 0x0f) or (plain_hs and ht == 0x0b and d == 0)
                if nca > 1 and not only_some and not thorough:
                    continue                                   # the extra configuration is there for those messages
                # the two hello messages: every byte in every configuration (some of their bytes -- compression
                # methods, session id -- influence nothing but the transcript hash)
                hello = plain_hs and ht in (1, 2)
                st = 1 if (only_some or hello) else step
                offs = set(range(5 + (r.below(st) if st > 1 else 0), ln, st))
                if plain_hs:
                    offs |= {5, 6, 7, 8} & set(range(ln))          # handshake type and uint24 length
                offs |= {ln - 1}
                for off in sorted(offs):
                    bits = range(8) if (thorough and (off in (5, 6, 7, 8) or off % 16 == 0)) else [r.below(8)]
                    for bit in bits:
                        cls = "hs-header" if (plain_hs and off in (5, 6, 7, 8)) else ("plain-body" if plain_hs else ("ccs" if typ == 20 else "protected"))
                        cases.append(("%s flip %d %d %d %d 0%s" % (base, d, i, off, bit, tail), "%s:flip:%s" % (cellb, cls + (":client-auth-message" if only_some else (":hello" if hello else ""))), (d, i == nhs[d] - 1), "flip"))
                for kind, keeps in (("drop", [0]), ("dup", [0]), ("swap", [0]), ("inject", [0]),
                                    ("trunc-close", sorted({5, ln - 1, 5 + r.below(max(1, ln - 5))})),
                                    ("trunc-fixlen", sorted({5, ln - 1, 5 + r.below(max(1, ln - 5))}))):
                    for keep in keeps:
                        cases.append(("%s %s %d %d 0 0 %d%s" % (base, kind, d, i, keep, tail), "%s:%s" % (cellb, kind), (d, i == nhs[d] - 1), kind))
    outs, _ = core.run_lines(exe, [c[0] for c in cases], shards=16)
    nfault = 0
    for (line, cell, is_last, kind), out in zip(cases, outs):
        ctx.cov["evaluations"] += 1
        ctx.count("fault:" + kind)
        rep = {"kind": "failing-input", "op": line, "impl": out[:1000], "variant": "asan"}
        if out.startswith("FAULT"):
            ctx.violation("mitm:%s:recv-after-rejected-record" % line.split()[1], "an endpoint crashed under ASan (%s): after the tampered / duplicated record was rejected, the next receive call reads through conn->data with the unauthenticated conn->datalen [%s]" % (out[:40], line), rep); continue
        if "=" not in out:
            ctx.violation(cell + ":harness", "harness error: %s [%s]" % (out[:80], line), rep); continue
        f = fields(out)
        if f["applied"] != "1":
            ctx.count("fault-not-applied"); continue
        nfault += 1
        rc, rs = f["rc"], f["rs"]
        pc = f["pc"].split(":"); ps = f["ps"].split(":")
        accc = int(f["accc"].split(":")[0]); accs = int(f["accs"].split(":")[0])   # receive calls that returned 1
        if rc == "1" and rs == "1":
            d_, last_in_dir = is_last
            recv_side = ps if d_ == 0 else pc          # the endpoint that receives the copy
            if kind == "dup" and last_in_dir and recv_side[1] != "1":
                # duplicate of the last handshake record of a direction (a Finished): its receiver has
                # left the handshake before the copy arrives; what the property can still demand -- the
                # copy is not accepted as application data -- holds
                ctx.cell(cell + ":last-record-copy-rejected-as-data"); continue
            ctx.violation(cell + ":both-complete", "both endpoints report a completed handshake although the handshake was tampered with [%s] -> %s" % (line, out[:120]), rep)
            continue
        if rc == "1" and accc > 0:
            ctx.violation(cell + ":completed-client-accepts-data", "the client completed (the server did not) and then accepted application data [%s] -> %s" % (line, out[:120]), rep); continue
        if rs == "1" and accs > 0:
            ctx.violation(cell + ":completed-server-accepts-data", "the server completed (the client did not) and then accepted application data [%s] -> %s" % (line, out[:120]), rep); continue
        ctx.cell(cell + (":neither" if rc != "1" and rs != "1" else ":one-side-then-rejects"))
    ctx.notes.append("%d faults applied" % nfault)
    names = {1: "ClientHello", 2: "ServerHello", 11: "Certificate", 12: "ServerKeyExchange", 13: "CertificateRequest", 14: "ServerHelloDone", 15: "CertificateVerify", 16: "ClientKeyExchange", 20: "Finished(protected)"}
    ctx.cov["swept_plaintext_handshake_types"] = {p: sorted(names.get(t, "type %d" % t) for t in ts) for p, ts in seen_types.items()}
    for p in ("tlcp", "tls12"):
        missing = {13, 15, 11, 12, 14, 16, 1, 2} - seen_types.get(p, set())
        if missing:
            ctx.violation("mitm:%s:coverage" % p, "handshake message types never swept in any configuration: %s" % sorted(missing), {"kind": "coverage", "missing": sorted(missing)}, False)
    return finish(ctx)


def replay(path):
    import json
    r = json.load(open(path)); op = r.get("replay", {}).get("op")
    if not op:
        print("replay names a proof obligation, not an input:", json.dumps(r.get("replay"))[:800]); return 0
    if op.split(" ", 1)[0] in set(GETTER) | set(GETTER.values()) | {"seths", "geths", "certok", "pointok", "mkcert", "mkpoint"}:
        import os                      # an op of the handshake codec: library function against the extracted model
        exe, log = core.build_harness("C10codec", "asan", sources=[os.path.join(core.ROOT, "props", "C10", "hscodec_harness.c")])
        model, mlog = core.build_model("C10")
        if exe is None or model is None:
            print((log or "")[-2000:], (mlog or "")[-2000:]); return 1
        a, err = core.run_lines(exe, [op], shards=1, env={"VERIF_STDERR": "1"})
        m, _ = core.run_lines(model, [op], shards=1)
        print("op:   ", op[:2000]); print("impl: ", a[0][:2000]); print("model:", m[0][:2000]); print("stderr:", err[-1500:])
        return 0
    exe, log = core.build_harness("C10", "asan", extra=WRAP)
    if exe is None:
        print(log[-2000:]); return 1
    a, err = core.run_lines(exe, [op], shards=1, env={"VERIF_STDERR": "1"})
    print("op:  ", op); print("impl:", a[0]); print("stderr:", err[-1500:])
    return 0


def finish(ctx):
    ctx.assumptions = [
        "the run-time part is fault ENUMERATION on the implementation (test support for the theorems), decided by the property oracle: never both endpoints complete; a side that completed does not accept application data afterwards",
        "theorem 'transcripts equal' carries explicit premises: the Finished function and SM3 do not collide on the two compared inputs, and the last Finished arrives as sent",
        "record header bytes of plaintext handshake records are not authenticated by the protocols: faults are applied to payload bytes (offset >= 5) and to whole records",
        "duplicate of the last handshake record of a direction (client Finished / server Finished): its receiver has left the handshake before the copy arrives, so both sides complete (true of every TLS implementation); the check then requires that the copy is not accepted as application data",
        "handshake message layer (C10_codec_* theorems): Tls/HsCodec.v is an Impl model, written after the control flow of tls_record_set_handshake / tls_record_get_handshake and of the set_/get_ pairs for ClientHello, ServerHello, Certificate, ServerKeyExchange (ECDHE, TLCP), CertificateRequest, ServerHelloDone, ClientKeyExchange (ECDHE, PKE), CertificateVerify, Finished; it is tied to the C code by the differential run of this check (same inputs to the extracted model and to the library functions, outputs compared line by line, plus: no C output may leave the declared capacity TLS_MAX_RECORD_SIZE / the caller's buffers). TLS 1.3 forms: Tls/HsCodec13.v (extension lists of ClientHello / ServerHello: supported_versions, supported_groups, signature_algorithms, key_share as tls13_client_hello_exts_set writes and tls13_process_client_hello_exts / tls13_server_hello_extensions_get read them; EncryptedExtensions; Certificate with per-entry extensions and tls13_process_certificate_list; CertificateVerify; CertificateRequest; Finished) and the TLS 1.2 extension processing of src/tls_ext.c (tls_process_client_hello_exts / tls_process_server_hello_exts with ec_point_formats, supported_groups, signature_algorithms), same differential run, C10_codec13_* theorems. Three of these functions are modelled as repaired (f48e1aa, 5c74d17): a regression is a violation (keys codec:shexts13:malformed, codec:getcv13:malformed, codec:pchexts13:over-capacity)",
        "theorem hypotheses of the codec statements: rec_wf (the buffer holds exactly 5 + declared-length bytes: what tls_record_recv establishes) and bytes_ok (every element < 256); 'random' has 32 bytes (C array type). Whether 65 octets are a curve point (point_ok: sm2_z256_point_from_octets, C12) and whether a byte string is one DER certificate (cert_ok: x509_cert_from_der, C15) are INPUTS of the model, answered by the library itself during the differential run (harness ops pointok / certok)",
        "C10_codec_both_done_same_messages_partial / C10_codec_altered_handshake_record_detected_partial keep the premises of C10_both_done_same_transcript_partial (no collision of the Finished function and of SM3 on the one compared pair, last Finished delivered as sent, Finished framing) and add: each endpoint's transcript is the concatenation of record+5 of the handshake records it made or accepted, in order (the sm3_update calls of the drivers; observed by the C08 observer which recomputes both Finished values from the captured messages)",
        "lax getter rules are modelled as they are and recorded as Examples in Tls/HsCodecProofs.v, not asserted away: ClientHello compression methods unconstrained and empty cipher list accepted; bytes after the certificate list ignored; CertificateVerify signature length not bounded by the getter; setters ignoring the status of tls_record_set_handshake (return 1, no record) ; set_certificate_request accepting 256 types (length byte wraps). Patches: work/patches_tls/",
    ]
    return ctx.finish(level="proof",
                      rule="per protocol x {server-auth, mutual-auth}: single-bit flips at every 3rd payload byte of every handshake record (every byte in the thorough tier; every byte of ClientHello, ServerHello and of the client-authentication messages in every tier and every authentication mode) plus all handshake type/length fields and the last byte; per record drop, duplicate, swap-with-next, inject, truncate (+close / +fixed length). cell = (protocol, auth mode, fault kind, region, outcome class). Codec part: per set_/get_ function, structured random admissible fields plus boundary lengths (0, 1, max, max+1), every valid record re-read by its getter and by another message's getter, malformed neighbours of valid records (record type / version flips, handshake type, 24-bit length +-1, truncation and trailing byte with one or both outer lengths adjusted, body removed, inserted / deleted / flipped body bytes, ill-framed buffers) and random bodies under a valid record header; cell = (op, variant class)",
                      trusted=core.TRUSTED_COMMON + ["proxy thread and fault injection of props/C08/tls_peer.h", "Coq files: Tls/Handshake.v HandshakeProofs.v, Tls/KeySched.v, Tls/HsCodec.v HsCodecProofs.v HsCodec13.v HsCodec13Proofs.v", "codec harness props/C10/hscodec_harness.c and OCaml driver props/C10/driver.ml (argument parsing, printing)", "name tables of src/tls_trace.c (protocol / cipher suite / handshake type / certificate type / curve / extension / signature scheme / point format values) transcribed into Tls/HsCodec.v and HsCodec13.v: compared with the library's tables over 0..65535 at every run (op nametab)"])
