/* C10 codec harness: the handshake message set_/get_ functions of the current /repo tree, one op per line.
 * Setters write into an exactly sized heap block of TLS_MAX_RECORD_SIZE bytes (the capacity their callers
 * provide: conn->record); getters read from an exactly sized copy of the record (5 + declared length bytes).
 * Fields: hex; "." = NULL pointer, "-" = empty.  Output: record / fields joined by '|' / ERR / UNFINISHED
 * (returned 1 without producing a record) / PRECONDITION (the given bytes are not 5 + declared length long). */
#include "common.h"
#include "entropy.h"
#include <gmssl/tls.h>
#include <gmssl/x509_ext.h>
#include <gmssl/x509_cer.h>
#include <gmssl/oid.h>
#include <gmssl/rand.h>
#include <gmssl/sm2.h>
#include <gmssl/x509.h>

int tlcp_record_set_handshake_server_key_exchange_pke(uint8_t *record, size_t *recordlen, const uint8_t *sig, size_t siglen);
int tlcp_record_get_handshake_server_key_exchange_pke(const uint8_t *record, const uint8_t **sig, size_t *siglen);
int tls_record_set_handshake_server_key_exchange_ecdhe(uint8_t *record, size_t *recordlen, int curve, const SM2_Z256_POINT *point, const uint8_t *sig, size_t siglen);
int tls_record_get_handshake_server_key_exchange_ecdhe(const uint8_t *record, int *curve, SM2_Z256_POINT *point, const uint8_t **sig, size_t *siglen);
int tls_record_set_handshake_client_key_exchange_ecdhe(uint8_t *record, size_t *recordlen, const SM2_Z256_POINT *point);
int tls_record_get_handshake_client_key_exchange_ecdhe(const uint8_t *record, SM2_Z256_POINT *point);


/* TLS 1.3 message forms (src/tls13.c, src/tls_ext.c) */
int tls13_record_set_handshake_encrypted_extensions(uint8_t *record, size_t *recordlen);
int tls13_record_get_handshake_encrypted_extensions(const uint8_t *record);
int tls13_record_set_handshake_certificate_verify(uint8_t *record, size_t *recordlen, int sign_algor, const uint8_t *sig, size_t siglen);
int tls13_record_get_handshake_certificate_verify(const uint8_t *record, int *sign_algor, const uint8_t **sig, size_t *siglen);
int tls13_record_set_handshake_certificate_request(uint8_t *record, size_t *recordlen, const uint8_t *request_context, size_t request_context_len, const uint8_t *exts, size_t extslen);
int tls13_record_get_handshake_certificate_request(const uint8_t *record, const uint8_t **requst_context, size_t *request_context_len, const uint8_t **exts, size_t *exts_len);
int tls13_record_set_handshake_certificate(uint8_t *record, size_t *recordlen, const uint8_t *request_context, size_t request_context_len, const uint8_t *certs, size_t certslen);
int tls13_record_get_handshake_certificate(const uint8_t *record, const uint8_t **cert_request_context, size_t *cert_request_context_len, const uint8_t **cert_list, size_t *cert_list_len);
int tls13_process_certificate_list(const uint8_t *cert_list, size_t cert_list_len, uint8_t *certs, size_t *certs_len);
int tls13_record_set_handshake_finished(uint8_t *record, size_t *recordlen, const uint8_t *verify_data, size_t verify_data_len);
int tls13_record_get_handshake_finished(const uint8_t *record, const uint8_t **verify_data, size_t *verify_data_len);
int tls13_client_hello_exts_set(uint8_t *exts, size_t *extslen, size_t maxlen, const SM2_Z256_POINT *client_ecdhe_public);
int tls13_server_hello_extensions_get(const uint8_t *exts, size_t extslen, SM2_Z256_POINT *sm2_point);
int tls13_process_client_hello_exts(const uint8_t *exts, size_t extslen, const SM2_KEY *server_ecdhe_key, SM2_Z256_POINT *client_ecdhe_public, uint8_t *server_exts, size_t *server_exts_len, size_t server_exts_maxlen);
int tls_process_client_hello_exts(const uint8_t *exts, size_t extslen, uint8_t *out, size_t *outlen, size_t maxlen);
int tls_process_server_hello_exts(const uint8_t *exts, size_t extslen, int *ec_point_format, int *supported_group, int *signature_algor);
const char *tls_extension_name(int ext); const char *tls_signature_scheme_name(int scheme); const char *tls_ec_point_format_name(int format);
#include <setjmp.h>
#include <signal.h>
#include <unistd.h>
static sigjmp_buf hang_jmp;
static void on_alarm(int sig) { (void)sig; siglongjmp(hang_jmp, 1); }
/* a pointer / length the callee must overwrite before it may return 1 */
#define UNSET_PTR ((const uint8_t *)(uintptr_t)0x5A5A5A5A5A5AULL)
#define SENT ((size_t)0xA5A5A5A5A5A5A5A5ULL)
#define NUL(b) ((b).n ? (b).p : NULL)
/* "." = NULL pointer; "-" = non-NULL pointer, length 0 */
#define PTR(word, b) (isdot(word) ? NULL : (b).p)
static int isdot(const char *s) { return !strcmp(s, "."); }
static buf_t fld(const char *s) { return isdot(s) ? hex2buf("-") : hex2buf(s); }

/* fresh record buffer of the callers' capacity, protocol version preset as the callers do */
static uint8_t *newrec(const char *rv) {
	uint8_t *r = malloc(TLS_MAX_RECORD_SIZE); unsigned v = (unsigned)strtoul(rv, NULL, 16);
	memset(r, 0xA5, TLS_MAX_RECORD_SIZE); r[1] = (uint8_t)(v >> 8); r[2] = (uint8_t)v;
	return r;
}
static void put_set(int ret, const uint8_t *rec, size_t len) {
	if (ret != 1) printf("ERR");
	else if (len == SENT) printf("UNFINISHED");
	else if (len > TLS_MAX_RECORD_SIZE) printf("OVER-CAPACITY %zu", len);
	else puthex(rec, len);
}
/* exactly sized copy of a received record; NULL if the bytes are not 5 + declared length long */
static uint8_t *getrec(const char *hex, size_t *n) {
	buf_t b = hex2buf(hex); uint8_t *r;
	if (b.n < 5 || b.n != 5 + (((size_t)b.p[3] << 8) | b.p[4])) { free(b.p); return NULL; }
	r = malloc(b.n); memcpy(r, b.p, b.n); *n = b.n; free(b.p); return r;
}
static void putf(const uint8_t *p, size_t n) { if (!p && !n) printf("."); else puthex(p, n); }
/* getters return pointers into the record: they must stay inside it */
static int inside(const uint8_t *rec, size_t n, const uint8_t *p, size_t len) { return !p || (p >= rec && p + len <= rec + n); }

static void handle(size_t nw, char **w) {
	size_t rl = SENT, n = 0; uint8_t *rec;
	if (!strcmp(w[0], "certok") && nw == 2) {      /* does x509_cert_from_der accept exactly these bytes as one certificate? */
		buf_t a = hex2buf(w[1]); const uint8_t *c, *p = a.p; size_t cl, l = a.n;
		printf("%d", a.n && x509_cert_from_der(&c, &cl, &p, &l) == 1 && l == 0); free(a.p);
	}
	else if (!strcmp(w[0], "mkcert") && nw == 3) {   /* a self-signed certificate, its name padded by <fill> bytes: test data */
		SM2_KEY key; uint8_t name[640], exts[128], serial[12], *der = malloc(4096), *p = der; size_t nl = 0, el = 0, dl = 0; char st[129];
		size_t fill = strtoul(w[2], NULL, 10); if (fill > 128) fill = 128;
		ent_seed(strtoull(w[1], NULL, 10), -1);
		memset(st, 'S', fill); st[fill] = 0;
		rand_bytes(serial, sizeof serial); serial[0] = (serial[0] & 0x7f) | 0x40;
		if (sm2_key_generate(&key) == 1 && x509_name_set(name, &nl, sizeof name, "CN", fill ? st : NULL, NULL, "PKU", NULL, "codec") == 1
			&& x509_exts_add_key_usage(exts, &el, sizeof exts, X509_critical, X509_KU_DIGITAL_SIGNATURE) == 1
			&& x509_cert_sign_to_der(X509_version_v3, serial, sizeof serial, OID_sm2sign_with_sm3, name, nl, (time_t)1700000000 - 86400, (time_t)1700000000 + 86400 * 300,
				name, nl, &key, NULL, 0, NULL, 0, exts, el, &key, SM2_DEFAULT_ID, SM2_DEFAULT_ID_LENGTH, &p, &dl) == 1) puthex(der, dl);
		else printf("ERR");
		free(der);
	}
	else if (!strcmp(w[0], "mkpoint") && nw == 2) {  /* scalar * G as 65 octets: test data */
		buf_t k = hex2buf(w[1]); SM2_KEY key; sm2_z256_t d; uint8_t oct[65];
		if (k.n == 32) { sm2_z256_from_bytes(d, k.p); if (sm2_key_set_private_key(&key, d) == 1) { sm2_z256_point_to_uncompressed_octets(&key.public_key, oct); puthex(oct, 65); } else printf("ERR"); } else printf("ERR");
		free(k.p);
	}
	else if (!strcmp(w[0], "pointok") && nw == 2) { /* does sm2_z256_point_from_octets accept these octets? */
		buf_t a = hex2buf(w[1]); SM2_Z256_POINT P; printf("%d", a.n && sm2_z256_point_from_octets(&P, a.p, a.n) == 1); free(a.p);
	}
	else if (!strcmp(w[0], "seths") && nw == 4) {
		buf_t d = fld(w[3]); rec = newrec(w[1]);
		{ int ret_ = tls_record_set_handshake(rec, &rl, atoi(w[2]), NUL(d), d.n); put_set(ret_, rec, rl); } free(rec); free(d.p);
	}
	else if (!strcmp(w[0], "geths") && nw == 2) {
		int t; const uint8_t *d; size_t dl;
		if (!(rec = getrec(w[1], &n))) { printf("PRECONDITION"); return; }
		if (tls_record_get_handshake(rec, &t, &d, &dl) == 1) { if (!inside(rec, n, d, dl)) printf("OUTSIDE"); else { printf("%d|", t); puthex(d, dl); } } else printf("ERR");
		free(rec);
	}
	else if (!strcmp(w[0], "setch") && nw == 7) {
		buf_t rnd = fld(w[3]), sid = fld(w[4]), cs = fld(w[5]), ex = fld(w[6]); int suites[80]; size_t i, k = cs.n / 2;
		rec = newrec(w[1]);
		for (i = 0; i < k && i < 80; i++) suites[i] = (cs.p[2 * i] << 8) | cs.p[2 * i + 1];
		{ int ret_ = tls_record_set_handshake_client_hello(rec, &rl, (int)strtoul(w[2], NULL, 16), rnd.p, PTR(w[4], sid), sid.n, suites, k > 80 ? 80 : k,
			isdot(w[6]) ? NULL : ex.p, ex.n); put_set(ret_, rec, rl); }
		free(rec); free(rnd.p); free(sid.p); free(cs.p); free(ex.p);
	}
	else if (!strcmp(w[0], "getch") && nw == 2) {
		int pr; const uint8_t *rnd, *sid, *cs, *ex; size_t sl, cl, el;
		if (!(rec = getrec(w[1], &n))) { printf("PRECONDITION"); return; }
		if (tls_record_get_handshake_client_hello(rec, &pr, &rnd, &sid, &sl, &cs, &cl, &ex, &el) == 1) {
			if (!inside(rec, n, rnd, 32) || !inside(rec, n, sid, sl) || !inside(rec, n, cs, cl) || !inside(rec, n, ex, el)) printf("OUTSIDE");
			else { printf("%04x|", pr); puthex(rnd, 32); printf("|"); puthex(sid, sl); printf("|"); puthex(cs, cl); printf("|"); putf(ex, el); }
		} else printf("ERR");
		free(rec);
	}
	else if (!strcmp(w[0], "setsh") && nw == 7) {
		buf_t rnd = fld(w[3]), sid = fld(w[4]), ex = fld(w[6]);
		rec = newrec(w[1]);
		{ int ret_ = tls_record_set_handshake_server_hello(rec, &rl, (int)strtoul(w[2], NULL, 16), rnd.p, PTR(w[4], sid), sid.n, (int)strtoul(w[5], NULL, 16),
			isdot(w[6]) ? NULL : ex.p, ex.n); put_set(ret_, rec, rl); }
		free(rec); free(rnd.p); free(sid.p); free(ex.p);
	}
	else if (!strcmp(w[0], "getsh") && nw == 2) {
		int pr, c; const uint8_t *rnd, *sid, *ex; size_t sl, el;
		if (!(rec = getrec(w[1], &n))) { printf("PRECONDITION"); return; }
		if (tls_record_get_handshake_server_hello(rec, &pr, &rnd, &sid, &sl, &c, &ex, &el) == 1) {
			if (!inside(rec, n, rnd, 32) || !inside(rec, n, sid, sl) || !inside(rec, n, ex, el)) printf("OUTSIDE");
			else { printf("%04x|", pr); puthex(rnd, 32); printf("|"); puthex(sid, sl); printf("|%04x|", c); putf(ex, el); }
		} else printf("ERR");
		free(rec);
	}
	else if (!strcmp(w[0], "setcert") && nw == 4) {
		/* the chain is handed over as the concatenation of the listed byte strings */
		uint8_t *cat = malloc(1); size_t cl = 0; char *save = NULL, *t;
		if (!isdot(w[2])) for (t = strtok_r(w[2], ",", &save); t; t = strtok_r(NULL, ",", &save)) { buf_t c = hex2buf(t); cat = realloc(cat, cl + c.n + 1); memcpy(cat + cl, c.p, c.n); cl += c.n; free(c.p); }
		rec = newrec(w[1]);
		{ int ret_ = tls_record_set_handshake_certificate(rec, &rl, cl ? cat : NULL, cl); put_set(ret_, rec, rl); }
		free(rec); free(cat);
	}
	else if (!strcmp(w[0], "getcert") && nw == 3) {
		uint8_t *out = malloc(TLS_MAX_CERTIFICATES_SIZE); size_t ol = SENT;     /* the capacity of conn->server_certs / client_certs */
		if (!(rec = getrec(w[1], &n))) { printf("PRECONDITION"); free(out); return; }
		if (tls_record_get_handshake_certificate(rec, out, &ol) == 1) { if (ol > TLS_MAX_CERTIFICATES_SIZE) printf("OVER-CAPACITY %zu", ol); else puthex(out, ol); } else printf("ERR");
		free(rec); free(out);
	}
	else if (!strcmp(w[0], "setske") && nw == 5) {
		buf_t pt = fld(w[3]), sg = fld(w[4]); SM2_Z256_POINT P;
		if (sm2_z256_point_from_octets(&P, pt.p, pt.n) != 1) { printf("SKIP invalid-point"); free(pt.p); free(sg.p); return; }
		rec = newrec(w[1]);
		{ int ret_ = tls_record_set_handshake_server_key_exchange_ecdhe(rec, &rl, atoi(w[2]), &P, NUL(sg), sg.n); put_set(ret_, rec, rl); }
		free(rec); free(pt.p); free(sg.p);
	}
	else if (!strcmp(w[0], "getske") && nw == 3) {
		int curve; SM2_Z256_POINT P; const uint8_t *sg; size_t sl; uint8_t oct[65];
		if (!(rec = getrec(w[1], &n))) { printf("PRECONDITION"); return; }
		if (tls_record_get_handshake_server_key_exchange_ecdhe(rec, &curve, &P, &sg, &sl) == 1) {
			if (!inside(rec, n, sg, sl)) printf("OUTSIDE");
			else { sm2_z256_point_to_uncompressed_octets(&P, oct); printf("%d|", curve); puthex(oct, 65); printf("|"); puthex(sg, sl); }
		} else printf("ERR");
		free(rec);
	}
	else if (!strcmp(w[0], "setckee") && nw == 3) {
		buf_t pt = fld(w[2]); SM2_Z256_POINT P;
		if (sm2_z256_point_from_octets(&P, pt.p, pt.n) != 1) { printf("SKIP invalid-point"); free(pt.p); return; }
		rec = newrec(w[1]);
		{ int ret_ = tls_record_set_handshake_client_key_exchange_ecdhe(rec, &rl, &P); put_set(ret_, rec, rl); }
		free(rec); free(pt.p);
	}
	else if (!strcmp(w[0], "getckee") && nw == 3) {
		SM2_Z256_POINT P; uint8_t oct[65];
		if (!(rec = getrec(w[1], &n))) { printf("PRECONDITION"); return; }
		if (tls_record_get_handshake_client_key_exchange_ecdhe(rec, &P) == 1) { sm2_z256_point_to_uncompressed_octets(&P, oct); puthex(oct, 65); } else printf("ERR");
		free(rec);
	}
#define SET1(NAME, FN) else if (!strcmp(w[0], NAME) && nw == 3) { buf_t a = fld(w[2]); rec = newrec(w[1]); { int ret_ = FN(rec, &rl, NUL(a), a.n); put_set(ret_, rec, rl); } free(rec); free(a.p); }
#define GET1(NAME, FN) else if (!strcmp(w[0], NAME) && nw == 2) { const uint8_t *a; size_t al; \
		if (!(rec = getrec(w[1], &n))) { printf("PRECONDITION"); return; } \
		if (FN(rec, &a, &al) == 1) { if (!inside(rec, n, a, al)) printf("OUTSIDE"); else puthex(a, al); } else printf("ERR"); free(rec); }
	SET1("setskp", tlcp_record_set_handshake_server_key_exchange_pke)
	GET1("getskp", tlcp_record_get_handshake_server_key_exchange_pke)
	SET1("setckp", tls_record_set_handshake_client_key_exchange_pke)
	GET1("getckp", tls_record_get_handshake_client_key_exchange_pke)
	SET1("setcv", tls_record_set_handshake_certificate_verify)
	GET1("getcv", tls_record_get_handshake_certificate_verify)
	SET1("setfin", tls_record_set_handshake_finished)
	GET1("getfin", tls_record_get_handshake_finished)
	else if (!strcmp(w[0], "setcr") && nw == 4) {
		buf_t ty = fld(w[2]), nm = fld(w[3]); rec = newrec(w[1]);
		{ int ret_ = tls_record_set_handshake_certificate_request(rec, &rl, PTR(w[2], ty), ty.n, PTR(w[3], nm), nm.n); put_set(ret_, rec, rl); }
		free(rec); free(ty.p); free(nm.p);
	}
	else if (!strcmp(w[0], "getcr") && nw == 2) {
		const uint8_t *ty, *nm; size_t tl, nl;
		if (!(rec = getrec(w[1], &n))) { printf("PRECONDITION"); return; }
		if (tls_record_get_handshake_certificate_request(rec, &ty, &tl, &nm, &nl) == 1) {
			if (!inside(rec, n, ty, tl) || !inside(rec, n, nm, nl)) printf("OUTSIDE"); else { puthex(ty, tl); printf("|"); puthex(nm, nl); }
		} else printf("ERR");
		free(rec);
	}
	else if (!strcmp(w[0], "setshd") && nw == 2) { rec = newrec(w[1]); { int ret_ = tls_record_set_handshake_server_hello_done(rec, &rl); put_set(ret_, rec, rl); } free(rec); }
	else if (!strcmp(w[0], "getshd") && nw == 2) {
		if (!(rec = getrec(w[1], &n))) { printf("PRECONDITION"); return; }
		printf(tls_record_get_handshake_server_hello_done(rec) == 1 ? "OK" : "ERR"); free(rec);
	}

	/* ---------------- TLS 1.3 forms ---------------- */
	else if (!strcmp(w[0], "setee13") && nw == 2) { rec = newrec(w[1]); { int ret_ = tls13_record_set_handshake_encrypted_extensions(rec, &rl); put_set(ret_, rec, rl); } free(rec); }
	else if (!strcmp(w[0], "getee13") && nw == 2) {
		if (!(rec = getrec(w[1], &n))) { printf("PRECONDITION"); return; }
		printf(tls13_record_get_handshake_encrypted_extensions(rec) == 1 ? "OK" : "ERR"); free(rec);
	}
	else if (!strcmp(w[0], "setcv13") && nw == 4) {
		buf_t sg = fld(w[3]); rec = newrec(w[1]);
		{ int ret_ = tls13_record_set_handshake_certificate_verify(rec, &rl, (int)strtoul(w[2], NULL, 16), PTR(w[3], sg), sg.n); put_set(ret_, rec, rl); }
		free(rec); free(sg.p);
	}
	else if (!strcmp(w[0], "getcv13") && nw == 2) {
		int alg = -77; const uint8_t *sg = UNSET_PTR; size_t sl = SENT;
		if (!(rec = getrec(w[1], &n))) { printf("PRECONDITION"); return; }
		if (tls13_record_get_handshake_certificate_verify(rec, &alg, &sg, &sl) == 1) {
			if (sg == UNSET_PTR || sl == SENT) printf("RETURNED-1-OUTPUT-UNSET alg=%04x", alg & 0xffff);
			else if (!inside(rec, n, sg, sl)) printf("OUTSIDE");
			else { printf("%04x|", alg & 0xffff); puthex(sg, sl); }
		} else printf("ERR");
		free(rec);
	}
	else if (!strcmp(w[0], "setcr13") && nw == 4) {
		buf_t cx = fld(w[2]), ex = fld(w[3]); rec = newrec(w[1]);
		{ int ret_ = tls13_record_set_handshake_certificate_request(rec, &rl, PTR(w[2], cx), cx.n, PTR(w[3], ex), ex.n); put_set(ret_, rec, rl); }
		free(rec); free(cx.p); free(ex.p);
	}
	else if (!strcmp(w[0], "getcr13") && nw == 2) {
		const uint8_t *cx = UNSET_PTR, *ex = UNSET_PTR; size_t cl = SENT, el = SENT;
		if (!(rec = getrec(w[1], &n))) { printf("PRECONDITION"); return; }
		if (tls13_record_get_handshake_certificate_request(rec, &cx, &cl, &ex, &el) == 1) {
			if (cx == UNSET_PTR || ex == UNSET_PTR || cl == SENT || el == SENT) printf("RETURNED-1-OUTPUT-UNSET");
			else if (!inside(rec, n, cx, cl) || !inside(rec, n, ex, el)) printf("OUTSIDE");
			else { puthex(cx, cl); printf("|"); puthex(ex, el); }
		} else printf("ERR");
		free(rec);
	}
	else if (!strcmp(w[0], "setcert13") && nw == 5) {
		uint8_t *cat = malloc(1); size_t cl = 0; char *save = NULL, *t; buf_t cx = fld(w[2]);
		if (!isdot(w[3])) for (t = strtok_r(w[3], ",", &save); t; t = strtok_r(NULL, ",", &save)) { buf_t c = hex2buf(t); cat = realloc(cat, cl + c.n + 1); memcpy(cat + cl, c.p, c.n); cl += c.n; free(c.p); }
		rec = newrec(w[1]);
		{ int ret_ = tls13_record_set_handshake_certificate(rec, &rl, PTR(w[2], cx), cx.n, cl ? cat : NULL, cl); put_set(ret_, rec, rl); }
		free(rec); free(cat); free(cx.p);
	}
	else if (!strcmp(w[0], "getcert13") && nw == 2) {
		const uint8_t *cx = UNSET_PTR, *ls = UNSET_PTR; size_t cl = SENT, ll = SENT;
		if (!(rec = getrec(w[1], &n))) { printf("PRECONDITION"); return; }
		if (tls13_record_get_handshake_certificate(rec, &cx, &cl, &ls, &ll) == 1) {
			if (cx == UNSET_PTR || ls == UNSET_PTR || cl == SENT || ll == SENT) printf("RETURNED-1-OUTPUT-UNSET");
			else if (!inside(rec, n, cx, cl) || !inside(rec, n, ls, ll)) printf("OUTSIDE");
			else { puthex(cx, cl); printf("|"); puthex(ls, ll); }
		} else printf("ERR");
		free(rec);
	}
	else if (!strcmp(w[0], "certlist13") && nw == 3) {      /* the certificate_list bytes -> the certificates, into a buffer of the callers' capacity */
		buf_t ls = hex2buf(w[1]); uint8_t *out = malloc(TLS_MAX_CERTIFICATES_SIZE); size_t ol = SENT;
		if (tls13_process_certificate_list(ls.p, ls.n, out, &ol) == 1) { if (ol > TLS_MAX_CERTIFICATES_SIZE) printf("OVER-CAPACITY %zu", ol); else puthex(out, ol); } else printf("ERR");
		free(out); free(ls.p);
	}
	else if (!strcmp(w[0], "setfin13") && nw == 3) {
		buf_t vd = fld(w[2]); rec = newrec(w[1]);
		{ int ret_ = tls13_record_set_handshake_finished(rec, &rl, PTR(w[2], vd), vd.n); put_set(ret_, rec, rl); }
		free(rec); free(vd.p);
	}
	else if (!strcmp(w[0], "getfin13") && nw == 2) {
		const uint8_t *vd = UNSET_PTR; size_t vl = SENT;
		if (!(rec = getrec(w[1], &n))) { printf("PRECONDITION"); return; }
		if (tls13_record_get_handshake_finished(rec, &vd, &vl) == 1) { if (vd == UNSET_PTR || vl == SENT) printf("RETURNED-1-OUTPUT-UNSET"); else if (!inside(rec, n, vd, vl)) printf("OUTSIDE"); else puthex(vd, vl); } else printf("ERR");
		free(rec);
	}
	else if (!strcmp(w[0], "chexts13") && nw == 3) {        /* ClientHello extensions for a key share; w[2] = capacity given */
		buf_t pt = fld(w[1]); SM2_Z256_POINT P; size_t cap = strtoul(w[2], NULL, 10), el = SENT; uint8_t *ex;
		if (sm2_z256_point_from_octets(&P, pt.p, pt.n) != 1) { printf("SKIP invalid-point"); free(pt.p); return; }
		ex = malloc(cap ? cap : 1);
		if (tls13_client_hello_exts_set(ex, &el, cap, &P) == 1) { if (el > cap) printf("OVER-CAPACITY %zu", el); else puthex(ex, el); } else printf("ERR");
		free(ex); free(pt.p);
	}
	else if (!strcmp(w[0], "shexts13") && nw == 3) {        /* ServerHello extensions -> the server's key share */
		buf_t ex = hex2buf(w[1]); SM2_Z256_POINT P; uint8_t oct[65]; int r;
		signal(SIGALRM, on_alarm);
		if (sigsetjmp(hang_jmp, 1)) { printf("HANG"); free(ex.p); return; }
		memset(&P, 0, sizeof P);
		alarm(2); r = tls13_server_hello_extensions_get(ex.n ? ex.p : NULL, ex.n, &P); alarm(0);
		if (r == 1) { static const SM2_Z256_POINT Z; if (!memcmp(&P, &Z, sizeof P)) printf("OK-NO-KEY-SHARE"); else { sm2_z256_point_to_uncompressed_octets(&P, oct); puthex(oct, 65); } } else printf("ERR");
		free(ex.p);
	}
	else if (!strcmp(w[0], "pchexts13") && nw == 6) {       /* ClientHello extensions as the server processes them; w[2] = server ephemeral scalar; w[3] = capacity */
		buf_t ex = hex2buf(w[1]), k = hex2buf(w[2]); SM2_KEY key; sm2_z256_t d; SM2_Z256_POINT P; size_t cap = strtoul(w[3], NULL, 10), ol = SENT; uint8_t *out = malloc(cap ? cap : 1), oct[65]; int r;
		if (k.n != 32) { printf("SKIP"); return; }
		sm2_z256_from_bytes(d, k.p); if (sm2_key_set_private_key(&key, d) != 1) { printf("SKIP invalid-scalar"); return; }
		signal(SIGALRM, on_alarm);
		if (sigsetjmp(hang_jmp, 1)) { printf("HANG"); return; }
		memset(&P, 0, sizeof P);
		alarm(2); r = tls13_process_client_hello_exts(ex.n ? ex.p : NULL, ex.n, &key, &P, out, &ol, cap); alarm(0);
		if (r == 1) { static const SM2_Z256_POINT Z; if (ol > cap) printf("OVER-CAPACITY %zu", ol); else { if (!memcmp(&P, &Z, sizeof P)) printf("-"); else { sm2_z256_point_to_uncompressed_octets(&P, oct); puthex(oct, 65); } printf("|"); puthex(out, ol); } } else printf("ERR");
		free(out); free(ex.p); free(k.p);
	}
	/* ---------------- TLS 1.2 extension processing (src/tls_ext.c) ---------------- */
	else if (!strcmp(w[0], "nametab") && nw == 2) {         /* the values the library knows a name for */
		int v, first = 1;
		for (v = 0; v < 65536; v++) {
			const char *nm = !strcmp(w[1], "ext") ? tls_extension_name(v) : !strcmp(w[1], "sig") ? tls_signature_scheme_name(v) : !strcmp(w[1], "pf") ? tls_ec_point_format_name(v)
				: !strcmp(w[1], "curve") ? tls_curve_name(v) : !strcmp(w[1], "proto") ? tls_protocol_name(v) : !strcmp(w[1], "cs") ? tls_cipher_suite_name(v) : !strcmp(w[1], "hs") ? tls_handshake_type_name(v) : !strcmp(w[1], "ct") ? tls_cert_type_name(v) : NULL;
			if (nm) { printf("%s%d", first ? "" : ",", v); first = 0; }
		}
		if (first) printf("-");
	}
	else if (!strcmp(w[0], "pchexts12") && nw == 3) {       /* ClientHello extensions as the TLS 1.2 server processes them; w[2] = capacity */
		buf_t ex = hex2buf(w[1]); size_t cap = strtoul(w[2], NULL, 10), ol = 0; uint8_t *out = malloc(cap ? cap : 1); int r;
		signal(SIGALRM, on_alarm);
		if (sigsetjmp(hang_jmp, 1)) { printf("HANG"); return; }
		alarm(2); r = tls_process_client_hello_exts(ex.n ? ex.p : NULL, ex.n, out, &ol, cap); alarm(0);
		if (r == 1) { if (ol > cap) printf("OVER-CAPACITY %zu", ol); else puthex(out, ol); } else printf("ERR");
		free(out); free(ex.p);
	}
	else if (!strcmp(w[0], "shexts12") && nw == 2) {        /* ServerHello extensions as the TLS 1.2 client processes them */
		buf_t ex = hex2buf(w[1]); int pf = -77, grp = -77, sg = -77, r;
		signal(SIGALRM, on_alarm);
		if (sigsetjmp(hang_jmp, 1)) { printf("HANG"); return; }
		alarm(2); r = tls_process_server_hello_exts(ex.n ? ex.p : NULL, ex.n, &pf, &grp, &sg); alarm(0);
		if (r == 1) printf("%d|%d|%d", pf, grp, sg); else printf("ERR");
		free(ex.p);
	}
	else printf("ERR bad-op");
}

int main(void) { quiet_stderr(); main_loop(handle); return 0; }
