(* C17 model driver: SM9 field tower, mod-N helpers and hash-to-range.
   For every op it evaluates the extracted Impl model (the C formulas) and the Spec
   (quotient-ring arithmetic / inverse by norms / Frobenius with computed constants / the
   standard's hash-to-range) and prints the Spec value as the expected result; when the
   Impl model itself differs from the Spec on this input the line carries IMPLMODEL=<hex>. *)
let zhex (s : string) : z = bigz_of_hex s
let hexz (x : z) : string = hex_of_bigz ~width:64 x
let zlt a b = Z.ltb a b
let zmodp x = Z.modulo x p
exception Range
let fp_of s = if String.length s <> 64 then raise Range else
  let x = zhex s in if zlt x p then x else raise Range
let t2_of s = if String.length s <> 128 then raise Range else
  let a1 = fp_of (String.sub s 0 64) and a0 = fp_of (String.sub s 64 64) in (a0, a1)
let t4_of s = if String.length s <> 256 then raise Range else
  let a1 = t2_of (String.sub s 0 128) and a0 = t2_of (String.sub s 128 128) in (a0, a1)
let t12_of s = if String.length s <> 768 then raise Range else
  let a2 = t4_of (String.sub s 0 256) and a1 = t4_of (String.sub s 256 256) and a0 = t4_of (String.sub s 512 256) in
  ((a0, a1), a2)
let h2 (a0, a1) = hexz a1 ^ hexz a0
let h4 (a0, a1) = h2 a1 ^ h2 a0
let h12 ((a0, a1), a2) = h4 a2 ^ h4 a1 ^ h4 a0

let out pr canon impl spec =
  let i = canon impl and s = canon spec in
  if i = s then pr s else pr s ^ " IMPLMODEL=" ^ pr i
let o2 = out h2 canon2 and o4 = out h4 canon4 and o12 = out h12 canon12
let z_of_small n = z_of_int n

(* square-and-multiply mod m with the extracted Z (driver-level helper for mod-N checks) *)
let rec zpowmod b e m =
  if Z.eqb e Z0 then z_of_small 1 else
  let h = zpowmod b (Z.div e (z_of_small 2)) m in
  let h2 = Z.modulo (Z.mul h h) m in
  if Z.eqb (Z.modulo e (z_of_small 2)) Z0 then h2 else Z.modulo (Z.mul h2 b) m

let r256 = Z.pow (z_of_small 2) (z_of_small 256)
let raw s = if String.length s <> 64 then raise Range else
  let x = zhex s in if Z.leb x p then x else raise Range

(* Fp on raw representatives: expected = canonical Spec value; the raw Impl-model value is attached
   when it is the non-canonical representative p of 0 *)
let fpout i s =
  if zmodp i <> zmodp s then "MODEL-IMPL-SPEC-DIFFER " ^ hexz i ^ " " ^ hexz (zmodp s)
  else if i = zmodp s then hexz i else hexz (zmodp s) ^ " IMPLMODEL=" ^ hexz i

let handle ws = try (match ws with
  (* ---- Fp on raw representatives in [0,p] (no Montgomery conversion in the harness) *)
  | ["fp"; op; a] ->
    let x = raw a in
    let (i, s) = (match op with
      | "neg" -> (fneg x, Z.opp x) | "dbl" -> (fdbl x, Z.mul (z_of_small 2) x)
      | "tri" -> (ftri x, Z.mul (z_of_small 3) x) | "haf" -> (fhaf x, Z.mul x inv2)
      | "tomont" -> (zmodp (Z.mul x r256), Z.mul x r256)
      | "frommont" -> (fmont x (z_of_small 1), Z.mul x rinv)
      | "montsqr" -> (fmont x x, Z.mul (Z.mul x x) rinv)
      | "montinv" -> (zmodp (Z.mul (finv (zmodp (Z.mul x rinv))) r256), Z.mul (sfinv (Z.mul x rinv)) r256)
      | _ -> failwith "op") in
    fpout i s
  | ["fp"; op; a; b] ->
    let x = raw a and y = raw b in
    let (i, s) = (match op with
      | "add" -> (fadd x y, Z.add x y) | "sub" -> (fsub x y, Z.sub x y)
      | "montmul" -> (fmont x y, Z.mul (Z.mul x y) rinv)
      | _ -> failwith "op") in
    fpout i s
  (* ---- Fp2 *)
  | ["fp2"; op; a] ->
    let x = t2_of a in
    (match op with
     | "neg" -> o2 (i2neg x) (s2neg x) | "dbl" -> o2 (i2dbl x) (s2add x x)
     | "tri" -> o2 (i2tri x) (s2add (s2add x x) x) | "haf" -> o2 (i2haf x) (s2scale inv2 x)
     | "sqr" -> o2 (i2sqr x) (s2mul x x) | "squ" -> o2 (i2sqr_u x) (s2mul s2u (s2mul x x))
     | "inv" -> o2 (i2inv x) (s2inv x) | "amulu" -> o2 (i2a_mul_u x) (s2mul s2u x)
     | "conj" -> o2 (i2conj x) (s2conj x)
     | "frob" -> o2 (i2conj x) (s2cj (z_of_small 1) x)
     | _ -> "ERR bad-op")
  | ["fp2"; "mulfp"; a; k] -> let x = t2_of a and kk = fp_of k in o2 (i2mul_fp x kk) (s2scale kk x)
  | ["fp2"; op; a; b] ->
    let x = t2_of a and y = t2_of b in
    (match op with
     | "add" -> o2 (i2add x y) (s2add x y) | "sub" -> o2 (i2sub x y) (s2sub x y)
     | "mul" -> o2 (i2mul x y) (s2mul x y) | "mulu" -> o2 (i2mul_u x y) (s2mul s2u (s2mul x y))
     | "div" -> o2 (i2div x y) (s2mul x (s2inv y))
     | _ -> "ERR bad-op")
  (* ---- Fp4 *)
  | ["fp4"; op; a] ->
    let x = t4_of a in
    (match op with
     | "neg" -> o4 (i4neg x) (s4neg x) | "dbl" -> o4 (i4dbl x) (s4add x x)
     | "haf" -> o4 (i4haf x) (s4scale inv2 x)
     | "sqr" -> o4 (i4sqr x) (s4mul x x) | "sqrv" -> o4 (i4sqr_v x) (s4mul s4v (s4mul x x))
     | "inv" -> o4 (i4inv x) (s4inv x) | "amulv" -> o4 (i4a_mul_v x) (s4mul s4v x)
     | "conj" -> o4 (i4conj x) (s4conj x)
     | "frob" -> o4 (i4frobenius x) (s4frob (z_of_small 1) x)
     | "frob2" -> o4 (i4frobenius2 x) (s4frob (z_of_small 2) x)
     | "frob3" -> o4 (i4frobenius3 x) (s4frob (z_of_small 3) x)
     | "frobpow" -> o4 (i4frobenius x) (r4pow x p)
     | _ -> "ERR bad-op")
  | ["fp4"; "mulfp"; a; k] -> let x = t4_of a and kk = fp_of k in o4 (i4mul_fp x kk) (s4scale kk x)
  | ["fp4"; "mulfp2"; a; b] -> let x = t4_of a and y = t2_of b in o4 (i4mul_fp2 x y) (s4scale2 y x)
  | ["fp4"; op; a; b] ->
    let x = t4_of a and y = t4_of b in
    (match op with
     | "add" -> o4 (i4add x y) (s4add x y) | "sub" -> o4 (i4sub x y) (s4sub x y)
     | "mul" -> o4 (i4mul x y) (s4mul x y) | "mulv" -> o4 (i4mul_v x y) (s4mul s4v (s4mul x y))
     | _ -> "ERR bad-op")
  (* ---- Fp12 *)
  | ["fp12"; op; a] ->
    let x = t12_of a in
    (match op with
     | "neg" -> o12 (i12neg x) (s12neg x) | "dbl" -> o12 (i12dbl x) (s12add x x)
     | "tri" -> o12 (i12tri x) (s12add (s12add x x) x)
     | "sqr" -> o12 (i12sqr x) (s12mul x x)
     | "inv" -> o12 (i12inv x) (s12inv x)
     (* compositions: neg / conjugation must hand inv a recognisable zero (regression guard for c2dbe37) *)
     | "invneg" -> o12 (i12inv (i12neg x)) (s12inv (s12neg x))
     | "invfrob6" -> o12 (i12inv (i12frobenius6 x)) (s12inv (s12frob (z_of_small 6) x))
     | "frob" -> o12 (i12frobenius x) (s12frob (z_of_small 1) x)
     | "frob2" -> o12 (i12frobenius2 x) (s12frob (z_of_small 2) x)
     | "frob3" -> o12 (i12frobenius3 x) (s12frob (z_of_small 3) x)
     | "frob6" -> o12 (i12frobenius6 x) (s12frob (z_of_small 6) x)
     | "frobpow" -> o12 (i12frobenius x) (r12pow x p)
     | _ -> "ERR bad-op")
  | ["fp12"; "pow"; a; k] ->
    let x = t12_of a and kk = zhex k in o12 (i12pow x kk) (r12pow x kk)
  | ["fp12"; "linemul"; a; l0; l1; l2] ->
    let x = t12_of a and m0 = t2_of l0 and m1 = t2_of l1 and m2 = t2_of l2 in
    o12 (i12line_mul x m0 m1 m2) (s12mul x (s12line m0 m1 m2))
  | ["fp12"; op; a; b] ->
    let x = t12_of a and y = t12_of b in
    (match op with
     | "add" -> o12 (i12add x y) (s12add x y) | "sub" -> o12 (i12sub x y) (s12sub x y)
     | "mul" -> o12 (i12mul x y) (s12mul x y)
     | _ -> "ERR bad-op")
  (* ---- scalars mod N *)
  | ["modn"; "add"; a; b] ->
    let x = zhex a and y = zhex b in
    let i = modn_add x y and s = Z.modulo (Z.add x y) nord in
    if i = s then hexz s else hexz s ^ " IMPLMODEL=" ^ hexz i
  | ["modn"; "sub"; a; b] ->
    let x = zhex a and y = zhex b in
    let i = modn_sub x y and s = Z.modulo (Z.sub x y) nord in
    if i = s then hexz s else hexz s ^ " IMPLMODEL=" ^ hexz i
  | ["modn"; "mul"; a; b] ->
    let x = zhex a and y = zhex b in
    let s = Z.modulo (Z.mul x y) nord in
    if Z.ltb x nord && Z.ltb y nord then (let i = modn_mul x y in if i = s then hexz s else hexz s ^ " IMPLMODEL=" ^ hexz i) else hexz s
  | ["modn"; "inv"; a] ->
    let x = zhex a in let s = zpowmod x (Z.sub nord (z_of_small 2)) nord in
    let i = modn_inv x in if i = s then hexz s else hexz s ^ " IMPLMODEL=" ^ hexz i
  | "rnd" :: (("range" | "rangefail") as op) :: stream :: n :: rest ->
    let nd = String.length stream / 64 in
    let le s = (* 32 bytes little-endian -> Z *)
      let b = Bytes.create 64 in
      for i = 0 to 31 do Bytes.blit_string s (2 * (31 - i)) b (2 * i) 2 done; zhex (Bytes.to_string b) in
    let fail = (match op, rest with "rangefail", [f] -> int_of_string f | _ -> -1) in
    let draws = List.init nd (fun i -> if i = fail then None else Some (le (String.sub stream (64 * i) 64))) in
    (match rand_range (zhex n) draws with
     | RR_ok (r, k) -> Printf.sprintf "1 %d %s" (int_of_nat k) (hexz r)
     | RR_retry k -> Printf.sprintf "0 %d" (int_of_nat k)
     | RR_fail k -> Printf.sprintf "-1 %d" (int_of_nat k)
     | RR_starved -> "MODEL-STARVED")
  | ["t2"; id; hid; k] ->
    let h1 = sm9_hash1_impl (bytes_of_hex id) (n_of_int (int_of_string hid)) in
    (match extract_t2 h1 (zhex k) with Some t -> hexz t | None -> "NONE")
  (* ---- Jacobian formulas *)
  | ["jm"; "g1"; "mul"; k; x; y; z] ->
    let ((a, b), cc) = j1mul (zhex k) ((fp_of x, fp_of y), fp_of z) in hexz (zmodp a) ^ " " ^ hexz (zmodp b) ^ " " ^ hexz (zmodp cc)
  | "jm" :: "g1" :: op :: args ->
    let c = List.map fp_of args in
    let pj (x, y, z) = hexz (zmodp x) ^ " " ^ hexz (zmodp y) ^ " " ^ hexz (zmodp z) in
    let b01 b = if b then "1" else "0" in
    (match op, c with
     | "dbl", [x; y; z] -> pj (let ((a, b), cc) = j1dbl ((x, y), z) in (a, b, cc))
     | "neg", [x; y; z] -> pj (let ((a, b), cc) = j1neg ((x, y), z) in (a, b, cc))
     | "add", [x; y; z; x2; y2; z2] -> pj (let ((a, b), cc) = j1add ((x, y), z) ((x2, y2), z2) in (a, b, cc))
     | "sub", [x; y; z; x2; y2; z2] -> pj (let ((a, b), cc) = j1sub ((x, y), z) ((x2, y2), z2) in (a, b, cc))
     | "addaff", [x; y; z; x2; y2] -> pj (let ((a, b), cc) = j1add_affine ((x, y), z) (x2, y2) in (a, b, cc))
     | "oncurve", [x; y; z] -> b01 (j1on_curve ((x, y), z))
     | "equ", [x; y; z; x2; y2; z2] -> b01 (j1equ ((x, y), z) ((x2, y2), z2))
     | _ -> "ERR bad-op")
  | "jm" :: "g2" :: op :: args ->
    let pj ((x, y), z) = h2 (canon2 x) ^ " " ^ h2 (canon2 y) ^ " " ^ h2 (canon2 z) in
    let b01 b = if b then "1" else "0" in
    (match op, args with
     | "mul", [k; x; y; z] -> pj (j2mul (zhex k) ((t2_of x, t2_of y), t2_of z))
     | _, _ ->
       let c = List.map t2_of args in
       (match op, c with
        | "dbl", [x; y; z] -> pj (j2dbl ((x, y), z))
        | "neg", [x; y; z] -> pj (j2neg ((x, y), z))
        | "add", [x; y; z; x2; y2; z2] -> pj (j2add ((x, y), z) ((x2, y2), z2))
        | "addfull", [x; y; z; x2; y2; z2] -> pj (j2add_full ((x, y), z) ((x2, y2), z2))
        | "sub", [x; y; z; x2; y2; z2] -> pj (j2sub ((x, y), z) ((x2, y2), z2))
        | "oncurve", [x; y; z] -> b01 (j2on_curve ((x, y), z))
        | _ -> "ERR bad-op"))
  | ["z256"; "booth"; k; w; i] ->
    let v = booth (zhex k) (z_of_small (int_of_string w)) (z_of_small (int_of_string i)) in string_of_int (int_of_z v)
  | ["z256"; "add"; a; b] -> let s = Z.add (zhex a) (zhex b) in (if Z.ltb s r256 then "0 " else "1 ") ^ hexz (Z.modulo s r256)
  | ["z256"; "sub"; a; b] -> let s = Z.sub (zhex a) (zhex b) in (if Z.ltb s Z0 then "1 " else "0 ") ^ hexz (Z.modulo s r256)
  | ["z256"; "mul"; a; b] -> hex_of_bigz ~width:128 (Z.mul (zhex a) (zhex b))
  | ["z256"; "cmp"; a; b] -> let x = zhex a and y = zhex b in if Z.ltb x y then "-1" else if x = y then "0" else "1"
  | ["z256"; "equ"; a; b] -> if zhex a = zhex b then "1" else "0"
  | ["z256"; "iszero"; a] -> if zhex a = Z0 then "1" else "0"
  | ["z256"; "bits"; a] -> hexz (zhex a)
  | ["z256"; "cmov"; a; b; m] -> if m = "0" then hexz (zhex a) else hexz (zhex b)
  | ["z256"; "hex"; a] -> String.lowercase_ascii a ^ " 1 1 " ^ String.lowercase_ascii a
  | ["hexrt"; ("fp2" | "fp4" | "fp12"); a] -> String.lowercase_ascii a
  | ["fromhash"; ha] ->
    if String.length ha <> 80 then "ERR" else
    let z = zhex ha in
    let i = from_hash_impl z and s = from_hash_spec z in
    if i = s then hexz s else hexz s ^ " IMPLMODEL=" ^ hexz i
  | ["hash1"; id; hid] ->
    let idb = bytes_of_hex id and h = n_of_int (int_of_string hid) in
    let i = sm9_hash1_impl idb h and s = sm9_hash1_spec idb h in
    if i = s then hexz s else hexz s ^ " IMPLMODEL=" ^ hexz i
  (* ---- predicates *)
  | ["pred"; "fp2"; "equ"; a; b] -> if i2equ (t2_of a) (t2_of b) then "1" else "0"
  | ["pred"; "fp2"; "iszero"; a] -> if i2is_zero (t2_of a) then "1" else "0"
  | ["pred"; "fp2"; "isone"; a] -> if i2is_one (t2_of a) then "1" else "0"
  | ["pred"; "fp4"; "equ"; a; b] -> if i4equ (t4_of a) (t4_of b) then "1" else "0"
  | ["pred"; "fp4"; "iszero"; a] -> if i4is_zero (t4_of a) then "1" else "0"
  | ["pred"; "fp12"; "equ"; a; b] -> if i12equ (t12_of a) (t12_of b) then "1" else "0"
  (* ---- DER layer: sm9_signature_from_der / sm9_ciphertext_from_der alone *)
  | ["dersig"; hx] ->
    (match sm9_sig_from_der (bytes_of_hex hx) with
     | Ok ((h, s), rest) ->
       Printf.sprintf "1 %d %s %s" (List.length (bytes_of_hex hx) - List.length rest) (hex_of_bytes h) (hex_of_bytes (List.tl s))
     | Absent -> "0" | Err -> "-1" | Fault -> "MODEL-FAULT")
  | ["derct"; hx] ->
    (match sm9_ct_from_der (bytes_of_hex hx) with
     | Ok (((c1, c3), c2), rest) ->
       Printf.sprintf "1 %d %s %s %s" (List.length (bytes_of_hex hx) - List.length rest) (hex_of_bytes (List.tl c1)) (hex_of_bytes c3) (hex_of_bytes c2)
     | Absent -> "0" | Err -> "-1" | Fault -> "MODEL-FAULT")
  (* ---- impl-only algebraic checks: the expected outcome is fixed *)
  | "law" :: _ -> "OK"
  | ["kat"; _; expected] -> expected
  | _ -> "ERR bad-op")
  with Range -> "ERR"

let () = main_loop handle
